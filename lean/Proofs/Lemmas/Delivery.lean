import TunnelModel.LFrame.Trace
import Proofs.Lemmas.Framing
/-!
  C01, DELIVERY half — "the messages an application obtains are exactly the
  complete messages obtained by reassembling, from the start, the data frames
  that were fed to its stream, in order, with nothing duplicated, reordered,
  merged or fabricated" — for both endpoints, at the level of one stream object
  (`SStream.runEv` / `CStream.runEv` of `TunnelModel/LFrame/Trace.lean`).

  ## Main results

  * `server_delivers_parsed_prefix` (`fc = true`), `server_delivers_parsed_prefix_rev0`
    (any `fc`, final state has `unsupported = false`):
      `Out.deliveredMsgs (SStream.runEv cfg sid s0 evs).2 <+: (parse none (SEv.fedData evs)).1`
    for `Fresh s0` and `legalRecvsS cfg sid s0 evs = true`;
  * `client_delivers_parsed_prefix`, `client_delivers_parsed_prefix_rev0`: the same
    for `CFresh s0` and `legalRecvsC cfg sid s0 evs = true`;
  * `server_no_fabrication(_rev0)`, `client_no_fabrication(_rev0)`: every delivered
    message is one of the complete messages of the fed frames, and the number
    delivered is at most the number of complete messages;
  * `runEv_inv` / `crunEv_inv`: the full accounting invariant (`SInv` / `CInv`)
    along a run, from which the above follow.

  ## What differs from the statement first asked for, and why

  The statement without any assumption on the event list is FALSE: the
  histories must be *legal with respect to reads* (`legalRecvsS` / `legalRecvsC`,
  same style as `legalSends` in Trace.lean): a `.call .recv` is only issued
  when no read is pending (`pread = none`).  This is the grpc-go stream
  contract (one `RecvMsg` at a time on each side of an RPC).  In the model a
  second `RecvMsg` while one is pending overwrites `pread` with a new read
  (`startRecv` / `CCall.recv` set `pread := some {lookahead := none, rst := none}`),
  so the partial message (or the message held by the look-ahead) of the first
  read is lost.  Counterexamples (checked below by `decide`), on a fresh stream
  with `fc = true`:

  * `cs = ss = true`, events
      `[.call .recv, .frame (.msg 2 [7]), .call .recv, .frame (.msg 1 [9])]`:
    delivered `[[9]]`, but `parse none [env 2 [7], env 1 [9]]` has NO complete
    message (it stops with `envBeforeDone`): `[[9]]` is fabricated from the
    point of view of the frame sequence.  Same events on the client.
  * `cs = false`, events
      `[.call .recv, .frame (.msg 1 [7]), .call .recv, .frame (.msg 1 [9]), .frame .halfClose]`:
    delivered `[[9]]`, complete messages `[[7], [9]]`: not a prefix.

  (The proofs only need the weaker `recvOK`: the pending read, if any, retains
  nothing — `lookahead = none` and `rst = none`; `pread = none` implies it.)

  Flow control: `server_/client_delivers_parsed_prefix` are for `fc = true`.
  For revision zero (`fc = false`) the receiver is a one-slot hand-off and the
  model gives up (`unsupported := true`, the frame is not enqueued) when a frame
  arrives while the slot is full; the `_rev0` theorems hold for any `fc` under
  the hypothesis that the final state has `unsupported = false` (`unsupported`
  is sticky, so the model never gave up during the run).

  `Fresh` / `CFresh` are exactly what `Srv.createStream` / `Cli.newStream` build
  (for a unary method `createStream` starts the decode read at once on the empty
  queue: second alternative of the last conjunct of `Fresh`).

  ## Proof structure

  `InvC q c pr b fed del` (endpoint independent) is the invariant on the queue
  `q`, the receiver's `closed` flag `c`, the pending read `pr` and "reading is
  over for good" `b`, relating the ghost histories `fed` / `del`:
  either `pr = none ∧ b` and `del <+: (parse none fed).1` (nothing will be
  delivered any more), or `¬ b` and `Acct`: `fed = consumed ++ q ++ rest` where
  `consumed` was dequeued by reads, `rest` was dropped after the receiver was
  closed, and `parse none consumed = (del ++ held pr, .ok (rstOf pr))`.
  `readLoop_parse` characterises one pass of the read loop by `parse`;
  `parse_msgs_prefix` is the monotonicity of the complete messages.
  Per endpoint: every building block of the model is shown to keep the
  invariant (`Keeps`/`Sil`/`Tr`, `CKeeps`/`CTr`), then every event
  (`stepEv_spec`, `cstepEv_spec`), then an induction over the event list.
-/

namespace Proofs.Delivery
open TunnelModel.LFrame TunnelModel.Framing
open Proofs.Framing (parse_append)

variable {α : Type}

/-! ### `parse` along appended frames -/

theorem parse_append_ok {st st' : RState α} {fs : List (DFrame α)} {ms : List (List α)}
    (h : parse st fs = (ms, .ok st')) (gs : List (DFrame α)) :
    parse st (fs ++ gs) = (ms ++ (parse st' gs).1, (parse st' gs).2) := by
  rw [parse_append, h]

theorem parse_append_err {st : RState α} {fs : List (DFrame α)} {ms : List (List α)} {e : PErr}
    (h : parse st fs = (ms, .error e)) (gs : List (DFrame α)) :
    parse st (fs ++ gs) = (ms, .error e) := by
  rw [parse_append, h]

/-- the complete messages of a list of frames only grow when frames are appended -/
theorem parse_msgs_prefix (st : RState α) (fs gs : List (DFrame α)) :
    (parse st fs).1 <+: (parse st (fs ++ gs)).1 := by
  rcases h : parse st fs with ⟨ms, r⟩
  cases r with
  | ok st' => rw [parse_append_ok h]; exact List.prefix_append _ _
  | error e => rw [parse_append_err h]; exact List.prefix_refl _

theorem prefix_parse_extend {del : List (List α)} {fed : List (DFrame α)}
    (h : del <+: (parse none fed).1) (extra : List (DFrame α)) :
    del <+: (parse none (fed ++ extra)).1 :=
  h.trans (parse_msgs_prefix none fed extra)

/-! ### `readLoop` in terms of `parse` -/

/-- what one pass of the read loop takes out of the queue is a prefix of the
    queue, and its outcome is what `parse` says about that prefix -/
theorem readLoop_parse (q : List (DFrame α)) : ∀ (w : Nat) (st : RState α) (w' : Nat)
    (q' : List (DFrame α)) (cs : List Nat) (out : Option (PStep α)),
    readLoop w q st = (w', q', cs, out) →
    ∃ taken, q = taken ++ q' ∧
      (∀ st', out = some (.cont st') → q' = [] ∧ parse st taken = ([], .ok st')) ∧
      (∀ m, out = some (.msg m) → parse st taken = ([m], .ok none)) ∧
      out ≠ none := by
  induction q with
  | nil =>
    intro w st w' q' cs out h
    simp only [readLoop, Prod.mk.injEq] at h
    obtain ⟨_, h2, _, h4⟩ := h
    subst h2 h4
    refine ⟨[], rfl, ?_, ?_, by simp⟩
    · intro st' hst
      simp only [Option.some.injEq, PStep.cont.injEq] at hst
      subst hst
      exact ⟨rfl, rfl⟩
    · intro m hm; simp at hm
  | cons f q ih =>
    intro w st w' q' cs out h
    simp only [readLoop] at h
    split at h
    · rename_i st1 hps
      generalize hr : readLoop (w + f.size) q st1 = r at h
      obtain ⟨w2, q2, cs2, r2⟩ := r
      simp only [Prod.mk.injEq] at h
      obtain ⟨_, h2, _, h4⟩ := h
      subst h2 h4
      obtain ⟨taken, hq, hc, hm, hn⟩ := ih _ _ _ _ _ _ hr
      refine ⟨f :: taken, by rw [hq]; rfl, ?_, ?_, hn⟩
      · intro st' hst
        obtain ⟨h1, h2⟩ := hc st' hst
        exact ⟨h1, by simp only [parse, hps]; exact h2⟩
      · intro m hm'
        have := hm m hm'
        simp only [parse, hps]; exact this
    · rename_i m hps
      simp only [Prod.mk.injEq] at h
      obtain ⟨_, h2, _, h4⟩ := h
      subst h2 h4
      refine ⟨[f], rfl, ?_, ?_, by simp⟩
      · intro st' hst; simp at hst
      · intro m' hm'
        simp only [Option.some.injEq, PStep.msg.injEq] at hm'
        subst hm'
        simp [parse, hps]
    · rename_i e hps
      simp only [Prod.mk.injEq] at h
      obtain ⟨_, h2, _, h4⟩ := h
      subst h2 h4
      refine ⟨[f], rfl, ?_, ?_, by simp⟩
      · intro st' hst; simp at hst
      · intro m' hm'; simp at hm'

/-! ### the accounting invariant, independent of the endpoint -/

/-- message held by the pending read (the eager look-ahead holds the first message) -/
def held (pr : Option (PRead α)) : List (List α) :=
  match pr with
  | some p => (match p.lookahead with | some m => [m] | none => [])
  | none => []

/-- partial message of the pending read -/
def rstOf (pr : Option (PRead α)) : RState α :=
  match pr with
  | some p => p.rst
  | none => none

/-- a `RecvMsg` may be started: no read that retains data is pending -/
def recvOK (pr : Option (PRead α)) : Bool :=
  match pr with
  | none => true
  | some p => p.lookahead.isNone && p.rst.isNone

theorem recvOK_held {pr : Option (PRead α)} (h : recvOK pr = true) : held pr = [] ∧ rstOf pr = none := by
  unfold recvOK at h
  split at h
  · exact ⟨rfl, rfl⟩
  · rename_i p
    simp only [Bool.and_eq_true, Option.isNone_iff_eq_none] at h
    simp [held, rstOf, h.1, h.2]

/-- `Acct q c pr fed del`: the frames fed so far are `consumed ++ q ++ rest`
    where `consumed` was taken out of the queue by reads, `q` is the queue and
    `rest` was dropped after the receiver was closed (`c`); reassembling
    `consumed` from the start gives exactly the messages delivered so far, then
    the one held by the look-ahead, and stops in the state of the pending read -/
def Acct (q : List (DFrame α)) (c : Bool) (pr : Option (PRead α)) (fed : List (DFrame α))
    (del : List (List α)) : Prop :=
  ∃ consumed rest, fed = consumed ++ (q ++ rest) ∧ (c = false → rest = []) ∧
    parse none consumed = (del ++ held pr, .ok (rstOf pr))

/-- the invariant: either reading is over (`b`: blocked for good, no read
    pending) and only the prefix property is kept, or the accounting holds -/
def InvC (q : List (DFrame α)) (c : Bool) (pr : Option (PRead α)) (b : Bool) (fed : List (DFrame α))
    (del : List (List α)) : Prop :=
  (pr = none ∧ b = true ∧ del <+: (parse none fed).1) ∨ (b = false ∧ Acct q c pr fed del)

theorem Acct.prefix {q c pr fed del} (h : Acct (α := α) q c pr fed del) :
    (del ++ held pr) <+: (parse none fed).1 := by
  obtain ⟨consumed, rest, hf, _, hp⟩ := h
  subst hf
  have := parse_msgs_prefix none consumed (q ++ rest)
  rw [hp] at this
  exact this

theorem InvC.prefix {q c pr b fed del} (h : InvC (α := α) q c pr b fed del) :
    del <+: (parse none fed).1 := by
  rcases h with ⟨_, _, h⟩ | ⟨_, h⟩
  · exact h
  · exact (List.prefix_append del _).trans h.prefix

theorem InvC.prefix_held {q c p b fed del} (h : InvC (α := α) q c (some p) b fed del) :
    (del ++ held (some p)) <+: (parse none fed).1 := by
  rcases h with ⟨h, _, _⟩ | ⟨_, h⟩
  · exact absurd h (by simp)
  · exact h.prefix

theorem InvC.dead {del : List (List α)} {fed : List (DFrame α)} (h : del <+: (parse none fed).1)
    (q : List (DFrame α)) (c : Bool) : InvC q c none true fed del :=
  Or.inl ⟨rfl, rfl, h⟩

theorem Acct.mono_closed {q c c' pr fed del} (h : Acct (α := α) q c pr fed del) (hc : c = true → c' = true) :
    Acct q c' pr fed del := by
  obtain ⟨consumed, rest, hf, hr, hp⟩ := h
  refine ⟨consumed, rest, hf, fun h' => hr ?_, hp⟩
  cases c
  · rfl
  · rw [hc rfl] at h'; exact absurd h' (by simp)

/-- a frame accepted by an open receiver -/
theorem Acct.feed {q pr fed del} (h : Acct (α := α) q false pr fed del) (f : DFrame α) :
    Acct (q ++ [f]) false pr (fed ++ [f]) del := by
  obtain ⟨consumed, rest, hf, hr, hp⟩ := h
  have := hr rfl
  subst this
  refine ⟨consumed, [], ?_, fun _ => rfl, hp⟩
  rw [hf]; simp

/-- the receiver is closed (or is closed already) and more frames arrive: they are dropped -/
theorem Acct.close {q c pr fed del} (h : Acct (α := α) q c pr fed del) (extra : List (DFrame α)) :
    Acct q true pr (fed ++ extra) del := by
  obtain ⟨consumed, rest, hf, _, hp⟩ := h
  refine ⟨consumed, rest ++ extra, ?_, fun h => absurd h (by simp), hp⟩
  rw [hf]; simp

/-- a closed receiver is cancelled: its queue is discarded -/
theorem Acct.cancel {q pr fed del} (h : Acct (α := α) q true pr fed del) :
    Acct [] true pr fed del := by
  obtain ⟨consumed, rest, hf, _, hp⟩ := h
  exact ⟨consumed, q ++ rest, by rw [hf]; simp, fun h => absurd h (by simp), hp⟩

theorem Acct.start {q c pr fed del} (h : Acct (α := α) q c pr fed del) (hk : recvOK pr = true) :
    Acct q c (some { lookahead := none, rst := none }) fed del := by
  obtain ⟨consumed, rest, hf, hr, hp⟩ := h
  obtain ⟨h1, h2⟩ := recvOK_held hk
  rw [h1, h2] at hp
  exact ⟨consumed, rest, hf, hr, hp⟩

/-- one pass of the read loop that ran the queue dry -/
theorem Acct.read_cont {q q' : List (DFrame α)} {w w' : Nat} {cs : List Nat} {out : Option (PStep α)}
    {p : PRead α} {c fed del} {st' : RState α}
    (hr : readLoop w q p.rst = (w', q', cs, out)) (ho : out = some (.cont st'))
    (h : Acct q c (some p) fed del) :
    Acct q' c (some { lookahead := p.lookahead, rst := st' }) fed del := by
  obtain ⟨taken, hq, hc, _, _⟩ := readLoop_parse q _ _ _ _ _ _ hr
  obtain ⟨hq', hpt⟩ := hc st' ho
  obtain ⟨consumed, rest, hf, hrest, hp⟩ := h
  refine ⟨consumed ++ taken, rest, ?_, hrest, ?_⟩
  · rw [hf, hq]; simp
  · rw [parse_append_ok hp, show rstOf (some p) = p.rst from rfl, hpt]
    simp [held, rstOf]

/-- one pass of the read loop that completed a message (no look-ahead held) -/
theorem Acct.read_msg {q q' : List (DFrame α)} {w w' : Nat} {cs : List Nat} {out : Option (PStep α)}
    {p : PRead α} {c fed del} {m : List α}
    (hr : readLoop w q p.rst = (w', q', cs, out)) (ho : out = some (.msg m)) (hl : p.lookahead = none)
    (h : Acct q c (some p) fed del) :
    Acct q' c none fed (del ++ [m]) ∧
    Acct q' c (some { lookahead := some m, rst := none }) fed del := by
  obtain ⟨taken, hq, _, hm, _⟩ := readLoop_parse q _ _ _ _ _ _ hr
  have hpt := hm m ho
  obtain ⟨consumed, rest, hf, hrest, hp⟩ := h
  have hp' : parse none (consumed ++ taken) = (del ++ [m], .ok none) := by
    rw [parse_append_ok hp, show rstOf (some p) = p.rst from rfl, hpt]
    simp [held, hl]
  have hf' : fed = (consumed ++ taken) ++ (q' ++ rest) := by rw [hf, hq]; simp
  exact ⟨⟨consumed ++ taken, rest, hf', hrest, by rw [hp']; simp [held, rstOf]⟩,
         ⟨consumed ++ taken, rest, hf', hrest, by rw [hp']; simp [held, rstOf]⟩⟩

/-! #### the same at the level of `InvC` -/

theorem InvC.mono_closed {q c c' pr b fed del} (h : InvC (α := α) q c pr b fed del) (hc : c = true → c' = true) :
    InvC q c' pr b fed del := by
  rcases h with h | ⟨hb, h⟩
  · exact Or.inl h
  · exact Or.inr ⟨hb, h.mono_closed hc⟩

theorem InvC.feed {q pr b fed del} (h : InvC (α := α) q false pr b fed del) (f : DFrame α) :
    InvC (q ++ [f]) false pr b (fed ++ [f]) del := by
  rcases h with ⟨h1, h2, h3⟩ | ⟨hb, h⟩
  · exact Or.inl ⟨h1, h2, prefix_parse_extend h3 _⟩
  · exact Or.inr ⟨hb, h.feed f⟩

theorem InvC.close {q c pr b fed del} (h : InvC (α := α) q c pr b fed del) (extra : List (DFrame α)) :
    InvC q true pr b (fed ++ extra) del := by
  rcases h with ⟨h1, h2, h3⟩ | ⟨hb, h⟩
  · exact Or.inl ⟨h1, h2, prefix_parse_extend h3 _⟩
  · exact Or.inr ⟨hb, h.close extra⟩

theorem InvC.cancel {q pr b fed del} (h : InvC (α := α) q true pr b fed del) :
    InvC [] true pr b fed del := by
  rcases h with h | ⟨hb, h⟩
  · exact Or.inl h
  · exact Or.inr ⟨hb, h.cancel⟩

theorem InvC.start {q c pr fed del} (h : InvC (α := α) q c pr false fed del) (hk : recvOK pr = true) :
    InvC q c (some { lookahead := none, rst := none }) false fed del := by
  rcases h with ⟨_, h2, _⟩ | ⟨hb, h⟩
  · exact absurd h2 (by simp)
  · exact Or.inr ⟨hb, h.start hk⟩

theorem InvC.read_cont {q q' : List (DFrame α)} {w w' : Nat} {cs : List Nat} {out : Option (PStep α)}
    {p : PRead α} {c b fed del} {st' : RState α}
    (hr : readLoop w q p.rst = (w', q', cs, out)) (ho : out = some (.cont st'))
    (h : InvC q c (some p) b fed del) :
    InvC q' c (some { lookahead := p.lookahead, rst := st' }) b fed del := by
  rcases h with ⟨h, _, _⟩ | ⟨hb, h⟩
  · exact absurd h (by simp)
  · exact Or.inr ⟨hb, h.read_cont hr ho⟩

theorem InvC.read_deliver {q q' : List (DFrame α)} {w w' : Nat} {cs : List Nat} {out : Option (PStep α)}
    {p : PRead α} {c b fed del} {m : List α}
    (hr : readLoop w q p.rst = (w', q', cs, out)) (ho : out = some (.msg m)) (hl : p.lookahead = none)
    (h : InvC q c (some p) b fed del) :
    InvC q' c none b fed (del ++ [m]) := by
  rcases h with ⟨h, _, _⟩ | ⟨hb, h⟩
  · exact absurd h (by simp)
  · exact Or.inr ⟨hb, (h.read_msg hr ho hl).1⟩

theorem InvC.read_hold {q q' : List (DFrame α)} {w w' : Nat} {cs : List Nat} {out : Option (PStep α)}
    {p : PRead α} {c b fed del} {m : List α}
    (hr : readLoop w q p.rst = (w', q', cs, out)) (ho : out = some (.msg m)) (hl : p.lookahead = none)
    (h : InvC q c (some p) b fed del) :
    InvC q' c (some { lookahead := some m, rst := none }) b fed del := by
  rcases h with ⟨h, _, _⟩ | ⟨hb, h⟩
  · exact absurd h (by simp)
  · exact Or.inr ⟨hb, (h.read_msg hr ho hl).2⟩

/-- the pending read ends with an error: nothing is delivered -/
theorem InvC.read_fail {q c p b fed del} (h : InvC (α := α) q c (some p) b fed del)
    (q' : List (DFrame α)) (c' : Bool) : InvC q' c' none true fed del :=
  InvC.dead h.prefix q' c'

/-- the look-ahead read finds the end of the stream: the held message is delivered -/
theorem InvC.read_eof {q c p b fed del} {m : List α} (h : InvC (α := α) q c (some p) b fed del)
    (hl : p.lookahead = some m) (q' : List (DFrame α)) (c' : Bool) :
    InvC q' c' none true fed (del ++ [m]) := by
  have := h.prefix_held
  simp only [held, hl] at this
  exact InvC.dead this q' c'

/-! ### completions that carry no message -/

theorem msgsOfDones_append (a b : List (Sid × String × Res α)) :
    msgsOfDones (a ++ b) = msgsOfDones a ++ msgsOfDones b := by
  simp [msgsOfDones, List.filterMap_append]

@[simp] theorem msgsOfDones_nil : msgsOfDones ([] : List (Sid × String × Res α)) = [] := rfl

theorem msgsOfDones_toRes (sid : Sid) (n : String) (e : SErr) :
    msgsOfDones [(sid, n, (e.toRes : Res α))] = [] := by
  cases e <;> rfl

theorem msgsOfDones_filter (l : List (Sid × String × Res α)) (p : Sid × String × Res α → Bool)
    (h : msgsOfDones l = []) : msgsOfDones (l.filter p) = [] := by
  simp only [msgsOfDones, List.filterMap_eq_nil_iff] at h ⊢
  intro d hd
  exact h d (List.mem_filter.mp hd).1

/-! ## the server stream -/

/-- the invariant on a server stream: reading is over for good once the sticky
    read error is set or the context is done (and no read is pending) -/
def SInv (s : SStream α) (fed : List (DFrame α)) (del : List (List α)) : Prop :=
  InvC s.rcv.queue s.rcv.closed s.pread (s.readErr.isSome || s.ctxDone.isSome) fed del

/-- no read pending and none will ever be started -/
def DeadS (s : SStream α) : Prop :=
  s.pread = none ∧ (s.readErr.isSome || s.ctxDone.isSome) = true

theorem SInv.prefix {s : SStream α} {fed del} (h : SInv s fed del) : del <+: (parse none fed).1 :=
  InvC.prefix h

theorem SInv.of_dead {s : SStream α} {fed del} (hd : DeadS s) (h : del <+: (parse none fed).1) :
    SInv s fed del := by
  unfold SInv
  rw [hd.1, hd.2]
  exact InvC.dead h _ _

theorem SInv.ctx_dead {s : SStream α} {fed del} (h : SInv s fed del) (hc : s.ctxDone.isSome = true) :
    DeadS s := by
  rcases h with ⟨h1, h2, _⟩ | ⟨hb, _⟩
  · exact ⟨h1, h2⟩
  · rw [hc] at hb; simp at hb

/-- the part of the state the invariant looks at is unchanged (the receiver may get closed) -/
structure Keeps (s s' : SStream α) : Prop where
  queue : s'.rcv.queue = s.rcv.queue
  closed : s.rcv.closed = true → s'.rcv.closed = true
  pread : s'.pread = s.pread
  readErr : s'.readErr = s.readErr
  ctxDone : s'.ctxDone = s.ctxDone
  fc : s'.fc = s.fc
  un : s'.unsupported = s.unsupported

theorem Keeps.refl (s : SStream α) : Keeps s s := ⟨rfl, id, rfl, rfl, rfl, rfl, rfl⟩

theorem Keeps.trans {a b c : SStream α} (h1 : Keeps a b) (h2 : Keeps b c) : Keeps a c :=
  ⟨h2.queue.trans h1.queue, fun h => h2.closed (h1.closed h), h2.pread.trans h1.pread,
   h2.readErr.trans h1.readErr, h2.ctxDone.trans h1.ctxDone, h2.fc.trans h1.fc, h2.un.trans h1.un⟩

theorem Keeps.inv {s s' : SStream α} (h : Keeps s s') {fed del} (hi : SInv s fed del) : SInv s' fed del := by
  unfold SInv at *
  rw [h.queue, h.pread, h.readErr, h.ctxDone]
  exact hi.mono_closed h.closed

theorem Keeps.dead {s s' : SStream α} (h : Keeps s s') (hd : DeadS s) : DeadS s' := by
  unfold DeadS at *
  rw [h.pread, h.readErr, h.ctxDone]; exact hd

/-- a silent transition: the invariant is kept with the same histories -/
structure Sil (s s' : SStream α) : Prop where
  inv : ∀ fed del, SInv s fed del → SInv s' fed del
  fc : s'.fc = s.fc
  un : s'.unsupported = s.unsupported

theorem Sil.refl (s : SStream α) : Sil s s := ⟨fun _ _ h => h, rfl, rfl⟩

theorem Sil.trans {a b c : SStream α} (h1 : Sil a b) (h2 : Sil b c) : Sil a c :=
  ⟨fun fed del h => h2.inv fed del (h1.inv fed del h), h2.fc.trans h1.fc, h2.un.trans h1.un⟩

theorem Keeps.sil {s s' : SStream α} (h : Keeps s s') : Sil s s' := ⟨fun _ _ hi => h.inv hi, h.fc, h.un⟩

/-! ### `halfClose`, `finishCore`, `cancelCtx`, `finish` -/

theorem halfClose_keeps (s : SStream α) (e : SErr) : Keeps s (s.halfClose e) := by
  unfold SStream.halfClose
  split
  · exact Keeps.refl s
  · exact ⟨rfl, fun _ => rfl, rfl, rfl, rfl, rfl, rfl⟩

theorem finishCore_keeps (sid : Sid) (s : SStream α) (err : Option SErr) :
    Keeps s (s.finishCore sid err).1 := by
  unfold SStream.finishCore
  have h1 : Keeps s ({ s with inTable := false } : SStream α) := ⟨rfl, id, rfl, rfl, rfl, rfl, rfl⟩
  have h3 := h1.trans (halfClose_keeps ({ s with inTable := false } : SStream α) (err.getD .eof))
  dsimp only
  split
  · exact h3
  · exact h3.trans ⟨rfl, id, rfl, rfl, rfl, rfl, rfl⟩

theorem finishCore_msgs (sid : Sid) (s : SStream α) (err : Option SErr) :
    msgsOfDones (s.finishCore sid err).2.dones = [] := by
  unfold SStream.finishCore
  dsimp only
  split <;> rfl

/-- second stage of `cancelCtx`: a blocked send returns -/
def ccSend (sid : Sid) (s1 : SStream α) (e : CtxErr) : SStream α × Out α :=
  match s1.psend with
  | some _ =>
    let s2 := { s1 with psend := none }
    if s1.finishAfterSend then
      ({ s2 with finishAfterSend := false, hstatus := .returned } : SStream α).finishCore sid (some (.ctx e))
    else (s2, { dones := [(sid, "send", .ctx e)] })
  | none => (s1, {})

/-- third stage of `cancelCtx`: a blocked read returns -/
def ccRead (sid : Sid) (s2 : SStream α) (e : CtxErr) : SStream α × Out α :=
  match s2.pread with
  | some _ =>
    let s3 := { s2 with pread := none, readErr := some (.ctx e) }
    if s2.hstatus == .decoding then
      let (s4, o4) := ({ s3 with hstatus := .returned } : SStream α).finishCore sid (some (.ctx e))
      (s4, ({ dones := [(sid, "decode", .ctx e)] } : Out α).add o4)
    else (s3, { dones := [(sid, "recv", .ctx e)] })
  | none => (s2, {})

theorem cancelCtx_fst (sid : Sid) (s : SStream α) (e : CtxErr) :
    (s.cancelCtx sid e).1 =
      if s.ctxDone.isSome then s
      else (ccRead sid (ccSend sid
        ({ s with ctxDone := some e, rcv := if s.fc then s.rcv.cancel else s.rcv.close } : SStream α) e).1 e).1 := by
  unfold SStream.cancelCtx
  split
  · rfl
  · rfl

theorem cancelCtx_dones (sid : Sid) (s : SStream α) (e : CtxErr) :
    (s.cancelCtx sid e).2.dones =
      if s.ctxDone.isSome then []
      else
        (ccSend sid ({ s with ctxDone := some e, rcv := if s.fc then s.rcv.cancel else s.rcv.close } : SStream α) e).2.dones ++
        (ccRead sid (ccSend sid
          ({ s with ctxDone := some e, rcv := if s.fc then s.rcv.cancel else s.rcv.close } : SStream α) e).1 e).2.dones := by
  unfold SStream.cancelCtx
  split
  · rfl
  · rfl

theorem ccSend_keeps (sid : Sid) (s : SStream α) (e : CtxErr) : Keeps s (ccSend sid s e).1 := by
  unfold ccSend
  split
  · dsimp only
    split
    · exact Keeps.trans (b := ({ s with psend := none, finishAfterSend := false, hstatus := .returned } : SStream α))
        ⟨rfl, id, rfl, rfl, rfl, rfl, rfl⟩ (finishCore_keeps _ _ _)
    · exact ⟨rfl, id, rfl, rfl, rfl, rfl, rfl⟩
  · exact Keeps.refl s

theorem ccSend_msgs (sid : Sid) (s : SStream α) (e : CtxErr) : msgsOfDones (ccSend sid s e).2.dones = [] := by
  unfold ccSend
  split
  · dsimp only
    split
    · exact finishCore_msgs _ _ _
    · rfl
  · rfl

theorem ccRead_fields (sid : Sid) (s : SStream α) (e : CtxErr) :
    (ccRead sid s e).1.pread = none ∧ (ccRead sid s e).1.ctxDone = s.ctxDone ∧
    (ccRead sid s e).1.fc = s.fc ∧ (ccRead sid s e).1.unsupported = s.unsupported := by
  unfold ccRead
  split
  · dsimp only
    split
    · have h := finishCore_keeps sid
        ({ s with pread := none, readErr := some (.ctx e), hstatus := .returned } : SStream α) (some (.ctx e))
      exact ⟨h.pread, h.ctxDone, h.fc, h.un⟩
    · exact ⟨rfl, rfl, rfl, rfl⟩
  · rename_i hp
    exact ⟨hp, rfl, rfl, rfl⟩

theorem ccRead_msgs (sid : Sid) (s : SStream α) (e : CtxErr) : msgsOfDones (ccRead sid s e).2.dones = [] := by
  unfold ccRead
  split
  · dsimp only
    split
    · simp only [Out.add, msgsOfDones_append, finishCore_msgs]; rfl
    · rfl
  · rfl

theorem cancelCtx_msgs (sid : Sid) (s : SStream α) (e : CtxErr) :
    msgsOfDones (s.cancelCtx sid e).2.dones = [] := by
  rw [cancelCtx_dones]
  split
  · rfl
  · rw [msgsOfDones_append, ccSend_msgs, ccRead_msgs]; rfl

theorem cancelCtx_fu (sid : Sid) (s : SStream α) (e : CtxErr) :
    (s.cancelCtx sid e).1.fc = s.fc ∧ (s.cancelCtx sid e).1.unsupported = s.unsupported := by
  rw [cancelCtx_fst]
  split
  · exact ⟨rfl, rfl⟩
  · have h1 := ccSend_keeps sid
      ({ s with ctxDone := some e, rcv := if s.fc then s.rcv.cancel else s.rcv.close } : SStream α) e
    have h2 := ccRead_fields sid (ccSend sid
      ({ s with ctxDone := some e, rcv := if s.fc then s.rcv.cancel else s.rcv.close } : SStream α) e).1 e
    exact ⟨h2.2.2.1.trans h1.fc, h2.2.2.2.trans h1.un⟩

theorem cancelCtx_dead (sid : Sid) (s : SStream α) (e : CtxErr) (h : s.ctxDone.isSome = true → DeadS s) :
    DeadS (s.cancelCtx sid e).1 := by
  rw [cancelCtx_fst]
  split
  · rename_i hc; exact h hc
  · have h1 := ccSend_keeps sid
      ({ s with ctxDone := some e, rcv := if s.fc then s.rcv.cancel else s.rcv.close } : SStream α) e
    have h2 := ccRead_fields sid (ccSend sid
      ({ s with ctxDone := some e, rcv := if s.fc then s.rcv.cancel else s.rcv.close } : SStream α) e).1 e
    refine ⟨h2.1, ?_⟩
    rw [h2.2.1, h1.ctxDone]
    simp

theorem cancelCtx_sil (sid : Sid) (s : SStream α) (e : CtxErr) : Sil s (s.cancelCtx sid e).1 :=
  ⟨fun _ _ hi => SInv.of_dead (cancelCtx_dead sid s e hi.ctx_dead) hi.prefix,
   (cancelCtx_fu sid s e).1, (cancelCtx_fu sid s e).2⟩

theorem finishCore_dead (sid : Sid) (s : SStream α) (err : Option SErr)
    (h : s.ctxDone.isSome = true → DeadS s) :
    (s.finishCore sid err).1.ctxDone.isSome = true → DeadS (s.finishCore sid err).1 := by
  intro hc
  have hk := finishCore_keeps sid s err
  rw [hk.ctxDone] at hc
  exact hk.dead (h hc)

theorem finish_dead (sid : Sid) (s : SStream α) (err : Option SErr) (b : Bool)
    (h : s.ctxDone.isSome = true → DeadS s) : DeadS (s.finish sid err b).1 := by
  simp only [SStream.finish]
  exact cancelCtx_dead _ _ _ (finishCore_dead _ _ _ h)

theorem finish_fu (sid : Sid) (s : SStream α) (err : Option SErr) (b : Bool) :
    (s.finish sid err b).1.fc = s.fc ∧ (s.finish sid err b).1.unsupported = s.unsupported := by
  simp only [SStream.finish]
  exact ⟨(cancelCtx_fu _ _ _).1.trans (finishCore_keeps _ _ _).fc,
         (cancelCtx_fu _ _ _).2.trans (finishCore_keeps _ _ _).un⟩

theorem finish_sil (sid : Sid) (s : SStream α) (err : Option SErr) (b : Bool) : Sil s (s.finish sid err b).1 :=
  ⟨fun _ _ hi => SInv.of_dead (finish_dead sid s err b hi.ctx_dead) hi.prefix,
   (finish_fu sid s err b).1, (finish_fu sid s err b).2⟩

theorem finish_msgs (sid : Sid) (s : SStream α) (err : Option SErr) (b : Bool) :
    msgsOfDones (s.finish sid err b).2.dones = [] := by
  simp only [SStream.finish, Out.add, msgsOfDones_append, cancelCtx_msgs, finishCore_msgs]
  rfl

/-! ### the send side -/

theorem pumpSend_keeps (cfg : SCfg) (sid : Sid) (s : SStream α) (snd : Snd α) :
    Keeps s (s.pumpSend cfg sid snd).1 := by
  unfold SStream.pumpSend
  split
  · dsimp only
    split
    · exact ⟨rfl, id, rfl, rfl, rfl, rfl, rfl⟩
    · split <;> exact ⟨rfl, id, rfl, rfl, rfl, rfl, rfl⟩
  · exact ⟨rfl, id, rfl, rfl, rfl, rfl, rfl⟩

theorem pumpSend_msgs (cfg : SCfg) (sid : Sid) (s : SStream α) (snd : Snd α) :
    msgsOfDones (s.pumpSend cfg sid snd).2.dones = [] := by
  unfold SStream.pumpSend
  split
  · dsimp only
    split
    · rfl
    · split <;> rfl
  · rfl

theorem afterSend_sil (sid : Sid) (s : SStream α) (o : Out α) : Sil s (s.afterSend sid o).1 := by
  unfold SStream.afterSend
  split
  · dsimp only
    exact Sil.trans (b := ({ s with finishAfterSend := false, hstatus := .returned } : SStream α))
      (Keeps.sil ⟨rfl, id, rfl, rfl, rfl, rfl, rfl⟩) (finish_sil _ _ _ _)
  · exact Sil.refl s

theorem afterSend_msgs (sid : Sid) (s : SStream α) (o : Out α) (ho : msgsOfDones o.dones = []) :
    msgsOfDones (s.afterSend sid o).2.dones = [] := by
  unfold SStream.afterSend
  split
  · simp only [Out.add, msgsOfDones_append, finish_msgs, msgsOfDones_filter _ _ ho]
    rfl
  · exact ho

/-! ### the read side -/

/-- a step that keeps the invariant, appending what it delivers -/
structure Tr (s : SStream α) (r : SStream α × Out α) : Prop where
  inv : ∀ fed del, SInv s fed del → SInv r.1 fed (del ++ msgsOfDones r.2.dones)
  fc : r.1.fc = s.fc
  un : r.1.unsupported = s.unsupported

theorem Tr.of_sil {s : SStream α} {r : SStream α × Out α} (h : Sil s r.1) (hm : msgsOfDones r.2.dones = []) :
    Tr s r :=
  ⟨fun _ _ hi => by rw [hm, List.append_nil]; exact h.inv _ _ hi, h.fc, h.un⟩

theorem Tr.refl (s : SStream α) : Tr s (s, {}) := Tr.of_sil (Sil.refl s) rfl

theorem Tr.pre {s s1 : SStream α} {r : SStream α × Out α} (h1 : Sil s s1) (h2 : Tr s1 r) : Tr s r :=
  ⟨fun _ _ hi => h2.inv _ _ (h1.inv _ _ hi), h2.fc.trans h1.fc, h2.un.trans h1.un⟩

theorem Tr.post {s s2 : SStream α} {r : SStream α × Out α} {o : Out α} (h1 : Tr s r) (h2 : Sil r.1 s2)
    (hm : msgsOfDones o.dones = msgsOfDones r.2.dones) : Tr s (s2, o) :=
  ⟨fun fed del hi => by rw [hm]; exact h2.inv _ _ (h1.inv _ _ hi), h2.fc.trans h1.fc, h2.un.trans h1.un⟩

theorem SInv.mk' {X : SStream α} {q : List (DFrame α)} {c : Bool} {pr : Option (PRead α)} {b : Bool} {fed del}
    (hq : X.rcv.queue = q) (hc : X.rcv.closed = c) (hp : X.pread = pr)
    (hb : (X.readErr.isSome || X.ctxDone.isSome) = b) (h : InvC q c pr b fed del) : SInv X fed del := by
  subst hq hc hp hb
  exact h

theorem resumeRead_tr (sid : Sid) (mn : String) : ∀ (fuel : Nat) (s : SStream α),
    Tr s (SStream.resumeRead sid mn fuel s) := by
  intro fuel
  induction fuel with
  | zero => intro s; exact Tr.refl s
  | succ fuel ih =>
    intro s
    unfold SStream.resumeRead
    split
    · exact Tr.refl s
    · rename_i p hp
      generalize hr : readLoop s.rcv.rwin s.rcv.queue p.rst = r
      obtain ⟨rwin, q, credits, out⟩ := r
      dsimp -zeta only
      extract_lets cf rcv0 s1 opName failWith e
      have hq1 : s1.rcv.queue = q := rfl
      have hc1 : s1.rcv.closed = s.rcv.closed := rfl
      have hb1 : (s1.readErr.isSome || s1.ctxDone.isSome) = (s.readErr.isSome || s.ctxDone.isSome) := rfl
      have hfc1 : s1.fc = s.fc := rfl
      have hun1 : s1.unsupported = s.unsupported := rfl
      have hcs1 : ∀ fed del, SInv s fed del →
          InvC s.rcv.queue s.rcv.closed (some p) (s.readErr.isSome || s.ctxDone.isSome) fed del := by
        intro fed del hi
        unfold SInv at hi
        rw [hp] at hi
        exact hi
      have hfw : ∀ (s' : SStream α) (e : SErr) (b : Bool) (fed : List (DFrame α)) (del : List (List α)),
          del <+: (parse none fed).1 →
          SInv (failWith s' e b).1 fed (del ++ msgsOfDones (failWith s' e b).2.dones) := by
        intro s' e b fed del hpre
        simp only [failWith]
        split
        · rw [show msgsOfDones [(sid, opName, (e.toRes : Res α))] = [] from msgsOfDones_toRes _ _ _,
            List.append_nil]
          exact SInv.of_dead ⟨rfl, rfl⟩ hpre
        · dsimp only
          simp only [Out.add, msgsOfDones_append, finish_msgs, msgsOfDones_toRes, List.append_nil]
          exact (finish_sil _ _ _ _).inv _ _ (SInv.of_dead ⟨rfl, rfl⟩ hpre)
      have hfwfu : ∀ (s' : SStream α) (e : SErr) (b : Bool),
          (failWith s' e b).1.fc = s'.fc ∧ (failWith s' e b).1.unsupported = s'.unsupported := by
        intro s' e b
        simp only [failWith]
        split
        · exact ⟨rfl, rfl⟩
        · dsimp only
          exact finish_fu _ _ _ _
      clear_value s1 failWith e opName cf
      split
      · -- the queue ran dry
        rename_i st'
        split
        · split
          · rename_i m hl
            refine ⟨fun fed del hi => ?_, hfc1, hun1⟩
            exact SInv.of_dead ⟨rfl, rfl⟩ ((hcs1 fed del hi).read_eof hl [] true).prefix
          · exact ⟨fun fed del hi => hfw _ _ _ _ _ hi.prefix, (hfwfu _ _ _).1.trans hfc1, (hfwfu _ _ _).2.trans hun1⟩
        · refine ⟨fun fed del hi => ?_, hfc1, hun1⟩
          show SInv _ fed (del ++ [])
          rw [List.append_nil]
          exact SInv.mk' hq1 hc1 rfl hb1 ((hcs1 fed del hi).read_cont hr rfl)
      · -- a complete message
        rename_i m
        split
        · exact ⟨fun fed del hi => hfw _ _ _ _ _ hi.prefix, (hfwfu _ _ _).1.trans hfc1, (hfwfu _ _ _).2.trans hun1⟩
        · rename_i hl
          split
          · refine ⟨fun fed del hi => ?_, hfc1, hun1⟩
            exact SInv.mk' hq1 hc1 rfl hb1 ((hcs1 fed del hi).read_deliver hr rfl hl)
          · dsimp only
            have h2 := ih ({ s1 with pread := some { lookahead := some m, rst := none } } : SStream α)
            refine ⟨fun fed del hi => ?_, h2.fc.trans hfc1, h2.un.trans hun1⟩
            exact h2.inv fed del (SInv.mk' hq1 hc1 rfl hb1 ((hcs1 fed del hi).read_hold hr rfl hl))
      · -- a reassembly error
        exact ⟨fun fed del hi => hfw _ _ _ _ _ hi.prefix, (hfwfu _ _ _).1.trans hfc1, (hfwfu _ _ _).2.trans hun1⟩
      · -- `readLoop` always has an outcome
        exact absurd rfl (readLoop_parse _ _ _ _ _ _ _ hr).choose_spec.2.2.2

theorem afterDecode_sil (sid : Sid) (s : SStream α) (o : Out α) : Sil s (s.afterDecode sid o).1 := by
  unfold SStream.afterDecode
  split
  · split
    · exact Keeps.sil ⟨rfl, id, rfl, rfl, rfl, rfl, rfl⟩
    · dsimp only
      exact Sil.trans (b := ({ s with hstatus := .returned } : SStream α))
        (Keeps.sil ⟨rfl, id, rfl, rfl, rfl, rfl, rfl⟩) (finish_sil _ _ _ _)
    · exact Sil.refl s
  · exact Sil.refl s

theorem afterDecode_msgs (sid : Sid) (s : SStream α) (o : Out α) :
    msgsOfDones (s.afterDecode sid o).2.dones = msgsOfDones o.dones := by
  unfold SStream.afterDecode
  split
  · split
    · rfl
    · simp only [Out.add, msgsOfDones_append, finish_msgs, List.append_nil]
    · rfl
  · rfl

theorem readAndSettle_tr (sid : Sid) (s : SStream α) : Tr s (s.readAndSettle sid) := by
  unfold SStream.readAndSettle
  dsimp only
  exact (resumeRead_tr sid "" 3 s).post (afterDecode_sil _ _ _) (afterDecode_msgs _ _ _)

theorem afterDecode_tr (sid : Sid) (s : SStream α) (o : Out α) (ho : msgsOfDones o.dones = []) :
    Tr s (s.afterDecode sid o) :=
  Tr.of_sil (afterDecode_sil sid s o) (by rw [afterDecode_msgs, ho])

theorem startRecv_tr (sid : Sid) (s : SStream α) (hk : recvOK s.pread = true) : Tr s (s.startRecv sid) := by
  unfold SStream.startRecv
  dsimp only
  split
  · exact afterDecode_tr _ _ _ (msgsOfDones_toRes _ _ _)
  · rename_i he
    split
    · rename_i c hc
      refine Tr.pre (s1 := ({ s with readErr := some (.ctx c) } : SStream α)) ⟨fun fed del hi => ?_, rfl, rfl⟩
        (afterDecode_tr _ _ _ rfl)
      have hd := hi.ctx_dead (by rw [hc]; rfl)
      exact SInv.of_dead ⟨hd.1, rfl⟩ hi.prefix
    · rename_i hc
      refine Tr.pre (s1 := ({ s with pread := some { lookahead := none, rst := none } } : SStream α))
        ⟨fun fed del hi => ?_, rfl, rfl⟩ (readAndSettle_tr _ _)
      unfold SInv at hi
      rw [he, hc] at hi
      exact SInv.mk' rfl rfl rfl (by rw [he, hc]; rfl) (InvC.start hi hk)

/-! ### frames and calls -/

theorem accept_cases (r : RcvQ α) (f : DFrame α) :
    (r.closed = true ∧ r.accept f = (r, .dropped)) ∨
    (r.closed = false ∧ r.accept f = (r, .windowExceeded)) ∨
    (r.closed = false ∧
      r.accept f = ({ r with rwin := r.rwin - f.size, queue := r.queue ++ [f] }, .ok)) := by
  unfold RcvQ.accept
  cases hc : r.closed with
  | true => exact Or.inl ⟨rfl, by simp⟩
  | false =>
    by_cases hw : f.size > r.rwin
    · exact Or.inr (Or.inl ⟨rfl, by simp [hw]⟩)
    · exact Or.inr (Or.inr ⟨rfl, by simp [hw]⟩)

/-- what a step does when it may also feed data frames `fd` to the stream; on a
    stream without flow control the step may instead give up (`unsupported`) -/
structure EvSpec (s : SStream α) (r : SStream α × Out α) (fd : List (DFrame α)) : Prop where
  inv : ∀ fed del, SInv s fed del →
    (s.fc = false ∧ r.1.unsupported = true) ∨ SInv r.1 (fed ++ fd) (del ++ msgsOfDones r.2.dones)
  fc : r.1.fc = s.fc
  un : s.unsupported = true → r.1.unsupported = true

theorem Tr.ev {s : SStream α} {r : SStream α × Out α} (h : Tr s r) : EvSpec s r [] :=
  ⟨fun fed del hi => Or.inr (by rw [List.append_nil]; exact h.inv fed del hi), h.fc, fun hu => by rw [h.un]; exact hu⟩

theorem dataFrame_spec (sid : Sid) (s : SStream α) (df : DFrame α) :
    EvSpec s
      (if s.fc then
        match s.rcv.accept df with
        | (_, .dropped) => (s, {})
        | (_, .windowExceeded) => s.finish sid (some errFlowControl) true
        | (r, .ok) => ({ s with rcv := r } : SStream α).readAndSettle sid
      else
        if s.rcv.closed then (s, {})
        else if !s.rcv.queue.isEmpty then ({ s with unsupported := true }, {})
        else ({ s with rcv := { s.rcv with queue := [df] } } : SStream α).readAndSettle sid) [df] := by
  have hdrop : s.rcv.closed = true → EvSpec s (s, {}) [df] := by
    intro hc
    refine ⟨fun fed del hi => Or.inr ?_, rfl, id⟩
    show SInv s (fed ++ [df]) (del ++ [])
    rw [List.append_nil]
    unfold SInv at *
    rw [hc] at hi ⊢
    exact hi.close [df]
  split
  · rcases accept_cases s.rcv df with ⟨hc, ha⟩ | ⟨hc, ha⟩ | ⟨hc, ha⟩
    · rw [ha]; exact hdrop hc
    · -- window exceeded
      rw [ha]
      dsimp only
      refine ⟨fun fed del hi => Or.inr ?_, (finish_fu _ _ _ _).1, fun hu => by rw [(finish_fu _ _ _ _).2]; exact hu⟩
      rw [finish_msgs, List.append_nil]
      exact SInv.of_dead (finish_dead _ _ _ _ hi.ctx_dead) (prefix_parse_extend hi.prefix _)
    · -- accepted
      rw [ha]
      dsimp only
      have h2 := readAndSettle_tr sid
        ({ s with rcv := { s.rcv with rwin := s.rcv.rwin - df.size, queue := s.rcv.queue ++ [df] } } : SStream α)
      refine ⟨fun fed del hi => Or.inr (h2.inv _ _ ?_), h2.fc, fun hu => by rw [h2.un]; exact hu⟩
      unfold SInv at hi
      rw [hc] at hi
      exact SInv.mk' rfl hc rfl rfl (hi.feed df)
  · rename_i hfc
    have hfc' : s.fc = false := by simpa using hfc
    split
    · rename_i hc; exact hdrop hc
    · rename_i hc
      have hc' : s.rcv.closed = false := by simpa using hc
      split
      · exact ⟨fun fed del hi => Or.inl ⟨hfc', rfl⟩, rfl, fun _ => rfl⟩
      · rename_i hq
        have hq' : s.rcv.queue = [] := by simpa using hq
        have h2 := readAndSettle_tr sid ({ s with rcv := { s.rcv with queue := [df] } } : SStream α)
        refine ⟨fun fed del hi => Or.inr (h2.inv _ _ ?_), h2.fc, fun hu => by rw [h2.un]; exact hu⟩
        unfold SInv at hi
        rw [hc', hq'] at hi
        exact SInv.mk' rfl hc' rfl rfl (hi.feed df)

/-- the data a frame feeds to the reader -/
def c2sData (f : C2S α) : List (DFrame α) :=
  match dataOfC2S f with
  | some d => [d]
  | none => []

theorem onFrame_spec (cfg : SCfg) (sid : Sid) (s : SStream α) (f : C2S α) :
    EvSpec s (s.onFrame cfg sid f) (c2sData f) := by
  cases f with
  | newStream m md rev win => exact (Tr.refl s).ev
  | msg size d => exact dataFrame_spec sid s (.env size d)
  | more d => exact dataFrame_spec sid s (.more d)
  | halfClose =>
    simp only [SStream.onFrame]
    split
    · exact (Tr.refl s).ev
    · exact (Tr.pre (halfClose_keeps s .eof).sil (readAndSettle_tr _ _)).ev
  | cancel => exact (Tr.of_sil (finish_sil _ _ _ _) (finish_msgs _ _ _ _)).ev
  | windowUpdate n =>
    simp only [SStream.onFrame]
    split
    · exact (Tr.refl s).ev
    · split
      · exact (Tr.of_sil (s := s) (r := (({ s with win := wrap32 (s.win + n) } : SStream α), {}))
          (Keeps.sil ⟨rfl, id, rfl, rfl, rfl, rfl, rfl⟩) rfl).ev
      · rename_i snd hsnd
        refine (Tr.of_sil ?_ ?_).ev
        · exact Sil.trans (b := ({ s with win := wrap32 (s.win + n) } : SStream α))
            (Keeps.sil ⟨rfl, id, rfl, rfl, rfl, rfl, rfl⟩)
            ((pumpSend_keeps cfg sid _ snd).sil.trans (afterSend_sil sid _ _))
        · exact afterSend_msgs sid _ _ (pumpSend_msgs cfg sid _ snd)
  | unset => exact (Tr.of_sil (finish_sil _ _ _ _) (finish_msgs _ _ _ _)).ev

/-- a handler call is legal with respect to reads: `RecvMsg` is not called
    while a read that retains data is pending -/
def callOK (s : SStream α) : HCall α → Bool
  | .recv => recvOK s.pread
  | _ => true

theorem onCall_tr (cfg : SCfg) (sid : Sid) (s : SStream α) (c : HCall α) (hk : callOK s c = true) :
    Tr s (s.onCall cfg sid c) := by
  cases c with
  | recv => exact startRecv_tr sid s hk
  | send m =>
    simp only [SStream.onCall]
    by_cases hh : s.sentHeaders = true
    · rw [if_pos hh]
      dsimp only
      split
      · exact Tr.of_sil (Sil.refl s) rfl
      · refine Tr.of_sil ?_ ?_
        · exact Sil.trans (b := ({ s with numSent := s.numSent + 1 } : SStream α))
            (Keeps.sil ⟨rfl, id, rfl, rfl, rfl, rfl, rfl⟩) (pumpSend_keeps cfg sid _ _).sil
        · simp only [Out.add, List.nil_append]
          exact pumpSend_msgs cfg sid _ _
    · rw [if_neg hh]
      dsimp only
      split
      · exact Tr.of_sil (s := s) (r := (({ s with sentHeaders := true, headers := [] } : SStream α), _))
          (Keeps.sil ⟨rfl, id, rfl, rfl, rfl, rfl, rfl⟩) rfl
      · refine Tr.of_sil ?_ ?_
        · exact Sil.trans (b := ({ s with sentHeaders := true, headers := [], numSent := s.numSent + 1 } : SStream α))
            (Keeps.sil ⟨rfl, id, rfl, rfl, rfl, rfl, rfl⟩) (pumpSend_keeps cfg sid _ _).sil
        · simp only [Out.add, List.nil_append]
          exact pumpSend_msgs cfg sid _ _
  | setHeader md =>
    simp only [SStream.onCall]
    split
    · exact Tr.of_sil (Sil.refl s) rfl
    · exact Tr.of_sil (s := s) (r := (({ s with headers := MD.join s.headers md } : SStream α), _))
        (Keeps.sil ⟨rfl, id, rfl, rfl, rfl, rfl, rfl⟩) rfl
  | sendHeader md =>
    simp only [SStream.onCall]
    split
    · exact Tr.of_sil (Sil.refl s) rfl
    · exact Tr.of_sil (s := s) (r := (({ s with headers := [], sentHeaders := true } : SStream α), _))
        (Keeps.sil ⟨rfl, id, rfl, rfl, rfl, rfl, rfl⟩) rfl
  | setTrailer md =>
    simp only [SStream.onCall]
    split
    · exact Tr.of_sil (Sil.refl s) rfl
    · exact Tr.of_sil (s := s) (r := (({ s with trailers := MD.join s.trailers md } : SStream α), _))
        (Keeps.sil ⟨rfl, id, rfl, rfl, rfl, rfl, rfl⟩) rfl
  | ret st =>
    simp only [SStream.onCall]
    refine Tr.of_sil ?_ ?_
    · dsimp only
      exact Sil.trans (b := ({ s with hstatus := .returned } : SStream α))
        (Keeps.sil ⟨rfl, id, rfl, rfl, rfl, rfl, rfl⟩) (finish_sil sid _ _ _)
    · simp only [Out.add, msgsOfDones_append, finish_msgs]
      rfl
  | reply m =>
    simp only [SStream.onCall]
    by_cases hh : s.sentHeaders = true
    · rw [if_pos hh]
      dsimp only
      refine Tr.of_sil ?_ ?_
      · exact Sil.trans (b := ({ s with numSent := s.numSent + 1, finishAfterSend := true } : SStream α))
          (Keeps.sil ⟨rfl, id, rfl, rfl, rfl, rfl, rfl⟩)
          ((pumpSend_keeps cfg sid _ _).sil.trans (afterSend_sil sid _ _))
      · apply afterSend_msgs
        simp only [Out.add, List.nil_append]
        exact pumpSend_msgs cfg sid _ _
    · rw [if_neg hh]
      dsimp only
      refine Tr.of_sil ?_ ?_
      · exact Sil.trans
          (b := ({ s with sentHeaders := true, headers := [], numSent := s.numSent + 1, finishAfterSend := true } : SStream α))
          (Keeps.sil ⟨rfl, id, rfl, rfl, rfl, rfl, rfl⟩)
          ((pumpSend_keeps cfg sid _ _).sil.trans (afterSend_sil sid _ _))
      · apply afterSend_msgs
        simp only [Out.add, List.nil_append]
        exact pumpSend_msgs cfg sid _ _

/-! ### runs of events -/

/-- the data an event feeds to the reader -/
def sevData : SEv α → List (DFrame α)
  | .frame f => c2sData f
  | _ => []

/-- the event is legal with respect to reads (see `callOK`) -/
def sevOK (s : SStream α) : SEv α → Bool
  | .call c => callOK s c
  | _ => true

theorem stepEv_spec (cfg : SCfg) (sid : Sid) (s : SStream α) (e : SEv α) (hk : sevOK s e = true) :
    EvSpec s (s.stepEv cfg sid e) (sevData e) := by
  cases e with
  | frame f => exact onFrame_spec cfg sid s f
  | call c => exact (onCall_tr cfg sid s c hk).ev
  | ctx e => exact (Tr.of_sil (cancelCtx_sil sid s e) (cancelCtx_msgs sid s e)).ev

theorem fedData_cons (e : SEv α) (es : List (SEv α)) :
    SEv.fedData (e :: es) = sevData e ++ SEv.fedData es := by
  cases e with
  | frame f => cases f <;> rfl
  | call c => rfl
  | ctx e => rfl

theorem deliveredMsgs_cons (o : Out α) (os : List (Out α)) :
    Out.deliveredMsgs (o :: os) = msgsOfDones o.dones ++ Out.deliveredMsgs os := by
  simp [Out.deliveredMsgs]

theorem runEv_cons (cfg : SCfg) (sid : Sid) (s : SStream α) (e : SEv α) (es : List (SEv α)) :
    SStream.runEv cfg sid s (e :: es) =
      ((SStream.runEv cfg sid (s.stepEv cfg sid e).1 es).1,
       (s.stepEv cfg sid e).2 :: (SStream.runEv cfg sid (s.stepEv cfg sid e).1 es).2) := rfl

/-- **Legality of the handler's reads** (grpc-go stream contract: one
    `RecvMsg` at a time on each side of an RPC).  Thread the state; every
    `.call .recv` must come when no read is pending (`pread = none`).
    Same style as `SStream.legalSends`. -/
def legalRecvsS (cfg : SCfg) (sid : Sid) : SStream α → List (SEv α) → Bool
  | _, [] => true
  | s, e :: es =>
    let isRecv := match e with | .call .recv => true | _ => false
    let ok := !isRecv || s.pread.isNone
    ok && legalRecvsS cfg sid (s.stepEv cfg sid e).1 es

theorem legalRecvsS_cons (cfg : SCfg) (sid : Sid) (s : SStream α) (e : SEv α) (es : List (SEv α))
    (h : legalRecvsS cfg sid s (e :: es) = true) :
    sevOK s e = true ∧ legalRecvsS cfg sid (s.stepEv cfg sid e).1 es = true := by
  simp only [legalRecvsS, Bool.and_eq_true] at h
  refine ⟨?_, h.2⟩
  cases e with
  | frame f => rfl
  | ctx e => rfl
  | call c =>
    cases c with
    | recv =>
      have h1 := h.1
      simp only [Bool.not_true, Bool.false_or, Option.isNone_iff_eq_none] at h1
      simp [sevOK, callOK, recvOK, h1]
    | _ => rfl

theorem runEv_unsupported (cfg : SCfg) (sid : Sid) (evs : List (SEv α)) : ∀ (s : SStream α),
    legalRecvsS cfg sid s evs = true → s.unsupported = true →
    (SStream.runEv cfg sid s evs).1.unsupported = true := by
  induction evs with
  | nil => intro s _ h; exact h
  | cons e es ih =>
    intro s hl h
    obtain ⟨hk, hl'⟩ := legalRecvsS_cons cfg sid s e es hl
    rw [runEv_cons]
    exact ih _ hl' ((stepEv_spec cfg sid s e hk).un h)

/-- the invariant along a legal run, as long as the model does not give up -/
theorem runEv_inv (cfg : SCfg) (sid : Sid) (evs : List (SEv α)) : ∀ (s : SStream α) (fed : List (DFrame α))
    (del : List (List α)), SInv s fed del → legalRecvsS cfg sid s evs = true →
    (s.fc = true ∨ (SStream.runEv cfg sid s evs).1.unsupported = false) →
    SInv (SStream.runEv cfg sid s evs).1 (fed ++ SEv.fedData evs)
      (del ++ Out.deliveredMsgs (SStream.runEv cfg sid s evs).2) := by
  induction evs with
  | nil =>
    intro s fed del hi _ _
    simp only [SStream.runEv, SEv.fedData, Out.deliveredMsgs, List.filterMap_nil, List.flatMap_nil, List.append_nil]
    exact hi
  | cons e es ih =>
    intro s fed del hi hl hfu
    obtain ⟨hk, hl'⟩ := legalRecvsS_cons cfg sid s e es hl
    have hs := stepEv_spec cfg sid s e hk
    rw [runEv_cons] at hfu ⊢
    dsimp only at hfu ⊢
    rw [fedData_cons, deliveredMsgs_cons, ← List.append_assoc, ← List.append_assoc]
    rcases hs.inv fed del hi with ⟨hfc, hu⟩ | hi'
    · exfalso
      have := runEv_unsupported cfg sid es _ hl' hu
      rcases hfu with h | h
      · rw [hfc] at h; exact absurd h (by simp)
      · rw [this] at h; exact absurd h (by simp)
    · refine ih _ _ _ hi' hl' ?_
      rcases hfu with h | h
      · exact Or.inl (hs.fc.trans h)
      · exact Or.inr h

/-- a stream as `Srv.createStream` builds it (second alternative of the last
    conjunct: a unary method, whose decode read is started at once) -/
def Fresh (s0 : SStream α) : Prop :=
  s0.rcv.queue = [] ∧ s0.rcv.closed = false ∧ s0.rcv.cancelled = false ∧ s0.readErr = none ∧
  s0.halfClosed = none ∧ s0.ctxDone = none ∧
  (s0.pread = none ∨ s0.pread = some { lookahead := none, rst := none })

theorem Fresh.inv {s0 : SStream α} (h : Fresh s0) : SInv s0 [] [] := by
  obtain ⟨hq, hc, _, he, _, hx, hp⟩ := h
  unfold SInv
  rw [hq, hc, he, hx]
  refine Or.inr ⟨rfl, [], [], rfl, fun _ => rfl, ?_⟩
  rcases hp with hp | hp <;> rw [hp] <;> rfl

/-- **C01, delivery half, server (flow control).**  On a freshly created
    stream with flow control, along any run in which the handler never calls
    `RecvMsg` while a read is pending, the request messages delivered to the
    handler are a prefix of the complete messages obtained by reassembling,
    from the start, the data frames fed to the stream. -/
theorem server_delivers_parsed_prefix (cfg : SCfg) (sid : Sid) (s0 : SStream α) (h0 : Fresh s0)
    (hfc : s0.fc = true) (evs : List (SEv α)) (hl : legalRecvsS cfg sid s0 evs = true) :
    (Out.deliveredMsgs (SStream.runEv cfg sid s0 evs).2) <+: (parse none (SEv.fedData evs)).1 := by
  have := (runEv_inv cfg sid evs s0 [] [] h0.inv hl (Or.inl hfc)).prefix
  simpa using this

/-- **C01, delivery half, server, revision zero** (any `fc`): the same as long
    as the model has not given up (`unsupported = false` at the end). -/
theorem server_delivers_parsed_prefix_rev0 (cfg : SCfg) (sid : Sid) (s0 : SStream α) (h0 : Fresh s0)
    (evs : List (SEv α)) (hl : legalRecvsS cfg sid s0 evs = true)
    (hu : (SStream.runEv cfg sid s0 evs).1.unsupported = false) :
    (Out.deliveredMsgs (SStream.runEv cfg sid s0 evs).2) <+: (parse none (SEv.fedData evs)).1 := by
  have := (runEv_inv cfg sid evs s0 [] [] h0.inv hl (Or.inr hu)).prefix
  simpa using this

/-! ## the client stream -/

/-- the invariant on a client stream; reading is over for good once the
    sticky read error is set (and no read is pending); once the RPC is done
    the receiver is closed -/
def CInv (s : CStream α) (fed : List (DFrame α)) (del : List (List α)) : Prop :=
  (s.done.isSome = true → s.rcv.closed = true) ∧
  InvC s.rcv.queue s.rcv.closed s.pread s.readErr.isSome fed del

theorem CInv.prefix {s : CStream α} {fed del} (h : CInv s fed del) : del <+: (parse none fed).1 :=
  InvC.prefix h.2

theorem CInv.mk' {X : CStream α} {q : List (DFrame α)} {c : Bool} {pr : Option (PRead α)} {b : Bool} {fed del}
    (hg : X.done.isSome = true → X.rcv.closed = true)
    (hq : X.rcv.queue = q) (hc : X.rcv.closed = c) (hp : X.pread = pr)
    (hb : X.readErr.isSome = b) (h : InvC q c pr b fed del) : CInv X fed del := by
  subst hq hc hp hb
  exact ⟨hg, h⟩

theorem CInv.of_dead {s : CStream α} {fed del} (hg : s.done.isSome = true → s.rcv.closed = true)
    (hp : s.pread = none) (hb : s.readErr.isSome = true) (h : del <+: (parse none fed).1) :
    CInv s fed del :=
  CInv.mk' hg rfl rfl hp hb (InvC.dead h _ _)

/-- the part of the state the invariant looks at is unchanged -/
structure CKeeps (s s' : CStream α) : Prop where
  queue : s'.rcv.queue = s.rcv.queue
  closed : s'.rcv.closed = s.rcv.closed
  pread : s'.pread = s.pread
  readErr : s'.readErr = s.readErr
  done : s'.done = s.done
  fc : s'.fc = s.fc
  un : s'.unsupported = s.unsupported

theorem CKeeps.refl (s : CStream α) : CKeeps s s := ⟨rfl, rfl, rfl, rfl, rfl, rfl, rfl⟩

theorem CKeeps.trans {a b c : CStream α} (h1 : CKeeps a b) (h2 : CKeeps b c) : CKeeps a c :=
  ⟨h2.queue.trans h1.queue, h2.closed.trans h1.closed, h2.pread.trans h1.pread,
   h2.readErr.trans h1.readErr, h2.done.trans h1.done, h2.fc.trans h1.fc, h2.un.trans h1.un⟩

theorem CKeeps.inv {s s' : CStream α} (h : CKeeps s s') {fed del} (hi : CInv s fed del) : CInv s' fed del := by
  unfold CInv at *
  rw [h.queue, h.pread, h.readErr, h.done, h.closed]
  exact hi

/-- a step that keeps the invariant, appending what it delivers; the receiver stays closed -/
structure CTr (s : CStream α) (r : CStream α × COut α) : Prop where
  inv : ∀ fed del, CInv s fed del → CInv r.1 fed (del ++ msgsOfDones r.2.dones)
  fc : r.1.fc = s.fc
  un : r.1.unsupported = s.unsupported
  closed : s.rcv.closed = true → r.1.rcv.closed = true

theorem CTr.of_keeps {s : CStream α} {r : CStream α × COut α} (h : CKeeps s r.1)
    (hm : msgsOfDones r.2.dones = []) : CTr s r :=
  ⟨fun _ _ hi => by rw [hm, List.append_nil]; exact h.inv hi, h.fc, h.un, fun hc => by rw [h.closed]; exact hc⟩

theorem CTr.refl (s : CStream α) : CTr s (s, {}) := CTr.of_keeps (CKeeps.refl s) rfl

theorem CTr.seq {s : CStream α} {r1 r2 : CStream α × COut α} {o : COut α} (h1 : CTr s r1) (h2 : CTr r1.1 r2)
    (hm : msgsOfDones o.dones = msgsOfDones r1.2.dones ++ msgsOfDones r2.2.dones) : CTr s (r2.1, o) :=
  ⟨fun fed del hi => by
      rw [hm, ← List.append_assoc]
      exact h2.inv _ _ (h1.inv _ _ hi),
   h2.fc.trans h1.fc, h2.un.trans h1.un, fun hc => h2.closed (h1.closed hc)⟩

theorem CTr.pre {s s1 : CStream α} {r : CStream α × COut α} (h1 : CKeeps s s1) (h2 : CTr s1 r) : CTr s r :=
  ⟨fun _ _ hi => h2.inv _ _ (h1.inv hi), h2.fc.trans h1.fc, h2.un.trans h1.un,
   fun hc => h2.closed (by rw [h1.closed]; exact hc)⟩

/-! ### `ctxEnds`, `pumpSend` -/

/-- first stage of `ctxEnds`: a blocked send returns -/
def ceSend (sid : Sid) (s1 : CStream α) (e : CtxErr) : CStream α × COut α :=
  match s1.psend with
  | some _ => ({ s1 with psend := none }, { dones := [(sid, "send", .ctx e)] })
  | none => (s1, {})

/-- second stage of `ctxEnds`: a blocked `Header()` returns -/
def ceHdr (sid : Sid) (s2 : CStream α) (e : CtxErr) (hdrRace : Bool) : CStream α × COut α :=
  if s2.pheader then
    let r : Res α := if s2.gotHeaders then .md s2.headers
                     else if hdrRace then .other "RACE:ctx-or-nil-headers" else .ctx e
    ({ s2 with pheader := false }, { dones := [(sid, "header", r)] })
  else (s2, {})

theorem ctxEnds_eq (sid : Sid) (s : CStream α) (e : CtxErr) (hdrRace : Bool) :
    s.ctxEnds sid e hdrRace =
      if s.ctxDone.isSome then (s, {})
      else
        ((ceHdr sid (ceSend sid ({ s with ctxDone := some e } : CStream α) e).1 e hdrRace).1,
         (ceSend sid ({ s with ctxDone := some e } : CStream α) e).2.add
           (ceHdr sid (ceSend sid ({ s with ctxDone := some e } : CStream α) e).1 e hdrRace).2) := by
  unfold CStream.ctxEnds
  split
  · rfl
  · rfl

theorem ceSend_tr (sid : Sid) (s : CStream α) (e : CtxErr) : CTr s (ceSend sid s e) := by
  unfold ceSend
  split
  · exact CTr.of_keeps ⟨rfl, rfl, rfl, rfl, rfl, rfl, rfl⟩ rfl
  · exact CTr.refl s

theorem ceHdr_tr (sid : Sid) (s : CStream α) (e : CtxErr) (b : Bool) : CTr s (ceHdr sid s e b) := by
  unfold ceHdr
  split
  · refine CTr.of_keeps ⟨rfl, rfl, rfl, rfl, rfl, rfl, rfl⟩ ?_
    dsimp only
    split
    · rfl
    · split <;> rfl
  · exact CTr.refl s

theorem ctxEnds_tr (sid : Sid) (s : CStream α) (e : CtxErr) (b : Bool) : CTr s (s.ctxEnds sid e b) := by
  rw [ctxEnds_eq]
  split
  · exact CTr.refl s
  · refine CTr.pre (s1 := ({ s with ctxDone := some e } : CStream α)) ⟨rfl, rfl, rfl, rfl, rfl, rfl, rfl⟩ ?_
    exact CTr.seq (ceSend_tr sid _ e) (ceHdr_tr sid _ e b) (msgsOfDones_append _ _)

theorem cpumpSend_tr (cfg : CCfg) (sid : Sid) (s : CStream α) (snd : Snd α) :
    CTr s (s.pumpSend cfg sid snd) := by
  unfold CStream.pumpSend
  split
  · dsimp only
    split
    · exact CTr.of_keeps ⟨rfl, rfl, rfl, rfl, rfl, rfl, rfl⟩ rfl
    · split <;> exact CTr.of_keeps ⟨rfl, rfl, rfl, rfl, rfl, rfl, rfl⟩ rfl
  · exact CTr.of_keeps ⟨rfl, rfl, rfl, rfl, rfl, rfl, rfl⟩ rfl

/-! ### the read side -/

/-- state and output of a read pass (dropping the "cancel the stream" request) -/
@[reducible] def p2 {γ : Type} (r : CStream α × COut α × γ) : CStream α × COut α := (r.1, r.2.1)

theorem cresumeRead_tr (sid : Sid) : ∀ (fuel : Nat) (s : CStream α),
    CTr s (p2 (CStream.resumeRead sid fuel s)) := by
  intro fuel
  induction fuel with
  | zero => intro s; exact CTr.refl s
  | succ fuel ih =>
    intro s
    unfold CStream.resumeRead
    split
    · exact CTr.refl s
    · rename_i p hp
      generalize hr : readLoop s.rcv.rwin s.rcv.queue p.rst = r
      obtain ⟨rwin, q, credits, out⟩ := r
      dsimp -zeta only
      extract_lets cf rcv0 s1 failWith e
      have hq1 : s1.rcv.queue = q := rfl
      have hc1 : s1.rcv.closed = s.rcv.closed := rfl
      have hb1 : s1.readErr.isSome = s.readErr.isSome := rfl
      have hd1 : s1.done = s.done := rfl
      have hfc1 : s1.fc = s.fc := rfl
      have hun1 : s1.unsupported = s.unsupported := rfl
      have hcl1 : s.rcv.closed = true → s1.rcv.closed = true := id
      have hcs1 : ∀ fed del, CInv s fed del →
          (s1.done.isSome = true → s1.rcv.closed = true) ∧
          InvC s.rcv.queue s.rcv.closed (some p) s.readErr.isSome fed del := by
        intro fed del hi
        unfold CInv at hi
        rw [hp] at hi
        exact hi
      have hfw : ∀ (e : SErr) (b : Bool), CTr s (p2 (failWith s1 e b)) := by
        intro e b
        refine ⟨fun fed del hi => ?_, hfc1, hun1, hcl1⟩
        show CInv _ fed (del ++ msgsOfDones [(sid, "recv", (e.toRes : Res α))])
        rw [msgsOfDones_toRes, List.append_nil]
        exact CInv.of_dead (hcs1 fed del hi).1 rfl rfl hi.prefix
      clear_value s1 failWith cf e
      split
      · -- the queue ran dry
        rename_i st'
        split
        · split
          · rename_i m hl
            refine ⟨fun fed del hi => ?_, hfc1, hun1, hcl1⟩
            exact CInv.of_dead (hcs1 fed del hi).1 rfl rfl ((hcs1 fed del hi).2.read_eof hl [] true).prefix
          · exact hfw _ _
        · refine ⟨fun fed del hi => ?_, hfc1, hun1, hcl1⟩
          show CInv _ fed (del ++ [])
          rw [List.append_nil]
          exact CInv.mk' (hcs1 fed del hi).1 hq1 hc1 rfl hb1 ((hcs1 fed del hi).2.read_cont hr rfl)
      · -- a complete message
        rename_i m
        split
        · exact hfw _ _
        · rename_i hl
          split
          · refine ⟨fun fed del hi => ?_, hfc1, hun1, hcl1⟩
            exact CInv.mk' (hcs1 fed del hi).1 hq1 hc1 rfl hb1 ((hcs1 fed del hi).2.read_deliver hr rfl hl)
          · dsimp only
            have h2 := ih ({ s1 with pread := some { lookahead := some m, rst := none } } : CStream α)
            refine ⟨fun fed del hi => ?_, h2.fc.trans hfc1, h2.un.trans hun1, fun hc => h2.closed (hcl1 hc)⟩
            exact h2.inv fed del
              (CInv.mk' (hcs1 fed del hi).1 hq1 hc1 rfl hb1 ((hcs1 fed del hi).2.read_hold hr rfl hl))
      · -- a reassembly error
        exact hfw _ _
      · -- `readLoop` always has an outcome
        exact absurd rfl (readLoop_parse _ _ _ _ _ _ _ hr).choose_spec.2.2.2

/-! ### `finish`, `cancelStream`, `afterRead`, `ctxCancelled` -/

/-- `finishStream`: the state once the terminal result is recorded -/
def finStart (s : CStream α) (err : Option SErr) (trailers : MD) : CStream α :=
  { s with done := some (mapFinishErr err), inTable := false, rcv := s.rcv.close, trailers := trailers,
           gotHeaders := true, doneSignal := true }

/-- `finishStream`: a blocked `Header()` returns -/
def finHdr (sid : Sid) (s1 : CStream α) : CStream α × COut α :=
  if s1.pheader then ({ s1 with pheader := false }, { dones := [(sid, "header", .md s1.headers)] }) else (s1, {})

/-- `finishStream`: the blocked calls wake up -/
def finRun (sid : Sid) (s1 : CStream α) : CStream α × COut α :=
  let r1 := finHdr sid s1
  let r2 := r1.1.resumeRead sid 3
  let r3 := r2.1.ctxEnds sid .canceled false
  (r3.1, (r1.2.add r2.2.1).add r3.2)

theorem finish_eq (sid : Sid) (s : CStream α) (err : Option SErr) (tr : MD) :
    s.finish sid err tr =
      if s.done.isSome then (s, {}, false)
      else ((finRun sid (finStart s err tr)).1, (finRun sid (finStart s err tr)).2, true) := by
  unfold CStream.finish
  split
  · rfl
  · rfl

theorem finHdr_tr (sid : Sid) (s : CStream α) : CTr s (finHdr sid s) := by
  unfold finHdr
  split
  · exact CTr.of_keeps ⟨rfl, rfl, rfl, rfl, rfl, rfl, rfl⟩ rfl
  · exact CTr.refl s

theorem finRun_tr (sid : Sid) (s : CStream α) : CTr s (finRun sid s) := by
  unfold finRun
  dsimp only
  exact CTr.seq (CTr.seq (finHdr_tr sid s) (cresumeRead_tr sid 3 _) (msgsOfDones_append _ _))
    (ctxEnds_tr sid _ _ _) (msgsOfDones_append _ _)

/-- `finishStream(err, trailers)`: the invariant is kept even if further
    frames `extra` are refused at the same time (the receiver is closed, or
    closed by this very call) -/
theorem finish_spec (sid : Sid) (s : CStream α) (err : Option SErr) (tr : MD) (extra : List (DFrame α)) :
    (∀ fed del, CInv s fed del →
      CInv (s.finish sid err tr).1 (fed ++ extra) (del ++ msgsOfDones (s.finish sid err tr).2.1.dones)) ∧
    (s.finish sid err tr).1.fc = s.fc ∧ (s.finish sid err tr).1.unsupported = s.unsupported ∧
    ((s.finish sid err tr).2.2 = true → (s.finish sid err tr).1.rcv.closed = true) ∧
    (s.rcv.closed = true → (s.finish sid err tr).1.rcv.closed = true) := by
  rw [finish_eq]
  split
  · rename_i hd
    refine ⟨fun fed del hi => ?_, rfl, rfl, fun h => absurd h (by simp), id⟩
    have hc := hi.1 hd
    show CInv s (fed ++ extra) (del ++ [])
    rw [List.append_nil]
    refine CInv.mk' hi.1 rfl hc rfl rfl ?_
    have h2 := hi.2
    rw [hc] at h2
    exact h2.close extra
  · have h := finRun_tr sid (finStart s err tr)
    refine ⟨fun fed del hi => h.inv _ _ ?_, h.fc, h.un, fun _ => h.closed rfl, fun _ => h.closed rfl⟩
    exact CInv.mk' (fun _ => rfl) rfl rfl rfl rfl (hi.2.close extra)

theorem finish_tr (sid : Sid) (s : CStream α) (err : Option SErr) (tr : MD) :
    CTr s (p2 (s.finish sid err tr)) := by
  obtain ⟨h1, h2, h3, _, h5⟩ := finish_spec sid s err tr []
  refine ⟨fun fed del hi => ?_, h2, h3, h5⟩
  have := h1 fed del hi
  rw [List.append_nil] at this
  exact this

theorem cinv_cancel {s : CStream α} {fed del} (hi : CInv s fed del) (hc : s.rcv.closed = true) :
    CInv ({ s with rcv := if s.fc then s.rcv.cancel else s.rcv.close } : CStream α) fed del := by
  have h2 := hi.2
  rw [hc] at h2
  by_cases hfc : s.fc = true
  · simp only [hfc, if_true]
    exact CInv.mk' (fun _ => hc) rfl hc rfl rfl h2.cancel
  · simp only [hfc]
    exact CInv.mk' (fun _ => rfl) rfl rfl rfl rfl h2

theorem cancelStream_tr (sid : Sid) (s : CStream α) (err : SErr) : CTr s (s.cancelStream sid err) := by
  have hf := finish_tr sid s (some err) []
  have hs := finish_spec sid s (some err) [] []
  simp only [CStream.cancelStream]
  split
  · exact hf
  · rename_i hw
    have hw' : (s.finish sid (some err) []).2.2 = true := by simpa using hw
    have hc := hs.2.2.2.1 hw'
    refine ⟨fun fed del hi => ?_, hf.fc, hf.un, fun _ => ?_⟩
    · simp only [COut.add, List.append_nil]
      exact cinv_cancel (hf.inv fed del hi) hc
    · show (if (s.finish sid (some err) []).1.fc = true then (s.finish sid (some err) []).1.rcv.cancel
            else (s.finish sid (some err) []).1.rcv.close).closed = true
      split
      · exact hc
      · rfl

theorem afterRead_tr (sid : Sid) (s0 : CStream α) (r : CStream α × COut α × Option SErr)
    (h : CTr s0 (p2 r)) : CTr s0 (CStream.afterRead sid r) := by
  obtain ⟨s, o, c⟩ := r
  cases c with
  | none => exact h
  | some e =>
    simp only [CStream.afterRead]
    exact CTr.seq h (cancelStream_tr sid s e) (msgsOfDones_append _ _)

theorem ctxCancelled_tr (sid : Sid) (s : CStream α) (e : CtxErr) : CTr s (s.ctxCancelled sid e) := by
  unfold CStream.ctxCancelled
  split
  · exact CTr.refl s
  · dsimp only
    exact CTr.seq (ctxEnds_tr sid s e _) (cancelStream_tr sid _ _) (msgsOfDones_append _ _)

/-! ### frames and calls -/

structure CEvSpec (s : CStream α) (r : CStream α × COut α) (fd : List (DFrame α)) : Prop where
  inv : ∀ fed del, CInv s fed del →
    (s.fc = false ∧ r.1.unsupported = true) ∨ CInv r.1 (fed ++ fd) (del ++ msgsOfDones r.2.dones)
  fc : r.1.fc = s.fc
  un : s.unsupported = true → r.1.unsupported = true

theorem CTr.ev {s : CStream α} {r : CStream α × COut α} (h : CTr s r) : CEvSpec s r [] :=
  ⟨fun fed del hi => Or.inr (by rw [List.append_nil]; exact h.inv fed del hi), h.fc, fun hu => by rw [h.un]; exact hu⟩

theorem cdataFrame_spec (cfg : CCfg) (sid : Sid) (s : CStream α) (df : DFrame α) :
    CEvSpec s
      (if s.fc then
        match s.rcv.accept df with
        | (_, .dropped) => (s, {})
        | (_, .windowExceeded) =>
          let (s1, o1, _) := s.finish sid (some (.status (mkStatus codeResourceExhausted "flow control window exceeded"))) []
          (s1, o1)
        | (r, .ok) => CStream.afterRead sid (({ s with rcv := r } : CStream α).resumeRead sid 3)
      else
        if s.rcv.closed then (s, {})
        else if !s.rcv.queue.isEmpty then ({ s with unsupported := true }, {})
        else CStream.afterRead sid (({ s with rcv := { s.rcv with queue := [df] } } : CStream α).resumeRead sid 3))
      [df] := by
  have _ := cfg
  have hdrop : s.rcv.closed = true → CEvSpec s (s, {}) [df] := by
    intro hc
    refine ⟨fun fed del hi => Or.inr ?_, rfl, id⟩
    show CInv s (fed ++ [df]) (del ++ [])
    rw [List.append_nil]
    refine CInv.mk' hi.1 rfl hc rfl rfl ?_
    have h2 := hi.2
    rw [hc] at h2
    exact h2.close [df]
  split
  · rcases accept_cases s.rcv df with ⟨hc, ha⟩ | ⟨hc, ha⟩ | ⟨hc, ha⟩
    · rw [ha]; exact hdrop hc
    · -- window exceeded
      rw [ha]
      dsimp only
      have hs := finish_spec sid s
        (some (.status (mkStatus codeResourceExhausted "flow control window exceeded"))) [] [df]
      exact ⟨fun fed del hi => Or.inr (hs.1 fed del hi), hs.2.1, fun hu => by rw [hs.2.2.1]; exact hu⟩
    · -- accepted
      rw [ha]
      dsimp only
      have h2 := afterRead_tr sid _ _ (cresumeRead_tr sid 3
        ({ s with rcv := { s.rcv with rwin := s.rcv.rwin - df.size, queue := s.rcv.queue ++ [df] } } : CStream α))
      refine ⟨fun fed del hi => Or.inr (h2.inv _ _ ?_), h2.fc, fun hu => by rw [h2.un]; exact hu⟩
      have h3 := hi.2
      rw [hc] at h3
      exact CInv.mk' (fun hd => hi.1 hd) rfl hc rfl rfl (h3.feed df)
  · rename_i hfc
    have hfc' : s.fc = false := by simpa using hfc
    split
    · rename_i hc; exact hdrop hc
    · rename_i hc
      have hc' : s.rcv.closed = false := by simpa using hc
      split
      · exact ⟨fun fed del hi => Or.inl ⟨hfc', rfl⟩, rfl, fun _ => rfl⟩
      · rename_i hq
        have hq' : s.rcv.queue = [] := by simpa using hq
        have h2 := afterRead_tr sid _ _ (cresumeRead_tr sid 3
          ({ s with rcv := { s.rcv with queue := [df] } } : CStream α))
        refine ⟨fun fed del hi => Or.inr (h2.inv _ _ ?_), h2.fc, fun hu => by rw [h2.un]; exact hu⟩
        have h3 := hi.2
        rw [hc', hq'] at h3
        exact CInv.mk' (fun hd => hi.1 hd) rfl hc' rfl rfl (h3.feed df)

/-- the data a frame feeds to the reader -/
def s2cData (f : S2C α) : List (DFrame α) :=
  match dataOfS2C f with
  | some d => [d]
  | none => []

theorem conFrame_spec (cfg : CCfg) (sid : Sid) (s : CStream α) (f : S2C α) :
    CEvSpec s (s.onFrame cfg sid f) (s2cData f) := by
  cases f with
  | settings w revs => exact (finish_tr sid s _ _).ev
  | headers md =>
    simp only [CStream.onFrame]
    split
    · exact (CTr.refl s).ev
    · split
      · exact (CTr.of_keeps (s := s) (r := (({ s with gotHeaders := true, headers := md, pheader := false } : CStream α), _))
          ⟨rfl, rfl, rfl, rfl, rfl, rfl, rfl⟩ rfl).ev
      · exact (CTr.of_keeps (s := s) (r := (({ s with gotHeaders := true, headers := md } : CStream α), _))
          ⟨rfl, rfl, rfl, rfl, rfl, rfl, rfl⟩ rfl).ev
  | msg size d => exact cdataFrame_spec cfg sid s (.env size d)
  | more d => exact cdataFrame_spec cfg sid s (.more d)
  | close st tr => exact (finish_tr sid s _ _).ev
  | windowUpdate n =>
    simp only [CStream.onFrame]
    split
    · exact (CTr.refl s).ev
    · split
      · exact (CTr.of_keeps (s := s) (r := (({ s with win := wrap32c (s.win + n) } : CStream α), {}))
          ⟨rfl, rfl, rfl, rfl, rfl, rfl, rfl⟩ rfl).ev
      · rename_i snd hsnd
        exact (CTr.pre (s := s) (s1 := ({ s with win := wrap32c (s.win + n) } : CStream α))
          ⟨rfl, rfl, rfl, rfl, rfl, rfl, rfl⟩ (cpumpSend_tr cfg sid _ snd)).ev
  | unset => exact (finish_tr sid s _ _).ev

/-- a caller-side call is legal with respect to reads: `RecvMsg` is not called
    while a read that retains data is pending -/
def ccallOK (s : CStream α) : CCall α → Bool
  | .recv => recvOK s.pread
  | _ => true

theorem conCall_tr (cfg : CCfg) (sid : Sid) (s : CStream α) (c : CCall α) (hk : ccallOK s c = true) :
    CTr s (s.onCall cfg sid c) := by
  cases c with
  | send m =>
    simp only [CStream.onCall]
    split
    · exact CTr.of_keeps (CKeeps.refl s) rfl
    · exact CTr.pre (s1 := ({ s with numSent := s.numSent + 1 } : CStream α))
        ⟨rfl, rfl, rfl, rfl, rfl, rfl, rfl⟩ (cpumpSend_tr cfg sid _ _)
  | closeSend =>
    simp only [CStream.onCall]
    split
    · exact CTr.of_keeps (CKeeps.refl s) (msgsOfDones_toRes _ _ _)
    · split
      · exact CTr.of_keeps (CKeeps.refl s) rfl
      · exact CTr.of_keeps (s := s) (r := (({ s with halfClosed := true } : CStream α), _))
          ⟨rfl, rfl, rfl, rfl, rfl, rfl, rfl⟩ rfl
  | recv =>
    simp only [CStream.onCall]
    split
    · exact CTr.of_keeps (CKeeps.refl s) (msgsOfDones_toRes _ _ _)
    · rename_i he
      have h2 := afterRead_tr sid _ _ (cresumeRead_tr sid 3
        ({ s with pread := some { lookahead := none, rst := none } } : CStream α))
      refine ⟨fun fed del hi => h2.inv _ _ ?_, h2.fc, h2.un, h2.closed⟩
      have h3 := hi.2
      rw [he] at h3
      exact CInv.mk' (fun hd => hi.1 hd) rfl rfl rfl (by rw [he]; rfl) (InvC.start h3 hk)
  | header =>
    simp only [CStream.onCall]
    split
    · exact CTr.of_keeps (CKeeps.refl s) rfl
    · split
      · exact CTr.of_keeps (CKeeps.refl s) rfl
      · exact CTr.of_keeps (s := s) (r := (({ s with pheader := true } : CStream α), {}))
          ⟨rfl, rfl, rfl, rfl, rfl, rfl, rfl⟩ rfl
  | trailer => exact CTr.of_keeps (CKeeps.refl s) rfl
  | cancel => exact ctxCancelled_tr sid s .canceled

/-! ### runs of events -/

def cevData : CEv α → List (DFrame α)
  | .frame f => s2cData f
  | _ => []

def cevOK (s : CStream α) : CEv α → Bool
  | .call c => ccallOK s c
  | _ => true

theorem cstepEv_spec (cfg : CCfg) (sid : Sid) (s : CStream α) (e : CEv α) (hk : cevOK s e = true) :
    CEvSpec s (s.stepEv cfg sid e) (cevData e) := by
  cases e with
  | frame f => exact conFrame_spec cfg sid s f
  | call c => exact (conCall_tr cfg sid s c hk).ev
  | ctx e => exact (ctxCancelled_tr sid s e).ev

theorem cfedData_cons (e : CEv α) (es : List (CEv α)) :
    CEv.fedData (e :: es) = cevData e ++ CEv.fedData es := by
  cases e with
  | frame f => cases f <;> rfl
  | call c => rfl
  | ctx e => rfl

theorem cdeliveredMsgs_cons (o : COut α) (os : List (COut α)) :
    COut.deliveredMsgs (o :: os) = msgsOfDones o.dones ++ COut.deliveredMsgs os := by
  simp [COut.deliveredMsgs]

theorem crunEv_cons (cfg : CCfg) (sid : Sid) (s : CStream α) (e : CEv α) (es : List (CEv α)) :
    CStream.runEv cfg sid s (e :: es) =
      ((CStream.runEv cfg sid (s.stepEv cfg sid e).1 es).1,
       (s.stepEv cfg sid e).2 :: (CStream.runEv cfg sid (s.stepEv cfg sid e).1 es).2) := rfl

/-- **Legality of the application's reads** (grpc-go stream contract: one
    `RecvMsg` at a time): every `.call .recv` must come when no read is
    pending (`pread = none`).  Same style as `CStream.legalSends`. -/
def legalRecvsC (cfg : CCfg) (sid : Sid) : CStream α → List (CEv α) → Bool
  | _, [] => true
  | s, e :: es =>
    let isRecv := match e with | .call .recv => true | _ => false
    let ok := !isRecv || s.pread.isNone
    ok && legalRecvsC cfg sid (s.stepEv cfg sid e).1 es

theorem legalRecvsC_cons (cfg : CCfg) (sid : Sid) (s : CStream α) (e : CEv α) (es : List (CEv α))
    (h : legalRecvsC cfg sid s (e :: es) = true) :
    cevOK s e = true ∧ legalRecvsC cfg sid (s.stepEv cfg sid e).1 es = true := by
  simp only [legalRecvsC, Bool.and_eq_true] at h
  refine ⟨?_, h.2⟩
  cases e with
  | frame f => rfl
  | ctx e => rfl
  | call c =>
    cases c with
    | recv =>
      have h1 := h.1
      simp only [Bool.not_true, Bool.false_or, Option.isNone_iff_eq_none] at h1
      simp [cevOK, ccallOK, recvOK, h1]
    | _ => rfl

theorem crunEv_unsupported (cfg : CCfg) (sid : Sid) (evs : List (CEv α)) : ∀ (s : CStream α),
    legalRecvsC cfg sid s evs = true → s.unsupported = true →
    (CStream.runEv cfg sid s evs).1.unsupported = true := by
  induction evs with
  | nil => intro s _ h; exact h
  | cons e es ih =>
    intro s hl h
    obtain ⟨hk, hl'⟩ := legalRecvsC_cons cfg sid s e es hl
    rw [crunEv_cons]
    exact ih _ hl' ((cstepEv_spec cfg sid s e hk).un h)

theorem crunEv_inv (cfg : CCfg) (sid : Sid) (evs : List (CEv α)) : ∀ (s : CStream α) (fed : List (DFrame α))
    (del : List (List α)), CInv s fed del → legalRecvsC cfg sid s evs = true →
    (s.fc = true ∨ (CStream.runEv cfg sid s evs).1.unsupported = false) →
    CInv (CStream.runEv cfg sid s evs).1 (fed ++ CEv.fedData evs)
      (del ++ COut.deliveredMsgs (CStream.runEv cfg sid s evs).2) := by
  induction evs with
  | nil =>
    intro s fed del hi _ _
    simp only [CStream.runEv, CEv.fedData, COut.deliveredMsgs, List.filterMap_nil, List.flatMap_nil, List.append_nil]
    exact hi
  | cons e es ih =>
    intro s fed del hi hl hfu
    obtain ⟨hk, hl'⟩ := legalRecvsC_cons cfg sid s e es hl
    have hs := cstepEv_spec cfg sid s e hk
    rw [crunEv_cons] at hfu ⊢
    dsimp only at hfu ⊢
    rw [cfedData_cons, cdeliveredMsgs_cons, ← List.append_assoc, ← List.append_assoc]
    rcases hs.inv fed del hi with ⟨hfc, hu⟩ | hi'
    · exfalso
      have := crunEv_unsupported cfg sid es _ hl' hu
      rcases hfu with h | h
      · rw [hfc] at h; exact absurd h (by simp)
      · rw [this] at h; exact absurd h (by simp)
    · refine ih _ _ _ hi' hl' ?_
      rcases hfu with h | h
      · exact Or.inl (hs.fc.trans h)
      · exact Or.inr h

/-- a stream as `Cli.newStream` builds it -/
def CFresh (s0 : CStream α) : Prop :=
  s0.rcv.queue = [] ∧ s0.rcv.closed = false ∧ s0.rcv.cancelled = false ∧ s0.readErr = none ∧
  s0.pread = none ∧ s0.done = none ∧ s0.ctxDone = none

theorem CFresh.inv {s0 : CStream α} (h : CFresh s0) : CInv s0 [] [] := by
  obtain ⟨hq, hc, _, he, hp, hd, _⟩ := h
  unfold CInv
  rw [hq, hc, he, hp, hd]
  exact ⟨fun h => absurd h (by simp), Or.inr ⟨rfl, [], [], rfl, fun _ => rfl, rfl⟩⟩

/-- **C01, delivery half, client (flow control).** -/
theorem client_delivers_parsed_prefix (cfg : CCfg) (sid : Sid) (s0 : CStream α) (h0 : CFresh s0)
    (hfc : s0.fc = true) (evs : List (CEv α)) (hl : legalRecvsC cfg sid s0 evs = true) :
    (COut.deliveredMsgs (CStream.runEv cfg sid s0 evs).2) <+: (parse none (CEv.fedData evs)).1 := by
  have := (crunEv_inv cfg sid evs s0 [] [] h0.inv hl (Or.inl hfc)).prefix
  simpa using this

/-- **C01, delivery half, client, revision zero** (any `fc`): the same as long
    as the model has not given up (`unsupported = false` at the end). -/
theorem client_delivers_parsed_prefix_rev0 (cfg : CCfg) (sid : Sid) (s0 : CStream α) (h0 : CFresh s0)
    (evs : List (CEv α)) (hl : legalRecvsC cfg sid s0 evs = true)
    (hu : (CStream.runEv cfg sid s0 evs).1.unsupported = false) :
    (COut.deliveredMsgs (CStream.runEv cfg sid s0 evs).2) <+: (parse none (CEv.fedData evs)).1 := by
  have := (crunEv_inv cfg sid evs s0 [] [] h0.inv hl (Or.inr hu)).prefix
  simpa using this

/-! ## no fabrication -/

theorem server_no_fabrication (cfg : SCfg) (sid : Sid) (s0 : SStream α) (h0 : Fresh s0)
    (hfc : s0.fc = true) (evs : List (SEv α)) (hl : legalRecvsS cfg sid s0 evs = true) :
    (∀ m ∈ Out.deliveredMsgs (SStream.runEv cfg sid s0 evs).2, m ∈ (parse none (SEv.fedData evs)).1) ∧
    (Out.deliveredMsgs (SStream.runEv cfg sid s0 evs).2).length ≤ (parse none (SEv.fedData evs)).1.length :=
  ⟨fun _ hm => (server_delivers_parsed_prefix cfg sid s0 h0 hfc evs hl).subset hm,
   (server_delivers_parsed_prefix cfg sid s0 h0 hfc evs hl).length_le⟩

theorem server_no_fabrication_rev0 (cfg : SCfg) (sid : Sid) (s0 : SStream α) (h0 : Fresh s0)
    (evs : List (SEv α)) (hl : legalRecvsS cfg sid s0 evs = true)
    (hu : (SStream.runEv cfg sid s0 evs).1.unsupported = false) :
    (∀ m ∈ Out.deliveredMsgs (SStream.runEv cfg sid s0 evs).2, m ∈ (parse none (SEv.fedData evs)).1) ∧
    (Out.deliveredMsgs (SStream.runEv cfg sid s0 evs).2).length ≤ (parse none (SEv.fedData evs)).1.length :=
  ⟨fun _ hm => (server_delivers_parsed_prefix_rev0 cfg sid s0 h0 evs hl hu).subset hm,
   (server_delivers_parsed_prefix_rev0 cfg sid s0 h0 evs hl hu).length_le⟩

theorem client_no_fabrication (cfg : CCfg) (sid : Sid) (s0 : CStream α) (h0 : CFresh s0)
    (hfc : s0.fc = true) (evs : List (CEv α)) (hl : legalRecvsC cfg sid s0 evs = true) :
    (∀ m ∈ COut.deliveredMsgs (CStream.runEv cfg sid s0 evs).2, m ∈ (parse none (CEv.fedData evs)).1) ∧
    (COut.deliveredMsgs (CStream.runEv cfg sid s0 evs).2).length ≤ (parse none (CEv.fedData evs)).1.length :=
  ⟨fun _ hm => (client_delivers_parsed_prefix cfg sid s0 h0 hfc evs hl).subset hm,
   (client_delivers_parsed_prefix cfg sid s0 h0 hfc evs hl).length_le⟩

theorem client_no_fabrication_rev0 (cfg : CCfg) (sid : Sid) (s0 : CStream α) (h0 : CFresh s0)
    (evs : List (CEv α)) (hl : legalRecvsC cfg sid s0 evs = true)
    (hu : (CStream.runEv cfg sid s0 evs).1.unsupported = false) :
    (∀ m ∈ COut.deliveredMsgs (CStream.runEv cfg sid s0 evs).2, m ∈ (parse none (CEv.fedData evs)).1) ∧
    (COut.deliveredMsgs (CStream.runEv cfg sid s0 evs).2).length ≤ (parse none (CEv.fedData evs)).1.length :=
  ⟨fun _ hm => (client_delivers_parsed_prefix_rev0 cfg sid s0 h0 evs hl hu).subset hm,
   (client_delivers_parsed_prefix_rev0 cfg sid s0 h0 evs hl hu).length_le⟩

/-! ## non-vacuity, and the counterexamples without the legality hypothesis -/

/-- a fresh bidi-stream server stream with flow control -/
def sExBidi : SStream Nat :=
  { cs := true, ss := true, unary := false, fc := true, rcv := RcvQ.init 10, win := 10, hstatus := .running }

/-- a fresh unary server stream: `createStream` has started the decode read -/
def sExUnary : SStream Nat :=
  { cs := false, ss := false, unary := true, fc := true, rcv := RcvQ.init 10, win := 10, hstatus := .decoding,
    pread := some { lookahead := none, rst := none } }

/-- a fresh server-stream method on the server (request not streamed) -/
def sExSS : SStream Nat :=
  { cs := false, ss := true, unary := false, fc := true, rcv := RcvQ.init 10, win := 10, hstatus := .running }

def cExBidi : CStream Nat := { cs := true, ss := true, fc := true, rcv := RcvQ.init 10, win := 10 }

def cExRev0 : CStream Nat := { cs := true, ss := true, fc := false, rcv := RcvQ.init 10, win := 10 }

example : Fresh sExBidi := ⟨rfl, rfl, rfl, rfl, rfl, rfl, Or.inl rfl⟩
example : Fresh sExUnary := ⟨rfl, rfl, rfl, rfl, rfl, rfl, Or.inr rfl⟩
example : Fresh sExSS := ⟨rfl, rfl, rfl, rfl, rfl, rfl, Or.inl rfl⟩
example : CFresh cExBidi := ⟨rfl, rfl, rfl, rfl, rfl, rfl, rfl⟩
example : CFresh cExRev0 := ⟨rfl, rfl, rfl, rfl, rfl, rfl, rfl⟩

-- a legal run that delivers two messages (one reassembled from two frames);
-- the third message is complete on the wire but not yet asked for
example :
    let evs : List (SEv Nat) :=
      [.call .recv, .frame (.msg 3 [1]), .frame (.more [2, 3]), .call (.send [5]), .call .recv,
       .frame (.msg 1 [9]), .frame (.msg 0 []), .frame .halfClose, .frame (.msg 1 [4])]
    legalRecvsS {} 1 sExBidi evs = true ∧
    Out.deliveredMsgs (SStream.runEv {} 1 sExBidi evs).2 = [[1, 2, 3], [9]] ∧
    (parse none (SEv.fedData evs)).1 = [[1, 2, 3], [9], [], [4]] := by
  decide

-- unary method: the decode read delivers the request at the half-close
example :
    let evs : List (SEv Nat) := [.frame (.msg 2 [7]), .frame (.more [8]), .frame .halfClose, .call (.reply [1])]
    legalRecvsS {} 1 sExUnary evs = true ∧
    Out.deliveredMsgs (SStream.runEv {} 1 sExUnary evs).2 = [[7, 8]] ∧
    (parse none (SEv.fedData evs)).1 = [[7, 8]] := by
  decide

-- client, flow control, and revision zero without giving up
example :
    let evs : List (CEv Nat) :=
      [.call .recv, .frame (.headers []), .frame (.msg 2 [1]), .frame (.more [2]), .call .recv, .frame (.msg 1 [3]),
       .frame (.close (mkStatus 0 "") []), .call .recv]
    legalRecvsC {} 1 cExBidi evs = true ∧
    COut.deliveredMsgs (CStream.runEv {} 1 cExBidi evs).2 = [[1, 2], [3]] ∧
    (parse none (CEv.fedData evs)).1 = [[1, 2], [3]] ∧
    legalRecvsC {} 1 cExRev0 evs = true ∧
    (CStream.runEv {} 1 cExRev0 evs).1.unsupported = false ∧
    COut.deliveredMsgs (CStream.runEv {} 1 cExRev0 evs).2 = [[1, 2], [3]] := by
  decide

-- revision zero on the server: a legal run that never gives up ...
example :
    let s : SStream Nat := { sExBidi with fc := false }
    let evs : List (SEv Nat) :=
      [.frame (.msg 1 [1]), .call .recv, .call .recv, .frame (.msg 2 [2]), .frame (.more [3]), .frame (.msg 1 [4])]
    legalRecvsS {} 1 s evs = true ∧ (SStream.runEv {} 1 s evs).1.unsupported = false ∧
    Out.deliveredMsgs (SStream.runEv {} 1 s evs).2 = [[1], [2, 3]] ∧
    (parse none (SEv.fedData evs)).1 = [[1], [2, 3], [4]] := by
  decide

-- ... and why `unsupported = false` is needed there: once the model has given up
-- (second frame while the slot is full) that frame is lost
example :
    let s : SStream Nat := { sExBidi with fc := false }
    let evs : List (SEv Nat) :=
      [.frame (.msg 1 [1]), .frame (.msg 1 [2]), .call .recv, .call .recv, .frame (.msg 1 [3])]
    legalRecvsS {} 1 s evs = true ∧ (SStream.runEv {} 1 s evs).1.unsupported = true ∧
    Out.deliveredMsgs (SStream.runEv {} 1 s evs).2 = [[1], [3]] ∧
    (parse none (SEv.fedData evs)).1 = [[1], [2], [3]] := by
  decide

-- COUNTEREXAMPLE without legality (server and client): a second `RecvMsg` while
-- the first is in the middle of a message forgets the partial message; `[9]`
-- is delivered although the fed frames contain no complete message at all
example :
    let evs : List (SEv Nat) := [.call .recv, .frame (.msg 2 [7]), .call .recv, .frame (.msg 1 [9])]
    legalRecvsS {} 1 sExBidi evs = false ∧
    Out.deliveredMsgs (SStream.runEv {} 1 sExBidi evs).2 = [[9]] ∧
    (parse none (SEv.fedData evs)).1 = [] := by
  decide

example :
    let evs : List (CEv Nat) := [.call .recv, .frame (.msg 2 [7]), .call .recv, .frame (.msg 1 [9])]
    legalRecvsC {} 1 cExBidi evs = false ∧
    COut.deliveredMsgs (CStream.runEv {} 1 cExBidi evs).2 = [[9]] ∧
    (parse none (CEv.fedData evs)).1 = [] := by
  decide

-- COUNTEREXAMPLE without legality: a second `RecvMsg` while the look-ahead holds
-- the first message forgets it; the second message is delivered instead
example :
    let evs : List (SEv Nat) :=
      [.call .recv, .frame (.msg 1 [7]), .call .recv, .frame (.msg 1 [9]), .frame .halfClose]
    legalRecvsS {} 1 sExSS evs = false ∧
    Out.deliveredMsgs (SStream.runEv {} 1 sExSS evs).2 = [[9]] ∧
    (parse none (SEv.fedData evs)).1 = [[7], [9]] := by
  decide

end Proofs.Delivery

#print axioms Proofs.Delivery.server_delivers_parsed_prefix
#print axioms Proofs.Delivery.server_delivers_parsed_prefix_rev0
#print axioms Proofs.Delivery.client_delivers_parsed_prefix
#print axioms Proofs.Delivery.client_delivers_parsed_prefix_rev0
#print axioms Proofs.Delivery.server_no_fabrication
#print axioms Proofs.Delivery.server_no_fabrication_rev0
#print axioms Proofs.Delivery.client_no_fabrication
#print axioms Proofs.Delivery.client_no_fabrication_rev0
#print axioms Proofs.Delivery.runEv_inv
#print axioms Proofs.Delivery.crunEv_inv
