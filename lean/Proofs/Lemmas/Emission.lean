import TunnelModel.LFrame.Trace
import Proofs.Lemmas.Framing
/-!
  C01 (data integrity), EMISSION half, and the message-framing / chunk-bound
  clauses of C13 and C06, for both endpoints' stream objects:

  "the data frames a stream puts on the wire are, in order, the chunkings of
   the messages its application submitted: one envelope frame stating the
   total size followed by continuation frames that add up exactly to that
   size, contiguous, nothing else."

  Formally: reassembling (`parse none`) everything emitted never hits an error
  and yields a prefix of the submitted messages.

  ## Client (all statements as requested, nothing weakened)

  * `client_emits_chunkings` — the requested statement, verbatim.
  * `client_emits_chunkings_full` — the same with the strengthenings:
    `Tail ms st submitted` (the reader holds nothing, or a PROPER prefix `pre`
    of the next submitted message `m` and is bound to exactly `m.length`:
    a send blocked on the window, or aborted by cancellation), and: if at the
    end no send is pending and no step reported a failed send
    (`cAnyFailed outs = false`) then `ms = submitted` and `st = none`.
    The message refused by the call-shape guard is counted in `CEv.submitted`
    but is necessarily the last one (the refusal is a failed send), so the
    prefix statement is unaffected.
  * `client_envelopes_exact` — `envSizes emitted <+: submitted.map length`:
    the i-th envelope on the wire states exactly the length of the i-th
    submitted message (through `parse_envSizes`, a pure framing fact).
  * `client_chunk_bound` — every emitted data frame carries ≤ `chunkMax` bytes;
    for ANY run from ANY state (no legality needed).
  * `client_send_first_frame` — in any run the output of a `.call (.send m)`
    step carries no data frame or starts with `.env m.length _`.

  ## Server: the requested `server_emits_chunkings` is FALSE as written

  `server_emits_chunkings_partial` (and `_full_partial`,
  `server_envelopes_exact_partial`) have TWO hypotheses more than requested:

  * `hr : sReplyIsLast evs = true` — after a `.call (.reply _)` event there is
    no further `.call (.send _)` / `.call (.reply _)` event (a unary handler
    returns once; its reply is its last send).  Needed because the model hides
    the reply's own completion (`afterSend` filters the `"send"` entry out of
    `dones`, and `cancelCtx` on a reply in progress reports nothing), so
    `SStream.legalSends` never learns that a reply failed.
    Counterexample 1 (`cex1State`, `cex1Evs`, checked by `cex1_facts`;
    `server_emits_chunkings_as_requested_is_false`): stream with `fc = true`,
    `win = 1`, `psend = none`, `finishAfterSend = false`; events
      `[.call (.reply [1,2,3]), .ctx .canceled, .frame (.windowUpdate 5), .call (.reply [4])]`
    are legal for `legalSends … false`, the wire carries
      `[.env 3 [1], .env 1 [4]]`,
    and `parse none` of it is `.error .envBeforeDone`.
  * `h0f : s0.finishAfterSend = false` — the initial state has no stale
    "unary reply in progress" flag (true of every stream `Srv.createStream`
    builds; `h0 : s0.psend = none` alone allows the unreachable combination
    `psend = none ∧ finishAfterSend = true`).  Counterexample 2 (`cex2State`,
    `cex2Evs`, `cex2_facts`; `server_emits_chunkings_needs_h0f`): the same
    stream with `ss = true`, `finishAfterSend = true`; events
      `[.call (.send [1,2,3]), .ctx .canceled, .frame (.windowUpdate 5), .call (.send [4])]`
    (no reply at all, so `sReplyIsLast` holds): the cancelled send takes the
    reply branch of `cancelCtx`, reports no failed send, the second send is
    legal and again the wire is `[.env 3 [1], .env 1 [4]]`.

  With these two hypotheses the conclusion is exactly the requested one, and
  the full form has the same strengthenings as on the client (the "everything
  was emitted" clause additionally asks that no reply was issued, since a
  reply's failure is invisible).

  `server_chunk_bound` and `server_send_first_frame` hold as requested (any
  run from any state, `.send` and `.reply`), nothing weakened.

  ## Proof structure (as in ServerShape / ServerBound)

  * extra framing lemmas: `parse_append_ok`, frames of the sender are `Good`
    (data frames of ≤ `chunkMax` bytes), `StartsWithEnv`, `parse_envSizes`;
  * endpoint-independent bookkeeping: `Progress` (what a step does to a send in
    progress, in terms of the reader, from `pumpFuel_parse`/`sendAllFuel_parse`),
    the run invariant `Inv ps dead E S` with its two step lemmas `Inv.send`,
    `Inv.other`;
  * per endpoint: every building block other than the pump is `CQuiet`/`SQuiet`
    (emits no data frame; keeps the pending send or aborts it, and then a
    failed send is reported — on the server: or `finishAfterSend` was set);
    `pumpSend` satisfies `Progress`; `CStep`/`SStep` is the contract of every
    non-send event, `c_send_spec`/`s_send_spec`/`s_reply_spec` that of the
    sends; `c_run_inv`/`s_run_inv` is the induction over the event list.
-/

namespace Proofs.Emission
open TunnelModel.LFrame TunnelModel.Framing Proofs.Framing

variable {α : Type}

/-! ### extra framing lemmas -/

theorem parse_append_ok (st st' : RState α) (fs gs : List (DFrame α)) (ms : List (List α))
    (h : parse st fs = (ms, .ok st')) :
    parse st (fs ++ gs) = (ms ++ (parse st' gs).1, (parse st' gs).2) := by
  rw [parse_append, h]

theorem parse_nil (st : RState α) : parse st [] = ([], .ok st) := rfl

/-- a frame the chunking sender may emit: a data frame of at most `cm` bytes -/
def Good (cm : Nat) (f : DFrame α) : Prop := f ≠ .other ∧ f.size ≤ cm

theorem emitChunk_good (cm k : Nat) (s : Snd α) (hk : k ≤ cm) : Good cm (emitChunk k s).1 := by
  unfold emitChunk
  by_cases hf : s.first = true <;> by_cases hk' : k = s.rem.length <;>
    simp [hf, hk', Good, DFrame.size, List.length_take] <;> omega

theorem chunkSz_le (cm win r : Nat) : chunkSz cm win r ≤ cm := by unfold chunkSz; omega

theorem pumpFuel_good (cm : Nat) : ∀ (fuel win : Nat) (s : Snd α),
    ∀ f ∈ (pumpFuel cm fuel win s).1, Good cm f := by
  intro fuel
  induction fuel with
  | zero => intro win s f hf; simp [pumpFuel] at hf
  | succ fuel ih =>
    intro win s f hf
    unfold pumpFuel at hf
    by_cases hw : win = 0
    · simp [hw] at hf
    · simp only [hw, if_false] at hf
      have hg := emitChunk_good cm (chunkSz cm win s.rem.length) s (chunkSz_le _ _ _)
      rcases he : emitChunk (chunkSz cm win s.rem.length) s with ⟨g, _ | s'⟩
      · rw [he] at hf hg; simp only [List.mem_singleton] at hf; rw [hf]; exact hg
      · rw [he] at hf hg
        simp only [List.mem_cons] at hf
        rcases hf with hf | hf
        · rw [hf]; exact hg
        · exact ih _ _ f hf

theorem sendAllFuel_good (cm : Nat) : ∀ (fuel : Nat) (s : Snd α),
    ∀ f ∈ sendAllFuel cm fuel s, Good cm f := by
  intro fuel
  induction fuel with
  | zero => intro s f hf; simp [sendAllFuel] at hf
  | succ fuel ih =>
    intro s f hf
    unfold sendAllFuel at hf
    have hg := emitChunk_good cm (min cm s.rem.length) s (Nat.min_le_left _ _)
    rcases he : emitChunk (min cm s.rem.length) s with ⟨g, _ | s'⟩
    · rw [he] at hf hg; simp only [List.mem_singleton] at hf; rw [hf]; exact hg
    · rw [he] at hf hg
      simp only [List.mem_cons] at hf
      rcases hf with hf | hf
      · rw [hf]; exact hg
      · exact ih _ f hf

/-- the frames of a send that starts (`first = true`): none yet, or an
    envelope stating `total` first -/
def StartsWithEnv (n : Nat) (fs : List (DFrame α)) : Prop :=
  fs = [] ∨ ∃ d rest, fs = .env n d :: rest

theorem emitChunk_first (k : Nat) (s : Snd α) (h : s.first = true) :
    (emitChunk k s).1 = .env s.total (s.rem.take k) := by
  unfold emitChunk
  by_cases hk' : k = s.rem.length <;> simp [h, hk']

theorem pumpFuel_start (cm fuel win : Nat) (s : Snd α) (h : s.first = true) :
    StartsWithEnv s.total (pumpFuel cm fuel win s).1 := by
  cases fuel with
  | zero => left; rfl
  | succ fuel =>
    unfold pumpFuel
    by_cases hw : win = 0
    · left; simp [hw]
    · right
      simp only [hw, if_false]
      have hg := emitChunk_first (chunkSz cm win s.rem.length) s h
      rcases he : emitChunk (chunkSz cm win s.rem.length) s with ⟨g, _ | s'⟩
      · rw [he] at hg; simp only at hg; subst hg; exact ⟨_, [], rfl⟩
      · rw [he] at hg; simp only at hg; subst hg; exact ⟨_, _, rfl⟩

theorem sendAllFuel_start (cm fuel : Nat) (s : Snd α) (h : s.first = true) :
    StartsWithEnv s.total (sendAllFuel cm fuel s) := by
  cases fuel with
  | zero => left; rfl
  | succ fuel =>
    right
    unfold sendAllFuel
    have hg := emitChunk_first (min cm s.rem.length) s h
    rcases he : emitChunk (min cm s.rem.length) s with ⟨g, _ | s'⟩
    · rw [he] at hg; simp only at hg; subst hg; exact ⟨_, [], rfl⟩
    · rw [he] at hg; simp only at hg; subst hg; exact ⟨_, _, rfl⟩

/-- sizes stated by the envelope frames of a frame list, in order -/
def envSizes : List (DFrame α) → List Nat
  | [] => []
  | .env n _ :: fs => n :: envSizes fs
  | _ :: fs => envSizes fs

/-- the size a reader state is still bound to -/
def pendSize : RState α → List Nat
  | none => []
  | some (n, _) => [n]

theorem parseStep_msg_len (st : RState α) (f : DFrame α) (m : List α) (h : parseStep st f = .msg m) :
    pendSize st ++ envSizes [f] = [m.length] := by
  cases st with
  | none =>
    cases f with
    | env n d =>
      simp only [parseStep] at h
      split at h
      · cases h
      · split at h
        · rename_i h2; cases h; simp [pendSize, envSizes, h2]
        · cases h
    | more d => simp [parseStep] at h
    | other => simp [parseStep] at h
  | some p =>
    obtain ⟨n, b⟩ := p
    cases f with
    | env n d => simp [parseStep] at h
    | more d =>
      simp only [parseStep] at h
      split at h
      · cases h
      · split at h
        · rename_i h2; cases h; simp [pendSize, envSizes, h2]
        · cases h
    | other => simp [parseStep] at h

theorem parseStep_cont_len (st st' : RState α) (f : DFrame α) (h : parseStep st f = .cont st') :
    pendSize st ++ envSizes [f] = pendSize st' := by
  cases st with
  | none =>
    cases f with
    | env n d =>
      simp only [parseStep] at h
      split at h
      · cases h
      · split at h
        · cases h
        · cases h; simp [pendSize, envSizes]
    | more d => simp [parseStep] at h
    | other => simp [parseStep] at h
  | some p =>
    obtain ⟨n, b⟩ := p
    cases f with
    | env n d => simp [parseStep] at h
    | more d =>
      simp only [parseStep] at h
      split at h
      · cases h
      · split at h
        · cases h
        · cases h; simp [pendSize, envSizes]
    | other => simp [parseStep] at h

theorem envSizes_cons (f : DFrame α) (fs : List (DFrame α)) :
    envSizes (f :: fs) = envSizes [f] ++ envSizes fs := by
  cases f <;> simp [envSizes]

/-- in an error-free reassembly every envelope states exactly the length of
    the message it starts -/
theorem parse_envSizes : ∀ (fs : List (DFrame α)) (st st' : RState α) (ms : List (List α)),
    parse st fs = (ms, .ok st') →
    pendSize st ++ envSizes fs = ms.map List.length ++ pendSize st' := by
  intro fs
  induction fs with
  | nil => intro st st' ms h; simp [parse] at h; obtain ⟨rfl, rfl⟩ := h; simp [envSizes]
  | cons f fs ih =>
    intro st st' ms h
    rw [envSizes_cons, ← List.append_assoc]
    simp only [parse] at h
    cases hs : parseStep st f with
    | cont st1 =>
      rw [hs] at h; simp only at h
      rw [parseStep_cont_len st st1 f hs]
      exact ih st1 st' ms h
    | msg m =>
      rw [hs] at h; simp only at h
      rcases hp : parse none fs with ⟨ms1, r1⟩
      rw [hp] at h; simp only [Prod.mk.injEq] at h
      obtain ⟨rfl, rfl⟩ := h
      rw [parseStep_msg_len st f m hs]
      have := ih none st' ms1 hp
      rw [show pendSize (none : RState α) = [] from rfl, List.nil_append] at this
      simp [this]
    | err e => rw [hs] at h; simp at h

/-! ### outputs: data frames and failed sends -/

/-- the data frames of one client step's output -/
def cdata (o : COut α) : List (DFrame α) := o.frames.filterMap (fun f => dataOfC2S f.2)

theorem c_emittedData_eq (outs : List (COut α)) : COut.emittedData outs = outs.flatMap cdata := rfl

@[simp] theorem cdata_empty : cdata ({} : COut α) = [] := rfl

theorem cdata_add (a b : COut α) : cdata (a.add b) = cdata a ++ cdata b := by
  simp [cdata, COut.add, List.filterMap_append]

theorem cdata_frames_nil (o : COut α) (h : o.frames = []) : cdata o = [] := by simp [cdata, h]

theorem c_pump_data (sid : Sid) (fs : List (DFrame α)) (h : ∀ f ∈ fs, f ≠ .other) :
    (fs.map (fun f => (sid, dframeToC2S f))).filterMap (fun f => dataOfC2S f.2) = fs := by
  induction fs with
  | nil => rfl
  | cons f fs ih =>
    have h1 := h f (by simp)
    have h2 := ih (fun g hg => h g (by simp [hg]))
    cases f with
    | env n d => exact congrArg (DFrame.env n d :: ·) h2
    | more d => exact congrArg (DFrame.more d :: ·) h2
    | other => exact absurd rfl h1

theorem c_credit_data (sid : Sid) (c : Bool) (credits : List Nat) :
    (if c then credits.map (fun n => (sid, (C2S.windowUpdate n : C2S α))) else []).filterMap
      (fun f => dataOfC2S f.2) = [] := by
  cases c <;> simp [dataOfC2S]

theorem sendFailedIn_append (a b : List (Sid × String × Res α)) :
    sendFailedIn (a ++ b) = (sendFailedIn a || sendFailedIn b) := by
  simp [sendFailedIn, List.any_append]

theorem c_failed_add (a b : COut α) :
    sendFailedIn (a.add b).dones = (sendFailedIn a.dones || sendFailedIn b.dones) := by
  simp [COut.add, sendFailedIn_append]

/-! ### client: operations that do not pump -/

/-- a building block that emits no data frame and either leaves the pending
    send alone or aborts it, reporting a failed send -/
def CQuiet (s s' : CStream α) (o : COut α) : Prop :=
  cdata o = [] ∧ (s'.psend = s.psend ∨ (s'.psend = none ∧ sendFailedIn o.dones = true))

theorem CQuiet.refl (s : CStream α) : CQuiet s s {} := ⟨rfl, Or.inl rfl⟩

theorem CQuiet.of_eq {s s' : CStream α} {o : COut α} (hp : s'.psend = s.psend) (hd : cdata o = []) :
    CQuiet s s' o := ⟨hd, Or.inl hp⟩

theorem CQuiet.trans {s s1 s2 : CStream α} {o1 o2 : COut α} (h1 : CQuiet s s1 o1) (h2 : CQuiet s1 s2 o2) :
    CQuiet s s2 (o1.add o2) := by
  refine ⟨by rw [cdata_add, h1.1, h2.1]; rfl, ?_⟩
  rw [c_failed_add]
  rcases h2.2 with h | ⟨h, hf⟩
  · rcases h1.2 with h' | ⟨h', hf'⟩
    · exact Or.inl (h.trans h')
    · exact Or.inr ⟨h.trans h', by simp [hf']⟩
  · exact Or.inr ⟨h, by simp [hf]⟩

theorem ctxEnds_quiet (sid : Sid) (s : CStream α) (e : CtxErr) (b : Bool) :
    CQuiet s (s.ctxEnds sid e b).1 (s.ctxEnds sid e b).2 := by
  unfold CStream.ctxEnds
  by_cases h : s.ctxDone.isSome = true
  · rw [if_pos h]; exact CQuiet.refl s
  · rw [if_neg h]
    cases hps : s.psend with
    | none => by_cases hph : s.pheader = true <;> simp [hps, hph, CQuiet, cdata, COut.add]
    | some snd =>
      by_cases hph : s.pheader = true <;> simp [hps, hph, CQuiet, cdata, COut.add, sendFailedIn]

/-- closes "these frames carry no data" goals about window-update credits -/
macro "cred" : tactic => `(tactic| (simp [cdata] <;> (intros; subst_vars; rfl)))

theorem c_resumeRead_keep (sid : Sid) : ∀ (fuel : Nat) (s : CStream α),
    (s.resumeRead sid fuel).1.psend = s.psend ∧ cdata (s.resumeRead sid fuel).2.1 = [] := by
  intro fuel
  induction fuel with
  | zero => intro s; simp [CStream.resumeRead]
  | succ n ih =>
    intro s
    rw [CStream.resumeRead]
    split
    · simp
    · rename_i p hp
      split
      rename_i rwin q credits out hrl
      dsimp only
      split
      · split
        · split
          · cred
          · cred
        · cred
      · split
        · cred
        · split
          · cred
          · simp only [cdata_add]
            refine ⟨(ih _).1, ?_⟩
            rw [(ih _).2]
            cred
      · cred
      · cred

/-! ### the endpoint-independent bookkeeping -/

/-- what the reader may still hold after all complete messages `ms`: nothing,
    or a proper prefix `pre` of the next submitted message `m`, bound to
    `m.length` by its envelope -/
def Tail (ms : List (List α)) (st : RState α) (S : List (List α)) : Prop :=
  (st = none ∧ ms <+: S) ∨
  ∃ m pre, st = some (m.length, pre) ∧ pre <+: m ∧ pre.length < m.length ∧ ms ++ [m] <+: S

theorem Tail.prefix {ms : List (List α)} {st : RState α} {S : List (List α)} (h : Tail ms st S) : ms <+: S := by
  rcases h with ⟨_, h⟩ | ⟨m, pre, _, _, _, h⟩
  · exact h
  · exact (List.prefix_append ms [m]).trans h

theorem Tail.mono {ms : List (List α)} {st : RState α} {S S' : List (List α)} (h : Tail ms st S)
    (hs : S <+: S') : Tail ms st S' := by
  rcases h with ⟨h1, h⟩ | ⟨m, pre, h1, h2, h3, h⟩
  · exact Or.inl ⟨h1, h.trans hs⟩
  · exact Or.inr ⟨m, pre, h1, h2, h3, h.trans hs⟩

theorem tail_of_linked (ms : List (List α)) (m : List α) (snd : Snd α) (st : RState α)
    (h : Linked m snd st) : Tail ms st (ms ++ [m]) := by
  obtain ⟨_, h⟩ := h
  rcases h with ⟨_, _, hst⟩ | ⟨_, hne, pre, hpre, hst⟩
  · exact Or.inl ⟨hst, List.prefix_append ms [m]⟩
  · refine Or.inr ⟨m, pre, hst, ⟨_, hpre⟩, ?_, List.prefix_refl _⟩
    have := List.length_pos_iff.mpr hne
    rw [← hpre, List.length_append]; omega

/-- what one step does to a send in progress (sender state `snd`) in terms of
    the reader: the data frames `data` either complete the message, or leave
    the reader linked to a new sender state, which is either still pending
    (`ps' = some snd'`) or was dropped with a failure reported -/
def Progress (snd : Snd α) (data : List (DFrame α)) (ps' : Option (Snd α)) (failedNow : Bool) : Prop :=
  ∀ m st, Linked m snd st →
    (parse st data = ([m], .ok none) ∧ ps' = none) ∨
    (∃ st' snd', parse st data = ([], .ok st') ∧ Linked m snd' st' ∧
      (ps' = some snd' ∨ (ps' = none ∧ failedNow = true)))

theorem Progress.keep (snd : Snd α) (f : Bool) : Progress snd [] (some snd) f :=
  fun _ st hl => Or.inr ⟨st, snd, rfl, hl, Or.inl rfl⟩

theorem Progress.abort (snd : Snd α) : Progress snd [] none true :=
  fun _ st hl => Or.inr ⟨st, snd, rfl, hl, Or.inr ⟨rfl, rfl⟩⟩

/-- the invariant of a run: `ps` the pending send, `dead` = a send has failed
    (or, on the server, the unary reply was issued), `E` the data frames
    emitted so far, `S` the messages submitted so far -/
structure Inv (ps : Option (Snd α)) (dead : Bool) (E : List (DFrame α)) (S : List (List α)) : Prop where
  idle : ps = none → dead = false → parse none E = (S, .ok none)
  dead : ps = none → dead = true → ∃ ms st, parse none E = (ms, .ok st) ∧ Tail ms st S
  busy : ∀ snd, ps = some snd → ∃ ms m st, S = ms ++ [m] ∧ parse none E = (ms, .ok st) ∧ Linked m snd st

theorem Inv.init : Inv (none : Option (Snd α)) false [] [] :=
  ⟨fun _ _ => rfl, fun _ h => (by cases h), fun _ h => (by cases h)⟩

/-- a send is issued in the idle state -/
theorem Inv.send {E : List (DFrame α)} {S : List (List α)} {m : List α} {data : List (DFrame α)}
    {ps' : Option (Snd α)} {f dead' : Bool}
    (h : parse none E = (S, .ok none)) (hp : Progress (Snd.start m) data ps' f)
    (hd : f = true → dead' = true) : Inv ps' dead' (E ++ data) (S ++ [m]) := by
  have hpa := parse_append_ok none none E data S h
  rcases hp m none (linked_start m) with ⟨h1, h2⟩ | ⟨st', snd', h1, hl, h2⟩
  · rw [h1] at hpa
    refine ⟨fun _ _ => hpa, fun _ _ => ⟨_, _, hpa, Or.inl ⟨rfl, List.prefix_refl _⟩⟩, fun snd hs => ?_⟩
    rw [h2] at hs; cases hs
  · rw [h1, List.append_nil] at hpa
    refine ⟨fun hn hdd => ?_, fun _ _ => ⟨_, _, hpa, tail_of_linked S m snd' st' hl⟩, fun snd hs => ?_⟩
    · rcases h2 with h2 | ⟨_, h2⟩
      · rw [h2] at hn; cases hn
      · rw [hd h2] at hdd; cases hdd
    · rcases h2 with h2 | ⟨h2, _⟩
      · rw [h2] at hs; cases hs; exact ⟨S, m, st', rfl, hpa, hl⟩
      · rw [h2] at hs; cases hs

/-- any other step -/
theorem Inv.other {ps ps' : Option (Snd α)} {dead dead' f : Bool} {E data : List (DFrame α)}
    {S : List (List α)} (h : Inv ps dead E S)
    (hidle : ps = none → ps' = none ∧ data = [])
    (hprog : ∀ snd, ps = some snd → Progress snd data ps' f)
    (hd1 : dead = true → dead' = true) (hd2 : f = true → dead' = true) :
    Inv ps' dead' (E ++ data) S := by
  cases hps : ps with
  | none =>
    obtain ⟨h1, h2⟩ := hidle hps
    rw [h2, List.append_nil, h1]
    refine ⟨fun _ hdd => ?_, fun _ _ => ?_, fun snd hs => by cases hs⟩
    · cases hdead : dead with
      | false => exact h.idle hps hdead
      | true => rw [hd1 hdead] at hdd; cases hdd
    · cases hdead : dead with
      | false => exact ⟨_, _, h.idle hps hdead, Or.inl ⟨rfl, List.prefix_refl _⟩⟩
      | true => exact h.dead hps hdead
  | some snd =>
    obtain ⟨ms, m, st, hS, hpE, hl⟩ := h.busy snd hps
    have hpa := parse_append_ok none st E data ms hpE
    rcases hprog snd hps m st hl with ⟨h1, h2⟩ | ⟨st', snd', h1, hl', h2⟩
    · rw [h1, ← hS] at hpa
      rw [h2]
      exact ⟨fun _ _ => hpa, fun _ _ => ⟨_, _, hpa, Or.inl ⟨rfl, List.prefix_refl _⟩⟩,
        fun snd hs => by cases hs⟩
    · rw [h1, List.append_nil] at hpa
      refine ⟨fun hn hdd => ?_, fun _ _ => ⟨_, _, hpa, hS ▸ tail_of_linked ms m snd' st' hl'⟩,
        fun snd2 hs => ?_⟩
      · rcases h2 with h2 | ⟨_, h2⟩
        · rw [h2] at hn; cases hn
        · rw [hd2 h2] at hdd; cases hdd
      · rcases h2 with h2 | ⟨h2, _⟩
        · rw [h2] at hs; cases hs; exact ⟨ms, m, st', hS, hpa, hl'⟩
        · rw [h2] at hs; cases hs

/-- what the invariant says at the end of a run -/
theorem Inv.result {ps : Option (Snd α)} {dead : Bool} {E : List (DFrame α)} {S : List (List α)}
    (h : Inv ps dead E S) :
    ∃ ms st, parse none E = (ms, .ok st) ∧ Tail ms st S ∧
      (ps = none → dead = false → ms = S ∧ st = none) := by
  cases hps : ps with
  | none =>
    cases hd : dead with
    | false =>
      exact ⟨S, none, h.idle hps hd, Or.inl ⟨rfl, List.prefix_refl _⟩, fun _ _ => ⟨rfl, rfl⟩⟩
    | true =>
      obtain ⟨ms, st, h1, h2⟩ := h.dead hps hd
      exact ⟨ms, st, h1, h2, fun _ hh => by cases hh⟩
  | some snd =>
    obtain ⟨ms, m, st, hS, hpE, hl⟩ := h.busy snd hps
    exact ⟨ms, st, hpE, hS ▸ tail_of_linked ms m snd st hl, fun hh => by cases hh⟩

/-- the outcome of the pumping loop, in terms of the reader -/
theorem pump_progress (cm : Nat) (hcm : 0 < cm) (fuel win : Nat) (snd : Snd α)
    (ps' : Option (Snd α)) (f : Bool)
    (h : match (pumpFuel cm fuel win snd).2.2 with
         | none => ps' = none
         | some snd' => ps' = some snd' ∨ (ps' = none ∧ f = true)) :
    Progress snd (pumpFuel cm fuel win snd).1 ps' f := by
  intro m st hl
  have hp := pumpFuel_parse cm hcm m fuel win snd st hl
  rcases hpf : pumpFuel cm fuel win snd with ⟨fs, w, _ | snd'⟩
  · rw [hpf] at hp h; simp only at hp h
    exact Or.inl ⟨hp, h⟩
  · rw [hpf] at hp h; simp only at hp h
    obtain ⟨st', h1, h2⟩ := hp
    exact Or.inr ⟨st', snd', h1, h2, h⟩

theorem sendAll_progress (cm : Nat) (hcm : 0 < cm) (snd : Snd α) (f : Bool) :
    Progress snd (sendAllFuel cm (snd.rem.length + 1) snd) none f := by
  intro m st hl
  exact Or.inl ⟨sendAllFuel_parse cm hcm m _ snd st hl (Nat.lt_succ_self _), rfl⟩

/-! ### client: the pump, the steps -/

theorem c_pumpSend_spec (cfg : CCfg) (hcm : 0 < cfg.chunkMax) (sid : Sid) (s : CStream α) (snd : Snd α) :
    Progress snd (cdata (s.pumpSend cfg sid snd).2) (s.pumpSend cfg sid snd).1.psend
      (sendFailedIn (s.pumpSend cfg sid snd).2.dones) ∧
    (∀ f ∈ cdata (s.pumpSend cfg sid snd).2, f.size ≤ cfg.chunkMax) ∧
    (snd.first = true → StartsWithEnv snd.total (cdata (s.pumpSend cfg sid snd).2)) := by
  unfold CStream.pumpSend
  by_cases hfc : s.fc = true
  · simp only [hfc, if_true, pump]
    have hg := pumpFuel_good cfg.chunkMax (snd.rem.length + 1) s.win snd
    have hst := pumpFuel_start cfg.chunkMax (snd.rem.length + 1) s.win snd
    have hpr := pump_progress cfg.chunkMax hcm (snd.rem.length + 1) s.win snd
    rcases hpf : pumpFuel cfg.chunkMax (snd.rem.length + 1) s.win snd with ⟨fs, w, _ | snd'⟩
    · rw [hpf] at hg hst hpr; simp only at hg hst hpr ⊢
      have hd := c_pump_data sid fs (fun f hf => (hg f hf).1)
      simp only [cdata, hd]
      exact ⟨hpr none _ rfl, fun f hf => (hg f hf).2, hst⟩
    · rw [hpf] at hg hst hpr; simp only at hg hst hpr ⊢
      have hd := c_pump_data sid fs (fun f hf => (hg f hf).1)
      cases hc : s.ctxDone with
      | none =>
        simp only [cdata, hd]
        exact ⟨hpr (some snd') _ (Or.inl rfl), fun f hf => (hg f hf).2, hst⟩
      | some e =>
        simp only [cdata, hd]
        exact ⟨hpr none _ (Or.inr ⟨rfl, by simp [sendFailedIn]⟩), fun f hf => (hg f hf).2, hst⟩
  · have hfc' : s.fc = false := by simpa using hfc
    simp only [hfc', Bool.false_eq_true, if_false]
    have hg := sendAllFuel_good cfg.chunkMax (snd.rem.length + 1) snd
    have hd := c_pump_data sid _ (fun f hf => (hg f hf).1)
    simp only [cdata, hd]
    exact ⟨sendAll_progress cfg.chunkMax hcm snd _, fun f hf => (hg f hf).2,
      sendAllFuel_start cfg.chunkMax _ snd⟩

/-- first stage of the client's `finishStream` (publishing the result, waking
    a blocked `Header()`), named only to keep the proof terms small -/
def cfinStage1 (sid : Sid) (s : CStream α) (err : Option SErr) (tr : MD) : CStream α × COut α :=
  let s1 := { s with done := some (mapFinishErr err), inTable := false, rcv := s.rcv.close, trailers := tr,
                     gotHeaders := true, doneSignal := true }
  if s1.pheader then ({ s1 with pheader := false }, { dones := [(sid, "header", .md s1.headers)] }) else (s1, {})

theorem c_finish_eq (sid : Sid) (s : CStream α) (err : Option SErr) (tr : MD) (h : ¬ s.done.isSome = true) :
    s.finish sid err tr =
      (let r1 := cfinStage1 sid s err tr
       let r2 := r1.1.resumeRead sid 3
       let r3 := r2.1.ctxEnds sid .canceled false
       (r3.1, (r1.2.add r2.2.1).add r3.2, true)) := by
  unfold CStream.finish
  rw [if_neg h]
  rfl

theorem cfinStage1_quiet (sid : Sid) (s : CStream α) (err : Option SErr) (tr : MD) :
    CQuiet s (cfinStage1 sid s err tr).1 (cfinStage1 sid s err tr).2 := by
  unfold cfinStage1
  by_cases hph : s.pheader = true
  · simp only [hph, if_true]; exact CQuiet.of_eq rfl rfl
  · simp only [hph]; exact CQuiet.of_eq rfl rfl

theorem c_resumeRead_quiet (sid : Sid) (fuel : Nat) (s : CStream α) :
    CQuiet s (s.resumeRead sid fuel).1 (s.resumeRead sid fuel).2.1 :=
  CQuiet.of_eq (c_resumeRead_keep sid fuel s).1 (c_resumeRead_keep sid fuel s).2

theorem c_finish_quiet (sid : Sid) (s : CStream α) (err : Option SErr) (tr : MD) :
    CQuiet s (s.finish sid err tr).1 (s.finish sid err tr).2.1 := by
  by_cases h : s.done.isSome = true
  · unfold CStream.finish; rw [if_pos h]; exact CQuiet.refl s
  · rw [c_finish_eq sid s err tr h]
    exact ((cfinStage1_quiet sid s err tr).trans (c_resumeRead_quiet sid 3 _)).trans
      (ctxEnds_quiet sid _ _ _)

theorem cancelStream_quiet (sid : Sid) (s : CStream α) (e : SErr) :
    CQuiet s (s.cancelStream sid e).1 (s.cancelStream sid e).2 := by
  unfold CStream.cancelStream
  have h := c_finish_quiet sid s (some e) []
  rcases hf : s.finish sid (some e) [] with ⟨s1, o1, won⟩
  rw [hf] at h
  cases won
  · exact h
  · exact h.trans (CQuiet.of_eq rfl rfl)

theorem afterRead_quiet (sid : Sid) (s0 : CStream α) (r : CStream α × COut α × Option SErr)
    (h : CQuiet s0 r.1 r.2.1) : CQuiet s0 (CStream.afterRead sid r).1 (CStream.afterRead sid r).2 := by
  obtain ⟨s, o, c⟩ := r
  cases c with
  | none => exact h
  | some e => exact h.trans (cancelStream_quiet sid s e)

theorem ctxCancelled_quiet (sid : Sid) (s : CStream α) (e : CtxErr) :
    CQuiet s (s.ctxCancelled sid e).1 (s.ctxCancelled sid e).2 := by
  unfold CStream.ctxCancelled
  by_cases h : s.ctxDone.isSome = true
  · rw [if_pos h]; exact CQuiet.refl s
  · rw [if_neg h]
    exact (ctxEnds_quiet sid s e _).trans (cancelStream_quiet sid _ _)

/-- the contract of a client step other than `SendMsg` -/
structure CStep (cm : Nat) (s : CStream α) (r : CStream α × COut α) : Prop where
  idle : s.psend = none → r.1.psend = none ∧ cdata r.2 = []
  prog : ∀ snd, s.psend = some snd → Progress snd (cdata r.2) r.1.psend (sendFailedIn r.2.dones)
  bound : ∀ f ∈ cdata r.2, f.size ≤ cm

theorem CStep.of_quiet {cm : Nat} {s : CStream α} {r : CStream α × COut α} (h : CQuiet s r.1 r.2) :
    CStep cm s r := by
  obtain ⟨hd, hp⟩ := h
  refine ⟨fun hn => ⟨?_, hd⟩, fun snd hs => ?_, fun f hf => ?_⟩
  · rcases hp with hp | ⟨hp, _⟩
    · exact hp.trans hn
    · exact hp
  · rw [hd]
    rcases hp with hp | ⟨hp, hf⟩
    · rw [hp, hs]; exact Progress.keep snd _
    · rw [hp, hf]; exact Progress.abort snd
  · rw [hd] at hf; cases hf

theorem CStep.id (cm : Nat) (s : CStream α) : CStep cm s (s, {}) := CStep.of_quiet (CQuiet.refl s)

theorem c_dataFrame_quiet (sid : Sid) (s : CStream α) (df : DFrame α) (r : CStream α × COut α)
    (hr : r =
      (if s.fc then
        match s.rcv.accept df with
        | (_, .dropped) => (s, {})
        | (_, .windowExceeded) =>
          let (s1, o1, _) := s.finish sid (some (.status (mkStatus codeResourceExhausted "flow control window exceeded"))) []
          (s1, o1)
        | (r, .ok) => CStream.afterRead sid (({ s with rcv := r } : CStream α).resumeRead sid 3)
      else
        if s.rcv.closed then (s, {})
        else if !s.rcv.queue.isEmpty then ({ s with unsupported := true }, {})
        else CStream.afterRead sid (({ s with rcv := { s.rcv with queue := [df] } } : CStream α).resumeRead sid 3))) :
    CQuiet s r.1 r.2 := by
  subst hr
  split
  · split
    · exact CQuiet.refl s
    · exact c_finish_quiet sid s _ _
    · exact afterRead_quiet sid s _ (c_resumeRead_quiet sid 3 _)
  · split
    · exact CQuiet.refl s
    · split
      · exact CQuiet.of_eq rfl rfl
      · exact afterRead_quiet sid s _ (c_resumeRead_quiet sid 3 _)

theorem c_onFrame_step (cfg : CCfg) (hcm : 0 < cfg.chunkMax) (sid : Sid) (s : CStream α) (f : S2C α) :
    CStep cfg.chunkMax s (s.onFrame cfg sid f) := by
  cases f with
  | settings w rv => exact CStep.of_quiet (c_finish_quiet sid s _ _)
  | headers md =>
    apply CStep.of_quiet
    simp only [CStream.onFrame]
    split
    · exact CQuiet.refl s
    · split
      · exact CQuiet.of_eq rfl rfl
      · exact CQuiet.of_eq rfl rfl
  | msg size d => exact CStep.of_quiet (c_dataFrame_quiet sid s (.env size d) _ rfl)
  | more d => exact CStep.of_quiet (c_dataFrame_quiet sid s (.more d) _ rfl)
  | close st tr => exact CStep.of_quiet (c_finish_quiet sid s _ _)
  | windowUpdate n =>
    simp only [CStream.onFrame]
    split
    · exact CStep.id _ s
    · cases hps : s.psend with
      | none => exact CStep.of_quiet (CQuiet.of_eq hps.symm rfl)
      | some snd =>
        have h := fun s' => c_pumpSend_spec cfg hcm sid s' snd
        refine ⟨fun hn => ?_, fun snd' hs => ?_, (h _).2.1⟩
        · rw [hps] at hn; cases hn
        · rw [hps] at hs; cases hs; exact (h _).1
  | unset => exact CStep.of_quiet (c_finish_quiet sid s _ _)

/-- the calls other than `SendMsg` -/
theorem c_onCall_quiet (cfg : CCfg) (sid : Sid) (s : CStream α) (c : CCall α)
    (hc : ∀ m, c ≠ .send m) : CQuiet s (s.onCall cfg sid c).1 (s.onCall cfg sid c).2 := by
  cases c with
  | send m => exact absurd rfl (hc m)
  | closeSend =>
    simp only [CStream.onCall]
    split
    · exact CQuiet.of_eq rfl rfl
    · split
      · exact CQuiet.of_eq rfl rfl
      · exact CQuiet.of_eq rfl rfl
  | recv =>
    simp only [CStream.onCall]
    split
    · exact CQuiet.of_eq rfl rfl
    · exact afterRead_quiet sid s _ (c_resumeRead_quiet sid 3 _)
  | header =>
    simp only [CStream.onCall]
    split
    · exact CQuiet.of_eq rfl rfl
    · split
      · exact CQuiet.of_eq rfl rfl
      · exact CQuiet.of_eq rfl rfl
  | trailer => exact CQuiet.of_eq rfl rfl
  | cancel => exact ctxCancelled_quiet sid s _

/-- `SendMsg(m)`: the frames it emits itself start the chunking of `m` -/
theorem c_send_spec (cfg : CCfg) (hcm : 0 < cfg.chunkMax) (sid : Sid) (s : CStream α) (m : List α) :
    (s.psend = none →
      Progress (Snd.start m) (cdata (s.onCall cfg sid (.send m)).2) (s.onCall cfg sid (.send m)).1.psend
        (sendFailedIn (s.onCall cfg sid (.send m)).2.dones)) ∧
    (∀ f ∈ cdata (s.onCall cfg sid (.send m)).2, f.size ≤ cfg.chunkMax) ∧
    StartsWithEnv m.length (cdata (s.onCall cfg sid (.send m)).2) := by
  simp only [CStream.onCall]
  split
  · refine ⟨?_, fun f hf => (by cases hf), Or.inl rfl⟩
    intro hps m' st hl
    exact Or.inr ⟨st, Snd.start m, rfl, hl, Or.inr ⟨hps, by simp [sendFailedIn]⟩⟩
  · have h := c_pumpSend_spec cfg hcm sid ({ s with numSent := s.numSent + 1 } : CStream α) (Snd.start m)
    exact ⟨fun _ => h.1, h.2.1, h.2.2 rfl⟩

/-! ### client: runs -/

/-- the message an event submits -/
def csub : CEv α → List (List α)
  | .call (.send m) => [m]
  | _ => []

/-- is the event a `SendMsg`? (as in `CStream.legalSends`) -/
def cIsSend : CEv α → Bool
  | .call (.send _) => true
  | _ => false

/-- some step of the run reported a failed send -/
def cAnyFailed (outs : List (COut α)) : Bool := outs.any (fun o => sendFailedIn o.dones)

theorem c_submitted_cons (e : CEv α) (es : List (CEv α)) :
    CEv.submitted (e :: es) = csub e ++ CEv.submitted es := by
  cases e with
  | frame f => rfl
  | call c => cases c <;> rfl
  | ctx e => rfl

theorem c_runEv_cons (cfg : CCfg) (sid : Sid) (s : CStream α) (e : CEv α) (es : List (CEv α)) :
    CStream.runEv cfg sid s (e :: es) =
      ((CStream.runEv cfg sid (s.stepEv cfg sid e).1 es).1,
       (s.stepEv cfg sid e).2 :: (CStream.runEv cfg sid (s.stepEv cfg sid e).1 es).2) := rfl

theorem c_legalSends_cons (cfg : CCfg) (sid : Sid) (s : CStream α) (failed : Bool) (e : CEv α)
    (es : List (CEv α)) :
    CStream.legalSends cfg sid s failed (e :: es) =
      ((!cIsSend e || (s.psend.isNone && !failed)) &&
        CStream.legalSends cfg sid (s.stepEv cfg sid e).1
          (failed || sendFailedIn (s.stepEv cfg sid e).2.dones) es) := by
  cases e with
  | frame f => rfl
  | call c => cases c <;> rfl
  | ctx e => rfl

theorem c_nonsend_inv {cm : Nat} {s : CStream α} {r : CStream α × COut α} {failed : Bool}
    {E : List (DFrame α)} {S : List (List α)} (hs : CStep cm s r) (h : Inv s.psend failed E S) :
    Inv r.1.psend (failed || sendFailedIn r.2.dones) (E ++ cdata r.2) S :=
  Inv.other h hs.idle hs.prog (fun hf => by simp [hf]) (fun hf => by simp [hf])

theorem c_stepEv_step (cfg : CCfg) (hcm : 0 < cfg.chunkMax) (sid : Sid) (s : CStream α) (e : CEv α)
    (he : cIsSend e = false) : CStep cfg.chunkMax s (s.stepEv cfg sid e) := by
  cases e with
  | frame f => exact c_onFrame_step cfg hcm sid s f
  | call c =>
    refine CStep.of_quiet (c_onCall_quiet cfg sid s c ?_)
    intro m hm; subst hm; cases he
  | ctx e => exact CStep.of_quiet (ctxCancelled_quiet sid s e)

theorem c_step_inv (cfg : CCfg) (hcm : 0 < cfg.chunkMax) (sid : Sid) (s : CStream α) (failed : Bool)
    (E : List (DFrame α)) (S : List (List α)) (e : CEv α) (h : Inv s.psend failed E S)
    (hok : cIsSend e = true → s.psend = none ∧ failed = false) :
    Inv (s.stepEv cfg sid e).1.psend (failed || sendFailedIn (s.stepEv cfg sid e).2.dones)
      (E ++ cdata (s.stepEv cfg sid e).2) (S ++ csub e) := by
  cases hse : cIsSend e with
  | false =>
    have hsub : csub e = [] := by
      cases e with
      | frame f => rfl
      | call c => cases c <;> first | rfl | cases hse
      | ctx e => rfl
    rw [hsub, List.append_nil]
    exact c_nonsend_inv (c_stepEv_step cfg hcm sid s e hse) h
  | true =>
    obtain ⟨hps, hf⟩ := hok hse
    cases e with
    | frame f => cases hse
    | ctx e => cases hse
    | call c =>
      cases c with
      | send m =>
        have hsp := c_send_spec cfg hcm sid s m
        exact Inv.send (h.idle hps hf) (hsp.1 hps) (fun hh => by
          show (failed || sendFailedIn (s.onCall cfg sid (.send m)).2.dones) = true
          rw [hh, Bool.or_true])
      | closeSend => cases hse
      | recv => cases hse
      | header => cases hse
      | trailer => cases hse
      | cancel => cases hse

theorem c_run_inv (cfg : CCfg) (hcm : 0 < cfg.chunkMax) (sid : Sid) : ∀ (evs : List (CEv α))
    (s : CStream α) (failed : Bool) (E : List (DFrame α)) (S : List (List α)),
    Inv s.psend failed E S → CStream.legalSends cfg sid s failed evs = true →
    Inv (CStream.runEv cfg sid s evs).1.psend (failed || cAnyFailed (CStream.runEv cfg sid s evs).2)
      (E ++ COut.emittedData (CStream.runEv cfg sid s evs).2) (S ++ CEv.submitted evs) := by
  intro evs
  induction evs with
  | nil =>
    intro s failed E S h _
    simpa [CStream.runEv, cAnyFailed, COut.emittedData, CEv.submitted] using h
  | cons e es ih =>
    intro s failed E S h hl
    rw [c_legalSends_cons] at hl
    simp only [Bool.and_eq_true, Bool.or_eq_true, Bool.not_eq_eq_eq_not, Bool.not_true,
      Option.isNone_iff_eq_none] at hl
    obtain ⟨hok, hl'⟩ := hl
    have hstep := c_step_inv cfg hcm sid s failed E S e h (fun hs => by
      rcases hok with hok | hok
      · rw [hs] at hok; cases hok
      · exact hok)
    have := ih _ _ _ _ hstep hl'
    rw [c_runEv_cons, c_submitted_cons]
    simp only [c_emittedData_eq, List.flatMap_cons, cAnyFailed, List.any_cons] at this ⊢
    rw [← List.append_assoc, ← List.append_assoc, ← Bool.or_assoc]
    exact this

/-- the envelope sizes of an error-free reassembly whose tail is as in `Tail` -/
theorem envSizes_of_tail (E : List (DFrame α)) (ms : List (List α)) (st : RState α) (S : List (List α))
    (hp : parse none E = (ms, .ok st)) (ht : Tail ms st S) :
    envSizes E <+: S.map List.length := by
  have h := parse_envSizes E none st ms hp
  rw [show pendSize (none : RState α) = [] from rfl, List.nil_append] at h
  rw [h]
  rcases ht with ⟨hst, hpre⟩ | ⟨m, pre, hst, _, _, hpre⟩
  · rw [hst, show pendSize (none : RState α) = [] from rfl, List.append_nil]
    exact hpre.map _
  · rw [hst]
    have := hpre.map List.length
    simpa [pendSize] using this

/-- **C01 (emission half), client, full form.**  Reassembling everything a
    client stream has put on the wire never fails and yields a prefix `ms` of
    the submitted messages; what the reader still holds (`st`) is nothing, or a
    proper prefix of the next submitted message together with that message's
    exact length; and if at the end no send is pending and no send has failed,
    everything submitted has been emitted completely. -/
theorem client_emits_chunkings_full (cfg : CCfg) (hcm : 0 < cfg.chunkMax) (sid : Sid) (s0 : CStream α)
    (h0 : s0.psend = none) (evs : List (CEv α))
    (hl : CStream.legalSends cfg sid s0 false evs = true) :
    ∃ ms st, parse none (COut.emittedData (CStream.runEv cfg sid s0 evs).2) = (ms, .ok st) ∧
      Tail ms st (CEv.submitted evs) ∧
      ((CStream.runEv cfg sid s0 evs).1.psend = none → cAnyFailed (CStream.runEv cfg sid s0 evs).2 = false →
        ms = CEv.submitted evs ∧ st = none) := by
  have hinv : Inv s0.psend false ([] : List (DFrame α)) [] := h0 ▸ Inv.init
  have h := (c_run_inv cfg hcm sid evs s0 false [] [] hinv hl).result
  simpa only [List.nil_append, Bool.false_or] using h

/-- **C01 (emission half), client.** -/
theorem client_emits_chunkings (cfg : CCfg) (hcm : 0 < cfg.chunkMax) (sid : Sid) (s0 : CStream α)
    (h0 : s0.psend = none) (evs : List (CEv α))
    (hl : CStream.legalSends cfg sid s0 false evs = true) :
    ∃ ms st, parse none (COut.emittedData (CStream.runEv cfg sid s0 evs).2) = (ms, .ok st) ∧
      ms <+: CEv.submitted evs := by
  obtain ⟨ms, st, h1, h2, _⟩ := client_emits_chunkings_full cfg hcm sid s0 h0 evs hl
  exact ⟨ms, st, h1, h2.prefix⟩

/-- **C13 (envelope exactness), client.**  The `i`-th envelope frame on the
    wire states exactly the length of the `i`-th submitted message. -/
theorem client_envelopes_exact (cfg : CCfg) (hcm : 0 < cfg.chunkMax) (sid : Sid) (s0 : CStream α)
    (h0 : s0.psend = none) (evs : List (CEv α))
    (hl : CStream.legalSends cfg sid s0 false evs = true) :
    envSizes (COut.emittedData (CStream.runEv cfg sid s0 evs).2) <+:
      (CEv.submitted evs).map List.length := by
  obtain ⟨ms, st, h1, h2, _⟩ := client_emits_chunkings_full cfg hcm sid s0 h0 evs hl
  exact envSizes_of_tail _ ms st _ h1 h2

/-- every step of a client stream emits data frames of at most `chunkMax` bytes -/
theorem c_stepEv_bound (cfg : CCfg) (hcm : 0 < cfg.chunkMax) (sid : Sid) (s : CStream α) (e : CEv α) :
    ∀ f ∈ cdata (s.stepEv cfg sid e).2, f.size ≤ cfg.chunkMax := by
  cases hse : cIsSend e with
  | false => exact (c_stepEv_step cfg hcm sid s e hse).bound
  | true =>
    cases e with
    | frame f => cases hse
    | ctx e => cases hse
    | call c =>
      cases c with
      | send m => exact (c_send_spec cfg hcm sid s m).2.1
      | closeSend => cases hse
      | recv => cases hse
      | header => cases hse
      | trailer => cases hse
      | cancel => cases hse

/-- **C06/C13 (chunk bound), client**: any run, legal or not, from any state. -/
theorem client_chunk_bound (cfg : CCfg) (hcm : 0 < cfg.chunkMax) (sid : Sid) (evs : List (CEv α)) :
    ∀ (s0 : CStream α), ∀ f ∈ COut.emittedData (CStream.runEv cfg sid s0 evs).2, f.size ≤ cfg.chunkMax := by
  induction evs with
  | nil => intro s0 f hf; simp [CStream.runEv, COut.emittedData] at hf
  | cons e es ih =>
    intro s0 f hf
    rw [c_runEv_cons, c_emittedData_eq, List.flatMap_cons, List.mem_append] at hf
    rcases hf with hf | hf
    · exact c_stepEv_bound cfg hcm sid s0 e f hf
    · exact ih _ f hf

theorem c_runEv_append (cfg : CCfg) (sid : Sid) (pre post : List (CEv α)) : ∀ (s : CStream α),
    CStream.runEv cfg sid s (pre ++ post) =
      ((CStream.runEv cfg sid (CStream.runEv cfg sid s pre).1 post).1,
       (CStream.runEv cfg sid s pre).2 ++ (CStream.runEv cfg sid (CStream.runEv cfg sid s pre).1 post).2) := by
  induction pre with
  | nil => intro s; rfl
  | cons e es ih => intro s; rw [List.cons_append, c_runEv_cons, ih, c_runEv_cons]; rfl

theorem c_runEv_length (cfg : CCfg) (sid : Sid) (evs : List (CEv α)) : ∀ (s : CStream α),
    (CStream.runEv cfg sid s evs).2.length = evs.length := by
  induction evs with
  | nil => intro s; rfl
  | cons e es ih => intro s; rw [c_runEv_cons]; simp [ih]

/-- **C13 (envelope first), client.**  In any run, the output of a `SendMsg(m)`
    step carries no data frame or starts with the envelope stating `m.length`,
    and all its data frames obey the chunk bound. -/
theorem client_send_first_frame (cfg : CCfg) (hcm : 0 < cfg.chunkMax) (sid : Sid) (s0 : CStream α)
    (pre post : List (CEv α)) (m : List α) :
    ∃ o, (CStream.runEv cfg sid s0 (pre ++ .call (.send m) :: post)).2[pre.length]? = some o ∧
      StartsWithEnv m.length (cdata o) ∧ ∀ f ∈ cdata o, f.size ≤ cfg.chunkMax := by
  refine ⟨((CStream.runEv cfg sid s0 pre).1.onCall cfg sid (.send m)).2, ?_, ?_, ?_⟩
  · rw [c_runEv_append, c_runEv_cons]
    simp only
    rw [List.getElem?_append_right (by rw [c_runEv_length]; exact Nat.le_refl _), c_runEv_length]
    simp [CStream.stepEv]
  · exact (c_send_spec cfg hcm sid _ m).2.2
  · exact (c_send_spec cfg hcm sid _ m).2.1

/-! ## server -/

/-- the data frames of one server step's output -/
def sdata (o : Out α) : List (DFrame α) := o.frames.filterMap (fun f => dataOfS2C f.2)

theorem s_emittedData_eq (outs : List (Out α)) : Out.emittedData outs = outs.flatMap sdata := rfl

@[simp] theorem sdata_empty : sdata ({} : Out α) = [] := rfl

theorem sdata_add (a b : Out α) : sdata (a.add b) = sdata a ++ sdata b := by
  simp [sdata, Out.add, List.filterMap_append]

theorem s_pump_data (sid : Sid) (fs : List (DFrame α)) (h : ∀ f ∈ fs, f ≠ .other) :
    (fs.map (fun f => (sid, dframeToS2C f))).filterMap (fun f => dataOfS2C f.2) = fs := by
  induction fs with
  | nil => rfl
  | cons f fs ih =>
    have h1 := h f (by simp)
    have h2 := ih (fun g hg => h g (by simp [hg]))
    cases f with
    | env n d => exact congrArg (DFrame.env n d :: ·) h2
    | more d => exact congrArg (DFrame.more d :: ·) h2
    | other => exact absurd rfl h1

theorem s_failed_add (a b : Out α) :
    sendFailedIn (a.add b).dones = (sendFailedIn a.dones || sendFailedIn b.dones) := by
  simp [Out.add, sendFailedIn_append]

/-- a server building block that emits no data frame, does not raise
    `finishAfterSend`, and either leaves the pending send alone or aborts it;
    the abort is reported as a failed send unless the send was the unary reply -/
def SQuiet (s s' : SStream α) (o : Out α) : Prop :=
  sdata o = [] ∧ (s'.finishAfterSend = true → s.finishAfterSend = true) ∧
  (s'.psend = s.psend ∨ (s'.psend = none ∧ (sendFailedIn o.dones || s.finishAfterSend) = true))

theorem SQuiet.refl (s : SStream α) : SQuiet s s {} := ⟨rfl, id, Or.inl rfl⟩

theorem SQuiet.of_eq {s s' : SStream α} {o : Out α} (hp : s'.psend = s.psend)
    (hf : s'.finishAfterSend = s.finishAfterSend) (hd : sdata o = []) : SQuiet s s' o :=
  ⟨hd, fun h => hf ▸ h, Or.inl hp⟩

theorem SQuiet.trans {s s1 s2 : SStream α} {o1 o2 : Out α} (h1 : SQuiet s s1 o1) (h2 : SQuiet s1 s2 o2) :
    SQuiet s s2 (o1.add o2) := by
  obtain ⟨d1, f1, p1⟩ := h1
  obtain ⟨d2, f2, p2⟩ := h2
  refine ⟨by rw [sdata_add, d1, d2]; rfl, fun h => f1 (f2 h), ?_⟩
  rw [s_failed_add]
  rcases p2 with h | ⟨h, hf⟩
  · rcases p1 with h' | ⟨h', hf'⟩
    · exact Or.inl (h.trans h')
    · refine Or.inr ⟨h.trans h', ?_⟩
      cases hx : sendFailedIn o1.dones <;> cases hy : s.finishAfterSend <;> simp_all
  · refine Or.inr ⟨h, ?_⟩
    cases hx : sendFailedIn o2.dones
    · rw [hx, Bool.false_or] at hf
      rw [f1 hf]; simp
    · simp

/-- the contract only looks at the data frames and the failed sends of the output -/
theorem SQuiet.congr_out {s s' : SStream α} {o o' : Out α} (h : SQuiet s s' o)
    (hd : sdata o' = sdata o) (hf : sendFailedIn o'.dones = sendFailedIn o.dones) : SQuiet s s' o' := by
  obtain ⟨d1, f1, p1⟩ := h
  exact ⟨hd.trans d1, f1, hf ▸ p1⟩

theorem SQuiet.trans_swap {s s1 s2 : SStream α} {o1 o2 : Out α} (h1 : SQuiet s s1 o1)
    (h2 : SQuiet s1 s2 o2) : SQuiet s s2 (o2.add o1) := by
  refine (h1.trans h2).congr_out ?_ ?_
  · rw [sdata_add, sdata_add, h1.1, h2.1]
  · rw [s_failed_add, s_failed_add, Bool.or_comm]

/-- the contract only looks at `psend` and `finishAfterSend` of the pre-state -/
theorem SQuiet.pre {s s0 s' : SStream α} {o : Out α} (h : SQuiet s0 s' o)
    (hp : s0.psend = s.psend) (hf : s0.finishAfterSend = s.finishAfterSend) : SQuiet s s' o := by
  obtain ⟨d1, f1, p1⟩ := h
  exact ⟨d1, fun h => hf ▸ f1 h, hp ▸ hf ▸ p1⟩

/-- ... nor of the post-state -/
theorem SQuiet.post {s s1 s' : SStream α} {o : Out α} (h : SQuiet s s1 o)
    (hp : s'.psend = s1.psend) (hf : s'.finishAfterSend = s1.finishAfterSend) : SQuiet s s' o := by
  obtain ⟨d1, f1, p1⟩ := h
  exact ⟨d1, fun h => f1 (hf ▸ h), hp ▸ p1⟩

theorem s_halfClose_fields (s : SStream α) (e : SErr) :
    (s.halfClose e).psend = s.psend ∧ (s.halfClose e).finishAfterSend = s.finishAfterSend := by
  unfold SStream.halfClose
  split <;> exact ⟨rfl, rfl⟩

theorem s_finishCore_fields (sid : Sid) (s : SStream α) (err : Option SErr) :
    (s.finishCore sid err).1.psend = s.psend ∧
    (s.finishCore sid err).1.finishAfterSend = s.finishAfterSend ∧
    sdata (s.finishCore sid err).2 = [] := by
  simp only [SStream.finishCore, SStream.halfClose]
  split <;> split <;> simp [sdata, dataOfS2C] <;> split <;> simp

theorem s_finishCore_quiet (sid : Sid) (s : SStream α) (err : Option SErr) :
    SQuiet s (s.finishCore sid err).1 (s.finishCore sid err).2 :=
  SQuiet.of_eq (s_finishCore_fields sid s err).1 (s_finishCore_fields sid s err).2.1
    (s_finishCore_fields sid s err).2.2

/-- second stage of `cancelCtx`: a send blocked on the window returns -/
def ccSend (sid : Sid) (s1 : SStream α) (e : CtxErr) : SStream α × Out α :=
  match s1.psend with
  | some _ =>
    let s2 := { s1 with psend := none }
    if s1.finishAfterSend then
      ({ s2 with finishAfterSend := false, hstatus := .returned } : SStream α).finishCore sid (some (.ctx e))
    else (s2, { dones := [(sid, "send", .ctx e)] })
  | none => (s1, {})

/-- third stage of `cancelCtx`: a blocked read returns -/
def ccRead (sid : Sid) (s2 : SStream α) (e : CtxErr) : SStream α × Out α :=
  match s2.pread with
  | some _ =>
    let s3 := { s2 with pread := none, readErr := some (.ctx e) }
    if s2.hstatus == .decoding then
      let (s4, o4) := ({ s3 with hstatus := .returned } : SStream α).finishCore sid (some (.ctx e))
      (s4, ({ dones := [(sid, "decode", .ctx e)] } : Out α).add o4)
    else (s3, { dones := [(sid, "recv", .ctx e)] })
  | none => (s2, {})

theorem s_cancelCtx_eq (sid : Sid) (s : SStream α) (e : CtxErr) (h : ¬ s.ctxDone.isSome = true) :
    s.cancelCtx sid e =
      (let s1 : SStream α := { s with ctxDone := some e, rcv := if s.fc then s.rcv.cancel else s.rcv.close }
       let r1 := ccSend sid s1 e
       let r2 := ccRead sid r1.1 e
       (r2.1, (({ events := [s!"ctxdone {sid} {if e == .canceled then "canceled" else "deadline"}"] } : Out α).add
                r1.2).add r2.2)) := by
  unfold SStream.cancelCtx
  rw [if_neg h]
  rfl

theorem ccSend_quiet (sid : Sid) (s : SStream α) (e : CtxErr) :
    SQuiet s (ccSend sid s e).1 (ccSend sid s e).2 := by
  unfold ccSend
  cases hps : s.psend with
  | none => exact SQuiet.refl s
  | some snd =>
    dsimp only
    by_cases hf : s.finishAfterSend = true
    · rw [if_pos hf]
      have h := s_finishCore_fields sid
        ({ s with psend := none, finishAfterSend := false, hstatus := .returned } : SStream α) (some (.ctx e))
      refine ⟨h.2.2, fun _ => hf, Or.inr ⟨h.1, by simp [hf]⟩⟩
    · rw [if_neg hf]
      exact ⟨rfl, fun h => h, Or.inr ⟨rfl, by simp [sendFailedIn]⟩⟩

theorem ccRead_quiet (sid : Sid) (s : SStream α) (e : CtxErr) :
    SQuiet s (ccRead sid s e).1 (ccRead sid s e).2 := by
  unfold ccRead
  split
  · split
    · have h := s_finishCore_fields sid
        ({ s with pread := none, readErr := some (.ctx e), hstatus := .returned } : SStream α) (some (.ctx e))
      refine SQuiet.of_eq h.1 h.2.1 ?_
      show sdata (Out.add _ _) = []
      rw [sdata_add, h.2.2]; rfl
    · exact SQuiet.of_eq rfl rfl rfl
  · exact SQuiet.refl s

theorem s_cancelCtx_quiet (sid : Sid) (s : SStream α) (e : CtxErr) :
    SQuiet s (s.cancelCtx sid e).1 (s.cancelCtx sid e).2 := by
  by_cases h : s.ctxDone.isSome = true
  · unfold SStream.cancelCtx; rw [if_pos h]; exact SQuiet.refl s
  · rw [s_cancelCtx_eq sid s e h]
    have h0 : SQuiet s ({ s with ctxDone := some e, rcv := if s.fc then s.rcv.cancel else s.rcv.close } : SStream α)
        ({ events := [s!"ctxdone {sid} {if e == .canceled then "canceled" else "deadline"}"] } : Out α) :=
      SQuiet.of_eq rfl rfl rfl
    exact (h0.trans (ccSend_quiet sid _ e)).trans (ccRead_quiet sid _ e)

theorem s_finish_quiet (sid : Sid) (s : SStream α) (err : Option SErr) (b : Bool) :
    SQuiet s (s.finish sid err b).1 (s.finish sid err b).2 := by
  simp only [SStream.finish]
  exact (s_finishCore_quiet sid s _).trans_swap (s_cancelCtx_quiet sid _ _)

theorem Progress.mono {snd : Snd α} {data : List (DFrame α)} {ps' : Option (Snd α)} {f f' : Bool}
    (h : Progress snd data ps' f) (hf : f = true → f' = true) : Progress snd data ps' f' := by
  intro m st hl
  rcases h m st hl with h | ⟨st', snd', h1, h2, h3⟩
  · exact Or.inl h
  · refine Or.inr ⟨st', snd', h1, h2, ?_⟩
    rcases h3 with h3 | ⟨h3, h4⟩
    · exact Or.inl h3
    · exact Or.inr ⟨h3, hf h4⟩

theorem s_pumpSend_spec (cfg : SCfg) (hcm : 0 < cfg.chunkMax) (sid : Sid) (s : SStream α) (snd : Snd α) :
    Progress snd (sdata (s.pumpSend cfg sid snd).2) (s.pumpSend cfg sid snd).1.psend
      (sendFailedIn (s.pumpSend cfg sid snd).2.dones) ∧
    (∀ f ∈ sdata (s.pumpSend cfg sid snd).2, f.size ≤ cfg.chunkMax) ∧
    (snd.first = true → StartsWithEnv snd.total (sdata (s.pumpSend cfg sid snd).2)) ∧
    (s.pumpSend cfg sid snd).1.finishAfterSend = s.finishAfterSend := by
  unfold SStream.pumpSend
  by_cases hfc : s.fc = true
  · simp only [hfc, if_true, pump]
    have hg := pumpFuel_good cfg.chunkMax (snd.rem.length + 1) s.win snd
    have hst := pumpFuel_start cfg.chunkMax (snd.rem.length + 1) s.win snd
    have hpr := pump_progress cfg.chunkMax hcm (snd.rem.length + 1) s.win snd
    rcases hpf : pumpFuel cfg.chunkMax (snd.rem.length + 1) s.win snd with ⟨fs, w, _ | snd'⟩
    · rw [hpf] at hg hst hpr; simp only at hg hst hpr ⊢
      have hd := s_pump_data sid fs (fun f hf => (hg f hf).1)
      simp only [sdata, hd]
      exact ⟨hpr none _ rfl, fun f hf => (hg f hf).2, hst, trivial⟩
    · rw [hpf] at hg hst hpr; simp only at hg hst hpr ⊢
      have hd := s_pump_data sid fs (fun f hf => (hg f hf).1)
      cases hc : s.ctxDone with
      | none =>
        simp only [sdata, hd]
        exact ⟨hpr (some snd') _ (Or.inl rfl), fun f hf => (hg f hf).2, hst, trivial⟩
      | some e =>
        simp only [sdata, hd]
        exact ⟨hpr none _ (Or.inr ⟨rfl, by simp [sendFailedIn]⟩), fun f hf => (hg f hf).2, hst, trivial⟩
  · have hfc' : s.fc = false := by simpa using hfc
    simp only [hfc', Bool.false_eq_true, if_false]
    have hg := sendAllFuel_good cfg.chunkMax (snd.rem.length + 1) snd
    have hd := s_pump_data sid _ (fun f hf => (hg f hf).1)
    simp only [sdata, hd]
    exact ⟨sendAll_progress cfg.chunkMax hcm snd _, fun f hf => (hg f hf).2,
      sendAllFuel_start cfg.chunkMax _ snd, trivial⟩

/-- `afterSend` keeps the pending send and the data frames; it hides the
    reply's own completion only when `finishAfterSend` is set -/
theorem s_afterSend_spec (sid : Sid) (s : SStream α) (o : Out α) :
    (s.afterSend sid o).1.psend = s.psend ∧ sdata (s.afterSend sid o).2 = sdata o ∧
    ((s.afterSend sid o).1.finishAfterSend = true → s.finishAfterSend = true) ∧
    (s.finishAfterSend = false → (s.afterSend sid o).2.dones = o.dones) := by
  unfold SStream.afterSend
  split
  · rename_i hc
    simp only [Bool.and_eq_true, Option.isNone_iff_eq_none] at hc
    obtain ⟨hf, hp⟩ := hc
    dsimp only
    have hq := fun err => s_finish_quiet sid
      ({ s with finishAfterSend := false, hstatus := .returned } : SStream α) err false
    refine ⟨?_, ?_, fun _ => hf, fun h => ?_⟩
    · exact (hq _).2.2.elim (fun h => h) (fun h => h.1.trans hp.symm)
    · rw [sdata_add, (hq _).1, List.append_nil]; rfl
    · rw [hf] at h; cases h
  · exact ⟨rfl, rfl, id, fun _ => rfl⟩

theorem s_credit_data (sid : Sid) (s : SStream α) (credits : List Nat) (ds : List (Sid × String × Res α)) :
    sdata ({ frames := s.creditFrames sid credits, dones := ds } : Out α) = [] := by
  unfold SStream.creditFrames sdata
  split
  · simp [dataOfS2C]
  · rfl

theorem s_resumeRead_quiet (sid : Sid) (mn : String) : ∀ (fuel : Nat) (s : SStream α),
    SQuiet s (s.resumeRead sid mn fuel).1 (s.resumeRead sid mn fuel).2 := by
  intro fuel
  induction fuel with
  | zero => intro s; exact SQuiet.refl s
  | succ n ih =>
    intro s
    rw [SStream.resumeRead]
    split
    · exact SQuiet.refl s
    · rename_i p hp
      split
      rename_i rwin q credits out hrl
      dsimp only
      split
      · split
        · split
          · exact SQuiet.of_eq rfl rfl (s_credit_data sid s _ _)
          · exact SQuiet.of_eq rfl rfl (s_credit_data sid s _ _)
        · exact SQuiet.of_eq rfl rfl (s_credit_data sid s _ _)
      · split
        · exact (SQuiet.of_eq (s' := _) rfl rfl (s_credit_data sid s _ _)).trans (s_finish_quiet sid _ _ _)
        · split
          · exact SQuiet.of_eq rfl rfl (s_credit_data sid s _ _)
          · exact (SQuiet.of_eq (s' := _) rfl rfl (s_credit_data sid s _ [])).trans (ih _)
      · exact (SQuiet.of_eq (s' := _) rfl rfl (s_credit_data sid s _ _)).trans (s_finish_quiet sid _ _ _)
      · exact SQuiet.of_eq rfl rfl (s_credit_data sid s _ _)

theorem s_afterDecode_quiet (sid : Sid) (s0 s : SStream α) (o : Out α) (h : SQuiet s0 s o) :
    SQuiet s0 (s.afterDecode sid o).1 (s.afterDecode sid o).2 := by
  unfold SStream.afterDecode
  split
  · split
    · exact h.post rfl rfl
    · exact h.trans ((s_finish_quiet sid _ _ _).pre rfl rfl)
    · exact h
  · exact h

theorem s_readAndSettle_quiet (sid : Sid) (s : SStream α) :
    SQuiet s (s.readAndSettle sid).1 (s.readAndSettle sid).2 := by
  unfold SStream.readAndSettle
  exact s_afterDecode_quiet sid s _ _ (s_resumeRead_quiet sid "" 3 s)

theorem s_startRecv_quiet (sid : Sid) (s : SStream α) :
    SQuiet s (s.startRecv sid).1 (s.startRecv sid).2 := by
  unfold SStream.startRecv
  dsimp only
  split
  · exact s_afterDecode_quiet sid s s _ (SQuiet.of_eq rfl rfl rfl)
  · split
    · exact s_afterDecode_quiet sid s _ _ (SQuiet.of_eq rfl rfl rfl)
    · exact (s_readAndSettle_quiet sid _).pre rfl rfl

theorem s_dataFrame_quiet (sid : Sid) (s : SStream α) (df : DFrame α) (r : SStream α × Out α)
    (hr : r =
      (if s.fc then
        match s.rcv.accept df with
        | (_, .dropped) => (s, {})
        | (_, .windowExceeded) => s.finish sid (some errFlowControl) true
        | (r, .ok) => ({ s with rcv := r } : SStream α).readAndSettle sid
      else
        if s.rcv.closed then (s, {})
        else if !s.rcv.queue.isEmpty then ({ s with unsupported := true }, {})
        else ({ s with rcv := { s.rcv with queue := [df] } } : SStream α).readAndSettle sid)) :
    SQuiet s r.1 r.2 := by
  subst hr
  split
  · split
    · exact SQuiet.refl s
    · exact s_finish_quiet sid s _ _
    · exact (s_readAndSettle_quiet sid _).pre rfl rfl
  · split
    · exact SQuiet.refl s
    · split
      · exact SQuiet.of_eq rfl rfl rfl
      · exact (s_readAndSettle_quiet sid _).pre rfl rfl

/-- the contract of a server step other than `SendMsg` / the unary reply -/
structure SStep (cm : Nat) (s : SStream α) (r : SStream α × Out α) : Prop where
  idle : s.psend = none → r.1.psend = none ∧ sdata r.2 = []
  prog : ∀ snd, s.psend = some snd →
    Progress snd (sdata r.2) r.1.psend (sendFailedIn r.2.dones || s.finishAfterSend)
  fas : r.1.finishAfterSend = true → s.finishAfterSend = true
  bound : ∀ f ∈ sdata r.2, f.size ≤ cm

theorem SStep.of_quiet {cm : Nat} {s : SStream α} {r : SStream α × Out α} (h : SQuiet s r.1 r.2) :
    SStep cm s r := by
  obtain ⟨hd, hfa, hp⟩ := h
  refine ⟨fun hn => ⟨?_, hd⟩, fun snd hs => ?_, hfa, fun f hf => ?_⟩
  · rcases hp with hp | ⟨hp, _⟩
    · exact hp.trans hn
    · exact hp
  · rw [hd]
    rcases hp with hp | ⟨hp, hf⟩
    · rw [hp, hs]; exact Progress.keep snd _
    · rw [hp, hf]; exact Progress.abort snd
  · rw [hd] at hf; cases hf

theorem SStep.id (cm : Nat) (s : SStream α) : SStep cm s (s, {}) := SStep.of_quiet (SQuiet.refl s)

/-- a window update resumes the pending send -/
theorem s_resume_step (cfg : SCfg) (hcm : 0 < cfg.chunkMax) (sid : Sid) (s s1 : SStream α) (snd : Snd α)
    (hp : s.psend = some snd) (hf : s1.finishAfterSend = s.finishAfterSend) :
    SStep cfg.chunkMax s ((s1.pumpSend cfg sid snd).1.afterSend sid (s1.pumpSend cfg sid snd).2) := by
  obtain ⟨h1, h2, _, h4⟩ := s_pumpSend_spec cfg hcm sid s1 snd
  obtain ⟨a1, a2, a3, a4⟩ := s_afterSend_spec sid (s1.pumpSend cfg sid snd).1 (s1.pumpSend cfg sid snd).2
  refine ⟨fun hn => ?_, fun snd' hs => ?_, fun h => ?_, fun f hf' => ?_⟩
  · rw [hp] at hn; cases hn
  · rw [hp] at hs; cases hs
    rw [a1, a2]
    refine h1.mono (fun hfl => ?_)
    cases hfa : s.finishAfterSend with
    | true => simp
    | false => rw [a4 (by rw [h4, hf, hfa]), hfl]; rfl
  · rw [← hf, ← h4]; exact a3 h
  · rw [a2] at hf'; exact h2 f hf'

theorem s_onFrame_step (cfg : SCfg) (hcm : 0 < cfg.chunkMax) (sid : Sid) (s : SStream α) (f : C2S α) :
    SStep cfg.chunkMax s (s.onFrame cfg sid f) := by
  cases f with
  | newStream m md rev win => exact SStep.id _ s
  | msg size d => exact SStep.of_quiet (s_dataFrame_quiet sid s (.env size d) _ rfl)
  | more d => exact SStep.of_quiet (s_dataFrame_quiet sid s (.more d) _ rfl)
  | halfClose =>
    apply SStep.of_quiet
    simp only [SStream.onFrame]
    split
    · exact SQuiet.refl s
    · exact (s_readAndSettle_quiet sid _).pre (s_halfClose_fields s .eof).1 (s_halfClose_fields s .eof).2
  | cancel => exact SStep.of_quiet (s_finish_quiet sid s _ _)
  | windowUpdate n =>
    simp only [SStream.onFrame]
    split
    · exact SStep.id _ s
    · cases hps : s.psend with
      | none => exact SStep.of_quiet (SQuiet.of_eq hps.symm rfl rfl)
      | some snd =>
        have h := s_resume_step cfg hcm sid s
          ({ s with win := wrap32 (s.win + n), psend := some snd } : SStream α) snd hps rfl
        exact h
  | unset => exact SStep.of_quiet (s_finish_quiet sid s _ _)

/-- the handler calls other than `SendMsg` and the unary reply -/
theorem s_onCall_quiet (cfg : SCfg) (sid : Sid) (s : SStream α) (c : HCall α)
    (hc : ∀ m, c ≠ .send m) (hr : ∀ m, c ≠ .reply m) :
    SQuiet s (s.onCall cfg sid c).1 (s.onCall cfg sid c).2 := by
  cases c with
  | recv => exact s_startRecv_quiet sid s
  | send m => exact absurd rfl (hc m)
  | setHeader md =>
    simp only [SStream.onCall]
    split
    · exact SQuiet.of_eq rfl rfl rfl
    · exact SQuiet.of_eq rfl rfl rfl
  | sendHeader md =>
    simp only [SStream.onCall]
    split
    · exact SQuiet.of_eq rfl rfl rfl
    · exact SQuiet.of_eq rfl rfl rfl
  | setTrailer md =>
    simp only [SStream.onCall]
    split
    · exact SQuiet.of_eq rfl rfl rfl
    · exact SQuiet.of_eq rfl rfl rfl
  | ret st =>
    simp only [SStream.onCall]
    exact ((s_finish_quiet sid _ _ _).pre rfl rfl).trans
      (SQuiet.of_eq (o := { events := [s!"returned {sid}"] }) rfl rfl rfl)
  | reply m => exact absurd rfl (hr m)

/-- the header stage shared by `SendMsg` and the unary reply -/
def hdrStage (sid : Sid) (s : SStream α) : SStream α × List (Sid × S2C α) :=
  if s.sentHeaders then (s, []) else ({ s with sentHeaders := true, headers := [] }, [(sid, .headers s.headers)])

theorem hdrStage_fields (sid : Sid) (s : SStream α) :
    (hdrStage sid s).1.psend = s.psend ∧ (hdrStage sid s).1.finishAfterSend = s.finishAfterSend ∧
    ∀ (ds : List (Sid × String × Res α)), sdata ({ frames := (hdrStage sid s).2, dones := ds } : Out α) = [] := by
  unfold hdrStage
  split
  · exact ⟨rfl, rfl, fun _ => rfl⟩
  · exact ⟨rfl, rfl, fun _ => rfl⟩

theorem s_send_eq (cfg : SCfg) (sid : Sid) (s : SStream α) (m : List α) :
    s.onCall cfg sid (.send m) =
      (let s1 := (hdrStage sid s).1
       let hdr := (hdrStage sid s).2
       if !s1.ss && s1.numSent == 1 then
         (s1, { frames := hdr, dones := [(sid, "send", .status codeInternal)] })
       else
         let r := ({ s1 with numSent := s1.numSent + 1 } : SStream α).pumpSend cfg sid (Snd.start m)
         (r.1, ({ frames := hdr } : Out α).add r.2)) := rfl

theorem s_reply_eq (cfg : SCfg) (sid : Sid) (s : SStream α) (m : List α) :
    s.onCall cfg sid (.reply m) =
      (let s1 := (hdrStage sid s).1
       let hdr := (hdrStage sid s).2
       let r := ({ s1 with numSent := s1.numSent + 1, finishAfterSend := true } : SStream α).pumpSend cfg sid
         (Snd.start m)
       r.1.afterSend sid (({ frames := hdr } : Out α).add r.2)) := rfl

/-- `SendMsg(m)` on the server -/
theorem s_send_spec (cfg : SCfg) (hcm : 0 < cfg.chunkMax) (sid : Sid) (s : SStream α) (m : List α) :
    (s.psend = none →
      Progress (Snd.start m) (sdata (s.onCall cfg sid (.send m)).2) (s.onCall cfg sid (.send m)).1.psend
        (sendFailedIn (s.onCall cfg sid (.send m)).2.dones)) ∧
    ((s.onCall cfg sid (.send m)).1.finishAfterSend = s.finishAfterSend) ∧
    (∀ f ∈ sdata (s.onCall cfg sid (.send m)).2, f.size ≤ cfg.chunkMax) ∧
    StartsWithEnv m.length (sdata (s.onCall cfg sid (.send m)).2) := by
  rw [s_send_eq]
  obtain ⟨hp, hf, hd⟩ := hdrStage_fields sid s
  dsimp only
  split
  · refine ⟨?_, hf, fun f hf' => ?_, Or.inl (hd _)⟩
    · intro hps m' st hl
      rw [hd]
      exact Or.inr ⟨st, Snd.start m, rfl, hl, Or.inr ⟨hp.trans hps, by simp [sendFailedIn]⟩⟩
    · rw [hd] at hf'; cases hf'
  · obtain ⟨h1, h2, h3, h4⟩ := s_pumpSend_spec cfg hcm sid
      ({ (hdrStage sid s).1 with numSent := (hdrStage sid s).1.numSent + 1 } : SStream α) (Snd.start m)
    have hdat : ∀ (o : Out α), sdata (({ frames := (hdrStage sid s).2 } : Out α).add o) = sdata o := by
      intro o; rw [sdata_add, hd, List.nil_append]
    have hfl : ∀ (o : Out α), sendFailedIn (({ frames := (hdrStage sid s).2 } : Out α).add o).dones =
        sendFailedIn o.dones := by
      intro o; rw [s_failed_add]; rfl
    rw [hdat, hfl]
    exact ⟨fun _ => h1, h4.trans hf, h2, h3 rfl⟩

/-- the unary reply: whatever happens to it, no failure is reported, so the
    failure flag of the contract is simply `true` -/
theorem s_reply_spec (cfg : SCfg) (hcm : 0 < cfg.chunkMax) (sid : Sid) (s : SStream α) (m : List α) :
    Progress (Snd.start m) (sdata (s.onCall cfg sid (.reply m)).2) (s.onCall cfg sid (.reply m)).1.psend true ∧
    (∀ f ∈ sdata (s.onCall cfg sid (.reply m)).2, f.size ≤ cfg.chunkMax) ∧
    StartsWithEnv m.length (sdata (s.onCall cfg sid (.reply m)).2) := by
  rw [s_reply_eq]
  obtain ⟨hp, hf, hd⟩ := hdrStage_fields sid s
  dsimp only
  obtain ⟨h1, h2, h3, h4⟩ := s_pumpSend_spec cfg hcm sid
    ({ (hdrStage sid s).1 with numSent := (hdrStage sid s).1.numSent + 1, finishAfterSend := true } : SStream α)
    (Snd.start m)
  have hdat : ∀ (o : Out α), sdata (({ frames := (hdrStage sid s).2 } : Out α).add o) = sdata o := by
    intro o; rw [sdata_add, hd, List.nil_append]
  obtain ⟨a1, a2, _, _⟩ := s_afterSend_spec sid
    (({ (hdrStage sid s).1 with numSent := (hdrStage sid s).1.numSent + 1, finishAfterSend := true } :
      SStream α).pumpSend cfg sid (Snd.start m)).1
    ((({ frames := (hdrStage sid s).2 } : Out α).add
      (({ (hdrStage sid s).1 with numSent := (hdrStage sid s).1.numSent + 1, finishAfterSend := true } :
      SStream α).pumpSend cfg sid (Snd.start m)).2))
  rw [a1, a2, hdat]
  exact ⟨h1.mono (fun _ => rfl), h2, h3 rfl⟩

/-! ### server: runs -/

/-- the message an event submits -/
def ssub : SEv α → List (List α)
  | .call (.send m) => [m]
  | .call (.reply m) => [m]
  | _ => []

/-- is the event a `SendMsg` or the unary reply? (as in `SStream.legalSends`) -/
def sIsSend : SEv α → Bool
  | .call (.send _) => true
  | .call (.reply _) => true
  | _ => false

def sIsReply : SEv α → Bool
  | .call (.reply _) => true
  | _ => false

/-- the extra legality condition the server statement needs (see the file
    header): the unary reply is the handler's last send — nothing is sent, and
    no second reply is issued, after a `.call (.reply _)` -/
def sReplyIsLast : List (SEv α) → Bool
  | [] => true
  | e :: es => (!sIsReply e || es.all (fun e' => !sIsSend e')) && sReplyIsLast es

/-- some step of the run reported a failed send -/
def sAnyFailed (outs : List (Out α)) : Bool := outs.any (fun o => sendFailedIn o.dones)

theorem s_submitted_cons (e : SEv α) (es : List (SEv α)) :
    SEv.submitted (e :: es) = ssub e ++ SEv.submitted es := by
  cases e with
  | frame f => rfl
  | call c => cases c <;> rfl
  | ctx e => rfl

theorem s_runEv_cons (cfg : SCfg) (sid : Sid) (s : SStream α) (e : SEv α) (es : List (SEv α)) :
    SStream.runEv cfg sid s (e :: es) =
      ((SStream.runEv cfg sid (s.stepEv cfg sid e).1 es).1,
       (s.stepEv cfg sid e).2 :: (SStream.runEv cfg sid (s.stepEv cfg sid e).1 es).2) := rfl

theorem s_legalSends_cons (cfg : SCfg) (sid : Sid) (s : SStream α) (failed : Bool) (e : SEv α)
    (es : List (SEv α)) :
    SStream.legalSends cfg sid s failed (e :: es) =
      ((!sIsSend e || (s.psend.isNone && !failed)) &&
        SStream.legalSends cfg sid (s.stepEv cfg sid e).1
          (failed || sendFailedIn (s.stepEv cfg sid e).2.dones) es) := by
  cases e with
  | frame f => rfl
  | call c => cases c <;> rfl
  | ctx e => rfl

theorem s_stepEv_step (cfg : SCfg) (hcm : 0 < cfg.chunkMax) (sid : Sid) (s : SStream α) (e : SEv α)
    (he : sIsSend e = false) : SStep cfg.chunkMax s (s.stepEv cfg sid e) := by
  cases e with
  | frame f => exact s_onFrame_step cfg hcm sid s f
  | call c =>
    refine SStep.of_quiet (s_onCall_quiet cfg sid s c ?_ ?_)
    · intro m hm; subst hm; cases he
    · intro m hm; subst hm; cases he
  | ctx e => exact SStep.of_quiet (s_cancelCtx_quiet sid s e)

theorem ssub_of_not_send (e : SEv α) (he : sIsSend e = false) : ssub e = [] := by
  cases e with
  | frame f => rfl
  | call c => cases c <;> first | rfl | cases he
  | ctx e => rfl

theorem sIsReply_of_not_send (e : SEv α) (he : sIsSend e = false) : sIsReply e = false := by
  cases e with
  | frame f => rfl
  | call c => cases c <;> first | rfl | cases he
  | ctx e => rfl

/-- one step keeps the invariant; `dead` = a send has failed or the reply was issued -/
theorem s_step_inv (cfg : SCfg) (hcm : 0 < cfg.chunkMax) (sid : Sid) (s : SStream α) (dead : Bool)
    (E : List (DFrame α)) (S : List (List α)) (e : SEv α) (h : Inv s.psend dead E S)
    (hF : s.finishAfterSend = true → dead = true)
    (hok : sIsSend e = true → s.psend = none ∧ dead = false) :
    Inv (s.stepEv cfg sid e).1.psend (dead || sendFailedIn (s.stepEv cfg sid e).2.dones || sIsReply e)
      (E ++ sdata (s.stepEv cfg sid e).2) (S ++ ssub e) ∧
    ((s.stepEv cfg sid e).1.finishAfterSend = true →
      (dead || sendFailedIn (s.stepEv cfg sid e).2.dones || sIsReply e) = true) := by
  cases hse : sIsSend e with
  | false =>
    have hs := s_stepEv_step cfg hcm sid s e hse
    rw [ssub_of_not_send e hse, List.append_nil, sIsReply_of_not_send e hse, Bool.or_false]
    refine ⟨Inv.other h hs.idle hs.prog (fun hf => by simp [hf]) (fun hf => ?_), fun hf => ?_⟩
    · cases hx : sendFailedIn (s.stepEv cfg sid e).2.dones
      · rw [hx, Bool.false_or] at hf; rw [hF hf]; rfl
      · simp
    · rw [hF (hs.fas hf)]; rfl
  | true =>
    obtain ⟨hps, hd⟩ := hok hse
    cases e with
    | frame f => cases hse
    | ctx e => cases hse
    | call c =>
      cases c with
      | send m =>
        obtain ⟨h1, h2, _, _⟩ := s_send_spec cfg hcm sid s m
        refine ⟨Inv.send (h.idle hps hd) (h1 hps) (fun hh => ?_), fun hf => ?_⟩
        · show (dead || sendFailedIn (s.onCall cfg sid (.send m)).2.dones || false) = true
          rw [hh]; simp
        · have : s.finishAfterSend = true := h2 ▸ hf
          rw [hF this] at hd; cases hd
      | reply m =>
        obtain ⟨h1, _, _⟩ := s_reply_spec cfg hcm sid s m
        have ht : (dead || sendFailedIn ((s.stepEv cfg sid (.call (.reply m))).2.dones) ||
            sIsReply (.call (.reply m) : SEv α)) = true := by
          show (_ || true) = true
          exact Bool.or_true _
        rw [ht]
        exact ⟨Inv.send (h.idle hps hd) h1 (fun _ => rfl), fun _ => rfl⟩
      | recv => cases hse
      | setHeader md => cases hse
      | sendHeader md => cases hse
      | setTrailer md => cases hse
      | ret st => cases hse

theorem bool4 (a b c d : Bool) : (a || b || c || d) = ((a || c) || (b || d)) := by
  cases a <;> cases b <;> cases c <;> cases d <;> rfl

theorem s_run_inv (cfg : SCfg) (hcm : 0 < cfg.chunkMax) (sid : Sid) : ∀ (evs : List (SEv α))
    (s : SStream α) (failed replied : Bool) (E : List (DFrame α)) (S : List (List α)),
    Inv s.psend (failed || replied) E S → (s.finishAfterSend = true → (failed || replied) = true) →
    SStream.legalSends cfg sid s failed evs = true → sReplyIsLast evs = true →
    (replied = true → evs.all (fun e => !sIsSend e) = true) →
    Inv (SStream.runEv cfg sid s evs).1.psend
      ((failed || sAnyFailed (SStream.runEv cfg sid s evs).2) || (replied || evs.any sIsReply))
      (E ++ Out.emittedData (SStream.runEv cfg sid s evs).2) (S ++ SEv.submitted evs) := by
  intro evs
  induction evs with
  | nil =>
    intro s failed replied E S h _ _ _ _
    simpa [SStream.runEv, sAnyFailed, Out.emittedData, SEv.submitted] using h
  | cons e es ih =>
    intro s failed replied E S h hF hl hrl hrep
    rw [s_legalSends_cons] at hl
    simp only [Bool.and_eq_true, Bool.or_eq_true, Bool.not_eq_eq_eq_not, Bool.not_true,
      Option.isNone_iff_eq_none] at hl
    obtain ⟨hok, hl'⟩ := hl
    simp only [sReplyIsLast, Bool.and_eq_true, Bool.or_eq_true, Bool.not_eq_eq_eq_not, Bool.not_true] at hrl
    obtain ⟨hr1, hrl'⟩ := hrl
    simp only [List.all_cons, Bool.and_eq_true, Bool.not_eq_eq_eq_not, Bool.not_true] at hrep
    have hstep := s_step_inv cfg hcm sid s (failed || replied) E S e h hF (fun hs => by
      rcases hok with hok | hok
      · rw [hs] at hok; cases hok
      · refine ⟨hok.1, ?_⟩
        cases hrp : replied with
        | false => rw [hok.2]; rfl
        | true => have := (hrep hrp).1; rw [hs] at this; cases this)
    rw [bool4] at hstep
    have hrep' : (replied || sIsReply e) = true → es.all (fun e => !sIsSend e) = true := by
      intro hh
      cases hrp : replied with
      | true => exact (hrep hrp).2
      | false =>
        rw [hrp, Bool.false_or] at hh
        rcases hr1 with hr1 | hr1
        · rw [hh] at hr1; cases hr1
        · exact hr1
    have := ih _ _ _ _ _ hstep.1 hstep.2 hl' hrl' hrep'
    rw [s_runEv_cons, s_submitted_cons]
    simp only [s_emittedData_eq, List.flatMap_cons, sAnyFailed, List.any_cons] at this ⊢
    rw [← List.append_assoc, ← List.append_assoc]
    simp only [Bool.or_assoc] at this ⊢
    exact this

/-- **C01 (emission half), server, full form** (`_partial`: two hypotheses
    more than requested, see the file header: `finishAfterSend` is clear
    initially, and the unary reply is the last send).  Reassembling everything
    the server stream has put on the wire never fails and yields a prefix `ms`
    of the submitted messages; what the reader still holds is nothing, or a
    proper prefix of the next submitted message with that message's exact
    length; and if at the end no send is pending, no send has failed and no
    reply was issued, everything submitted has been emitted completely. -/
theorem server_emits_chunkings_full_partial (cfg : SCfg) (hcm : 0 < cfg.chunkMax) (sid : Sid)
    (s0 : SStream α) (h0 : s0.psend = none) (h0f : s0.finishAfterSend = false) (evs : List (SEv α))
    (hl : SStream.legalSends cfg sid s0 false evs = true) (hr : sReplyIsLast evs = true) :
    ∃ ms st, parse none (Out.emittedData (SStream.runEv cfg sid s0 evs).2) = (ms, .ok st) ∧
      Tail ms st (SEv.submitted evs) ∧
      ((SStream.runEv cfg sid s0 evs).1.psend = none →
        sAnyFailed (SStream.runEv cfg sid s0 evs).2 = false → evs.any sIsReply = false →
        ms = SEv.submitted evs ∧ st = none) := by
  have hinv : Inv s0.psend (false || false) ([] : List (DFrame α)) [] := h0 ▸ Inv.init
  have h := (s_run_inv cfg hcm sid evs s0 false false [] [] hinv
    (fun h => by rw [h0f] at h; cases h) hl hr (fun h => by cases h)).result
  simp only [List.nil_append, Bool.false_or] at h
  obtain ⟨ms, st, h1, h2, h3⟩ := h
  exact ⟨ms, st, h1, h2, fun hp hf hrp => h3 hp (by rw [hf, hrp]; rfl)⟩

/-- **C01 (emission half), server** (`_partial`: hypotheses `h0f` and `hr` added). -/
theorem server_emits_chunkings_partial (cfg : SCfg) (hcm : 0 < cfg.chunkMax) (sid : Sid)
    (s0 : SStream α) (h0 : s0.psend = none) (h0f : s0.finishAfterSend = false) (evs : List (SEv α))
    (hl : SStream.legalSends cfg sid s0 false evs = true) (hr : sReplyIsLast evs = true) :
    ∃ ms st, parse none (Out.emittedData (SStream.runEv cfg sid s0 evs).2) = (ms, .ok st) ∧
      ms <+: SEv.submitted evs := by
  obtain ⟨ms, st, h1, h2, _⟩ := server_emits_chunkings_full_partial cfg hcm sid s0 h0 h0f evs hl hr
  exact ⟨ms, st, h1, h2.prefix⟩

/-- **C13 (envelope exactness), server** (`_partial`: same two hypotheses).
    The `i`-th envelope frame on the wire states exactly the length of the
    `i`-th submitted message. -/
theorem server_envelopes_exact_partial (cfg : SCfg) (hcm : 0 < cfg.chunkMax) (sid : Sid)
    (s0 : SStream α) (h0 : s0.psend = none) (h0f : s0.finishAfterSend = false) (evs : List (SEv α))
    (hl : SStream.legalSends cfg sid s0 false evs = true) (hr : sReplyIsLast evs = true) :
    envSizes (Out.emittedData (SStream.runEv cfg sid s0 evs).2) <+:
      (SEv.submitted evs).map List.length := by
  obtain ⟨ms, st, h1, h2, _⟩ := server_emits_chunkings_full_partial cfg hcm sid s0 h0 h0f evs hl hr
  exact envSizes_of_tail _ ms st _ h1 h2

/-- every step of a server stream emits data frames of at most `chunkMax` bytes -/
theorem s_stepEv_bound (cfg : SCfg) (hcm : 0 < cfg.chunkMax) (sid : Sid) (s : SStream α) (e : SEv α) :
    ∀ f ∈ sdata (s.stepEv cfg sid e).2, f.size ≤ cfg.chunkMax := by
  cases hse : sIsSend e with
  | false => exact (s_stepEv_step cfg hcm sid s e hse).bound
  | true =>
    cases e with
    | frame f => cases hse
    | ctx e => cases hse
    | call c =>
      cases c with
      | send m => exact (s_send_spec cfg hcm sid s m).2.2.1
      | reply m => exact (s_reply_spec cfg hcm sid s m).2.1
      | recv => cases hse
      | setHeader md => cases hse
      | sendHeader md => cases hse
      | setTrailer md => cases hse
      | ret st => cases hse

/-- **C06/C13 (chunk bound), server**: any run, legal or not, from any state. -/
theorem server_chunk_bound (cfg : SCfg) (hcm : 0 < cfg.chunkMax) (sid : Sid) (evs : List (SEv α)) :
    ∀ (s0 : SStream α), ∀ f ∈ Out.emittedData (SStream.runEv cfg sid s0 evs).2, f.size ≤ cfg.chunkMax := by
  induction evs with
  | nil => intro s0 f hf; simp [SStream.runEv, Out.emittedData] at hf
  | cons e es ih =>
    intro s0 f hf
    rw [s_runEv_cons, s_emittedData_eq, List.flatMap_cons, List.mem_append] at hf
    rcases hf with hf | hf
    · exact s_stepEv_bound cfg hcm sid s0 e f hf
    · exact ih _ f hf

theorem s_runEv_append (cfg : SCfg) (sid : Sid) (pre post : List (SEv α)) : ∀ (s : SStream α),
    SStream.runEv cfg sid s (pre ++ post) =
      ((SStream.runEv cfg sid (SStream.runEv cfg sid s pre).1 post).1,
       (SStream.runEv cfg sid s pre).2 ++ (SStream.runEv cfg sid (SStream.runEv cfg sid s pre).1 post).2) := by
  induction pre with
  | nil => intro s; rfl
  | cons e es ih => intro s; rw [List.cons_append, s_runEv_cons, ih, s_runEv_cons]; rfl

theorem s_runEv_length (cfg : SCfg) (sid : Sid) (evs : List (SEv α)) : ∀ (s : SStream α),
    (SStream.runEv cfg sid s evs).2.length = evs.length := by
  induction evs with
  | nil => intro s; rfl
  | cons e es ih => intro s; rw [s_runEv_cons]; simp [ih]

/-- **C13 (envelope first), server.**  In any run, the output of a `SendMsg(m)`
    or reply(m) step (`c = .send m` or `c = .reply m`) carries no data frame or
    starts with the envelope stating `m.length`, and all its data frames obey
    the chunk bound. -/
theorem server_send_first_frame (cfg : SCfg) (hcm : 0 < cfg.chunkMax) (sid : Sid) (s0 : SStream α)
    (pre post : List (SEv α)) (m : List α) (c : HCall α) (hc : c = .send m ∨ c = .reply m) :
    ∃ o, (SStream.runEv cfg sid s0 (pre ++ .call c :: post)).2[pre.length]? = some o ∧
      StartsWithEnv m.length (sdata o) ∧ ∀ f ∈ sdata o, f.size ≤ cfg.chunkMax := by
  refine ⟨((SStream.runEv cfg sid s0 pre).1.onCall cfg sid c).2, ?_, ?_, ?_⟩
  · rw [s_runEv_append, s_runEv_cons]
    simp only
    rw [List.getElem?_append_right (by rw [s_runEv_length]; exact Nat.le_refl _), s_runEv_length]
    simp [SStream.stepEv]
  · rcases hc with rfl | rfl
    · exact (s_send_spec cfg hcm sid _ m).2.2.2
    · exact (s_reply_spec cfg hcm sid _ m).2.2
  · rcases hc with rfl | rfl
    · exact (s_send_spec cfg hcm sid _ m).2.2.1
    · exact (s_reply_spec cfg hcm sid _ m).2.1

/-! ### the requested server statement is false: counterexamples -/

def isOk {β : Type} : Except PErr β → Bool
  | .ok _ => true
  | .error _ => false

/-- counterexample 1: a unary reply blocked on the window is aborted by the
    context (no `"send"` completion is reported: `afterSend`/`cancelCtx` hide
    the reply's own result), so `legalSends` allows a second reply -/
def cex1State : SStream Nat :=
  { cs := false, ss := false, unary := true, fc := true, rcv := RcvQ.init 10, win := 1, hstatus := .running }
def cex1Evs : List (SEv Nat) :=
  [.call (.reply [1, 2, 3]), .ctx .canceled, .frame (.windowUpdate 5), .call (.reply [4])]

/-- counterexample 2: no reply at all, but `finishAfterSend` stale in the initial state -/
def cex2State : SStream Nat :=
  { cs := false, ss := true, unary := false, fc := true, rcv := RcvQ.init 10, win := 1, hstatus := .running,
    finishAfterSend := true }
def cex2Evs : List (SEv Nat) :=
  [.call (.send [1, 2, 3]), .ctx .canceled, .frame (.windowUpdate 5), .call (.send [4])]

theorem cex1_facts :
    cex1State.psend = none ∧ cex1State.finishAfterSend = false ∧
    SStream.legalSends {} 7 cex1State false cex1Evs = true ∧ sReplyIsLast cex1Evs = false ∧
    Out.emittedData (SStream.runEv {} 7 cex1State cex1Evs).2 = [.env 3 [1], .env 1 [4]] ∧
    isOk (parse none (Out.emittedData (SStream.runEv {} 7 cex1State cex1Evs).2)).2 = false := by
  decide

theorem cex2_facts :
    cex2State.psend = none ∧ cex2State.finishAfterSend = true ∧
    SStream.legalSends {} 7 cex2State false cex2Evs = true ∧ sReplyIsLast cex2Evs = true ∧
    Out.emittedData (SStream.runEv {} 7 cex2State cex2Evs).2 = [.env 3 [1], .env 1 [4]] ∧
    isOk (parse none (Out.emittedData (SStream.runEv {} 7 cex2State cex2Evs).2)).2 = false := by
  decide

/-- the server statement exactly as requested (without `h0f`, `hr`) is false -/
theorem server_emits_chunkings_as_requested_is_false :
    ¬ (∀ (cfg : SCfg) (_ : 0 < cfg.chunkMax) (sid : Sid) (s0 : SStream Nat) (_ : s0.psend = none)
        (evs : List (SEv Nat)) (_ : SStream.legalSends cfg sid s0 false evs = true),
        ∃ ms st, parse none (Out.emittedData (SStream.runEv cfg sid s0 evs).2) = (ms, .ok st) ∧
          ms <+: SEv.submitted evs) := by
  intro h
  obtain ⟨ms, st, hp, _⟩ := h {} (by decide) 7 cex1State rfl cex1Evs cex1_facts.2.2.1
  have hb := cex1_facts.2.2.2.2.2
  rw [hp] at hb
  cases hb

/-- ... and it stays false with `hr` alone (counterexample 2) -/
theorem server_emits_chunkings_needs_h0f :
    ¬ (∀ (cfg : SCfg) (_ : 0 < cfg.chunkMax) (sid : Sid) (s0 : SStream Nat) (_ : s0.psend = none)
        (evs : List (SEv Nat)) (_ : SStream.legalSends cfg sid s0 false evs = true)
        (_ : sReplyIsLast evs = true),
        ∃ ms st, parse none (Out.emittedData (SStream.runEv cfg sid s0 evs).2) = (ms, .ok st) ∧
          ms <+: SEv.submitted evs) := by
  intro h
  obtain ⟨ms, st, hp, _⟩ := h {} (by decide) 7 cex2State rfl cex2Evs cex2_facts.2.2.1 cex2_facts.2.2.2.1
  have hb := cex2_facts.2.2.2.2.2
  rw [hp] at hb
  cases hb

/-! ### non-vacuity -/

-- a client run with a blocked send resumed by a window update, then a second message:
-- legal, and the wire carries the two chunkings
example :
    let s : CStream Nat := { cs := true, ss := true, fc := true, rcv := RcvQ.init 10, win := 2 }
    let evs : List (CEv Nat) := [.call (.send [1, 2, 3]), .frame (.windowUpdate 9), .call (.send [4])]
    CStream.legalSends { chunkMax := 2 } 1 s false evs = true ∧
    COut.emittedData (CStream.runEv { chunkMax := 2 } 1 s evs).2 =
      [.env 3 [1, 2], .more [3], .env 1 [4]] ∧
    (parse none (COut.emittedData (CStream.runEv { chunkMax := 2 } 1 s evs).2)).1 = [[1, 2, 3], [4]] := by
  decide

-- a server run: stream send blocked, resumed; then the handler returns
example :
    let s : SStream Nat := { cs := false, ss := true, unary := false, fc := true, rcv := RcvQ.init 10, win := 2,
                             hstatus := .running }
    let evs : List (SEv Nat) := [.call (.send [1, 2, 3]), .frame (.windowUpdate 9), .call (.send [4]),
                                 .call (.ret (mkStatus 0 ""))]
    SStream.legalSends { chunkMax := 2 } 1 s false evs = true ∧ sReplyIsLast evs = true ∧
    Out.emittedData (SStream.runEv { chunkMax := 2 } 1 s evs).2 =
      [.env 3 [1, 2], .more [3], .env 1 [4]] := by
  decide

end Proofs.Emission

#print axioms Proofs.Emission.client_emits_chunkings
#print axioms Proofs.Emission.client_emits_chunkings_full
#print axioms Proofs.Emission.client_envelopes_exact
#print axioms Proofs.Emission.client_chunk_bound
#print axioms Proofs.Emission.client_send_first_frame
#print axioms Proofs.Emission.server_emits_chunkings_partial
#print axioms Proofs.Emission.server_emits_chunkings_full_partial
#print axioms Proofs.Emission.server_envelopes_exact_partial
#print axioms Proofs.Emission.server_chunk_bound
#print axioms Proofs.Emission.server_send_first_frame
#print axioms Proofs.Emission.server_emits_chunkings_as_requested_is_false
#print axioms Proofs.Emission.server_emits_chunkings_needs_h0f
