import TunnelModel.FlowStep
/-! Invariants of the L-atomic flow-control model, preserved by every action;
    termination measure; absence of stuck states. -/
namespace Proofs.FlowStep
open TunnelModel.FlowStep

@[simp] theorem reserve_idle : SPc.reserve .idle = 0 := rfl
@[simp] theorem reserve_loaded (w) : SPc.reserve (.loaded w) = 0 := rfl
@[simp] theorem reserve_parked : SPc.reserve .parked = 0 := rfl
@[simp] theorem reserve_reserved (k) : SPc.reserve (.reserved k) = k := rfl
@[simp] theorem reserve_failed : SPc.reserve .failed = 0 := rfl
@[simp] theorem pc_idle : RPc.pendingCredit .idle = 0 := rfl
@[simp] theorem pc_waiting : RPc.pendingCredit .waiting = 0 := rfl
@[simp] theorem pc_woken : RPc.pendingCredit .woken = 0 := rfl
@[simp] theorem pc_credit (k) : RPc.pendingCredit (.credit k) = k := rfl

def Inv (W cm : Nat) (s : St) : Prop :=
  (s.win + s.spc.reserve + s.dataWire.sum + s.queue.sum + s.rpc.pendingCredit + s.creditWire.sum = W) ∧
  (s.rwin + s.queue.sum = W) ∧
  (s.overrun = false) ∧
  ((s.spc = .parked ∨ s.spc = .loaded 0) → 0 < s.win → (s.token = true ∨ s.upc = .added 0)) ∧
  (s.rpc = .waiting → s.queue = []) ∧
  (s.rpc = .woken → s.queue ≠ []) ∧
  (∀ k ∈ s.dataWire, k ≤ cm) ∧
  (∀ k ∈ s.queue, k ≤ cm) ∧
  (∀ k, s.spc = .reserved k → ∃ rem, s.cur = some rem ∧ k ≤ rem ∧ k ≤ cm ∧ (k = rem ∨ 0 < k)) ∧
  ((∃ w, s.spc = .loaded w) ∨ s.spc = .parked → s.cur.isSome = true) ∧
  (s.sent + s.win + s.spc.reserve = W + s.credited) ∧
  (s.sent = s.dataWire.sum + s.queue.sum + s.dequeued) ∧
  (s.granted + s.rpc.pendingCredit = s.dequeued) ∧
  (s.credited + s.creditWire.sum = s.granted) ∧
  (s.spc = .failed → s.cancelled = true)

macro "flow_fin" : tactic =>
  `(tactic| (simp_all <;> grind))

theorem inv_step {W cm : Nat} (hcm : 0 < cm) {s s' : St} (a : Act) (h : Inv W cm s)
    (hs : step cm s a = some s') : Inv W cm s' := by
  obtain ⟨win, token, spc, cur, todo, upc, dW, cW, rwin, queue, rpc, ov, canc, sent, credited, deq, granted⟩ := s
  unfold Inv at *
  dsimp only at h
  cases a <;> simp only [step] at hs
  case sLoad =>
    split at hs <;> try contradiction
    split at hs <;> try contradiction
    all_goals (injection hs with hs; subst hs; flow_fin)
  case sPark =>
    split at hs <;> try contradiction
    all_goals (injection hs with hs; subst hs; flow_fin)
  case sWake =>
    split at hs <;> try contradiction
    split at hs <;> try contradiction
    all_goals (injection hs with hs; subst hs; flow_fin)
  case sFail =>
    split at hs <;> try contradiction
    split at hs <;> try contradiction
    all_goals (injection hs with hs; subst hs; flow_fin)
  case sCas =>
    split at hs <;> try contradiction
    split at hs <;> try contradiction
    split at hs
    all_goals (injection hs with hs; subst hs; flow_fin)
  case sEmit =>
    split at hs <;> try contradiction
    all_goals (injection hs with hs; subst hs; flow_fin)
  case uAdd =>
    split at hs <;> try contradiction
    all_goals (injection hs with hs; subst hs; flow_fin)
  case uSignal =>
    split at hs <;> try contradiction
    all_goals (injection hs with hs; subst hs; flow_fin)
  case deliver =>
    split at hs <;> try contradiction
    split at hs
    · injection hs with hs; subst hs; flow_fin
    · by_cases hq : queue = [] ∧ rpc = .waiting
      · injection hs with hs; subst hs; flow_fin
      · injection hs with hs; subst hs; flow_fin
  case rStart =>
    split at hs <;> try contradiction
    injection hs with hs; subst hs
    unfold popOrWait
    split
    · rename_i k q hq
      subst hq
      by_cases hk : k > 0 <;> flow_fin
    · flow_fin
  case rResume =>
    split at hs <;> try contradiction
    injection hs with hs; subst hs
    unfold popOrWait
    split
    · rename_i k q hq
      subst hq
      by_cases hk : k > 0 <;> flow_fin
    · flow_fin
  case rCredit =>
    split at hs <;> try contradiction
    all_goals (injection hs with hs; subst hs; flow_fin)
  case cancel =>
    split at hs <;> try contradiction
    all_goals (injection hs with hs; subst hs; flow_fin)



theorem inv_init (W cm : Nat) (msgs : List Nat) : Inv W cm (init W msgs) := by
  unfold Inv init; simp

theorem inv_run {W cm : Nat} (hcm : 0 < cm) : ∀ (as : List Act) {s s' : St}, Inv W cm s →
    run cm s as = some s' → Inv W cm s' := by
  intro as
  induction as with
  | nil => intro s s' h hr; simp [run] at hr; subst hr; exact h
  | cons a as ih =>
    intro s s' h hr
    simp only [run] at hr
    cases hs : step cm s a with
    | none => simp [hs] at hr
    | some s1 => rw [hs] at hr; exact ih (inv_step hcm a h hs) hr

/-! ### bytes are neither lost nor invented on the sending side -/

theorem sent_remaining {W cm : Nat} {s s' : St} (T : Nat) (a : Act) (h : Inv W cm s)
    (ht : s.sent + s.remaining = T) (hs : step cm s a = some s') : s'.sent + s'.remaining = T := by
  obtain ⟨win, token, spc, cur, todo, upc, dW, cW, rwin, queue, rpc, ov, canc, sent, credited, deq, granted⟩ := s
  unfold Inv at h
  unfold St.remaining at *
  dsimp only at h ht
  cases a <;> simp only [step] at hs
  case sLoad =>
    split at hs <;> try contradiction
    split at hs <;> try contradiction
    all_goals (injection hs with hs; subst hs; simp_all <;> omega)
  case sEmit =>
    split at hs <;> try contradiction
    injection hs with hs; subst hs
    rename_i k rem
    obtain ⟨_, _, _, _, _, _, _, _, hresv, _⟩ := h
    obtain ⟨rem', h1, h2, _, _⟩ := hresv k rfl
    have h1' : rem = rem' := by simpa using h1
    subst h1'
    by_cases hk : k = rem <;> simp_all <;> omega
  case rStart =>
    split at hs <;> try contradiction
    injection hs with hs; subst hs
    unfold popOrWait; split <;> simp_all
  case rResume =>
    split at hs <;> try contradiction
    injection hs with hs; subst hs
    unfold popOrWait; split <;> simp_all
  all_goals
    (repeat' (split at hs <;> try contradiction))
    all_goals (injection hs with hs; subst hs; simp_all)

/-! ### termination measure -/

def spcVal (win : Nat) : SPc → Nat
  | .idle => 3
  | .loaded w => if w = win then 2 else 4
  | .parked => 1
  | .reserved _ => 1
  | .failed => 0

def upcVal : UPc → Nat
  | .idle => 0
  | .added _ => 4

def rpcVal : RPc → Nat
  | .idle => 1
  | .waiting => 0
  | .woken => 0
  | .credit _ => 9

def msgsLeft (s : St) : Nat := s.todo.length + (if s.cur.isSome then 1 else 0)

/-- every action strictly decreases this natural number -/
def measure (s : St) : Nat :=
  14 * (s.remaining + msgsLeft s) + spcVal s.win s.spc + (if s.token then 3 else 0) + upcVal s.upc +
  11 * s.dataWire.length + 10 * s.queue.length + rpcVal s.rpc + 7 * s.creditWire.length +
  (if s.cancelled then 0 else 1)

@[simp] theorem spcVal_idle (w) : spcVal w .idle = 3 := rfl
@[simp] theorem spcVal_parked (w) : spcVal w .parked = 1 := rfl
@[simp] theorem spcVal_reserved (w k) : spcVal w (.reserved k) = 1 := rfl
@[simp] theorem spcVal_failed (w) : spcVal w .failed = 0 := rfl
@[simp] theorem spcVal_loaded (w v) : spcVal w (.loaded v) = if v = w then 2 else 4 := rfl
@[simp] theorem upcVal_idle : upcVal .idle = 0 := rfl
@[simp] theorem upcVal_added (p) : upcVal (.added p) = 4 := rfl
@[simp] theorem rpcVal_idle : rpcVal .idle = 1 := rfl
@[simp] theorem rpcVal_waiting : rpcVal .waiting = 0 := rfl
@[simp] theorem rpcVal_woken : rpcVal .woken = 0 := rfl
@[simp] theorem rpcVal_credit (k) : rpcVal (.credit k) = 9 := rfl

theorem spcVal_le (w w' : Nat) (p : SPc) : spcVal w' p ≤ spcVal w p + 2 := by
  cases p <;> simp [spcVal] <;> (repeat' split) <;> omega

theorem measure_decreases {W cm : Nat} (hcm : 0 < cm) {s s' : St} (a : Act) (h : Inv W cm s)
    (hs : step cm s a = some s') : measure s' < measure s := by
  obtain ⟨win, token, spc, cur, todo, upc, dW, cW, rwin, queue, rpc, ov, canc, sent, credited, deq, granted⟩ := s
  unfold Inv at h
  dsimp only at h
  unfold measure St.remaining msgsLeft
  cases a <;> simp only [step] at hs
  case sLoad =>
    split at hs <;> try contradiction
    split at hs <;> try contradiction
    all_goals (injection hs with hs; subst hs; simp_all <;> omega)
  case sPark =>
    split at hs <;> try contradiction
    injection hs with hs; subst hs; simp; split <;> omega
  case sWake =>
    split at hs <;> try contradiction
    split at hs <;> try contradiction
    injection hs with hs; subst hs; simp_all
  case sFail =>
    split at hs <;> try contradiction
    split at hs <;> try contradiction
    injection hs with hs; subst hs; simp_all
  case sCas =>
    split at hs <;> try contradiction
    split at hs <;> try contradiction
    split at hs
    · injection hs with hs; subst hs; simp_all
    · injection hs with hs; subst hs; rename_i hne; simp_all
      have : ¬ (_ = win) := fun e => hne e.symm
      simp_all
  case sEmit =>
    split at hs <;> try contradiction
    injection hs with hs; subst hs
    rename_i k rem
    obtain ⟨_, _, _, _, _, _, _, _, hresv, _⟩ := h
    obtain ⟨rem', h1, h2, _, h4⟩ := hresv k rfl
    have h1' : rem = rem' := by simpa using h1
    subst h1'
    by_cases hk : k = rem
    · simp [hk]; omega
    · have : 0 < k := by rcases h4 with h4 | h4; exact absurd h4 hk; exact h4
      simp [hk]; omega
  case uAdd =>
    split at hs <;> try contradiction
    injection hs with hs; subst hs
    rename_i n rest
    have := spcVal_le win (win + n) spc
    simp; omega
  case uSignal =>
    split at hs <;> try contradiction
    injection hs with hs; subst hs
    simp
    all_goals ((repeat' split) <;> omega)
  case deliver =>
    split at hs <;> try contradiction
    split at hs
    · injection hs with hs; subst hs; simp <;> omega
    · injection hs with hs; subst hs
      by_cases hq : queue = [] ∧ rpc = .waiting
      · obtain ⟨hq1, hq2⟩ := hq
        subst hq1 hq2
        simp <;> omega
      · simp only [hq, if_false]; simp <;> omega
  case rStart =>
    split at hs <;> try contradiction
    injection hs with hs; subst hs
    unfold popOrWait
    split
    · rename_i k q hq; dsimp only at hq; subst hq
      by_cases hk : k > 0 <;> simp [hk] <;> omega
    · simp
  case rResume =>
    split at hs <;> try contradiction
    injection hs with hs; subst hs
    unfold popOrWait
    split
    · rename_i k q hq; dsimp only at hq; subst hq
      by_cases hk : k > 0 <;> simp [hk] <;> omega
    · rename_i hq; dsimp only at hq
      obtain ⟨_, _, _, _, _, hw, _⟩ := h
      exact absurd hq (hw rfl)
  case rCredit =>
    split at hs <;> try contradiction
    injection hs with hs; subst hs; simp; omega
  case cancel =>
    split at hs <;> try contradiction
    injection hs with hs; subst hs; simp_all

/-- a schedule can never be longer than the measure of the state it starts in -/
theorem run_length_le {W cm : Nat} (hcm : 0 < cm) : ∀ (as : List Act) {s s' : St}, Inv W cm s →
    run cm s as = some s' → as.length + measure s' ≤ measure s := by
  intro as
  induction as with
  | nil => intro s s' _ hr; simp [run] at hr; subst hr; simp
  | cons a as ih =>
    intro s s' h hr
    simp only [run] at hr
    cases hs : step cm s a with
    | none => simp [hs] at hr
    | some s1 =>
      rw [hs] at hr
      have h1 := measure_decreases hcm a h hs
      have h2 := ih (inv_step hcm a h hs) hr
      simp only [List.length_cons]; omega

/-! ### no stuck states -/

def enabled (cm : Nat) (s : St) (a : Act) : Bool := (step cm s a).isSome

theorem sum_pos_ne_nil {l : List Nat} (h : 0 < l.sum) : l ≠ [] := by
  intro e; subst e; simp at h

theorem reader_can_move {W cm : Nat} {s : St} (h : Inv W cm s) (hq : s.queue ≠ []) :
    ∃ a, a ≠ Act.cancel ∧ enabled cm s a = true := by
  obtain ⟨_, _, _, _, hrw, _⟩ := h
  cases hr : s.rpc with
  | idle => exact ⟨.rStart, by decide, by simp [enabled, step, hr]⟩
  | waiting => exact absurd (hrw hr) hq
  | woken => exact ⟨.rResume, by decide, by simp [enabled, step, hr]⟩
  | credit k => exact ⟨.rCredit, by decide, by simp [enabled, step, hr]⟩

/-- whatever is in flight can always be moved on: if the data wire, the queue,
    the credit wire, a pending credit or a pending signal is non-empty, some
    action other than `cancel` is enabled -/
theorem pipeline_can_move {W cm : Nat} {s : St} (h : Inv W cm s)
    (hne : s.dataWire ≠ [] ∨ s.queue ≠ [] ∨ s.creditWire ≠ [] ∨ s.upc ≠ .idle ∨
           s.rpc = .woken ∨ (∃ k, s.rpc = .credit k)) :
    ∃ a, a ≠ Act.cancel ∧ enabled cm s a = true := by
  rcases hne with hd | hq | hc | hu | hw | ⟨k, hk⟩
  · refine ⟨.deliver, by decide, ?_⟩
    cases hdw : s.dataWire with
    | nil => exact absurd hdw hd
    | cons k rest => simp only [enabled, step, hdw]; split <;> simp
  · exact reader_can_move h hq
  · cases hu : s.upc with
    | idle =>
      cases hcw : s.creditWire with
      | nil => exact absurd hcw hc
      | cons n rest => exact ⟨.uAdd, by decide, by simp [enabled, step, hu, hcw]⟩
    | added p => exact ⟨.uSignal, by decide, by simp [enabled, step, hu]⟩
  · cases hu' : s.upc with
    | idle => exact absurd hu' hu
    | added p => exact ⟨.uSignal, by decide, by simp [enabled, step, hu']⟩
  · exact ⟨.rResume, by decide, by simp [enabled, step, hw]⟩
  · exact ⟨.rCredit, by decide, by simp [enabled, step, hk]⟩

theorem no_stuck {W cm : Nat} (hW : 0 < W) {s : St} (h : Inv W cm s)
    (hc : s.cancelled = false) (hf : s.final = false) :
    ∃ a, a ≠ Act.cancel ∧ enabled cm s a = true := by
  have hinv := h
  obtain ⟨hcons, _, _, hwake, hrw, _, _, _, hresv, hcur, _, _, _, _, hfail⟩ := h
  cases hs : s.spc with
  | idle =>
    cases hcu : s.cur with
    | some r => exact ⟨.sLoad, by decide, by simp [enabled, step, hs, hcu]⟩
    | none =>
      cases htd : s.todo with
      | cons m rest => exact ⟨.sLoad, by decide, by simp [enabled, step, hs, hcu, htd]⟩
      | nil =>
        apply pipeline_can_move hinv
        simp only [St.final, hcu, htd, hs] at hf
        cases hd : s.dataWire <;> cases hq : s.queue <;> cases hcw : s.creditWire <;>
          cases hu : s.upc <;> cases hr : s.rpc <;> simp_all
  | loaded w =>
    have hc' := hcur (Or.inl ⟨w, hs⟩)
    cases hcu : s.cur with
    | none => simp [hcu] at hc'
    | some r =>
      by_cases hw : w = 0
      · subst hw; exact ⟨.sPark, by decide, by simp [enabled, step, hs]⟩
      · refine ⟨.sCas, by decide, ?_⟩
        simp only [enabled, step, hs, hcu, hw, if_false]; split <;> simp
  | parked =>
    by_cases ht : s.token = true
    · exact ⟨.sWake, by decide, by simp [enabled, step, hs, ht]⟩
    · cases hu : s.upc with
      | added p => exact ⟨.uSignal, by decide, by simp [enabled, step, hu]⟩
      | idle =>
        have hwin : s.win = 0 := by
          by_cases hp : 0 < s.win
          · rcases hwake (Or.inl hs) hp with h1 | h1
            · exact absurd h1 ht
            · rw [hu] at h1; cases h1
          · omega
        apply pipeline_can_move hinv
        rw [hs, hwin] at hcons
        simp only [reserve_parked] at hcons
        by_cases hd : s.dataWire = []
        · by_cases hq : s.queue = []
          · by_cases hcw : s.creditWire = []
            · right; right; right; right; right
              rw [hd, hq, hcw] at hcons
              simp at hcons
              cases hr : s.rpc with
              | credit k => exact ⟨k, rfl⟩
              | _ => rw [hr] at hcons; simp at hcons; omega
            · exact Or.inr (Or.inr (Or.inl hcw))
          · exact Or.inr (Or.inl hq)
        · exact Or.inl hd
  | reserved k =>
    obtain ⟨rem, hr, _⟩ := hresv k hs
    exact ⟨.sEmit, by decide, by simp [enabled, step, hs, hr]⟩
  | failed =>
    rw [hfail hs] at hc; cases hc

/-- `cancel` is the only action that sets `cancelled` -/
theorem cancelled_step {cm : Nat} {s s' : St} {a : Act} (hs : step cm s a = some s') (ha : a ≠ .cancel) :
    s'.cancelled = s.cancelled := by
  cases a <;> simp only [step] at hs
  case cancel => exact absurd rfl ha
  case rStart =>
    split at hs <;> try contradiction
    injection hs with hs; subst hs; unfold popOrWait; split <;> rfl
  case rResume =>
    split at hs <;> try contradiction
    injection hs with hs; subst hs; unfold popOrWait; split <;> rfl
  all_goals
    (repeat' (split at hs <;> try contradiction))
    all_goals (injection hs with hs; subst hs; rfl)

end Proofs.FlowStep
