import TunnelModel.Framing
/-! Lemmas about framing: the sender's frames always continue the reader's state. -/
namespace Proofs.Framing
open TunnelModel.Framing

variable {α : Type}

theorem parse_append (st : RState α) (fs gs : List (DFrame α)) :
    parse st (fs ++ gs) =
      match parse st fs with
      | (ms, .ok st') => let (ms', r) := parse st' gs; (ms ++ ms', r)
      | (ms, .error e) => (ms, .error e) := by
  induction fs generalizing st with
  | nil => simp [parse]
  | cons f fs ih =>
    simp only [List.cons_append, parse]
    cases h : parseStep st f with
    | cont st' => simp only [ih]
    | msg m =>
      simp only [ih]
      rcases parse none fs with ⟨ms, r⟩
      cases r <;> simp
    | err e => simp

/-- `Linked m s st`: sender state `s` (still sending message `m`) and reader
    state `st` (after everything emitted so far) fit together: the reader holds
    exactly the bytes already emitted and the sender holds the rest. -/
def Linked (m : List α) (s : Snd α) (st : RState α) : Prop :=
  s.total = m.length ∧
  ((s.first = true ∧ s.rem = m ∧ st = none) ∨
   (s.first = false ∧ s.rem ≠ [] ∧ ∃ pre, pre ++ s.rem = m ∧ st = some (m.length, pre)))

theorem linked_start (m : List α) : Linked m (Snd.start m) none := by
  simp [Linked, Snd.start]

/-- one chunk of positive size (or the single chunk of an empty message):
    the reader either completes exactly `m` or stays linked -/
theorem emitChunk_linked (m : List α) (s : Snd α) (st : RState α) (k : Nat)
    (hl : Linked m s st) (hk : k ≤ s.rem.length) (hpos : 0 < k ∨ s.rem = []) :
    match emitChunk k s with
    | (f, none) => parseStep st f = .msg m
    | (f, some s') => ∃ st', parseStep st f = .cont st' ∧ Linked m s' st' := by
  obtain ⟨htot, h⟩ := hl
  unfold emitChunk
  rcases h with ⟨hf, hrem, hst⟩ | ⟨hf, hne, pre, hpre, hst⟩
  · subst hst
    by_cases hk' : k = s.rem.length
    · simp only [hk', if_true, hf]
      simp [parseStep, hrem, htot]
    · simp only [hk', if_false, hf, if_true]
      have hlt : k < m.length := by rw [← hrem]; omega
      refine ⟨some (m.length, s.rem.take k), ?_, ?_⟩
      · have hmin : min k m.length = k := by omega
        have h1 : ¬ (k > m.length) := by omega
        have h2 : ¬ (k = m.length) := by omega
        simp only [parseStep, htot, List.length_take, hrem, hmin, h1, h2, if_false]
      · refine ⟨htot, Or.inr ⟨rfl, ?_, s.rem.take k, ?_, rfl⟩⟩
        · simp; omega
        · simp [hrem]
  · subst hst
    have hlen : pre.length + s.rem.length = m.length := by rw [← hpre]; simp
    have hrpos : 0 < s.rem.length := List.length_pos_iff.mpr hne
    by_cases hk' : k = s.rem.length
    · simp only [hk', if_true, hf]
      simp [parseStep, hpre]
    · simp only [hk', if_false, hf]
      have hkpos : 0 < k := by rcases hpos with h | h; exact h; exact absurd h hne
      refine ⟨some (m.length, pre ++ s.rem.take k), ?_, ?_⟩
      · have hmin : min k s.rem.length = k := by omega
        have h1 : ¬ (pre.length + k > m.length) := by omega
        have h2 : ¬ (pre.length + k = m.length) := by omega
        simp only [Bool.false_eq_true, if_false, parseStep, List.length_append, List.length_take,
          hmin, h1, h2]
      · refine ⟨htot, Or.inr ⟨rfl, ?_, pre ++ s.rem.take k, ?_, rfl⟩⟩
        · simp; omega
        · rw [List.append_assoc, List.take_append_drop]; exact hpre

theorem emitChunk_some (k : Nat) (s s' : Snd α) (f : DFrame α)
    (he : emitChunk k s = (f, some s')) : s'.rem = s.rem.drop k ∧ k ≠ s.rem.length := by
  unfold emitChunk at he
  by_cases hk : k = s.rem.length
  · simp [hk] at he
  · simp only [hk, if_false, Prod.mk.injEq, Option.some.injEq] at he
    exact ⟨by rw [← he.2], hk⟩

/-- frames produced by `pumpFuel` from a linked state: the reader collects no
    message and stays linked while the send is incomplete, and collects exactly
    `[m]` when it completes -/
theorem pumpFuel_parse (cm : Nat) (hcm : 0 < cm) (m : List α) :
    ∀ (fuel win : Nat) (s : Snd α) (st : RState α), Linked m s st →
      match pumpFuel cm fuel win s with
      | (fs, _, none) => parse st fs = ([m], .ok none)
      | (fs, _, some s') => ∃ st', parse st fs = ([], .ok st') ∧ Linked m s' st' := by
  intro fuel
  induction fuel with
  | zero => intro win s st hl; simp [pumpFuel, parse]; exact hl
  | succ fuel ih =>
    intro win s st hl
    unfold pumpFuel
    by_cases hw : win = 0
    · simp [hw, parse]; exact hl
    · simp only [hw, if_false]
      have hk : chunkSz cm win s.rem.length ≤ s.rem.length := by unfold chunkSz; omega
      have hpos : 0 < chunkSz cm win s.rem.length ∨ s.rem = [] := by
        by_cases hr : s.rem = []
        · exact Or.inr hr
        · left; have := List.length_pos_iff.mpr hr; unfold chunkSz; omega
      have h := emitChunk_linked m s st _ hl hk hpos
      rcases he : emitChunk (chunkSz cm win s.rem.length) s with ⟨f, _ | s'⟩
      · rw [he] at h; simp only at h
        simp [parse, h]
      · rw [he] at h; simp only at h
        obtain ⟨st', hp, hl'⟩ := h
        have := ih (win - chunkSz cm win s.rem.length) s' st' hl'
        simp only
        rcases hpf : pumpFuel cm fuel (win - chunkSz cm win s.rem.length) s' with ⟨fs, w, _ | s''⟩
        · rw [hpf] at this; simp only at this
          simp [parse, hp, this]
        · rw [hpf] at this; simp only at this
          obtain ⟨st'', hp', hl''⟩ := this
          exact ⟨st'', by simp [parse, hp, hp'], hl''⟩

/-- revision zero: the frames of one message parse to exactly that message
    (from any linked state; fuel large enough) -/
theorem sendAllFuel_parse (cm : Nat) (hcm : 0 < cm) (m : List α) :
    ∀ (fuel : Nat) (s : Snd α) (st : RState α), Linked m s st → s.rem.length < fuel →
      parse st (sendAllFuel cm fuel s) = ([m], .ok none) := by
  intro fuel
  induction fuel with
  | zero => intro s st _ h; omega
  | succ fuel ih =>
    intro s st hl hf
    unfold sendAllFuel
    have hk : min cm s.rem.length ≤ s.rem.length := by omega
    have hpos : 0 < min cm s.rem.length ∨ s.rem = [] := by
      by_cases hr : s.rem = []
      · exact Or.inr hr
      · left; have := List.length_pos_iff.mpr hr; omega
    have h := emitChunk_linked m s st _ hl hk hpos
    rcases he : emitChunk (min cm s.rem.length) s with ⟨f, _ | s'⟩
    · rw [he] at h; simp only at h; simp [parse, h]
    · rw [he] at h; simp only at h
      obtain ⟨st', hp, hl'⟩ := h
      have hlen : s'.rem.length < fuel := by
        obtain ⟨h1, h2⟩ := emitChunk_some _ _ _ _ he
        rw [h1]; simp
        have : 0 < s.rem.length := by
          rcases hpos with h | h
          · omega
          · simp [h] at h2
        omega
      simp [parse, hp, ih s' st' hl' hlen]

end Proofs.Framing
