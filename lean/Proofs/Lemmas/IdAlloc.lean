import TunnelModel.IdAlloc
/-!
  Stream ids reach the wire in strictly increasing order, whatever the number
  of goroutines starting RPCs and whatever the interleaving of their steps —
  provided `streamCreation` is held from before the allocation until after the
  `new_stream` frame has been sent (`guarded = true`).  Without that (the
  FAULTY variant) two goroutines can put their frames on the wire in the wrong
  order: `faulty_not_increasing`.
-/
namespace Proofs.IdAlloc
open TunnelModel.IdAlloc

def inCS : Pc → Bool
  | .locked | .allocated _ | .sent _ => true
  | _ => false

structure Inv (s : St) : Prop where
  le_last : ∀ x ∈ s.wire, x ≤ s.last
  incr : s.wire.Pairwise (· < ·)
  cs : ∀ (g : Nat) (pc : Pc), s.pcs[g]? = some pc → inCS pc = true → s.holder = some g
  alloc : ∀ (g id : Nat), s.pcs[g]? = some (Pc.allocated id) → id = s.last ∧ ∀ x ∈ s.wire, x < id

theorem get_set {l : List Pc} {g g' : Nat} {p pc : Pc} (h : (l.set g p)[g']? = some pc) :
    (g' = g ∧ pc = p) ∨ (g' ≠ g ∧ l[g']? = some pc) := by
  rw [List.getElem?_set] at h
  by_cases e : g = g'
  · subst e
    simp only [if_true] at h
    split at h
    · left; exact ⟨rfl, by simpa using h.symm⟩
    · cases h
  · simp only [e, if_false] at h
    right; exact ⟨fun x => e x.symm, h⟩

theorem inv_init (n : Nat) : Inv (init n) := by
  refine ⟨by simp [init], by simp [init], ?_, ?_⟩
  · intro g pc h hc
    simp only [init, List.getElem?_replicate] at h
    split at h
    · cases h; cases hc
    · cases h
  · intro g id h
    simp only [init, List.getElem?_replicate] at h
    split at h <;> cases h

theorem inv_step {s s' : St} {a : Act} (h : Inv s) (hs : step true s a = some s') : Inv s' := by
  cases a with
  | lock g =>
    simp only [step] at hs
    split at hs
    next hpc =>
      split at hs
      · cases hs
      next hh =>
        cases hs
        have hn : s.holder = none := by
          cases hx : s.holder with
          | none => rfl
          | some _ => simp [hx] at hh
        refine ⟨h.le_last, h.incr, ?_, ?_⟩
        · intro g' pc hg hc
          rcases get_set hg with ⟨e, _⟩ | ⟨_, hg'⟩
          · simp [e]
          · have := h.cs g' pc hg' hc
            rw [hn] at this; cases this
        · intro g' id hg
          rcases get_set hg with ⟨_, e⟩ | ⟨_, hg'⟩
          · cases e
          · exact h.alloc g' id hg'
    · cases hs
  | alloc g ok =>
    simp only [step] at hs
    split at hs
    next hpc =>
      cases hs
      have hh : s.holder = some g := h.cs g .locked hpc rfl
      refine ⟨fun x hx => Nat.le_succ_of_le (h.le_last x hx), h.incr, ?_, ?_⟩
      · intro g' pc hg hc
        rcases get_set hg with ⟨e, _⟩ | ⟨_, hg'⟩
        · simpa [e] using hh
        · exact h.cs g' pc hg' hc
      · intro g' id hg
        rcases get_set hg with ⟨_, e⟩ | ⟨ne, hg'⟩
        · cases ok with
          | true =>
            simp only [if_true] at e
            cases e
            exact ⟨rfl, fun x hx => Nat.lt_succ_of_le (h.le_last x hx)⟩
          | false => simp at e
        · have := h.cs g' _ hg' rfl
          rw [hh] at this
          exact absurd (Option.some.inj this).symm ne
    · cases hs
  | send g =>
    simp only [step] at hs
    split at hs
    next id hpc =>
      cases hs
      obtain ⟨hid, hlt⟩ := h.alloc g id hpc
      have hh : s.holder = some g := h.cs g _ hpc rfl
      refine ⟨?_, ?_, ?_, ?_⟩
      · intro x hx
        rcases List.mem_append.mp hx with hx | hx
        · exact h.le_last x hx
        · simp at hx; rw [hx, hid]; exact Nat.le_refl _
      · refine List.pairwise_append.mpr ⟨h.incr, by simp, ?_⟩
        intro a ha b hb
        simp at hb; subst hb
        exact hlt a ha
      · intro g' pc hg hc
        rcases get_set hg with ⟨e, _⟩ | ⟨_, hg'⟩
        · simpa [e] using hh
        · exact h.cs g' pc hg' hc
      · intro g' id' hg
        rcases get_set hg with ⟨_, e⟩ | ⟨ne, hg'⟩
        · cases e
        · have := h.cs g' _ hg' rfl
          rw [hh] at this
          exact absurd (Option.some.inj this).symm ne
    · cases hs
  | unlock g =>
    simp only [step] at hs
    split at hs
    next id hpc =>
      cases hs
      have hh : s.holder = some g := h.cs g _ hpc rfl
      refine ⟨h.le_last, h.incr, ?_, ?_⟩
      · intro g' pc hg hc
        rcases get_set hg with ⟨_, e⟩ | ⟨ne, hg'⟩
        · subst e; cases hc
        · have := h.cs g' pc hg' hc
          rw [hh] at this
          exact absurd (Option.some.inj this).symm ne
      · intro g' id' hg
        rcases get_set hg with ⟨_, e⟩ | ⟨_, hg'⟩
        · cases e
        · exact h.alloc g' id' hg'
    · cases hs

theorem inv_run : ∀ (as : List Act) {s s' : St}, Inv s → run true s as = some s' → Inv s'
  | [], s, s', h, hr => by simp [run] at hr; subst hr; exact h
  | a :: as, s, s', h, hr => by
    simp only [run] at hr
    split at hr
    next s1 hs => exact inv_run as (inv_step h hs) hr
    · cases hr

/-- **Ids reach the wire in strictly increasing order** (hence are distinct),
    for every number of goroutines and every interleaving. -/
theorem wire_increasing (n : Nat) (as : List Act) {s : St} (hr : run true (init n) as = some s) :
    s.wire.Pairwise (· < ·) :=
  (inv_run as (inv_init n) hr).incr

theorem wire_nodup (n : Nat) (as : List Act) {s : St} (hr : run true (init n) as = some s) :
    s.wire.Nodup :=
  (wire_increasing n as hr).imp (fun h => Nat.ne_of_lt h)

/-- at most one goroutine is between `lock` and `unlock` -/
theorem mutual_exclusion (n : Nat) (as : List Act) {s : St} (hr : run true (init n) as = some s)
    {g g' : Nat} {p p' : Pc} (hg : s.pcs[g]? = some p) (hg' : s.pcs[g']? = some p')
    (hc : inCS p = true) (hc' : inCS p' = true) : g = g' := by
  have h := inv_run as (inv_init n) hr
  have a := h.cs g p hg hc
  have b := h.cs g' p' hg' hc'
  rw [a] at b
  exact Option.some.inj b

/-- an id that was allocated and not yet sent is larger than everything on the wire -/
theorem allocated_is_fresh (n : Nat) (as : List Act) {s : St} (hr : run true (init n) as = some s)
    {g id : Nat} (hg : s.pcs[g]? = some (.allocated id)) : ∀ x ∈ s.wire, x < id :=
  ((inv_run as (inv_init n) hr).alloc g id hg).2

/-- **The lock is needed.** If `streamCreation` does not span allocation and
    send, two goroutines can emit their `new_stream` frames out of order. -/
theorem faulty_not_increasing :
    (run false (init 2) [.lock 0, .alloc 0 true, .lock 1, .alloc 1 true, .send 1, .send 0]).map (·.wire) = some [2, 1] := by
  decide

-- non-vacuity: a guarded schedule with a failed start in between
example :
    (run true (init 3) [.lock 1, .alloc 1 true, .send 1, .unlock 1, .lock 0, .alloc 0 false, .unlock 0,
                        .lock 2, .alloc 2 true, .send 2, .unlock 2]).map (·.wire) = some [1, 3] := by
  decide

-- the guarded model refuses the faulty schedule
example : run true (init 2) [.lock 0, .alloc 0 true, .lock 1] = none := by decide

end Proofs.IdAlloc
