import TunnelModel.LifeAtomic
/-!
  `ReverseTunnelServer`: Serve / Stop / GracefulStop under EVERY interleaving of their critical
  sections (`TunnelModel.LifeAtomic`): for every number `n` of Serve calls, `a` of Stop calls, `b` of
  GracefulStop calls and every schedule `List Act` of their atomic actions and of the peers'
  hang-ups (`run true false (init n a b) as = some s` = "`s` is reachable"),

  1. `inv_reachable`            the inductive invariant `Inv`: `wg` = number of Serve calls in `serving` /
                                `ended`; a Serve call is in `instances` iff it is `serving` / `ended` /
                                `returned`; `hungUp ⊆ instances`, non-empty only when `closed`;
                                `closed` → `instances ⊆ hungUp` (THE KEY; `Inv.closed_serving_hung` is the
                                clause of the brief); a Stop past its critical section → `closed`, a
                                GracefulStop past it → not `active`; a `returned` Stop / GracefulStop →
                                `wg = 0`.  "`state` is monotone" is a property of transitions:
                                `state_mono_step`, `state_mono_run`, `shut_stable`, `closed_stable`
                                (all variants of the model);
  2. `stop_returns_only_after_serves`   some Stop `returned` → every Serve call is `start` / `opened` /
                                `failedOpen` / `refused` / `returned`, and after EVERY extension of the
                                schedule no Serve call is `serving` / `ended`
                                (`gracefulStop_returns_only_after_serves`: the same for GracefulStop);
  3. `no_admission_after_shutdown`      `state ≥ closing` and Serve `i` not `serving` → never `serving`;
                                `admit_refuses_after_shutdown`: every later `enroll` refuses;
  4. `stop_makes_progress`      Stop `waiting`, some Serve running → a `tunnelEnds` or a `wgDone` is enabled
                                (`stop_ends_every_tunnel`: EVERY running Serve call can take its own next
                                step, no `peerHangup` needed; `stop_returns_when_drained`,
                                `stop_never_stuck`, `stop_returned_at_quiescence`);
     `schedule_bounded`         a schedule has at most `6n + 2a + 2b` actions (all variants);
  5. `gracefulStop_returns_iff_drained`  `returned` → the schedule contains its `gsWait`, `wg = 0` held in
                                the state where it was taken, and still holds; while `waiting`: `gsWait`
                                enabled ↔ `wg = 0` ↔ nobody running;
     `gracefulStop_blocked_until_peer_or_stop`  finding D9, general: `closing`, GracefulStop `waiting`,
                                Serve `i` `serving` with a silent peer — along every schedule without
                                `peerHangup i` and without a `stopCS` this stays exactly so;
     `gracefulStop_waits_for_peer`      finding D9 by `decide`: the only enabled actions are
                                `peerHangup 0` and `stopCS 0` (`…_alone`: without a Stop call only
                                `peerHangup 0`); `mem_enabled`: the list `enabled` is complete;
  6. `stop_after_gracefulStop`  schedule `… gsCS k … stopCS j …` → `closed`, all instances hung up, every
                                `serving` tunnel has `tunnelEnds` enabled, both calls `returned` only when
                                `wg = 0`, both can return once `wg = 0` (`stop_and_gracefulStop`: the same
                                from the program counters, either order);
  7. `faulty_unlocked_check_admits_after_stop`, `faulty_stop_guard_hangs` — the two seeded faults, by
     `decide`; `guarded_refuses_check`, `guarded_same_schedule_refused`, `guarded_same_schedule_hung_up`,
     `correct_stop_guard_same_schedule`: the correct model on the same schedules;
  8. non-vacuity `example`s     (`fullRun`: three Serve calls — one fails to open, one refused after the
                                GracefulStop, one served and ended by Stop —, 11 actions, everything returned).

  NOTHING REQUESTED TURNED OUT FALSE.  What was chosen / found:

  * The model has an explicit `openTunnel i ok` step (the network call) in front of `enroll i`, so the
    schedules of the brief for 7 are prefixed with `openTunnel 0 true`.
  * `peerHangup i` is enabled while `serving`, at most ONCE per tunnel (flag `peer`); otherwise no
    schedule bound could hold.  It is an action of the environment: theorem 4 never uses it.
  * Theorem 3 needs no reachability: it holds from ANY state of the model with the one-critical-section
    `addInstance`, and for both Stop variants (`no_admission_after_shutdown'` is the reachable-state
    instance in the words of the brief).
  * Theorem 4 is proved in the stronger per-tunnel form (`stop_ends_every_tunnel`), and for a Stop call
    that is `waiting` OR `returned` (`Passed`).
  * Theorem 5, D9: the side condition `state = closing` of the general form says "no Stop has run its
    critical section yet" (a Stop past it forces `closed`, `Inv.stop_closed`); with `closed` the tunnel
    has been hung up and ends on its own (theorem 6) — that is the `stopCS` exception of the brief.
  * Theorem 2 holds for GracefulStop as well (its `gsWait` comes after its `gsCS`, hence in a shut-down
    state): after a GracefulStop has returned no Serve call is ever running again.
  * The termination measure `remaining` works for all variants (`g`, `f` arbitrary): 5 own actions + 1
    peer hang-up per Serve call (the correct model uses 4 + 1), 2 per Stop / GracefulStop call.
  * `wgDone` is the truncated `wg - 1`; that it never underflows follows from `Inv.wg_count`
    (`wg.Done()` never panics).
  * Proof organisation: `Step` is `step` spelled out as a relation (`step_spec`, `step_of_Step`), one
    constructor per outcome of an action; every per-step lemma is a `cases` on it.
  * The word "enroll" in this file is always the ACTION `Act.enroll` / a name derived from it (as in the
    brief: `enroll i`, `faulty_unlocked_check_admits_after_stop`), never the tactic.
-/
namespace Proofs.LifeAtomic
open TunnelModel.LifeAtomic

/-! ### Lists -/

theorem get_set {α : Type} {l : List α} {t t' : Nat} {x y : α} (h : (l.set t x)[t']? = some y) :
    (t' = t ∧ y = x) ∨ (t' ≠ t ∧ l[t']? = some y) := by
  rw [List.getElem?_set] at h
  by_cases e : t = t'
  · subst e
    simp only [if_true] at h
    split at h
    · left; exact ⟨rfl, by simpa using h.symm⟩
    · cases h
  · simp only [e, if_false] at h
    right; exact ⟨fun x => e x.symm, h⟩

theorem lt_of_get {α : Type} {l : List α} {t : Nat} {x : α} (h : l[t]? = some x) : t < l.length := by
  rcases Nat.lt_or_ge t l.length with h' | h'
  · exact h'
  · rw [List.getElem?_eq_none h'] at h; cases h

theorem get_set_self {α : Type} {l : List α} {t : Nat} {x x' : α} (h : l[t]? = some x) :
    (l.set t x')[t]? = some x' :=
  List.getElem?_set_self (lt_of_get h)

theorem nRunning_set : ∀ {l : List Serve} {i : Nat} {x x' : Serve}, l[i]? = some x →
    nRunning (l.set i x') + (if x.pc.running then 1 else 0)
      = nRunning l + (if x'.pc.running then 1 else 0)
  | [], _, _, _, h => by cases h
  | y :: r, 0, x, x', h => by
    simp only [List.getElem?_cons_zero, Option.some.injEq] at h
    subst h
    simp only [List.set_cons_zero, nRunning]
    omega
  | y :: r, i + 1, x, x', h => by
    simp only [List.getElem?_cons_succ] at h
    have := nRunning_set (x' := x') h
    simp only [List.set_cons_succ, nRunning]
    omega

theorem nRunning_pos : ∀ {l : List Serve} {i : Nat} {x : Serve}, l[i]? = some x →
    x.pc.running = true → 0 < nRunning l
  | [], _, _, h, _ => by cases h
  | y :: r, 0, x, h, hr => by
    simp only [List.getElem?_cons_zero, Option.some.injEq] at h
    subst h
    simp only [nRunning, hr, if_true]
    omega
  | y :: r, i + 1, x, h, hr => by
    simp only [List.getElem?_cons_succ] at h
    have := nRunning_pos h hr
    simp only [nRunning]
    omega

theorem nRunning_replicate (n : Nat) : nRunning (List.replicate n ⟨.start, false⟩) = 0 := by
  induction n with
  | zero => rfl
  | succ n ih => simp [List.replicate_succ, nRunning, ih, SPc.running]

/-! ### The invariant -/

structure Inv (s : St) : Prop where
  /-- `wg` = number of Serve calls in `serving` or `ended` -/
  wg_count : s.wg = nRunning s.serves
  /-- every Serve in `serving` / `ended` / `returned` is in `instances` … -/
  admitted_inst : ∀ (i : Nat) (x : Serve), s.serves[i]? = some x → x.pc.admitted = true → i ∈ s.instances
  /-- … and nothing else is -/
  inst_admitted : ∀ i ∈ s.instances, ∃ x, s.serves[i]? = some x ∧ x.pc.admitted = true
  /-- `CloseSend` is only ever called on instances … -/
  hung_inst : ∀ i ∈ s.hungUp, i ∈ s.instances
  /-- … and only by the critical section of `Stop` -/
  hung_closed : ∀ i ∈ s.hungUp, s.state = .closed
  /-- THE KEY: once `closed`, every instance has been hung up (nobody is admitted after the
      critical section of `Stop`, everybody admitted before it was hung up by it) -/
  closed_hung : s.state = .closed → ∀ i ∈ s.instances, i ∈ s.hungUp
  /-- the unlocked-check program point does not exist in the correct model -/
  no_checked : ∀ (i : Nat) (x : Serve), s.serves[i]? = some x → x.pc ≠ .checked
  /-- a Stop past its critical section: `closed` -/
  stop_closed : ∀ (j : Nat) (pc : WPc), s.stops[j]? = some pc → pc ≠ .start → s.state = .closed
  /-- a GracefulStop past its critical section: `closing` or `closed` -/
  gs_shut : ∀ (k : Nat) (pc : WPc), s.gstops[k]? = some pc → pc ≠ .start → s.state ≠ .active
  /-- a Stop has returned: the wait group is (and stays) empty -/
  stop_ret : ∀ (j : Nat), s.stops[j]? = some .returned → s.wg = 0
  /-- a GracefulStop has returned: the wait group is (and stays) empty -/
  gs_ret : ∀ (k : Nat), s.gstops[k]? = some .returned → s.wg = 0

theorem inv_init (n a b : Nat) : Inv (init n a b) := by
  refine ⟨?_, ?_, ?_, ?_, ?_, ?_, ?_, ?_, ?_, ?_, ?_⟩
  · simp only [init]; exact (nRunning_replicate n).symm
  · intro i x h ha
    simp only [init, List.getElem?_replicate] at h
    split at h
    · cases h; cases ha
    · cases h
  · intro i hi; cases hi
  · intro i hi; cases hi
  · intro i hi; cases hi
  · intro h; cases h
  · intro i x h
    simp only [init, List.getElem?_replicate] at h
    split at h
    · cases h; intro e; cases e
    · cases h
  · intro j pc h hne
    simp only [init, List.getElem?_replicate] at h
    split at h
    · cases h; exact absurd rfl hne
    · cases h
  · intro j pc h hne
    simp only [init, List.getElem?_replicate] at h
    split at h
    · cases h; exact absurd rfl hne
    · cases h
  · intro j h
    simp only [init, List.getElem?_replicate] at h
    split at h <;> cases h
  · intro j h
    simp only [init, List.getElem?_replicate] at h
    split at h <;> cases h

/-- an action that replaces the record of Serve `i` and leaves `state`, `instances`, `hungUp`
    and the other calls alone -/
theorem inv_serve_update {s s' : St} {i : Nat} {x x' : Serve} (I : Inv s)
    (hx : s.serves[i]? = some x)
    (hserves : s'.serves = s.serves.set i x')
    (hstate : s'.state = s.state) (hinst : s'.instances = s.instances) (hhung : s'.hungUp = s.hungUp)
    (hstops : s'.stops = s.stops) (hgs : s'.gstops = s.gstops)
    (hwg : s'.wg + (if x.pc.running then 1 else 0) = s.wg + (if x'.pc.running then 1 else 0))
    (hwg0 : s.wg = 0 → s'.wg = 0)
    (hadm : x'.pc.admitted = x.pc.admitted)
    (hchk : x'.pc ≠ .checked) : Inv s' := by
  refine ⟨?_, ?_, ?_, ?_, ?_, ?_, ?_, ?_, ?_, ?_, ?_⟩
  · have h1 := nRunning_set (x' := x') hx
    have h2 := I.wg_count
    rw [hserves]
    omega
  · intro i' y hy ha
    rw [hserves] at hy
    rw [hinst]
    rcases get_set hy with ⟨e, e'⟩ | ⟨_, hy'⟩
    · subst e; subst e'
      exact I.admitted_inst _ x hx (hadm ▸ ha)
    · exact I.admitted_inst i' y hy' ha
  · intro i' hi'
    rw [hinst] at hi'
    obtain ⟨y, hy, ha⟩ := I.inst_admitted i' hi'
    rw [hserves]
    by_cases e : i' = i
    · subst e
      rw [hx] at hy
      cases hy
      exact ⟨x', get_set_self hx, hadm.trans ha⟩
    · exact ⟨y, by rw [List.getElem?_set_ne (Ne.symm e)]; exact hy, ha⟩
  · rw [hhung, hinst]; exact I.hung_inst
  · rw [hhung, hstate]; exact I.hung_closed
  · rw [hstate, hinst, hhung]; exact I.closed_hung
  · intro i' y hy
    rw [hserves] at hy
    rcases get_set hy with ⟨_, e'⟩ | ⟨_, hy'⟩
    · subst e'; exact hchk
    · exact I.no_checked i' y hy'
  · rw [hstops, hstate]; exact I.stop_closed
  · rw [hgs, hstate]; exact I.gs_shut
  · intro j hj
    rw [hstops] at hj
    exact hwg0 (I.stop_ret j hj)
  · intro k hk
    rw [hgs] at hk
    exact hwg0 (I.gs_ret k hk)

theorem inv_openTunnel {s s' : St} {i : Nat} {ok : Bool} (I : Inv s)
    (hs : step true false s (.openTunnel i ok) = some s') : Inv s' := by
  simp only [step] at hs
  split at hs
  next p hpc =>
    cases hs
    refine inv_serve_update I hpc rfl rfl rfl rfl rfl rfl ?_ (fun h => h) ?_ ?_
    · cases ok <;> simp [SPc.running]
    · cases ok <;> simp [SPc.admitted]
    · cases ok <;> simp
  · cases hs

theorem inv_admit {s s' : St} {i : Nat} (I : Inv s)
    (hs : step true false s (.enroll i) = some s') : Inv s' := by
  simp only [step, if_true] at hs
  split at hs
  next p hpc =>
    split at hs
    next hact =>
      cases hs
      refine ⟨?_, ?_, ?_, ?_, ?_, ?_, ?_, ?_, ?_, ?_, ?_⟩
      · have h1 := nRunning_set (x' := (⟨.serving, p⟩ : Serve)) hpc
        have h2 := I.wg_count
        simp only [SPc.running, if_true, Bool.false_eq_true, if_false] at h1
        show s.wg + 1 = nRunning (s.serves.set i ⟨.serving, p⟩)
        omega
      · intro i' y hy ha
        rcases get_set hy with ⟨e, _⟩ | ⟨_, hy'⟩
        · subst e; exact List.mem_cons_self
        · exact List.mem_cons_of_mem _ (I.admitted_inst i' y hy' ha)
      · intro i' hi'
        by_cases e : i' = i
        · subst e
          exact ⟨_, get_set_self hpc, rfl⟩
        · rcases List.mem_cons.mp hi' with h | h
          · exact absurd h e
          · obtain ⟨y, hy, ha⟩ := I.inst_admitted i' h
            exact ⟨y, by rw [List.getElem?_set_ne (Ne.symm e)]; exact hy, ha⟩
      · intro i' hi'
        exact List.mem_cons_of_mem _ (I.hung_inst i' hi')
      · exact I.hung_closed
      · intro h
        rw [hact] at h; cases h
      · intro i' y hy
        rcases get_set hy with ⟨_, e'⟩ | ⟨_, hy'⟩
        · subst e'; intro h; cases h
        · exact I.no_checked i' y hy'
      · exact I.stop_closed
      · exact I.gs_shut
      · intro j hj
        have := I.stop_closed j _ hj (by intro h; cases h)
        rw [hact] at this; cases this
      · intro k hk
        exact absurd hact (I.gs_shut k _ hk (by intro h; cases h))
    next hact =>
      cases hs
      exact inv_serve_update I hpc rfl rfl rfl rfl rfl rfl (by simp [SPc.running]) (fun h => h)
        (by simp [SPc.admitted]) (by simp)
  · cases hs

theorem inv_peerHangup {s s' : St} {i : Nat} (I : Inv s)
    (hs : step true false s (.peerHangup i) = some s') : Inv s' := by
  simp only [step] at hs
  split at hs
  next hpc =>
    cases hs
    exact inv_serve_update I hpc rfl rfl rfl rfl rfl rfl (by simp [SPc.running]) (fun h => h)
      (by simp [SPc.admitted]) (by simp)
  · cases hs

theorem inv_tunnelEnds {s s' : St} {i : Nat} (I : Inv s)
    (hs : step true false s (.tunnelEnds i) = some s') : Inv s' := by
  simp only [step] at hs
  split at hs
  next p hpc =>
    split at hs
    · cases hs
      exact inv_serve_update I hpc rfl rfl rfl rfl rfl rfl (by simp [SPc.running]) (fun h => h)
        (by simp [SPc.admitted]) (by simp)
    · cases hs
  · cases hs

theorem inv_wgDone {s s' : St} {i : Nat} (I : Inv s)
    (hs : step true false s (.wgDone i) = some s') : Inv s' := by
  simp only [step] at hs
  split at hs
  next p hpc =>
    cases hs
    have h1 := nRunning_pos hpc rfl
    have h2 := I.wg_count
    refine inv_serve_update I hpc rfl rfl rfl rfl rfl rfl ?_ ?_ (by simp [SPc.admitted]) (by simp)
    · simp only [SPc.running, if_true, Bool.false_eq_true, if_false]
      omega
    · intro h; simp only [h]
  · cases hs

theorem inv_stopCS {s s' : St} {j : Nat} (I : Inv s)
    (hs : step true false s (.stopCS j) = some s') : Inv s' := by
  simp only [step, stopSkips, Bool.false_eq_true, if_false] at hs
  split at hs
  next hpc =>
    split at hs
    next hcl =>
      have hcl' : s.state = .closed := by simpa using hcl
      cases hs
      refine ⟨I.wg_count, I.admitted_inst, I.inst_admitted, I.hung_inst, I.hung_closed, I.closed_hung,
        I.no_checked, fun _ _ _ _ => hcl', I.gs_shut, ?_, I.gs_ret⟩
      intro j' hj'
      rcases get_set hj' with ⟨_, e'⟩ | ⟨_, hy'⟩
      · cases e'
      · exact I.stop_ret j' hy'
    next hcl =>
      cases hs
      refine ⟨I.wg_count, I.admitted_inst, I.inst_admitted, ?_, fun _ _ => rfl, ?_,
        I.no_checked, fun _ _ _ _ => rfl, ?_, ?_, I.gs_ret⟩
      · intro i hi
        rcases List.mem_append.mp hi with h | h
        · exact h
        · exact I.hung_inst i h
      · intro _ i hi
        exact List.mem_append.mpr (Or.inl hi)
      · intro _ _ _ _ h; cases h
      · intro j' hj'
        rcases get_set hj' with ⟨_, e'⟩ | ⟨_, hy'⟩
        · cases e'
        · exact I.stop_ret j' hy'
  · cases hs

theorem inv_stopWait {s s' : St} {j : Nat} (I : Inv s)
    (hs : step true false s (.stopWait j) = some s') : Inv s' := by
  simp only [step] at hs
  split at hs
  next hpc =>
    split at hs
    next hwg =>
      cases hs
      refine ⟨I.wg_count, I.admitted_inst, I.inst_admitted, I.hung_inst, I.hung_closed, I.closed_hung,
        I.no_checked, ?_, I.gs_shut, fun _ _ => hwg, I.gs_ret⟩
      intro j' pc hj' _
      exact I.stop_closed j .waiting hpc (by intro h; cases h)
    · cases hs
  · cases hs

theorem inv_gsCS {s s' : St} {k : Nat} (I : Inv s)
    (hs : step true false s (.gsCS k) = some s') : Inv s' := by
  simp only [step] at hs
  split at hs
  next hpc =>
    cases hs
    refine ⟨I.wg_count, I.admitted_inst, I.inst_admitted, I.hung_inst, ?_, ?_,
      I.no_checked, ?_, ?_, I.stop_ret, ?_⟩
    · intro i hi
      have := I.hung_closed i hi
      simp [this]
    · intro h
      apply I.closed_hung
      cases hst : s.state <;> simp [hst] at h ⊢
    · intro j pc hj hne
      have := I.stop_closed j pc hj hne
      simp [this]
    · intro k' pc _ _
      cases hst : s.state <;> simp
    · intro k' hk'
      rcases get_set hk' with ⟨_, e'⟩ | ⟨_, hy'⟩
      · cases e'
      · exact I.gs_ret k' hy'
  · cases hs

theorem inv_gsWait {s s' : St} {k : Nat} (I : Inv s)
    (hs : step true false s (.gsWait k) = some s') : Inv s' := by
  simp only [step] at hs
  split at hs
  next hpc =>
    split at hs
    next hwg =>
      cases hs
      refine ⟨I.wg_count, I.admitted_inst, I.inst_admitted, I.hung_inst, I.hung_closed, I.closed_hung,
        I.no_checked, I.stop_closed, ?_, I.stop_ret, fun _ _ => hwg⟩
      intro k' pc hk' _
      exact I.gs_shut k .waiting hpc (by intro h; cases h)
    · cases hs
  · cases hs

/-- the invariant is inductive -/
theorem inv_step {s s' : St} {a : Act} (I : Inv s) (hs : step true false s a = some s') : Inv s' := by
  cases a with
  | openTunnel i ok => exact inv_openTunnel I hs
  | enroll i => exact inv_admit I hs
  | check i => simp [step] at hs
  | add i => simp [step] at hs
  | peerHangup i => exact inv_peerHangup I hs
  | tunnelEnds i => exact inv_tunnelEnds I hs
  | wgDone i => exact inv_wgDone I hs
  | stopCS j => exact inv_stopCS I hs
  | stopWait j => exact inv_stopWait I hs
  | gsCS k => exact inv_gsCS I hs
  | gsWait k => exact inv_gsWait I hs

theorem inv_run : ∀ (as : List Act) {s s' : St}, Inv s → run true false s as = some s' → Inv s'
  | [], s, s', h, hr => by simp [run] at hr; subst hr; exact h
  | a :: as, s, s', h, hr => by
    simp only [run] at hr
    split at hr
    next s1 hs => exact inv_run as (inv_step h hs) hr
    · cases hr

/-- **1.** the invariant holds in every reachable state of the correct model -/
theorem inv_reachable (n a b : Nat) (as : List Act) {s : St}
    (hr : run true false (init n a b) as = some s) : Inv s :=
  inv_run as (inv_init n a b) hr

/-- the clause of the brief: once `closed`, every instance that is still `serving` has been hung up -/
theorem Inv.closed_serving_hung {s : St} (I : Inv s) (hc : s.state = .closed) {i : Nat} {p : Bool}
    (hi : s.serves[i]? = some ⟨.serving, p⟩) : i ∈ s.hungUp :=
  I.closed_hung hc i (I.admitted_inst i _ hi rfl)

theorem nRunning_zero {l : List Serve} (h : nRunning l = 0) {i : Nat} {x : Serve} (hi : l[i]? = some x) :
    x.pc.running = false := by
  cases hr : x.pc.running with
  | false => rfl
  | true => have := nRunning_pos hi hr; omega

theorem nRunning_eq_zero : ∀ {l : List Serve}, (∀ (i : Nat) (x : Serve), l[i]? = some x → x.pc.running = false) →
    nRunning l = 0
  | [], _ => rfl
  | y :: r, h => by
    have h0 := h 0 y rfl
    have := nRunning_eq_zero (l := r) (fun i x hi => h (i + 1) x (by simpa using hi))
    simp [nRunning, h0, this]

/-- nobody holds a unit of the wait group -/
theorem Inv.idle_of_wg {s : St} (I : Inv s) (h : s.wg = 0) {i : Nat} {x : Serve} (hi : s.serves[i]? = some x) :
    x.pc.running = false :=
  nRunning_zero (I.wg_count ▸ h) hi

/-! ### Runs -/

theorem run_append {g f : Bool} : ∀ (as bs : List Act) {s s'' : St},
    run g f s (as ++ bs) = some s'' ↔ ∃ s', run g f s as = some s' ∧ run g f s' bs = some s''
  | [], bs, s, s'' => by simp [run]
  | a :: as, bs, s, s'' => by
    simp only [List.cons_append, run]
    cases step g f s a with
    | none => simp
    | some s1 => exact run_append as bs

theorem run_cons {g f : Bool} {a : Act} {as : List Act} {s s'' : St} :
    run g f s (a :: as) = some s'' ↔ ∃ s', step g f s a = some s' ∧ run g f s' as = some s'' := by
  simp only [run]
  cases step g f s a with
  | none => simp
  | some s1 => simp

/-- a property of states that every step preserves holds along every run -/
theorem run_preserves {g f : Bool} {P : St → Prop}
    (hstep : ∀ {s s' : St} {a : Act}, step g f s a = some s' → P s → P s') :
    ∀ (as : List Act) {s s' : St}, run g f s as = some s' → P s → P s'
  | [], s, s', hr, h => by simp [run] at hr; subst hr; exact h
  | a :: as, s, s', hr, h => by
    obtain ⟨s1, hs, hr'⟩ := run_cons.mp hr
    exact run_preserves hstep as hr' (hstep hs h)

/-! ### The transition relation, spelled out (all variants of the model) -/

/-- `step` as a relation: one constructor per outcome of an action -/
inductive Step (g f : Bool) (s : St) : Act → St → Prop
  | openTunnel (i : Nat) (ok p : Bool) (h : s.serves[i]? = some ⟨.start, p⟩) :
      Step g f s (.openTunnel i ok)
        { s with serves := s.serves.set i ⟨if ok then .opened else .failedOpen, p⟩ }
  | admitOk (i : Nat) (p : Bool) (hg : g = true) (h : s.serves[i]? = some ⟨.opened, p⟩)
      (ha : s.state = .active) :
      Step g f s (.enroll i)
        { s with wg := s.wg + 1, instances := i :: s.instances, serves := s.serves.set i ⟨.serving, p⟩ }
  | admitRefused (i : Nat) (p : Bool) (hg : g = true) (h : s.serves[i]? = some ⟨.opened, p⟩)
      (ha : s.state ≠ .active) :
      Step g f s (.enroll i) { s with serves := s.serves.set i ⟨.refused, p⟩ }
  | check (i : Nat) (p : Bool) (hg : g = false) (h : s.serves[i]? = some ⟨.opened, p⟩) :
      Step g f s (.check i)
        { s with serves := s.serves.set i ⟨if s.state = .active then .checked else .refused, p⟩ }
  | add (i : Nat) (p : Bool) (hg : g = false) (h : s.serves[i]? = some ⟨.checked, p⟩) :
      Step g f s (.add i)
        { s with wg := s.wg + 1, instances := i :: s.instances, serves := s.serves.set i ⟨.serving, p⟩ }
  | peerHangup (i : Nat) (h : s.serves[i]? = some ⟨.serving, false⟩) :
      Step g f s (.peerHangup i) { s with serves := s.serves.set i ⟨.serving, true⟩ }
  | tunnelEnds (i : Nat) (p : Bool) (h : s.serves[i]? = some ⟨.serving, p⟩)
      (hu : p = true ∨ i ∈ s.hungUp) :
      Step g f s (.tunnelEnds i) { s with serves := s.serves.set i ⟨.ended, p⟩ }
  | wgDone (i : Nat) (p : Bool) (h : s.serves[i]? = some ⟨.ended, p⟩) :
      Step g f s (.wgDone i) { s with wg := s.wg - 1, serves := s.serves.set i ⟨.returned, p⟩ }
  | stopSkip (j : Nat) (h : s.stops[j]? = some .start) (hk : stopSkips f s.state = true) :
      Step g f s (.stopCS j) { s with stops := s.stops.set j .waiting }
  | stopClose (j : Nat) (h : s.stops[j]? = some .start) (hk : stopSkips f s.state = false) :
      Step g f s (.stopCS j)
        { s with state := .closed, hungUp := s.instances ++ s.hungUp, stops := s.stops.set j .waiting }
  | stopWait (j : Nat) (h : s.stops[j]? = some .waiting) (hw : s.wg = 0) :
      Step g f s (.stopWait j) { s with stops := s.stops.set j .returned }
  | gsCS (k : Nat) (h : s.gstops[k]? = some .start) :
      Step g f s (.gsCS k)
        { s with state := if s.state = .active then .closing else s.state, gstops := s.gstops.set k .waiting }
  | gsWait (k : Nat) (h : s.gstops[k]? = some .waiting) (hw : s.wg = 0) :
      Step g f s (.gsWait k) { s with gstops := s.gstops.set k .returned }

theorem step_spec {g f : Bool} {s s' : St} {a : Act} (hs : step g f s a = some s') : Step g f s a s' := by
  cases a with
  | openTunnel i ok =>
    simp only [step] at hs
    split at hs
    next p h => cases hs; exact .openTunnel i ok p h
    · cases hs
  | enroll i =>
    simp only [step] at hs
    split at hs
    next hg =>
      split at hs
      next p h =>
        split at hs
        next ha => cases hs; exact .admitOk i p hg h ha
        next ha => cases hs; exact .admitRefused i p hg h ha
      · cases hs
    · cases hs
  | check i =>
    simp only [step] at hs
    split at hs
    · cases hs
    next hg =>
      split at hs
      next p h => cases hs; exact .check i p (by simpa using hg) h
      · cases hs
  | add i =>
    simp only [step] at hs
    split at hs
    · cases hs
    next hg =>
      split at hs
      next p h => cases hs; exact .add i p (by simpa using hg) h
      · cases hs
  | peerHangup i =>
    simp only [step] at hs
    split at hs
    next h => cases hs; exact .peerHangup i h
    · cases hs
  | tunnelEnds i =>
    simp only [step] at hs
    split at hs
    next p h =>
      split at hs
      next hu =>
        cases hs
        refine .tunnelEnds i p h ?_
        simpa using hu
      · cases hs
    · cases hs
  | wgDone i =>
    simp only [step] at hs
    split at hs
    next p h => cases hs; exact .wgDone i p h
    · cases hs
  | stopCS j =>
    simp only [step] at hs
    split at hs
    next h =>
      split at hs
      next hk => cases hs; exact .stopSkip j h hk
      next hk => cases hs; exact .stopClose j h (by simpa using hk)
    · cases hs
  | stopWait j =>
    simp only [step] at hs
    split at hs
    next h =>
      split at hs
      next hw => cases hs; exact .stopWait j h hw
      · cases hs
    · cases hs
  | gsCS k =>
    simp only [step] at hs
    split at hs
    next h => cases hs; exact .gsCS k h
    · cases hs
  | gsWait k =>
    simp only [step] at hs
    split at hs
    next h =>
      split at hs
      next hw => cases hs; exact .gsWait k h hw
      · cases hs
    · cases hs

/-- … and back: the relation is exactly `step` -/
theorem step_of_Step {g f : Bool} {s s' : St} {a : Act} (h : Step g f s a s') : step g f s a = some s' := by
  cases h <;> simp_all [step]

/-! ### Monotonicity (all variants of the model) -/

/-- `state` only moves up: active < closing < closed -/
theorem state_mono_step {g f : Bool} {s s' : St} {a : Act} (hs : step g f s a = some s') :
    s.state.rank ≤ s'.state.rank := by
  cases step_spec hs <;> first
    | exact Nat.le_refl _
    | (cases hst : s.state <;> simp [SState.rank])

theorem state_mono_run {g f : Bool} : ∀ (as : List Act) {s s' : St}, run g f s as = some s' →
    s.state.rank ≤ s'.state.rank
  | [], s, s', hr => by simp [run] at hr; subst hr; exact Nat.le_refl _
  | a :: as, s, s', hr => by
    obtain ⟨s1, hs, hr'⟩ := run_cons.mp hr
    exact Nat.le_trans (state_mono_step hs) (state_mono_run as hr')

/-- **`state` is monotone**: once shut down (`closing` or `closed`), for ever shut down … -/
theorem shut_stable {g f : Bool} (as : List Act) {s s' : St} (hr : run g f s as = some s')
    (h : s.state ≠ .active) : s'.state ≠ .active := by
  have := state_mono_run as hr
  cases hs : s.state <;> cases hs' : s'.state <;> simp_all [SState.rank]

/-- … once `closed`, for ever `closed` -/
theorem closed_stable {g f : Bool} (as : List Act) {s s' : St} (hr : run g f s as = some s')
    (h : s.state = .closed) : s'.state = .closed := by
  have := state_mono_run as hr
  cases hs' : s'.state <;> simp_all [SState.rank]

theorem wpc_set_mono {l : List WPc} {j j' : Nat} {pc new old : WPc} (hj : l[j]? = some pc)
    (hold : l[j']? = some old) (hle : new.rank ≤ old.rank) :
    ∃ pc', (l.set j' new)[j]? = some pc' ∧ pc'.rank ≤ pc.rank := by
  by_cases e : j = j'
  · subst e
    rw [hj] at hold
    cases hold
    exact ⟨new, get_set_self hj, hle⟩
  · exact ⟨pc, by rw [List.getElem?_set_ne (Ne.symm e)]; exact hj, Nat.le_refl _⟩

/-- the program counter of a Stop call only moves forward -/
theorem stops_mono_step {g f : Bool} {s s' : St} {a : Act} (hs : step g f s a = some s')
    {j : Nat} {pc : WPc} (hj : s.stops[j]? = some pc) :
    ∃ pc', s'.stops[j]? = some pc' ∧ pc'.rank ≤ pc.rank := by
  cases step_spec hs with
  | stopSkip j' h _ => exact wpc_set_mono hj h (by simp [WPc.rank])
  | stopClose j' h _ => exact wpc_set_mono hj h (by simp [WPc.rank])
  | stopWait j' h _ => exact wpc_set_mono hj h (by simp [WPc.rank])
  | _ => exact ⟨pc, hj, Nat.le_refl _⟩

/-- the program counter of a GracefulStop call only moves forward -/
theorem gstops_mono_step {g f : Bool} {s s' : St} {a : Act} (hs : step g f s a = some s')
    {k : Nat} {pc : WPc} (hk : s.gstops[k]? = some pc) :
    ∃ pc', s'.gstops[k]? = some pc' ∧ pc'.rank ≤ pc.rank := by
  cases step_spec hs with
  | gsCS k' h => exact wpc_set_mono hk h (by simp [WPc.rank])
  | gsWait k' h _ => exact wpc_set_mono hk h (by simp [WPc.rank])
  | _ => exact ⟨pc, hk, Nat.le_refl _⟩

theorem stops_mono_run {g f : Bool} {j : Nat} : ∀ (as : List Act) {s s' : St} {pc : WPc},
    run g f s as = some s' → s.stops[j]? = some pc → ∃ pc', s'.stops[j]? = some pc' ∧ pc'.rank ≤ pc.rank
  | [], s, s', pc, hr, hj => by simp [run] at hr; subst hr; exact ⟨pc, hj, Nat.le_refl _⟩
  | a :: as, s, s', pc, hr, hj => by
    obtain ⟨s1, hs, hr'⟩ := run_cons.mp hr
    obtain ⟨pc1, h1, l1⟩ := stops_mono_step hs hj
    obtain ⟨pc2, h2, l2⟩ := stops_mono_run as hr' h1
    exact ⟨pc2, h2, Nat.le_trans l2 l1⟩

theorem gstops_mono_run {g f : Bool} {k : Nat} : ∀ (as : List Act) {s s' : St} {pc : WPc},
    run g f s as = some s' → s.gstops[k]? = some pc → ∃ pc', s'.gstops[k]? = some pc' ∧ pc'.rank ≤ pc.rank
  | [], s, s', pc, hr, hk => by simp [run] at hr; subst hr; exact ⟨pc, hk, Nat.le_refl _⟩
  | a :: as, s, s', pc, hr, hk => by
    obtain ⟨s1, hs, hr'⟩ := run_cons.mp hr
    obtain ⟨pc1, h1, l1⟩ := gstops_mono_step hs hk
    obtain ⟨pc2, h2, l2⟩ := gstops_mono_run as hr' h1
    exact ⟨pc2, h2, Nat.le_trans l2 l1⟩

/-- a Stop call that has returned has returned -/
theorem stop_returned_stable {g f : Bool} (as : List Act) {s s' : St} (hr : run g f s as = some s')
    {j : Nat} (hj : s.stops[j]? = some .returned) : s'.stops[j]? = some .returned := by
  obtain ⟨pc', h, l⟩ := stops_mono_run as hr hj
  cases pc' <;> simp_all [WPc.rank]

theorem gs_returned_stable {g f : Bool} (as : List Act) {s s' : St} (hr : run g f s as = some s')
    {k : Nat} (hk : s.gstops[k]? = some .returned) : s'.gstops[k]? = some .returned := by
  obtain ⟨pc', h, l⟩ := gstops_mono_run as hr hk
  cases pc' <;> simp_all [WPc.rank]

/-- the call is past its critical section -/
def Passed (l : List WPc) (j : Nat) : Prop := l[j]? = some .waiting ∨ l[j]? = some .returned

theorem passed_of_rank {l : List WPc} {j : Nat} {pc : WPc} (h : l[j]? = some pc) (hl : pc.rank ≤ 1) :
    Passed l j := by
  cases pc
  · simp [WPc.rank] at hl
  · exact Or.inl h
  · exact Or.inr h

theorem stop_passed_stable {g f : Bool} (as : List Act) {s s' : St} (hr : run g f s as = some s')
    {j : Nat} (hj : Passed s.stops j) : Passed s'.stops j := by
  rcases hj with hj | hj <;>
  · obtain ⟨pc', h, l⟩ := stops_mono_run as hr hj
    exact passed_of_rank h (Nat.le_trans l (by simp [WPc.rank]))

theorem gs_passed_stable {g f : Bool} (as : List Act) {s s' : St} (hr : run g f s as = some s')
    {k : Nat} (hk : Passed s.gstops k) : Passed s'.gstops k := by
  rcases hk with hk | hk <;>
  · obtain ⟨pc', h, l⟩ := gstops_mono_run as hr hk
    exact passed_of_rank h (Nat.le_trans l (by simp [WPc.rank]))

/-! ### 2. Stop returns only after every admitted Serve call, and nobody is admitted afterwards -/

/-- **2.** In every reachable state in which some Stop call has `returned`: every Serve call is
    `start`, `opened`, `failedOpen`, `refused` or `returned` — none is running (`serving` /
    `ended`) — and this stays so for ever: whatever happens next (any extension `as'` of the
    schedule), no Serve call is `serving` or `ended`.  Nobody is admitted after a `Stop` has
    returned. -/
theorem stop_returns_only_after_serves (n a b : Nat) (as : List Act) {s : St}
    (hr : run true false (init n a b) as = some s) {j : Nat} (hj : s.stops[j]? = some .returned) :
    (∀ (i : Nat) (x : Serve), s.serves[i]? = some x →
        x.pc = .start ∨ x.pc = .opened ∨ x.pc = .failedOpen ∨ x.pc = .refused ∨ x.pc = .returned) ∧
    (∀ (as' : List Act) (s' : St), run true false s as' = some s' →
        ∀ (i : Nat) (x : Serve), s'.serves[i]? = some x → x.pc ≠ .serving ∧ x.pc ≠ .ended) := by
  have later : ∀ (as' : List Act) (s' : St), run true false s as' = some s' →
      ∀ (i : Nat) (x : Serve), s'.serves[i]? = some x → x.pc ≠ .serving ∧ x.pc ≠ .ended := by
    intro as' s' hr' i x hi
    have I' : Inv s' := inv_reachable n a b (as ++ as') ((run_append as as').mpr ⟨s, hr, hr'⟩)
    have hrun := I'.idle_of_wg (I'.stop_ret j (stop_returned_stable as' hr' hj)) hi
    constructor <;> intro e <;> simp [e, SPc.running] at hrun
  refine ⟨?_, later⟩
  intro i x hi
  have I := inv_reachable n a b as hr
  have h1 := later [] s rfl i x hi
  have h2 := I.no_checked i x hi
  cases hpc : x.pc <;> simp_all

/-- the same for GracefulStop: once one has returned, no Serve call is running, now or later -/
theorem gracefulStop_returns_only_after_serves (n a b : Nat) (as : List Act) {s : St}
    (hr : run true false (init n a b) as = some s) {k : Nat} (hk : s.gstops[k]? = some .returned) :
    ∀ (as' : List Act) (s' : St), run true false s as' = some s' →
      ∀ (i : Nat) (x : Serve), s'.serves[i]? = some x → x.pc ≠ .serving ∧ x.pc ≠ .ended := by
  intro as' s' hr' i x hi
  have I' : Inv s' := inv_reachable n a b (as ++ as') ((run_append as as').mpr ⟨s, hr, hr'⟩)
  have hrun := I'.idle_of_wg (I'.gs_ret k (gs_returned_stable as' hr' hk)) hi
  constructor <;> intro e <;> simp [e, SPc.running] at hrun

/-! ### 3. No admission after shutdown -/

/-- one step of the correct `addInstance` (any Stop variant), from ANY state: shut down and
    "Serve `i` is not `serving`" are preserved together -/
theorem shut_not_serving_step {f : Bool} {i : Nat} {s s' : St} {a : Act}
    (hs : step true f s a = some s')
    (h : s.state ≠ .active ∧ ∀ x, s.serves[i]? = some x → x.pc ≠ .serving) :
    s'.state ≠ .active ∧ ∀ x, s'.serves[i]? = some x → x.pc ≠ .serving := by
  obtain ⟨hst, hi⟩ := h
  refine ⟨shut_stable [a] (run_cons.mpr ⟨s', hs, rfl⟩) hst, ?_⟩
  intro y hy
  cases step_spec hs with
  | admitOk i' p _ _ ha => exact absurd ha hst
  | check i' p hg _ => cases hg
  | add i' p hg _ => cases hg
  | peerHangup i' h =>
    rcases get_set hy with ⟨e, _⟩ | ⟨_, hy'⟩
    · subst e; exact absurd rfl (hi _ h)
    · exact hi y hy'
  | openTunnel i' ok p h =>
    rcases get_set hy with ⟨_, e⟩ | ⟨_, hy'⟩
    · subst e; cases ok <;> simp
    · exact hi y hy'
  | admitRefused i' p _ h _ =>
    rcases get_set hy with ⟨_, e⟩ | ⟨_, hy'⟩
    · subst e; simp
    · exact hi y hy'
  | tunnelEnds i' p h _ =>
    rcases get_set hy with ⟨_, e⟩ | ⟨_, hy'⟩
    · subst e; simp
    · exact hi y hy'
  | wgDone i' p h =>
    rcases get_set hy with ⟨_, e⟩ | ⟨_, hy'⟩
    · subst e; simp
    · exact hi y hy'
  | _ => exact hi y hy

/-- **3.** Once `state ≥ closing` — after any `stopCS` or `gsCS` that changed it — a Serve call
    that is not `serving` at that point never becomes `serving`.  (Holds from ANY state of the
    model with the locked `addInstance`, reachable or not, and for both Stop variants; the
    reachable-state reading of the brief is the instance `s = ` the state after a schedule.) -/
theorem no_admission_after_shutdown {f : Bool} {s : St} (hshut : s.state ≠ .active)
    {i : Nat} (hi : ∀ x, s.serves[i]? = some x → x.pc ≠ .serving)
    (as' : List Act) {s' : St} (hr' : run true f s as' = some s') :
    ∀ y, s'.serves[i]? = some y → y.pc ≠ .serving :=
  (run_preserves (P := fun s => s.state ≠ .active ∧ ∀ x, s.serves[i]? = some x → x.pc ≠ .serving)
    shut_not_serving_step as' hr' ⟨hshut, hi⟩).2

/-- … in the words of the brief, for reachable states -/
theorem no_admission_after_shutdown' (n a b : Nat) (as : List Act) {s : St}
    (_hr : run true false (init n a b) as = some s) (hshut : s.state ≠ .active)
    {i : Nat} {x : Serve} (hi : s.serves[i]? = some x) (hx : x.pc ≠ .serving)
    (as' : List Act) {s' : St} (hr' : run true false s as' = some s') :
    ∀ y, s'.serves[i]? = some y → y.pc ≠ .serving :=
  no_admission_after_shutdown hshut (fun x' hx' => by rw [hi] at hx'; cases hx'; exact hx) as' hr'

/-- … and every later `enroll` refuses: it returns (false, Unavailable) -/
theorem admit_refuses_after_shutdown {f : Bool} {s s' : St} {i : Nat} (hshut : s.state ≠ .active)
    (hs : step true f s (.enroll i) = some s') :
    ∃ p, s'.serves[i]? = some ⟨.refused, p⟩ ∧ s'.wg = s.wg ∧ s'.instances = s.instances := by
  cases step_spec hs with
  | admitOk i p _ _ ha => exact absurd ha hshut
  | admitRefused i p _ h _ => exact ⟨p, get_set_self h, rfl, rfl⟩

/-! ### 4. Stop cannot hang by itself -/

/-- Once a Stop call is past its critical section, every running Serve call can take its next
    step ON ITS OWN: a `serving` one has been hung up, so `tunnelEnds` is enabled (no
    `peerHangup` needed); an `ended` one can run its `wg.Done()`. -/
theorem stop_ends_every_tunnel (n a b : Nat) (as : List Act) {s : St}
    (hr : run true false (init n a b) as = some s) {j : Nat} (hj : Passed s.stops j)
    {i : Nat} {x : Serve} (hi : s.serves[i]? = some x) (hrun : x.pc.running = true) :
    (x.pc = .serving ∧ (step true false s (.tunnelEnds i)).isSome) ∨
    (x.pc = .ended ∧ (step true false s (.wgDone i)).isSome) := by
  have I := inv_reachable n a b as hr
  have hc : s.state = .closed := by
    rcases hj with hj | hj
    · exact I.stop_closed j _ hj (by intro h; cases h)
    · exact I.stop_closed j _ hj (by intro h; cases h)
  obtain ⟨pc, p⟩ := x
  cases pc <;> simp [SPc.running] at hrun
  · left
    have hu : i ∈ s.hungUp := I.closed_serving_hung hc hi
    refine ⟨rfl, ?_⟩
    simp [step, hi, hu]
  · right
    refine ⟨rfl, ?_⟩
    simp [step, hi]

/-- **4.** In every reachable state in which some Stop call is `waiting` and some Serve call is
    still running (`serving` / `ended`), an action OTHER than `peerHangup` and other than an action
    of a call still in `start` / `opened` is enabled: a `tunnelEnds` or a `wgDone`. -/
theorem stop_makes_progress (n a b : Nat) (as : List Act) {s : St}
    (hr : run true false (init n a b) as = some s) {j : Nat} (hj : s.stops[j]? = some .waiting)
    (hrun : ∃ (i : Nat) (x : Serve), s.serves[i]? = some x ∧ x.pc.running = true) :
    ∃ (i : Nat) (act : Act), (act = .tunnelEnds i ∨ act = .wgDone i) ∧ (step true false s act).isSome := by
  obtain ⟨i, x, hi, hx⟩ := hrun
  rcases stop_ends_every_tunnel n a b as hr (Or.inl hj) hi hx with ⟨_, h⟩ | ⟨_, h⟩
  · exact ⟨i, _, Or.inl rfl, h⟩
  · exact ⟨i, _, Or.inr rfl, h⟩

/-- … and when no Serve call is running any more, the Stop call itself can return -/
theorem stop_returns_when_drained (n a b : Nat) (as : List Act) {s : St}
    (hr : run true false (init n a b) as = some s) {j : Nat} (hj : s.stops[j]? = some .waiting)
    (hidle : ∀ (i : Nat) (x : Serve), s.serves[i]? = some x → x.pc.running = false) :
    (step true false s (.stopWait j)).isSome := by
  have I := inv_reachable n a b as hr
  have hw : s.wg = 0 := by rw [I.wg_count]; exact nRunning_eq_zero hidle
  simp [step, hj, hw]

/-- together: a `waiting` Stop call is never stuck — without any help from the peer and without
    any new Serve call, something that brings it closer to returning is enabled -/
theorem stop_never_stuck (n a b : Nat) (as : List Act) {s : St}
    (hr : run true false (init n a b) as = some s) {j : Nat} (hj : s.stops[j]? = some .waiting) :
    ∃ act : Act, ((∃ i, act = .tunnelEnds i ∨ act = .wgDone i) ∨ act = .stopWait j) ∧
      (step true false s act).isSome := by
  by_cases hrun : ∃ (i : Nat) (x : Serve), s.serves[i]? = some x ∧ x.pc.running = true
  · obtain ⟨i, act, h, he⟩ := stop_makes_progress n a b as hr hj hrun
    exact ⟨act, Or.inl ⟨i, h⟩, he⟩
  · refine ⟨.stopWait j, Or.inr rfl, stop_returns_when_drained n a b as hr hj ?_⟩
    intro i x hi
    cases h : x.pc.running with
    | false => rfl
    | true => exact absurd ⟨i, x, hi, h⟩ hrun

/-- hence, in a reachable state in which none of these actions is enabled (in particular in a
    state where NOTHING is enabled: the end of a maximal schedule), every Stop call that went
    through its critical section has returned -/
theorem stop_returned_at_quiescence (n a b : Nat) (as : List Act) {s : St}
    (hr : run true false (init n a b) as = some s) {j : Nat} (hj : Passed s.stops j)
    (hq : ∀ i, step true false s (.tunnelEnds i) = none ∧ step true false s (.wgDone i) = none)
    (hq' : step true false s (.stopWait j) = none) : s.stops[j]? = some .returned := by
  rcases hj with hj | hj
  · obtain ⟨act, h, he⟩ := stop_never_stuck n a b as hr hj
    rcases h with ⟨i, rfl | rfl⟩ | rfl
    · rw [(hq i).1] at he; cases he
    · rw [(hq i).2] at he; cases he
    · rw [hq'] at he; cases he
  · exact hj

/-! ### Termination: every schedule is finite (all variants of the model) -/

theorem totalS_set_lt : ∀ {l : List Serve} {i : Nat} {x x' : Serve}, l[i]? = some x → x'.rank < x.rank →
    totalS (l.set i x') < totalS l
  | [], _, _, _, h, _ => by cases h
  | y :: r, 0, x, x', h, hlt => by
    simp only [List.getElem?_cons_zero, Option.some.injEq] at h
    subst h
    simp only [List.set_cons_zero, totalS]
    omega
  | y :: r, i + 1, x, x', h, hlt => by
    simp only [List.getElem?_cons_succ] at h
    have := totalS_set_lt h hlt
    simp only [List.set_cons_succ, totalS]
    omega

theorem totalW_set_lt : ∀ {l : List WPc} {i : Nat} {x x' : WPc}, l[i]? = some x → x'.rank < x.rank →
    totalW (l.set i x') < totalW l
  | [], _, _, _, h, _ => by cases h
  | y :: r, 0, x, x', h, hlt => by
    simp only [List.getElem?_cons_zero, Option.some.injEq] at h
    subst h
    simp only [List.set_cons_zero, totalW]
    omega
  | y :: r, i + 1, x, x', h, hlt => by
    simp only [List.getElem?_cons_succ] at h
    have := totalW_set_lt h hlt
    simp only [List.set_cons_succ, totalW]
    omega

/-- every action uses up at least one unit of `remaining` -/
theorem remaining_step {g f : Bool} {s s' : St} {a : Act} (hs : step g f s a = some s') :
    remaining s' < remaining s := by
  have S : ∀ {i : Nat} {x x' : Serve}, s.serves[i]? = some x → x'.rank < x.rank →
      totalS (s.serves.set i x') + totalW s.stops + totalW s.gstops < remaining s := by
    intro i x x' h hlt
    have := totalS_set_lt h hlt
    unfold remaining
    omega
  have W1 : ∀ {i : Nat} {x x' : WPc}, s.stops[i]? = some x → x'.rank < x.rank →
      totalS s.serves + totalW (s.stops.set i x') + totalW s.gstops < remaining s := by
    intro i x x' h hlt
    have := totalW_set_lt h hlt
    unfold remaining
    omega
  have W2 : ∀ {i : Nat} {x x' : WPc}, s.gstops[i]? = some x → x'.rank < x.rank →
      totalS s.serves + totalW s.stops + totalW (s.gstops.set i x') < remaining s := by
    intro i x x' h hlt
    have := totalW_set_lt h hlt
    unfold remaining
    omega
  cases step_spec hs with
  | openTunnel i ok p h => exact S h (by cases ok <;> cases p <;> simp [Serve.rank, SPc.rank])
  | admitOk i p _ h _ => exact S h (by cases p <;> simp [Serve.rank, SPc.rank])
  | admitRefused i p _ h _ => exact S h (by cases p <;> simp [Serve.rank, SPc.rank])
  | check i p _ h =>
    exact S h (by cases p <;> cases hst : s.state <;> simp [Serve.rank, SPc.rank])
  | add i p _ h => exact S h (by cases p <;> simp [Serve.rank, SPc.rank])
  | peerHangup i h => exact S h (by simp [Serve.rank, SPc.rank])
  | tunnelEnds i p h _ => exact S h (by cases p <;> simp [Serve.rank, SPc.rank])
  | wgDone i p h => exact S h (by cases p <;> simp [Serve.rank, SPc.rank])
  | stopSkip j h _ => exact W1 h (by simp [WPc.rank])
  | stopClose j h _ => exact W1 h (by simp [WPc.rank])
  | stopWait j h _ => exact W1 h (by simp [WPc.rank])
  | gsCS k h => exact W2 h (by simp [WPc.rank])
  | gsWait k h _ => exact W2 h (by simp [WPc.rank])

theorem run_remaining {g f : Bool} : ∀ (as : List Act) {s s' : St}, run g f s as = some s' →
    as.length + remaining s' ≤ remaining s
  | [], s, s', hr => by simp [run] at hr; subst hr; simp
  | a :: as, s, s', hr => by
    obtain ⟨s1, hs, hr'⟩ := run_cons.mp hr
    have := run_remaining as hr'
    have := remaining_step hs
    simp only [List.length_cons]
    omega

theorem totalS_init : ∀ (n : Nat), totalS (List.replicate n (⟨.start, false⟩ : Serve)) = 6 * n
  | 0 => rfl
  | n + 1 => by
    simp only [List.replicate_succ, totalS, totalS_init n, Serve.rank, SPc.rank, Bool.false_eq_true, if_false]
    omega

theorem totalW_init : ∀ (n : Nat), totalW (List.replicate n WPc.start) = 2 * n
  | 0 => rfl
  | n + 1 => by
    simp only [List.replicate_succ, totalW, totalW_init n, WPc.rank]
    omega

/-- **4 (termination).** `remaining` — the number of actions the calls and the peers can still
    perform — decreases with every action, so a schedule has at most `6n + 2a + 2b` actions:
    a Serve call 5 (`openTunnel`, `check`, `add`, `tunnelEnds`, `wgDone`; 4 in the correct model)
    plus its `peerHangup`, a Stop / GracefulStop call 2.  With `stop_never_stuck`: a Stop call
    past its critical section returns after finitely many steps of any schedule that does not
    starve `tunnelEnds` / `wgDone` / `stopWait`. -/
theorem schedule_bounded {g f : Bool} (n a b : Nat) (as : List Act) {s : St}
    (hr : run g f (init n a b) as = some s) : as.length + remaining s ≤ 6 * n + 2 * a + 2 * b := by
  have := run_remaining as hr
  have h : remaining (init n a b) = 6 * n + 2 * a + 2 * b := by
    simp only [remaining, init, totalS_init, totalW_init]
  omega

/-! ### 5. GracefulStop returns iff drained — and waits for the PEER (finding D9) -/

/-- `wg.Wait()` returns iff the counter is zero (all variants) -/
theorem gsWait_enabled_iff {g f : Bool} {s : St} {k : Nat} (hk : s.gstops[k]? = some .waiting) :
    (step g f s (.gsWait k)).isSome ↔ s.wg = 0 := by
  by_cases h : s.wg = 0 <;> simp [step, hk, h]

theorem stopWait_enabled_iff {g f : Bool} {s : St} {j : Nat} (hj : s.stops[j]? = some .waiting) :
    (step g f s (.stopWait j)).isSome ↔ s.wg = 0 := by
  by_cases h : s.wg = 0 <;> simp [step, hj, h]

/-- only `gsWait k` makes GracefulStop `k` `returned` -/
theorem gs_returned_step {g f : Bool} {s s' : St} {a : Act} (hs : step g f s a = some s') {k : Nat}
    (h0 : s.gstops[k]? ≠ some .returned) (h1 : s'.gstops[k]? = some .returned) : a = .gsWait k := by
  cases step_spec hs with
  | gsCS k' h =>
    rcases get_set h1 with ⟨_, e⟩ | ⟨_, h'⟩
    · cases e
    · exact absurd h' h0
  | gsWait k' h _ =>
    rcases get_set h1 with ⟨e, _⟩ | ⟨_, h'⟩
    · rw [e]
    · exact absurd h' h0
  | _ => exact absurd h1 h0

/-- a `returned` GracefulStop went through its `gsWait` -/
theorem gs_returned_has_gsWait {g f : Bool} {k : Nat} : ∀ (as : List Act) {s s' : St},
    run g f s as = some s' → s.gstops[k]? ≠ some .returned → s'.gstops[k]? = some .returned →
    ∃ as1 as2, as = as1 ++ .gsWait k :: as2
  | [], s, s', hr, h0, h1 => by simp [run] at hr; subst hr; exact absurd h1 h0
  | a :: as, s, s', hr, h0, h1 => by
    obtain ⟨s1, hs, hr'⟩ := run_cons.mp hr
    by_cases hk : s1.gstops[k]? = some .returned
    · exact ⟨[], as, by rw [gs_returned_step hs h0 hk]; rfl⟩
    · obtain ⟨as1, as2, e⟩ := gs_returned_has_gsWait as hr' hk h1
      exact ⟨a :: as1, as2, by rw [e]; rfl⟩

/-- the state in which a `gsWait k` is taken, in a run from the initial state of the correct
    model: the counter is zero, nobody is running, and the server is shut down — so nobody will
    ever be running again (`gracefulStop_returns_only_after_serves`) -/
theorem drained_at_gsWait (n a b : Nat) (as1 as2 : List Act) {k : Nat} {s : St}
    (hr : run true false (init n a b) (as1 ++ .gsWait k :: as2) = some s) :
    ∃ s1, run true false (init n a b) as1 = some s1 ∧ s1.gstops[k]? = some .waiting ∧ s1.wg = 0 ∧
      s1.state ≠ .active ∧ ∀ (i : Nat) (x : Serve), s1.serves[i]? = some x → x.pc.running = false := by
  obtain ⟨s1, hr1, hr2⟩ := (run_append _ _).mp hr
  obtain ⟨s2, hs, _⟩ := run_cons.mp hr2
  have I := inv_reachable n a b as1 hr1
  refine ⟨s1, hr1, ?_⟩
  cases step_spec hs with
  | gsWait k h hw =>
    exact ⟨h, hw, I.gs_shut k _ h (by intro e; cases e), fun i x hi => I.idle_of_wg hw hi⟩

/-- **5a.** A GracefulStop call is `returned` only if the schedule contains its `gsWait`, and in
    the state in which that `gsWait` was taken `wg = 0` held (no Serve call `serving` / `ended`,
    server shut down); it still holds now.  While the call is `waiting`, its `gsWait` is enabled
    IFF `wg = 0` IFF no Serve call is `serving` / `ended`. -/
theorem gracefulStop_returns_iff_drained (n a b : Nat) (as : List Act) {s : St}
    (hr : run true false (init n a b) as = some s) {k : Nat} :
    (s.gstops[k]? = some .returned →
      (∃ as1 as2 s1, as = as1 ++ .gsWait k :: as2 ∧ run true false (init n a b) as1 = some s1 ∧
        s1.wg = 0 ∧ s1.state ≠ .active ∧
        ∀ (i : Nat) (x : Serve), s1.serves[i]? = some x → x.pc.running = false) ∧
      s.wg = 0 ∧ s.state ≠ .active ∧
      ∀ (i : Nat) (x : Serve), s.serves[i]? = some x → x.pc.running = false) ∧
    (s.gstops[k]? = some .waiting →
      ((step true false s (.gsWait k)).isSome ↔ s.wg = 0) ∧
      (s.wg = 0 ↔ ∀ (i : Nat) (x : Serve), s.serves[i]? = some x → x.pc.running = false)) := by
  have I := inv_reachable n a b as hr
  constructor
  · intro hk
    have h0 : (init n a b).gstops[k]? ≠ some .returned := by
      simp only [init, List.getElem?_replicate]
      split <;> simp
    obtain ⟨as1, as2, e⟩ := gs_returned_has_gsWait as hr h0 hk
    subst e
    obtain ⟨s1, hr1, _, hw1, hs1, hi1⟩ := drained_at_gsWait n a b as1 as2 hr
    have hw := I.gs_ret k hk
    exact ⟨⟨as1, as2, s1, rfl, hr1, hw1, hs1, hi1⟩, hw, I.gs_shut k _ hk (by intro e; cases e),
      fun i x hi => I.idle_of_wg hw hi⟩
  · intro hk
    refine ⟨gsWait_enabled_iff hk, ?_, ?_⟩
    · intro hw i x hi; exact I.idle_of_wg hw hi
    · intro h; rw [I.wg_count]; exact nRunning_eq_zero h

theorem get_set_other {α : Type} {l : List α} {i i' : Nat} {x y z : α} (hi : l[i]? = some x)
    (hi' : l[i']? = some y) (hne : x ≠ y) : (l.set i' z)[i]? = some x := by
  have : i' ≠ i := by
    intro e; subst e; rw [hi] at hi'; cases hi'; exact hne rfl
  rw [List.getElem?_set_ne this]; exact hi

/-- one step of the blocked configuration: `closing`, GracefulStop `k` `waiting`, Serve `i`
    `serving` with a silent peer.  Every action other than `peerHangup i` and a `stopCS`
    leaves it as it is. -/
theorem gracefulStop_blocked_step {s s' : St} {act : Act} (I : Inv s)
    (hs : step true false s act = some s') {k i : Nat}
    (h : s.state = .closing ∧ s.gstops[k]? = some .waiting ∧ s.serves[i]? = some ⟨.serving, false⟩)
    (ha : act ≠ .peerHangup i) (ha' : ∀ j, act ≠ .stopCS j) :
    s'.state = .closing ∧ s'.gstops[k]? = some .waiting ∧ s'.serves[i]? = some ⟨.serving, false⟩ := by
  obtain ⟨hst, hk, hi⟩ := h
  cases step_spec hs with
  | openTunnel i' ok p h => exact ⟨hst, hk, get_set_other hi h (by simp)⟩
  | admitOk i' p _ _ hact => rw [hst] at hact; cases hact
  | admitRefused i' p _ h _ => exact ⟨hst, hk, get_set_other hi h (by simp)⟩
  | check i' p hg _ => cases hg
  | add i' p hg _ => cases hg
  | peerHangup i' h =>
    have : i' ≠ i := fun e => ha (by rw [e])
    exact ⟨hst, hk, by rw [List.getElem?_set_ne this]; exact hi⟩
  | tunnelEnds i' p h hu =>
    have : i' ≠ i := by
      intro e
      subst e
      rw [hi] at h
      cases h
      rcases hu with hu | hu
      · cases hu
      · have := I.hung_closed _ hu
        rw [hst] at this; cases this
    exact ⟨hst, hk, by rw [List.getElem?_set_ne this]; exact hi⟩
  | wgDone i' p h => exact ⟨hst, hk, get_set_other hi h (by simp)⟩
  | stopSkip j _ _ => exact absurd rfl (ha' j)
  | stopClose j _ _ => exact absurd rfl (ha' j)
  | stopWait j _ _ => exact ⟨hst, hk, hi⟩
  | gsCS k' h =>
    refine ⟨?_, get_set_other hk h (by simp), hi⟩
    simp [hst]
  | gsWait k' h hw =>
    have := nRunning_pos hi rfl
    have := I.wg_count
    omega

/-- **5b (finding D9, general form).** In a reachable state of the correct model in which the
    server is `closing` (a GracefulStop, no Stop), GracefulStop `k` is `waiting` and Serve `i` is
    `serving` a tunnel whose peer is silent: as long as the schedule contains neither
    `peerHangup i` nor a `stopCS`, NOTHING ends that tunnel and GracefulStop `k` stays `waiting`
    — whatever else happens, for ever.  GracefulStop does not close idle tunnels; it waits until
    the PEER does. -/
theorem gracefulStop_blocked_until_peer_or_stop (n a b : Nat) (as : List Act) {s : St}
    (hr : run true false (init n a b) as = some s) {k i : Nat}
    (hst : s.state = .closing) (hk : s.gstops[k]? = some .waiting)
    (hi : s.serves[i]? = some ⟨.serving, false⟩) :
    ∀ (as' : List Act) (s' : St), run true false s as' = some s' →
      (∀ act ∈ as', act ≠ .peerHangup i ∧ ∀ j, act ≠ .stopCS j) →
      s'.state = .closing ∧ s'.gstops[k]? = some .waiting ∧ s'.serves[i]? = some ⟨.serving, false⟩ ∧
      step true false s' (.gsWait k) = none ∧ step true false s' (.tunnelEnds i) = none := by
  have gen : ∀ (as' : List Act) (s s' : St), Inv s → run true false s as' = some s' →
      (∀ act ∈ as', act ≠ .peerHangup i ∧ ∀ j, act ≠ .stopCS j) →
      (s.state = .closing ∧ s.gstops[k]? = some .waiting ∧ s.serves[i]? = some ⟨.serving, false⟩) →
      Inv s' ∧ s'.state = .closing ∧ s'.gstops[k]? = some .waiting ∧
        s'.serves[i]? = some ⟨.serving, false⟩ := by
    intro as'
    induction as' with
    | nil => intro s s' I hr' _ h; simp [run] at hr'; subst hr'; exact ⟨I, h⟩
    | cons act as' ih =>
      intro s s' I hr' hall h
      obtain ⟨s1, hs, hr''⟩ := run_cons.mp hr'
      have hact := hall act List.mem_cons_self
      exact ih s1 s' (inv_step I hs) hr'' (fun x hx => hall x (List.mem_cons_of_mem _ hx))
        (gracefulStop_blocked_step I hs h hact.1 hact.2)
  intro as' s' hr' hall
  obtain ⟨I', hst', hk', hi'⟩ := gen as' s s' (inv_reachable n a b as hr) hr' hall ⟨hst, hk, hi⟩
  refine ⟨hst', hk', hi', ?_, ?_⟩
  · have := nRunning_pos hi' rfl
    have hw : s'.wg ≠ 0 := by rw [I'.wg_count]; omega
    simp [step, hk', hw]
  · have hu : i ∉ s'.hungUp := by
      intro hu
      have := I'.hung_closed _ hu
      rw [hst'] at this; cases this
    simp [step, hi', hu]

/-! ### 6. Stop after GracefulStop -/

/-- Stop `j` and GracefulStop `k` are both past their critical sections (in either order):
    `closed`, every instance hung up — so every tunnel still `serving` ends on its own —, each of
    the two is `returned` only when `wg = 0`, and once `wg = 0` each of them can return. -/
theorem stop_and_gracefulStop (n a b : Nat) (as : List Act) {s : St}
    (hr : run true false (init n a b) as = some s) {j k : Nat}
    (hj : Passed s.stops j) (_hk : Passed s.gstops k) :
    s.state = .closed ∧ (∀ i ∈ s.instances, i ∈ s.hungUp) ∧
    (∀ (i : Nat) (p : Bool), s.serves[i]? = some ⟨.serving, p⟩ →
      (step true false s (.tunnelEnds i)).isSome) ∧
    (s.stops[j]? = some .returned → s.wg = 0) ∧ (s.gstops[k]? = some .returned → s.wg = 0) ∧
    (s.wg = 0 → (s.stops[j]? = some .waiting → (step true false s (.stopWait j)).isSome) ∧
                (s.gstops[k]? = some .waiting → (step true false s (.gsWait k)).isSome)) := by
  have I := inv_reachable n a b as hr
  have hc : s.state = .closed := by
    rcases hj with hj | hj
    · exact I.stop_closed j _ hj (by intro h; cases h)
    · exact I.stop_closed j _ hj (by intro h; cases h)
  refine ⟨hc, I.closed_hung hc, ?_, I.stop_ret j, I.gs_ret k, ?_⟩
  · intro i p hi
    have hu : i ∈ s.hungUp := I.closed_serving_hung hc hi
    simp [step, hi, hu]
  · intro hw
    exact ⟨fun h => (stopWait_enabled_iff h).mpr hw, fun h => (gsWait_enabled_iff h).mpr hw⟩

/-- **6.** … in the words of the brief: any schedule in which `gsCS k` is followed, some time
    later, by `stopCS j` (the `stopCS` is NOT a no-op after a GracefulStop: `state = closed` and
    all instances are hung up). -/
theorem stop_after_gracefulStop (n a b : Nat) (as1 as2 as3 : List Act) (j k : Nat) {s : St}
    (hr : run true false (init n a b) (as1 ++ .gsCS k :: (as2 ++ .stopCS j :: as3)) = some s) :
    Passed s.stops j ∧ Passed s.gstops k ∧
    s.state = .closed ∧ (∀ i ∈ s.instances, i ∈ s.hungUp) ∧
    (∀ (i : Nat) (p : Bool), s.serves[i]? = some ⟨.serving, p⟩ →
      (step true false s (.tunnelEnds i)).isSome) ∧
    (s.stops[j]? = some .returned → s.wg = 0) ∧ (s.gstops[k]? = some .returned → s.wg = 0) ∧
    (s.wg = 0 → (s.stops[j]? = some .waiting → (step true false s (.stopWait j)).isSome) ∧
                (s.gstops[k]? = some .waiting → (step true false s (.gsWait k)).isSome)) := by
  obtain ⟨s1, _, hr1⟩ := (run_append _ _).mp hr
  obtain ⟨s2, hs2, hr2⟩ := run_cons.mp hr1
  obtain ⟨s3, hr3, hr4⟩ := (run_append _ _).mp hr2
  obtain ⟨s4, hs4, hr5⟩ := run_cons.mp hr4
  have hk2 : Passed s2.gstops k := by
    cases step_spec hs2 with
    | gsCS k h => exact Or.inl (get_set_self h)
  have hj4 : Passed s4.stops j := by
    cases step_spec hs4 with
    | stopSkip j h _ => exact Or.inl (get_set_self h)
    | stopClose j h _ => exact Or.inl (get_set_self h)
  have hk : Passed s.gstops k :=
    gs_passed_stable as3 hr5 (gs_passed_stable [.stopCS j] (run_cons.mpr ⟨s4, hs4, rfl⟩)
      (gs_passed_stable as2 hr3 hk2))
  have hj : Passed s.stops j := stop_passed_stable as3 hr5 hj4
  exact ⟨hj, hk, stop_and_gracefulStop n a b _ hr hj hk⟩

/-! ### The list of enabled actions is complete (all variants) -/

theorem mem_allActs_S {n a b i : Nat} {act : Act} (hi : i < n)
    (h : act ∈ [Act.openTunnel i true, .openTunnel i false, .enroll i, .check i, .add i,
                .peerHangup i, .tunnelEnds i, .wgDone i]) : act ∈ allActs n a b := by
  simp only [allActs, List.mem_append, List.mem_flatMap, List.mem_range]
  exact Or.inl (Or.inl ⟨i, hi, h⟩)

theorem mem_allActs_T {n a b j : Nat} {act : Act} (hj : j < a)
    (h : act ∈ [Act.stopCS j, .stopWait j]) : act ∈ allActs n a b := by
  simp only [allActs, List.mem_append, List.mem_flatMap, List.mem_range]
  exact Or.inl (Or.inr ⟨j, hj, h⟩)

theorem mem_allActs_G {n a b k : Nat} {act : Act} (hk : k < b)
    (h : act ∈ [Act.gsCS k, .gsWait k]) : act ∈ allActs n a b := by
  simp only [allActs, List.mem_append, List.mem_flatMap, List.mem_range]
  exact Or.inr ⟨k, hk, h⟩

theorem mem_allActs_of_step {g f : Bool} {s s' : St} {act : Act} (hs : step g f s act = some s') :
    act ∈ allActs s.serves.length s.stops.length s.gstops.length := by
  cases step_spec hs with
  | openTunnel i ok p h => exact mem_allActs_S (lt_of_get h) (by cases ok <;> simp)
  | admitOk i p _ h _ => exact mem_allActs_S (lt_of_get h) (by simp)
  | admitRefused i p _ h _ => exact mem_allActs_S (lt_of_get h) (by simp)
  | check i p _ h => exact mem_allActs_S (lt_of_get h) (by simp)
  | add i p _ h => exact mem_allActs_S (lt_of_get h) (by simp)
  | peerHangup i h => exact mem_allActs_S (lt_of_get h) (by simp)
  | tunnelEnds i p h _ => exact mem_allActs_S (lt_of_get h) (by simp)
  | wgDone i p h => exact mem_allActs_S (lt_of_get h) (by simp)
  | stopSkip j h _ => exact mem_allActs_T (lt_of_get h) (by simp)
  | stopClose j h _ => exact mem_allActs_T (lt_of_get h) (by simp)
  | stopWait j h _ => exact mem_allActs_T (lt_of_get h) (by simp)
  | gsCS k h => exact mem_allActs_G (lt_of_get h) (by simp)
  | gsWait k h _ => exact mem_allActs_G (lt_of_get h) (by simp)

/-- `enabled g f s` lists ALL the enabled actions of `s` -/
theorem mem_enabled {g f : Bool} {s : St} {act : Act} :
    act ∈ enabled g f s ↔ (step g f s act).isSome := by
  simp only [enabled, List.mem_filter]
  constructor
  · exact fun h => h.2
  · intro h
    obtain ⟨s', hs⟩ := Option.isSome_iff_exists.mp h
    exact ⟨mem_allActs_of_step hs, h⟩

/-! ### Concrete schedules: finding D9, the two seeded faults, non-vacuity -/

/-- what the examples look at -/
structure Obs where
  state : SState
  wg : Nat
  hungUp : List Nat
  serves : List Serve
  stops : List WPc
  gstops : List WPc
  enabled : List Act          -- ALL the enabled actions (`mem_enabled`)
  deriving DecidableEq, Repr

def obs (g f : Bool) (s : St) : Obs :=
  ⟨s.state, s.wg, s.hungUp, s.serves, s.stops, s.gstops, enabled g f s⟩

/-- **5c (finding D9, by `decide`).** One Serve call, one GracefulStop, one Stop.  The tunnel is
    idle (`serving`, nothing in flight, peer silent), GracefulStop is past its critical section and
    `waiting`: the ONLY enabled actions are the peer's hang-up and the critical section of the
    Stop call.  GracefulStop waits until the PEER hangs up idle tunnels. -/
theorem gracefulStop_waits_for_peer :
    (run true false (init 1 1 1) [.openTunnel 0 true, .enroll 0, .gsCS 0]).map (obs true false) =
      some { state := .closing, wg := 1, hungUp := [], serves := [⟨.serving, false⟩],
             stops := [.start], gstops := [.waiting], enabled := [.peerHangup 0, .stopCS 0] } := by
  decide

/-- … and without a Stop call only the peer can end it -/
theorem gracefulStop_waits_for_peer_alone :
    (run true false (init 1 0 1) [.openTunnel 0 true, .enroll 0, .gsCS 0]).map (obs true false) =
      some { state := .closing, wg := 1, hungUp := [], serves := [⟨.serving, false⟩],
             stops := [], gstops := [.waiting], enabled := [.peerHangup 0] } := by
  decide

/-- the peer hangs up: the tunnel ends, GracefulStop returns -/
example :
    (run true false (init 1 0 1) [.openTunnel 0 true, .enroll 0, .gsCS 0, .peerHangup 0, .tunnelEnds 0,
                                  .wgDone 0, .gsWait 0]).map (obs true false) =
      some { state := .closing, wg := 0, hungUp := [], serves := [⟨.returned, true⟩],
             stops := [], gstops := [.returned], enabled := [] } := by
  decide

/-- **7a. The state check and the registration must be ONE critical section.**  With the faulty
    `addInstance` that reads `state` before taking the lock: Serve 0 sees `active`; Stop runs its
    critical section (no instance yet: nothing to hang up) and returns (`wg = 0`); Serve 0 then
    registers.  Stop has `returned`, Serve 0 is `serving`, not hung up — and it stays so: the only
    enabled action is the peer's hang-up.  `stop_returns_only_after_serves` and
    `Inv.closed_hung` fail. -/
theorem faulty_unlocked_check_admits_after_stop :
    (run false false (init 1 1 0) [.openTunnel 0 true, .check 0, .stopCS 0, .stopWait 0, .add 0]).map
        (obs false false) =
      some { state := .closed, wg := 1, hungUp := [], serves := [⟨.serving, false⟩],
             stops := [.returned], gstops := [], enabled := [.peerHangup 0] } := by
  decide

/-- the correct model refuses `check` / `add` … -/
theorem guarded_refuses_check :
    run true false (init 1 1 0) [.openTunnel 0 true, .check 0] = none ∧
    ∀ s, step true false s (.add 0) = none := by
  refine ⟨by decide, fun s => by simp [step]⟩

/-- … and on the same schedule with the one-critical-section `enroll` in the place of `add`,
    Serve 0 is `refused` … -/
theorem guarded_same_schedule_refused :
    (run true false (init 1 1 0) [.openTunnel 0 true, .stopCS 0, .stopWait 0, .enroll 0]).map
        (obs true false) =
      some { state := .closed, wg := 0, hungUp := [], serves := [⟨.refused, false⟩],
             stops := [.returned], gstops := [], enabled := [] } := by
  decide

/-- … or, with `enroll` in the place of `check`, Stop hangs the tunnel up and waits for it -/
theorem guarded_same_schedule_hung_up :
    (run true false (init 1 1 0) [.openTunnel 0 true, .enroll 0, .stopCS 0]).map (obs true false) =
      some { state := .closed, wg := 1, hungUp := [0], serves := [⟨.serving, false⟩],
             stops := [.waiting], gstops := [], enabled := [.peerHangup 0, .tunnelEnds 0] } ∧
    run true false (init 1 1 0) [.openTunnel 0 true, .enroll 0, .stopCS 0, .stopWait 0] = none := by
  decide

/-- **7b. The guard of `Stop` must be `state == closed`, not `state != active`.**  With the
    guard copied from `GracefulStop`: after a GracefulStop, Stop's critical section does nothing
    — no `CloseSend` — and Stop is `waiting` for ever: the only enabled action is the peer's
    hang-up.  `stop_makes_progress` and `stop_after_gracefulStop` fail. -/
theorem faulty_stop_guard_hangs :
    (run true true (init 1 1 1) [.openTunnel 0 true, .enroll 0, .gsCS 0, .stopCS 0]).map (obs true true) =
      some { state := .closing, wg := 1, hungUp := [], serves := [⟨.serving, false⟩],
             stops := [.waiting], gstops := [.waiting], enabled := [.peerHangup 0] } := by
  decide

/-- the correct model on the same schedule: `stopCS` after `gsCS` closes and hangs the instance
    up; the tunnel ends on its own, then Stop and GracefulStop return -/
theorem correct_stop_guard_same_schedule :
    (run true false (init 1 1 1) [.openTunnel 0 true, .enroll 0, .gsCS 0, .stopCS 0]).map (obs true false) =
      some { state := .closed, wg := 1, hungUp := [0], serves := [⟨.serving, false⟩],
             stops := [.waiting], gstops := [.waiting], enabled := [.peerHangup 0, .tunnelEnds 0] } ∧
    (run true false (init 1 1 1) [.openTunnel 0 true, .enroll 0, .gsCS 0, .stopCS 0, .tunnelEnds 0,
                                  .wgDone 0, .stopWait 0, .gsWait 0]).map (obs true false) =
      some { state := .closed, wg := 0, hungUp := [0], serves := [⟨.returned, false⟩],
             stops := [.returned], gstops := [.returned], enabled := [] } := by
  decide

/-- **8.** Non-vacuity: three Serve calls — 0 fails to open, 1 is served and ended by Stop,
    2 comes after the GracefulStop and is refused —, one GracefulStop, one Stop; 11 actions, at
    the end every call has returned and nothing is enabled. -/
def fullRun : List Act :=
  [.openTunnel 0 false, .openTunnel 1 true, .enroll 1, .gsCS 0, .openTunnel 2 true, .enroll 2,
   .stopCS 0, .tunnelEnds 1, .wgDone 1, .stopWait 0, .gsWait 0]

example :
    (run true false (init 3 1 1) fullRun).map (obs true false) =
      some { state := .closed, wg := 0, hungUp := [1],
             serves := [⟨.failedOpen, false⟩, ⟨.returned, false⟩, ⟨.refused, false⟩],
             stops := [.returned], gstops := [.returned], enabled := [] } := by
  decide

example : (run true false (init 3 1 1) fullRun).map allReturned = some true := by decide

/-- the hypotheses of theorems 2 and 4 are satisfiable: a state with Stop `returned`; a state
    with Stop `waiting` and a running Serve call, in which `tunnelEnds 1` is enabled -/
example : (run true false (init 3 1 1) fullRun).bind (·.stops[0]?) = some .returned := by decide

example :
    (run true false (init 3 1 1) (fullRun.take 7)).map (obs true false) =
      some { state := .closed, wg := 1, hungUp := [1],
             serves := [⟨.failedOpen, false⟩, ⟨.serving, false⟩, ⟨.refused, false⟩],
             stops := [.waiting], gstops := [.waiting], enabled := [.peerHangup 1, .tunnelEnds 1] } := by
  decide

/-- nothing happens twice, nobody jumps the queue -/
example : run true false (init 1 1 1) [.enroll 0] = none := by decide
example : run true false (init 1 1 1) [.openTunnel 0 true, .enroll 0, .tunnelEnds 0] = none := by decide
example : run true false (init 1 1 1) [.openTunnel 0 true, .enroll 0, .peerHangup 0, .peerHangup 0] = none := by decide
example : run true false (init 1 1 1) [.openTunnel 0 true, .enroll 0, .stopCS 0, .stopWait 0] = none := by decide
example : run true false (init 1 1 1) [.stopWait 0] = none := by decide
example : run true false (init 1 1 1) [.stopCS 0, .stopCS 0] = none := by decide

end Proofs.LifeAtomic

/-
  `#print axioms` (Lean 4.33.0), theorems 1–6 and the `decide`d ones:

  'Proofs.LifeAtomic.inv_reachable' depends on axioms: [propext, Quot.sound]
  'Proofs.LifeAtomic.state_mono_run' depends on axioms: [propext, Quot.sound]
  'Proofs.LifeAtomic.stop_returns_only_after_serves' depends on axioms: [propext, Quot.sound]
  'Proofs.LifeAtomic.gracefulStop_returns_only_after_serves' depends on axioms: [propext, Quot.sound]
  'Proofs.LifeAtomic.no_admission_after_shutdown' depends on axioms: [propext, Quot.sound]
  'Proofs.LifeAtomic.no_admission_after_shutdown'' depends on axioms: [propext, Quot.sound]
  'Proofs.LifeAtomic.admit_refuses_after_shutdown' depends on axioms: [propext, Quot.sound]
  'Proofs.LifeAtomic.stop_ends_every_tunnel' depends on axioms: [propext, Quot.sound]
  'Proofs.LifeAtomic.stop_makes_progress' depends on axioms: [propext, Quot.sound]
  'Proofs.LifeAtomic.stop_returns_when_drained' depends on axioms: [propext, Quot.sound]
  'Proofs.LifeAtomic.stop_never_stuck' depends on axioms: [propext, Classical.choice, Quot.sound]
  'Proofs.LifeAtomic.stop_returned_at_quiescence' depends on axioms: [propext, Classical.choice, Quot.sound]
  'Proofs.LifeAtomic.schedule_bounded' depends on axioms: [propext, Quot.sound]
  'Proofs.LifeAtomic.gracefulStop_returns_iff_drained' depends on axioms: [propext, Quot.sound]
  'Proofs.LifeAtomic.gracefulStop_blocked_until_peer_or_stop' depends on axioms: [propext, Quot.sound]
  'Proofs.LifeAtomic.gracefulStop_waits_for_peer' depends on axioms: [propext]
  'Proofs.LifeAtomic.stop_and_gracefulStop' depends on axioms: [propext, Quot.sound]
  'Proofs.LifeAtomic.stop_after_gracefulStop' depends on axioms: [propext, Quot.sound]
  'Proofs.LifeAtomic.mem_enabled' depends on axioms: [propext, Quot.sound]
  'Proofs.LifeAtomic.faulty_unlocked_check_admits_after_stop' depends on axioms: [propext]
  'Proofs.LifeAtomic.faulty_stop_guard_hangs' depends on axioms: [propext]
  'Proofs.LifeAtomic.guarded_same_schedule_refused' depends on axioms: [propext]
  'Proofs.LifeAtomic.correct_stop_guard_same_schedule' depends on axioms: [propext]
-/
