import TunnelModel.Generated.Locks
/-!
  Definitions behind C15's discipline obligations (no theorem here, so that
  this module still builds — and its diagnostics can be evaluated — when an
  obligation fails): the protection kinds, the hand-written protections table
  (DESIGN.md appendix G), the receive-loop locks, the lock-order check.
-/
namespace Proofs.C15
open TunnelModel.Generated

/-- how a field is protected -/
inductive Prot where
  | init                                   -- written only while the object is being constructed (before it is shared); read freely
  | mutex (l : String)                     -- every access outside construction holds this mutex
  | atomic                                 -- every access is an atomic method (or construction)
  | lock                                   -- the field is a mutex / wait-group / once / cond: only its own methods are used
  | chan                                   -- channel used only through send / receive / close (creation in construction)
  | callUnder (allowed : List String)
      -- set at construction; the field's value is a callback or a carrier stream whose calls may BLOCK
      -- (a carrier Send, a user callback): it may be invoked only while holding locks from `allowed`
  | published (writers readers : List String)
      -- written only in `writers` (each write ordered before a publication barrier by the
      -- micro-model / code order named in DESIGN.md), read only in `readers` after that barrier
  deriving Repr

/-- functions in which an object is constructed and not yet shared -/
def ctors : List String :=
  ["newTunnelChannel", "serveTunnel", "tunnelServer.createStream", "tunnelChannel.allocateStream",
   "newSender", "newReceiver", "newReceiverWithoutFlowControl", "newSenderWithoutFlowControl",
   "newReverseChannels", "NewTunnelServiceHandler", "NewReverseTunnelServer",
   "pendingChannel.Start", "newReverseChannel", "ReverseTunnelServer.Serve", "TunnelServiceHandler.openTunnel"]

def obeys (p : Prot) (a : Access) : Bool :=
  a.inLiteral ||
  match p with
  | .init => !a.write || ctors.contains a.fn
  | .mutex l => a.held.contains l || (ctors.contains a.fn && (a.how == "plain" || a.how == "call") && a.strct != "tunnelChannel" && a.strct != "tunnelServer")
  | .callUnder allowed => if a.how == "call" then a.held.all allowed.contains else (!a.write || ctors.contains a.fn)
  | .atomic => a.how == "atomic"
  | .lock => a.how == "lockop" || !a.write
  | .chan => a.how == "chan-recv" || a.how == "chan-close" || a.how == "chan-send" || a.how == "chan" || !a.write || a.held != []
  | .published ws rs => if a.write then ws.contains a.fn else (rs.contains a.fn || ws.contains a.fn)

/-- the protections table (DESIGN.md appendix G), keyed by struct and field -/
def protections : List ((String × String) × Prot) := [
  -- tunnelChannel
  (("tunnelChannel", "stream"), .callUnder ["tunnelChannel.streamCreation"]), (("tunnelChannel", "tunnelMetadata"), .init),
  (("tunnelChannel", "serverSendsSettings"), .init), (("tunnelChannel", "tunnelOpts"), .init),
  (("tunnelChannel", "ctx"), .init), (("tunnelChannel", "cancel"), .init), (("tunnelChannel", "tearDown"), .callUnder []),
  (("tunnelChannel", "awaitSettings"), .chan),
  -- written by recvLoop before close(awaitSettings); read by newStream / allocateStream, which run only after
  -- newTunnelChannel returned: behind awaitSettings, or (ctx.Done arm) behind the `finished` check under mu
  (("tunnelChannel", "settings"), .published ["tunnelChannel.recvLoop"] ["tunnelChannel.allocateStream"]),
  (("tunnelChannel", "useRevision"), .published ["tunnelChannel.recvLoop"] ["tunnelChannel.allocateStream", "tunnelChannel.newStream"]),
  (("tunnelChannel", "mu"), .lock), (("tunnelChannel", "streamCreation"), .lock),
  (("tunnelChannel", "streams"), .mutex "tunnelChannel.mu"), (("tunnelChannel", "lastStreamID"), .mutex "tunnelChannel.mu"),
  (("tunnelChannel", "streamCreated"), .mutex "tunnelChannel.mu"), (("tunnelChannel", "err"), .mutex "tunnelChannel.mu"),
  (("tunnelChannel", "finished"), .mutex "tunnelChannel.mu"),
  -- tunnelClientStream
  (("tunnelClientStream", "ctx"), .init), (("tunnelClientStream", "cancel"), .init), (("tunnelClientStream", "ch"), .init),
  (("tunnelClientStream", "streamID"), .init), (("tunnelClientStream", "method"), .init), (("tunnelClientStream", "stream"), .callUnder ["tunnelClientStream.writeMu"]),
  (("tunnelClientStream", "headersTargets"), .init), (("tunnelClientStream", "trailersTargets"), .init),
  (("tunnelClientStream", "isClientStream"), .init), (("tunnelClientStream", "isServerStream"), .init),
  (("tunnelClientStream", "sender"), .init), (("tunnelClientStream", "receiver"), .init),
  (("tunnelClientStream", "gotHeadersSignal"), .chan), (("tunnelClientStream", "doneSignal"), .chan),
  (("tunnelClientStream", "done"), .atomic),
  (("tunnelClientStream", "metaMu"), .lock), (("tunnelClientStream", "readMu"), .lock), (("tunnelClientStream", "writeMu"), .lock),
  (("tunnelClientStream", "gotHeaders"), .mutex "tunnelClientStream.metaMu"),
  -- written under metaMu before close(gotHeadersSignal); read by Header() after receiving from it
  (("tunnelClientStream", "headers"), .published ["tunnelClientStream.acceptServerFrame"] ["tunnelClientStream.Header"]),
  -- written under metaMu before close(doneSignal); read by Trailer() after receiving from it
  (("tunnelClientStream", "trailers"), .published ["tunnelClientStream.finishStream"] ["tunnelClientStream.Trailer"]),
  (("tunnelClientStream", "readErr"), .mutex "tunnelClientStream.readMu"),
  (("tunnelClientStream", "numSent"), .mutex "tunnelClientStream.writeMu"),
  (("tunnelClientStream", "halfClosed"), .mutex "tunnelClientStream.writeMu"),
  -- tunnelServer
  (("tunnelServer", "stream"), .callUnder []), (("tunnelServer", "services"), .init), (("tunnelServer", "clientAcceptsSettings"), .init),
  (("tunnelServer", "tunnelOpts"), .init), (("tunnelServer", "isClosing"), .init),
  (("tunnelServer", "mu"), .lock),
  (("tunnelServer", "streams"), .mutex "tunnelServer.mu"), (("tunnelServer", "lastSeen"), .mutex "tunnelServer.mu"),
  -- tunnelServerStream
  (("tunnelServerStream", "ctx"), .init), (("tunnelServerStream", "cancel"), .init), (("tunnelServerStream", "svr"), .init),
  (("tunnelServerStream", "streamID"), .init), (("tunnelServerStream", "method"), .init), (("tunnelServerStream", "stream"), .callUnder ["tunnelServerStream.writeMu"]),
  (("tunnelServerStream", "isClientStream"), .init), (("tunnelServerStream", "isServerStream"), .init),
  (("tunnelServerStream", "sender"), .init), (("tunnelServerStream", "receiver"), .init),
  (("tunnelServerStream", "halfClosed"), .atomic),
  (("tunnelServerStream", "readMu"), .lock), (("tunnelServerStream", "writeMu"), .lock),
  (("tunnelServerStream", "readErr"), .mutex "tunnelServerStream.readMu"),
  (("tunnelServerStream", "numSent"), .mutex "tunnelServerStream.writeMu"),
  (("tunnelServerStream", "headers"), .mutex "tunnelServerStream.writeMu"),
  (("tunnelServerStream", "trailers"), .mutex "tunnelServerStream.writeMu"),
  (("tunnelServerStream", "sentHeaders"), .mutex "tunnelServerStream.writeMu"),
  (("tunnelServerStream", "closed"), .mutex "tunnelServerStream.writeMu"),
  -- flow control
  (("defaultSender", "ctx"), .init), (("defaultSender", "sendFunc"), .callUnder ["defaultSender.mu"]), (("defaultSender", "windowUpdates"), .chan),
  (("defaultSender", "currentWindow"), .atomic), (("defaultSender", "mu"), .lock),
  (("defaultReceiver", "measure"), .init), (("defaultReceiver", "updateWindow"), .callUnder []),
  (("defaultReceiver", "mu"), .lock), (("defaultReceiver", "cond"), .mutex "defaultReceiver.mu"),
  (("defaultReceiver", "closed"), .mutex "defaultReceiver.mu"), (("defaultReceiver", "cancelled"), .mutex "defaultReceiver.mu"),
  (("defaultReceiver", "items"), .mutex "defaultReceiver.mu"), (("defaultReceiver", "currentWindow"), .mutex "defaultReceiver.mu"),
  (("noFlowControlSender", "sendFunc"), .callUnder ["noFlowControlSender.mu"]), (("noFlowControlSender", "mu"), .lock),
  (("noFlowControlReceiver", "ctx"), .init), (("noFlowControlReceiver", "ingestMu"), .lock),
  (("noFlowControlReceiver", "ch"), .chan), (("noFlowControlReceiver", "closed"), .chan), (("noFlowControlReceiver", "doClose"), .lock),
  -- registry and servers
  (("reverseChannels", "mu"), .lock), (("reverseChannels", "avail"), .mutex "reverseChannels.mu"),
  (("reverseChannels", "chans"), .mutex "reverseChannels.mu"), (("reverseChannels", "idx"), .mutex "reverseChannels.mu"),
  (("TunnelServiceHandler", "handlers"), .init), (("TunnelServiceHandler", "noReverseTunnels"), .init),
  (("TunnelServiceHandler", "onReverseTunnelConnect"), .callUnder []), (("TunnelServiceHandler", "onReverseTunnelDisconnect"), .callUnder []),
  (("TunnelServiceHandler", "affinityKey"), .callUnder []), (("TunnelServiceHandler", "tunnelOpts"), .init),
  (("TunnelServiceHandler", "reverse"), .init), (("TunnelServiceHandler", "mu"), .lock),
  (("TunnelServiceHandler", "reverseByKey"), .mutex "TunnelServiceHandler.mu"),
  -- `stopping.Load` is passed as a method value (an atomic load); the store is atomic
  (("TunnelServiceHandler", "stopping"), .published ["TunnelServiceHandler.InitiateShutdown"] ["TunnelServiceHandler.openTunnel"]),
  (("ReverseTunnelServer", "stub"), .init), (("ReverseTunnelServer", "opts"), .init), (("ReverseTunnelServer", "handlers"), .init),
  (("ReverseTunnelServer", "mu"), .lock), (("ReverseTunnelServer", "wg"), .lock),
  (("ReverseTunnelServer", "instances"), .mutex "ReverseTunnelServer.mu"), (("ReverseTunnelServer", "state"), .mutex "ReverseTunnelServer.mu"),
  -- thread-safe carrier wrappers: the embedded stream is used for sending under sendMu and for receiving under recvMu
  (("threadSafeOpenTunnelClient", "sendMu"), .lock), (("threadSafeOpenTunnelClient", "recvMu"), .lock),
  (("threadSafeOpenTunnelClient", "TunnelService_OpenTunnelClient"), .chan),
  (("threadSafeOpenReverseTunnelServer", "sendMu"), .lock), (("threadSafeOpenReverseTunnelServer", "recvMu"), .lock),
  (("threadSafeOpenReverseTunnelServer", "TunnelService_OpenReverseTunnelServer"), .chan),
  (("threadSafeOpenReverseTunnelClient", "sendMu"), .lock), (("threadSafeOpenReverseTunnelClient", "recvMu"), .lock),
  (("threadSafeOpenReverseTunnelClient", "closed"), .mutex "threadSafeOpenReverseTunnelClient.sendMu"),
  (("threadSafeOpenReverseTunnelClient", "TunnelService_OpenReverseTunnelClient"), .chan),
  (("threadSafeOpenTunnelServer", "sendMu"), .lock), (("threadSafeOpenTunnelServer", "recvMu"), .lock),
  (("threadSafeOpenTunnelServer", "TunnelService_OpenTunnelServer"), .chan)
]

def protOf (a : Access) : Option Prot := protections.lookup (a.strct, a.field)

/-- an access is fine iff its field has a declared protection and the access obeys it -/
def accessOK (a : Access) : Bool :=
  match protOf a with
  | none => false
  | some p => obeys p a

def violations (t : List Access) : List Access := t.filter (fun a => !accessOK a)

/-- the mutexes a tunnel's receive loop acquires while dispatching frames of
    flow-controlled streams (table look-ups, `accept`, header bookkeeping) -/
def loopLocks : List String :=
  ["tunnelServer.mu", "tunnelChannel.mu", "defaultReceiver.mu", "tunnelClientStream.metaMu",
   "reverseChannels.mu", "TunnelServiceHandler.mu", "ReverseTunnelServer.mu"]

/-- the locks under which some potentially blocking call is allowed -/
def blockingAllowed : List String :=
  (protections.filterMap (fun p => match p.2 with | .callUnder l => some l | _ => none)).flatten

/-- rows that make a blocking call while holding a receive-loop lock -/
def blockingViolations (t : List Access) : List Access :=
  t.filter (fun a => a.how == "call" &&
    (match protOf a with | some (.callUnder _) => true | _ => false) && a.held.any loopLocks.contains)

/-- nodes reachable from `n` in at most `fuel` steps -/
def reach (edges : List (String × String)) : Nat → List String → List String
  | 0, front => front
  | fuel + 1, front =>
    let next := (edges.filter (fun e => front.contains e.1)).map (·.2)
    reach edges fuel (front ++ next.filter (fun x => !front.contains x))

/-- no lock is (transitively) acquired while it is already held -/
def acyclic (edges : List (String × String)) : Bool :=
  edges.all (fun e => !(reach edges edges.length [e.2]).contains e.1)


/-! ### the receive loops never perform a blocking send -/

/-- the functions that ARE the receive loops of a tunnel -/
def loopRoots : List String := ["tunnelServer.serve", "tunnelChannel.recvLoop"]

/-- calls that run on the caller's goroutine (a `go` statement starts another one), over function ids -/
def syncEdgesN : List (Nat × Nat) :=
  callEdgesN.filterMap (fun e => if e.2.2 then none else some (e.1, e.2.1))

/-- ids reachable from `front` (breadth first, at most `fuel` rounds; stops at the fixpoint) -/
def reachN (edges : List (Nat × Nat)) : Nat → List Nat → List Nat
  | 0, front => front
  | fuel + 1, front =>
    let next := ((edges.filter (fun e => front.contains e.1)).map (·.2)).filter (fun x => !front.contains x)
    if next.isEmpty then front else reachN edges fuel (front ++ next.eraseDups)

def fnIdOf (n : String) : Option Nat :=
  let i := fnNames.idxOf n
  if i < fnNames.length then some i else none

def loopRootIds : List Nat := loopRoots.filterMap fnIdOf

/-- every function that can run, synchronously, on a receive-loop goroutine
    (calls through interfaces resolved by method name: an over-approximation) -/
def loopFnIds : List Nat := reachN syncEdgesN fnNames.length loopRootIds

def loopFns : List String := loopFnIds.filterMap (fun i => fnNames[i]?)

/-- the fields holding the carrier stream -/
def carrierFields : List (String × String) :=
  [("tunnelServer", "stream"), ("tunnelServerStream", "stream"), ("tunnelChannel", "stream"), ("tunnelClientStream", "stream")]

/-- function-valued fields whose call performs a carrier `Send` -/
def sendingCallbacks : List (String × String) :=
  [("defaultReceiver", "updateWindow"), ("defaultSender", "sendFunc"), ("noFlowControlSender", "sendFunc")]

/-- rows in which a function that can run on a receive-loop goroutine performs,
    on that goroutine, a carrier `Send` (directly or through a sending callback) -/
def loopSendViolations (t : List Access) : List Access :=
  t.filter (fun a => loopFnIds.contains a.fnId && !a.async && a.how == "call" &&
    ((carrierFields.contains (a.strct, a.field) && (a.method == "Send" || a.method == "SendMsg")) ||
     sendingCallbacks.contains (a.strct, a.field)))

/-! ### waiting for other goroutines -/

/-- wait groups: `Wait` blocks until other goroutines are done; it must not be called with a mutex held
    that those goroutines (or anything they wait for) need -/
def waitGroups : List (String × String) := [("ReverseTunnelServer", "wg")]

def lockedWaitViolations (t : List Access) : List Access :=
  t.filter (fun a => waitGroups.contains (a.strct, a.field) && a.how == "call" && a.method == "Wait" && !a.held.isEmpty)

/-! ### wake-ups: the waker must not need a lock the sleeper holds -/

/-- rows that close (or send on) a channel while holding a mutex that some function holds while it WAITS on that
    very channel: the waiter sleeps with the lock, the waker sleeps for the lock — a deadlock.  (The revision-zero
    receiver's `accept` waits on `closed` holding `ingestMu`: `close()` must close `closed` BEFORE it takes `ingestMu`.) -/
def wakeupViolations (t : List Access) : List Access :=
  t.filter (fun a => (a.how == "chan-close" || a.how == "chan-send") &&
    t.any (fun b => b.strct == a.strct && b.field == a.field && b.how == "chan-recv" && b.held.any a.held.contains))

/-- the waits that are made with a lock held at all (so that the obligation is not vacuous) -/
def lockedChanWaits (t : List Access) : List Access :=
  t.filter (fun b => b.how == "chan-recv" && !b.held.isEmpty)

/-! ### atomic operations behind the actions of the L-atomic flow-control model -/

/-- the atomic operations a function performs on a field, in source order, without repetitions -/
def atomicOps (t : List Access) (fn strct field : String) : List String :=
  ((t.filter (fun a => a.fn == fn && a.strct == strct && a.field == field && a.how == "atomic")).map (·.method)).eraseDups

/-! ### one critical section per function (atomicity of check-then-act) -/

/-- is `strct.field` declared as protected by mutex `l`? -/
def protectedBy (l strct field : String) : Bool :=
  match protections.lookup (strct, field) with
  | some (.mutex l') => l' == l
  | _ => false

abbrev SecRow := String × String × Nat × Bool × String × String × Bool   -- fn, lock, section, read-mode, struct, field, write

/-- the rows that touch a field protected by the very lock whose section they sit in -/
def guardedRows (t : List SecRow) : List SecRow :=
  t.filter (fun r => protectedBy r.2.1 r.2.2.2.2.1 r.2.2.2.2.2.1)

/-- (function, lock) pairs in which the function reads or writes the data a lock protects in TWO different
    critical sections of that lock, at least one access being a write: between the sections the lock is
    released, so a check made in the first may be stale when the second acts on it (check-then-act,
    double-checked locking without the second check, a lock "narrowed" around a slow call) -/
def splitSections (t : List SecRow) : List (String × String) :=
  let g := guardedRows t
  ((g.filter (fun r => g.any (fun r' => r'.1 == r.1 && r'.2.1 == r.2.1 && r'.2.2.1 != r.2.2.1 &&
      (r.2.2.2.2.2.2 || r'.2.2.2.2.2.2)))).map (fun r => (r.1, r.2.1))).eraseDups

/-- writes to mutex-protected data made while the lock is held in READ mode only -/
def writesUnderRLock (t : List SecRow) : List SecRow :=
  (guardedRows t).filter (fun r => r.2.2.2.1 && r.2.2.2.2.2.2)

/-! ### stream ids: allocation and `new_stream` under one lock (C08) -/

/-- the rows of `newStream` that send on the carrier, and the writes of `lastStreamID` -/
def newStreamSends (t : List Access) : List Access :=
  t.filter (fun a => a.fn == "tunnelChannel.newStream" && a.strct == "tunnelChannel" && a.field == "stream" && a.how == "call" && a.method == "Send")

def idWrites (t : List Access) : List Access :=
  t.filter (fun a => a.strct == "tunnelChannel" && a.field == "lastStreamID" && a.write)

/-- rows of the two kinds above that do NOT hold `streamCreation` (and, for the id, `mu`) -/
def idOrderViolations (t : List Access) : List Access :=
  (newStreamSends t).filter (fun a => !a.held.contains "tunnelChannel.streamCreation") ++
  (idWrites t).filter (fun a => !(a.held.contains "tunnelChannel.streamCreation" && a.held.contains "tunnelChannel.mu"))

def showAccess (a : Access) : String :=
  s!"{a.strct}.{a.field} in {a.fn}: {if a.write then "write" else "read"} ({a.how}) holding {a.held}"

end Proofs.C15
