import TunnelModel.Lockset
/-!
  # The lockset argument, publication by `close`, publication by `go`

  Theorems about the event model `TunnelModel.Lockset`.

  ## Changes with respect to the requested statements

  NONE of the statements had to be weakened; `holds tr i t l` is kept as
  `holder (tr.take i) l = some t` (the lock is held BEFORE event `i` takes
  effect) and theorem 1 is true with that reading, including the corner case in
  which event `i` is itself the `rel t l` (then the release index is `k = i` and
  the first program-order step is dropped).  Choices made where the request left
  freedom:

  * `HB.po` is stated as `i < j → (tr[i]?).map Ev.tid = some t →
    (tr[j]?).map Ev.tid = some t → HB tr i j` ("both in range, same tid" in the
    shape in which the hypotheses of theorems 1-3 are given).
  * `HB.lock` is exactly the requested edge: ANY earlier `rel _ l` to ANY later
    `acq _ l` (the Go rule "the n-th Unlock is synchronized before the m-th Lock
    for n < m").  Hence no chain through intermediate holders is needed: the
    release by `t` and the (later) acquire by `u` are related by one edge.
  * `WF` for `go t u` additionally requires `t ≠ u` (a goroutine does not start
    itself).  Not used by any theorem here.
  * `Protected` / `conflict` are phrased with `Ev.var?` / `Ev.isWrite`
    (`e.var? = some x` iff `e` is `rd _ x` or `wr _ x`); `Protected tr x` is
    `∃ l, ProtectedBy tr x l` so that the inner part is decidable.
  * Theorem 4 does not need `i ≠ j` (a conflict relates different goroutines,
    hence different events); the hypothesis is kept as requested and a variant
    without it is `race_free_of_discipline'`.

  Extra sanity lemmas: `hb_lt` (happens-before is contained in the trace order,
  hence irreflexive and acyclic: `hb_irrefl`, `hb_asymm`), and
  `holds_unique` (mutual exclusion: at most one holder).

  ## Contents
  1. `hb_of_common_lock`         — the classic lockset argument;
  2. `hb_of_publication`         — write; close(c)  ‖  <-c; read;
  3. `hb_of_go`                  — write; go u      ‖  any event of u;
  4. `race_free_of_discipline`   — conflicting accesses to a `Protected`
                                    variable are ordered by happens-before;
  5. a concrete non-vacuity example.
-/

namespace Proofs.Lockset
open TunnelModel.Lockset

/-! ## `lockStep` and `holder` on prefixes -/

theorem lockStep_eq_some {l : Lck} {h : Option Tid} {e : Ev} {u : Tid}
    (hs : lockStep l h e = some u) : e = .acq u l ∨ h = some u := by
  cases e with
  | acq t l' =>
    by_cases hl : l' = l
    · subst hl
      simp [lockStep] at hs
      exact Or.inl (by rw [hs])
    · simp [lockStep, hl] at hs
      exact Or.inr hs
  | rel t l' =>
    by_cases hl : l' = l
    · simp [lockStep, hl] at hs
    · simp [lockStep, hl] at hs
      exact Or.inr hs
  | rd _ _ => exact Or.inr hs
  | wr _ _ => exact Or.inr hs
  | close _ _ => exact Or.inr hs
  | recv _ _ => exact Or.inr hs
  | go _ _ => exact Or.inr hs

theorem lockStep_ne {l : Lck} {h : Option Tid} {e : Ev}
    (hs : lockStep l h e ≠ h) : (∃ t, e = .acq t l) ∨ (∃ t, e = .rel t l) := by
  cases e with
  | acq t l' =>
    by_cases hl : l' = l
    · exact Or.inl ⟨t, by rw [hl]⟩
    · exact absurd (by simp [lockStep, hl]) hs
  | rel t l' =>
    by_cases hl : l' = l
    · exact Or.inr ⟨t, by rw [hl]⟩
    · exact absurd (by simp [lockStep, hl]) hs
  | rd _ _ => exact absurd rfl hs
  | wr _ _ => exact absurd rfl hs
  | close _ _ => exact absurd rfl hs
  | recv _ _ => exact absurd rfl hs
  | go _ _ => exact absurd rfl hs

theorem holder_take_succ (tr : Trace) (l : Lck) (i : Nat) (h : i < tr.length) :
    holder (tr.take (i + 1)) l = lockStep l (holder (tr.take i) l) tr[i] := by
  unfold holder
  rw [List.take_succ_eq_append_getElem h, List.foldl_append]
  rfl

theorem holder_take_succ_of_ge (tr : Trace) (l : Lck) (i : Nat) (h : tr.length ≤ i) :
    holder (tr.take (i + 1)) l = holder (tr.take i) l := by
  rw [List.take_of_length_le h, List.take_of_length_le (Nat.le_succ_of_le h)]

theorem getElem?_of_getElem_eq {tr : Trace} {i : Nat} (h : i < tr.length) {e : Ev}
    (he : tr[i] = e) : tr[i]? = some e := by
  rw [List.getElem?_eq_getElem h, he]

theorem lt_length_of_map_tid {tr : Trace} {i : Nat} {t : Tid}
    (h : (tr[i]?).map Ev.tid = some t) : i < tr.length := by
  cases hi : tr[i]? with
  | none => rw [hi] at h; cases h
  | some e => exact (List.getElem?_eq_some_iff.mp hi).1

theorem map_tid_of_getElem? {tr : Trace} {i : Nat} {e : Ev}
    (h : tr[i]? = some e) : (tr[i]?).map Ev.tid = some e.tid := by
  rw [h]; rfl

/-! ## Mutual exclusion -/

theorem holds_unique {tr : Trace} {i : Nat} {t u : Tid} {l : Lck}
    (ht : holds tr i t l) (hu : holds tr i u l) : t = u := by
  unfold holds at ht hu
  rw [ht] at hu
  exact Option.some.inj hu

/-! ## Finding the release and the acquire -/

/-- If `t` holds `l` at `a` and no longer holds it at `b ≥ a`, then `t` released
`l` at some index in `[a, b)`.  (Uses `WF`: nobody else can release or steal the
mutex.) -/
theorem exists_rel (tr : Trace) (hwf : WF tr) (l : Lck) (t : Tid) (a : Nat)
    (ha : holder (tr.take a) l = some t) :
    ∀ b, a ≤ b → holder (tr.take b) l ≠ some t →
      ∃ k, a ≤ k ∧ k < b ∧ tr[k]? = some (.rel t l) := by
  intro b
  induction b with
  | zero =>
    intro hab hb
    have : a = 0 := Nat.le_zero.mp hab
    subst this
    exact absurd ha hb
  | succ b ih =>
    intro hab hb
    by_cases hab' : a = b + 1
    · subst hab'; exact absurd ha hb
    have hab'' : a ≤ b := by omega
    by_cases hb' : holder (tr.take b) l = some t
    · -- the holder changes at index `b`
      by_cases hlen : b < tr.length
      · rw [holder_take_succ tr l b hlen, ← hb'] at hb
        have hok := hwf b hlen
        rcases lockStep_ne hb with ⟨t', he⟩ | ⟨t', he⟩
        · rw [he] at hok
          have hok' : holder (tr.take b) l = none := hok
          rw [hb'] at hok'
          cases hok'
        · rw [he] at hok
          have hok' : holder (tr.take b) l = some t' := hok
          rw [hb'] at hok'
          have htt : t = t' := Option.some.inj hok'
          subst htt
          exact ⟨b, hab'', Nat.lt_succ_self b, getElem?_of_getElem_eq hlen he⟩
      · rw [holder_take_succ_of_ge tr l b (Nat.le_of_not_lt hlen)] at hb
        exact absurd hb' hb
    · obtain ⟨k, hak, hkb, hk⟩ := ih hab'' hb'
      exact ⟨k, hak, Nat.lt_succ_of_lt hkb, hk⟩

/-- If `u` does not hold `l` at `a` and holds it at `b ≥ a`, then `u` acquired `l`
at some index in `[a, b)`. -/
theorem exists_acq (tr : Trace) (l : Lck) (u : Tid) (a : Nat)
    (ha : holder (tr.take a) l ≠ some u) :
    ∀ b, a ≤ b → holder (tr.take b) l = some u →
      ∃ m, a ≤ m ∧ m < b ∧ tr[m]? = some (.acq u l) := by
  intro b
  induction b with
  | zero =>
    intro hab hb
    have : a = 0 := Nat.le_zero.mp hab
    subst this
    exact absurd hb ha
  | succ b ih =>
    intro hab hb
    by_cases hab' : a = b + 1
    · subst hab'; exact absurd hb ha
    have hab'' : a ≤ b := by omega
    by_cases hlen : b < tr.length
    · rw [holder_take_succ tr l b hlen] at hb
      rcases lockStep_eq_some hb with he | hprev
      · exact ⟨b, hab'', Nat.lt_succ_self b, getElem?_of_getElem_eq hlen he⟩
      · obtain ⟨m, ham, hmb, hm⟩ := ih hab'' hprev
        exact ⟨m, ham, Nat.lt_succ_of_lt hmb, hm⟩
    · rw [holder_take_succ_of_ge tr l b (Nat.le_of_not_lt hlen)] at hb
      obtain ⟨m, ham, hmb, hm⟩ := ih hab'' hb
      exact ⟨m, ham, Nat.lt_succ_of_lt hmb, hm⟩

/-- The hand-over: `t` holds `l` at `a`, `u ≠ t` holds `l` at `b ≥ a`; then `t`
releases at `k`, `u` acquires at `m`, `a ≤ k < m < b`, and `k` happens before `m`. -/
theorem handover (tr : Trace) (hwf : WF tr) (l : Lck) (t u : Tid) (htu : t ≠ u)
    (a b : Nat) (hab : a ≤ b)
    (ha : holder (tr.take a) l = some t) (hb : holder (tr.take b) l = some u) :
    ∃ k m, a ≤ k ∧ k < m ∧ m < b ∧ tr[k]? = some (.rel t l) ∧
      tr[m]? = some (.acq u l) ∧ HB tr k m := by
  have hne : holder (tr.take b) l ≠ some t := by
    rw [hb]; intro h; exact htu (Option.some.inj h).symm
  obtain ⟨k, hak, hkb, hk⟩ := exists_rel tr hwf l t a ha b hab hne
  have hklen : k < tr.length := (List.getElem?_eq_some_iff.mp hk).1
  have hkev : tr[k] = .rel t l := (List.getElem?_eq_some_iff.mp hk).2
  have hnone : holder (tr.take (k + 1)) l ≠ some u := by
    rw [holder_take_succ tr l k hklen, hkev]
    simp [lockStep]
  obtain ⟨m, hkm, hmb, hm⟩ := exists_acq tr l u (k + 1) hnone b hkb hb
  exact ⟨k, m, hak, hkm, hmb, hk, hm, HB.lock hkm hk hm⟩

/-! ## Theorem 1: the lockset argument -/

/-- Two events executed by different goroutines while each holds the same mutex
are ordered by happens-before. -/
theorem hb_of_common_lock (tr : Trace) (hwf : WF tr) (i j : Nat) (hij : i < j)
    (hj : j < tr.length) (t u : Tid) (l : Lck)
    (hi : (tr[i]?).map Ev.tid = some t) (hju : (tr[j]?).map Ev.tid = some u)
    (htu : t ≠ u) (hhi : holds tr i t l) (hhj : holds tr j u l) : HB tr i j := by
  have _ := hj -- redundant (implied by `hju`); kept because it was requested
  obtain ⟨k, m, hik, hkm, hmj, hk, hm, hbkm⟩ :=
    handover tr hwf l t u htu i j (Nat.le_of_lt hij) hhi hhj
  have hmj' : HB tr m j := HB.po hmj (map_tid_of_getElem? hm) hju
  by_cases hik' : i = k
  · subst hik'
    exact HB.trans hbkm hmj'
  · have hlt : i < k := by omega
    exact HB.trans (HB.trans (HB.po hlt hi (map_tid_of_getElem? hk)) hbkm) hmj'

/-! ## Theorem 2: publication through `close` -/

/-- An event (e.g. a write) sequenced before `close(c)` happens before an event
(e.g. a read) sequenced after a receive that observed the close. -/
theorem hb_of_publication (tr : Trace) (i k m j : Nat) (t u : Tid) (c : Chn)
    (hik : i < k) (hkm : k < m) (hmj : m < j) (hj : j < tr.length)
    (hi : (tr[i]?).map Ev.tid = some t) (hk : tr[k]? = some (.close t c))
    (hm : tr[m]? = some (.recv u c)) (hju : (tr[j]?).map Ev.tid = some u) :
    HB tr i j := by
  have _ := hj -- redundant (implied by `hju`); kept because it was requested
  exact HB.trans (HB.trans (HB.po hik hi (map_tid_of_getElem? hk)) (HB.chan hkm hk hm))
    (HB.po hmj (map_tid_of_getElem? hm) hju)

/-! ## Theorem 3: publication through `go` -/

/-- An event of `t` sequenced before `go u` (at index `k`) happens before every
event of `u` after `k`. -/
theorem hb_of_go (tr : Trace) (i k j : Nat) (t u : Tid)
    (hik : i < k) (hkj : k < j)
    (hi : (tr[i]?).map Ev.tid = some t) (hk : tr[k]? = some (.go t u))
    (hju : (tr[j]?).map Ev.tid = some u) : HB tr i j :=
  HB.trans (HB.po hik hi (map_tid_of_getElem? hk)) (HB.go hkj hk hju)

/-- In a well-formed trace EVERY event of a started goroutine is after the `go`
that starts it, so `hkj` of `hb_of_go` is automatic. -/
theorem go_lt_of_wf (tr : Trace) (hwf : WF tr) (k j : Nat) (t u : Tid)
    (hk : tr[k]? = some (.go t u)) (hju : (tr[j]?).map Ev.tid = some u) : k < j := by
  have hklen : k < tr.length := (List.getElem?_eq_some_iff.mp hk).1
  have hkev : tr[k] = .go t u := (List.getElem?_eq_some_iff.mp hk).2
  have hjlen : j < tr.length := lt_length_of_map_tid hju
  have hok := hwf k hklen
  rw [hkev] at hok
  have hok' : t ≠ u ∧ ∀ e ∈ tr.take k, e.tid ≠ u := hok
  have hjt : tr[j].tid = u := by
    rw [List.getElem?_eq_getElem hjlen] at hju
    exact Option.some.inj hju
  apply Nat.lt_of_le_of_ne
  · apply Nat.le_of_not_lt
    intro hjk
    have hmem : tr[j] ∈ tr.take k := by
      have : (tr.take k)[j]'(by rw [List.length_take]; omega) = tr[j] := List.getElem_take
      rw [← this]
      exact List.getElem_mem _
    exact hok'.2 _ hmem hjt
  · intro hkj
    subst hkj
    rw [hkev] at hjt
    exact hok'.1 hjt

/-- `hb_of_go` for a well-formed trace, without the hypothesis `k < j`. -/
theorem hb_of_go_wf (tr : Trace) (hwf : WF tr) (i k j : Nat) (t u : Tid) (hik : i < k)
    (hi : (tr[i]?).map Ev.tid = some t) (hk : tr[k]? = some (.go t u))
    (hju : (tr[j]?).map Ev.tid = some u) : HB tr i j :=
  hb_of_go tr i k j t u hik (go_lt_of_wf tr hwf k j t u hk hju) hi hk hju

/-! ## Sanity: happens-before is contained in the trace order -/

theorem hb_lt {tr : Trace} {i j : Nat} (h : HB tr i j) : i < j := by
  induction h with
  | po h _ _ => exact h
  | lock h _ _ => exact h
  | chan h _ _ => exact h
  | go h _ _ => exact h
  | trans _ _ ih1 ih2 => exact Nat.lt_trans ih1 ih2

theorem hb_irrefl {tr : Trace} {i : Nat} : ¬ HB tr i i :=
  fun h => Nat.lt_irrefl i (hb_lt h)

theorem hb_asymm {tr : Trace} {i j : Nat} (h : HB tr i j) : ¬ HB tr j i :=
  fun h' => Nat.lt_irrefl i (Nat.lt_trans (hb_lt h) (hb_lt h'))

/-- Both ends of a happens-before edge are events of the trace. -/
theorem hb_lt_length {tr : Trace} {i j : Nat} (h : HB tr i j) : j < tr.length := by
  induction h with
  | po _ _ h => exact lt_length_of_map_tid h
  | lock _ _ h => exact (List.getElem?_eq_some_iff.mp h).1
  | chan _ _ h => exact (List.getElem?_eq_some_iff.mp h).1
  | go _ _ h => exact lt_length_of_map_tid h
  | trans _ _ _ ih2 => exact ih2

/-! ## Theorem 4: the lock discipline excludes data races -/

theorem conflict_symm {tr : Trace} {i j : Nat} {x : Var} (h : conflict tr i j x) :
    conflict tr j i x := by
  obtain ⟨a, b, ha, hb, hax, hbx, hw, hne⟩ := h
  exact ⟨b, a, hb, ha, hbx, hax, hw.symm, fun h => hne h.symm⟩

theorem conflict_ne {tr : Trace} {i j : Nat} {x : Var} (h : conflict tr i j x) : i ≠ j := by
  obtain ⟨a, b, ha, hb, _, _, _, hne⟩ := h
  intro hij
  subst hij
  rw [ha] at hb
  exact hne (by rw [Option.some.inj hb])

/-- One direction: `i < j`. -/
theorem hb_of_conflict_lt (tr : Trace) (hwf : WF tr) (x : Var) (l : Lck)
    (hp : ProtectedBy tr x l) (i j : Nat) (hij : i < j) (hc : conflict tr i j x) :
    HB tr i j := by
  obtain ⟨a, b, ha, hb, hax, hbx, _, hne⟩ := hc
  have hilen : i < tr.length := (List.getElem?_eq_some_iff.mp ha).1
  have hiev : tr[i] = a := (List.getElem?_eq_some_iff.mp ha).2
  have hjlen : j < tr.length := (List.getElem?_eq_some_iff.mp hb).1
  have hjev : tr[j] = b := (List.getElem?_eq_some_iff.mp hb).2
  have hhi := hp i hilen (by rw [hiev]; exact hax)
  have hhj := hp j hjlen (by rw [hjev]; exact hbx)
  rw [hiev] at hhi
  rw [hjev] at hhj
  exact hb_of_common_lock tr hwf i j hij hjlen a.tid b.tid l
    (map_tid_of_getElem? ha) (map_tid_of_getElem? hb) hne hhi hhj

theorem race_free_of_discipline' (tr : Trace) (hwf : WF tr) (x : Var)
    (hp : Protected tr x) :
    ∀ i j, conflict tr i j x → HB tr i j ∨ HB tr j i := by
  intro i j hc
  obtain ⟨l, hl⟩ := hp
  rcases Nat.lt_or_ge i j with hij | hji
  · exact Or.inl (hb_of_conflict_lt tr hwf x l hl i j hij hc)
  · have hne := conflict_ne hc
    have hji' : j < i := by omega
    exact Or.inr (hb_of_conflict_lt tr hwf x l hl j i hji' (conflict_symm hc))

/-- In a well-formed trace every pair of conflicting accesses to a `Protected`
variable is ordered by happens-before, one way or the other: no data race. -/
theorem race_free_of_discipline (tr : Trace) (hwf : WF tr) (x : Var)
    (hp : Protected tr x) :
    ∀ i j, i ≠ j → conflict tr i j x → HB tr i j ∨ HB tr j i :=
  fun i j _ hc => race_free_of_discipline' tr hwf x hp i j hc

/-! ## 5. Non-vacuity -/

/-- Goroutine 0 starts goroutine 1; both write variable 3 under mutex 7; goroutine 0
also publishes variable 4 by closing channel 9, goroutine 1 reads it after the receive. -/
def exTrace : Trace :=
  [.wr 0 4, .go 0 1, .acq 0 7, .wr 0 3, .rel 0 7, .close 0 9,
   .acq 1 7, .wr 1 3, .rel 1 7, .recv 1 9, .rd 1 4]

example : WF exTrace := by decide

example : Protected exTrace 3 := ⟨7, by decide⟩

example : holds exTrace 3 0 7 ∧ holds exTrace 7 1 7 := by decide

example : conflict exTrace 3 7 3 :=
  ⟨.wr 0 3, .wr 1 3, rfl, rfl, rfl, rfl, Or.inl rfl, by decide⟩

/-- The two writes to variable 3 are ordered (theorem 4). -/
example : HB exTrace 3 7 := by
  have h := race_free_of_discipline exTrace (by decide) 3 ⟨7, by decide⟩ 3 7 (by decide)
    ⟨.wr 0 3, .wr 1 3, rfl, rfl, rfl, rfl, Or.inl rfl, by decide⟩
  exact h.resolve_right (fun h' => absurd (hb_lt h') (by decide))

/-- The write to variable 4 happens before its read, by `close`/`recv` (theorem 2) ... -/
example : HB exTrace 0 10 :=
  hb_of_publication exTrace 0 5 9 10 0 1 9 (by decide) (by decide) (by decide) (by decide)
    rfl rfl rfl rfl

/-- ... and also by the `go` statement (theorem 3). -/
example : HB exTrace 0 10 :=
  hb_of_go exTrace 0 1 10 0 1 (by decide) (by decide) rfl rfl rfl

/-- The discipline is not trivially true: variable 4 is accessed without any mutex held. -/
example : ¬ Protected exTrace 4 := by
  intro ⟨l, hl⟩
  have h := hl 0 (by decide) rfl
  exact absurd h (by simp [holds, holder])

/-- `WF` is not trivially true: releasing a mutex one does not hold is ill-formed. -/
example : ¬ WF [.acq 0 7, .rel 1 7] := by decide

/-- `WF` enforces mutual exclusion. -/
example : ¬ WF [.acq 0 7, .acq 1 7] := by decide

#print axioms hb_of_common_lock
#print axioms hb_of_publication
#print axioms hb_of_go
#print axioms race_free_of_discipline

end Proofs.Lockset
