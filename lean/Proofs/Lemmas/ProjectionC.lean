import TunnelModel.LFrame.Trace
import Proofs.Lemmas.ClientInv
import Proofs.Lemmas.ClientShape
import Proofs.Lemmas.Teardown
import Proofs.Lemmas.Conformance
/-!
  # The projection (lifting) theorem for the client endpoint

  Most theorems of the project about the client half of an RPC are proved at STREAM level: for one
  `CStream` object, from ANY initial state, under ANY list of stream-level events
  (`CStream.runEv cfg sid s evs`, events `CEv = .frame f | .call c | .ctx e`).  This file connects
  them to the ENDPOINT `Cli` (a channel with any number of concurrent RPCs, `Cli.run`): every
  stream object that exists in a reachable endpoint state is the result of ONE stream-level run on
  the object `Cli.newStream` installed, under an event list that contains exactly the caller's
  calls and the routed frames the endpoint run addressed to that stream, in order, plus the context
  ends the endpoint inflicted on it; and what the endpoint emitted under the stream's id is what
  that stream-level run emitted (as far as the carrier was still there to take it).

  ## Definitions

  * `tevStep cfg sid c x : List (Bool × CEv α)` — what one endpoint stimulus `x`, applied in state
    `c`, means for the (existing) stream `sid`, following the code of `Cli.step` case by case:
      - `.frame sid' f`: nothing on a finished channel; in the settings phase no frame reaches a
        stream and every failure is a `close` (`closeEvs`); afterwards `.frame f` iff `sid' = sid`
        and the stream is in the table, nothing for a late frame (id already allocated, stream out
        of the table) or a frame for another stream, `closeEvs` for a never-created id;
      - `.call sid' k` ↦ `.call k` iff `sid' = sid`;
      - `.tick d` ↦ `.ctx .deadline` iff the stream has a deadline `≤ now + d` and its context has
        not ended yet (`Cli.tick` calls `ctxCancelled` also on ended contexts: a no-op);
      - `.close`, `.carrierEnds _` ↦ `closeEvs`: `.ctx .canceled` iff the channel is not finished
        and the stream is still in the table (what `Cli.close.go` does per stream, cf.
        `Teardown.close_go_streams`);
      - `.new ..` ↦ nothing (the creating step's own events are `creationEvs`).
    The `Bool` tag says "the carrier is down when the outputs of this event are produced":
    `true` for `closeEvs` (every `Cli.step` runs `close` with `sendsWork = false`), `finished.isSome`
    for calls and ticks, `false` for routed frames.
  * `tevsOf cfg sid c xs` threads the endpoint state along the run; **`evsOf cfg sid c xs`** forgets
    the tags: the stream-level event list.
  * `wireOut sid down e o`, `runEvW` — the stream-level run with each output passed through what
    the endpoint does to it when the carrier is down: frames dropped; a `SendMsg` that emitted
    frames returns `.other "carrier-closed"` instead of its result.  `runEvW` and `runEv` have the
    same final state (`runEvW_fst`) and are equal when no tag is set (`runEvW_live`).
  * `framesFor sid outs`, `donesFor sid outs` — frames / completions with `.1 = sid`, flattened.
  * `freshStream cfg c cs ss t`, `creationEvs cn`, `Creates cfg c0 x sid st0` — the creating
    `NewStream`: `x = .new cs ss m md t cn`, `sid ∉ ids c0`, `allocate c0.lastStreamID = some sid`,
    `st0` is the object in the table right after the step AND
    `st0 = (runEv cfg sid (freshStream ..) (creationEvs cn)).1` (a pre-cancelled context is the
    event `.ctx .canceled` of the creating step), and the step's frames / completions are the
    `new_stream` frame / `("new", ok)` followed by the outputs of those events.
  * `PInv` — the endpoint invariant used: `AllWF`, `CT`, `FinOut` (from `ClientShape`/`Teardown`)
    and `UInv`: ids pairwise distinct and `≠ 0`, counter `≤ maxInt64`.  `UInv` is proved for EVERY
    reachable state (`pinv_reachable`), without the bound `xs.length < 2^63 - 1` that
    `C08_client_ids_increasing` needs: it survives the wrap-around of the id counter (the single
    negative id allocated at `maxInt64` is still new, and `allocate` refuses afterwards).  So none
    of the theorems below has a length hypothesis.

  ## Main theorems (all for every stimulus list from `Cli.start cfg`)

  1. `step_proj` / `run_proj` — one step / a run from any `PInv` state, seen from an existing stream.
  2. **`proj_state`** — for `(sid, st) ∈ (Cli.run cfg (Cli.start cfg) xs).1.streams` there are
     `pre x post st0` with `xs = pre ++ x :: post`, `Creates cfg (run pre).1 x sid st0` and
     `st = (CStream.runEv cfg sid st0 (evsOf cfg sid ((run pre).1.step cfg x).1 post)).1`.
     `proj_state_fresh`: the same from the fresh object, events `creationEvs cn ++ evsOf ..`.
  3. `proj_outputs` — **FALSE as formulated**, see below.  Proved instead:
     **`proj_outputs_partial`** (exact, unconditional): frames and completions under `sid` after the
     creating step `=` those of `runEvW` (stream-level outputs through `wireOut`);
     **`proj_outputs_live`**: the statement exactly as asked (`= runEv` outputs, frames and dones)
     whenever the channel is not finished at the end of the run — hence on every prefix of a run
     up to the step that finishes the channel;
     `proj_frames_sublist`: in general the endpoint's frames are a sublist of the stream-level
     frames; `frames_only_while_up` / `finished_no_frames`: a step after which the channel is
     finished emits no frame at all, so the frames that reach the wire are exactly those of the
     events before the finishing step; `proj_frames_whole`: ALL frames ever emitted under an id
     (nothing before creation — `step_absent`, `run_absent` —, then `new_stream`, then a sublist
     of one stream-level run from the fresh object).
     Restriction to `sid` is the identity on stream-level outputs (`framesFor_runEv`, …).
     Events: `COut.events` carry no stream id; no stream-level operation emits one
     (`stepEv_noEv`, `runEv_noEv`), they are all channel-level; nothing more is claimed.
  4. **`proj_calls_frames`** — `(evsOf ..).filterMap callOf = callsTo sid xs` (exactly the calls
     addressed to `sid`, in order) and `(evsOf ..).filterMap frameOf = routedTo cfg sid c xs` (the
     frames addressed to `sid` arriving while `routes c sid`: channel up, settings phase over,
     stream in the table; `routes_spec`: then `Cli.onFrame` hands the frame to the stream object
     and does nothing else; `routedTo_sublist`: a sublist of all frames addressed to `sid`).
  5. The lifting at work: `lift_count_bound` (any "at most one frame of kind `p`" bound valid for
     all stream-level runs from all states holds for the frames an endpoint emits under any one
     id, in every endpoint run) and its instances **`C1_endpoint_at_most_one_halfClose`**,
     **`C1_endpoint_at_most_one_cancel`** (whole run, creating step included), and
     `C1_endpoint_after_creation` (the form asked for; also: no cancel frame at all after creation
     if the installed object `st0` already has its terminal result, e.g. pre-cancelled context).

  ## What is false, and why

  `proj_outputs` as formulated ("the endpoint's frames / dones for `sid` after creation equal the
  stream-level ones") fails once the channel is finished, for two reasons that are faithful to
  the code: (a) `Cli.close` cancels every stream in the table, and at stream level the context
  watcher's `cancelStream` emits a cancel frame — but every `Cli.step` runs `close` with the
  carrier already gone (`sendsWork = false`), so the endpoint drops it; likewise `Cli.tick` and
  `Cli.onCall` drop frames on a finished channel; (b) `Cli.onCall` turns a `SendMsg` that would
  emit frames on a finished channel into the error "carrier-closed" (at stream level it pumps the
  frames and returns OK / the context error).  The state is NOT affected (the cleared pending
  send is already `none` there: `finished_psend_none`), so `proj_state` holds as asked.
  Counterexample checked by `decide` in the `Examples` section (RPC 2 of `exRun`): endpoint
  frames `[wu, halfclose]`, stream-level `[wu, halfclose, cancel, msg]`; endpoint completion
  `send ↦ other`, stream-level `send ↦ ok`.
-/
namespace Proofs.ProjectionC
open TunnelModel TunnelModel.LFrame TunnelModel.Framing
open Proofs.ClientInv (ids COut.onlySid)
open Proofs.ClientShape (WF AllWF)
open Proofs.Teardown (CT CAll FinOut)

variable {α : Type}

/-! ## definitions -/

/-- what `Cli.close` does to stream `sid`: nothing on a finished channel; otherwise it cancels
    the context of the stream iff the stream is still in the table.  The carrier is gone when the
    watcher's cancel frame would be sent (`sendsWork = false` in every `Cli.step`): tag `true`. -/
def closeEvs (c : Cli α) (sid : Sid) : List (Bool × CEv α) :=
  if c.finished.isSome then []
  else if (c.getStream sid).isSome then [(true, .ctx .canceled)] else []

/-- the stream-level events one endpoint stimulus means for the (existing) stream `sid`, each
    tagged with "the carrier is down when the outputs of this event are produced" -/
def tevStep (cfg : CCfg) (sid : Sid) (c : Cli α) : CStim α → List (Bool × CEv α)
  | .frame sid' f =>
    if c.finished.isSome then []
    else if c.phase == .awaitingSettings then
      if sid' != -1 then closeEvs c sid
      else match f with
        | .settings _ revs =>
          match Negotiate.select cfg.revs revs with
          | none => closeEvs c sid
          | some _ => []
        | _ => closeEvs c sid
    else
      match c.getStream sid' with
      | some _ => if sid' = sid then [(false, .frame f)] else []
      | none => if c.streamCreated && decide (sid' ≤ c.lastStreamID) then [] else closeEvs c sid
  | .new .. => []
  | .call sid' k => if sid' = sid then [(c.finished.isSome, .call k)] else []
  | .tick d =>
    match c.getAny sid with
    | some st =>
      match st.deadline with
      | some dl => if dl ≤ c.now + d ∧ st.ctxDone.isNone then [(c.finished.isSome, .ctx .deadline)] else []
      | none => []
    | none => []
  | .carrierEnds _ => closeEvs c sid
  | .close => closeEvs c sid

/-- the tagged stream-level events of `sid` along an endpoint run from `c` -/
def tevsOf (cfg : CCfg) (sid : Sid) : Cli α → List (CStim α) → List (Bool × CEv α)
  | _, [] => []
  | c, x :: xs => tevStep cfg sid c x ++ tevsOf cfg sid (c.step cfg x).1 xs

/-- **the stream-level event list of `sid` along an endpoint run from `c`** -/
def evsOf (cfg : CCfg) (sid : Sid) (c : Cli α) (xs : List (CStim α)) : List (CEv α) :=
  (tevsOf cfg sid c xs).map (·.2)

/-- what the endpoint lets through of the stream-level output `o` of event `e` -/
def wireOut (sid : Sid) (down : Bool) (e : CEv α) (o : COut α) : COut α :=
  if down then
    match e with
    | .call (.send _) => if o.frames.isEmpty then o else { dones := [(sid, "send", .other "carrier-closed")] }
    | _ => { o with frames := [] }
  else o

/-- `CStream.runEv` with the outputs passed through `wireOut` -/
def runEvW (cfg : CCfg) (sid : Sid) : CStream α → List (Bool × CEv α) → CStream α × List (COut α)
  | s, [] => (s, [])
  | s, (b, e) :: es =>
    let (s1, o) := s.stepEv cfg sid e
    let (s2, os) := runEvW cfg sid s1 es
    (s2, wireOut sid b e o :: os)

/-- frames / completions of an output list that carry the id `sid`, flattened, in order -/
def framesFor (sid : Sid) (os : List (COut α)) : List (Sid × C2S α) :=
  os.flatMap (fun o => o.frames.filter (·.1 == sid))
def donesFor (sid : Sid) (os : List (COut α)) : List (Sid × String × Res α) :=
  os.flatMap (fun o => o.dones.filter (·.1 == sid))

/-! ## the endpoint invariant used by the projection -/

/-- stream ids are pairwise distinct and never `0`; the id counter has not passed `maxInt64`; while
    the counter is non-negative every id is positive and at most the counter.  Unlike
    `ClientInv.CInv` this survives the wrap-around of the counter (the one negative id allocated
    at `maxInt64` is still new, and nothing is allocated afterwards), so it holds in EVERY
    reachable state, without a bound on the length of the run. -/
def UInv (c : Cli α) : Prop :=
  (ids c).Nodup ∧ c.lastStreamID ≤ IdRules.maxInt64 ∧ (∀ i ∈ ids c, i ≠ 0) ∧
  (0 ≤ c.lastStreamID → ∀ i ∈ ids c, 0 < i ∧ i ≤ c.lastStreamID)

theorem uinv_start (cfg : CCfg) : UInv (Cli.start cfg : Cli α) := by
  refine ⟨?_, ?_, ?_, ?_⟩ <;> simp [ids, Cli.start, IdRules.maxInt64]

theorem uinv_same {c c' : Cli α} (h : Proofs.ClientInv.Same c c') (hi : UInv c) : UInv c' := by
  obtain ⟨h1, h2, _⟩ := h
  unfold UInv
  rw [h1, h2]; exact hi

/-- an id handed out by `allocate` is new and not `0` -/
theorem alloc_fresh {c : Cli α} (hi : UInv c) {n : Int} (h : IdRules.allocate c.lastStreamID = some n) :
    n ∉ ids c ∧ n ≠ 0 ∧ n ≤ IdRules.maxInt64 ∧ (0 ≤ n → ∀ i ∈ ids c, 0 < i ∧ i ≤ n) ∧ (0 ≤ n → 0 < n) := by
  obtain ⟨_, h2, _, h4⟩ := hi
  unfold IdRules.allocate at h
  split at h
  · cases h
  · rename_i hneg
    have h0 : 0 ≤ c.lastStreamID := by omega
    have hn : n = IdRules.wrap64 (c.lastStreamID + 1) := (Option.some.inj h).symm
    unfold IdRules.wrap64 at hn
    unfold IdRules.maxInt64 at *
    split at hn
    · refine ⟨fun hm => ?_, by omega, by omega, fun hp => by omega, fun hp => by omega⟩
      have := (h4 h0 n hm).1; omega
    · refine ⟨fun hm => ?_, by omega, by omega, fun _ i hm => ?_, fun _ => by omega⟩
      · have := (h4 h0 n hm).2; omega
      · have := h4 h0 i hm; omega

theorem uinv_newStream (cfg : CCfg) (c : Cli α) (cs ss : Bool) (m : List Nat) (md : MD)
    (t : Option Nat) (cn : Bool) (hi : UInv c) : UInv (c.newStream cfg cs ss m md t cn).1 := by
  rcases Proofs.ClientInv.newStream_shape cfg c cs ss m md t cn with ⟨_, he⟩ | ⟨sid, hal, _, _, hids, hl, _⟩
  · rw [he]; exact hi
  · obtain ⟨f1, f2, f3, f4, f5⟩ := alloc_fresh hi hal
    obtain ⟨i1, _, i3, _⟩ := hi
    unfold UInv
    rw [hids, hl]
    refine ⟨?_, f3, ?_, ?_⟩
    · rw [List.nodup_append]
      refine ⟨i1, by simp, ?_⟩
      intro a ha b hb
      simp at hb; subst hb
      intro hab; subst hab; exact f1 ha
    · intro i hm
      rcases List.mem_append.mp hm with hm | hm
      · exact i3 i hm
      · simp at hm; subst hm; exact f2
    · intro hp i hm
      rcases List.mem_append.mp hm with hm | hm
      · exact f4 hp i hm
      · simp at hm; subst hm; exact ⟨f5 hp, Int.le_refl _⟩

theorem uinv_step (cfg : CCfg) (c : Cli α) (x : CStim α) (h : UInv c) : UInv (c.step cfg x).1 := by
  cases x with
  | frame sid f => exact uinv_same (Proofs.ClientInv.same_onFrame cfg c sid f) h
  | new cs ss m md t cn => exact uinv_newStream cfg c cs ss m md t cn h
  | call sid call => exact uinv_same (Proofs.ClientInv.same_onCall cfg c sid call) h
  | tick d => exact uinv_same (Proofs.ClientInv.same_tick c d) h
  | carrierEnds err => exact uinv_same (Proofs.ClientInv.same_carrierEnds c err) h
  | close => exact uinv_same (Proofs.ClientInv.same_close c none false) h

/-- everything the projection needs of an endpoint state; holds in every reachable state -/
structure PInv (c : Cli α) : Prop where
  wf : AllWF c
  ct : CAll CT c
  fo : FinOut c
  u : UInv c

theorem pinv_start (cfg : CCfg) : PInv (Cli.start cfg : Cli α) :=
  ⟨Proofs.ClientShape.start_AllWF cfg, Proofs.ClientInv.allS_start cfg _,
   fun h => by simp [Cli.start] at h, uinv_start cfg⟩

theorem pinv_step (cfg : CCfg) (c : Cli α) (x : CStim α) (h : PInv c) : PInv (c.step cfg x).1 :=
  ⟨Proofs.ClientShape.step_AllWF cfg c x h.wf, Proofs.Teardown.step_ct cfg c x h.ct,
   Proofs.Teardown.finOut_step cfg c x h.wf h.fo, uinv_step cfg c x h.u⟩

theorem pinv_run (cfg : CCfg) : ∀ (xs : List (CStim α)) (c : Cli α), PInv c → PInv (Cli.run cfg c xs).1 := by
  intro xs
  induction xs with
  | nil => intro c h; exact h
  | cons x xs ih => intro c h; simp only [Cli.run]; exact ih _ (pinv_step cfg c x h)

theorem pinv_reachable (cfg : CCfg) (xs : List (CStim α)) : PInv (Cli.run cfg (Cli.start cfg : Cli α) xs).1 :=
  pinv_run cfg xs _ (pinv_start cfg)

/-! ## looking a stream up when ids are unique -/

theorem mem_ids {c : Cli α} {sid : Sid} {st : CStream α} (h : (sid, st) ∈ c.streams) : sid ∈ ids c :=
  List.mem_map.mpr ⟨(sid, st), h, rfl⟩

theorem find_of_mem (p : CStream α → Bool) (sid : Sid) (st : CStream α) :
    ∀ (l : List (Sid × CStream α)), (l.map (·.1)).Nodup → (sid, st) ∈ l →
      l.find? (fun e => e.1 == sid && p e.2) = if p st then some (sid, st) else none := by
  intro l
  induction l with
  | nil => intro _ h; cases h
  | cons x rest ih =>
    obtain ⟨k, v⟩ := x
    intro hnd hm
    simp only [List.map_cons, List.nodup_cons] at hnd
    obtain ⟨hk, hnd'⟩ := hnd
    rcases List.mem_cons.mp hm with h | h
    · have hk' : k = sid := (congrArg Prod.fst h).symm
      have hv : v = st := (congrArg Prod.snd h).symm
      subst hk' hv
      rw [List.find?_cons]
      cases hp : p v with
      | true => simp
      | false =>
        simp only [beq_self_eq_true, Bool.and_false, Bool.false_eq_true, if_false]
        rw [List.find?_eq_none]
        intro e he
        simp only [Bool.and_eq_true, beq_iff_eq, not_and, Bool.not_eq_true]
        intro hek
        exact absurd (List.mem_map.mpr ⟨e, he, hek⟩) hk
    · have hne : k ≠ sid := by
        intro hks; subst hks
        exact hk (List.mem_map.mpr ⟨(k, st), h, rfl⟩)
      rw [List.find?_cons]
      have : ((k, v).1 == sid && p (k, v).2) = false := by simp [hne]
      rw [this]
      exact ih hnd' h

theorem mem_unique {c : Cli α} (hu : (ids c).Nodup) {sid : Sid} {a b : CStream α}
    (ha : (sid, a) ∈ c.streams) (hb : (sid, b) ∈ c.streams) : a = b := by
  have h1 := find_of_mem (fun _ => true) sid a c.streams hu ha
  have h2 := find_of_mem (fun _ => true) sid b c.streams hu hb
  rw [h1] at h2
  simp at h2
  exact h2

theorem getAny_of_mem {c : Cli α} (hu : (ids c).Nodup) {sid : Sid} {st : CStream α}
    (h : (sid, st) ∈ c.streams) : c.getAny sid = some st := by
  have h1 := find_of_mem (fun _ => true) sid st c.streams hu h
  simp only [Bool.and_true, if_true] at h1
  simp [Cli.getAny, h1]

theorem getStream_of_mem {c : Cli α} (hu : (ids c).Nodup) {sid : Sid} {st : CStream α}
    (h : (sid, st) ∈ c.streams) : c.getStream sid = if st.inTable then some st else none := by
  have h1 := find_of_mem (fun s => s.inTable) sid st c.streams hu h
  simp only [Cli.getStream, h1]
  split <;> rfl

theorem getAny_none_of_not_mem {c : Cli α} {sid : Sid} (h : sid ∉ ids c) : c.getAny sid = none := by
  simp only [Cli.getAny, Option.map_eq_none_iff, List.find?_eq_none]
  intro e he hes
  exact h (List.mem_map.mpr ⟨e, he, by simpa using hes⟩)

theorem setAny_mem_self {c : Cli α} {sid : Sid} {st : CStream α} (st' : CStream α)
    (h : (sid, st) ∈ c.streams) : (sid, st') ∈ (c.setAny sid st').streams := by
  apply List.mem_map.mpr
  exact ⟨(sid, st), h, by simp⟩

theorem setAny_mem_other {c : Cli α} {sid sid' : Sid} {st : CStream α} (st' : CStream α)
    (h : (sid, st) ∈ c.streams) (hne : sid' ≠ sid) : (sid, st) ∈ (c.setAny sid' st').streams :=
  Proofs.ClientInv.setAny_keeps_others c sid' st' (sid, st) h (fun e => hne e.symm)

/-! ## restricting an output to one stream id -/

theorem filter_eq_self_of_tag {A : Type} {sid : Sid} {l : List (Sid × A)} (h : ∀ f ∈ l, f.1 = sid) :
    l.filter (·.1 == sid) = l := by
  rw [List.filter_eq_self]
  intro f hf
  simp [h f hf]

theorem filter_eq_nil_of_tag {A : Type} {sid sid' : Sid} {l : List (Sid × A)} (h : ∀ f ∈ l, f.1 = sid')
    (hne : sid' ≠ sid) : l.filter (·.1 == sid) = [] := by
  rw [List.filter_eq_nil_iff]
  intro f hf
  simp [h f hf, hne]

theorem stepEv_onlySid (cfg : CCfg) (sid : Sid) (s : CStream α) (e : CEv α) :
    COut.onlySid sid (s.stepEv cfg sid e).2 := by
  cases e with
  | frame f => exact Proofs.ClientInv.CStream_onFrame_onlySid cfg sid s f
  | call k => exact Proofs.ClientInv.CStream_onCall_onlySid cfg sid s k
  | ctx e => exact Proofs.ClientInv.ctxCancelled_onlySid sid s e

/-! ## `Cli.close.go` and `Cli.tick.go` as one map over the stream objects -/

def goGen (f : Sid → CStream α → CStream α × COut α) :
    List (Sid × CStream α) → List (Sid × CStream α) × COut α
  | [] => ([], {})
  | (sid, st) :: rest => ((sid, (f sid st).1) :: (goGen f rest).1, (f sid st).2.add (goGen f rest).2)

def closeF (sid : Sid) (st : CStream α) : CStream α × COut α :=
  if st.inTable then st.ctxCancelled sid .canceled else (st, {})

def tickF (now : Nat) (sid : Sid) (st : CStream α) : CStream α × COut α :=
  match st.deadline with
  | some dl => if dl ≤ now then st.ctxCancelled sid .deadline else (st, {})
  | none => (st, {})

theorem close_go_eq (l : List (Sid × CStream α)) : Cli.close.go l = goGen closeF l := by
  induction l with
  | nil => rfl
  | cons x rest ih =>
    obtain ⟨sid, st⟩ := x
    simp only [Cli.close.go, goGen, ih, closeF]

theorem tick_go_eq (now : Nat) (l : List (Sid × CStream α)) : Cli.tick.go now l = goGen (tickF now) l := by
  induction l with
  | nil => rfl
  | cons x rest ih =>
    obtain ⟨sid, st⟩ := x
    simp only [Cli.tick.go, goGen, ih, tickF]
    cases st.deadline <;> rfl

theorem closeF_onlySid (sid : Sid) (st : CStream α) : COut.onlySid sid (closeF sid st).2 := by
  unfold closeF
  split
  · exact Proofs.ClientInv.ctxCancelled_onlySid ..
  · exact Proofs.ClientInv.onlySid_empty sid

theorem tickF_onlySid (now : Nat) (sid : Sid) (st : CStream α) : COut.onlySid sid (tickF now sid st).2 := by
  unfold tickF
  split
  · split
    · exact Proofs.ClientInv.ctxCancelled_onlySid ..
    · exact Proofs.ClientInv.onlySid_empty sid
  · exact Proofs.ClientInv.onlySid_empty sid

theorem goGen_mem (f : Sid → CStream α → CStream α × COut α) {sid : Sid} {st : CStream α} :
    ∀ (l : List (Sid × CStream α)), (sid, st) ∈ l → (sid, (f sid st).1) ∈ (goGen f l).1 := by
  intro l
  induction l with
  | nil => intro h; cases h
  | cons x rest ih =>
    obtain ⟨k, v⟩ := x
    intro h
    simp only [goGen]
    rcases List.mem_cons.mp h with h | h
    · have hk' : k = sid := (congrArg Prod.fst h).symm
      have hv : v = st := (congrArg Prod.snd h).symm
      subst hk' hv
      exact List.mem_cons_self
    · exact List.mem_cons_of_mem _ (ih h)

theorem goGen_out_absent (f : Sid → CStream α → CStream α × COut α)
    (hf : ∀ k s, COut.onlySid k (f k s).2) {sid : Sid} :
    ∀ (l : List (Sid × CStream α)), sid ∉ l.map (·.1) →
      (goGen f l).2.frames.filter (·.1 == sid) = [] ∧ (goGen f l).2.dones.filter (·.1 == sid) = [] := by
  intro l
  induction l with
  | nil => intro _; exact ⟨rfl, rfl⟩
  | cons x rest ih =>
    obtain ⟨k, v⟩ := x
    intro h
    simp only [List.map_cons, List.mem_cons, not_or] at h
    obtain ⟨hne, hr⟩ := h
    obtain ⟨i1, i2⟩ := ih hr
    simp only [goGen, COut.add, List.filter_append, i1, i2, List.append_nil]
    exact ⟨filter_eq_nil_of_tag (hf k v).1 (fun e => hne e.symm),
           filter_eq_nil_of_tag (hf k v).2 (fun e => hne e.symm)⟩

theorem goGen_out (f : Sid → CStream α → CStream α × COut α)
    (hf : ∀ k s, COut.onlySid k (f k s).2) {sid : Sid} {st : CStream α} :
    ∀ (l : List (Sid × CStream α)), (l.map (·.1)).Nodup → (sid, st) ∈ l →
      (goGen f l).2.frames.filter (·.1 == sid) = (f sid st).2.frames ∧
      (goGen f l).2.dones.filter (·.1 == sid) = (f sid st).2.dones := by
  intro l
  induction l with
  | nil => intro _ h; cases h
  | cons x rest ih =>
    obtain ⟨k, v⟩ := x
    intro hnd hm
    simp only [List.map_cons, List.nodup_cons] at hnd
    obtain ⟨hk, hnd'⟩ := hnd
    simp only [goGen, COut.add, List.filter_append]
    rcases List.mem_cons.mp hm with h | h
    · have hk' : k = sid := (congrArg Prod.fst h).symm
      have hv : v = st := (congrArg Prod.snd h).symm
      subst hk' hv
      obtain ⟨a1, a2⟩ := goGen_out_absent f hf rest hk
      rw [a1, a2, filter_eq_self_of_tag (hf k v).1, filter_eq_self_of_tag (hf k v).2]
      simp
    · have hne : k ≠ sid := by
        intro hks; subst hks
        exact hk (List.mem_map.mpr ⟨(k, st), h, rfl⟩)
      obtain ⟨i1, i2⟩ := ih hnd' h
      rw [i1, i2, filter_eq_nil_of_tag (hf k v).1 hne, filter_eq_nil_of_tag (hf k v).2 hne]
      simp

/-! ## one endpoint step, seen from one stream -/

/-- the result `r` of an endpoint step agrees, for stream `sid` whose object was `st`, with the
    stream-level run of the tagged events `tes`: the object, the frames and the completions -/
def StepOK (cfg : CCfg) (sid : Sid) (st : CStream α) (tes : List (Bool × CEv α)) (r : Cli α × COut α) : Prop :=
  (sid, (runEvW cfg sid st tes).1) ∈ r.1.streams ∧
  r.2.frames.filter (·.1 == sid) = (runEvW cfg sid st tes).2.flatMap (·.frames) ∧
  r.2.dones.filter (·.1 == sid) = (runEvW cfg sid st tes).2.flatMap (·.dones) ∧
  (∀ te ∈ tes, te.1 = true → r.1.finished.isSome = true)

theorem StepOK.nil {cfg : CCfg} {sid : Sid} {st : CStream α} {r : Cli α × COut α}
    (h1 : (sid, st) ∈ r.1.streams) (h2 : r.2.frames.filter (·.1 == sid) = [])
    (h3 : r.2.dones.filter (·.1 == sid) = []) : StepOK cfg sid st [] r :=
  ⟨h1, by rw [h2]; rfl, by rw [h3]; rfl, fun te hte => by cases hte⟩

theorem StepOK.single {cfg : CCfg} {sid : Sid} {st : CStream α} {r : Cli α × COut α} {b : Bool} {e : CEv α}
    (h1 : (sid, (st.stepEv cfg sid e).1) ∈ r.1.streams)
    (h2 : r.2.frames.filter (·.1 == sid) = (wireOut sid b e (st.stepEv cfg sid e).2).frames)
    (h3 : r.2.dones.filter (·.1 == sid) = (wireOut sid b e (st.stepEv cfg sid e).2).dones)
    (h4 : b = true → r.1.finished.isSome = true) :
    StepOK cfg sid st [(b, e)] r :=
  ⟨h1, by rw [h2]; simp [runEvW], by rw [h3]; simp [runEvW],
   fun te hte hb => by rw [List.mem_singleton.mp hte] at hb; exact h4 hb⟩

theorem close_false_eq (c : Cli α) (err : Option String) (h : c.finished = none) :
    (c.close err false).1.streams = (goGen closeF c.streams).1 ∧
    (c.close err false).2.frames = [] ∧
    (c.close err false).2.dones = (goGen closeF c.streams).2.dones := by
  unfold Cli.close
  rw [h]
  simp [COut.add, close_go_eq]

theorem close_proj (cfg : CCfg) (c : Cli α) (err : Option String) (sid : Sid) (st : CStream α)
    (hu : (ids c).Nodup) (hm : (sid, st) ∈ c.streams) :
    StepOK cfg sid st (closeEvs c sid) (c.close err false) := by
  cases hfin : c.finished with
  | some e =>
    have hf : c.finished.isSome = true := by simp [hfin]
    rw [Proofs.Teardown.close_idempotent c err false hf]
    simp only [closeEvs, hf, if_true]
    exact StepOK.nil hm rfl rfl
  | none =>
    obtain ⟨e1, e2, e3⟩ := close_false_eq c err hfin
    obtain ⟨o1, o2⟩ := goGen_out closeF closeF_onlySid c.streams hu hm
    have hmem := goGen_mem closeF c.streams hm
    simp only [closeEvs, hfin, Option.isSome_none, Bool.false_eq_true, if_false, getStream_of_mem hu hm]
    cases ht : st.inTable with
    | true =>
      simp only [if_true, Option.isSome_some]
      have hc : closeF sid st = st.ctxCancelled sid .canceled := by simp [closeF, ht]
      rw [hc] at hmem o2
      refine StepOK.single ?_ ?_ ?_ (fun _ => Proofs.Teardown.close_finished c err false)
      · rw [e1]; exact hmem
      · rw [e2]; rfl
      · rw [e3, o2]; rfl
    | false =>
      simp only [Bool.false_eq_true, if_false, Option.isSome_none]
      have hc : closeF sid st = (st, {}) := by simp [closeF, ht]
      rw [hc] at hmem o2
      refine StepOK.nil ?_ ?_ ?_
      · rw [e1]; exact hmem
      · rw [e2]; rfl
      · rw [e3, o2]

theorem tick_eq (c : Cli α) (d : Nat) :
    (c.tick d).1.streams = (goGen (tickF (c.now + d)) c.streams).1 ∧
    (c.tick d).2.frames = (if c.finished.isSome then [] else (goGen (tickF (c.now + d)) c.streams).2.frames) ∧
    (c.tick d).2.dones = (goGen (tickF (c.now + d)) c.streams).2.dones := by
  simp only [Cli.tick, tick_go_eq]
  refine ⟨True.intro, ?_, ?_⟩ <;> split <;> rfl

theorem tick_proj (cfg : CCfg) (c : Cli α) (d : Nat) (sid : Sid) (st : CStream α)
    (hu : (ids c).Nodup) (hm : (sid, st) ∈ c.streams) :
    StepOK cfg sid st (tevStep cfg sid c (.tick d)) (c.tick d) := by
  obtain ⟨e1, e2, e3⟩ := tick_eq c d
  obtain ⟨o1, o2⟩ := goGen_out (tickF (c.now + d)) (tickF_onlySid _) c.streams hu hm
  have hmem := goGen_mem (tickF (c.now + d)) c.streams hm
  have hquiet : tickF (c.now + d) sid st = (st, {}) → StepOK cfg sid st [] (c.tick d) := by
    intro hc
    rw [hc] at hmem o1 o2
    refine StepOK.nil ?_ ?_ ?_
    · rw [e1]; exact hmem
    · rw [e2]; split
      · rfl
      · exact o1
    · rw [e3, o2]
  simp only [tevStep, getAny_of_mem hu hm]
  cases hdl : st.deadline with
  | none => exact hquiet (by simp [tickF, hdl])
  | some dl =>
    simp only []
    by_cases hle : dl ≤ c.now + d
    · cases hcd : st.ctxDone with
      | some x =>
        simp only [hle, Option.isNone_some, Bool.false_eq_true, and_false, if_false]
        refine hquiet ?_
        simp only [tickF, hdl, hle, if_true]
        exact Proofs.ClientShape.ctxCancelled_done sid st _ (by simp [hcd])
      | none =>
        simp only [hle, Option.isNone_none, and_self, if_true]
        have hc : tickF (c.now + d) sid st = st.ctxCancelled sid .deadline := by simp [tickF, hdl, hle]
        rw [hc] at hmem o1 o2
        refine StepOK.single ?_ ?_ ?_ (fun hb => by rw [Proofs.Teardown.tick_finished]; exact hb)
        · rw [e1]; exact hmem
        · rw [e2]
          cases hf : c.finished.isSome with
          | true => rfl
          | false => exact o1
        · rw [e3, o2]
          cases hf : c.finished.isSome <;> rfl
    · simp only [hle, false_and, if_false]
      exact hquiet (by simp [tickF, hdl, hle])

theorem onFrame_proj (cfg : CCfg) (c : Cli α) (sid' : Sid) (f : S2C α) (sid : Sid) (st : CStream α)
    (hu : (ids c).Nodup) (hm : (sid, st) ∈ c.streams) :
    StepOK cfg sid st (tevStep cfg sid c (.frame sid' f)) (c.onFrame cfg sid' f) := by
  cases hfin : c.finished with
  | some e =>
    have hf : c.finished.isSome = true := by simp [hfin]
    rw [Proofs.Teardown.finished_ignores_frames cfg c sid' f hf]
    simp only [tevStep, hf, if_true]
    exact StepOK.nil hm rfl rfl
  | none =>
    cases hph : c.phase with
    | awaitingSettings =>
      have e1 : c.onFrame cfg sid' f = c.onSettingsPhase cfg sid' f := by
        unfold Cli.onFrame; simp [hfin, hph]
      rw [e1]
      unfold Cli.onSettingsPhase
      simp only [tevStep, hfin, hph, Option.isSome_none, Bool.false_eq_true, if_false, beq_self_eq_true, if_true]
      cases h1 : (sid' != -1) with
      | true => simp only [if_true]; exact close_proj cfg c _ sid st hu hm
      | false =>
        simp only [Bool.false_eq_true, if_false]
        cases f with
        | settings win revs =>
          simp only []
          cases hsel : Negotiate.select cfg.revs revs with
          | none => simp only []; exact close_proj cfg c _ sid st hu hm
          | some r => simp only []; exact StepOK.nil hm rfl rfl
        | _ => simp only []; exact close_proj cfg c _ sid st hu hm
    | running =>
      have hnp : (c.phase == Phase.awaitingSettings) = false := by rw [hph]; rfl
      cases hg : c.getStream sid' with
      | some st' =>
        rw [Proofs.ClientInv.onFrame_running cfg c sid' f st' hfin hph hg]
        simp only [tevStep, hfin, hnp, hg, Option.isSome_none, Bool.false_eq_true, if_false]
        by_cases hs : sid' = sid
        · subst hs
          have hst : st' = st := by
            rw [getStream_of_mem hu hm] at hg
            split at hg
            · exact (Option.some.inj hg).symm
            · cases hg
          subst hst
          simp only [if_true]
          have ho := Proofs.ClientInv.CStream_onFrame_onlySid cfg sid' st' f
          refine StepOK.single (setAny_mem_self _ hm) ?_ ?_ (fun hb => by cases hb)
          · exact filter_eq_self_of_tag ho.1
          · exact filter_eq_self_of_tag ho.2
        · simp only [hs, if_false]
          have ho := Proofs.ClientInv.CStream_onFrame_onlySid cfg sid' st' f
          exact StepOK.nil (setAny_mem_other _ hm hs) (filter_eq_nil_of_tag ho.1 hs)
            (filter_eq_nil_of_tag ho.2 hs)
      | none =>
        unfold Cli.onFrame
        simp only [tevStep, hfin, hnp, hg, Option.isSome_none, Bool.false_eq_true, if_false]
        split
        · exact StepOK.nil hm rfl rfl
        · exact close_proj cfg c _ sid st hu hm

/-- on a finished channel no call leaves a send pending (every stream is settled there) -/
theorem finished_psend_none (cfg : CCfg) {c : Cli α} (hinv : PInv c) (hf : c.finished.isSome = true)
    {sid : Sid} {st : CStream α} (hm : (sid, st) ∈ c.streams) (k : CCall α) :
    (st.onCall cfg sid k).1.psend = none := by
  have ht : st.inTable = false := hinv.fo hf (sid, st) hm
  cases hd : st.done with
  | none => have := hinv.ct (sid, st) hm hd; rw [ht] at this; cases this
  | some e =>
    have hd' := Proofs.ClientShape.onCall_keeps_done cfg sid st k e hd
    have hwf := Proofs.ClientShape.onCall_WF cfg sid st k (hinv.wf (sid, st) hm)
    exact (Proofs.Teardown.settled_of_done hwf (by rw [hd']; rfl)).2.2.2.1

theorem clear_psend_eq {s : CStream α} (h : s.psend = none) : { s with psend := none } = s := by
  cases s; simp_all

theorem onCall_proj (cfg : CCfg) (c : Cli α) (sid' : Sid) (k : CCall α) (sid : Sid) (st : CStream α)
    (hinv : PInv c) (hm : (sid, st) ∈ c.streams) :
    StepOK cfg sid st (tevStep cfg sid c (.call sid' k)) (c.onCall cfg sid' k) := by
  have hu := hinv.u.1
  by_cases hs : sid' = sid
  · subst hs
    simp only [tevStep, if_true]
    have ho := Proofs.ClientInv.CStream_onCall_onlySid cfg sid' st k
    unfold Cli.onCall
    rw [getAny_of_mem hu hm]
    simp only []
    cases hf : c.finished.isSome with
    | false =>
      simp only [Bool.false_and, Bool.false_eq_true, if_false]
      exact StepOK.single (setAny_mem_self _ hm) (filter_eq_self_of_tag ho.1) (filter_eq_self_of_tag ho.2)
        (fun hb => by cases hb)
    | true =>
      have hps := finished_psend_none cfg hinv hf hm k
      cases hfe : (st.onCall cfg sid' k).2.frames.isEmpty with
      | true =>
        simp only [Bool.not_true, Bool.and_false, Bool.false_eq_true, if_false]
        have hnil : (st.onCall cfg sid' k).2.frames = [] := List.isEmpty_iff.mp hfe
        refine StepOK.single (setAny_mem_self _ hm) ?_ ?_ (fun _ => hf)
        · rw [filter_eq_self_of_tag ho.1, hnil]
          cases k <;> simp [wireOut, CStream.stepEv, hnil]
        · rw [filter_eq_self_of_tag ho.2]
          cases k <;> simp [wireOut, CStream.stepEv, hnil]
      | false =>
        simp only [Bool.not_false, Bool.and_self, if_true]
        cases k with
        | send m =>
          simp only []
          rw [clear_psend_eq hps]
          refine StepOK.single (setAny_mem_self _ hm) ?_ ?_ (fun _ => hf)
          · simp [wireOut, CStream.stepEv, hfe]
          · simp [wireOut, CStream.stepEv, hfe]
        | _ =>
          simp only []
          refine StepOK.single (setAny_mem_self _ hm) ?_ ?_ (fun _ => hf)
          · simp [wireOut, CStream.stepEv]
          · rw [filter_eq_self_of_tag (l := COut.dones _) ho.2]
            simp [wireOut, CStream.stepEv]
  · simp only [tevStep, hs, if_false]
    obtain ⟨ho, _, _, hk⟩ := Proofs.ClientInv.client_call_local cfg c sid' k
    exact StepOK.nil (hk (sid, st) hm (fun e => hs e.symm)) (filter_eq_nil_of_tag ho.1 hs)
      (filter_eq_nil_of_tag ho.2 hs)

/-- the stream object `Cli.newStream` builds, before a pre-cancelled context is applied -/
def freshStream (cfg : CCfg) (c : Cli α) (cs ss : Bool) (t : Option Nat) : CStream α :=
  { cs := cs, ss := ss, fc := c.rev != 0, rcv := RcvQ.init cfg.W, win := c.peerWin,
    deadline := t.map (· + c.now) }

/-- the stream-level events of the creating step itself: a pre-cancelled context -/
def creationEvs (cn : Bool) : List (CEv α) := if cn then [.ctx .canceled] else []

/-- `Cli.newStream`, spelled out: it fails and changes nothing, or it appends the fresh object
    under the allocated id, applies a pre-cancelled context to it, and emits the `new_stream`
    frame and the completion of "new" followed by the outputs of that cancellation -/
theorem newStream_cases (cfg : CCfg) (c : Cli α) (cs ss : Bool) (m : List Nat) (md : MD)
    (t : Option Nat) (cn : Bool) :
    ((c.newStream cfg cs ss m md t cn).1 = c ∧ (c.newStream cfg cs ss m md t cn).2.1.frames = [] ∧
      ∀ d ∈ (c.newStream cfg cs ss m md t cn).2.1.dones, d.1 = 0) ∨
    (∃ n, IdRules.allocate c.lastStreamID = some n ∧ c.finished = none ∧
      (∀ e ∈ c.streams, e.1 ≠ n → e ∈ (c.newStream cfg cs ss m md t cn).1.streams) ∧
      (n, (CStream.runEv cfg n (freshStream cfg c cs ss t) (creationEvs cn)).1) ∈
        (c.newStream cfg cs ss m md t cn).1.streams ∧
      (c.newStream cfg cs ss m md t cn).2.1.frames =
        (n, C2S.newStream m md c.rev cfg.W) ::
          (CStream.runEv cfg n (freshStream cfg c cs ss t) (creationEvs cn)).2.flatMap (·.frames) ∧
      (c.newStream cfg cs ss m md t cn).2.1.dones =
        (n, "new", Res.ok) ::
          (CStream.runEv cfg n (freshStream cfg c cs ss t) (creationEvs cn)).2.flatMap (·.dones)) := by
  unfold Cli.newStream
  split
  · left; refine ⟨rfl, rfl, ?_⟩; intro d hd; simp at hd; rw [hd]
  · rename_i hfin
    have hfin' : c.finished = none := by
      cases hc : c.finished with
      | none => rfl
      | some v => rw [hc] at hfin; exact absurd rfl hfin
    split
    · left; refine ⟨rfl, rfl, ?_⟩; intro d hd; simp at hd; rw [hd]
    · rename_i n hn
      right
      refine ⟨n, hn, hfin', ?_⟩
      cases cn with
      | true =>
        simp only [if_true, creationEvs, CStream.runEv, CStream.stepEv, freshStream, COut.add]
        refine ⟨?_, ?_, by simp, by simp⟩
        · intro e he hne
          exact Proofs.ClientInv.setAny_keeps_others _ n _ e (List.mem_append_left _ he) hne
        · exact setAny_mem_self _ (List.mem_append_right _ (List.mem_singleton.mpr rfl))
      | false =>
        simp only [Bool.false_eq_true, if_false, creationEvs, CStream.runEv, freshStream]
        refine ⟨?_, ?_, by simp, by simp⟩
        · intro e he _
          exact List.mem_append_left _ he
        · exact List.mem_append_right _ (List.mem_singleton.mpr rfl)

theorem runEv_cons (cfg : CCfg) (sid : Sid) (s : CStream α) (e : CEv α) (es : List (CEv α)) :
    CStream.runEv cfg sid s (e :: es) =
      ((CStream.runEv cfg sid (s.stepEv cfg sid e).1 es).1,
       (s.stepEv cfg sid e).2 :: (CStream.runEv cfg sid (s.stepEv cfg sid e).1 es).2) := rfl

theorem runEvW_cons (cfg : CCfg) (sid : Sid) (s : CStream α) (b : Bool) (e : CEv α) (es : List (Bool × CEv α)) :
    runEvW cfg sid s ((b, e) :: es) =
      ((runEvW cfg sid (s.stepEv cfg sid e).1 es).1,
       wireOut sid b e (s.stepEv cfg sid e).2 :: (runEvW cfg sid (s.stepEv cfg sid e).1 es).2) := rfl

/-- every output of a stream-level run is tagged with the stream's id -/
theorem runEv_tagged (cfg : CCfg) (sid : Sid) (evs : List (CEv α)) : ∀ (s : CStream α),
    (∀ f ∈ (CStream.runEv cfg sid s evs).2.flatMap (·.frames), f.1 = sid) ∧
    (∀ d ∈ (CStream.runEv cfg sid s evs).2.flatMap (·.dones), d.1 = sid) := by
  induction evs with
  | nil => intro s; constructor <;> intro x hx <;> cases hx
  | cons e es ih =>
    intro s
    rw [runEv_cons]
    have ho := stepEv_onlySid cfg sid s e
    obtain ⟨i1, i2⟩ := ih (s.stepEv cfg sid e).1
    simp only [List.flatMap_cons, List.mem_append]
    exact ⟨fun f hf => hf.elim (ho.1 f) (i1 f), fun d hd => hd.elim (ho.2 d) (i2 d)⟩

/-- **one endpoint step, projected on an existing stream**: the stream object after the step is
    the stream-level run of the extracted events on the object before, and the frames and
    completions the step emits under that id are the stream-level outputs as the carrier lets
    them through -/
theorem step_proj (cfg : CCfg) (c : Cli α) (x : CStim α) (sid : Sid) (st : CStream α)
    (hinv : PInv c) (hm : (sid, st) ∈ c.streams) :
    StepOK cfg sid st (tevStep cfg sid c x) (c.step cfg x) := by
  have hu := hinv.u.1
  cases x with
  | frame sid' f => exact onFrame_proj cfg c sid' f sid st hu hm
  | new cs ss m md t cn =>
    show StepOK cfg sid st [] ((c.newStream cfg cs ss m md t cn).1, (c.newStream cfg cs ss m md t cn).2.1)
    have hs0 : (0 : Int) ≠ sid := fun e => hinv.u.2.2.1 sid (mem_ids hm) e.symm
    rcases newStream_cases cfg c cs ss m md t cn with ⟨h1, h2, h3⟩ | ⟨n, hal, _, hk, _, hfr, hdn⟩
    · refine StepOK.nil ?_ ?_ ?_
      · show (sid, st) ∈ (c.newStream cfg cs ss m md t cn).1.streams
        rw [h1]; exact hm
      · show (c.newStream cfg cs ss m md t cn).2.1.frames.filter _ = []
        rw [h2]; rfl
      · exact filter_eq_nil_of_tag h3 hs0
    · have hne : n ≠ sid := fun e => (alloc_fresh hinv.u hal).1 (e ▸ mem_ids hm)
      obtain ⟨t1, t2⟩ := runEv_tagged cfg n (creationEvs cn) (freshStream cfg c cs ss t)
      refine StepOK.nil (hk (sid, st) hm (fun e => hne e.symm)) ?_ ?_
      · show (c.newStream cfg cs ss m md t cn).2.1.frames.filter _ = []
        rw [hfr]
        refine filter_eq_nil_of_tag ?_ hne
        intro f hf
        rcases List.mem_cons.mp hf with h | h
        · rw [h]
        · exact t1 f h
      · show (c.newStream cfg cs ss m md t cn).2.1.dones.filter _ = []
        rw [hdn]
        refine filter_eq_nil_of_tag ?_ hne
        intro d hd
        rcases List.mem_cons.mp hd with h | h
        · rw [h]
        · exact t2 d h
  | call sid' k => exact onCall_proj cfg c sid' k sid st hinv hm
  | tick d => exact tick_proj cfg c d sid st hu hm
  | carrierEnds err =>
    show StepOK cfg sid st (closeEvs c sid) (c.carrierEnds err)
    unfold Cli.carrierEnds
    split <;> exact close_proj cfg c _ sid st hu hm
  | close => exact close_proj cfg c none sid st hu hm

/-! ## whole runs -/

theorem run_cons (cfg : CCfg) (c : Cli α) (x : CStim α) (xs : List (CStim α)) :
    Cli.run cfg c (x :: xs) =
      ((Cli.run cfg (c.step cfg x).1 xs).1, (c.step cfg x).2 :: (Cli.run cfg (c.step cfg x).1 xs).2) := rfl

theorem run_append (cfg : CCfg) (xs ys : List (CStim α)) : ∀ (c : Cli α),
    Cli.run cfg c (xs ++ ys) =
      ((Cli.run cfg (Cli.run cfg c xs).1 ys).1, (Cli.run cfg c xs).2 ++ (Cli.run cfg (Cli.run cfg c xs).1 ys).2) := by
  induction xs with
  | nil => intro c; rfl
  | cons x xs ih => intro c; simp only [List.cons_append, run_cons, ih]

theorem run_split (cfg : CCfg) (c : Cli α) (pre : List (CStim α)) (x : CStim α) (post : List (CStim α)) :
    (Cli.run cfg c (pre ++ x :: post)).1 = (Cli.run cfg ((Cli.run cfg c pre).1.step cfg x).1 post).1 ∧
    (Cli.run cfg c (pre ++ x :: post)).2 =
      (Cli.run cfg c pre).2 ++ ((Cli.run cfg c pre).1.step cfg x).2 ::
        (Cli.run cfg ((Cli.run cfg c pre).1.step cfg x).1 post).2 := by
  rw [run_append, run_cons]; exact ⟨rfl, rfl⟩

theorem run_length (cfg : CCfg) (xs : List (CStim α)) : ∀ (c : Cli α), (Cli.run cfg c xs).2.length = xs.length := by
  induction xs with
  | nil => intro c; rfl
  | cons x xs ih => intro c; simp only [run_cons, List.length_cons, ih]

theorem runEvW_append (cfg : CCfg) (sid : Sid) (a b : List (Bool × CEv α)) : ∀ (s : CStream α),
    runEvW cfg sid s (a ++ b) =
      ((runEvW cfg sid (runEvW cfg sid s a).1 b).1,
       (runEvW cfg sid s a).2 ++ (runEvW cfg sid (runEvW cfg sid s a).1 b).2) := by
  induction a with
  | nil => intro s; rfl
  | cons te a ih =>
    obtain ⟨t, e⟩ := te
    intro s
    simp only [List.cons_append, runEvW_cons, ih]

/-- the tags do not influence the state -/
theorem runEvW_fst (cfg : CCfg) (sid : Sid) (tes : List (Bool × CEv α)) : ∀ (s : CStream α),
    (runEvW cfg sid s tes).1 = (CStream.runEv cfg sid s (tes.map (·.2))).1 := by
  induction tes with
  | nil => intro s; rfl
  | cons te tes ih =>
    obtain ⟨t, e⟩ := te
    intro s
    simp only [List.map_cons, runEvW_cons, runEv_cons, ih]

/-- with no `true` tag, `runEvW` is `runEv` -/
theorem runEvW_live (cfg : CCfg) (sid : Sid) (tes : List (Bool × CEv α)) (h : ∀ te ∈ tes, te.1 = false) :
    ∀ (s : CStream α), runEvW cfg sid s tes = CStream.runEv cfg sid s (tes.map (·.2)) := by
  induction tes with
  | nil => intro s; rfl
  | cons te tes ih =>
    obtain ⟨t, e⟩ := te
    intro s
    have ht : t = false := h (t, e) List.mem_cons_self
    subst ht
    simp only [List.map_cons, runEvW_cons, runEv_cons, ih (fun te hte => h te (List.mem_cons_of_mem _ hte)),
      wireOut, Bool.false_eq_true, if_false]

theorem framesFor_cons (sid : Sid) (o : COut α) (os : List (COut α)) :
    framesFor sid (o :: os) = o.frames.filter (·.1 == sid) ++ framesFor sid os := rfl
theorem donesFor_cons (sid : Sid) (o : COut α) (os : List (COut α)) :
    donesFor sid (o :: os) = o.dones.filter (·.1 == sid) ++ donesFor sid os := rfl

/-- **the projection of a run on an existing stream** (from any state satisfying the invariant) -/
theorem run_proj (cfg : CCfg) (sid : Sid) : ∀ (xs : List (CStim α)) (c : Cli α) (st : CStream α),
    PInv c → (sid, st) ∈ c.streams →
    (sid, (runEvW cfg sid st (tevsOf cfg sid c xs)).1) ∈ (Cli.run cfg c xs).1.streams ∧
    framesFor sid (Cli.run cfg c xs).2 = (runEvW cfg sid st (tevsOf cfg sid c xs)).2.flatMap (·.frames) ∧
    donesFor sid (Cli.run cfg c xs).2 = (runEvW cfg sid st (tevsOf cfg sid c xs)).2.flatMap (·.dones) := by
  intro xs
  induction xs with
  | nil => intro c st _ hm; exact ⟨hm, rfl, rfl⟩
  | cons x xs ih =>
    intro c st hinv hm
    obtain ⟨s1, s2, s3, _⟩ := step_proj cfg c x sid st hinv hm
    obtain ⟨i1, i2, i3⟩ := ih (c.step cfg x).1 _ (pinv_step cfg c x hinv) s1
    simp only [tevsOf, run_cons, runEvW_append, framesFor_cons, donesFor_cons, List.flatMap_append]
    exact ⟨i1, by rw [s2, i2], by rw [s3, i3]⟩

/-! ## the creating `NewStream` -/

/-- **`x`, applied in state `c0`, is the `NewStream` call that created stream `sid`**: the id was
    not in use, it is the one `allocate` hands out, the channel was live; `st0` is the stream
    object the step installed, i.e. the fresh object after the stream-level events of the
    creating step (`creationEvs`: a pre-cancelled context ends at once); the step emits the
    `new_stream` frame and the completion of "new", then the outputs of those events. -/
def Creates (cfg : CCfg) (c0 : Cli α) (x : CStim α) (sid : Sid) (st0 : CStream α) : Prop :=
  ∃ cs ss m md t cn, x = .new cs ss m md t cn ∧ sid ∉ ids c0 ∧
    IdRules.allocate c0.lastStreamID = some sid ∧ c0.finished = none ∧
    st0 = (CStream.runEv cfg sid (freshStream cfg c0 cs ss t) (creationEvs cn)).1 ∧
    (sid, st0) ∈ (c0.step cfg x).1.streams ∧
    (c0.step cfg x).2.frames = (sid, C2S.newStream m md c0.rev cfg.W) ::
      (CStream.runEv cfg sid (freshStream cfg c0 cs ss t) (creationEvs cn)).2.flatMap (·.frames) ∧
    (c0.step cfg x).2.dones = (sid, "new", Res.ok) ::
      (CStream.runEv cfg sid (freshStream cfg c0 cs ss t) (creationEvs cn)).2.flatMap (·.dones)

/-- a step after which a new id exists is the `NewStream` that created it -/
theorem creates_of_new_id (cfg : CCfg) (c : Cli α) (x : CStim α) (sid : Sid)
    (h0 : sid ∉ ids c) (h1 : sid ∈ ids (c.step cfg x).1) :
    ∃ st0, Creates cfg c x sid st0 := by
  have same : ∀ {c' : Cli α}, Proofs.ClientInv.Same c c' → sid ∈ ids c' → False :=
    fun hs hm => h0 (hs.1 ▸ hm)
  cases x with
  | frame sid' f => exact (same (Proofs.ClientInv.same_onFrame cfg c sid' f) h1).elim
  | call sid' k => exact (same (Proofs.ClientInv.same_onCall cfg c sid' k) h1).elim
  | tick d => exact (same (Proofs.ClientInv.same_tick c d) h1).elim
  | carrierEnds err => exact (same (Proofs.ClientInv.same_carrierEnds c err) h1).elim
  | close => exact (same (Proofs.ClientInv.same_close c none false) h1).elim
  | new cs ss m md t cn =>
    change sid ∈ ids (c.newStream cfg cs ss m md t cn).1 at h1
    rcases newStream_cases cfg c cs ss m md t cn with ⟨e1, _, _⟩ | ⟨n, hal, hfin, _, hmem, hfr, hdn⟩
    · rw [e1] at h1; exact (h0 h1).elim
    · have hn : sid = n := by
        rcases Proofs.ClientInv.newStream_shape cfg c cs ss m md t cn with ⟨_, he⟩ | ⟨n', hal', _, _, hids, _, _⟩
        · rw [he] at h1; exact (h0 h1).elim
        · rw [hal] at hal'
          have : n = n' := Option.some.inj hal'
          subst this
          rw [hids] at h1
          rcases List.mem_append.mp h1 with h | h
          · exact (h0 h).elim
          · exact List.mem_singleton.mp h
      subst hn
      exact ⟨_, cs, ss, m, md, t, cn, rfl, h0, hal, hfin, rfl, hmem, hfr, hdn⟩

/-- an id present after a run and absent before was created by some `NewStream` of the run -/
theorem creation_point (cfg : CCfg) (sid : Sid) : ∀ (xs : List (CStim α)) (c : Cli α), PInv c →
    sid ∉ ids c → sid ∈ ids (Cli.run cfg c xs).1 →
    ∃ pre x post st0, xs = pre ++ x :: post ∧ Creates cfg (Cli.run cfg c pre).1 x sid st0 := by
  intro xs
  induction xs with
  | nil => intro c _ h0 h1; exact (h0 h1).elim
  | cons x xs ih =>
    intro c hinv h0 h1
    by_cases hx : sid ∈ ids (c.step cfg x).1
    · obtain ⟨st0, hc⟩ := creates_of_new_id cfg c x sid h0 hx
      exact ⟨[], x, xs, st0, rfl, hc⟩
    · obtain ⟨pre, y, post, st0, e, hc⟩ := ih (c.step cfg x).1 (pinv_step cfg c x hinv) hx h1
      exact ⟨x :: pre, y, post, st0, by rw [e]; rfl, hc⟩

/-! ## the projection theorems -/

/-- **`proj_state`.**  Every stream object of every reachable endpoint state is the result of a
    stream-level run: the stimulus list splits at the `NewStream` call `x` that created the stream
    (`Creates`), and the object is what `CStream.runEv` makes of the object `st0` that call
    installed, under the stream-level events `evsOf` extracts from the rest of the run. -/
theorem proj_state (cfg : CCfg) (xs : List (CStim α)) (sid : Sid) (st : CStream α)
    (h : (sid, st) ∈ (Cli.run cfg (Cli.start cfg) xs).1.streams) :
    ∃ pre x post st0, xs = pre ++ x :: post ∧
      Creates cfg (Cli.run cfg (Cli.start cfg) pre).1 x sid st0 ∧
      st = (CStream.runEv cfg sid st0
              (evsOf cfg sid ((Cli.run cfg (Cli.start cfg) pre).1.step cfg x).1 post)).1 := by
  have h0 : sid ∉ ids (Cli.start cfg : Cli α) := by simp [ids, Cli.start]
  obtain ⟨pre, x, post, st0, e, hc⟩ := creation_point cfg sid xs _ (pinv_start cfg) h0 (mem_ids h)
  refine ⟨pre, x, post, st0, e, hc, ?_⟩
  obtain ⟨_, _, _, _, _, _, _, _, _, _, _, hmem, _, _⟩ := hc
  have hp0 := pinv_run cfg pre _ (pinv_start cfg (α := α))
  have hp1 := pinv_step cfg _ x hp0
  obtain ⟨r1, _, _⟩ := run_proj cfg sid post _ st0 hp1 hmem
  rw [e, (run_split cfg _ pre x post).1] at h
  have := mem_unique (pinv_run cfg post _ hp1).u.1 h r1
  rw [this, runEvW_fst]
  rfl

theorem runEv_append_fst (cfg : CCfg) (sid : Sid) (a b : List (CEv α)) : ∀ (s : CStream α),
    (CStream.runEv cfg sid s (a ++ b)).1 = (CStream.runEv cfg sid (CStream.runEv cfg sid s a).1 b).1 := by
  induction a with
  | nil => intro s; rfl
  | cons e a ih => intro s; simp only [List.cons_append, runEv_cons, ih]

/-- `proj_state`, from the FRESH stream object (`freshStream`: what `Cli.newStream` builds before
    it applies a pre-cancelled context): the events are those of the creating step
    (`creationEvs cn`: `[.ctx .canceled]` if the caller's context was already done) followed by
    the events extracted from the rest of the run. -/
theorem proj_state_fresh (cfg : CCfg) (xs : List (CStim α)) (sid : Sid) (st : CStream α)
    (h : (sid, st) ∈ (Cli.run cfg (Cli.start cfg) xs).1.streams) :
    ∃ pre cs ss m md t cn post, xs = pre ++ CStim.new cs ss m md t cn :: post ∧
      sid ∉ ids (Cli.run cfg (Cli.start cfg) pre).1 ∧
      IdRules.allocate (Cli.run cfg (Cli.start cfg) pre).1.lastStreamID = some sid ∧
      st = (CStream.runEv cfg sid (freshStream cfg (Cli.run cfg (Cli.start cfg) pre).1 cs ss t)
              (creationEvs cn ++
               evsOf cfg sid ((Cli.run cfg (Cli.start cfg) pre).1.step cfg (.new cs ss m md t cn)).1 post)).1 := by
  obtain ⟨pre, x, post, st0, e, hc, hst⟩ := proj_state cfg xs sid st h
  obtain ⟨cs, ss, m, md, t, cn, hx, habs, hal, _, hst0, _, _, _⟩ := hc
  subst hx
  refine ⟨pre, cs, ss, m, md, t, cn, post, e, habs, hal, ?_⟩
  rw [runEv_append_fst, ← hst0]
  exact hst

/-! ### outputs -/

theorem wireOut_frames (sid : Sid) (b : Bool) (e : CEv α) (o : COut α) :
    (wireOut sid b e o).frames = if b then [] else o.frames := by
  cases b with
  | false => rfl
  | true =>
    simp only [wireOut, if_true]
    split
    · split
      · rename_i h; exact List.isEmpty_iff.mp h
      · rfl
    · rfl

theorem wireOut_onlySid {sid : Sid} (b : Bool) (e : CEv α) {o : COut α} (h : COut.onlySid sid o) :
    COut.onlySid sid (wireOut sid b e o) := by
  cases b with
  | false => exact h
  | true =>
    simp only [wireOut, if_true]
    split
    · split
      · exact h
      · exact Proofs.ClientInv.onlySid_done ..
    · exact Proofs.ClientInv.onlySid_mk Proofs.ClientInv.mem_nil h.2

theorem runEvW_tagged (cfg : CCfg) (sid : Sid) (tes : List (Bool × CEv α)) : ∀ (s : CStream α),
    (∀ f ∈ (runEvW cfg sid s tes).2.flatMap (·.frames), f.1 = sid) ∧
    (∀ d ∈ (runEvW cfg sid s tes).2.flatMap (·.dones), d.1 = sid) := by
  induction tes with
  | nil => intro s; constructor <;> intro x hx <;> cases hx
  | cons te tes ih =>
    obtain ⟨b, e⟩ := te
    intro s
    rw [runEvW_cons]
    have ho := wireOut_onlySid b e (stepEv_onlySid cfg sid s e)
    obtain ⟨i1, i2⟩ := ih (s.stepEv cfg sid e).1
    simp only [List.flatMap_cons, List.mem_append]
    exact ⟨fun f hf => hf.elim (ho.1 f) (i1 f), fun d hd => hd.elim (ho.2 d) (i2 d)⟩

/-- restricting to `sid` does nothing to outputs that are all tagged `sid` -/
theorem framesFor_tagged (sid : Sid) : ∀ (os : List (COut α)), (∀ f ∈ os.flatMap (·.frames), f.1 = sid) →
    framesFor sid os = os.flatMap (·.frames) := by
  intro os
  induction os with
  | nil => intro _; rfl
  | cons o os ih =>
    intro h
    simp only [List.flatMap_cons, List.mem_append] at h
    rw [framesFor_cons, ih (fun f hf => h f (Or.inr hf)), filter_eq_self_of_tag (fun f hf => h f (Or.inl hf))]
    rfl

theorem donesFor_tagged (sid : Sid) : ∀ (os : List (COut α)), (∀ d ∈ os.flatMap (·.dones), d.1 = sid) →
    donesFor sid os = os.flatMap (·.dones) := by
  intro os
  induction os with
  | nil => intro _; rfl
  | cons o os ih =>
    intro h
    simp only [List.flatMap_cons, List.mem_append] at h
    rw [donesFor_cons, ih (fun f hf => h f (Or.inr hf)), filter_eq_self_of_tag (fun f hf => h f (Or.inl hf))]
    rfl

/-- "restricted likewise" is the identity on stream-level outputs -/
theorem framesFor_runEv (cfg : CCfg) (sid : Sid) (s : CStream α) (evs : List (CEv α)) :
    framesFor sid (CStream.runEv cfg sid s evs).2 = (CStream.runEv cfg sid s evs).2.flatMap (·.frames) :=
  framesFor_tagged sid _ (runEv_tagged cfg sid evs s).1
theorem donesFor_runEv (cfg : CCfg) (sid : Sid) (s : CStream α) (evs : List (CEv α)) :
    donesFor sid (CStream.runEv cfg sid s evs).2 = (CStream.runEv cfg sid s evs).2.flatMap (·.dones) :=
  donesFor_tagged sid _ (runEv_tagged cfg sid evs s).2
theorem framesFor_runEvW (cfg : CCfg) (sid : Sid) (s : CStream α) (tes : List (Bool × CEv α)) :
    framesFor sid (runEvW cfg sid s tes).2 = (runEvW cfg sid s tes).2.flatMap (·.frames) :=
  framesFor_tagged sid _ (runEvW_tagged cfg sid tes s).1
theorem donesFor_runEvW (cfg : CCfg) (sid : Sid) (s : CStream α) (tes : List (Bool × CEv α)) :
    donesFor sid (runEvW cfg sid s tes).2 = (runEvW cfg sid s tes).2.flatMap (·.dones) :=
  donesFor_tagged sid _ (runEvW_tagged cfg sid tes s).2

/-- the outputs of the part of the run after the creating step -/
theorem outs_after (cfg : CCfg) (c : Cli α) (pre : List (CStim α)) (x : CStim α) (post : List (CStim α)) :
    (Cli.run cfg c (pre ++ x :: post)).2.drop (pre.length + 1) =
      (Cli.run cfg ((Cli.run cfg c pre).1.step cfg x).1 post).2 := by
  rw [(run_split cfg c pre x post).2, ← run_length cfg pre c]
  simp

/-- **`proj_outputs_partial`** (the strongest true form of `proj_outputs`, see the head of the
    file).  The frames and the completions the endpoint emits under the id `sid` after the step
    that created the stream are exactly the outputs of the stream-level run of the extracted
    events, each passed through `wireOut` with the tag of its event: untouched while the carrier
    is up; once the channel is finished (including the step that finishes it) frames are not
    emitted, and a `SendMsg` that would have emitted frames returns "carrier-closed". -/
theorem proj_outputs_partial (cfg : CCfg) (pre : List (CStim α)) (x : CStim α) (post : List (CStim α))
    (sid : Sid) (st0 : CStream α) (hc : Creates cfg (Cli.run cfg (Cli.start cfg) pre).1 x sid st0) :
    let c1 := ((Cli.run cfg (Cli.start cfg) pre).1.step cfg x).1
    let outs := (Cli.run cfg (Cli.start cfg) (pre ++ x :: post)).2.drop (pre.length + 1)
    let souts := (runEvW cfg sid st0 (tevsOf cfg sid c1 post)).2
    framesFor sid outs = framesFor sid souts ∧ donesFor sid outs = donesFor sid souts ∧
    (runEvW cfg sid st0 (tevsOf cfg sid c1 post)).1 = (CStream.runEv cfg sid st0 (evsOf cfg sid c1 post)).1 := by
  intro c1 outs souts
  obtain ⟨_, _, _, _, _, _, _, _, _, _, _, hmem, _, _⟩ := hc
  have hp1 : PInv c1 := pinv_step cfg _ x (pinv_run cfg pre _ (pinv_start cfg))
  obtain ⟨_, r2, r3⟩ := run_proj cfg sid post c1 st0 hp1 hmem
  refine ⟨?_, ?_, runEvW_fst cfg sid _ st0⟩
  · show framesFor sid ((Cli.run cfg (Cli.start cfg) (pre ++ x :: post)).2.drop (pre.length + 1)) = _
    rw [outs_after, framesFor_runEvW]; exact r2
  · show donesFor sid ((Cli.run cfg (Cli.start cfg) (pre ++ x :: post)).2.drop (pre.length + 1)) = _
    rw [outs_after, donesFor_runEvW]; exact r3

/-- on a finished channel every extracted event is tagged "carrier down" -/
theorem tevStep_down (cfg : CCfg) (sid : Sid) (c : Cli α) (x : CStim α) (h : c.finished.isSome = true) :
    ∀ te ∈ tevStep cfg sid c x, te.1 = true := by
  intro te hte
  cases x with
  | frame sid' f => simp [tevStep, h] at hte
  | new cs ss m md t cn => simp [tevStep] at hte
  | call sid' k =>
    simp only [tevStep] at hte
    split at hte
    · rw [List.mem_singleton.mp hte]; exact h
    · cases hte
  | tick d =>
    simp only [tevStep] at hte
    split at hte
    · split at hte
      · split at hte
        · rw [List.mem_singleton.mp hte]; exact h
        · cases hte
      · cases hte
    · cases hte
  | carrierEnds err => simp [tevStep, closeEvs, h] at hte
  | close => simp [tevStep, closeEvs, h] at hte

/-- as long as the channel is not finished at the end of the run, no event is tagged -/
theorem tags_live (cfg : CCfg) (sid : Sid) : ∀ (xs : List (CStim α)) (c : Cli α) (st : CStream α),
    PInv c → (sid, st) ∈ c.streams → (Cli.run cfg c xs).1.finished = none →
    ∀ te ∈ tevsOf cfg sid c xs, te.1 = false := by
  intro xs
  induction xs with
  | nil => intro c st _ _ _ te hte; cases hte
  | cons x xs ih =>
    intro c st hinv hm hlive te hte
    obtain ⟨s1, _, _, s4⟩ := step_proj cfg c x sid st hinv hm
    rw [run_cons] at hlive
    simp only [tevsOf, List.mem_append] at hte
    rcases hte with hte | hte
    · cases hb : te.1 with
      | false => rfl
      | true =>
        have hf := s4 te hte hb
        rw [Proofs.Teardown.run_keeps_finished cfg xs _ hf] at hlive
        rw [hlive] at hf; cases hf
    · exact ih _ _ (pinv_step cfg c x hinv) s1 hlive te hte

/-- **`proj_outputs_live`**: `proj_outputs` exactly as asked, for every run at whose end the
    channel is still up (in particular for every prefix of a run up to the step that finishes the
    channel): the endpoint's frames and completions for `sid` after its creation are the
    stream-level outputs. -/
theorem proj_outputs_live (cfg : CCfg) (pre : List (CStim α)) (x : CStim α) (post : List (CStim α))
    (sid : Sid) (st0 : CStream α) (hc : Creates cfg (Cli.run cfg (Cli.start cfg) pre).1 x sid st0)
    (hlive : (Cli.run cfg (Cli.start cfg) (pre ++ x :: post)).1.finished = none) :
    let c1 := ((Cli.run cfg (Cli.start cfg) pre).1.step cfg x).1
    let outs := (Cli.run cfg (Cli.start cfg) (pre ++ x :: post)).2.drop (pre.length + 1)
    let souts := (CStream.runEv cfg sid st0 (evsOf cfg sid c1 post)).2
    framesFor sid outs = framesFor sid souts ∧ donesFor sid outs = donesFor sid souts := by
  intro c1 outs souts
  obtain ⟨h1, h2, _⟩ := proj_outputs_partial cfg pre x post sid st0 hc
  obtain ⟨_, _, _, _, _, _, _, _, _, _, _, hmem, _, _⟩ := hc
  have hp1 : PInv c1 := pinv_step cfg _ x (pinv_run cfg pre _ (pinv_start cfg))
  rw [(run_split cfg _ pre x post).1] at hlive
  have htags := tags_live cfg sid post c1 st0 hp1 hmem hlive
  have := runEvW_live cfg sid _ htags st0
  rw [this] at h1 h2
  exact ⟨h1, h2⟩

/-- frames: what the carrier lets through is a sublist of what the stream produces -/
theorem runEvW_frames_sublist (cfg : CCfg) (sid : Sid) (tes : List (Bool × CEv α)) : ∀ (s : CStream α),
    ((runEvW cfg sid s tes).2.flatMap (·.frames)).Sublist
      ((CStream.runEv cfg sid s (tes.map (·.2))).2.flatMap (·.frames)) := by
  induction tes with
  | nil => intro s; exact List.Sublist.refl _
  | cons te tes ih =>
    obtain ⟨b, e⟩ := te
    intro s
    simp only [List.map_cons, runEvW_cons, runEv_cons, List.flatMap_cons, wireOut_frames]
    refine List.Sublist.append ?_ (ih _)
    cases b
    · exact List.Sublist.refl _
    · exact List.nil_sublist _

/-- **frames, in general**: the frames the endpoint emits under `sid` after its creation are a
    sublist of the frames of the stream-level run (those of the events that happened while the
    carrier was up) -/
theorem proj_frames_sublist (cfg : CCfg) (pre : List (CStim α)) (x : CStim α) (post : List (CStim α))
    (sid : Sid) (st0 : CStream α) (hc : Creates cfg (Cli.run cfg (Cli.start cfg) pre).1 x sid st0) :
    let c1 := ((Cli.run cfg (Cli.start cfg) pre).1.step cfg x).1
    (framesFor sid ((Cli.run cfg (Cli.start cfg) (pre ++ x :: post)).2.drop (pre.length + 1))).Sublist
      ((CStream.runEv cfg sid st0 (evsOf cfg sid c1 post)).2.flatMap (·.frames)) := by
  intro c1
  obtain ⟨h1, _, _⟩ := proj_outputs_partial cfg pre x post sid st0 hc
  rw [h1, framesFor_runEvW]
  exact runEvW_frames_sublist cfg sid _ st0

/-! ## which events are extracted: the caller's calls and the routed frames -/

def callOf : CEv α → Option (CCall α)
  | .call k => some k
  | _ => none

def frameOf : CEv α → Option (S2C α)
  | .frame f => some f
  | _ => none

/-- the calls the run addresses to `sid`, in order -/
def callsTo (sid : Sid) (xs : List (CStim α)) : List (CCall α) :=
  xs.filterMap (fun x => match x with | .call sid' k => if sid' = sid then some k else none | _ => none)

/-- the frames the run addresses to `sid`, in order -/
def framesTo (sid : Sid) (xs : List (CStim α)) : List (S2C α) :=
  xs.filterMap (fun x => match x with | .frame sid' f => if sid' = sid then some f else none | _ => none)

/-- the endpoint routes frames to stream `sid`: channel not finished, settings phase over, stream in the table -/
def routes (c : Cli α) (sid : Sid) : Bool :=
  c.finished.isNone && (c.phase == .running) && (c.getStream sid).isSome

/-- the frames addressed to `sid` that arrive while the endpoint routes frames to it, in order -/
def routedTo (cfg : CCfg) (sid : Sid) : Cli α → List (CStim α) → List (S2C α)
  | _, [] => []
  | c, x :: xs =>
    (match x with
      | .frame sid' f => if sid' = sid ∧ routes c sid = true then [f] else []
      | _ => []) ++ routedTo cfg sid (c.step cfg x).1 xs

/-- what "routes" means: the frame is handed to the stream object, and nothing else happens -/
theorem routes_spec (cfg : CCfg) (c : Cli α) (sid : Sid) (f : S2C α) (h : routes c sid = true) :
    ∃ st, c.getStream sid = some st ∧
      c.onFrame cfg sid f = (c.setAny sid (st.onFrame cfg sid f).1, (st.onFrame cfg sid f).2) := by
  simp only [routes, Bool.and_eq_true, beq_iff_eq] at h
  obtain ⟨⟨h1, h2⟩, h3⟩ := h
  cases hg : c.getStream sid with
  | none => rw [hg] at h3; cases h3
  | some st =>
    have hfin : c.finished = none := by
      cases hf : c.finished with
      | none => rfl
      | some v => rw [hf] at h1; cases h1
    exact ⟨st, rfl, Proofs.ClientInv.onFrame_running cfg c sid f st hfin h2 hg⟩

theorem closeEvs_shape (c : Cli α) (sid : Sid) :
    closeEvs c sid = [] ∨ closeEvs c sid = [(true, .ctx .canceled)] := by
  unfold closeEvs
  split
  · left; rfl
  · split
    · right; rfl
    · left; rfl

theorem tevStep_frame_routed (cfg : CCfg) (sid : Sid) (c : Cli α) (f : S2C α) (h : routes c sid = true) :
    tevStep cfg sid c (.frame sid f) = [(false, .frame f)] := by
  simp only [routes, Bool.and_eq_true, beq_iff_eq] at h
  obtain ⟨⟨h1, h2⟩, h3⟩ := h
  have hfin : c.finished = none := by
    cases hf : c.finished with
    | none => rfl
    | some v => rw [hf] at h1; cases h1
  cases hg : c.getStream sid with
  | none => rw [hg] at h3; cases h3
  | some st =>
    have hnp : (c.phase == Phase.awaitingSettings) = false := by rw [h2]; rfl
    simp only [tevStep, hfin, hnp, hg, Option.isSome_none, Bool.false_eq_true, if_false, if_true]

theorem tevStep_frame_unrouted (cfg : CCfg) (sid : Sid) (c : Cli α) (sid' : Sid) (f : S2C α)
    (h : ¬ (sid' = sid ∧ routes c sid = true)) :
    tevStep cfg sid c (.frame sid' f) = [] ∨ tevStep cfg sid c (.frame sid' f) = closeEvs c sid := by
  simp only [tevStep]
  split
  · left; rfl
  · rename_i hfin
    split
    · split
      · right; rfl
      · split
        · split
          · right; rfl
          · left; rfl
        · right; rfl
    · rename_i hph
      split
      · rename_i st hg
        split
        · rename_i hs
          subst hs
          exfalso
          apply h
          refine ⟨rfl, ?_⟩
          have hph' : c.phase = .running := by
            cases hp : c.phase with
            | running => rfl
            | awaitingSettings => rw [hp] at hph; exact absurd rfl hph
          cases hf : c.finished with
          | some v => rw [hf] at hfin; exact absurd rfl hfin
          | none => simp [routes, hf, hph', hg]
        · left; rfl
      · split
        · left; rfl
        · right; rfl

theorem filterMap_tevStep_eq {β : Type} (g : CEv α → Option β) {tes : List (Bool × CEv α)}
    (h : tes = [] ∨ tes = [(true, .ctx .canceled)]) (hg : g (.ctx .canceled) = none) :
    (tes.map (·.2)).filterMap g = [] := by
  rcases h with h | h <;> rw [h] <;> simp [hg]

/-- per step: the `.call` events are the step's call if it is addressed to `sid`, the `.frame`
    events are the step's frame if it is addressed to `sid` and routed -/
theorem tevStep_calls_frames (cfg : CCfg) (sid : Sid) (c : Cli α) (x : CStim α) :
    ((tevStep cfg sid c x).map (·.2)).filterMap callOf =
      (match x with | .call sid' k => if sid' = sid then [k] else [] | _ => []) ∧
    ((tevStep cfg sid c x).map (·.2)).filterMap frameOf =
      (match x with | .frame sid' f => if sid' = sid ∧ routes c sid = true then [f] else [] | _ => []) := by
  have hclose : ∀ {β : Type} (g : CEv α → Option β), g (.ctx .canceled) = none →
      ((closeEvs c sid).map (·.2)).filterMap g = [] :=
    fun g hg => filterMap_tevStep_eq g (closeEvs_shape c sid) hg
  cases x with
  | frame sid' f =>
    simp only []
    by_cases h : sid' = sid ∧ routes c sid = true
    · obtain ⟨h1, h2⟩ := h
      subst h1
      rw [tevStep_frame_routed cfg sid' c f h2]
      simp [callOf, frameOf, h2]
    · rw [if_neg h]
      rcases tevStep_frame_unrouted cfg sid c sid' f h with e | e <;> rw [e]
      · exact ⟨rfl, rfl⟩
      · exact ⟨hclose callOf rfl, hclose frameOf rfl⟩
  | new cs ss m md t cn => exact ⟨rfl, rfl⟩
  | call sid' k =>
    simp only [tevStep]
    split <;> exact ⟨rfl, rfl⟩
  | tick d =>
    simp only [tevStep]
    split
    · split
      · split <;> exact ⟨rfl, rfl⟩
      · exact ⟨rfl, rfl⟩
    · exact ⟨rfl, rfl⟩
  | carrierEnds err => exact ⟨hclose callOf rfl, hclose frameOf rfl⟩
  | close => exact ⟨hclose callOf rfl, hclose frameOf rfl⟩

/-- **`proj_calls_frames`.**  Along any run from any state: the `.call` events extracted for `sid`
    are exactly the calls the run addresses to `sid`, in order; the `.frame` events are exactly
    the frames addressed to `sid` that arrive while the endpoint routes frames to it (`routes`:
    channel up, settings phase over, stream in the table — `routes_spec`), in order; every other
    extracted event is a context end. -/
theorem proj_calls_frames (cfg : CCfg) (sid : Sid) : ∀ (xs : List (CStim α)) (c : Cli α),
    (evsOf cfg sid c xs).filterMap callOf = callsTo sid xs ∧
    (evsOf cfg sid c xs).filterMap frameOf = routedTo cfg sid c xs := by
  intro xs
  induction xs with
  | nil => intro c; exact ⟨rfl, rfl⟩
  | cons x xs ih =>
    intro c
    obtain ⟨s1, s2⟩ := tevStep_calls_frames cfg sid c x
    obtain ⟨i1, i2⟩ := ih (c.step cfg x).1
    unfold evsOf at i1 i2 ⊢
    simp only [tevsOf, List.map_append, List.filterMap_append, s1, s2, i1, i2, routedTo]
    refine ⟨?_, True.intro⟩
    cases x with
    | call sid' k =>
      simp only [callsTo, List.filterMap_cons]
      split <;> simp_all
    | _ => simp [callsTo]

/-- the routed frames are among the frames addressed to the stream, in order -/
theorem routedTo_sublist (cfg : CCfg) (sid : Sid) : ∀ (xs : List (CStim α)) (c : Cli α),
    (routedTo cfg sid c xs).Sublist (framesTo sid xs) := by
  intro xs
  induction xs with
  | nil => intro c; exact List.Sublist.refl _
  | cons x xs ih =>
    intro c
    cases x with
    | frame sid' f =>
      simp only [routedTo, framesTo, List.filterMap_cons]
      by_cases hs : sid' = sid
      · simp only [hs, true_and, if_true]
        split
        · exact (ih _).cons_cons _
        · exact (ih _).cons _
      · simp only [hs, false_and, if_false]
        exact ih _
    | _ => simpa [routedTo, framesTo] using ih _

/-! ## nothing is emitted under an id before its creation -/

theorem close_false_frames (c : Cli α) (err : Option String) : (c.close err false).2.frames = [] := by
  cases hfin : c.finished with
  | some e => rw [Proofs.Teardown.close_idempotent c err false (by simp [hfin])]
  | none => exact (close_false_eq c err hfin).2.1

theorem ids_step_subset (cfg : CCfg) (c : Cli α) (x : CStim α) {sid : Sid} (h : sid ∈ ids c) :
    sid ∈ ids (c.step cfg x).1 := by
  have same : ∀ {c' : Cli α}, Proofs.ClientInv.Same c c' → sid ∈ ids c' := fun hs => hs.1 ▸ h
  cases x with
  | frame sid' f => exact same (Proofs.ClientInv.same_onFrame cfg c sid' f)
  | call sid' k => exact same (Proofs.ClientInv.same_onCall cfg c sid' k)
  | tick d => exact same (Proofs.ClientInv.same_tick c d)
  | carrierEnds err => exact same (Proofs.ClientInv.same_carrierEnds c err)
  | close => exact same (Proofs.ClientInv.same_close c none false)
  | new cs ss m md t cn =>
    show sid ∈ ids (c.newStream cfg cs ss m md t cn).1
    rcases Proofs.ClientInv.newStream_shape cfg c cs ss m md t cn with ⟨_, he⟩ | ⟨n, _, _, _, hids, _, _⟩
    · rw [he]; exact h
    · rw [hids]; exact List.mem_append_left _ h

theorem ids_run_subset (cfg : CCfg) {sid : Sid} : ∀ (xs : List (CStim α)) (c : Cli α), sid ∈ ids c →
    sid ∈ ids (Cli.run cfg c xs).1 := by
  intro xs
  induction xs with
  | nil => intro c h; exact h
  | cons x xs ih => intro c h; rw [run_cons]; exact ih _ (ids_step_subset cfg c x h)

/-- a step emits no frame under an id that has no stream object after the step -/
theorem step_absent (cfg : CCfg) (c : Cli α) (x : CStim α) (sid : Sid)
    (h : sid ∉ ids (c.step cfg x).1) : (c.step cfg x).2.frames.filter (·.1 == sid) = [] := by
  have h0 : sid ∉ ids c := fun hm => h (ids_step_subset cfg c x hm)
  cases x with
  | frame sid' f =>
    show (c.onFrame cfg sid' f).2.frames.filter _ = []
    unfold Cli.onFrame
    split
    · rfl
    · split
      · unfold Cli.onSettingsPhase
        split
        · rw [close_false_frames]; rfl
        · split
          · split
            · rw [close_false_frames]; rfl
            · rfl
          · rw [close_false_frames]; rfl
      · split
        · rename_i st hg
          obtain ⟨e, he, _⟩ := Proofs.ClientInv.getStream_mem c sid' st hg
          have hs : sid' ≠ sid := by
            intro hs; subst hs
            simp only [Cli.getStream, Option.map_eq_some_iff] at hg
            obtain ⟨e', he', _⟩ := hg
            have hk := List.find?_some he'
            simp only [Bool.and_eq_true, beq_iff_eq] at hk
            exact h0 (List.mem_map.mpr ⟨e', List.mem_of_find?_eq_some he', hk.1⟩)
          exact filter_eq_nil_of_tag (Proofs.ClientInv.CStream_onFrame_onlySid cfg sid' st f).1 hs
        · split
          · rfl
          · rw [close_false_frames]; rfl
  | new cs ss m md t cn =>
    show (c.newStream cfg cs ss m md t cn).2.1.frames.filter _ = []
    rcases newStream_cases cfg c cs ss m md t cn with ⟨_, h2, _⟩ | ⟨n, _, _, _, hmem, hfr, _⟩
    · rw [h2]; rfl
    · have hne : n ≠ sid := fun e => h (e ▸ mem_ids hmem)
      obtain ⟨t1, _⟩ := runEv_tagged cfg n (creationEvs cn) (freshStream cfg c cs ss t)
      rw [hfr]
      refine filter_eq_nil_of_tag ?_ hne
      intro f hf
      rcases List.mem_cons.mp hf with h | h
      · rw [h]
      · exact t1 f h
  | call sid' k =>
    show (c.onCall cfg sid' k).2.frames.filter _ = []
    by_cases hs : sid' = sid
    · subst hs
      unfold Cli.onCall
      rw [getAny_none_of_not_mem h0]
      rfl
    · exact filter_eq_nil_of_tag (Proofs.ClientInv.client_call_local cfg c sid' k).1.1 hs
  | tick d =>
    show (c.tick d).2.frames.filter _ = []
    rw [(tick_eq c d).2.1]
    split
    · rfl
    · exact (goGen_out_absent _ (tickF_onlySid _) c.streams h0).1
  | carrierEnds err =>
    show (c.carrierEnds err).2.frames.filter _ = []
    unfold Cli.carrierEnds
    split <;> rw [close_false_frames] <;> rfl
  | close =>
    show (c.close none false).2.frames.filter _ = []
    rw [close_false_frames]; rfl

theorem run_absent (cfg : CCfg) (sid : Sid) : ∀ (xs : List (CStim α)) (c : Cli α),
    sid ∉ ids (Cli.run cfg c xs).1 → framesFor sid (Cli.run cfg c xs).2 = [] := by
  intro xs
  induction xs with
  | nil => intro c _; rfl
  | cons x xs ih =>
    intro c h
    rw [run_cons] at h ⊢
    have h1 : sid ∉ ids (c.step cfg x).1 := fun hm => h (ids_run_subset cfg xs _ hm)
    rw [framesFor_cons, step_absent cfg c x sid h1, ih _ h]
    rfl

/-! ## events

  `COut.events` are untagged strings (no stream id), so they cannot be restricted to a stream.
  What can be said, and is proved here: no stream-level operation emits an event, so every event
  of an endpoint run is channel-level ("settings-ok", "chan-finished", "no-such-stream"), and
  `wireOut` does not add any.  The projection of outputs is therefore about frames and completions. -/

def NoEv (o : COut α) : Prop := o.events = []

theorem noEv_add {a b : COut α} (ha : NoEv a) (hb : NoEv b) : NoEv (a.add b) := by
  unfold NoEv at *; simp [COut.add, ha, hb]

theorem ctxEnds_noEv (sid : Sid) (s : CStream α) (e : CtxErr) (b : Bool) : NoEv (s.ctxEnds sid e b).2 := by
  unfold CStream.ctxEnds
  split
  · rfl
  · extract_lets s1
    split; rename_i s2 o1 h1
    split; rename_i s3 o2 h2
    have ho1 : NoEv o1 := by
      rw [Proofs.ClientInv.snd_eq h1]
      split <;> rfl
    have ho2 : NoEv o2 := by
      rw [Proofs.ClientInv.snd_eq h2]
      split <;> rfl
    exact noEv_add ho1 ho2

theorem resumeRead_noEv (sid : Sid) : ∀ (fuel : Nat) (s : CStream α),
    NoEv (CStream.resumeRead sid fuel s).2.1 := by
  intro fuel
  induction fuel with
  | zero => intro s; rfl
  | succ fuel ih =>
    intro s
    unfold CStream.resumeRead
    split
    · rfl
    · split
      rename_i rwin q credits out hr
      extract_lets cf rcv0 s1 failWith e
      have hfw : ∀ (x : CStream α) (e : SErr) (b : Bool), NoEv (failWith x e b).2.1 := fun _ _ _ => rfl
      clear_value cf s1 failWith
      split
      · split
        · split
          · rfl
          · exact hfw ..
        · rfl
      · split
        · exact hfw ..
        · split
          · rfl
          · extract_lets s2
            split; rename_i s3 o3 c3 h3
            have : o3 = (CStream.resumeRead sid fuel s2).2.1 := by rw [h3]
            refine noEv_add rfl ?_
            rw [this]; exact ih s2
      · exact hfw ..
      · rfl

theorem finish_noEv (sid : Sid) (s : CStream α) (err : Option SErr) (tr : MD) :
    NoEv (s.finish sid err tr).2.1 := by
  unfold CStream.finish
  split
  · rfl
  · extract_lets e s1
    split; rename_i s2 o1 h1
    split; rename_i s3 o2 c2 h2
    split; rename_i s4 o3 h3
    have ho1 : NoEv o1 := by
      rw [Proofs.ClientInv.snd_eq h1]
      split <;> rfl
    have ho2 : NoEv o2 := by
      have : o2 = (CStream.resumeRead sid 3 s2).2.1 := by rw [h2]
      rw [this]; exact resumeRead_noEv _ _ _
    have ho3 : NoEv o3 := by
      rw [Proofs.ClientInv.snd_eq h3]; exact ctxEnds_noEv ..
    exact noEv_add (noEv_add ho1 ho2) ho3

theorem finish_proj_noEv (sid : Sid) (s : CStream α) (err : Option SErr) (tr : MD) :
    NoEv (match s.finish sid err tr with | (s1, o1, _) => (s1, o1)).2 := by
  split; rename_i s1 o1 w h
  have : o1 = (s.finish sid err tr).2.1 := by rw [h]
  rw [this]; exact finish_noEv ..

theorem cancelStream_noEv (sid : Sid) (s : CStream α) (err : SErr) : NoEv (s.cancelStream sid err).2 := by
  unfold CStream.cancelStream
  split; rename_i s1 o1 won h1
  have ho1 : NoEv o1 := by
    have : o1 = (s.finish sid (some err) []).2.1 := by rw [h1]
    rw [this]; exact finish_noEv ..
  split
  · exact ho1
  · exact noEv_add ho1 rfl

theorem afterRead_noEv (sid : Sid) (r : CStream α × COut α × Option SErr) (h : NoEv r.2.1) :
    NoEv (CStream.afterRead sid r).2 := by
  unfold CStream.afterRead
  split
  · exact h
  · split; rename_i s2 o2 h2
    refine noEv_add h ?_
    rw [Proofs.ClientInv.snd_eq h2]; exact cancelStream_noEv ..

theorem ctxCancelled_noEv (sid : Sid) (s : CStream α) (e : CtxErr) : NoEv (s.ctxCancelled sid e).2 := by
  unfold CStream.ctxCancelled
  split
  · rfl
  · split; rename_i s1 o1 h1
    split; rename_i s2 o2 h2
    refine noEv_add ?_ ?_
    · rw [Proofs.ClientInv.snd_eq h1]; exact ctxEnds_noEv ..
    · rw [Proofs.ClientInv.snd_eq h2]; exact cancelStream_noEv ..

theorem pumpSend_noEv (cfg : CCfg) (sid : Sid) (s : CStream α) (snd : Snd α) :
    NoEv (s.pumpSend cfg sid snd).2 := by
  unfold CStream.pumpSend
  split
  · split; rename_i fs w rest h
    extract_lets frames
    split
    · rfl
    · split <;> rfl
  · rfl

theorem onFrame_noEv (cfg : CCfg) (sid : Sid) (s : CStream α) (f : S2C α) : NoEv (s.onFrame cfg sid f).2 := by
  unfold CStream.onFrame
  split
  · exact finish_proj_noEv ..
  · split
    · rfl
    · extract_lets s1
      split <;> rfl
  · exact finish_proj_noEv ..
  · split
    · rfl
    · extract_lets s1
      split
      · rfl
      · exact pumpSend_noEv ..
  · exact finish_proj_noEv ..
  · extract_lets df
    split
    · split
      · rfl
      · exact finish_proj_noEv ..
      · apply afterRead_noEv
        exact resumeRead_noEv ..
    · split
      · rfl
      · split
        · rfl
        · apply afterRead_noEv
          exact resumeRead_noEv ..

theorem onCall_noEv (cfg : CCfg) (sid : Sid) (s : CStream α) (c : CCall α) : NoEv (s.onCall cfg sid c).2 := by
  unfold CStream.onCall
  split
  · split
    · rfl
    · exact pumpSend_noEv ..
  · split
    · rfl
    · split <;> rfl
  · split
    · rfl
    · apply afterRead_noEv
      exact resumeRead_noEv ..
  · split
    · rfl
    · split <;> rfl
  · rfl
  · exact ctxCancelled_noEv ..

/-- **no stream-level operation emits an event** -/
theorem stepEv_noEv (cfg : CCfg) (sid : Sid) (s : CStream α) (e : CEv α) : (s.stepEv cfg sid e).2.events = [] := by
  cases e with
  | frame f => exact onFrame_noEv cfg sid s f
  | call k => exact onCall_noEv cfg sid s k
  | ctx e => exact ctxCancelled_noEv sid s e

theorem runEv_noEv (cfg : CCfg) (sid : Sid) (evs : List (CEv α)) : ∀ (s : CStream α),
    ∀ o ∈ (CStream.runEv cfg sid s evs).2, o.events = [] := by
  induction evs with
  | nil => intro s o ho; cases ho
  | cons e es ih =>
    intro s o ho
    rw [runEv_cons] at ho
    rcases List.mem_cons.mp ho with h | h
    · rw [h]; exact stepEv_noEv cfg sid s e
    · exact ih _ o h

/-! ## no frame leaves a finished channel -/

/-- **a step after which the channel is finished emits no frame at all** (the step that finishes
    it included: `close` runs with the carrier already gone).  Together with `proj_outputs_live`
    (exact equality on every prefix of the run that leaves the channel up) this says which of the
    stream-level frames reach the wire: those of the events before the finishing step. -/
theorem frames_only_while_up (cfg : CCfg) (c : Cli α) (x : CStim α)
    (h : (c.step cfg x).1.finished.isSome = true) : (c.step cfg x).2.frames = [] := by
  cases x with
  | frame sid' f =>
    change (c.onFrame cfg sid' f).1.finished.isSome = true at h
    show (c.onFrame cfg sid' f).2.frames = []
    unfold Cli.onFrame at h ⊢
    split
    · rfl
    · rename_i hfin
      rw [if_neg hfin] at h
      split
      · unfold Cli.onSettingsPhase
        split
        · exact close_false_frames ..
        · split
          · split
            · exact close_false_frames ..
            · rfl
          · exact close_false_frames ..
      · rename_i hph
        rw [if_neg hph] at h
        split
        · rename_i st hg
          rw [hg] at h
          exact absurd h hfin
        · split
          · rfl
          · exact close_false_frames ..
  | new cs ss m md t cn =>
    change (c.newStream cfg cs ss m md t cn).1.finished.isSome = true at h
    show (c.newStream cfg cs ss m md t cn).2.1.frames = []
    rw [Proofs.Teardown.newStream_finished] at h
    rw [Proofs.Teardown.newStream_after_close cfg c cs ss m md t cn h]
  | call sid' k =>
    change (c.onCall cfg sid' k).1.finished.isSome = true at h
    show (c.onCall cfg sid' k).2.frames = []
    rw [(Proofs.ClientInv.client_call_local cfg c sid' k).2.1] at h
    unfold Cli.onCall
    split
    · rfl
    · simp only [h, Bool.true_and]
      split
      · split <;> rfl
      · rename_i hne
        simp only [Bool.not_eq_eq_eq_not, Bool.not_true, Bool.not_eq_false] at hne
        exact List.isEmpty_iff.mp hne
  | tick d =>
    change (c.tick d).1.finished.isSome = true at h
    show (c.tick d).2.frames = []
    rw [Proofs.Teardown.tick_finished] at h
    rw [(tick_eq c d).2.1, if_pos h]
  | carrierEnds err =>
    show (c.carrierEnds err).2.frames = []
    unfold Cli.carrierEnds
    split <;> exact close_false_frames ..
  | close => exact close_false_frames ..

/-- … and none afterwards -/
theorem finished_no_frames (cfg : CCfg) : ∀ (xs : List (CStim α)) (c : Cli α), c.finished.isSome = true →
    ∀ o ∈ (Cli.run cfg c xs).2, o.frames = [] := by
  intro xs
  induction xs with
  | nil => intro c _ o ho; cases ho
  | cons x xs ih =>
    intro c h o ho
    have h1 := Proofs.Teardown.step_preserves_finished cfg c x h
    rw [run_cons] at ho
    rcases List.mem_cons.mp ho with e | e
    · rw [e]; exact frames_only_while_up cfg c x h1
    · exact ih _ h1 o e

/-! ## the lifting at work: stream-level wire conformance at the endpoint -/

open Proofs.Conformance (cframes C.isHalfClose C.isCancel C.isNewStream)

theorem runEv_append (cfg : CCfg) (sid : Sid) (a b : List (CEv α)) : ∀ (s : CStream α),
    CStream.runEv cfg sid s (a ++ b) =
      ((CStream.runEv cfg sid (CStream.runEv cfg sid s a).1 b).1,
       (CStream.runEv cfg sid s a).2 ++ (CStream.runEv cfg sid (CStream.runEv cfg sid s a).1 b).2) := by
  induction a with
  | nil => intro s; rfl
  | cons e a ih => intro s; simp only [List.cons_append, runEv_cons, ih]

theorem framesFor_append (sid : Sid) (a b : List (COut α)) :
    framesFor sid (a ++ b) = framesFor sid a ++ framesFor sid b := by
  simp [framesFor]

theorem map_snd_flatMap_frames (os : List (COut α)) : (os.flatMap (·.frames)).map (·.2) = cframes os := by
  simp [cframes, List.map_flatMap]

/-- **all the frames an endpoint ever emits under one id**: nothing before the creating
    `NewStream`; then the `new_stream` frame; then a sublist (everything, while the carrier is up)
    of the frames of ONE stream-level run from the fresh stream object, under the events of the
    creating step followed by the events extracted from the rest of the run. -/
theorem proj_frames_whole (cfg : CCfg) (pre : List (CStim α)) (x : CStim α) (post : List (CStim α))
    (sid : Sid) (st0 : CStream α) (hc : Creates cfg (Cli.run cfg (Cli.start cfg) pre).1 x sid st0) :
    ∃ cs ss m md t cn, x = .new cs ss m md t cn ∧
      ((framesFor sid (Cli.run cfg (Cli.start cfg) (pre ++ x :: post)).2).map (·.2)).Sublist
        (C2S.newStream m md (Cli.run cfg (Cli.start cfg) pre).1.rev cfg.W ::
          cframes (CStream.runEv cfg sid (freshStream cfg (Cli.run cfg (Cli.start cfg) pre).1 cs ss t)
            (creationEvs cn ++ evsOf cfg sid ((Cli.run cfg (Cli.start cfg) pre).1.step cfg x).1 post)).2) := by
  have hsub := proj_frames_sublist cfg pre x post sid st0 hc
  rw [outs_after] at hsub
  obtain ⟨cs, ss, m, md, t, cn, hx, habs, _, _, hst0, _, hfr, _⟩ := hc
  refine ⟨cs, ss, m, md, t, cn, hx, ?_⟩
  obtain ⟨t1, _⟩ := runEv_tagged cfg sid (creationEvs cn)
    (freshStream cfg (Cli.run cfg (Cli.start cfg) pre).1 cs ss t)
  rw [(run_split cfg _ pre x post).2, framesFor_append, framesFor_cons, run_absent cfg sid pre _ habs, hfr,
    List.nil_append, runEv_append, ← hst0]
  have htag : ∀ f ∈ (sid, C2S.newStream m md (Cli.run cfg (Cli.start cfg) pre).1.rev cfg.W) ::
      (CStream.runEv cfg sid (freshStream cfg (Cli.run cfg (Cli.start cfg) pre).1 cs ss t)
        (creationEvs cn)).2.flatMap (·.frames), f.1 = sid := by
    intro f hf
    rcases List.mem_cons.mp hf with h | h
    · rw [h]
    · exact t1 f h
  rw [filter_eq_self_of_tag htag]
  simp only [List.map_append, List.map_cons, List.cons_append, map_snd_flatMap_frames]
  refine List.Sublist.cons_cons _ ?_
  show List.Sublist _ (cframes (_ ++ _))
  unfold cframes
  rw [List.flatMap_append]
  refine List.Sublist.append (List.Sublist.refl _) ?_
  have := hsub.map (·.2)
  rw [map_snd_flatMap_frames] at this
  exact this

/-- a frame-counting bound that holds for every stream-level run from every stream state holds
    for the frames an endpoint emits under any one id, in every endpoint run -/
theorem lift_count_bound (cfg : CCfg) (p : C2S α → Bool) (hnew : ∀ m md rev w, p (.newStream m md rev w) = false)
    (hstream : ∀ (sid : Sid) (s0 : CStream α) (evs : List (CEv α)),
      ((cframes (CStream.runEv cfg sid s0 evs).2).filter p).length ≤ 1)
    (xs : List (CStim α)) (sid : Sid) :
    (((framesFor sid (Cli.run cfg (Cli.start cfg) xs).2).map (·.2)).filter p).length ≤ 1 := by
  by_cases h : sid ∈ ids (Cli.run cfg (Cli.start cfg) xs).1
  · have h0 : sid ∉ ids (Cli.start cfg : Cli α) := by simp [ids, Cli.start]
    obtain ⟨pre, x, post, st0, e, hc⟩ := creation_point cfg sid xs _ (pinv_start cfg) h0 h
    obtain ⟨cs, ss, m, md, t, cn, _, hsub⟩ := proj_frames_whole cfg pre x post sid st0 hc
    rw [e]
    refine Nat.le_trans ((hsub.filter p).length_le) ?_
    rw [List.filter_cons, hnew]
    exact hstream _ _ _
  · rw [run_absent cfg sid xs _ h]; exact Nat.zero_le _

/-- **C1a at the endpoint**: in every endpoint run, with any number of concurrent RPCs, at most
    one half-close frame is ever emitted under any one stream id
    (lifted from `Conformance.C1_at_most_one_halfClose`) -/
theorem C1_endpoint_at_most_one_halfClose (cfg : CCfg) (xs : List (CStim α)) (sid : Sid) :
    (((framesFor sid (Cli.run cfg (Cli.start cfg) xs).2).map (·.2)).filter C.isHalfClose).length ≤ 1 :=
  lift_count_bound cfg C.isHalfClose (fun _ _ _ _ => rfl)
    (fun sid s0 evs => Proofs.Conformance.C1_at_most_one_halfClose cfg sid s0 evs) xs sid

/-- **C1b at the endpoint**: … and at most one cancel frame
    (lifted from `Conformance.C1_at_most_one_cancel`) -/
theorem C1_endpoint_at_most_one_cancel (cfg : CCfg) (xs : List (CStim α)) (sid : Sid) :
    (((framesFor sid (Cli.run cfg (Cli.start cfg) xs).2).map (·.2)).filter C.isCancel).length ≤ 1 :=
  lift_count_bound cfg C.isCancel (fun _ _ _ _ => rfl)
    (fun sid s0 evs => (Proofs.Conformance.C1_at_most_one_cancel cfg sid s0 evs).1) xs sid

/-- the form asked for: the frames emitted under `sid` AFTER its creation -/
theorem C1_endpoint_after_creation (cfg : CCfg) (pre : List (CStim α)) (x : CStim α) (post : List (CStim α))
    (sid : Sid) (st0 : CStream α) (hc : Creates cfg (Cli.run cfg (Cli.start cfg) pre).1 x sid st0) :
    let fs := (framesFor sid ((Cli.run cfg (Cli.start cfg) (pre ++ x :: post)).2.drop (pre.length + 1))).map (·.2)
    (fs.filter C.isHalfClose).length ≤ 1 ∧ (fs.filter C.isCancel).length ≤ 1 ∧
    (st0.done.isSome = true → (fs.filter C.isCancel).length = 0) := by
  intro fs
  have hsub := (proj_frames_sublist cfg pre x post sid st0 hc).map (·.2)
  rw [map_snd_flatMap_frames] at hsub
  have hc1 := Proofs.Conformance.C1_at_most_one_cancel cfg sid st0
    (evsOf cfg sid ((Cli.run cfg (Cli.start cfg) pre).1.step cfg x).1 post)
  refine ⟨Nat.le_trans (hsub.filter _).length_le (Proofs.Conformance.C1_at_most_one_halfClose cfg sid st0 _),
    Nat.le_trans (hsub.filter _).length_le hc1.1, fun hd => ?_⟩
  have := Nat.le_trans (hsub.filter C.isCancel).length_le (Nat.le_of_eq (hc1.2 hd))
  exact Nat.le_zero.mp this

/-! ## a concrete run with two interleaved RPCs (payload type `Nat`), and the counterexamples -/

section Examples
open Proofs.Conformance (C.tag S.tag)

def callTag : CCall Nat → String
  | .send _ => "send" | .closeSend => "closeSend" | .recv => "recv" | .header => "header"
  | .trailer => "trailer" | .cancel => "cancel"

/-- an event as a string (`CEv` has no decidable equality) -/
def evTag : CEv Nat → String
  | .frame f => "frame:" ++ S.tag f
  | .call k => "call:" ++ callTag k
  | .ctx .canceled => "ctx:canceled"
  | .ctx .deadline => "ctx:deadline"

def doneTag (d : Sid × String × Res Nat) : String × String := (d.2.1, (Proofs.Teardown.doneView d).kind)

/-- settings; RPC 1 (deadline 5) and RPC 2 are started and run interleaved; RPC 1 times out, a late
    frame for it is dropped; `Close()`; a send on RPC 2 and a `Trailer()` on RPC 1 after the close -/
def exRun : List (CStim Nat) :=
  [.frame (-1) (.settings 100 [1]),
   .new true true [1] [] (some 5) false,
   .new true true [2] [] none false,
   .call 1 (.send [7]),
   .frame 2 (.headers []),
   .call 2 .recv,
   .frame 1 (.msg 1 [9]),
   .frame 2 (.msg 1 [8]),
   .call 1 .closeSend,
   .tick 5,
   .frame 1 (.headers []),
   .call 2 .closeSend,
   .close,
   .call 2 (.send [3]),
   .call 1 .trailer]

/-- the endpoint state after the first `n` stimuli of `exRun` -/
def exAt (n : Nat) : Cli Nat := (Cli.run {} (Cli.start {}) (exRun.take n)).1

-- the ids, and the events extracted for RPC 1 (created by stimulus 1: `pre` = 1 stimulus) and for
-- RPC 2 (created by stimulus 2), with their "carrier down" tags: each RPC sees exactly its own
-- calls and routed frames; the tick is RPC 1's deadline; the late headers frame for RPC 1 is not
-- routed; `Close()` cancels RPC 2 (still in the table) and does nothing to RPC 1 (already done)
example : ids (Cli.run {} (Cli.start {}) exRun).1 = [1, 2] := by decide

example :
    (tevsOf {} 1 (exAt 2) (exRun.drop 2)).map (fun te => (te.1, evTag te.2)) =
      [(false, "call:send"), (false, "frame:msg"), (false, "call:closeSend"), (false, "ctx:deadline"),
       (true, "call:trailer")] := by decide

example :
    (tevsOf {} 2 (exAt 3) (exRun.drop 3)).map (fun te => (te.1, evTag te.2)) =
      [(false, "frame:headers"), (false, "call:recv"), (false, "frame:msg"), (false, "call:closeSend"),
       (true, "ctx:canceled"), (true, "call:send")] := by decide

-- RPC 1: the channel was up whenever something happened to it that emits: the endpoint's frames
-- and completions under id 1 after its creation ARE the stream-level outputs
example :
    (framesFor 1 ((Cli.run {} (Cli.start {}) exRun).2.drop 2)).map (fun f => C.tag f.2) =
      ["msg", "halfclose", "cancel"] ∧
    (cframes (CStream.runEv {} 1 (freshStream {} (exAt 1) true true (some 5))
      (evsOf {} 1 (exAt 2) (exRun.drop 2))).2).map C.tag = ["msg", "halfclose", "cancel"] ∧
    (donesFor 1 ((Cli.run {} (Cli.start {}) exRun).2.drop 2)).map doneTag =
      [("send", "ok"), ("closesend", "ok"), ("trailer", "md")] ∧
    ((CStream.runEv {} 1 (freshStream {} (exAt 1) true true (some 5))
      (evsOf {} 1 (exAt 2) (exRun.drop 2))).2.flatMap (·.dones)).map doneTag =
      [("send", "ok"), ("closesend", "ok"), ("trailer", "md")] := by decide

-- COUNTEREXAMPLE to `proj_outputs` as formulated (RPC 2 of the same run): `Close()` cancels the
-- stream — at stream level the watcher emits a cancel frame, and the later `SendMsg` emits a
-- message frame and returns OK; the endpoint emits neither frame (the carrier is gone) and the
-- send returns "carrier-closed".  `runEvW` (the stream-level run seen through `wireOut`) gives
-- exactly what the endpoint does: `proj_outputs_partial`.
example :
    (framesFor 2 ((Cli.run {} (Cli.start {}) exRun).2.drop 3)).map (fun f => C.tag f.2) = ["wu", "halfclose"] ∧
    (cframes (CStream.runEv {} 2 (freshStream {} (exAt 2) true true none)
      (evsOf {} 2 (exAt 3) (exRun.drop 3))).2).map C.tag = ["wu", "halfclose", "cancel", "msg"] ∧
    (cframes (runEvW {} 2 (freshStream {} (exAt 2) true true none)
      (tevsOf {} 2 (exAt 3) (exRun.drop 3))).2).map C.tag = ["wu", "halfclose"] ∧
    (donesFor 2 ((Cli.run {} (Cli.start {}) exRun).2.drop 3)).map doneTag =
      [("recv", "msg"), ("closesend", "ok"), ("send", "other")] ∧
    ((CStream.runEv {} 2 (freshStream {} (exAt 2) true true none)
      (evsOf {} 2 (exAt 3) (exRun.drop 3))).2.flatMap (·.dones)).map doneTag =
      [("recv", "msg"), ("closesend", "ok"), ("send", "ok")] ∧
    ((runEvW {} 2 (freshStream {} (exAt 2) true true none)
      (tevsOf {} 2 (exAt 3) (exRun.drop 3))).2.flatMap (·.dones)).map doneTag =
      [("recv", "msg"), ("closesend", "ok"), ("send", "other")] := by decide

/-- the fields of a stream object that have decidable equality and are not about the receive queue -/
structure StView where
  sid : Int
  done : Option SErr
  numSent : Nat
  halfClosed : Bool
  ctxDone : Option CtxErr
  inTable : Bool
  win : Nat
  rwin : Nat
  deriving DecidableEq

def stView (e : Sid × CStream Nat) : StView :=
  { sid := e.1, done := e.2.done, numSent := e.2.numSent, halfClosed := e.2.halfClosed, ctxDone := e.2.ctxDone,
    inTable := e.2.inTable, win := e.2.win, rwin := e.2.rcv.rwin }

-- the final stream objects are the stream-level runs (`proj_state`), on those fields
example :
    (Cli.run {} (Cli.start {}) exRun).1.streams.map stView =
    [(1, (CStream.runEv {} 1 (freshStream {} (exAt 1) true true (some 5)) (evsOf {} 1 (exAt 2) (exRun.drop 2))).1),
     (2, (CStream.runEv {} 2 (freshStream {} (exAt 2) true true none) (evsOf {} 2 (exAt 3) (exRun.drop 3))).1)].map
      stView := by decide

-- a pre-cancelled context at creation: the creating step itself carries the event `.ctx .canceled`
-- (`creationEvs`), and emits new_stream followed by the watcher's cancel frame
example :
    let r := Cli.run (α := Nat) {} (Cli.start {}) [.frame (-1) (.settings 100 [1]), .new true true [1] [] none true]
    (framesFor 1 r.2).map (fun f => C.tag f.2) = ["new", "cancel"] ∧
    (creationEvs true).map evTag = ["ctx:canceled"] ∧
    r.1.streams.map (fun e => (e.1, e.2.done.isSome, e.2.inTable)) = [(1, true, false)] := by decide

end Examples

end Proofs.ProjectionC

#print axioms Proofs.ProjectionC.pinv_reachable
#print axioms Proofs.ProjectionC.step_proj
#print axioms Proofs.ProjectionC.run_proj
#print axioms Proofs.ProjectionC.proj_state
#print axioms Proofs.ProjectionC.proj_state_fresh
#print axioms Proofs.ProjectionC.proj_outputs_partial
#print axioms Proofs.ProjectionC.proj_outputs_live
#print axioms Proofs.ProjectionC.proj_frames_sublist
#print axioms Proofs.ProjectionC.frames_only_while_up
#print axioms Proofs.ProjectionC.finished_no_frames
#print axioms Proofs.ProjectionC.stepEv_noEv
#print axioms Proofs.ProjectionC.proj_calls_frames
#print axioms Proofs.ProjectionC.routedTo_sublist
#print axioms Proofs.ProjectionC.routes_spec
#print axioms Proofs.ProjectionC.proj_frames_whole
#print axioms Proofs.ProjectionC.lift_count_bound
#print axioms Proofs.ProjectionC.C1_endpoint_at_most_one_halfClose
#print axioms Proofs.ProjectionC.C1_endpoint_at_most_one_cancel
#print axioms Proofs.ProjectionC.C1_endpoint_after_creation
