import Proofs.Lemmas.Teardown
import Proofs.Lemmas.Conformance
import Proofs.Props.C08
/-!
  # Projection (lifting) theorem for the server endpoint

  The stream-level theorems of the project (message integrity, wire conformance, call shapes)
  are statements about `SStream.runEv cfg sid s0 evs` for ALL event lists.  This file shows that
  they apply to a tunnel with any number of concurrent RPCs: every stream object of a reachable
  endpoint state IS the result of such a run, on the object `createStream` installed, of the events
  the endpoint run meant for that stream, and what the endpoint emitted for that id is what the
  stream-level run emitted.

  Everything below is proved; the axioms used are among propext / Classical.choice / Quot.sound
  (`#print axioms` at the end of the file).

  ## Definitions
  * `evOf sid s x : List (SEv α)` — the (zero or one) stream-level event that stimulus `x` means
    for the stream object of `sid` in endpoint state `s`; it follows `Srv.step` case by case:
      - `.frame sid' f`, `serve` returned ↦ nothing (the loop is gone);
      - `.frame sid' (new_stream)`: a tunnel-level violation (`sid'` in the table, or not above the
        high-water mark — in particular a second `new_stream` for `sid` itself) runs `serveReturns`
        ↦ `.ctx .canceled`; otherwise (accepted or refused with a close frame for `sid'`) nothing;
      - `.frame sid' f`, other frames: `sid'` in the table ↦ `.frame f` if `sid' = sid`, else nothing;
        `sid'` not in the table ↦ nothing if `sid' ≤ lastSeen` (frames for finished RPCs are
        dropped), else `never_created` runs `serveReturns` ↦ `.ctx .canceled`;
      - `.call sid c ↦ .call c` whether or not the stream is still in the table (`Srv.onCall`
        uses `getAny`: the handler of a finished RPC may still be running);
      - `.tick d ↦ .ctx .deadline` iff the stream has a deadline `≤ now + d`;
      - `.carrierEnds _ ↦ .ctx .canceled` unless `serve` returned before;
      - every `.ctx e` above is emitted only if the context of the stream has not ended yet
        (`ctxEv`; the model calls `cancelCtx` unconditionally, which is the identity with empty
        output on an ended context: `Teardown.cancelCtx_of_done`).  Consequently the extracted
        list contains AT MOST ONE context end (`proj_ctx_at_most_once`).
  * `evsOf cfg sid s xs` — `evOf` along the run from `s`, threading the endpoint state.
  * `framesFor sid os` / `donesFor sid os` — frames / completions tagged `sid` in endpoint outputs;
    `outFrames` / `outDones` / `outEvents` — everything in a list of (stream-level) outputs.

  ## Main theorems
  * `step_proj` (one step, any state with the id invariant `Server.SInv`), `run_proj` (runs from
    any such state): the object of `sid` after the run is `(runEv cfg sid st (evsOf …)).1`, the
    endpoint's frames / completions for `sid` are those of the stream-level run, the stream-level
    events are a subsequence of the endpoint's events.
  * `projection` / `proj_state` / `proj_outputs` — the requested statements for runs from `{}`:
    split `xs = pre ++ .frame sid (.newStream …) :: post` (no object for `sid` before the creating
    frame: `created_split`), `st0` the object right after it, `st = (runEv cfg sid st0 (evsOf … post)).1`
    (uniqueness of ids from `Server.sinv_run`, i.e. `C08_ids_increasing`), and
    `framesFor sid after = outFrames r.2`, `donesFor sid after = outDones r.2`, where `after` is
    the endpoint outputs after the creating step; all stream-level outputs are tagged `sid`
    (`runEv_onlySid`), so no restriction is needed on the right.
    EVENTS: the `events` strings carry the id inside formatted text, and the endpoint adds events
    of its own (`serve-returned …`, `entered …`, `no-such-stream …`); what is proved is that the
    stream-level events are a SUBSEQUENCE (`List.Sublist`) of the endpoint events, in order.
  * `created_fresh`, `projection_fresh` — the object the creating frame installs is a fresh one
    (`Conformance.SFresh`) or, for a unary method, a fresh one on which `.call .recv` has run (the
    decode callback's read started by `createStream`); hence `st` is the result of a run FROM A
    FRESH OBJECT of `evs0 ++ evsOf … post` with `evs0 = []` or `[.call .recv]`, and the frames /
    completions emitted for `sid` from the creating step on (inclusive) are those of that run.
    This is what stream-level theorems with a freshness hypothesis need.
  * `proj_calls` — the `.call` events are exactly the calls addressed to `sid`, in order.
  * `proj_frames`, `proj_frames_exact`, `dead_stays_dead`, `dropped_frame_noop`,
    `proj_calls_frames_partial` — see "Deviation" below.
  * Worked corollaries: `endpoint_at_most_one_close` (lifting of `S2_at_most_one_close`, any
    split after which the object of `sid` exists) and `endpoint_conformance` (for every stream
    object of a reachable state, over the frames emitted with its id from its creation on: at most
    one close frame, and headers precede data — lifting of `S2_at_most_one_close` and of
    `S3_headers_before_data`, which needs `SFresh`).

  ## Deviation from the statement as requested (item 4, frames)
  "The `.frame` events are exactly the frames addressed to `sid` in `post`" is FALSE: the endpoint
  drops frames for a stream that is out of the table (`finishStream` has run) and all frames once
  `serve` has returned.  Counterexample checked by `decide` in the `Examples` section (`exRun`: two
  frames addressed to RPC 1 after its creation, one reaches it).  Proved instead:
    - `proj_frames`: the `.frame` events are exactly `liveFrames`: the non-`new_stream` frames
      addressed to `sid` at the moments `alive s sid` holds (`serve` not returned and `sid` in the
      table) — an equality, from any endpoint state;
    - `dead_stays_dead` / `not_alive_run`: once not alive, never alive again, no further frame event;
      `dropped_frame_noop`: a frame addressed to it then is a no-op of the endpoint (`(s, {})`);
    - `proj_frames_exact`: if `sid` is still alive at the end of the run, the `.frame` events are
      exactly ALL non-`new_stream` frames addressed to `sid`;
    - `proj_calls_frames_partial` bundles these (and the subsequence property in general).
  Also beyond the wording of item 1: context ends are inserted not only for `.carrierEnds` but for
  every stimulus that makes `serve` return (`already_exists`, `already_used`, `never_created`).
-/

namespace Proofs.ProjectionS
open TunnelModel TunnelModel.LFrame TunnelModel.Framing
open Proofs.Server (ids SInv sinv_init sinv_step sinv_run ids_setAny serveReturns_ids createStream_ids tick_go_ids)
open Proofs.ServerLocal

variable {α : Type}

/-! ## 1. the extracted event list -/

/-- the context-end event for `sid`: only if its stream object exists and its context has not ended -/
def ctxEv (s : Srv α) (sid : Sid) (e : CtxErr) : List (SEv α) :=
  match s.getAny sid with
  | some st => if st.ctxDone.isNone then [.ctx e] else []
  | none => []

/-- the stream-level events one endpoint stimulus means for the stream object of `sid`
    (zero or one event), in endpoint state `s` -/
def evOf (sid : Sid) (s : Srv α) : SStim α → List (SEv α)
  | .frame sid' f =>
    if s.returned.isSome then []
    else
      match f with
      | .newStream .. =>
        if s.table.contains sid' then ctxEv s sid .canceled
        else if sid' ≤ s.lastSeen then ctxEv s sid .canceled
        else []
      | f =>
        match s.getStream sid' with
        | some _ => if sid' = sid then [.frame f] else []
        | none => if sid' ≤ s.lastSeen then [] else ctxEv s sid .canceled
  | .call sid' c => if sid' = sid then [.call c] else []
  | .tick d =>
    match s.getAny sid with
    | some st =>
      match st.deadline with
      | some dl => if dl ≤ s.now + d ∧ st.ctxDone.isNone then [.ctx .deadline] else []
      | none => []
    | none => []
  | .closing _ => []
  | .carrierEnds _ => if s.returned.isSome then [] else ctxEv s sid .canceled

/-- the stream-level events of `sid` along an endpoint run from `s` -/
def evsOf (cfg : SCfg) (sid : Sid) : Srv α → List (SStim α) → List (SEv α)
  | _, [] => []
  | s, x :: xs => evOf sid s x ++ evsOf cfg sid (s.step cfg x).1 xs

/-- frames / completions tagged `sid` in a list of endpoint outputs -/
def framesFor (sid : Sid) (os : List (Out α)) : List (Sid × S2C α) :=
  os.flatMap (fun o => o.frames.filter (fun f => f.1 == sid))

def donesFor (sid : Sid) (os : List (Out α)) : List (Sid × String × Res α) :=
  os.flatMap (fun o => o.dones.filter (fun d => d.1 == sid))

/-- all frames / completions of a list of stream-level outputs -/
def outFrames (os : List (Out α)) : List (Sid × S2C α) := os.flatMap (·.frames)
def outDones (os : List (Out α)) : List (Sid × String × Res α) := os.flatMap (·.dones)
def outEvents (os : List (Out α)) : List String := os.flatMap (·.events)

/-! ## 2. list facts: unique ids -/

theorem ne_of_pairwise_head {e : Sid × SStream α} {rest : List (Sid × SStream α)}
    (h : ((e :: rest).map (·.1)).Pairwise (· < ·)) : ∀ x ∈ rest, x.1 ≠ e.1 := by
  intro x hx heq
  rw [List.map_cons, List.pairwise_cons] at h
  have := h.1 x.1 (List.mem_map.mpr ⟨x, hx, rfl⟩)
  rw [heq] at this
  exact Int.lt_irrefl _ this

theorem find_of_mem (p : Sid × SStream α → Bool) (l : List (Sid × SStream α))
    (hnd : (l.map (·.1)).Pairwise (· < ·)) (sid : Sid) (st : SStream α) (hmem : (sid, st) ∈ l) :
    l.find? (fun e => e.1 == sid && p e) = if p (sid, st) then some (sid, st) else none := by
  induction l with
  | nil => cases hmem
  | cons e rest ih =>
    have hne := ne_of_pairwise_head hnd
    have hnd' : (rest.map (·.1)).Pairwise (· < ·) := by
      rw [List.map_cons, List.pairwise_cons] at hnd; exact hnd.2
    rcases List.mem_cons.mp hmem with h | h
    · subst h
      rw [List.find?_cons]
      cases hp : p (sid, st) with
      | true => simp
      | false =>
        simp only [Bool.and_false, Bool.false_eq_true, if_false]
        apply List.find?_eq_none.mpr
        intro x hx
        have := hne x hx
        simp [this]
    · have hes : e.1 ≠ sid := fun heq => hne (sid, st) h heq.symm
      rw [List.find?_cons]
      have : (e.1 == sid) = false := by simpa using hes
      simp only [this, Bool.false_and]
      exact ih hnd' h

theorem getAny_of_mem (s : Srv α) (hinv : SInv s) (sid : Sid) (st : SStream α) (hmem : (sid, st) ∈ s.streams) :
    s.getAny sid = some st := by
  have := find_of_mem (fun _ => true) s.streams hinv.2 sid st hmem
  simp only [Bool.and_true, if_true] at this
  simp [Srv.getAny, this]

theorem getStream_of_mem (s : Srv α) (hinv : SInv s) (sid : Sid) (st : SStream α) (hmem : (sid, st) ∈ s.streams) :
    s.getStream sid = if st.inTable then some st else none := by
  have := find_of_mem (fun e => e.2.inTable) s.streams hinv.2 sid st hmem
  simp only [Srv.getStream, this]
  split <;> rfl

theorem mem_unique (s : Srv α) (hinv : SInv s) (sid : Sid) (a b : SStream α)
    (ha : (sid, a) ∈ s.streams) (hb : (sid, b) ∈ s.streams) : a = b := by
  have h1 := getAny_of_mem s hinv sid a ha
  have h2 := getAny_of_mem s hinv sid b hb
  rw [h1] at h2
  exact Option.some.inj h2

theorem mem_ids {s : Srv α} {sid : Sid} {st : SStream α} (h : (sid, st) ∈ s.streams) : sid ∈ ids s :=
  List.mem_map.mpr ⟨(sid, st), h, rfl⟩

theorem exists_of_mem_ids {s : Srv α} {sid : Sid} (h : sid ∈ ids s) : ∃ st, (sid, st) ∈ s.streams := by
  obtain ⟨e, he, rfl⟩ := List.mem_map.mp h
  exact ⟨e.2, he⟩

/-! ## 3. `serveReturns` and `tick` as one generic in-place pass over the stream objects -/

/-- what `tick` does to one stream object at time `now` -/
def tickOne (now : Nat) (sid : Sid) (st : SStream α) : SStream α × Out α :=
  match st.deadline with
  | some dl => if dl ≤ now then st.cancelCtx sid .deadline else (st, {})
  | none => (st, {})

def goGen (g : Sid → SStream α → SStream α × Out α) :
    List (Sid × SStream α) → List (Sid × SStream α) × Out α
  | [] => ([], {})
  | e :: rest => ((e.1, (g e.1 e.2).1) :: (goGen g rest).1, (g e.1 e.2).2.add (goGen g rest).2)

theorem serveReturns_go_eq (l : List (Sid × SStream α)) :
    Srv.serveReturns.go l = goGen (fun sid st => st.cancelCtx sid .canceled) l := by
  induction l with
  | nil => rfl
  | cons e rest ih =>
    obtain ⟨sid, st⟩ := e
    simp only [Srv.serveReturns.go, goGen, ih]

theorem tick_go_eq (now : Nat) (l : List (Sid × SStream α)) :
    Srv.tick.go now l = goGen (tickOne now) l := by
  induction l with
  | nil => rfl
  | cons e rest ih =>
    obtain ⟨sid, st⟩ := e
    simp only [Srv.tick.go, goGen, ih, tickOne]
    rfl

theorem tickOne_onlySid (now : Nat) (sid : Sid) (st : SStream α) : Out.onlySid sid (tickOne now sid st).2 := by
  unfold tickOne
  split
  · split
    · exact cancelCtx_onlySid ..
    · exact onlySid_empty sid
  · exact onlySid_empty sid

theorem goGen_emits_known (g : Sid → SStream α → SStream α × Out α)
    (hg : ∀ sid st, Out.onlySid sid (g sid st).2) (l : List (Sid × SStream α)) :
    (∀ f ∈ (goGen g l).2.frames, f.1 ∈ l.map (·.1)) ∧ (∀ d ∈ (goGen g l).2.dones, d.1 ∈ l.map (·.1)) := by
  induction l with
  | nil => exact ⟨fun f hf => (by cases hf), fun d hd => (by cases hd)⟩
  | cons e rest ih =>
    simp only [goGen, Out.add, List.map_cons, List.mem_cons, List.mem_append]
    refine ⟨fun f hf => ?_, fun d hd => ?_⟩
    · rcases hf with h | h
      · exact Or.inl ((hg e.1 e.2).1 f h)
      · exact Or.inr (ih.1 f h)
    · rcases hd with h | h
      · exact Or.inl ((hg e.1 e.2).2 d h)
      · exact Or.inr (ih.2 d h)

theorem filter_sid_self {β : Type} (sid : Sid) (l : List (Sid × β)) (h : ∀ f ∈ l, f.1 = sid) :
    l.filter (fun f => f.1 == sid) = l := by
  apply List.filter_eq_self.mpr
  intro f hf
  simp [h f hf]

theorem filter_sid_other {β : Type} (sid : Sid) (l : List (Sid × β)) (h : ∀ f ∈ l, f.1 ≠ sid) :
    l.filter (fun f => f.1 == sid) = [] := by
  apply List.filter_eq_nil_iff.mpr
  intro f hf
  simp [h f hf]

theorem goGen_local (g : Sid → SStream α → SStream α × Out α)
    (hg : ∀ sid st, Out.onlySid sid (g sid st).2) (l : List (Sid × SStream α))
    (hnd : (l.map (·.1)).Pairwise (· < ·)) (sid : Sid) (st : SStream α) (hmem : (sid, st) ∈ l) :
    (sid, (g sid st).1) ∈ (goGen g l).1 ∧
    (goGen g l).2.frames.filter (fun f => f.1 == sid) = (g sid st).2.frames ∧
    (goGen g l).2.dones.filter (fun d => d.1 == sid) = (g sid st).2.dones ∧
    (g sid st).2.events.Sublist (goGen g l).2.events := by
  induction l with
  | nil => cases hmem
  | cons e rest ih =>
    have hne := ne_of_pairwise_head hnd
    have hnd' : (rest.map (·.1)).Pairwise (· < ·) := by
      rw [List.map_cons, List.pairwise_cons] at hnd; exact hnd.2
    have hk := goGen_emits_known g hg rest
    simp only [goGen, Out.add, List.filter_append]
    rcases List.mem_cons.mp hmem with h | h
    · subst h
      refine ⟨List.mem_cons_self, ?_, ?_, List.sublist_append_left _ _⟩
      · rw [filter_sid_self sid _ (hg sid st).1, filter_sid_other sid (goGen g rest).2.frames, List.append_nil]
        intro f hf
        obtain ⟨x, hx, hxf⟩ := List.mem_map.mp (hk.1 f hf)
        rw [← hxf]; exact hne x hx
      · rw [filter_sid_self sid _ (hg sid st).2, filter_sid_other sid (goGen g rest).2.dones, List.append_nil]
        intro d hd
        obtain ⟨x, hx, hxd⟩ := List.mem_map.mp (hk.2 d hd)
        rw [← hxd]; exact hne x hx
    · have hes : e.1 ≠ sid := fun heq => hne (sid, st) h heq.symm
      obtain ⟨i1, i2, i3, i4⟩ := ih hnd' h
      refine ⟨List.mem_cons_of_mem _ i1, ?_, ?_, i4.trans (List.sublist_append_right _ _)⟩
      · rw [filter_sid_other sid (g e.1 e.2).2.frames, List.nil_append, i2]
        intro f hf; rw [(hg e.1 e.2).1 f hf]; exact hes
      · rw [filter_sid_other sid (g e.1 e.2).2.dones, List.nil_append, i3]
        intro d hd; rw [(hg e.1 e.2).2 d hd]; exact hes

/-! ## 4. what one endpoint step does to one stream object -/

/-- the endpoint result `r` contains the stream object `q.1` under `sid`, and what it emitted
    for `sid` is the stream-level output `q.2` -/
structure Local (sid : Sid) (r : Srv α × Out α) (q : SStream α × Out α) : Prop where
  mem : (sid, q.1) ∈ r.1.streams
  frames : r.2.frames.filter (fun f => f.1 == sid) = q.2.frames
  dones : r.2.dones.filter (fun d => d.1 == sid) = q.2.dones
  events : q.2.events.Sublist r.2.events

/-- the step does not touch the object of `sid` and emits nothing for it -/
theorem local_keep {sid : Sid} {st : SStream α} {r : Srv α × Out α} (hmem : (sid, st) ∈ r.1.streams)
    (hf : ∀ f ∈ r.2.frames, f.1 ≠ sid) (hd : ∀ d ∈ r.2.dones, d.1 ≠ sid) : Local sid r (st, {}) :=
  ⟨hmem, filter_sid_other sid _ hf, filter_sid_other sid _ hd, List.nil_sublist _⟩

theorem local_keep_onlySid {sid sid' : Sid} {st : SStream α} {r : Srv α × Out α} (hmem : (sid, st) ∈ r.1.streams)
    (ho : Out.onlySid sid' r.2) (hne : sid' ≠ sid) : Local sid r (st, {}) :=
  local_keep hmem (fun f hf => by rw [ho.1 f hf]; exact hne) (fun d hd => by rw [ho.2 d hd]; exact hne)

theorem local_id {sid : Sid} {st : SStream α} {s : Srv α} (hmem : (sid, st) ∈ s.streams) :
    Local sid (s, ({} : Out α)) (st, {}) :=
  local_keep hmem (fun f hf => by cases hf) (fun d hd => by cases hd)

theorem local_setAny_self {sid : Sid} {st st' : SStream α} {s : Srv α} {o : Out α}
    (hmem : (sid, st) ∈ s.streams) (ho : Out.onlySid sid o) : Local sid (s.setAny sid st', o) (st', o) := by
  refine ⟨?_, filter_sid_self sid _ ho.1, filter_sid_self sid _ ho.2, List.Sublist.refl _⟩
  simp only [Srv.setAny]
  exact List.mem_map.mpr ⟨(sid, st), hmem, by simp⟩

theorem local_setAny_other {sid sid' : Sid} {st st' : SStream α} {s : Srv α} {o : Out α}
    (hmem : (sid, st) ∈ s.streams) (ho : Out.onlySid sid' o) (hne : sid' ≠ sid) :
    Local sid (s.setAny sid' st', o) (st, {}) :=
  local_keep_onlySid (setAny_keeps_others s sid' st' (sid, st) hmem (fun h => hne h.symm)) ho hne

theorem local_serveReturns {sid : Sid} {st : SStream α} {s : Srv α} (hinv : SInv s)
    (hmem : (sid, st) ∈ s.streams) (err : Option String) :
    Local sid (s.serveReturns err) (st.cancelCtx sid .canceled) := by
  have h := goGen_local (fun sid st => st.cancelCtx sid .canceled) (fun sid st => cancelCtx_onlySid sid st _)
    s.streams hinv.2 sid st hmem
  simp only [Srv.serveReturns, serveReturns_go_eq]
  refine ⟨h.1, ?_, ?_, ?_⟩
  · simp only [Out.add, List.append_nil]; exact h.2.1
  · simp only [Out.add, List.append_nil]; exact h.2.2.1
  · simp only [Out.add]; exact h.2.2.2.trans (List.sublist_append_left _ _)

theorem local_tick {sid : Sid} {st : SStream α} {s : Srv α} (hinv : SInv s)
    (hmem : (sid, st) ∈ s.streams) (d : Nat) :
    Local sid (s.tick d) (tickOne (s.now + d) sid st) := by
  have h := goGen_local (tickOne (s.now + d)) (tickOne_onlySid (s.now + d)) s.streams hinv.2 sid st hmem
  simp only [Srv.tick, tick_go_eq]
  exact ⟨h.1, h.2.1, h.2.2.1, h.2.2.2⟩

/-- the endpoint result `r` contains under `sid` the final object of the stream-level run `q`,
    and what it emitted for `sid` is what that run emitted -/
structure Proj (sid : Sid) (r : Srv α × Out α) (q : SStream α × List (Out α)) : Prop where
  mem : (sid, q.1) ∈ r.1.streams
  frames : r.2.frames.filter (fun f => f.1 == sid) = outFrames q.2
  dones : r.2.dones.filter (fun d => d.1 == sid) = outDones q.2
  events : (outEvents q.2).Sublist r.2.events

theorem Local.nil {sid : Sid} {st : SStream α} {r : Srv α × Out α} (cfg : SCfg)
    (h : Local sid r (st, {})) : Proj sid r (SStream.runEv cfg sid st []) :=
  ⟨h.mem, h.frames, h.dones, List.nil_sublist _⟩

theorem Local.one {sid : Sid} {st : SStream α} {r : Srv α × Out α} (cfg : SCfg) (ev : SEv α)
    (h : Local sid r (st.stepEv cfg sid ev)) : Proj sid r (SStream.runEv cfg sid st [ev]) := by
  refine ⟨h.mem, ?_, ?_, ?_⟩
  · rw [h.frames]; simp [SStream.runEv, outFrames]
  · rw [h.dones]; simp [SStream.runEv, outDones]
  · have := h.events
    simpa [SStream.runEv, outEvents] using this

theorem Local.ctx {sid : Sid} {st : SStream α} {r : Srv α × Out α} (cfg : SCfg) (s : Srv α) (e : CtxErr)
    (hget : s.getAny sid = some st) (h : Local sid r (st.cancelCtx sid e)) :
    Proj sid r (SStream.runEv cfg sid st (ctxEv s sid e)) := by
  simp only [ctxEv, hget]
  cases hc : st.ctxDone with
  | none => exact Local.one cfg (.ctx e) h
  | some c =>
    rw [Proofs.Teardown.cancelCtx_of_done sid st e (by rw [hc]; rfl)] at h
    exact Local.nil cfg h

theorem onFrame_nonNew (cfg : SCfg) (s : Srv α) (sid' : Sid) (f : C2S α)
    (hnew : ∀ m md rev win, f ≠ .newStream m md rev win) (hret : s.returned.isSome = false) :
    s.onFrame cfg sid' f =
      match s.getStream sid' with
      | some st => (s.setAny sid' (st.onFrame cfg sid' f).1, (st.onFrame cfg sid' f).2)
      | none => if sid' ≤ s.lastSeen then (s, {}) else s.serveReturns (some "never_created") := by
  cases f with
  | newStream m md rev win => exact absurd rfl (hnew m md rev win)
  | _ =>
    simp only [Srv.onFrame, hret, Bool.false_eq_true, if_false]
    cases s.getStream sid' <;> rfl

theorem evOf_nonNew (sid : Sid) (s : Srv α) (sid' : Sid) (f : C2S α)
    (hnew : ∀ m md rev win, f ≠ .newStream m md rev win) (hret : s.returned.isSome = false) :
    evOf sid s (.frame sid' f) =
      match s.getStream sid' with
      | some _ => if sid' = sid then [.frame f] else []
      | none => if sid' ≤ s.lastSeen then [] else ctxEv s sid .canceled := by
  cases f with
  | newStream m md rev win => exact absurd rfl (hnew m md rev win)
  | _ =>
    simp only [evOf, hret, Bool.false_eq_true, if_false]

/-- an accepted or refused `new_stream` (not a tunnel-level violation) leaves every existing
    stream object alone and speaks for its own, new, id only -/
theorem local_create (cfg : SCfg) {sid : Sid} {st : SStream α} {s : Srv α} (hinv : SInv s)
    (hmem : (sid, st) ∈ s.streams) (sid' : Sid) (m : List Nat) (md : MD) (rev : Int) (win : Nat)
    (h1 : s.table.contains sid' = false) (h2 : ¬ sid' ≤ s.lastSeen) :
    Local sid (s.createStream cfg sid' m md rev win) (st, {}) := by
  have hne : sid' ≠ sid := by
    intro h; subst h
    exact h2 (hinv.1 _ (mem_ids hmem))
  have hrej : ∀ (s' : Srv α) (code : Nat) (msg : String), s'.streams = s.streams →
      Local sid (s', (rejectFrame sid' code msg : Out α)) (st, {}) := fun s' code msg hs =>
    local_keep_onlySid (by rw [hs]; exact hmem) (rejectFrame_onlySid ..) hne
  unfold Srv.createStream
  rw [if_neg (by rw [h1]; exact Bool.false_ne_true), if_neg h2]
  extract_lets s'
  split
  · exact hrej _ _ _ rfl
  · split
    · exact hrej _ _ _ rfl
    · split
      · exact hrej _ _ _ rfl
      · exact hrej _ _ _ rfl
      · split; rename_i unary cs ss hf
        extract_lets st0 ev
        split
        · split; rename_i st' o h
          refine local_keep_onlySid (sid' := sid') (List.mem_append_left _ hmem) ?_ hne
          show Out.onlySid sid' o
          rw [snd_eq h]; exact startRecv_onlySid ..
        · exact local_keep_onlySid (sid' := sid') (List.mem_append_left _ hmem) (onlySid_events ..) hne

/-- **One step.** What an endpoint step does to the stream object of `sid` and emits for `sid`
    is the stream-level run of `evOf sid s x` (no event, or one) on that object. -/
theorem step_proj (cfg : SCfg) (s : Srv α) (hinv : SInv s) (sid : Sid) (st : SStream α)
    (hmem : (sid, st) ∈ s.streams) (x : SStim α) :
    Proj sid (s.step cfg x) (SStream.runEv cfg sid st (evOf sid s x)) := by
  have hget := getAny_of_mem s hinv sid st hmem
  cases x with
  | frame sid' f =>
    simp only [Srv.step]
    cases hret : s.returned.isSome with
    | true =>
      rw [Proofs.Teardown.returned_ignores_frames cfg s sid' f hret]
      simp only [evOf, hret, if_true]
      exact Local.nil cfg (local_id hmem)
    | false =>
      by_cases hnew : ∀ m md rev win, f ≠ .newStream m md rev win
      · rw [onFrame_nonNew cfg s sid' f hnew hret, evOf_nonNew sid s sid' f hnew hret]
        cases hgs : s.getStream sid' with
        | some st1 =>
          dsimp only
          by_cases hs : sid' = sid
          · subst hs
            rw [if_pos rfl]
            rw [getStream_of_mem s hinv sid' st hmem] at hgs
            have : st1 = st := by
              split at hgs
              · exact (Option.some.inj hgs).symm
              · cases hgs
            subst this
            exact Local.one cfg (.frame f) (local_setAny_self hmem (SStream_onFrame_onlySid ..))
          · rw [if_neg hs]
            exact Local.nil cfg (local_setAny_other hmem (SStream_onFrame_onlySid ..) hs)
        | none =>
          dsimp only
          by_cases hl : sid' ≤ s.lastSeen
          · rw [if_pos hl, if_pos hl]
            exact Local.nil cfg (local_id hmem)
          · rw [if_neg hl, if_neg hl]
            exact Local.ctx cfg s _ hget (local_serveReturns hinv hmem _)
      · have : ∃ m md rev win, f = .newStream m md rev win := by
          cases f with
          | newStream m md rev win => exact ⟨m, md, rev, win, rfl⟩
          | _ => exact absurd (fun _ _ _ _ h => by cases h) hnew
        obtain ⟨m, md, rev, win, rfl⟩ := this
        simp only [Srv.onFrame, evOf, hret, Bool.false_eq_true, if_false]
        cases h1 : s.table.contains sid' with
        | true =>
          simp only [Srv.createStream, h1, if_true]
          exact Local.ctx cfg s _ hget (local_serveReturns hinv hmem _)
        | false =>
          by_cases h2 : sid' ≤ s.lastSeen
          · simp only [Srv.createStream, h1, h2, if_true, Bool.false_eq_true, if_false]
            exact Local.ctx cfg s _ hget (local_serveReturns hinv hmem _)
          · simp only [h2, Bool.false_eq_true, if_false]
            exact Local.nil cfg (local_create cfg hinv hmem sid' m md rev win h1 h2)
  | call sid' c =>
    simp only [Srv.step, Srv.onCall, evOf]
    by_cases hs : sid' = sid
    · subst hs
      rw [if_pos rfl, hget]
      exact Local.one cfg (.call c) (local_setAny_self hmem (SStream_onCall_onlySid ..))
    · rw [if_neg hs]
      cases hg : s.getAny sid' with
      | none => exact Local.nil cfg (local_keep_onlySid (sid' := sid') hmem (onlySid_events ..) hs)
      | some st1 => exact Local.nil cfg (local_setAny_other hmem (SStream_onCall_onlySid ..) hs)
  | tick d =>
    have h := local_tick hinv hmem d
    simp only [Srv.step, evOf, hget]
    unfold tickOne at h
    cases hd : st.deadline with
    | none =>
      rw [hd] at h
      exact Local.nil cfg h
    | some dl =>
      rw [hd] at h
      dsimp only at h ⊢
      by_cases hle : dl ≤ s.now + d
      · rw [if_pos hle] at h
        cases hc : st.ctxDone with
        | none =>
          rw [if_pos ⟨hle, by rfl⟩]
          exact Local.one cfg (.ctx .deadline) h
        | some c =>
          rw [if_neg (by simp)]
          rw [Proofs.Teardown.cancelCtx_of_done sid st _ (by rw [hc]; rfl)] at h
          exact Local.nil cfg h
      · rw [if_neg hle] at h
        rw [if_neg (fun hh => hle hh.1)]
        exact Local.nil cfg h
  | closing b =>
    simp only [Srv.step, evOf]
    exact Local.nil cfg (local_keep hmem (fun f hf => by cases hf) (fun d hd => by cases hd))
  | carrierEnds err =>
    simp only [Srv.step, evOf]
    cases hret : s.returned.isSome with
    | true =>
      simp only [if_true]
      exact Local.nil cfg (local_id hmem)
    | false =>
      simp only [Bool.false_eq_true, if_false]
      exact Local.ctx cfg s _ hget (local_serveReturns hinv hmem _)

/-! ## 5. runs -/

theorem run_cons (cfg : SCfg) (s : Srv α) (x : SStim α) (xs : List (SStim α)) :
    Srv.run cfg s (x :: xs) =
      ((Srv.run cfg (s.step cfg x).1 xs).1, (s.step cfg x).2 :: (Srv.run cfg (s.step cfg x).1 xs).2) := rfl

theorem run_append (cfg : SCfg) (a b : List (SStim α)) : ∀ (s : Srv α),
    Srv.run cfg s (a ++ b) =
      ((Srv.run cfg (Srv.run cfg s a).1 b).1, (Srv.run cfg s a).2 ++ (Srv.run cfg (Srv.run cfg s a).1 b).2) := by
  induction a with
  | nil => intro s; rfl
  | cons x xs ih =>
    intro s
    rw [List.cons_append, run_cons, ih, run_cons]
    rfl

theorem run_length (cfg : SCfg) (xs : List (SStim α)) : ∀ (s : Srv α), (Srv.run cfg s xs).2.length = xs.length := by
  induction xs with
  | nil => intro s; rfl
  | cons x xs ih => intro s; rw [run_cons]; simp [ih]

theorem evsOf_cons (cfg : SCfg) (sid : Sid) (s : Srv α) (x : SStim α) (xs : List (SStim α)) :
    evsOf cfg sid s (x :: xs) = evOf sid s x ++ evsOf cfg sid (s.step cfg x).1 xs := rfl

/-- **Runs.** From any endpoint state satisfying the id invariant, the stream object of `sid`
    after an endpoint run is the result of the stream-level run of the extracted events on the
    object before; the endpoint's outputs for `sid` are the stream-level outputs. -/
theorem run_proj (cfg : SCfg) (sid : Sid) : ∀ (xs : List (SStim α)) (s : Srv α) (st : SStream α),
    SInv s → (sid, st) ∈ s.streams →
    (sid, (SStream.runEv cfg sid st (evsOf cfg sid s xs)).1) ∈ (Srv.run cfg s xs).1.streams ∧
    framesFor sid (Srv.run cfg s xs).2 = outFrames (SStream.runEv cfg sid st (evsOf cfg sid s xs)).2 ∧
    donesFor sid (Srv.run cfg s xs).2 = outDones (SStream.runEv cfg sid st (evsOf cfg sid s xs)).2 ∧
    (outEvents (SStream.runEv cfg sid st (evsOf cfg sid s xs)).2).Sublist (outEvents (Srv.run cfg s xs).2) := by
  intro xs
  induction xs with
  | nil => intro s st _ hmem; exact ⟨hmem, rfl, rfl, List.Sublist.refl _⟩
  | cons x xs ih =>
    intro s st hinv hmem
    have hp := step_proj cfg s hinv sid st hmem x
    obtain ⟨i1, i2, i3, i4⟩ := ih (s.step cfg x).1 _ (sinv_step cfg s x hinv) hp.mem
    rw [run_cons, evsOf_cons, Proofs.Conformance.runEv_append]
    refine ⟨i1, ?_, ?_, ?_⟩
    · simp only [framesFor, outFrames, List.flatMap_cons, List.flatMap_append] at i2 ⊢
      rw [i2, hp.frames]; rfl
    · simp only [donesFor, outDones, List.flatMap_cons, List.flatMap_append] at i3 ⊢
      rw [i3, hp.dones]; rfl
    · simp only [outEvents, List.flatMap_cons, List.flatMap_append] at i4 ⊢
      exact List.Sublist.append hp.events i4

/-! ## 6. the creating frame -/

theorem tick_ids (s : Srv α) (d : Nat) : ids (s.tick d).1 = ids s := by
  simp [Srv.tick, ids, tick_go_ids]

/-- a step leaves the list of stream ids alone, or it is a `new_stream` frame that appends its id -/
theorem step_ids (cfg : SCfg) (s : Srv α) (x : SStim α) :
    ids (s.step cfg x).1 = ids s ∨
    ∃ sid m md rev win, x = .frame sid (.newStream m md rev win) ∧ ids (s.step cfg x).1 = ids s ++ [sid] := by
  cases x with
  | frame sid f =>
    simp only [Srv.step, Srv.onFrame]
    split
    · exact Or.inl rfl
    · split
      · rename_i m md rev win
        rcases createStream_ids cfg s sid m md rev win with ⟨hi, _⟩ | ⟨hi, _, _⟩
        · exact Or.inl hi
        · exact Or.inr ⟨sid, m, md, rev, win, rfl, hi⟩
      · split
        · exact Or.inl (ids_setAny ..)
        · split
          · exact Or.inl rfl
          · exact Or.inl (serveReturns_ids s _).1
  | call sid c =>
    simp only [Srv.step, Srv.onCall]
    split
    · exact Or.inl rfl
    · exact Or.inl (ids_setAny ..)
  | tick d => exact Or.inl (tick_ids s d)
  | closing b => exact Or.inl rfl
  | carrierEnds err =>
    simp only [Srv.step]
    split
    · exact Or.inl rfl
    · exact Or.inl (serveReturns_ids s _).1

/-- a stream object that exists after a run and did not exist before was installed by a
    `new_stream` frame of the run carrying its id -/
theorem created_split (cfg : SCfg) (sid : Sid) : ∀ (xs : List (SStim α)) (s : Srv α),
    sid ∉ ids s → sid ∈ ids (Srv.run cfg s xs).1 →
    ∃ pre m md rev win post, xs = pre ++ .frame sid (.newStream m md rev win) :: post ∧
      sid ∉ ids (Srv.run cfg s pre).1 ∧
      sid ∈ ids (Srv.run cfg s (pre ++ [.frame sid (.newStream m md rev win)])).1 := by
  intro xs
  induction xs with
  | nil => intro s h1 h2; exact absurd h2 h1
  | cons x xs ih =>
    intro s h1 h2
    by_cases hx : sid ∈ ids (s.step cfg x).1
    · rcases step_ids cfg s x with h | ⟨sid', m, md, rev, win, rfl, h⟩
      · rw [h] at hx; exact absurd hx h1
      · rw [h] at hx
        rcases List.mem_append.mp hx with hx' | hx'
        · exact absurd hx' h1
        · have : sid = sid' := by simpa using hx'
          subst this
          refine ⟨[], m, md, rev, win, xs, rfl, h1, ?_⟩
          rw [List.nil_append, run_cons]
          show sid ∈ ids (s.step cfg _).1
          rw [h]; exact List.mem_append_right _ (List.mem_singleton.mpr rfl)
    · rw [run_cons] at h2
      obtain ⟨pre, m, md, rev, win, post, e, p1, p2⟩ := ih (s.step cfg x).1 hx h2
      refine ⟨x :: pre, m, md, rev, win, post, by rw [e]; rfl, ?_, ?_⟩
      · rw [run_cons]; exact p1
      · rw [List.cons_append, run_cons]; exact p2

/-! ## 7. the projection theorem -/

/-- **Projection.** Every stream object `(sid, st)` of a reachable endpoint state was installed
    by a `new_stream` frame of the run (`xs = pre ++ creating :: post`, no object for `sid`
    before it, the object `st0` right after it), and
      * `st` is the result of the stream-level run of the extracted events `evsOf … post` on `st0`;
      * the frames / completions the endpoint emitted for `sid` after the creating step are
        exactly the frames / completions of that stream-level run;
      * the endpoint outputs split accordingly. -/
theorem projection (cfg : SCfg) (xs : List (SStim α)) (sid : Sid) (st : SStream α)
    (h : (sid, st) ∈ (Srv.run cfg ({} : Srv α) xs).1.streams) :
    ∃ pre m md rev win post st0,
      xs = pre ++ .frame sid (.newStream m md rev win) :: post ∧
      sid ∉ ids (Srv.run cfg ({} : Srv α) pre).1 ∧
      (sid, st0) ∈ (Srv.run cfg ({} : Srv α) (pre ++ [.frame sid (.newStream m md rev win)])).1.streams ∧
      (let s1 := (Srv.run cfg ({} : Srv α) (pre ++ [.frame sid (.newStream m md rev win)])).1
       let r := SStream.runEv cfg sid st0 (evsOf cfg sid s1 post)
       st = r.1 ∧
       framesFor sid (Srv.run cfg s1 post).2 = outFrames r.2 ∧
       donesFor sid (Srv.run cfg s1 post).2 = outDones r.2 ∧
       (outEvents r.2).Sublist (outEvents (Srv.run cfg s1 post).2) ∧
       (Srv.run cfg ({} : Srv α) xs).2 =
         (Srv.run cfg ({} : Srv α) (pre ++ [.frame sid (.newStream m md rev win)])).2 ++ (Srv.run cfg s1 post).2) := by
  obtain ⟨pre, m, md, rev, win, post, e, p1, p2⟩ :=
    created_split cfg sid xs ({} : Srv α) (by simp [ids]) (mem_ids h)
  obtain ⟨st0, h0⟩ := exists_of_mem_ids p2
  refine ⟨pre, m, md, rev, win, post, st0, e, p1, h0, ?_⟩
  have hinv1 := sinv_run cfg (pre ++ [.frame sid (.newStream m md rev win)]) ({} : Srv α) sinv_init
  have hsplit : xs = (pre ++ [.frame sid (.newStream m md rev win)]) ++ post := by
    rw [e]; simp
  obtain ⟨r1, r2, r3, r4⟩ := run_proj cfg sid post _ st0 hinv1 h0
  have hrun := run_append cfg (pre ++ [.frame sid (.newStream m md rev win)]) post ({} : Srv α)
  rw [← hsplit] at hrun
  refine ⟨?_, r2, r3, r4, ?_⟩
  · rw [hrun] at h
    exact mem_unique _ (sinv_run cfg post _ hinv1) sid _ _ h r1
  · rw [hrun]

/-- everything a stream-level run emits is tagged with the stream's id -/
theorem runEv_onlySid (cfg : SCfg) (sid : Sid) (evs : List (SEv α)) : ∀ (s : SStream α),
    ∀ o ∈ (SStream.runEv cfg sid s evs).2, Out.onlySid sid o := by
  induction evs with
  | nil => intro s o ho; cases ho
  | cons e es ih =>
    intro s o ho
    rw [Proofs.Conformance.runEv_cons] at ho
    rcases List.mem_cons.mp ho with h | h
    · rw [h]
      cases e with
      | frame f => exact SStream_onFrame_onlySid ..
      | call c => exact SStream_onCall_onlySid ..
      | ctx e => exact cancelCtx_onlySid ..
    · exact ih _ o h

/-- **`proj_state`.** Every stream object of a reachable endpoint state is the result of a
    stream-level run, on the object its creating `new_stream` frame installed, of the events
    extracted from the rest of the endpoint run. -/
theorem proj_state (cfg : SCfg) (xs : List (SStim α)) (sid : Sid) (st : SStream α)
    (h : (sid, st) ∈ (Srv.run cfg ({} : Srv α) xs).1.streams) :
    ∃ pre m md rev win post st0,
      xs = pre ++ .frame sid (.newStream m md rev win) :: post ∧
      sid ∉ ids (Srv.run cfg ({} : Srv α) pre).1 ∧
      (sid, st0) ∈ (Srv.run cfg ({} : Srv α) (pre ++ [.frame sid (.newStream m md rev win)])).1.streams ∧
      st = (SStream.runEv cfg sid st0
              (evsOf cfg sid (Srv.run cfg ({} : Srv α) (pre ++ [.frame sid (.newStream m md rev win)])).1 post)).1 := by
  obtain ⟨pre, m, md, rev, win, post, st0, e, p1, p2, p3, _⟩ := projection cfg xs sid st h
  exact ⟨pre, m, md, rev, win, post, st0, e, p1, p2, p3⟩

/-- **`proj_outputs`.** For every way of writing a run as `pre ++ creating :: post` such that
    the stream object `st0` of `sid` exists after `creating`: the frames and the completions the
    endpoint emits for `sid` after the creating step are exactly the frames and completions of the
    stream-level run of the extracted events on `st0` (all of which are tagged `sid`), in order;
    its events are a subsequence of the endpoint's events (the endpoint adds `serve-returned`,
    `entered`, `no-such-stream` and the events of the other streams). -/
theorem proj_outputs (cfg : SCfg) (pre post : List (SStim α)) (sid : Sid) (cr : SStim α) (st0 : SStream α)
    (h0 : (sid, st0) ∈ (Srv.run cfg ({} : Srv α) (pre ++ [cr])).1.streams) :
    let s1 := (Srv.run cfg ({} : Srv α) (pre ++ [cr])).1
    let r := SStream.runEv cfg sid st0 (evsOf cfg sid s1 post)
    let after := (Srv.run cfg ({} : Srv α) (pre ++ cr :: post)).2.drop (pre.length + 1)
    framesFor sid after = outFrames r.2 ∧ donesFor sid after = outDones r.2 ∧
    (outEvents r.2).Sublist (outEvents after) ∧ (∀ o ∈ r.2, Out.onlySid sid o) ∧
    (sid, r.1) ∈ (Srv.run cfg ({} : Srv α) (pre ++ cr :: post)).1.streams := by
  intro s1 r after
  have hinv1 : SInv s1 := sinv_run cfg (pre ++ [cr]) ({} : Srv α) sinv_init
  obtain ⟨r1, r2, r3, r4⟩ := run_proj cfg sid post s1 st0 hinv1 h0
  have hsplit : pre ++ cr :: post = (pre ++ [cr]) ++ post := by simp
  have hrun := run_append cfg (pre ++ [cr]) post ({} : Srv α)
  rw [← hsplit] at hrun
  have hafter : after = (Srv.run cfg s1 post).2 := by
    show ((Srv.run cfg ({} : Srv α) (pre ++ cr :: post)).2.drop (pre.length + 1)) = _
    rw [hrun]
    exact List.drop_left' (by rw [run_length]; simp)
  rw [hafter]
  refine ⟨r2, r3, r4, runEv_onlySid cfg sid _ st0, ?_⟩
  rw [hrun]; exact r1

/-! ## 8. which events are extracted -/

def callOf : SEv α → Option (HCall α) | .call c => some c | _ => none
def frameOf : SEv α → Option (C2S α) | .frame f => some f | _ => none
def ctxOf : SEv α → Option CtxErr | .ctx e => some e | _ => none

/-- the handler call a stimulus addresses to `sid` -/
def callTo (sid : Sid) : SStim α → Option (HCall α)
  | .call sid' c => if sid' = sid then some c else none
  | _ => none

/-- the frame (other than `new_stream`) a stimulus addresses to `sid` -/
def frameTo (sid : Sid) : SStim α → Option (C2S α)
  | .frame sid' f => if sid' = sid then (match f with | .newStream .. => none | f => some f) else none
  | _ => none

/-- frames reach the stream object of `sid`: `serve` has not returned and `sid` is in the table -/
def alive (s : Srv α) (sid : Sid) : Bool := s.returned.isNone && (s.getStream sid).isSome

/-- the frames addressed to `sid` at the moments it is alive, along a run -/
def liveFrames (cfg : SCfg) (sid : Sid) : Srv α → List (SStim α) → List (C2S α)
  | _, [] => []
  | s, x :: xs => (if alive s sid then (frameTo sid x).toList else []) ++ liveFrames cfg sid (s.step cfg x).1 xs

theorem ctxEv_cases (s : Srv α) (sid : Sid) (e : CtxErr) :
    ctxEv s sid e = [] ∨ (ctxEv s sid e = [.ctx e] ∧ ∃ st, s.getAny sid = some st ∧ st.ctxDone = none) := by
  unfold ctxEv
  cases hg : s.getAny sid with
  | none => exact Or.inl rfl
  | some st =>
    cases hc : st.ctxDone with
    | none => exact Or.inr ⟨by simp [hc], st, rfl, hc⟩
    | some c => exact Or.inl (by simp [hc])

/-- a stimulus means at most one event for a stream: nothing; a frame for it (only an alive
    stream gets frames, never a `new_stream`); a call of its handler; or the end of its context
    (only if it has not ended yet) -/
theorem evOf_cases (sid : Sid) (s : Srv α) (x : SStim α) :
    evOf sid s x = [] ∨
    (∃ f, x = .frame sid f ∧ (∀ m md rev win, f ≠ .newStream m md rev win) ∧ alive s sid = true ∧
      evOf sid s x = [.frame f]) ∨
    (∃ c, x = .call sid c ∧ evOf sid s x = [.call c]) ∨
    (∃ e st, (∀ sid' c, x ≠ .call sid' c) ∧ s.getAny sid = some st ∧ st.ctxDone = none ∧ evOf sid s x = [.ctx e]) := by
  have hctx : ∀ e, (∀ sid' c, x ≠ .call sid' c) → evOf sid s x = ctxEv s sid e →
      evOf sid s x = [] ∨
      (∃ f, x = .frame sid f ∧ (∀ m md rev win, f ≠ .newStream m md rev win) ∧ alive s sid = true ∧
        evOf sid s x = [.frame f]) ∨
      (∃ c, x = .call sid c ∧ evOf sid s x = [.call c]) ∨
      (∃ e st, (∀ sid' c, x ≠ .call sid' c) ∧ s.getAny sid = some st ∧ st.ctxDone = none ∧ evOf sid s x = [.ctx e]) := by
    intro e hx he
    rcases ctxEv_cases s sid e with h | ⟨h, st, hg, hc⟩
    · exact Or.inl (he.trans h)
    · exact Or.inr (Or.inr (Or.inr ⟨e, st, hx, hg, hc, he.trans h⟩))
  cases x with
  | frame sid' f =>
    have hx : ∀ sid'' c, SStim.frame sid' f ≠ .call sid'' c := fun _ _ h => by cases h
    cases hr : s.returned.isSome with
    | true => exact Or.inl (by simp [evOf, hr])
    | false =>
      by_cases hnew : ∀ m md rev win, f ≠ .newStream m md rev win
      · have he := evOf_nonNew sid s sid' f hnew hr
        cases hgs : s.getStream sid' with
        | some st1 =>
          rw [hgs] at he; dsimp only at he
          by_cases hs : sid' = sid
          · subst hs
            rw [if_pos rfl] at he
            refine Or.inr (Or.inl ⟨f, rfl, hnew, ?_, he⟩)
            have : s.returned = none := by
              cases h : s.returned with
              | none => rfl
              | some v => rw [h] at hr; cases hr
            simp [alive, this, hgs]
          · rw [if_neg hs] at he; exact Or.inl he
        | none =>
          rw [hgs] at he; dsimp only at he
          by_cases hl : sid' ≤ s.lastSeen
          · rw [if_pos hl] at he; exact Or.inl he
          · rw [if_neg hl] at he; exact hctx _ hx he
      · have : ∃ m md rev win, f = .newStream m md rev win := by
          cases f with
          | newStream m md rev win => exact ⟨m, md, rev, win, rfl⟩
          | _ => exact absurd (fun _ _ _ _ h => by cases h) hnew
        obtain ⟨m, md, rev, win, rfl⟩ := this
        have he : evOf sid s (.frame sid' (.newStream m md rev win)) =
            if s.table.contains sid' then ctxEv s sid .canceled
            else if sid' ≤ s.lastSeen then ctxEv s sid .canceled else [] := by
          simp only [evOf, hr, Bool.false_eq_true, if_false]
        split at he
        · exact hctx _ hx he
        · split at he
          · exact hctx _ hx he
          · exact Or.inl he
  | call sid' c =>
    by_cases hs : sid' = sid
    · subst hs; exact Or.inr (Or.inr (Or.inl ⟨c, rfl, by simp [evOf]⟩))
    · exact Or.inl (by simp [evOf, hs])
  | tick d =>
    have hx : ∀ sid'' c, SStim.tick d ≠ (.call sid'' c : SStim α) := fun _ _ h => by cases h
    cases hg : s.getAny sid with
    | none => exact Or.inl (by simp [evOf, hg])
    | some st =>
      cases hd : st.deadline with
      | none => exact Or.inl (by simp [evOf, hg, hd])
      | some dl =>
        by_cases hc : dl ≤ s.now + d ∧ st.ctxDone.isNone = true
        · refine Or.inr (Or.inr (Or.inr ⟨.deadline, st, hx, rfl, ?_, ?_⟩))
          · exact Option.isNone_iff_eq_none.mp hc.2
          · simp only [evOf, hg, hd]; rw [if_pos hc]
        · refine Or.inl ?_
          simp only [evOf, hg, hd]; rw [if_neg hc]
  | closing b => exact Or.inl rfl
  | carrierEnds err =>
    have hx : ∀ sid'' c, SStim.carrierEnds err ≠ (.call sid'' c : SStim α) := fun _ _ h => by cases h
    cases hr : s.returned.isSome with
    | true => exact Or.inl (by simp [evOf, hr])
    | false => exact hctx .canceled hx (by simp [evOf, hr])

theorem ctxEv_frames (s : Srv α) (sid : Sid) (e : CtxErr) : (ctxEv s sid e).filterMap frameOf = [] := by
  rcases ctxEv_cases s sid e with h | ⟨h, _⟩ <;> rw [h] <;> rfl

theorem evOf_calls_of_not_call (sid : Sid) (s : Srv α) (x : SStim α) (hx : ∀ sid' c, x ≠ .call sid' c) :
    (evOf sid s x).filterMap callOf = [] := by
  rcases evOf_cases sid s x with h | ⟨f, _, _, _, h⟩ | ⟨c, hc, _⟩ | ⟨e, st, _, _, _, h⟩
  · rw [h]; rfl
  · rw [h]; rfl
  · exact absurd hc (hx sid c)
  · rw [h]; rfl

theorem evOf_frames_of_not_frame (sid : Sid) (s : Srv α) (x : SStim α) (hx : ∀ sid' f, x ≠ .frame sid' f) :
    (evOf sid s x).filterMap frameOf = [] := by
  rcases evOf_cases sid s x with h | ⟨f, hf, _, _, _⟩ | ⟨c, _, h⟩ | ⟨e, st, _, _, _, h⟩
  · rw [h]; rfl
  · exact absurd hf (hx sid f)
  · rw [h]; rfl
  · rw [h]; rfl

/-- per step: the `.call` events are exactly the calls addressed to `sid` -/
theorem evOf_calls (sid : Sid) (s : Srv α) (x : SStim α) :
    (evOf sid s x).filterMap callOf = (callTo sid x).toList := by
  cases x with
  | call sid' c => by_cases hs : sid' = sid <;> simp [evOf, callTo, hs, callOf]
  | frame sid' f => exact evOf_calls_of_not_call sid s _ (fun _ _ h => by cases h)
  | tick d => exact evOf_calls_of_not_call sid s _ (fun _ _ h => by cases h)
  | closing b => exact evOf_calls_of_not_call sid s _ (fun _ _ h => by cases h)
  | carrierEnds err => exact evOf_calls_of_not_call sid s _ (fun _ _ h => by cases h)

theorem frameTo_self_nonNew (sid : Sid) (f : C2S α) (hnew : ∀ m md rev win, f ≠ .newStream m md rev win) :
    frameTo sid (.frame sid f) = some f := by
  cases f with
  | newStream m md rev win => exact absurd rfl (hnew m md rev win)
  | _ => simp [frameTo]

/-- per step: the `.frame` events are exactly the frames (other than `new_stream`) addressed to
    `sid` while it is alive -/
theorem evOf_frames (sid : Sid) (s : Srv α) (x : SStim α) :
    (evOf sid s x).filterMap frameOf = if alive s sid then (frameTo sid x).toList else [] := by
  have hnil : ∀ (b : Bool), (if b then ([] : List (C2S α)) else []) = [] := fun b => by cases b <;> rfl
  cases x with
  | frame sid' f =>
    cases hr : s.returned with
    | some v => simp [evOf, alive, hr]
    | none =>
      have hr' : s.returned.isSome = false := by rw [hr]; rfl
      by_cases hnew : ∀ m md rev win, f ≠ .newStream m md rev win
      · rw [evOf_nonNew sid s sid' f hnew hr']
        by_cases hs : sid' = sid
        · subst hs
          rw [frameTo_self_nonNew sid' f hnew]
          cases hgs : s.getStream sid' with
          | some st1 => simp [alive, hr, hgs, frameOf]
          | none =>
            have : alive s sid' = false := by simp [alive, hgs]
            rw [this]
            dsimp only
            split
            · rfl
            · exact ctxEv_frames ..
        · have : frameTo sid (.frame sid' f) = none := by simp [frameTo, hs]
          rw [this]
          show _ = if alive s sid = true then [] else []
          rw [hnil]
          cases hgs : s.getStream sid' with
          | some st1 => simp [hs]
          | none =>
            dsimp only
            split
            · rfl
            · exact ctxEv_frames ..
      · have : ∃ m md rev win, f = .newStream m md rev win := by
          cases f with
          | newStream m md rev win => exact ⟨m, md, rev, win, rfl⟩
          | _ => exact absurd (fun _ _ _ _ h => by cases h) hnew
        obtain ⟨m, md, rev, win, rfl⟩ := this
        have : frameTo sid (.frame sid' (.newStream m md rev win : C2S α)) = none := by
          simp only [frameTo]; split <;> rfl
        rw [this]
        show _ = if alive s sid = true then [] else []
        rw [hnil]
        simp only [evOf, hr', Bool.false_eq_true, if_false]
        split
        · exact ctxEv_frames ..
        · split
          · exact ctxEv_frames ..
          · rfl
  | call sid' c =>
    rw [evOf_frames_of_not_frame sid s _ (fun _ _ h => by cases h)]
    exact (hnil _).symm
  | tick d =>
    rw [evOf_frames_of_not_frame sid s _ (fun _ _ h => by cases h)]
    exact (hnil _).symm
  | closing b =>
    rw [evOf_frames_of_not_frame sid s _ (fun _ _ h => by cases h)]
    exact (hnil _).symm
  | carrierEnds err =>
    rw [evOf_frames_of_not_frame sid s _ (fun _ _ h => by cases h)]
    exact (hnil _).symm

/-- **`proj_calls`.** The `.call` events of the extracted list are exactly the handler calls the
    run addressed to `sid`, in order (from any endpoint state). -/
theorem proj_calls (cfg : SCfg) (sid : Sid) : ∀ (xs : List (SStim α)) (s : Srv α),
    (evsOf cfg sid s xs).filterMap callOf = xs.filterMap (callTo sid) := by
  intro xs
  induction xs with
  | nil => intro s; rfl
  | cons x xs ih =>
    intro s
    rw [evsOf_cons, List.filterMap_append, evOf_calls, ih, List.filterMap_cons]
    cases callTo sid x <;> rfl

/-- **`proj_frames`.** The `.frame` events of the extracted list are exactly the frames (other
    than `new_stream`) the run addressed to `sid` at moments when `sid` was alive (`serve` not
    returned, stream in the table), in order (from any endpoint state). -/
theorem proj_frames (cfg : SCfg) (sid : Sid) : ∀ (xs : List (SStim α)) (s : Srv α),
    (evsOf cfg sid s xs).filterMap frameOf = liveFrames cfg sid s xs := by
  intro xs
  induction xs with
  | nil => intro s; rfl
  | cons x xs ih =>
    intro s
    rw [evsOf_cons, List.filterMap_append, evOf_frames, ih]
    rfl

/-! ### alive is lost for good; frames to a dead stream are no-ops -/

theorem stepEv_tab (cfg : SCfg) (sid : Sid) (s : SStream α) (e : SEv α) :
    Proofs.Teardown.TRel s (s.stepEv cfg sid e).1 := by
  cases e with
  | frame f => exact Proofs.Teardown.onFrame_tab cfg sid s f
  | call c => exact Proofs.Teardown.onCall_tab cfg sid s c
  | ctx e => exact Proofs.Teardown.cancelCtx_tab sid s e

theorem runEv_tab (cfg : SCfg) (sid : Sid) (evs : List (SEv α)) : ∀ (s : SStream α),
    Proofs.Teardown.TRel s (SStream.runEv cfg sid s evs).1 := by
  induction evs with
  | nil => intro s; exact Proofs.Teardown.TRel.refl s
  | cons e es ih =>
    intro s
    rw [Proofs.Conformance.runEv_cons]
    exact (stepEv_tab cfg sid s e).trans (ih _)

theorem alive_of_mem (s : Srv α) (hinv : SInv s) (sid : Sid) (st : SStream α) (hmem : (sid, st) ∈ s.streams) :
    alive s sid = (s.returned.isNone && st.inTable) := by
  simp only [alive, getStream_of_mem s hinv sid st hmem]
  cases st.inTable <;> simp

theorem not_alive_step (cfg : SCfg) (s : Srv α) (hinv : SInv s) (sid : Sid) (st : SStream α)
    (hmem : (sid, st) ∈ s.streams) (x : SStim α) (h : alive s sid = false) :
    alive (s.step cfg x).1 sid = false := by
  have hp := step_proj cfg s hinv sid st hmem x
  rw [alive_of_mem _ (sinv_step cfg s x hinv) sid _ hp.mem]
  rw [alive_of_mem s hinv sid st hmem] at h
  cases hr : s.returned with
  | some v =>
    have := Proofs.Teardown.step_keeps_returned cfg s x (by rw [hr]; rfl)
    rw [this, hr]; rfl
  | none =>
    rw [hr] at h
    have hin : st.inTable = false := by simpa using h
    rw [(runEv_tab cfg sid _ st).out hin]
    simp

theorem not_alive_run (cfg : SCfg) (sid : Sid) : ∀ (xs : List (SStim α)) (s : Srv α) (st : SStream α),
    SInv s → (sid, st) ∈ s.streams → alive s sid = false → alive (Srv.run cfg s xs).1 sid = false := by
  intro xs
  induction xs with
  | nil => intro s st _ _ h; exact h
  | cons x xs ih =>
    intro s st hinv hmem h
    rw [run_cons]
    exact ih _ _ (sinv_step cfg s x hinv) (step_proj cfg s hinv sid st hmem x).mem
      (not_alive_step cfg s hinv sid st hmem x h)

/-- once the stream is not alive (out of the table, or `serve` returned) it gets no frame any more -/
theorem dead_stays_dead (cfg : SCfg) (sid : Sid) : ∀ (xs : List (SStim α)) (s : Srv α) (st : SStream α),
    SInv s → (sid, st) ∈ s.streams → alive s sid = false → liveFrames cfg sid s xs = [] := by
  intro xs
  induction xs with
  | nil => intro s st _ _ _; rfl
  | cons x xs ih =>
    intro s st hinv hmem h
    simp only [liveFrames, h, Bool.false_eq_true, if_false, List.nil_append]
    exact ih _ _ (sinv_step cfg s x hinv) (step_proj cfg s hinv sid st hmem x).mem
      (not_alive_step cfg s hinv sid st hmem x h)

/-- ... and a frame addressed to it then changes nothing and emits nothing -/
theorem dropped_frame_noop (cfg : SCfg) (s : Srv α) (hinv : SInv s) (sid : Sid) (st : SStream α)
    (hmem : (sid, st) ∈ s.streams) (f : C2S α) (hnew : ∀ m md rev win, f ≠ .newStream m md rev win)
    (h : alive s sid = false) : s.step cfg (.frame sid f) = (s, {}) := by
  simp only [Srv.step]
  cases hr : s.returned with
  | some v => exact Proofs.Teardown.returned_ignores_frames cfg s sid f (by rw [hr]; rfl)
  | none =>
    have hgs : s.getStream sid = none := by
      cases hg : s.getStream sid with
      | none => rfl
      | some st1 => simp [alive, hr, hg] at h
    exact Proofs.C08.C08_ignore_finished cfg s sid f hr hnew hgs (hinv.1 sid (mem_ids hmem))

/-- **`proj_frames_exact`.** If `sid` is still alive at the end of the run, every frame (other
    than `new_stream`) the run addressed to it reached it. -/
theorem proj_frames_exact (cfg : SCfg) (sid : Sid) : ∀ (xs : List (SStim α)) (s : Srv α) (st : SStream α),
    SInv s → (sid, st) ∈ s.streams → alive (Srv.run cfg s xs).1 sid = true →
    (evsOf cfg sid s xs).filterMap frameOf = xs.filterMap (frameTo sid) := by
  intro xs
  induction xs with
  | nil => intro s st _ _ _; rfl
  | cons x xs ih =>
    intro s st hinv hmem h
    have ha : alive s sid = true := by
      cases ha : alive s sid with
      | true => rfl
      | false => rw [not_alive_run cfg sid (x :: xs) s st hinv hmem ha] at h; cases h
    rw [run_cons] at h
    rw [evsOf_cons, List.filterMap_append, evOf_frames, ha,
      ih _ _ (sinv_step cfg s x hinv) (step_proj cfg s hinv sid st hmem x).mem h, List.filterMap_cons]
    cases frameTo sid x <;> rfl

theorem filterMap_cons_toList {β γ : Type} (f : β → Option γ) (x : β) (xs : List β) :
    (x :: xs).filterMap f = (f x).toList ++ xs.filterMap f := by
  rw [List.filterMap_cons]; cases f x <;> rfl

/-- in general the frames that reach the stream are a subsequence of the frames addressed to it -/
theorem liveFrames_sublist (cfg : SCfg) (sid : Sid) : ∀ (xs : List (SStim α)) (s : Srv α),
    (liveFrames cfg sid s xs).Sublist (xs.filterMap (frameTo sid)) := by
  intro xs
  induction xs with
  | nil => intro s; exact List.Sublist.refl _
  | cons x xs ih =>
    intro s
    rw [filterMap_cons_toList]
    simp only [liveFrames]
    refine List.Sublist.append ?_ (ih _)
    split
    · exact List.Sublist.refl _
    · exact List.nil_sublist _

/-- **`proj_calls_frames_partial`.** (See the header: "the `.frame` events are exactly the frames
    addressed to `sid` in `post`" is false without a liveness condition.)  From any endpoint state:
    the `.call` events are exactly the calls addressed to `sid`, in order; the `.frame` events are
    exactly the frames addressed to `sid` while it is alive (`liveFrames`), hence a subsequence of
    all frames addressed to it, and all of them if `sid` is still alive at the end of the run. -/
theorem proj_calls_frames_partial (cfg : SCfg) (sid : Sid) (xs : List (SStim α)) (s : Srv α) :
    (evsOf cfg sid s xs).filterMap callOf = xs.filterMap (callTo sid) ∧
    (evsOf cfg sid s xs).filterMap frameOf = liveFrames cfg sid s xs ∧
    ((evsOf cfg sid s xs).filterMap frameOf).Sublist (xs.filterMap (frameTo sid)) ∧
    (∀ st, SInv s → (sid, st) ∈ s.streams → alive (Srv.run cfg s xs).1 sid = true →
      (evsOf cfg sid s xs).filterMap frameOf = xs.filterMap (frameTo sid)) :=
  ⟨proj_calls cfg sid xs s, proj_frames cfg sid xs s,
   by rw [proj_frames]; exact liveFrames_sublist cfg sid xs s,
   fun st hinv hmem h => proj_frames_exact cfg sid xs s st hinv hmem h⟩

/-! ### the context of a stream ends at most once -/

theorem evsOf_ctx_done (cfg : SCfg) (sid : Sid) : ∀ (xs : List (SStim α)) (s : Srv α) (st : SStream α),
    SInv s → (sid, st) ∈ s.streams → st.ctxDone.isSome = true → (evsOf cfg sid s xs).filterMap ctxOf = [] := by
  intro xs
  induction xs with
  | nil => intro s st _ _ _; rfl
  | cons x xs ih =>
    intro s st hinv hmem hc
    have hp := step_proj cfg s hinv sid st hmem x
    have htail := ih _ _ (sinv_step cfg s x hinv) hp.mem ((runEv_tab cfg sid _ st).ctxDone hc)
    rw [evsOf_cons, List.filterMap_append, htail, List.append_nil]
    rcases evOf_cases sid s x with h | ⟨f, _, _, _, h⟩ | ⟨c, _, h⟩ | ⟨e, st', _, hg, hn, _⟩
    · rw [h]; rfl
    · rw [h]; rfl
    · rw [h]; rfl
    · rw [getAny_of_mem s hinv sid st hmem] at hg
      cases hg
      rw [hn] at hc; cases hc

/-- **`proj_ctx_at_most_once`.** The extracted list contains at most one context end. -/
theorem proj_ctx_at_most_once (cfg : SCfg) (sid : Sid) : ∀ (xs : List (SStim α)) (s : Srv α) (st : SStream α),
    SInv s → (sid, st) ∈ s.streams → ((evsOf cfg sid s xs).filterMap ctxOf).length ≤ 1 := by
  intro xs
  induction xs with
  | nil => intro s st _ _; exact Nat.zero_le _
  | cons x xs ih =>
    intro s st hinv hmem
    have hp := step_proj cfg s hinv sid st hmem x
    have htail := ih _ _ (sinv_step cfg s x hinv) hp.mem
    rw [evsOf_cons, List.filterMap_append, List.length_append]
    rcases evOf_cases sid s x with h | ⟨f, _, _, _, h⟩ | ⟨c, _, h⟩ | ⟨e, st', _, hg, hn, h⟩
    · rw [h]; exact (Nat.zero_add _).symm ▸ htail
    · rw [h]; exact (Nat.zero_add _).symm ▸ htail
    · rw [h]; exact (Nat.zero_add _).symm ▸ htail
    · have hmem' := hp.mem
      rw [h] at hmem'
      have hdone : (SStream.runEv cfg sid st [SEv.ctx e]).1.ctxDone.isSome = true :=
        (Proofs.C09.cancelCtx_released sid st e).1
      rw [evsOf_ctx_done cfg sid xs _ _ (sinv_step cfg s x hinv) hmem' hdone, h]
      simp [ctxOf]

/-! ## 9. the object the creating frame installs -/

/-- `createStream` leaves the id list alone (refusal or tunnel-level violation), or appends one
    object: a fresh one (`SFresh`) on which, for a unary method, the decode callback's `RecvMsg`
    has been started — i.e. the stream-level run of `[]` resp. `[.call .recv]` on a fresh object,
    whose outputs are the outputs of the step -/
theorem createStream_cases (cfg : SCfg) (s : Srv α) (sid : Sid) (m : List Nat) (md : MD) (rev : Int) (win : Nat) :
    ids (s.createStream cfg sid m md rev win).1 = ids s ∨
    ∃ (fresh : SStream α) (evs0 : List (SEv α)),
      Proofs.Conformance.SFresh fresh ∧ fresh.fc = (rev == 1) ∧ (evs0 = [] ∨ evs0 = [.call .recv]) ∧
      (s.createStream cfg sid m md rev win).1.streams =
        s.streams ++ [(sid, (SStream.runEv cfg sid fresh evs0).1)] ∧
      (s.createStream cfg sid m md rev win).2.frames = outFrames (SStream.runEv cfg sid fresh evs0).2 ∧
      (s.createStream cfg sid m md rev win).2.dones = outDones (SStream.runEv cfg sid fresh evs0).2 := by
  unfold Srv.createStream
  split
  · exact Or.inl (serveReturns_ids s _).1
  · split
    · exact Or.inl (serveReturns_ids s _).1
    · extract_lets s'
      split
      · exact Or.inl rfl
      · split
        · exact Or.inl rfl
        · split
          · exact Or.inl rfl
          · exact Or.inl rfl
          · split; rename_i unary cs ss hf
            extract_lets st ev
            right
            split
            · split; rename_i st' o h
              have h1 : st' = (st.startRecv sid).1 := by rw [h]
              have h2 : o = (st.startRecv sid).2 := by rw [h]
              refine ⟨st, [.call .recv], ⟨rfl, rfl, rfl⟩, rfl, Or.inr rfl, ?_, ?_, ?_⟩
              · show s.streams ++ [(sid, st')] = _
                rw [h1]; rfl
              · show o.frames = _
                rw [h2]; simp [SStream.runEv, SStream.stepEv, SStream.onCall, outFrames]
              · show o.dones = _
                rw [h2]; simp [SStream.runEv, SStream.stepEv, SStream.onCall, outDones]
            · exact ⟨st, [], ⟨rfl, rfl, rfl⟩, rfl, Or.inl rfl, rfl, rfl, rfl⟩

/-- the object a creating `new_stream` frame installs -/
theorem created_fresh (cfg : SCfg) (s : Srv α) (sid : Sid) (m : List Nat) (md : MD) (rev : Int) (win : Nat)
    (st0 : SStream α) (hnot : sid ∉ ids s)
    (h0 : (sid, st0) ∈ (s.step cfg (.frame sid (.newStream m md rev win))).1.streams) :
    ∃ (fresh : SStream α) (evs0 : List (SEv α)),
      Proofs.Conformance.SFresh fresh ∧ fresh.fc = (rev == 1) ∧ (evs0 = [] ∨ evs0 = [.call .recv]) ∧
      st0 = (SStream.runEv cfg sid fresh evs0).1 ∧
      (s.step cfg (.frame sid (.newStream m md rev win))).2.frames = outFrames (SStream.runEv cfg sid fresh evs0).2 ∧
      (s.step cfg (.frame sid (.newStream m md rev win))).2.dones = outDones (SStream.runEv cfg sid fresh evs0).2 := by
  cases hr : s.returned.isSome with
  | true =>
    have : s.step cfg (.frame sid (.newStream m md rev win)) = (s, {}) := by
      simp only [Srv.step]
      exact Proofs.Teardown.returned_ignores_frames cfg s sid _ hr
    rw [this] at h0
    exact absurd (mem_ids h0) hnot
  | false =>
    have hstep : s.step cfg (.frame sid (.newStream m md rev win)) = s.createStream cfg sid m md rev win := by
      simp [Srv.step, Srv.onFrame, hr]
    rw [hstep] at h0 ⊢
    rcases createStream_cases cfg s sid m md rev win with h | ⟨fresh, evs0, hf, hfc, hev, hs, hfr, hdn⟩
    · have := mem_ids h0
      rw [h] at this
      exact absurd this hnot
    · refine ⟨fresh, evs0, hf, hfc, hev, ?_, hfr, hdn⟩
      rw [hs] at h0
      rcases List.mem_append.mp h0 with h | h
      · exact absurd (mem_ids h) hnot
      · have := List.mem_singleton.mp h
        exact (Prod.mk.inj this).2

theorem run_snoc (cfg : SCfg) (pre : List (SStim α)) (x : SStim α) (s : Srv α) :
    Srv.run cfg s (pre ++ [x]) =
      (((Srv.run cfg s pre).1.step cfg x).1, (Srv.run cfg s pre).2 ++ [((Srv.run cfg s pre).1.step cfg x).2]) := by
  rw [run_append]; rfl

theorem outFrames_tag (sid : Sid) (os : List (Out α)) (h : ∀ o ∈ os, Out.onlySid sid o) :
    ∀ f ∈ outFrames os, f.1 = sid := by
  intro f hf
  obtain ⟨o, ho, hfo⟩ := List.mem_flatMap.mp hf
  exact (h o ho).1 f hfo

theorem outDones_tag (sid : Sid) (os : List (Out α)) (h : ∀ o ∈ os, Out.onlySid sid o) :
    ∀ d ∈ outDones os, d.1 = sid := by
  intro d hd
  obtain ⟨o, ho, hdo⟩ := List.mem_flatMap.mp hd
  exact (h o ho).2 d hdo

/-- **Projection, from the fresh object.** Every stream object `(sid, st)` of a reachable endpoint
    state is the result of a stream-level run from a FRESH stream object (`SFresh`): the events are
    `[.call .recv]` for a unary method (the decode callback's read, started by `createStream`) or
    nothing, followed by the events extracted from the run after the creating frame; and the
    frames / completions the endpoint emitted for `sid` from the creating step on (inclusive) are
    exactly those of that stream-level run. -/
theorem projection_fresh (cfg : SCfg) (xs : List (SStim α)) (sid : Sid) (st : SStream α)
    (h : (sid, st) ∈ (Srv.run cfg ({} : Srv α) xs).1.streams) :
    ∃ pre m md rev win post fresh evs0,
      xs = pre ++ .frame sid (.newStream m md rev win) :: post ∧
      sid ∉ ids (Srv.run cfg ({} : Srv α) pre).1 ∧
      Proofs.Conformance.SFresh fresh ∧ fresh.fc = (rev == 1) ∧ (evs0 = [] ∨ evs0 = [.call .recv]) ∧
      (let s1 := (Srv.run cfg ({} : Srv α) (pre ++ [.frame sid (.newStream m md rev win)])).1
       let r := SStream.runEv cfg sid fresh (evs0 ++ evsOf cfg sid s1 post)
       st = r.1 ∧
       framesFor sid ((Srv.run cfg ({} : Srv α) xs).2.drop pre.length) = outFrames r.2 ∧
       donesFor sid ((Srv.run cfg ({} : Srv α) xs).2.drop pre.length) = outDones r.2) := by
  obtain ⟨pre, m, md, rev, win, post, st0, e, p1, p2, p3, r2, r3, _, hout⟩ := projection cfg xs sid st h
  have hs1 := congrArg Prod.fst (run_snoc cfg pre (.frame sid (.newStream m md rev win)) ({} : Srv α))
  have ho1 := congrArg Prod.snd (run_snoc cfg pre (.frame sid (.newStream m md rev win)) ({} : Srv α))
  dsimp only at hs1 ho1
  rw [hs1] at p2
  obtain ⟨fresh, evs0, hf, hfc, hev, hst0, hfr, hdn⟩ := created_fresh cfg _ sid m md rev win st0 p1 p2
  refine ⟨pre, m, md, rev, win, post, fresh, evs0, e, p1, hf, hfc, hev, ?_⟩
  intro s1 r
  have hr : r = ((SStream.runEv cfg sid st0 (evsOf cfg sid s1 post)).1,
      (SStream.runEv cfg sid fresh evs0).2 ++ (SStream.runEv cfg sid st0 (evsOf cfg sid s1 post)).2) := by
    show SStream.runEv cfg sid fresh (evs0 ++ evsOf cfg sid s1 post) = _
    rw [Proofs.Conformance.runEv_append, ← hst0]
  have hdrop : (Srv.run cfg ({} : Srv α) xs).2.drop pre.length =
      ((Srv.run cfg ({} : Srv α) pre).1.step cfg (.frame sid (.newStream m md rev win))).2 ::
        (Srv.run cfg s1 post).2 := by
    rw [hout, ho1, List.append_assoc]
    exact List.drop_left' (run_length cfg pre _)
  have htag := runEv_onlySid cfg sid evs0 fresh
  refine ⟨?_, ?_, ?_⟩
  · rw [hr]; exact p3
  · rw [hdrop, hr]
    simp only [framesFor, outFrames, List.flatMap_cons, List.flatMap_append]
    rw [hfr, filter_sid_self sid _ (outFrames_tag sid _ htag)]
    exact congrArg _ r2
  · rw [hdrop, hr]
    simp only [donesFor, outDones, List.flatMap_cons, List.flatMap_append]
    rw [hdn, filter_sid_self sid _ (outDones_tag sid _ htag)]
    exact congrArg _ r3

/-! ## 10. worked corollaries: stream-level wire conformance at the endpoint -/

open Proofs.Conformance in
theorem sframes_eq (os : List (Out α)) : sframes os = (outFrames os).map (·.2) := by
  simp [sframes, outFrames, List.map_flatMap]

open Proofs.Conformance in
/-- **S2 at the endpoint.** In every endpoint run with any number of concurrent RPCs: once the
    stream object of `sid` exists, the frames emitted with id `sid` contain at most one close frame
    (lifting of the stream-level `S2_at_most_one_close`, which holds from any stream state). -/
theorem endpoint_at_most_one_close (cfg : SCfg) (pre post : List (SStim α)) (sid : Sid) (cr : SStim α)
    (hcreated : sid ∈ ids (Srv.run cfg ({} : Srv α) (pre ++ [cr])).1) :
    ((framesFor sid ((Srv.run cfg ({} : Srv α) (pre ++ cr :: post)).2.drop (pre.length + 1))).filter
      (fun f => S.isClose f.2)).length ≤ 1 := by
  obtain ⟨st0, h0⟩ := exists_of_mem_ids hcreated
  have hp := proj_outputs cfg pre post sid cr st0 h0
  dsimp only at hp
  rw [hp.1]
  have h := S2_at_most_one_close cfg sid st0
    (evsOf cfg sid (Srv.run cfg ({} : Srv α) (pre ++ [cr])).1 post)
  rw [sframes_eq, List.filter_map, List.length_map] at h
  exact h

open Proofs.Conformance in
/-- **S2 + S3 at the endpoint, over the whole life of an RPC.** For every stream object of a
    reachable endpoint state: among the frames the endpoint emitted with that id from the creating
    `new_stream` frame on, there is at most one close frame, and every data frame is preceded by a
    headers frame (lifting of `S2_at_most_one_close` and of `S3_headers_before_data`, which needs
    a fresh initial stream state). -/
theorem endpoint_conformance (cfg : SCfg) (xs : List (SStim α)) (sid : Sid) (st : SStream α)
    (h : (sid, st) ∈ (Srv.run cfg ({} : Srv α) xs).1.streams) :
    ∃ pre m md rev win post, xs = pre ++ .frame sid (.newStream m md rev win) :: post ∧
      sid ∉ ids (Srv.run cfg ({} : Srv α) pre).1 ∧
      (let fs := (framesFor sid ((Srv.run cfg ({} : Srv α) xs).2.drop pre.length)).map (·.2)
       (fs.filter S.isClose).length ≤ 1 ∧
       ∀ a f b, fs = a ++ f :: b → S.isData f = true → ∃ hd ∈ a, S.isHeaders hd = true) := by
  obtain ⟨pre, m, md, rev, win, post, fresh, evs0, e, p1, hf, _, _, _, hfr, _⟩ :=
    projection_fresh cfg xs sid st h
  refine ⟨pre, m, md, rev, win, post, e, p1, ?_⟩
  intro fs
  have hfs : fs = sframes (SStream.runEv cfg sid fresh (evs0 ++
      evsOf cfg sid (Srv.run cfg ({} : Srv α) (pre ++ [.frame sid (.newStream m md rev win)])).1 post)).2 := by
    show (framesFor sid _).map (·.2) = _
    rw [hfr, sframes_eq]
  rw [hfs]
  exact ⟨S2_at_most_one_close cfg sid fresh _, S3_headers_before_data cfg sid fresh hf _⟩

/-! ## Examples: two interleaved RPCs on one tunnel -/

section Examples
open Proofs.Conformance

/-- event kind as a string, to compare extracted event lists by `decide` -/
def evTag : SEv Nat → String
  | .frame f => "frame:" ++ C.tag f
  | .call .recv => "recv"
  | .call (.send _) => "send"
  | .call (.setHeader _) => "sethdr"
  | .call (.sendHeader _) => "sendhdr"
  | .call (.setTrailer _) => "settlr"
  | .call (.ret _) => "ret"
  | .call (.reply _) => "reply"
  | .ctx .canceled => "ctx-canceled"
  | .ctx .deadline => "ctx-deadline"

/-- service `[1]` with the unary method `[3]` and the bidi-streaming method `[2]` -/
def exCfg : SCfg := { services := [([1], { methods := [[3]], streams := [([2], true, true)] })] }

/-- RPC 1 (bidi stream) and RPC 3 (unary) interleaved; the clock advances (no deadlines: `decide`
    cannot evaluate the `grpc-timeout` string parser, deadlines are in the next example); a frame
    for the never-created id 5 ends the tunnel; late frames and calls -/
def exRun : List (SStim Nat) :=
  [.frame 1 (.newStream [47, 1, 47, 2] [] 1 10),
   .frame 3 (.newStream [47, 1, 47, 3] [] 1 10),
   .call 1 .recv,
   .frame 3 (.msg 1 [7]),
   .frame 1 (.msg 1 [8]),
   .call 1 (.send [4]),
   .tick 10,
   .frame 3 .halfClose,
   .frame 5 .halfClose,
   .frame 1 (.msg 1 [2]),
   .call 3 (.reply [9]),
   .frame 3 (.newStream [47, 1, 47, 3] [] 1 10),
   .call 1 (.ret (mkStatus 0 ""))]

-- the extracted event lists: RPC 1 after its creating frame (`exRun.drop 1` from the state after
-- one step), RPC 3 after its creating frame (`exRun.drop 2` from the state after two steps).
-- The tick means nothing (no deadlines); the tunnel-level violation (frame for id 5) ends both
-- contexts; the frame for 1 after `serve` returned and the second `new_stream` for 3 reach nobody.
example :
    (evsOf exCfg 1 (Srv.run exCfg {} (exRun.take 1)).1 (exRun.drop 1)).map evTag =
      ["recv", "frame:msg", "send", "ctx-canceled", "ret"] ∧
    (evsOf exCfg 3 (Srv.run exCfg {} (exRun.take 2)).1 (exRun.drop 2)).map evTag =
      ["frame:msg", "frame:halfclose", "ctx-canceled", "reply"] := by
  decide

-- instance of `proj_outputs` on this run: the frames the endpoint emits for each id after its
-- creation are the frames of the stream-level run of the extracted events on the object the
-- creating frame installed
example :
    let s1 := (Srv.run exCfg {} (exRun.take 1)).1
    let s2 := (Srv.run exCfg {} (exRun.take 2)).1
    (s1.getAny 1).isSome = true ∧ (s2.getAny 3).isSome = true ∧
    (∀ st1 ∈ s1.getAny 1, ∀ st3 ∈ s2.getAny 3,
      (framesFor 1 ((Srv.run exCfg {} exRun).2.drop 1)).map (fun f => S.tag f.2) =
        (sframes (SStream.runEv exCfg 1 st1 (evsOf exCfg 1 s1 (exRun.drop 1))).2).map S.tag ∧
      (framesFor 1 ((Srv.run exCfg {} exRun).2.drop 1)).map (fun f => S.tag f.2) =
        ["wu", "headers", "msg", "close"] ∧
      (framesFor 3 ((Srv.run exCfg {} exRun).2.drop 2)).map (fun f => S.tag f.2) =
        (sframes (SStream.runEv exCfg 3 st3 (evsOf exCfg 3 s2 (exRun.drop 2))).2).map S.tag ∧
      (framesFor 3 ((Srv.run exCfg {} exRun).2.drop 2)).map (fun f => S.tag f.2) =
        ["wu", "headers", "msg", "close"]) := by
  decide

/-- the endpoint state after both creating frames, with a deadline at time 5 put on RPC 1 -/
def exDl : Srv Nat :=
  let s := (Srv.run exCfg {} (exRun.take 2)).1
  { s with streams := s.streams.map (fun e => if e.1 = 1 then (e.1, { e.2 with deadline := some 5 }) else e) }

-- deadlines: the first tick (time 3) means nothing, the second (time 10) ends the context of 1
-- only, the third nothing again (already ended); the carrier's end then cancels 3 only; the
-- handler of 1 returns (stream 1 leaves the table): the later frame for 1 is dropped
example :
    (evsOf exCfg 1 exDl [.tick 3, .call 1 .recv, .tick 7, .frame 1 (.msg 1 [8]), .tick 1, .carrierEnds none,
        .call 1 (.ret (mkStatus 0 "")), .call 3 (.ret (mkStatus 0 ""))]).map evTag =
      ["recv", "ctx-deadline", "frame:msg", "ret"] ∧
    (evsOf exCfg 3 exDl [.tick 3, .call 1 .recv, .tick 7, .frame 1 (.msg 1 [8]), .tick 1, .carrierEnds none,
        .call 1 (.ret (mkStatus 0 "")), .call 3 (.ret (mkStatus 0 ""))]).map evTag =
      ["ctx-canceled", "ret"] ∧
    (evsOf exCfg 1 exDl [.call 1 (.ret (mkStatus 0 "")), .frame 1 (.msg 1 [8]), .frame 3 (.msg 1 [8]),
        .call 1 (.send [1])]).map evTag = ["ret", "send"] := by
  decide

-- COUNTEREXAMPLE to "the `.frame` events are exactly the frames addressed to `sid` in `post`":
-- in `exRun`, two non-`new_stream` frames are addressed to RPC 1 after its creation, but only one
-- reaches the stream object (the second arrives after `serve` returned and is dropped, exactly as
-- the endpoint does: `dropped_frame_noop`); likewise a frame for a finished RPC (last line)
example :
    ((exRun.drop 1).filterMap (frameTo 1)).length = 2 ∧
    ((evsOf exCfg 1 (Srv.run exCfg {} (exRun.take 1)).1 (exRun.drop 1)).filterMap frameOf).length = 1 ∧
    alive (Srv.run exCfg {} exRun).1 1 = false ∧
    (([.call 1 (.ret (mkStatus 0 "")), .frame 1 (.msg 1 [8])] : List (SStim Nat)).filterMap (frameTo 1)).length = 1 ∧
    ((evsOf exCfg 1 exDl [.call 1 (.ret (mkStatus 0 "")), .frame 1 (.msg 1 [8])]).filterMap frameOf).length = 0 := by
  decide

end Examples

end Proofs.ProjectionS

#print axioms Proofs.ProjectionS.step_proj
#print axioms Proofs.ProjectionS.run_proj
#print axioms Proofs.ProjectionS.projection
#print axioms Proofs.ProjectionS.proj_state
#print axioms Proofs.ProjectionS.proj_outputs
#print axioms Proofs.ProjectionS.proj_calls
#print axioms Proofs.ProjectionS.proj_frames
#print axioms Proofs.ProjectionS.proj_frames_exact
#print axioms Proofs.ProjectionS.proj_calls_frames_partial
#print axioms Proofs.ProjectionS.dead_stays_dead
#print axioms Proofs.ProjectionS.dropped_frame_noop
#print axioms Proofs.ProjectionS.proj_ctx_at_most_once
#print axioms Proofs.ProjectionS.created_fresh
#print axioms Proofs.ProjectionS.projection_fresh
#print axioms Proofs.ProjectionS.endpoint_at_most_one_close
#print axioms Proofs.ProjectionS.endpoint_conformance
