import TunnelModel.Publish
/-!
  Result publication on a client stream — `finishStream` / `Trailer` / `RecvMsg` of
  `tunnelClientStream` (tunnel_client.go) — under EVERY interleaving of its atomic steps
  (`TunnelModel.Publish`): for every number `n` of finishers, `k` of call-option targets, `p` of observer
  peeks, every assignment `err`, `tr : Nat → _` of errors / trailers to the finishers and every schedule
  `List Act` (`run true err tr (init n k p) as = some s` = "`s` is reachable", current order),

  1. `inv_reachable`            the inductive invariant `Inv`.  In the words of the brief:
                                `Inv.winner_unique` (at most one finisher ever wins the CAS),
                                `Inv.done_iff_winner`, `Inv.done_of_winner` (`done` set iff some finisher
                                won; it holds the winner's error), `Inv.closed_published'` (receiver closed →
                                `doneSignal` closed ∧ trailers and targets stored ∧ `trailers = tr w` ∧
                                `done = err w` for THE winner `w`), `Inv.signalled_published` (`doneSignal`
                                closed → stored, the winner's), `Inv.mutex`, `Inv.holder_iff` (`metaMu`).
                                THE KEY clause is `Inv.sync`: every shared variable is a function of the
                                winner and its program counter;
  2. `reader_sees_trailers`     reader holds the terminal result → THE winner `w` exists; `readTrailer` now
                                returns `some (tr w)`, `readTarget t` returns `tr w` for every `t < k`; and
                                after EVERY continuation of the schedule whatever the reader has read is
                                `some (tr w)` / `tr w` (`reader_read_returns_winners_trailers`: the same as
                                the value returned by the read step itself);
  3. `terminal_result_is_the_winners`   the terminal result is `some (err w)` (never the nil pointer) of the
                                same `w` whose trailers are published; `got_run`: it is final;
  4. `trailer_nil_before_end`   `Trailer()` = `none` while `doneSignal` is open (and every peek so far was
                                `none`); `some (tr w)` once closed, and after every continuation;
     `trailers_stable`          `doneSignal` closed → it stays closed, `trailers` and all targets never
                                change again; `peeks_log`: the observer's whole log is nil … nil, x … x,
                                with x = `some (tr w)`;
  5. `exactly_one_completion`   at most one finisher has returned `true`, always; a `cas` in the schedule →
                                exactly one winner, all others `start` / `retFalse`; everybody returned →
                                exactly one `retTrue` (`nTrue = 1`);
     `loser_changes_nothing`    a losing CAS changes only the loser's pc, and the loser never acts again
                                (both orders); `quiescent_complete`: at the end of every maximal schedule
                                exactly one `true`, and the reader is not left parked;
  6. `progress`                 (a) every finisher that has not returned can take its next step NOW
                                (`finisher_next_enabled`), (b) the holder of `metaMu` can proceed,
                                (c) every finisher runs to its `return` on its own in ≤ 9 own actions
                                (`finisher_completes`), (d) a parked reader is woken once the winner has
                                run to its end, which it can do alone (`parked_reader_woken`,
                                `reader_woken_when_closed`), (e) `schedule_bounded`: a schedule has at most
                                `9n + 4 + p` actions (measure `remaining`, both orders);
  7. `faulty_old_order_reader_misses_trailers`  defect D4 by `decide` (`order = false`): terminal result
                                `io.EOF`, then `Trailer()` = nil and the target nil although `tr 0` =
                                `[("k","v")]`; `faulty_old_order_stores_too_late`; on the same schedule the
                                current order refuses (`current_order_refuses_d4`,
                                `current_order_reader_stays_parked`), on the same shape it gives `some`
                                (`current_order_same_shape_sees_trailers`);
  8. non-vacuity `example`s     (`serverWins`, `cancelWins`: two finishers racing, reader parked before, both
                                orders of the CAS; a reader that arrives late; refused actions).

  WHAT TURNED OUT FALSE AS STATED, and what is proved instead:

  * 5, literal reading "exactly one finisher returns `true` if any `cas` happened": in the MIDDLE of a
    schedule nobody may have returned yet (`literal_exactly_one_true_fails_midway`, by `decide`:
    `[cas 0, cas 1]` → `nTrue = 0`).  Proved: exactly one WINNER (`FPc.hasWon`: the finisher on its way
    to `return true`) as soon as a `cas` happened, never more than one `retTrue`, exactly one `retTrue`
    when everybody has returned and at the end of every maximal schedule — and the winner can always get
    there (6c).
  * 6, "`lockMeta` is EVENTUALLY enabled because the holder can always proceed": true but weaker than what
    holds.  Only the winner of the CAS ever reaches `lockMeta`, so among finishers `metaMu` is NEVER
    contended: `lockMeta` is enabled the moment a finisher arrives at it (6a; `Inv.sync` gives
    `metaMu = none` at `removed`).  (b) is the statement of the brief, kept for the record.  The lock matters
    against the application-side users of `metaMu` (`Header`, `Trailer` …), which are not finishers and not
    in this model.

  Everything else holds as requested.  Chosen / found:

  * No ghost state: "the winner" is the finisher whose program counter satisfies `FPc.hasWon`
    (`Winner s w`); uniqueness is part of the invariant, so "THE winner" is well defined.
  * The reader records what its reads returned (`rTrailer`, `rTarget`, each read at most once); the observer
    logs every peek (`peeks`) and peeks at most `p` times — otherwise no schedule bound could hold.
  * `Trailer()` is modelled as `Option MD`: `none` = nil because `doneSignal` is open, `some t` = the stored
    trailers.  In Go both are `metadata.MD`, and a local cancel stores nil trailers: when the cancel wins,
    the reader's `Trailer()` legitimately returns nil (`some none` here, example `cancelWins`).  The theorems
    say the reader sees the WINNER's trailers, whatever they are.
  * The terminal result is recorded raw (`Option Err`, the content of `done`): 3 shows it is never `none`.
  * Under the old order the invariant fails at the `recvClosed` clause of `Sync` (receiver closed at `released`, before the
    store); nothing else in the proofs depends on the order (`Step`, stability, `remaining` are for both).
  * Proof organisation: `inv_winner_move` (the winner moves and updates the shared variables consistently)
    covers seven of the eight finisher actions; `Step` is `step` spelled out as a relation (`step_spec`,
    `step_of_Step`), every later per-step lemma is a `cases` on it.
-/
namespace Proofs.Publish
open TunnelModel.Publish

variable {err : Nat → Err} {tr : Nat → MD}

/-! ### Lists -/

theorem get_set {α : Type} {l : List α} {t t' : Nat} {x y : α} (h : (l.set t x)[t']? = some y) :
    (t' = t ∧ y = x) ∨ (t' ≠ t ∧ l[t']? = some y) := by
  rw [List.getElem?_set] at h
  by_cases e : t = t'
  · subst e
    simp only [if_true] at h
    split at h
    · left; exact ⟨rfl, by simpa using h.symm⟩
    · cases h
  · simp only [e, if_false] at h
    right; exact ⟨fun x => e x.symm, h⟩

theorem lt_of_get {α : Type} {l : List α} {t : Nat} {x : α} (h : l[t]? = some x) : t < l.length := by
  rcases Nat.lt_or_ge t l.length with h' | h'
  · exact h'
  · rw [List.getElem?_eq_none h'] at h; cases h

theorem get_set_self {α : Type} {l : List α} {t : Nat} {x x' : α} (h : l[t]? = some x) :
    (l.set t x')[t]? = some x' :=
  List.getElem?_set_self (lt_of_get h)

theorem get_replicate {α : Type} {n t : Nat} {x y : α} (h : (List.replicate n x)[t]? = some y) : y = x := by
  rw [List.getElem?_replicate] at h
  split at h
  · cases h; rfl
  · cases h

/-! ### The invariant -/

/-- finisher `w` won the CAS -/
def Winner (s : St) (w : Nat) : Prop := ∃ p, s.fpcs[w]? = some p ∧ p.hasWon = true

/-- the shared variables, as determined by the winner `w` and its program counter `p` -/
def Sync (err : Nat → Err) (tr : Nat → MD) (s : St) (w : Nat) (p : FPc) : Prop :=
  s.done = some (err w) ∧ s.inTable = !p.pastRemove ∧ s.metaMu = (if p.holds then some w else none) ∧
  s.doneSig = p.pastSignal ∧ s.recvClosed = p.pastRClose ∧ s.ctxDone = p.pastCancel ∧
  (p.pastStore = true → s.trailers = tr w ∧ ∀ (t : Nat) (v : MD), s.targets[t]? = some v → v = tr w) ∧
  p ≠ .released

structure Inv (err : Nat → Err) (tr : Nat → MD) (s : St) : Prop where
  /-- at most one finisher ever wins the CAS -/
  one_winner : ∀ (i j : Nat) (p q : FPc), s.fpcs[i]? = some p → s.fpcs[j]? = some q →
    p.hasWon = true → q.hasWon = true → i = j
  /-- `done` unset: no CAS has happened, nothing has been touched -/
  idle : s.done = none → (∀ (i : Nat) (p : FPc), s.fpcs[i]? = some p → p = .start) ∧ s.inTable = true ∧
    s.metaMu = none ∧ s.doneSig = false ∧ s.recvClosed = false ∧ s.ctxDone = false
  /-- THE KEY: `done` and every shared variable are those of the winner at its program point -/
  sync : ∀ (w : Nat) (p : FPc), s.fpcs[w]? = some p → p.hasWon = true → Sync err tr s w p
  /-- `done` set: some finisher won -/
  has_winner : ∀ e, s.done = some e → ∃ (w : Nat) (p : FPc), s.fpcs[w]? = some p ∧ p.hasWon = true
  /-- the reader has the terminal result: the receiver is closed, the result is `done` -/
  reader_got : ∀ r, s.rpc = .got r → s.recvClosed = true ∧ r = s.done
  /-- the reader reads only after the terminal result -/
  reader_pre : (∀ r, s.rpc ≠ .got r) → s.rTrailer = none ∧ s.rTarget = none
  /-- what the reader's `Trailer()` returned -/
  read_trailer : ∀ v, s.rTrailer = some v → s.recvClosed = true ∧ v = some s.trailers
  /-- what the reader found in the call-option target -/
  read_target : ∀ v, s.rTarget = some v → s.recvClosed = true ∧
    ∀ (w : Nat) (p : FPc), s.fpcs[w]? = some p → p.hasWon = true → v = tr w
  /-- the observer's log: nil … nil, then the (final) trailers … -/
  peeks_shape : ∃ a b, s.peeks = List.replicate a none ++ List.replicate b (some s.trailers) ∧
    (s.doneSig = false → b = 0)

theorem inv_init (n k p : Nat) : Inv err tr (init n k p) := by
  have hst : ∀ (i : Nat) (q : FPc), (init n k p).fpcs[i]? = some q → q = .start := by
    intro i q h
    exact get_replicate h
  refine ⟨?_, ?_, ?_, ?_, ?_, ?_, ?_, ?_, ?_⟩
  · intro i j p q hp _ hw _
    rw [hst i p hp] at hw; cases hw
  · intro _
    exact ⟨hst, rfl, rfl, rfl, rfl, rfl⟩
  · intro w p hp hw
    rw [hst w p hp] at hw; cases hw
  · intro e h; cases h
  · intro r h; cases h
  · intro _; exact ⟨rfl, rfl⟩
  · intro v h; cases h
  · intro v h; cases h
  · exact ⟨0, 0, rfl, fun _ => rfl⟩

theorem won_back {l : List FPc} {i j : Nat} {p p' q : FPc} (hp : l[i]? = some p) (hw : p.hasWon = true)
    (hq : (l.set i p')[j]? = some q) (hwq : q.hasWon = true) :
    ∃ q0, l[j]? = some q0 ∧ q0.hasWon = true := by
  rcases get_set hq with ⟨e, _⟩ | ⟨_, h⟩
  · subst e; exact ⟨p, hp, hw⟩
  · exact ⟨q, h, hwq⟩

/-- the winner `i` moves from `p` to `p'` and updates the shared variables accordingly -/
theorem inv_winner_move {s s' : St} {i : Nat} {p p' : FPc} (I : Inv err tr s)
    (hp : s.fpcs[i]? = some p) (hw : p.hasWon = true) (hw' : p'.hasWon = true)
    (hf : s'.fpcs = s.fpcs.set i p') (hd : s'.done = s.done)
    (hrpc : s'.rpc = s.rpc) (hrt : s'.rTrailer = s.rTrailer) (hrg : s'.rTarget = s.rTarget)
    (hpk : s'.peeks = s.peeks)
    (hsync : Sync err tr s' i p')
    (hrc : s.recvClosed = true → s'.recvClosed = true ∧ s'.trailers = s.trailers)
    (hds : s.doneSig = true → s'.doneSig = true ∧ s'.trailers = s.trailers) : Inv err tr s' := by
  have hone : ∀ (j : Nat) (q : FPc), s'.fpcs[j]? = some q → q.hasWon = true → j = i := by
    intro j q hq hwq
    rw [hf] at hq
    obtain ⟨q0, hq0, hwq0⟩ := won_back hp hw hq hwq
    exact I.one_winner j i q0 p hq0 hp hwq0 hw
  have hi' : s'.fpcs[i]? = some p' := by rw [hf]; exact get_set_self hp
  refine ⟨?_, ?_, ?_, ?_, ?_, ?_, ?_, ?_, ?_⟩
  · intro j1 j2 q1 q2 h1 h2 w1 w2
    rw [hone j1 q1 h1 w1, hone j2 q2 h2 w2]
  · intro h
    rw [hd, (I.sync i p hp hw).1] at h; cases h
  · intro w q hq hwq
    have e := hone w q hq hwq
    subst e
    rw [hi'] at hq; cases hq
    exact hsync
  · intro _ _
    exact ⟨i, p', hi', hw'⟩
  · intro r h
    rw [hrpc] at h
    obtain ⟨h1, h2⟩ := I.reader_got r h
    exact ⟨(hrc h1).1, by rw [hd]; exact h2⟩
  · intro h
    rw [hrt, hrg]
    exact I.reader_pre (by rw [← hrpc]; exact h)
  · intro v h
    rw [hrt] at h
    obtain ⟨h1, h2⟩ := I.read_trailer v h
    exact ⟨(hrc h1).1, by rw [(hrc h1).2]; exact h2⟩
  · intro v h
    rw [hrg] at h
    obtain ⟨h1, h2⟩ := I.read_target v h
    refine ⟨(hrc h1).1, ?_⟩
    intro w q hq hwq
    have e := hone w q hq hwq
    subst e
    exact h2 w p hp hw
  · obtain ⟨a, b, h, hb⟩ := I.peeks_shape
    cases hsig : s.doneSig with
    | false =>
      have := hb hsig
      subst this
      exact ⟨a, 0, by rw [hpk, h]; rfl, fun _ => rfl⟩
    | true =>
      obtain ⟨h1, h2⟩ := hds hsig
      exact ⟨a, b, by rw [hpk, h, h2], fun h' => by rw [h1] at h'; cases h'⟩

theorem inv_cas {s s' : St} {i : Nat} (I : Inv err tr s)
    (hs : step true err tr s (.cas i) = some s') : Inv err tr s' := by
  simp only [step] at hs
  split at hs
  next hp =>
    split at hs
    next hd =>
      cases hs
      obtain ⟨hall, hT, hM, hS, hR, hC⟩ := I.idle hd
      have hone : ∀ (j : Nat) (q : FPc), (s.fpcs.set i .won)[j]? = some q → q.hasWon = true → j = i ∧ q = .won := by
        intro j q hq hwq
        rcases get_set hq with ⟨e, e'⟩ | ⟨_, h⟩
        · exact ⟨e, e'⟩
        · rw [hall j q h] at hwq; cases hwq
      refine ⟨?_, ?_, ?_, ?_, ?_, ?_, ?_, ?_, ?_⟩
      · intro j1 j2 q1 q2 h1 h2 w1 w2
        rw [(hone j1 q1 h1 w1).1, (hone j2 q2 h2 w2).1]
      · intro h; cases h
      · intro w q hq hwq
        obtain ⟨e, e'⟩ := hone w q hq hwq
        subst e; subst e'
        refine ⟨rfl, hT, hM, hS, hR, hC, ?_, ?_⟩
        · intro h; cases h
        · intro h; cases h
      · intro _ _
        exact ⟨i, .won, get_set_self hp, rfl⟩
      · intro r h
        have := (I.reader_got r h).1
        rw [hR] at this; cases this
      · exact I.reader_pre
      · intro v h
        have := (I.read_trailer v h).1
        rw [hR] at this; cases this
      · intro v h
        have := (I.read_target v h).1
        rw [hR] at this; cases this
      · exact I.peeks_shape
    next e hd =>
      cases hs
      have hback : ∀ (j : Nat) (q : FPc), (s.fpcs.set i .retFalse)[j]? = some q → q.hasWon = true →
          s.fpcs[j]? = some q := by
        intro j q hq hwq
        rcases get_set hq with ⟨_, e'⟩ | ⟨_, h⟩
        · subst e'; cases hwq
        · exact h
      refine ⟨?_, ?_, ?_, ?_, I.reader_got, I.reader_pre, I.read_trailer, ?_, I.peeks_shape⟩
      · intro j1 j2 q1 q2 h1 h2 w1 w2
        exact I.one_winner j1 j2 q1 q2 (hback j1 q1 h1 w1) (hback j2 q2 h2 w2) w1 w2
      · intro h
        rw [hd] at h; cases h
      · intro w q hq hwq
        exact I.sync w q (hback w q hq hwq) hwq
      · intro e' h'
        obtain ⟨w, q, hq, hwq⟩ := I.has_winner e' h'
        have hne : i ≠ w := by
          intro e0; subst e0
          rw [hp] at hq; cases hq; cases hwq
        exact ⟨w, q, by rw [List.getElem?_set_ne hne]; exact hq, hwq⟩
      · intro v h
        obtain ⟨h1, h2⟩ := I.read_target v h
        exact ⟨h1, fun w q hq hwq => h2 w q (hback w q hq hwq) hwq⟩
  · cases hs

theorem inv_remove {s s' : St} {i : Nat} (I : Inv err tr s)
    (hs : step true err tr s (.remove i) = some s') : Inv err tr s' := by
  simp only [step] at hs
  split at hs
  next hp =>
    cases hs
    obtain ⟨h1, h2, h3, h4, h5, h6, h7, h8⟩ := I.sync i _ hp rfl
    refine inv_winner_move I hp rfl rfl rfl rfl rfl rfl rfl rfl ?_ ?_ ?_
    · exact ⟨h1, rfl, h3, h4, h5, h6, (fun h => by cases h), (by intro h; cases h)⟩
    · intro h; rw [h5] at h; cases h
    · intro h; exact ⟨h, rfl⟩
  · cases hs

theorem inv_lockMeta {s s' : St} {i : Nat} (I : Inv err tr s)
    (hs : step true err tr s (.lockMeta i) = some s') : Inv err tr s' := by
  simp only [step] at hs
  split at hs
  next hp =>
    split at hs
    · cases hs
      obtain ⟨h1, h2, h3, h4, h5, h6, h7, h8⟩ := I.sync i _ hp rfl
      refine inv_winner_move I hp rfl rfl rfl rfl rfl rfl rfl rfl ?_ ?_ ?_
      · exact ⟨h1, h2, rfl, h4, h5, h6, (fun h => by cases h), (by intro h; cases h)⟩
      · intro h; rw [h5] at h; cases h
      · intro h; exact ⟨h, rfl⟩
    · cases hs
  next hp =>
    split at hs
    next h => cases h.1
    · cases hs
  · cases hs

theorem inv_storeTrailers {s s' : St} {i : Nat} (I : Inv err tr s)
    (hs : step true err tr s (.storeTrailers i) = some s') : Inv err tr s' := by
  simp only [step] at hs
  split at hs
  next hp =>
    cases hs
    obtain ⟨h1, h2, h3, h4, h5, h6, h7, h8⟩ := I.sync i _ hp rfl
    refine inv_winner_move I hp rfl rfl rfl rfl rfl rfl rfl rfl ?_ ?_ ?_
    · refine ⟨h1, h2, h3, h4, h5, h6, ?_, ?_⟩
      · intro _
        exact ⟨rfl, fun t v h => get_replicate h⟩
      · intro h; cases h
    · intro h; rw [h5] at h; cases h
    · intro h; rw [h4] at h; cases h
  · cases hs

theorem inv_closeDone {s s' : St} {i : Nat} (I : Inv err tr s)
    (hs : step true err tr s (.closeDone i) = some s') : Inv err tr s' := by
  simp only [step] at hs
  split at hs
  next hp =>
    cases hs
    obtain ⟨h1, h2, h3, h4, h5, h6, h7, h8⟩ := I.sync i _ hp rfl
    refine inv_winner_move I hp rfl rfl rfl rfl rfl rfl rfl rfl ?_ ?_ ?_
    · exact ⟨h1, h2, h3, rfl, h5, h6, (fun _ => h7 rfl), (by intro h; cases h)⟩
    · intro h; rw [h5] at h; cases h
    · intro _; exact ⟨rfl, rfl⟩
  · cases hs

theorem inv_unlockMeta {s s' : St} {i : Nat} (I : Inv err tr s)
    (hs : step true err tr s (.unlockMeta i) = some s') : Inv err tr s' := by
  simp only [step] at hs
  split at hs
  next hp =>
    cases hs
    obtain ⟨h1, h2, h3, h4, h5, h6, h7, h8⟩ := I.sync i _ hp rfl
    refine inv_winner_move I hp rfl rfl rfl rfl rfl rfl rfl rfl ?_ ?_ ?_
    · exact ⟨h1, h2, rfl, h4, h5, h6, (fun _ => h7 rfl), (by intro h; cases h)⟩
    · intro h; rw [h5] at h; cases h
    · intro h; exact ⟨h, rfl⟩
  · cases hs

theorem inv_recvClose {s s' : St} {i : Nat} (I : Inv err tr s)
    (hs : step true err tr s (.recvClose i) = some s') : Inv err tr s' := by
  simp only [step] at hs
  split at hs
  next hp =>
    split at hs
    next h => cases h
    · cases hs
  next hp =>
    split at hs
    · cases hs
      obtain ⟨h1, h2, h3, h4, h5, h6, h7, h8⟩ := I.sync i _ hp rfl
      refine inv_winner_move I hp rfl rfl rfl rfl rfl rfl rfl rfl ?_ ?_ ?_
      · exact ⟨h1, h2, h3, h4, rfl, h6, (fun _ => h7 rfl), (by intro h; cases h)⟩
      · intro _; exact ⟨rfl, rfl⟩
      · intro h; exact ⟨h, rfl⟩
    · cases hs
  · cases hs

theorem inv_cancelCtx {s s' : St} {i : Nat} (I : Inv err tr s)
    (hs : step true err tr s (.cancelCtx i) = some s') : Inv err tr s' := by
  simp only [step] at hs
  split at hs
  next hp =>
    split at hs
    · cases hs
      obtain ⟨h1, h2, h3, h4, h5, h6, h7, h8⟩ := I.sync i _ hp rfl
      refine inv_winner_move I hp rfl rfl rfl rfl rfl rfl rfl rfl ?_ ?_ ?_
      · exact ⟨h1, h2, h3, h4, h5, rfl, (fun _ => h7 rfl), (by intro h; cases h)⟩
      · intro h; exact ⟨h, rfl⟩
      · intro h; exact ⟨h, rfl⟩
    · cases hs
  next hp =>
    split at hs
    next h => cases h
    · cases hs
  · cases hs

theorem inv_recvStart {s s' : St} (I : Inv err tr s)
    (hs : step true err tr s .recvStart = some s') : Inv err tr s' := by
  simp only [step] at hs
  split at hs
  next hr =>
    cases hs
    have hpre := I.reader_pre (by intro r h; rw [hr] at h; cases h)
    refine ⟨I.one_winner, I.idle, I.sync, I.has_winner, ?_, fun _ => hpre, I.read_trailer, I.read_target,
      I.peeks_shape⟩
    intro r h
    cases hc : s.recvClosed with
    | false => simp [hc] at h
    | true =>
      simp only [hc, if_true, RPc.got.injEq] at h
      exact ⟨rfl, h.symm⟩
  · cases hs

theorem inv_recvWake {s s' : St} (I : Inv err tr s)
    (hs : step true err tr s .recvWake = some s') : Inv err tr s' := by
  simp only [step] at hs
  split at hs
  next hr =>
    split at hs
    next hc =>
      cases hs
      have hpre := I.reader_pre (by intro r h; rw [hr] at h; cases h)
      refine ⟨I.one_winner, I.idle, I.sync, I.has_winner, ?_, fun _ => hpre, I.read_trailer, I.read_target,
        I.peeks_shape⟩
      intro r h
      simp only [RPc.got.injEq] at h
      exact ⟨hc, h.symm⟩
    · cases hs
  · cases hs

theorem pastStore_of_pastRClose {p : FPc} (h : p.pastRClose = true) : p.pastStore = true := by
  cases p <;> first | rfl | cases h

theorem pastSignal_of_pastRClose {p : FPc} (h : p.pastRClose = true) : p.pastSignal = true := by
  cases p <;> first | rfl | cases h

theorem pastStore_of_pastSignal {p : FPc} (h : p.pastSignal = true) : p.pastStore = true := by
  cases p <;> first | rfl | cases h

/-- receiver closed: a winner exists, it is past `receiver.close()`, everything is published -/
theorem Inv.closed_published {s : St} (I : Inv err tr s) (hc : s.recvClosed = true) :
    ∃ w p, s.fpcs[w]? = some p ∧ p.hasWon = true ∧ p.pastRClose = true ∧ s.done = some (err w) ∧
      s.doneSig = true ∧ s.trailers = tr w ∧ ∀ (t : Nat) (v : MD), s.targets[t]? = some v → v = tr w := by
  cases hd : s.done with
  | none =>
    have := (I.idle hd).2.2.2.2.1
    rw [hc] at this; cases this
  | some e =>
    obtain ⟨w, p, hp, hw⟩ := I.has_winner e hd
    obtain ⟨h1, _, _, h4, h5, _, h7, _⟩ := I.sync w p hp hw
    rw [hc] at h5
    have hps : p.pastStore = true := pastStore_of_pastRClose h5.symm
    have hpg : p.pastSignal = true := pastSignal_of_pastRClose h5.symm
    exact ⟨w, p, hp, hw, h5.symm, hd ▸ h1, by rw [h4, hpg], (h7 hps).1, (h7 hps).2⟩

theorem inv_readTrailer {s s' : St} (I : Inv err tr s)
    (hs : step true err tr s .readTrailer = some s') : Inv err tr s' := by
  simp only [step] at hs
  split at hs
  next r hr ht =>
    cases hs
    obtain ⟨hc, _⟩ := I.reader_got r hr
    obtain ⟨w, p, _, _, _, _, hsig, _, _⟩ := I.closed_published hc
    refine ⟨I.one_winner, I.idle, I.sync, I.has_winner, I.reader_got, ?_, ?_, I.read_target, I.peeks_shape⟩
    · intro h; exact absurd hr (h r)
    · intro v h
      simp only [St.trailerCall, hsig, if_true, Option.some.injEq] at h
      exact ⟨hc, h.symm⟩
  · cases hs

theorem inv_readTarget {s s' : St} {t : Nat} (I : Inv err tr s)
    (hs : step true err tr s (.readTarget t) = some s') : Inv err tr s' := by
  simp only [step] at hs
  split at hs
  next r v hr ht hv =>
    cases hs
    obtain ⟨hc, _⟩ := I.reader_got r hr
    obtain ⟨w, p, hp, hw, _, _, _, _, htg⟩ := I.closed_published hc
    refine ⟨I.one_winner, I.idle, I.sync, I.has_winner, I.reader_got, ?_, I.read_trailer, ?_, I.peeks_shape⟩
    · intro h; exact absurd hr (h r)
    · intro v' h
      simp only [Option.some.injEq] at h
      subst h
      refine ⟨hc, ?_⟩
      intro w' p' hp' hw'
      rw [I.one_winner w' w p' p hp' hp hw' hw]
      exact htg t v hv
  · cases hs

theorem inv_peekTrailer {s s' : St} (I : Inv err tr s)
    (hs : step true err tr s .peekTrailer = some s') : Inv err tr s' := by
  simp only [step] at hs
  split at hs
  next b hb =>
    cases hs
    refine ⟨I.one_winner, I.idle, I.sync, I.has_winner, I.reader_got, I.reader_pre, I.read_trailer,
      I.read_target, ?_⟩
    obtain ⟨a, b, h, hb⟩ := I.peeks_shape
    cases hsig : s.doneSig with
    | false =>
      have := hb hsig
      subst this
      refine ⟨a + 1, 0, ?_, fun _ => rfl⟩
      show s.peeks ++ [s.trailerCall] = _
      simp only [St.trailerCall, hsig, h, List.replicate_succ', List.replicate_zero, List.append_nil]
      rfl
    | true =>
      refine ⟨a, b + 1, ?_, fun h' => by cases h'⟩
      show s.peeks ++ [s.trailerCall] = _
      simp only [St.trailerCall, hsig, h, List.replicate_succ', List.append_assoc, if_true]
  · cases hs

/-- the invariant is inductive -/
theorem inv_step {s s' : St} {a : Act} (I : Inv err tr s) (hs : step true err tr s a = some s') :
    Inv err tr s' := by
  cases a with
  | cas i => exact inv_cas I hs
  | remove i => exact inv_remove I hs
  | lockMeta i => exact inv_lockMeta I hs
  | storeTrailers i => exact inv_storeTrailers I hs
  | closeDone i => exact inv_closeDone I hs
  | unlockMeta i => exact inv_unlockMeta I hs
  | recvClose i => exact inv_recvClose I hs
  | cancelCtx i => exact inv_cancelCtx I hs
  | recvStart => exact inv_recvStart I hs
  | recvWake => exact inv_recvWake I hs
  | readTrailer => exact inv_readTrailer I hs
  | readTarget t => exact inv_readTarget I hs
  | peekTrailer => exact inv_peekTrailer I hs

/-! ### Runs -/

theorem run_append {o : Bool} : ∀ (as bs : List Act) {s s'' : St},
    run o err tr s (as ++ bs) = some s'' ↔ ∃ s', run o err tr s as = some s' ∧ run o err tr s' bs = some s''
  | [], bs, s, s'' => by simp [run]
  | a :: as, bs, s, s'' => by
    simp only [List.cons_append, run]
    cases step o err tr s a with
    | none => simp
    | some s1 => exact run_append as bs

theorem run_cons {o : Bool} {a : Act} {as : List Act} {s s'' : St} :
    run o err tr s (a :: as) = some s'' ↔ ∃ s', step o err tr s a = some s' ∧ run o err tr s' as = some s'' := by
  simp only [run]
  cases step o err tr s a with
  | none => simp
  | some s1 => simp

/-- a property of states that every step preserves holds along every run -/
theorem run_preserves {o : Bool} {P : St → Prop}
    (hstep : ∀ {s s' : St} {a : Act}, step o err tr s a = some s' → P s → P s') :
    ∀ (as : List Act) {s s' : St}, run o err tr s as = some s' → P s → P s'
  | [], s, s', hr, h => by simp [run] at hr; subst hr; exact h
  | a :: as, s, s', hr, h => by
    obtain ⟨s1, hs, hr'⟩ := run_cons.mp hr
    exact run_preserves hstep as hr' (hstep hs h)

theorem inv_run (as : List Act) {s s' : St} (I : Inv err tr s) (hr : run true err tr s as = some s') :
    Inv err tr s' :=
  run_preserves (P := Inv err tr) (fun hs I => inv_step I hs) as hr I

/-- **1.** the invariant holds in every reachable state (current order), for every number of finishers,
    targets and peeks, every assignment of errors and trailers, every schedule -/
theorem inv_reachable (n k p : Nat) (as : List Act) {s : St}
    (hr : run true err tr (init n k p) as = some s) : Inv err tr s :=
  inv_run as (inv_init n k p) hr

/-! ### The transition relation, spelled out (both orders) -/

/-- `step` as a relation: one constructor per outcome of an action -/
inductive Step (o : Bool) (err : Nat → Err) (tr : Nat → MD) (s : St) : Act → St → Prop
  | casWin (i : Nat) (h : s.fpcs[i]? = some .start) (hd : s.done = none) :
      Step o err tr s (.cas i) { s with done := some (err i), fpcs := s.fpcs.set i .won }
  | casLose (i : Nat) (e : Err) (h : s.fpcs[i]? = some .start) (hd : s.done = some e) :
      Step o err tr s (.cas i) { s with fpcs := s.fpcs.set i .retFalse }
  | remove (i : Nat) (h : s.fpcs[i]? = some .won) :
      Step o err tr s (.remove i) { s with inTable := false, fpcs := s.fpcs.set i .removed }
  | lockNew (i : Nat) (h : s.fpcs[i]? = some .removed) (ho : o = true) (hm : s.metaMu = none) :
      Step o err tr s (.lockMeta i) { s with metaMu := some i, fpcs := s.fpcs.set i .locked }
  | lockOld (i : Nat) (h : s.fpcs[i]? = some .released) (ho : o = false) (hm : s.metaMu = none) :
      Step o err tr s (.lockMeta i) { s with metaMu := some i, fpcs := s.fpcs.set i .locked }
  | store (i : Nat) (h : s.fpcs[i]? = some .locked) :
      Step o err tr s (.storeTrailers i)
        { s with trailers := tr i, targets := List.replicate s.targets.length (tr i),
                 fpcs := s.fpcs.set i .stored }
  | closeDone (i : Nat) (h : s.fpcs[i]? = some .stored) :
      Step o err tr s (.closeDone i) { s with doneSig := true, fpcs := s.fpcs.set i .signalled }
  | unlock (i : Nat) (h : s.fpcs[i]? = some .signalled) :
      Step o err tr s (.unlockMeta i) { s with metaMu := none, fpcs := s.fpcs.set i .unlocked }
  | rcloseOld (i : Nat) (h : s.fpcs[i]? = some .removed) (ho : o = false) :
      Step o err tr s (.recvClose i) { s with recvClosed := true, fpcs := s.fpcs.set i .released }
  | rcloseNew (i : Nat) (h : s.fpcs[i]? = some .unlocked) (ho : o = true) :
      Step o err tr s (.recvClose i) { s with recvClosed := true, fpcs := s.fpcs.set i .rclosed }
  | cancelNew (i : Nat) (h : s.fpcs[i]? = some .rclosed) (ho : o = true) :
      Step o err tr s (.cancelCtx i) { s with ctxDone := true, fpcs := s.fpcs.set i .retTrue }
  | cancelOld (i : Nat) (h : s.fpcs[i]? = some .unlocked) (ho : o = false) :
      Step o err tr s (.cancelCtx i) { s with ctxDone := true, fpcs := s.fpcs.set i .retTrue }
  | recvStart (h : s.rpc = .idle) :
      Step o err tr s .recvStart { s with rpc := if s.recvClosed then .got s.done else .parked }
  | recvWake (h : s.rpc = .parked) (hc : s.recvClosed = true) :
      Step o err tr s .recvWake { s with rpc := .got s.done }
  | readTrailer (r : Option Err) (h : s.rpc = .got r) (ht : s.rTrailer = none) :
      Step o err tr s .readTrailer { s with rTrailer := some s.trailerCall }
  | readTarget (t : Nat) (r : Option Err) (v : MD) (h : s.rpc = .got r) (ht : s.rTarget = none)
      (hv : s.targets[t]? = some v) :
      Step o err tr s (.readTarget t) { s with rTarget := some v }
  | peek (b : Nat) (hb : s.budget = b + 1) :
      Step o err tr s .peekTrailer { s with budget := b, peeks := s.peeks ++ [s.trailerCall] }

theorem step_spec {o : Bool} {s s' : St} {a : Act} (hs : step o err tr s a = some s') :
    Step o err tr s a s' := by
  cases a with
  | cas i =>
    simp only [step] at hs
    split at hs
    next h =>
      split at hs
      next hd => cases hs; exact .casWin i h hd
      next e hd => cases hs; exact .casLose i e h hd
    · cases hs
  | remove i =>
    simp only [step] at hs
    split at hs
    next h => cases hs; exact .remove i h
    · cases hs
  | lockMeta i =>
    simp only [step] at hs
    split at hs
    next h =>
      split at hs
      next hc => cases hs; exact .lockNew i h hc.1 hc.2
      · cases hs
    next h =>
      split at hs
      next hc => cases hs; exact .lockOld i h hc.1 hc.2
      · cases hs
    · cases hs
  | storeTrailers i =>
    simp only [step] at hs
    split at hs
    next h => cases hs; exact .store i h
    · cases hs
  | closeDone i =>
    simp only [step] at hs
    split at hs
    next h => cases hs; exact .closeDone i h
    · cases hs
  | unlockMeta i =>
    simp only [step] at hs
    split at hs
    next h => cases hs; exact .unlock i h
    · cases hs
  | recvClose i =>
    simp only [step] at hs
    split at hs
    next h =>
      split at hs
      next hc => cases hs; exact .rcloseOld i h hc
      · cases hs
    next h =>
      split at hs
      next hc => cases hs; exact .rcloseNew i h hc
      · cases hs
    · cases hs
  | cancelCtx i =>
    simp only [step] at hs
    split at hs
    next h =>
      split at hs
      next hc => cases hs; exact .cancelNew i h hc
      · cases hs
    next h =>
      split at hs
      next hc => cases hs; exact .cancelOld i h hc
      · cases hs
    · cases hs
  | recvStart =>
    simp only [step] at hs
    split at hs
    next h => cases hs; exact .recvStart h
    · cases hs
  | recvWake =>
    simp only [step] at hs
    split at hs
    next h =>
      split at hs
      next hc => cases hs; exact .recvWake h hc
      · cases hs
    · cases hs
  | readTrailer =>
    simp only [step] at hs
    split at hs
    next r h ht => cases hs; exact .readTrailer r h ht
    · cases hs
  | readTarget t =>
    simp only [step] at hs
    split at hs
    next r v h ht hv => cases hs; exact .readTarget t r v h ht hv
    · cases hs
  | peekTrailer =>
    simp only [step] at hs
    split at hs
    next b hb => cases hs; exact .peek b hb
    · cases hs

/-- … and back: the relation is exactly `step` -/
theorem step_of_Step {o : Bool} {s s' : St} {a : Act} (h : Step o err tr s a s') :
    step o err tr s a = some s' := by
  cases h <;> simp_all [step]

/-! ### Stability (both orders) -/

theorem set_keeps {l : List FPc} {P : FPc → Prop} {w i : Nat} {p q q' : FPc} (hp : l[w]? = some p) (hP : P p)
    (hq : l[i]? = some q) (hqq : P q → P q') : ∃ p', (l.set i q')[w]? = some p' ∧ P p' := by
  by_cases e : w = i
  · subst e
    rw [hp] at hq; cases hq
    exact ⟨q', get_set_self hp, hqq hP⟩
  · exact ⟨p, by rw [List.getElem?_set_ne (Ne.symm e)]; exact hp, hP⟩

/-- a winner stays a winner -/
theorem winner_step {o : Bool} {s s' : St} {a : Act} (hs : step o err tr s a = some s') {w : Nat}
    (hw : Winner s w) : Winner s' w := by
  obtain ⟨p, hp, hwp⟩ := hw
  cases step_spec hs with
  | recvStart | recvWake | readTrailer | readTarget | peek => exact ⟨p, hp, hwp⟩
  | casWin i h | casLose i _ h | remove i h | lockNew i h | lockOld i h | store i h | closeDone i h
  | unlock i h | rcloseOld i h | rcloseNew i h | cancelNew i h | cancelOld i h =>
    exact set_keeps (P := fun p => p.hasWon = true) hp hwp h (by intro h; first | rfl | cases h)

theorem winner_run {o : Bool} (as : List Act) {s s' : St} (hr : run o err tr s as = some s') {w : Nat}
    (hw : Winner s w) : Winner s' w :=
  run_preserves (P := fun s => Winner s w) (fun hs h => winner_step hs h) as hr hw

/-- a finisher that has started never starts again -/
theorem started_step {o : Bool} {s s' : St} {a : Act} (hs : step o err tr s a = some s') {i : Nat}
    (hi : ∃ q, s.fpcs[i]? = some q ∧ q ≠ .start) : ∃ q, s'.fpcs[i]? = some q ∧ q ≠ .start := by
  obtain ⟨p, hp, hne⟩ := hi
  cases step_spec hs with
  | recvStart | recvWake | readTrailer | readTarget | peek => exact ⟨p, hp, hne⟩
  | casWin i h | casLose i _ h | remove i h | lockNew i h | lockOld i h | store i h | closeDone i h
  | unlock i h | rcloseOld i h | rcloseNew i h | cancelNew i h | cancelOld i h =>
    exact set_keeps (P := fun p => p ≠ .start) hp hne h (by intro _ h; cases h)

/-- the terminal result, once obtained, is the reader's for good -/
theorem got_step {o : Bool} {s s' : St} {a : Act} (hs : step o err tr s a = some s') {r : Option Err}
    (hg : s.rpc = .got r) : s'.rpc = .got r := by
  cases step_spec hs with
  | recvStart h => rw [hg] at h; cases h
  | recvWake h => rw [hg] at h; cases h
  | _ => exact hg

theorem got_run {o : Bool} (as : List Act) {s s' : St} (hr : run o err tr s as = some s') {r : Option Err}
    (hg : s.rpc = .got r) : s'.rpc = .got r :=
  run_preserves (P := fun s => s.rpc = .got r) (fun hs h => got_step hs h) as hr hg

/-- the number of call-option targets never changes -/
theorem targets_length_step {o : Bool} {s s' : St} {a : Act} (hs : step o err tr s a = some s') :
    s'.targets.length = s.targets.length := by
  cases step_spec hs with
  | store i h => exact List.length_replicate
  | _ => rfl

theorem targets_length_run {o : Bool} (as : List Act) {s s' : St} (hr : run o err tr s as = some s') {k : Nat}
    (h : s.targets.length = k) : s'.targets.length = k :=
  run_preserves (P := fun s => s.targets.length = k) (fun hs h => (targets_length_step hs).trans h) as hr h

/-! ### The invariant, in the words of the brief -/

/-- at most one finisher ever wins the CAS -/
theorem Inv.winner_unique {s : St} (I : Inv err tr s) {w w' : Nat} (h : Winner s w) (h' : Winner s w') :
    w' = w := by
  obtain ⟨p, hp, hw⟩ := h
  obtain ⟨p', hp', hw'⟩ := h'
  exact I.one_winner w' w p' p hp' hp hw' hw

/-- `done` is set iff some finisher won … -/
theorem Inv.done_iff_winner {s : St} (I : Inv err tr s) : s.done ≠ none ↔ ∃ w, Winner s w := by
  constructor
  · intro h
    cases hd : s.done with
    | none => exact absurd hd h
    | some e =>
      obtain ⟨w, p, hp, hw⟩ := I.has_winner e hd
      exact ⟨w, p, hp, hw⟩
  · intro ⟨w, p, hp, hw⟩ h
    have := (I.sync w p hp hw).1
    rw [h] at this; cases this

/-- … and it holds the winner's error -/
theorem Inv.done_of_winner {s : St} (I : Inv err tr s) {w : Nat} (h : Winner s w) : s.done = some (err w) := by
  obtain ⟨p, hp, hw⟩ := h
  exact (I.sync w p hp hw).1

/-- `doneSignal` closed → the trailers and every target are stored, and they are THE winner's -/
theorem Inv.signalled_published {s : St} (I : Inv err tr s) (hsig : s.doneSig = true) :
    ∃ w, Winner s w ∧ s.trailers = tr w ∧ ∀ (t : Nat) (v : MD), s.targets[t]? = some v → v = tr w := by
  cases hd : s.done with
  | none =>
    have := (I.idle hd).2.2.2.1
    rw [hsig] at this; cases this
  | some e =>
    obtain ⟨w, p, hp, hw⟩ := I.has_winner e hd
    obtain ⟨_, _, _, h4, _, _, h7, _⟩ := I.sync w p hp hw
    rw [hsig] at h4
    exact ⟨w, ⟨p, hp, hw⟩, h7 (pastStore_of_pastSignal h4.symm)⟩

/-- receiver closed → `doneSignal` closed, the trailers and every target stored, `trailers = tr w` and
    `done = err w` for THE winner `w` -/
theorem Inv.closed_published' {s : St} (I : Inv err tr s) (hc : s.recvClosed = true) :
    ∃ w, Winner s w ∧ s.done = some (err w) ∧ s.doneSig = true ∧ s.trailers = tr w ∧
      ∀ (t : Nat) (v : MD), s.targets[t]? = some v → v = tr w := by
  obtain ⟨w, p, hp, hw, _, hd, hsig, ht, htg⟩ := I.closed_published hc
  exact ⟨w, ⟨p, hp, hw⟩, hd, hsig, ht, htg⟩

/-- `metaMu` is held by at most one finisher … -/
theorem Inv.mutex {s : St} (I : Inv err tr s) {i j : Nat} {p q : FPc} (hp : s.fpcs[i]? = some p)
    (hq : s.fpcs[j]? = some q) (hhp : p.holds = true) (hhq : q.holds = true) : i = j := by
  have hwp : p.hasWon = true := by cases p <;> first | rfl | cases hhp
  have hwq : q.hasWon = true := by cases q <;> first | rfl | cases hhq
  exact I.one_winner i j p q hp hq hwp hwq

/-- … and `metaMu` names exactly the finisher between `Lock` and `Unlock` -/
theorem Inv.holder_iff {s : St} (I : Inv err tr s) {h : Nat} :
    s.metaMu = some h ↔ ∃ p, s.fpcs[h]? = some p ∧ p.holds = true := by
  constructor
  · intro hm
    cases hd : s.done with
    | none =>
      have := (I.idle hd).2.2.1
      rw [hm] at this; cases this
    | some e =>
      obtain ⟨w, p, hp, hw⟩ := I.has_winner e hd
      have h3 := (I.sync w p hp hw).2.2.1
      rw [hm] at h3
      cases hh : p.holds with
      | false => simp [hh] at h3
      | true =>
        simp only [hh, if_true, Option.some.injEq] at h3
        subst h3
        exact ⟨p, hp, hh⟩
  · intro ⟨p, hp, hh⟩
    have hwp : p.hasWon = true := by cases p <;> first | rfl | cases hh
    have h3 := (I.sync h p hp hwp).2.2.1
    rw [h3, hh]; rfl

/-! ### 2. / 3. The reader: whoever sees the end of the RPC sees its status and its trailers -/

/-- one step under the invariant: once `doneSignal` is closed, the trailers and the targets never
    change again -/
theorem trailers_stable_step {s s' : St} {a : Act} (I : Inv err tr s)
    (hs : step true err tr s a = some s') (hsig : s.doneSig = true) :
    s'.doneSig = true ∧ s'.trailers = s.trailers ∧ s'.targets = s.targets := by
  cases step_spec hs with
  | store i h =>
    have h4 := (I.sync i _ h rfl).2.2.2.1
    rw [hsig] at h4; cases h4
  | closeDone i h => exact ⟨rfl, rfl, rfl⟩
  | _ => exact ⟨hsig, rfl, rfl⟩

/-- **4 (`trailers_stable`).** Once `doneSignal` is closed, `st.trailers` and every call-option
    target keep their value for ever, and `doneSignal` stays closed. -/
theorem trailers_stable : ∀ (as' : List Act) {s s' : St}, Inv err tr s → s.doneSig = true →
    run true err tr s as' = some s' →
    s'.doneSig = true ∧ s'.trailers = s.trailers ∧ s'.targets = s.targets
  | [], s, s', _, hsig, hr => by simp [run] at hr; subst hr; exact ⟨hsig, rfl, rfl⟩
  | a :: as', s, s', I, hsig, hr => by
    obtain ⟨s1, hs, hr'⟩ := run_cons.mp hr
    obtain ⟨h1, h2, h3⟩ := trailers_stable_step I hs hsig
    obtain ⟨h1', h2', h3'⟩ := trailers_stable as' (inv_step I hs) h1 hr'
    exact ⟨h1', h2'.trans h2, h3'.trans h3⟩

/-- **3.** The terminal result the reader gets is `err w` of THE winner `w` — the finisher whose trailers
    are published: status and trailers belong to the same completion, the RPC completes exactly once.
    (`r` is the raw content of `done`: it is never the nil pointer.)  The result is final
    (`got_run`), the winner stays the winner (`winner_run`). -/
theorem terminal_result_is_the_winners (n k p : Nat) (as : List Act) {s : St}
    (hr : run true err tr (init n k p) as = some s) {r : Option Err} (hg : s.rpc = .got r) :
    ∃ w, Winner s w ∧ (∀ w', Winner s w' → w' = w) ∧ r = some (err w) ∧ s.done = some (err w) ∧
      s.trailers = tr w ∧ s.trailerCall = some (tr w) ∧
      ∀ (t : Nat) (v : MD), s.targets[t]? = some v → v = tr w := by
  have I := inv_reachable n k p as hr
  obtain ⟨hc, hrd⟩ := I.reader_got r hg
  obtain ⟨w, hw, hd, hsig, ht, htg⟩ := I.closed_published' hc
  refine ⟨w, hw, fun w' h' => I.winner_unique hw h', hrd.trans hd, hd, ht, ?_, htg⟩
  simp only [St.trailerCall, hsig, if_true, ht]

/-- **2.** In every reachable state in which the reader has obtained the terminal result
    (`recvStart` / `recvWake` returned `done`), with `w` THE finisher that won:

    * read NOW: `readTrailer`, if not yet taken, is enabled and returns `some (tr w)`; `readTarget t`,
      for every target `t < k`, is enabled and returns `tr w`;
    * read WHENEVER: after every continuation `as'` of the schedule, `w` is still the one winner, and
      whatever the reader has read by then — `rTrailer`, `rTarget`: the values its actual `readTrailer` /
      `readTarget` returned, at whatever moment they ran — is `some (tr w)` resp. `tr w`: never `none`
      (nil), never another finisher's trailers. -/
theorem reader_sees_trailers (n k p : Nat) (as : List Act) {s : St}
    (hr : run true err tr (init n k p) as = some s) {r : Option Err} (hg : s.rpc = .got r) :
    ∃ w, Winner s w ∧ (∀ w', Winner s w' → w' = w) ∧
      (s.rTrailer = none →
        ∃ s', step true err tr s .readTrailer = some s' ∧ s'.rTrailer = some (some (tr w))) ∧
      (∀ t, t < k → s.rTarget = none →
        ∃ s', step true err tr s (.readTarget t) = some s' ∧ s'.rTarget = some (tr w)) ∧
      ∀ (as' : List Act) (s' : St), run true err tr s as' = some s' →
        Winner s' w ∧ (∀ w', Winner s' w' → w' = w) ∧ s'.rpc = .got r ∧
        (∀ v, s'.rTrailer = some v → v = some (tr w)) ∧ (∀ v, s'.rTarget = some v → v = tr w) := by
  have I := inv_reachable n k p as hr
  obtain ⟨w, hw, huniq, _, _, _, htc, htg⟩ := terminal_result_is_the_winners n k p as hr hg
  refine ⟨w, hw, huniq, ?_, ?_, ?_⟩
  · intro hnone
    exact ⟨{ s with rTrailer := some s.trailerCall }, by simp [step, hg, hnone], by simp [htc]⟩
  · intro t ht hnone
    have hlen : s.targets.length = k :=
      targets_length_run as hr (by simp [init])
    have hlt : t < s.targets.length := by omega
    have hv : s.targets[t]? = some s.targets[t] := List.getElem?_eq_getElem hlt
    refine ⟨{ s with rTarget := some s.targets[t] }, by simp [step, hg, hnone, hv], ?_⟩
    show some s.targets[t] = some (tr w)
    rw [htg t _ hv]
  · intro as' s' hr'
    have hr'' : run true err tr (init n k p) (as ++ as') = some s' := (run_append as as').mpr ⟨s, hr, hr'⟩
    have I' := inv_reachable n k p (as ++ as') hr''
    have hw' := winner_run as' hr' hw
    refine ⟨hw', fun w' h' => I'.winner_unique hw' h', got_run as' hr' hg, ?_, ?_⟩
    · intro v hv
      obtain ⟨hc, e⟩ := I'.read_trailer v hv
      obtain ⟨w1, hw1, _, _, ht1, _⟩ := I'.closed_published' hc
      rw [e, ht1, I'.winner_unique hw' hw1]
    · intro v hv
      obtain ⟨_, h2⟩ := I'.read_target v hv
      obtain ⟨q, hq, hwq⟩ := hw'
      exact h2 w q hq hwq

/-- **2, as the value of the read itself**: after the terminal result, along any continuation, the
    `readTrailer` the reader eventually performs returns `some (tr w)`, its `readTarget t` returns `tr w`. -/
theorem reader_read_returns_winners_trailers (n k p : Nat) (as : List Act) {s : St}
    (hr : run true err tr (init n k p) as = some s) {r : Option Err} (hg : s.rpc = .got r)
    {w : Nat} (hw : Winner s w) (as' : List Act) {s1 s2 : St} (h1 : run true err tr s as' = some s1) :
    (step true err tr s1 .readTrailer = some s2 → s1.trailerCall = some (tr w) ∧ s2.rTrailer = some (some (tr w))) ∧
    (∀ t, step true err tr s1 (.readTarget t) = some s2 → s1.targets[t]? = some (tr w) ∧ s2.rTarget = some (tr w)) := by
  obtain ⟨w0, hw0, huniq, _, _, hall⟩ := reader_sees_trailers n k p as hr hg
  have e : w = w0 := huniq w hw
  subst e
  constructor
  · intro h2
    have h12 : run true err tr s (as' ++ [.readTrailer]) = some s2 :=
      (run_append as' _).mpr ⟨s1, h1, by simp [run, h2]⟩
    obtain ⟨_, _, _, hT, _⟩ := hall _ s2 h12
    cases step_spec h2 with
    | readTrailer r' h ht =>
      have := hT _ rfl
      exact ⟨this, by rw [this]⟩
  · intro t h2
    have h12 : run true err tr s (as' ++ [.readTarget t]) = some s2 :=
      (run_append as' _).mpr ⟨s1, h1, by simp [run, h2]⟩
    obtain ⟨_, _, _, _, hG⟩ := hall _ s2 h12
    cases step_spec h2 with
    | readTarget _ r' v h ht hv =>
      have := hG _ rfl
      exact ⟨by rw [hv, this], by rw [this]⟩

/-! ### 4. The observer: `Trailer()` is nil before the end, the winner's trailers afterwards -/

/-- what `peekTrailer` does: it appends the value of `Trailer()` to the log -/
theorem peek_logs {o : Bool} {s s' : St} (hs : step o err tr s .peekTrailer = some s') :
    s'.peeks = s.peeks ++ [s.trailerCall] := by
  cases step_spec hs with
  | peek b hb => rfl

/-- **4.** In every reachable state: while `doneSignal` is not yet closed, `Trailer()` — the observer's
    `peekTrailer` — returns `none` (nil), and so did every peek so far; once it is closed, `Trailer()`
    returns `some (tr w)` for THE winner `w`, and keeps returning exactly that after every continuation
    of the schedule. -/
theorem trailer_nil_before_end (n k p : Nat) (as : List Act) {s : St}
    (hr : run true err tr (init n k p) as = some s) :
    (s.doneSig = false → s.trailerCall = none ∧ ∀ v ∈ s.peeks, v = none) ∧
    (s.doneSig = true → ∃ w, Winner s w ∧ (∀ w', Winner s w' → w' = w) ∧ s.trailerCall = some (tr w) ∧
      ∀ (as' : List Act) (s' : St), run true err tr s as' = some s' →
        Winner s' w ∧ s'.trailerCall = some (tr w)) := by
  have I := inv_reachable n k p as hr
  constructor
  · intro hsig
    refine ⟨by simp [St.trailerCall, hsig], ?_⟩
    obtain ⟨a, b, h, hb⟩ := I.peeks_shape
    have := hb hsig
    subst this
    intro v hv
    rw [h] at hv
    simp only [List.replicate_zero, List.append_nil] at hv
    exact (List.mem_replicate.mp hv).2
  · intro hsig
    obtain ⟨w, hw, ht, _⟩ := I.signalled_published hsig
    refine ⟨w, hw, fun w' h' => I.winner_unique hw h', by simp [St.trailerCall, hsig, ht], ?_⟩
    intro as' s' hr'
    obtain ⟨h1, h2, _⟩ := trailers_stable as' I hsig hr'
    exact ⟨winner_run as' hr' hw, by simp [St.trailerCall, h1, h2, ht]⟩

/-- **4, the whole log**: the observer's results, in the order it obtained them, are `a` times nil and then
    `b` times the same value; if there is such a value at all it is `some (tr w)` of THE winner `w`:
    `Trailer()` never returns anything else and never goes back to nil. -/
theorem peeks_log (n k p : Nat) (as : List Act) {s : St}
    (hr : run true err tr (init n k p) as = some s) :
    ∃ a b, s.peeks = List.replicate a none ++ List.replicate b (some s.trailers) ∧
      (b ≠ 0 → s.doneSig = true ∧ ∃ w, Winner s w ∧ s.trailers = tr w) := by
  have I := inv_reachable n k p as hr
  obtain ⟨a, b, h, hb⟩ := I.peeks_shape
  refine ⟨a, b, h, ?_⟩
  intro hne
  cases hsig : s.doneSig with
  | false => exact absurd (hb hsig) hne
  | true =>
    obtain ⟨w, hw, ht, _⟩ := I.signalled_published hsig
    exact ⟨rfl, w, hw, ht⟩

/-! ### 5. Exactly one completion -/

theorem nTrue_zero : ∀ {l : List FPc}, (∀ i : Nat, l[i]? ≠ some FPc.retTrue) → nTrue l = 0
  | [], _ => rfl
  | x :: r, h => by
    have h0 : x ≠ .retTrue := fun e => h 0 (by simp [e])
    have := nTrue_zero (l := r) (fun i hi => h (i + 1) (by simpa using hi))
    simp [nTrue, h0, this]

theorem nTrue_pos : ∀ {l : List FPc} {i : Nat}, l[i]? = some .retTrue → 0 < nTrue l
  | [], _, h => by cases h
  | x :: r, 0, h => by
    simp only [List.getElem?_cons_zero, Option.some.injEq] at h
    subst h
    simp only [nTrue, if_true]
    omega
  | x :: r, i + 1, h => by
    simp only [List.getElem?_cons_succ] at h
    have := nTrue_pos h
    simp only [nTrue]
    omega

theorem nTrue_le_one : ∀ {l : List FPc},
    (∀ i j : Nat, l[i]? = some FPc.retTrue → l[j]? = some FPc.retTrue → i = j) → nTrue l ≤ 1
  | [], _ => by simp [nTrue]
  | x :: r, h => by
    by_cases e : x = .retTrue
    · have : nTrue r = 0 := nTrue_zero (fun i hi => by
        have := h 0 (i + 1) (by simp [e]) (by simpa using hi)
        omega)
      simp [nTrue, e, this]
    · have := nTrue_le_one (l := r) (fun i j hi hj => by
        have := h (i + 1) (j + 1) (by simpa using hi) (by simpa using hj)
        omega)
      simp only [nTrue, e, if_false]
      omega

/-- a `cas i` in the schedule: finisher `i` is past `start`, for good -/
theorem cas_in_schedule {o : Bool} {i : Nat} : ∀ (as : List Act) {s s' : St},
    run o err tr s as = some s' → Act.cas i ∈ as → ∃ q, s'.fpcs[i]? = some q ∧ q ≠ .start
  | [], _, _, _, hm => by cases hm
  | a :: as, s, s', hr, hm => by
    obtain ⟨s1, hs, hr'⟩ := run_cons.mp hr
    rcases List.mem_cons.mp hm with e | hm'
    · subst e
      have h1 : ∃ q, s1.fpcs[i]? = some q ∧ q ≠ .start := by
        cases step_spec hs with
        | casWin _ h hd => exact ⟨.won, get_set_self h, by intro h; cases h⟩
        | casLose _ e h hd => exact ⟨.retFalse, get_set_self h, by intro h; cases h⟩
      exact run_preserves (P := fun s => ∃ q, s.fpcs[i]? = some q ∧ q ≠ .start)
        (fun hs h => started_step hs h) as hr' h1
    · exact cas_in_schedule as hr' hm'

/-- a finisher that has returned does nothing any more -/
theorem returned_disabled {o : Bool} {s : St} {i : Nat} {q : FPc} (hq : s.fpcs[i]? = some q)
    (hret : q.returned = true) {a : Act} (ha : a.fin = some i) : step o err tr s a = none := by
  cases a <;> simp only [Act.fin, Option.some.injEq, reduceCtorEq] at ha <;> subst ha <;>
    cases q <;> first | (cases hret; done) | simp [step, hq]

/-- **5 (the losers change nothing).** A CAS that finds `done` set changes nothing but the loser's own
    program counter, which becomes `retFalse`; the loser never acts again (both orders). -/
theorem loser_changes_nothing {o : Bool} {s s' : St} {i : Nat} (hd : s.done ≠ none)
    (hs : step o err tr s (.cas i) = some s') :
    s' = { s with fpcs := s.fpcs.set i .retFalse } ∧ s'.fpcs[i]? = some .retFalse ∧
      ∀ a, a.fin = some i → step o err tr s' a = none := by
  cases step_spec hs with
  | casWin _ h hd' => exact absurd hd' hd
  | casLose _ e h hd' =>
    have hq : (s.fpcs.set i FPc.retFalse)[i]? = some .retFalse := get_set_self h
    exact ⟨rfl, hq, fun a ha => returned_disabled (s := { s with fpcs := s.fpcs.set i .retFalse }) hq rfl ha⟩

/-- **5.** In every schedule:
    * at most one finisher has returned `true`, at any moment;
    * if any `cas` happened, there is exactly one winner `w` (the finisher on its way to `return true`);
      every other finisher is still at `start` or has returned `false`;
    * once everybody has returned (and a `cas` happened), exactly one finisher has returned `true`. -/
theorem exactly_one_completion (n k p : Nat) (as : List Act) {s : St}
    (hr : run true err tr (init n k p) as = some s) :
    nTrue s.fpcs ≤ 1 ∧
    ((∃ i, Act.cas i ∈ as) →
      ∃ w, Winner s w ∧ (∀ w', Winner s w' → w' = w) ∧
        (∀ (j : Nat) (q : FPc), s.fpcs[j]? = some q → j ≠ w → q = .start ∨ q = .retFalse) ∧
        ((∀ (j : Nat) (q : FPc), s.fpcs[j]? = some q → q.returned = true) →
          s.fpcs[w]? = some .retTrue ∧ nTrue s.fpcs = 1)) := by
  have I := inv_reachable n k p as hr
  have hle : nTrue s.fpcs ≤ 1 :=
    nTrue_le_one (fun i j hi hj => I.one_winner i j _ _ hi hj rfl rfl)
  refine ⟨hle, ?_⟩
  intro ⟨i, hi⟩
  obtain ⟨q, hq, hne⟩ := cas_in_schedule as hr hi
  have hdone : s.done ≠ none := by
    intro hd
    exact hne ((I.idle hd).1 i q hq)
  obtain ⟨w, hw⟩ := I.done_iff_winner.mp hdone
  refine ⟨w, hw, fun w' h' => I.winner_unique hw h', ?_, ?_⟩
  · intro j q' hq' hjw
    cases hwq : q'.hasWon with
    | false => cases q' <;> first | (left; rfl) | (right; rfl) | cases hwq
    | true => exact absurd (I.winner_unique hw ⟨q', hq', hwq⟩) hjw
  · intro hall
    obtain ⟨pw, hpw, hww⟩ := hw
    have hret := hall w pw hpw
    have e : pw = .retTrue := by cases pw <;> first | rfl | (cases hww; done) | (cases hret; done)
    subst e
    have := nTrue_pos hpw
    exact ⟨hpw, by omega⟩

/-! ### 6. Progress -/

theorem nextAct_fin {o : Bool} {i : Nat} {q : FPc} {a : Act} (h : nextAct o i q = some a) :
    a.fin = some i := by
  cases q <;> cases o <;> simp [nextAct] at h <;> subst h <;> rfl

/-- **6 (nobody is ever blocked).** Under the invariant every finisher that has not returned can take ITS
    next step right now, and the step brings it closer to its `return`.  In particular `lockMeta` is
    enabled whenever a finisher arrives at it: only the winner of the CAS ever gets there, so among
    finishers `metaMu` is never contended. -/
theorem finisher_next_enabled {s : St} (I : Inv err tr s) {i : Nat} {q : FPc}
    (hq : s.fpcs[i]? = some q) (hnr : q.returned = false) :
    ∃ (a : Act) (s' : St) (q' : FPc), nextAct true i q = some a ∧ step true err tr s a = some s' ∧
      s'.fpcs[i]? = some q' ∧ q'.rank < q.rank := by
  cases q with
  | start =>
    cases hd : s.done with
    | none =>
      exact ⟨.cas i, _, .won, rfl, step_of_Step (.casWin i hq hd), get_set_self hq, by decide⟩
    | some e =>
      exact ⟨.cas i, _, .retFalse, rfl, step_of_Step (.casLose i e hq hd), get_set_self hq, by decide⟩
  | won => exact ⟨.remove i, _, .removed, rfl, step_of_Step (.remove i hq), get_set_self hq, by decide⟩
  | removed =>
    have hm : s.metaMu = none := (I.sync i _ hq rfl).2.2.1
    exact ⟨.lockMeta i, _, .locked, rfl, step_of_Step (.lockNew i hq rfl hm), get_set_self hq, by decide⟩
  | released => exact absurd rfl (I.sync i _ hq rfl).2.2.2.2.2.2.2
  | locked => exact ⟨.storeTrailers i, _, .stored, rfl, step_of_Step (.store i hq), get_set_self hq, by decide⟩
  | stored => exact ⟨.closeDone i, _, .signalled, rfl, step_of_Step (.closeDone i hq), get_set_self hq, by decide⟩
  | signalled => exact ⟨.unlockMeta i, _, .unlocked, rfl, step_of_Step (.unlock i hq), get_set_self hq, by decide⟩
  | unlocked =>
    exact ⟨.recvClose i, _, .rclosed, rfl, step_of_Step (.rcloseNew i hq rfl), get_set_self hq, by decide⟩
  | rclosed =>
    exact ⟨.cancelCtx i, _, .retTrue, rfl, step_of_Step (.cancelNew i hq rfl), get_set_self hq, by decide⟩
  | retTrue => cases hnr
  | retFalse => cases hnr

/-- every finisher can run to its `return` ON ITS OWN: a schedule of its own actions only, at most
    `rank` (≤ 9) of them -/
theorem finisher_completes_aux (i : Nat) : ∀ (m : Nat) {s : St} {q : FPc}, Inv err tr s →
    s.fpcs[i]? = some q → q.rank ≤ m →
    ∃ (as' : List Act) (s' : St) (q' : FPc), (∀ a ∈ as', a.fin = some i) ∧ as'.length ≤ q.rank ∧
      run true err tr s as' = some s' ∧ s'.fpcs[i]? = some q' ∧ q'.returned = true
  | 0, s, q, _, hq, hm => by
    have : q.returned = true := by cases q <;> first | rfl | simp [FPc.rank] at hm
    exact ⟨[], s, q, (by intro a h; cases h), Nat.zero_le _, rfl, hq, this⟩
  | m + 1, s, q, I, hq, hm => by
    cases hret : q.returned with
    | true => exact ⟨[], s, q, (by intro a h; cases h), Nat.zero_le _, rfl, hq, hret⟩
    | false =>
      obtain ⟨a, s1, q1, hn, hs, hq1, hlt⟩ := finisher_next_enabled I hq hret
      obtain ⟨as', s', q', hown, hlen, hr, hq', hret'⟩ :=
        finisher_completes_aux i m (inv_step I hs) hq1 (by omega)
      refine ⟨a :: as', s', q', ?_, by simp only [List.length_cons]; omega,
        run_cons.mpr ⟨s1, hs, hr⟩, hq', hret'⟩
      intro b hb
      rcases List.mem_cons.mp hb with e | h
      · subst e; exact nextAct_fin hn
      · exact hown b h

theorem finisher_completes {s : St} (I : Inv err tr s) {i : Nat} {q : FPc} (hq : s.fpcs[i]? = some q) :
    ∃ (as' : List Act) (s' : St) (q' : FPc), (∀ a ∈ as', a.fin = some i) ∧ as'.length ≤ q.rank ∧
      run true err tr s as' = some s' ∧ s'.fpcs[i]? = some q' ∧ q'.returned = true :=
  finisher_completes_aux i q.rank I hq (Nat.le_refl _)

/-- the finishers do not touch the reader -/
theorem rpc_fin_step {o : Bool} {s s' : St} {a : Act} {i : Nat} (ha : a.fin = some i)
    (hs : step o err tr s a = some s') : s'.rpc = s.rpc := by
  cases step_spec hs <;> first | rfl | cases ha

theorem rpc_fin_run {o : Bool} {i : Nat} : ∀ (as : List Act) {s s' : St}, (∀ a ∈ as, a.fin = some i) →
    run o err tr s as = some s' → s'.rpc = s.rpc
  | [], s, s', _, hr => by simp [run] at hr; subst hr; rfl
  | a :: as, s, s', hown, hr => by
    obtain ⟨s1, hs, hr'⟩ := run_cons.mp hr
    have h1 := rpc_fin_step (hown a List.mem_cons_self) hs
    have h2 := rpc_fin_run as (fun b hb => hown b (List.mem_cons_of_mem _ hb)) hr'
    exact h2.trans h1

/-- `recvWake` is enabled iff the reader is parked and the winner is past `receiver.close()`; it returns the
    winner's error -/
theorem reader_woken_when_closed {s : St} (I : Inv err tr s) (hpk : s.rpc = .parked) {w : Nat} {q : FPc}
    (hq : s.fpcs[w]? = some q) (hw : q.hasWon = true) (hc : q.pastRClose = true) :
    ∃ s', step true err tr s .recvWake = some s' ∧ s'.rpc = .got (some (err w)) := by
  obtain ⟨h1, _, _, _, h5, _, _, _⟩ := I.sync w q hq hw
  rw [hc] at h5
  exact ⟨{ s with rpc := .got s.done }, by simp [step, hpk, h5], by rw [← h1]⟩

/-- **6 (the parked reader is woken).** Some finisher `w` has won, the reader is parked: `w` can run to
    its end on its own (only its own actions, nobody else needed); it has then returned `true`, and
    `recvWake` is enabled and hands the reader `err w`. -/
theorem parked_reader_woken {s : St} (I : Inv err tr s) (hpk : s.rpc = .parked) {w : Nat} (hw : Winner s w) :
    ∃ (as' : List Act) (s' s'' : St), (∀ a ∈ as', a.fin = some w) ∧ as'.length ≤ 8 ∧
      run true err tr s as' = some s' ∧ s'.fpcs[w]? = some .retTrue ∧
      step true err tr s' .recvWake = some s'' ∧ s''.rpc = .got (some (err w)) := by
  obtain ⟨q, hq, hwq⟩ := hw
  obtain ⟨as', s', q', hown, hlen, hr, hq', hret⟩ := finisher_completes I hq
  have I' := inv_run as' I hr
  obtain ⟨q'', hq'', hw''⟩ := winner_run as' hr ⟨q, hq, hwq⟩
  rw [hq'] at hq''; cases hq''
  have e : q' = .retTrue := by cases q' <;> first | rfl | (cases hw''; done) | (cases hret; done)
  subst e
  have hpk' : s'.rpc = .parked := (rpc_fin_run as' hown hr).trans hpk
  obtain ⟨s'', h1, h2⟩ := reader_woken_when_closed I' hpk' hq' rfl rfl
  have hrank : q.rank ≤ 8 := by cases q <;> first | (simp [FPc.rank]; done) | cases hwq
  exact ⟨as', s', s'', hown, by omega, hr, hq', h1, h2⟩

/-! ### Termination: every schedule is finite (both orders) -/

theorem totalF_set_lt : ∀ {l : List FPc} {i : Nat} {x x' : FPc}, l[i]? = some x → x'.rank < x.rank →
    totalF (l.set i x') < totalF l
  | [], _, _, _, h, _ => by cases h
  | y :: r, 0, x, x', h, hlt => by
    simp only [List.getElem?_cons_zero, Option.some.injEq] at h
    subst h
    simp only [List.set_cons_zero, totalF]
    omega
  | y :: r, i + 1, x, x', h, hlt => by
    simp only [List.getElem?_cons_succ] at h
    have := totalF_set_lt h hlt
    simp only [List.set_cons_succ, totalF]
    omega

/-- every action uses up at least one unit of `remaining` -/
theorem remaining_step {o : Bool} {s s' : St} {a : Act} (hs : step o err tr s a = some s') :
    remaining s' < remaining s := by
  have F : ∀ {i : Nat} {x x' : FPc}, s.fpcs[i]? = some x → x'.rank < x.rank →
      totalF (s.fpcs.set i x') + s.rpc.rank + (if s.rTrailer.isNone then 1 else 0)
        + (if s.rTarget.isNone then 1 else 0) + s.budget < remaining s := by
    intro i x x' h hlt
    have := totalF_set_lt h hlt
    unfold remaining
    omega
  cases step_spec hs with
  | casWin i h | casLose i _ h | remove i h | lockNew i h | lockOld i h | store i h | closeDone i h
  | unlock i h | rcloseOld i h | rcloseNew i h | cancelNew i h | cancelOld i h => exact F h (by decide)
  | recvStart h =>
    cases hc : s.recvClosed <;> simp [remaining, h, RPc.rank]
  | recvWake h hc => simp only [remaining, h, RPc.rank]; omega
  | readTrailer r h ht => simp only [remaining, ht]; simp
  | readTarget t r v h ht hv => simp only [remaining, ht]; simp
  | peek b hb => simp only [remaining, hb]; omega

theorem run_remaining {o : Bool} : ∀ (as : List Act) {s s' : St}, run o err tr s as = some s' →
    as.length + remaining s' ≤ remaining s
  | [], s, s', hr => by simp [run] at hr; subst hr; simp
  | a :: as, s, s', hr => by
    obtain ⟨s1, hs, hr'⟩ := run_cons.mp hr
    have := run_remaining as hr'
    have := remaining_step hs
    simp only [List.length_cons]
    omega

theorem totalF_init : ∀ (n : Nat), totalF (List.replicate n FPc.start) = 9 * n
  | 0 => rfl
  | n + 1 => by
    simp only [List.replicate_succ, totalF, totalF_init n, FPc.rank]
    omega

/-- **6 (termination).** `remaining` — the number of actions the finishers, the reader and the observer
    can still perform — decreases with every action (both orders): a schedule over `n` finishers with an
    observer that peeks at most `p` times has at most `9n + 4 + p` actions. -/
theorem schedule_bounded {o : Bool} (n k p : Nat) (as : List Act) {s : St}
    (hr : run o err tr (init n k p) as = some s) : as.length + remaining s ≤ 9 * n + 4 + p := by
  have := run_remaining as hr
  have h : remaining (init n k p) = 9 * n + 4 + p := by
    simp only [remaining, init, totalF_init, RPc.rank, Option.isNone_none, if_true]
  omega

/-- **6.** In every reachable state:
    (a) every finisher that has started or not and has not returned can take its next step NOW —
        nobody is ever stuck, `lockMeta` included;
    (b) whoever holds `metaMu` can proceed (so a `lockMeta` that had to wait would not wait for ever);
    (c) every finisher can run to its `return` on its own, in at most 9 of its own actions;
    (d) a parked reader is woken once some finisher has won and run to its end — which it can do on
        its own —, and then gets that finisher's error;
    (e) the schedule so far and everything that can still follow are bounded by `9n + 4 + p`. -/
theorem progress (n k p : Nat) (as : List Act) {s : St}
    (hr : run true err tr (init n k p) as = some s) :
    (∀ (i : Nat) (q : FPc), s.fpcs[i]? = some q → q.returned = false →
      ∃ (a : Act) (s' : St), nextAct true i q = some a ∧ step true err tr s a = some s') ∧
    (∀ h, s.metaMu = some h → ∃ (q : FPc) (a : Act) (s' : St), s.fpcs[h]? = some q ∧ q.holds = true ∧
      nextAct true h q = some a ∧ step true err tr s a = some s') ∧
    (∀ (i : Nat) (q : FPc), s.fpcs[i]? = some q →
      ∃ (as' : List Act) (s' : St) (q' : FPc), (∀ a ∈ as', a.fin = some i) ∧ as'.length ≤ 9 ∧
        run true err tr s as' = some s' ∧ s'.fpcs[i]? = some q' ∧ q'.returned = true) ∧
    (s.rpc = .parked → ∀ w, Winner s w →
      ∃ (as' : List Act) (s' s'' : St), (∀ a ∈ as', a.fin = some w) ∧ as'.length ≤ 8 ∧
        run true err tr s as' = some s' ∧ s'.fpcs[w]? = some .retTrue ∧
        step true err tr s' .recvWake = some s'' ∧ s''.rpc = .got (some (err w))) ∧
    as.length + remaining s ≤ 9 * n + 4 + p := by
  have I := inv_reachable n k p as hr
  refine ⟨?_, ?_, ?_, ?_, schedule_bounded n k p as hr⟩
  · intro i q hq hnr
    obtain ⟨a, s', _, h1, h2, _⟩ := finisher_next_enabled I hq hnr
    exact ⟨a, s', h1, h2⟩
  · intro h hm
    obtain ⟨q, hq, hh⟩ := I.holder_iff.mp hm
    have hnr : q.returned = false := by cases q <;> first | rfl | cases hh
    obtain ⟨a, s', _, h1, h2, _⟩ := finisher_next_enabled I hq hnr
    exact ⟨q, a, s', hq, hh, h1, h2⟩
  · intro i q hq
    obtain ⟨as', s', q', h1, h2, h3⟩ := finisher_completes I hq
    have : q.rank ≤ 9 := by cases q <;> simp [FPc.rank]
    exact ⟨as', s', q', h1, by omega, h3⟩
  · intro hpk w hw
    exact parked_reader_woken I hpk hw

/-! ### 7. The old order (defect D4), by `decide` -/

/-- finisher 0: the receive loop with the server's close frame — error nil (tag 0: the reader gets
    `io.EOF`) and trailers `[("k","v")]`; every other finisher: a local cancel — error tag 1, trailers nil -/
def exErr : Nat → Err := fun i => if i = 0 then 0 else 1
def exTr : Nat → MD := fun i => if i = 0 then some [("k", "v")] else none

/-- what the application sees: the terminal result, `Trailer()`, the call-option target -/
structure AppView where
  result : RPc
  trailer : Option (Option MD)
  target : Option MD
  deriving DecidableEq, Repr

def appView (s : St) : AppView := ⟨s.rpc, s.rTrailer, s.rTarget⟩

/-- … together with the finishers, the observer's log and `done` -/
structure View where
  app : AppView
  fpcs : List FPc
  peeks : List (Option MD)
  done : Option Err
  deriving DecidableEq, Repr

def view (s : St) : View := ⟨appView s, s.fpcs, s.peeks, s.done⟩

/-- the reader parks; the finisher wins, removes the stream, CLOSES THE RECEIVER; the reader wakes up
    with the terminal result and reads the trailers -/
def d4 : List Act := [.recvStart, .cas 0, .remove 0, .recvClose 0, .recvWake, .readTrailer, .readTarget 0]

/-- **7.** OLD order: the reader gets the terminal result `io.EOF` (error tag 0 of finisher 0), and then
    `Trailer()` returns nil (`some none`: `doneSignal` not closed) and the call-option target is still nil —
    although the RPC ended with trailers `[("k","v")]`.  Defect D4. -/
theorem faulty_old_order_reader_misses_trailers :
    (run false exErr exTr (init 1 1 0) d4).map appView
      = some ⟨.got (some 0), some none, some none⟩ := by decide

/-- … the finisher stores them afterwards — too late for the reader -/
theorem faulty_old_order_stores_too_late :
    (run false exErr exTr (init 1 1 1)
        (d4 ++ [.lockMeta 0, .storeTrailers 0, .closeDone 0, .unlockMeta 0, .cancelCtx 0, .peekTrailer])).map
      view
      = some ⟨⟨.got (some 0), some none, some none⟩, [.retTrue], [some (some [("k", "v")])], some 0⟩ := by decide

/-- CURRENT order, same schedule: refused — at `recvClose 0`, the receiver cannot be closed there … -/
theorem current_order_refuses_d4 :
    run true exErr exTr (init 1 1 0) d4 = none ∧
    (run true exErr exTr (init 1 1 0) [.recvStart, .cas 0, .remove 0]).isSome = true ∧
    run true exErr exTr (init 1 1 0) [.recvStart, .cas 0, .remove 0, .recvClose 0] = none := by decide

/-- … and the reader cannot be woken at that point either -/
theorem current_order_reader_stays_parked :
    run true exErr exTr (init 1 1 0) [.recvStart, .cas 0, .remove 0, .recvWake] = none ∧
    run true exErr exTr (init 1 1 0)
      [.recvStart, .cas 0, .remove 0, .lockMeta 0, .storeTrailers 0, .closeDone 0, .unlockMeta 0, .recvWake]
      = none := by decide

/-- CURRENT order, same shape (finisher up to its `recvClose`, then the reader): `some` trailers -/
theorem current_order_same_shape_sees_trailers :
    (run true exErr exTr (init 1 1 0)
        [.recvStart, .cas 0, .remove 0, .lockMeta 0, .storeTrailers 0, .closeDone 0, .unlockMeta 0,
         .recvClose 0, .recvWake, .readTrailer, .readTarget 0]).map appView
      = some ⟨.got (some 0), some (some (some [("k", "v")])), some (some [("k", "v")])⟩ := by decide

/-- the number of finishers never changes -/
theorem fpcs_length_step {o : Bool} {s s' : St} {a : Act} (hs : step o err tr s a = some s') :
    s'.fpcs.length = s.fpcs.length := by
  cases step_spec hs <;> first | rfl | exact List.length_set

theorem fpcs_length_run {o : Bool} (as : List Act) {s s' : St} (hr : run o err tr s as = some s') {n : Nat}
    (h : s.fpcs.length = n) : s'.fpcs.length = n :=
  run_preserves (P := fun s => s.fpcs.length = n) (fun hs h => (fpcs_length_step hs).trans h) as hr h

/-- **5 / 6, at the end of a maximal schedule** (a reachable state in which NO action is enabled), with at
    least one finisher: every finisher has returned, EXACTLY ONE of them `true`; and the reader is not
    parked — no lost wake-up: it either never called `RecvMsg` or holds the terminal result. -/
theorem quiescent_complete (n k p : Nat) (as : List Act) {s : St}
    (hr : run true err tr (init n k p) as = some s) (hn : 0 < n)
    (hq : ∀ a, step true err tr s a = none) :
    (∀ (i : Nat) (q : FPc), s.fpcs[i]? = some q → q.returned = true) ∧ nTrue s.fpcs = 1 ∧
    (∃ w : Nat, s.fpcs[w]? = some FPc.retTrue ∧ ∀ j : Nat, s.fpcs[j]? = some FPc.retTrue → j = w) ∧
    s.rpc ≠ .parked := by
  have I := inv_reachable n k p as hr
  have hall : ∀ (i : Nat) (q : FPc), s.fpcs[i]? = some q → q.returned = true := by
    intro i q hi
    cases hret : q.returned with
    | true => rfl
    | false =>
      obtain ⟨a, s', _, _, h2, _⟩ := finisher_next_enabled I hi hret
      rw [hq a] at h2; cases h2
  have hlen : s.fpcs.length = n := fpcs_length_run as hr (by simp [init])
  have h0 : s.fpcs[0]? = some s.fpcs[0] := List.getElem?_eq_getElem (by omega)
  have hdone : s.done ≠ none := by
    intro hd
    have e := (I.idle hd).1 0 _ h0
    have := hall 0 _ h0
    rw [e] at this; cases this
  obtain ⟨w, pw, hpw, hww⟩ := I.done_iff_winner.mp hdone
  have e : pw = .retTrue := by
    have hret := hall w pw hpw
    cases pw <;> first | rfl | (cases hww; done) | (cases hret; done)
  subst e
  have hle : nTrue s.fpcs ≤ 1 := nTrue_le_one (fun i j hi hj => I.one_winner i j _ _ hi hj rfl rfl)
  have hpos := nTrue_pos hpw
  refine ⟨hall, by omega, ⟨w, hpw, fun j hj => I.one_winner j w _ _ hj hpw rfl rfl⟩, ?_⟩
  intro hpk
  obtain ⟨s', h1, _⟩ := reader_woken_when_closed I hpk hpw rfl rfl
  rw [hq .recvWake] at h1; cases h1

/-- the LITERAL reading of 5 ("exactly one finisher HAS returned `true` as soon as a `cas` happened") is
    false in the middle of a schedule: right after the CAS the winner is still on its way -/
theorem literal_exactly_one_true_fails_midway :
    (run true exErr exTr (init 2 1 0) [.cas 0, .cas 1]).map (fun s => nTrue s.fpcs) = some 0 := by decide

/-! ### 8. Non-vacuity -/

/-- the reader parks first; the server's close (finisher 0) wins the CAS, the local cancel (finisher 1)
    loses in the middle of the winner's critical section; the observer peeks before and after -/
def serverWins : List Act :=
  [.recvStart, .peekTrailer, .cas 0, .remove 0, .lockMeta 0, .cas 1, .storeTrailers 0, .peekTrailer,
   .closeDone 0, .peekTrailer, .unlockMeta 0, .recvClose 0, .recvWake, .readTrailer, .cancelCtx 0,
   .readTarget 0]

example :
    (run true exErr exTr (init 2 1 3) serverWins).map view
      = some ⟨⟨.got (some 0), some (some (some [("k", "v")])), some (some [("k", "v")])⟩,
              [.retTrue, .retFalse], [none, none, some (some [("k", "v")])], some 0⟩ := by decide

/-- the other order of the CAS: the local cancel wins, the server's close loses — the reader gets the
    cancel's error AND the cancel's (nil) trailers, stored (`some (some none)`), not the server's -/
def cancelWins : List Act :=
  [.recvStart, .cas 1, .cas 0, .remove 1, .lockMeta 1, .storeTrailers 1, .closeDone 1, .unlockMeta 1,
   .recvClose 1, .cancelCtx 1, .recvWake, .readTarget 0, .readTrailer, .peekTrailer]

example :
    (run true exErr exTr (init 2 1 3) cancelWins).map view
      = some ⟨⟨.got (some 1), some (some none), some none⟩,
              [.retFalse, .retTrue], [some none], some 1⟩ := by decide

/-- both races run to the end: every finisher has returned, exactly one `true` -/
example : (run true exErr exTr (init 2 1 3) serverWins).map (fun s => (nTrue s.fpcs, s.inTable, s.ctxDone, s.metaMu))
    = some (1, false, true, none) := by decide
example : (run true exErr exTr (init 2 1 3) cancelWins).map (fun s => (nTrue s.fpcs, s.inTable, s.ctxDone, s.metaMu))
    = some (1, false, true, none) := by decide

/-- a reader that arrives after the end does not park: `recvStart` returns the terminal result at once -/
example :
    (run true exErr exTr (init 2 1 0)
        [.cas 0, .remove 0, .lockMeta 0, .storeTrailers 0, .closeDone 0, .unlockMeta 0, .recvClose 0,
         .recvStart, .readTrailer]).map appView
      = some ⟨.got (some 0), some (some (some [("k", "v")])), none⟩ := by decide

/-- the guards bite: the loser does nothing more; nobody locks twice; no wake-up before the receiver is
    closed; no read before the terminal result; each read once; the observer's budget -/
example : run true exErr exTr (init 2 1 0) [.cas 0, .cas 1, .remove 1] = none := by decide
example : run true exErr exTr (init 2 1 0) [.cas 0, .cas 0] = none := by decide
example : run true exErr exTr (init 2 1 0) [.cas 0, .remove 0, .lockMeta 0, .lockMeta 0] = none := by decide
example : run true exErr exTr (init 2 1 0) [.cas 0, .lockMeta 0] = none := by decide
example : run true exErr exTr (init 2 1 0) [.recvStart, .recvWake] = none := by decide
example : run true exErr exTr (init 2 1 0) [.recvStart, .readTrailer] = none := by decide
example : run true exErr exTr (init 2 1 0) [.readTrailer] = none := by decide
example : run true exErr exTr (init 2 1 1) [.peekTrailer, .peekTrailer] = none := by decide
example :
    run true exErr exTr (init 1 1 0)
      [.cas 0, .remove 0, .lockMeta 0, .storeTrailers 0, .closeDone 0, .unlockMeta 0, .recvClose 0,
       .recvStart, .readTrailer, .readTrailer] = none := by decide
example :
    run true exErr exTr (init 1 1 0)
      [.cas 0, .remove 0, .lockMeta 0, .storeTrailers 0, .closeDone 0, .unlockMeta 0, .recvClose 0,
       .recvStart, .readTarget 1] = none := by decide

end Proofs.Publish

/-
  `#print axioms` (Lean 4.33.0, `lake env lean` on a file importing this module):

  'Proofs.Publish.inv_reachable' depends on axioms: [propext, Quot.sound]
  'Proofs.Publish.reader_sees_trailers' depends on axioms: [propext, Quot.sound]
  'Proofs.Publish.reader_read_returns_winners_trailers' depends on axioms: [propext, Quot.sound]
  'Proofs.Publish.terminal_result_is_the_winners' depends on axioms: [propext, Quot.sound]
  'Proofs.Publish.trailer_nil_before_end' depends on axioms: [propext, Quot.sound]
  'Proofs.Publish.trailers_stable' depends on axioms: [propext, Quot.sound]
  'Proofs.Publish.peeks_log' depends on axioms: [propext, Quot.sound]
  'Proofs.Publish.exactly_one_completion' depends on axioms: [propext, Quot.sound]
  'Proofs.Publish.loser_changes_nothing' depends on axioms: [propext]
  'Proofs.Publish.quiescent_complete' depends on axioms: [propext, Quot.sound]
  'Proofs.Publish.progress' depends on axioms: [propext, Quot.sound]
  'Proofs.Publish.schedule_bounded' depends on axioms: [propext, Quot.sound]
  'Proofs.Publish.faulty_old_order_reader_misses_trailers' depends on axioms: [propext]
  'Proofs.Publish.current_order_refuses_d4' depends on axioms: [propext]
  'Proofs.Publish.current_order_same_shape_sees_trailers' depends on axioms: [propext]
-/
