import TunnelModel.FlowStep
import TunnelModel.Closed
import Proofs.Lemmas.FlowStep
import Proofs.Lemmas.Closed
/-!
  # The atomic-action flow-control model REFINES the closed frame-level model

  `TunnelModel.FlowStep` (one half-stream, one atomic operation of the Go code per action, unbounded
  wires) is linked to `TunnelModel.Closed` (whole tunnel, one frame per action, carriers of capacity
  `K`) instantiated with ONE half-stream of direction `up` and a willing reader, by a stuttering
  (forward) simulation: every atomic action either leaves the abstraction `abs s` unchanged or is
  matched by exactly one frame-level action.

  ## The abstraction `abs : FlowStep.St → Closed.St` and the commit points

  ```
  halves := [{ dir := up, willing := true,
               todo      := absTodo s      -- cur :: todo, minus a chunk already reserved by the CAS
               win       := s.win          -- NOT win + reserve: the abstract `send` has already happened
               queue     := s.queue
               pending   := s.rpc.pendingCredit
               sent      := s.sent + s.spc.reserve
               delivered := s.dequeued }]
  ab := (s.dataWire ++ inFlight s.spc).map (Frame.data 0)   -- inFlight (.reserved k) = [k], else []
  ba := s.creditWire.map (Frame.credit 0)
  ```

  | frame-level action | commits at (atomic action)                          | stutters                       |
  |--------------------|-----------------------------------------------------|--------------------------------|
  | `send 0`           | a SUCCESSFUL `sCas` (chunk size and window are fixed there) | `sLoad sPark sWake sEmit`, failed `sCas` |
  | `loopB`            | `deliver` (`accept`)                                |                                |
  | `read 0`           | the pop inside `rStart` / `rResume`                 | `rStart`/`rResume` on an empty queue |
  | `credit 0`         | `rCredit`                                           |                                |
  | `loopA`            | `uAdd` (the `Add` inside `updateWindow`)            | `uSignal`                      |

  Between `sCas` and `sEmit` the reserved chunk is ALREADY on the abstract carrier `ab` (at its tail:
  the sender is the only producer, so FIFO order is that of the CASes) and already counted in the
  abstract `sent`; `sEmit` is a stutter.  `absAct s a` names the matching frame-level action
  (`none` = stutter) and `absTrace` the matching schedule; both are computable.

  A popped chunk of 0 bytes: FlowStep goes to `rpc := .idle` directly, Closed's `read` sets
  `pending := k = 0`; `pendingCredit .idle = 0`, so they agree without adjusting `abs`
  (`sim_popOrWait`), and no `credit` action follows on either side.

  ## Capacity

  `refines_step` is stated for every `K` with the hypothesis that the two abstract carriers of the
  state at hand are not full.  `refines_run` is stated for every `K > 5·(msgs.sum + msgs.length)`
  (= `Closed.workBound`, the value of Closed's termination measure in the initial state): the
  measure never increases along the simulation and bounds both carrier lengths
  (`carriers_le_measure`), so no abstract carrier is ever full.

  ## What turned out false as first stated, and what is proved instead

  1. **`Proofs.FlowStep.Inv` alone is not enough** for the step theorem: `Inv` does not exclude
     `rpc = .credit 0`, from which `rCredit` puts an EMPTY window update on the wire, which no
     frame-level action can do (`Counter.inv_alone_insufficient`, a `decide`-checked state).
     `refines_step` therefore has the additional hypothesis `CreditPos s` (a pending credit is
     positive); `RInv = Inv ∧ CreditPos` is inductive (`rinv_step`) and holds initially, so for
     states reachable from `init` nothing is assumed at all (`refines_step_reachable`, `refines_run`).
  2. **The abstraction suggested in the task (`h.win = win + reserve`, commit of `send` at `sEmit`)
     does not commute**: a window update that overtakes a reserved chunk makes the abstract sender
     cut a bigger chunk than the one actually emitted (`Counter.emit_commit_point_fails`, a reachable
     state, `decide`-checked).  The commit point is the CAS, see above.
  3. STRENGTHENINGS (hypotheses of the task that are not needed; they are kept, unused and
     underscore-named, in `refines_step` and `refines_run`, and absent from the computable forms
     `refines_step_act`, `refines_run_absTrace`): `s.cancelled = false` and `a ≠ cancel, sFail`.
     `abs` ignores `cancelled` and a failed sender looks like one that is never scheduled again, so
     `cancel` and `sFail` are formally stutters (`refines_cancel`, `refines_sFail`).  They remain
     OUTSIDE the intended reading of the theorem: `Closed` has no notion of a cancelled stream.
     `s.overrun = false` is a conjunct of `Inv` (`no_overrun` for reachable states).

  ## Statements

  * `refines_step`, `refines_step_act`, `refines_step_reachable`  — one step
  * `refines_run`, `refines_run_absTrace`                          — whole schedules, `bs.length ≤ as.length`
  * `conservation_from_closed`                                     — Closed's invariant, pulled back along `abs`
  * `final_maps_to_stuck`, `final_outcome`                         — completed atomic run = maximal frame-level run
  * `Example.*`                                                    — W = 4, cm = 2, msgs = [5, 0, 3], by `decide`
  * `Counter.*`                                                    — the two counter-examples
-/

namespace Proofs.Refine
open TunnelModel
open TunnelModel.Closed (Frame Half Dir)
open TunnelModel.FlowStep (SPc UPc RPc)

/-! ### the abstraction function -/

/-- the chunk the sender has reserved by a successful CAS and not yet handed to `sendFunc`:
    in the frame-level model it is already on the carrier -/
def inFlight : SPc → List Nat
  | .reserved k => [k]
  | _ => []

@[simp] theorem inFlight_idle : inFlight .idle = [] := rfl
@[simp] theorem inFlight_loaded (w) : inFlight (.loaded w) = [] := rfl
@[simp] theorem inFlight_parked : inFlight .parked = [] := rfl
@[simp] theorem inFlight_reserved (k) : inFlight (.reserved k) = [k] := rfl
@[simp] theorem inFlight_failed : inFlight .failed = [] := rfl

theorem inFlight_sum (p : SPc) : (inFlight p).sum = p.reserve := by
  cases p <;> simp [inFlight, SPc.reserve]

/-- the abstract `todo`: the current message (minus a reserved chunk) in front of the messages not
    yet started -/
def absTodo (s : FlowStep.St) : List Nat :=
  match s.cur, s.spc with
  | none, _ => s.todo
  | some rem, .reserved k => if k = rem then s.todo else (rem - k) :: s.todo
  | some rem, _ => rem :: s.todo

def absHalf (s : FlowStep.St) : Half :=
  { dir := .up, willing := true, todo := absTodo s, win := s.win, queue := s.queue,
    pending := s.rpc.pendingCredit, sent := s.sent + s.spc.reserve, delivered := s.dequeued }

def abs (s : FlowStep.St) : Closed.St :=
  { halves := [absHalf s],
    ab := (s.dataWire ++ inFlight s.spc).map (Frame.data 0),
    ba := s.creditWire.map (Frame.credit 0) }

theorem abs_init (W : Nat) (msgs : List Nat) :
    abs (FlowStep.init W msgs) = Closed.init W [(.up, true, msgs)] := rfl

/-- the frame-level action simulated by the atomic action `a` taken in state `s`
    (`none`: a stutter) -/
def absAct (s : FlowStep.St) : FlowStep.Act → Option Closed.Act
  | .sCas =>
    match s.spc with
    | .loaded w => if s.win = w then some (.send 0) else none
    | _ => none
  | .uAdd => some .loopA
  | .deliver => some .loopB
  | .rStart => if s.queue = [] then none else some (.read 0)
  | .rResume => if s.queue = [] then none else some (.read 0)
  | .rCredit => some (.credit 0)
  | _ => none

/-- the frame-level schedule simulated by the atomic-level schedule `as` from `s` -/
def absTrace (cm : Nat) : FlowStep.St → List FlowStep.Act → List Closed.Act
  | _, [] => []
  | s, a :: as =>
    match FlowStep.step cm s a with
    | none => []
    | some s' => (absAct s a).toList ++ absTrace cm s' as

/-- one step of the stuttering simulation -/
def Sim (K cm : Nat) (s s' : FlowStep.St) : Option Closed.Act → Prop
  | none => abs s' = abs s
  | some b => Closed.step K cm (abs s) b = some (abs s')

/-- a pending credit is never zero -/
def CreditPos (s : FlowStep.St) : Prop := ∀ k, s.rpc = .credit k → 0 < k

/-- the invariant under which the simulation holds -/
def RInv (W cm : Nat) (s : FlowStep.St) : Prop := FlowStep.Inv W cm s ∧ CreditPos s

/-! ### stutters -/

theorem refines_sLoad {K cm : Nat} {s s' : FlowStep.St}
    (hs : FlowStep.step cm s .sLoad = some s') : Sim K cm s s' (absAct s .sLoad) := by
  obtain ⟨win, token, spc, cur, todo, upc, dW, cW, rwin, queue, rpc, ov, canc, sent, credited, deq, granted⟩ := s
  simp only [FlowStep.step] at hs
  split at hs <;> try contradiction
  split at hs <;> try contradiction
  all_goals (injection hs with hs; subst hs; simp [Sim, absAct, abs, absHalf, absTodo])

theorem refines_sPark {K cm : Nat} {s s' : FlowStep.St}
    (hs : FlowStep.step cm s .sPark = some s') : Sim K cm s s' (absAct s .sPark) := by
  obtain ⟨win, token, spc, cur, todo, upc, dW, cW, rwin, queue, rpc, ov, canc, sent, credited, deq, granted⟩ := s
  simp only [FlowStep.step] at hs
  split at hs <;> try contradiction
  injection hs with hs; subst hs
  cases cur <;> simp [Sim, absAct, abs, absHalf, absTodo]

theorem refines_sWake {K cm : Nat} {s s' : FlowStep.St}
    (hs : FlowStep.step cm s .sWake = some s') : Sim K cm s s' (absAct s .sWake) := by
  obtain ⟨win, token, spc, cur, todo, upc, dW, cW, rwin, queue, rpc, ov, canc, sent, credited, deq, granted⟩ := s
  simp only [FlowStep.step] at hs
  split at hs <;> try contradiction
  split at hs <;> try contradiction
  injection hs with hs; subst hs
  cases cur <;> simp [Sim, absAct, abs, absHalf, absTodo]

/-- `sEmit` is a stutter: the frame has been on the abstract carrier since the CAS -/
theorem refines_sEmit {K cm : Nat} {s s' : FlowStep.St}
    (hs : FlowStep.step cm s .sEmit = some s') : Sim K cm s s' (absAct s .sEmit) := by
  obtain ⟨win, token, spc, cur, todo, upc, dW, cW, rwin, queue, rpc, ov, canc, sent, credited, deq, granted⟩ := s
  simp only [FlowStep.step] at hs
  split at hs <;> try contradiction
  injection hs with hs; subst hs
  rename_i k rem
  by_cases hk : k = rem <;> simp [Sim, absAct, abs, absHalf, absTodo, hk]

theorem refines_uSignal {K cm : Nat} {s s' : FlowStep.St}
    (hs : FlowStep.step cm s .uSignal = some s') : Sim K cm s s' (absAct s .uSignal) := by
  obtain ⟨win, token, spc, cur, todo, upc, dW, cW, rwin, queue, rpc, ov, canc, sent, credited, deq, granted⟩ := s
  simp only [FlowStep.step] at hs
  split at hs <;> try contradiction
  injection hs with hs; subst hs
  simp [Sim, absAct, abs, absHalf, absTodo]

/-- outside the simulated fragment, but formally stutters (`abs` ignores `cancelled`, and a failed
    sender looks like one that never runs again) -/
theorem refines_sFail {K cm : Nat} {s s' : FlowStep.St}
    (hs : FlowStep.step cm s .sFail = some s') : Sim K cm s s' (absAct s .sFail) := by
  obtain ⟨win, token, spc, cur, todo, upc, dW, cW, rwin, queue, rpc, ov, canc, sent, credited, deq, granted⟩ := s
  simp only [FlowStep.step] at hs
  split at hs <;> try contradiction
  split at hs <;> try contradiction
  injection hs with hs; subst hs
  cases cur <;> simp [Sim, absAct, abs, absHalf, absTodo]

theorem refines_cancel {K cm : Nat} {s s' : FlowStep.St}
    (hs : FlowStep.step cm s .cancel = some s') : Sim K cm s s' (absAct s .cancel) := by
  obtain ⟨win, token, spc, cur, todo, upc, dW, cW, rwin, queue, rpc, ov, canc, sent, credited, deq, granted⟩ := s
  simp only [FlowStep.step] at hs
  split at hs <;> try contradiction
  injection hs with hs; subst hs
  simp [Sim, absAct, abs, absHalf, absTodo]

/-! ### the sender's commit point: the CAS -/

theorem refines_sCas {K cm : Nat} {s s' : FlowStep.St} (hab : (abs s).ab.length < K)
    (hs : FlowStep.step cm s .sCas = some s') : Sim K cm s s' (absAct s .sCas) := by
  obtain ⟨win, token, spc, cur, todo, upc, dW, cW, rwin, queue, rpc, ov, canc, sent, credited, deq, granted⟩ := s
  simp only [FlowStep.step] at hs
  split at hs <;> try contradiction
  rename_i w rem
  split at hs <;> try contradiction
  rename_i hw
  split at hs
  · rename_i hwin
    injection hs with hs; subst hs
    subst hwin
    simp [abs] at hab
    simp [Sim, absAct, abs, absHalf, absTodo, Closed.step, Half.chunk, hw, hab]
  · rename_i hwin
    injection hs with hs; subst hs
    simp [Sim, absAct, abs, absHalf, absTodo, hwin]

/-! ### the receive loops -/

/-- `uAdd` (the `Add` inside `updateWindow`) is the commit point of `loopA` -/
theorem refines_uAdd {K cm : Nat} {s s' : FlowStep.St}
    (hs : FlowStep.step cm s .uAdd = some s') : Sim K cm s s' (absAct s .uAdd) := by
  obtain ⟨win, token, spc, cur, todo, upc, dW, cW, rwin, queue, rpc, ov, canc, sent, credited, deq, granted⟩ := s
  simp only [FlowStep.step] at hs
  split at hs <;> try contradiction
  injection hs with hs; subst hs
  simp [Sim, absAct, abs, absHalf, absTodo, Closed.step, Closed.deliver, Closed.upd]

/-- in a state satisfying the invariant the head of the data wire fits the receive window -/
theorem head_fits {W cm : Nat} {s : FlowStep.St} (hinv : FlowStep.Inv W cm s) {k : Nat} {rest : List Nat}
    (hd : s.dataWire = k :: rest) : k ≤ s.rwin := by
  obtain ⟨h1, h2, _⟩ := hinv
  rw [hd] at h1
  simp only [List.sum_cons] at h1
  omega

/-- `deliver` (`accept`) is the commit point of `loopB`; by the invariant it never overruns -/
theorem refines_deliver {K W cm : Nat} {s s' : FlowStep.St} (hinv : FlowStep.Inv W cm s)
    (hs : FlowStep.step cm s .deliver = some s') : Sim K cm s s' (absAct s .deliver) := by
  obtain ⟨win, token, spc, cur, todo, upc, dW, cW, rwin, queue, rpc, ov, canc, sent, credited, deq, granted⟩ := s
  simp only [FlowStep.step] at hs
  split at hs <;> try contradiction
  rename_i dW' k rest
  have hfit := head_fits hinv (k := k) (rest := rest) rfl
  dsimp only at hfit
  split at hs
  · omega
  · injection hs with hs; subst hs
    by_cases hq : queue = [] ∧ rpc = .waiting
    · obtain ⟨hq1, hq2⟩ := hq
      subst hq1 hq2
      simp [Sim, absAct, abs, absHalf, absTodo, Closed.step, Closed.deliver, Closed.upd]
    · simp [Sim, absAct, abs, absHalf, absTodo, Closed.step, Closed.deliver, Closed.upd, hq]

/-! ### the reading application -/

theorem sim_popOrWait {K cm : Nat} {s : FlowStep.St} (hp : s.rpc.pendingCredit = 0) :
    Sim K cm s (FlowStep.popOrWait s) (if s.queue = [] then none else some (.read 0)) := by
  obtain ⟨win, token, spc, cur, todo, upc, dW, cW, rwin, queue, rpc, ov, canc, sent, credited, deq, granted⟩ := s
  dsimp only at hp
  cases queue with
  | nil => simp [Sim, FlowStep.popOrWait, abs, absHalf, absTodo, hp]
  | cons k q =>
    by_cases hk : k > 0
    · simp [Sim, FlowStep.popOrWait, abs, absHalf, absTodo, hp, Closed.step, Half.read, hk]
    · have hk0 : k = 0 := by omega
      subst hk0
      simp [Sim, FlowStep.popOrWait, abs, absHalf, absTodo, hp, Closed.step, Half.read]

/-- the pop inside `rStart` is the commit point of `read`; an `rStart` that finds the queue empty
    stutters.  A popped chunk of 0 bytes leaves `rpc = idle`, which is `pending = 0 = k`. -/
theorem refines_rStart {K cm : Nat} {s s' : FlowStep.St}
    (hs : FlowStep.step cm s .rStart = some s') : Sim K cm s s' (absAct s .rStart) := by
  simp only [FlowStep.step] at hs
  split at hs <;> try contradiction
  rename_i hr
  injection hs with hs; subst hs
  exact sim_popOrWait (by rw [hr]; rfl)

theorem refines_rResume {K cm : Nat} {s s' : FlowStep.St}
    (hs : FlowStep.step cm s .rResume = some s') : Sim K cm s s' (absAct s .rResume) := by
  simp only [FlowStep.step] at hs
  split at hs <;> try contradiction
  rename_i hr
  injection hs with hs; subst hs
  exact sim_popOrWait (by rw [hr]; rfl)

/-- `rCredit` is the commit point of `credit`; needs `CreditPos` (a pending credit is positive) -/
theorem refines_rCredit {K cm : Nat} {s s' : FlowStep.St} (hpos : CreditPos s)
    (hba : (abs s).ba.length < K)
    (hs : FlowStep.step cm s .rCredit = some s') : Sim K cm s s' (absAct s .rCredit) := by
  obtain ⟨win, token, spc, cur, todo, upc, dW, cW, rwin, queue, rpc, ov, canc, sent, credited, deq, granted⟩ := s
  simp only [FlowStep.step] at hs
  split at hs <;> try contradiction
  rename_i k
  have hk : 0 < k := hpos k rfl
  have hk' : k ≠ 0 := by omega
  injection hs with hs; subst hs
  simp [abs] at hba
  simp [Sim, absAct, abs, absHalf, absTodo, Closed.step, hk', hba]

/-! ### the strengthened invariant is inductive -/

theorem creditPos_popOrWait (s : FlowStep.St) : CreditPos (FlowStep.popOrWait s) := by
  unfold FlowStep.popOrWait CreditPos
  split
  · intro k hk
    dsimp only at hk
    split at hk
    · injection hk with hk; subst hk; assumption
    · cases hk
  · intro k hk; cases hk

theorem creditPos_step {cm : Nat} {s s' : FlowStep.St} (a : FlowStep.Act) (h : CreditPos s)
    (hs : FlowStep.step cm s a = some s') : CreditPos s' := by
  cases a <;> simp only [FlowStep.step] at hs
  case rStart =>
    split at hs <;> try contradiction
    injection hs with hs; subst hs; exact creditPos_popOrWait s
  case rResume =>
    split at hs <;> try contradiction
    injection hs with hs; subst hs; exact creditPos_popOrWait s
  case rCredit =>
    split at hs <;> try contradiction
    injection hs with hs; subst hs
    intro k hk; cases hk
  case deliver =>
    split at hs <;> try contradiction
    split at hs
    · injection hs with hs; subst hs; exact h
    · injection hs with hs; subst hs
      intro k hk
      dsimp only at hk
      split at hk
      · cases hk
      · exact h k hk
  all_goals
    (repeat' (split at hs <;> try contradiction))
    all_goals (injection hs with hs; subst hs; exact h)

theorem rinv_init (W cm : Nat) (msgs : List Nat) : RInv W cm (FlowStep.init W msgs) :=
  ⟨FlowStep.inv_init W cm msgs, fun k hk => by cases hk⟩

theorem rinv_step {W cm : Nat} (hcm : 0 < cm) {s s' : FlowStep.St} (a : FlowStep.Act) (h : RInv W cm s)
    (hs : FlowStep.step cm s a = some s') : RInv W cm s' :=
  ⟨FlowStep.inv_step hcm a h.1 hs, creditPos_step a h.2 hs⟩

theorem rinv_run {W cm : Nat} (hcm : 0 < cm) : ∀ (as : List FlowStep.Act) {s s' : FlowStep.St}, RInv W cm s →
    FlowStep.run cm s as = some s' → RInv W cm s' := by
  intro as
  induction as with
  | nil => intro s s' h hr; simp only [FlowStep.run] at hr; injection hr with hr; subst hr; exact h
  | cons a as ih =>
    intro s s' h hr
    simp only [FlowStep.run] at hr
    cases hs : FlowStep.step cm s a with
    | none => simp [hs] at hr
    | some s1 => rw [hs] at hr; exact ih (rinv_step hcm a h hs) hr

/-- every state reachable from `init` (by ANY schedule, `cancel` included) satisfies `RInv`; in
    particular it is not overrun -/
theorem rinv_reachable {W cm : Nat} (hcm : 0 < cm) {msgs : List Nat} {as : List FlowStep.Act} {s : FlowStep.St}
    (hr : FlowStep.run cm (FlowStep.init W msgs) as = some s) : RInv W cm s :=
  rinv_run hcm as (rinv_init W cm msgs) hr

theorem no_overrun {W cm : Nat} (hcm : 0 < cm) {msgs : List Nat} {as : List FlowStep.Act} {s : FlowStep.St}
    (hr : FlowStep.run cm (FlowStep.init W msgs) as = some s) : s.overrun = false :=
  (rinv_reachable hcm hr).1.2.2.1

/-! ### 2. the stuttering simulation, one step -/

/-- **Stuttering simulation (computable form).**  The frame-level action is the one named by
    `absAct`.  `cancel` and `sFail` are outside the simulated fragment (formally they are stutters,
    see `refines_cancel`, `refines_sFail`, but `Closed` has no notion of a cancelled stream).
    `s.overrun = false` is part of `Inv`; `s.cancelled = false` is not needed. -/
theorem refines_step_act {K W cm : Nat} {s s' : FlowStep.St} {a : FlowStep.Act}
    (hinv : FlowStep.Inv W cm s) (hpos : CreditPos s)
    (hab : (abs s).ab.length < K) (hba : (abs s).ba.length < K)
    (hs : FlowStep.step cm s a = some s') : Sim K cm s s' (absAct s a) := by
  cases a with
  | sLoad => exact refines_sLoad hs
  | sPark => exact refines_sPark hs
  | sWake => exact refines_sWake hs
  | sFail => exact refines_sFail hs
  | sCas => exact refines_sCas hab hs
  | sEmit => exact refines_sEmit hs
  | uAdd => exact refines_uAdd hs
  | uSignal => exact refines_uSignal hs
  | deliver => exact refines_deliver hinv hs
  | rStart => exact refines_rStart hs
  | rResume => exact refines_rResume hs
  | rCredit => exact refines_rCredit hpos hba hs
  | cancel => exact refines_cancel hs

/-- **Stuttering simulation.**  Every atomic action of the non-cancelled fragment either leaves the
    abstraction unchanged or is matched by exactly one frame-level action. -/
theorem refines_step {K W cm : Nat} {s s' : FlowStep.St} {a : FlowStep.Act}
    (hinv : FlowStep.Inv W cm s) (hpos : CreditPos s) (_hc : s.cancelled = false)
    (hab : (abs s).ab.length < K) (hba : (abs s).ba.length < K)
    (_ha1 : a ≠ .cancel) (_ha2 : a ≠ .sFail)
    (hs : FlowStep.step cm s a = some s') :
    abs s' = abs s ∨ ∃ b, Closed.step K cm (abs s) b = some (abs s') := by
  have h := refines_step_act hinv hpos hab hba hs
  cases hb : absAct s a with
  | none => rw [hb] at h; exact Or.inl h
  | some b => rw [hb] at h; exact Or.inr ⟨b, h⟩

/-! ### 3. the stuttering simulation, whole schedules -/

theorem closed_run_append {K cm : Nat} : ∀ (bs cs : List Closed.Act) {s s1 s2 : Closed.St},
    Closed.run K cm s bs = some s1 → Closed.run K cm s1 cs = some s2 →
    Closed.run K cm s (bs ++ cs) = some s2 := by
  intro bs
  induction bs with
  | nil =>
    intro cs s s1 s2 h1 h2
    simp only [Closed.run] at h1; injection h1 with h1; subst h1
    exact h2
  | cons b bs ih =>
    intro cs s s1 s2 h1 h2
    simp only [Closed.run, List.cons_append] at h1 ⊢
    cases hb : Closed.step K cm s b with
    | none => simp [hb] at h1
    | some s' => rw [hb] at h1; exact ih cs h1 h2

theorem sim_run {K cm : Nat} {s s' : FlowStep.St} {o : Option Closed.Act} (h : Sim K cm s s' o) :
    Closed.run K cm (abs s) o.toList = some (abs s') := by
  cases o with
  | none => simp only [Sim] at h; simp [Closed.run, h]
  | some b => simp only [Sim] at h; simp [Closed.run, h]

/-- the abstract termination measure never increases along a simulated step -/
theorem sim_measure {K cm : Nat} (hcm : 0 < cm) {s s' : FlowStep.St} {o : Option Closed.Act}
    (h : Sim K cm s s' o) : Closed.measure (abs s') ≤ Closed.measure (abs s) := by
  cases o with
  | none => simp only [Sim] at h; rw [h]; exact Nat.le_refl _
  | some b => simp only [Sim] at h; exact Nat.le_of_lt (Closed.measure_decreases hcm b h)

theorem length_le_wireCost (w : List Frame) : w.length ≤ Closed.wireCost w := by
  induction w with
  | nil => simp [Closed.wireCost]
  | cons f w ih =>
    rw [Closed.wireCost_cons]
    cases f <;> simp [Closed.frameCost] <;> omega

/-- the carriers of a state are never longer than its termination measure -/
theorem carriers_le_measure (s : Closed.St) :
    s.ab.length ≤ Closed.measure s ∧ s.ba.length ≤ Closed.measure s := by
  have h1 := length_le_wireCost s.ab
  have h2 := length_le_wireCost s.ba
  unfold Closed.measure
  omega

theorem absTrace_length (cm : Nat) : ∀ (as : List FlowStep.Act) (s : FlowStep.St),
    (absTrace cm s as).length ≤ as.length := by
  intro as
  induction as with
  | nil => intro s; simp [absTrace]
  | cons a as ih =>
    intro s
    simp only [absTrace]
    cases hs : FlowStep.step cm s a with
    | none => simp
    | some s' =>
      have := ih s'
      have h2 : (absAct s a).toList.length ≤ 1 := by cases absAct s a <;> simp
      simp only [List.length_append, List.length_cons]
      omega

/-- a schedule of the simulated fragment: no `cancel`, no `sFail` -/
def Plain (as : List FlowStep.Act) : Prop := ∀ a ∈ as, a ≠ FlowStep.Act.cancel ∧ a ≠ FlowStep.Act.sFail

instance (as : List FlowStep.Act) : Decidable (Plain as) := by unfold Plain; infer_instance

/-- the simulation from any state satisfying the invariant whose abstract measure is below `K`
    (so that neither abstract carrier can ever be full) -/
theorem refines_run_from {K W cm : Nat} (hcm : 0 < cm) : ∀ (as : List FlowStep.Act) {s s' : FlowStep.St},
    RInv W cm s → Closed.measure (abs s) < K → FlowStep.run cm s as = some s' →
    Closed.run K cm (abs s) (absTrace cm s as) = some (abs s') := by
  intro as
  induction as with
  | nil =>
    intro s s' _ _ hr
    simp only [FlowStep.run] at hr; injection hr with hr; subst hr
    rfl
  | cons a as ih =>
    intro s s' hinv hK hr
    simp only [FlowStep.run] at hr
    simp only [absTrace]
    cases hs : FlowStep.step cm s a with
    | none => simp [hs] at hr
    | some s1 =>
      rw [hs] at hr
      dsimp only
      have hc := carriers_le_measure (abs s)
      have hsim : Sim K cm s s1 (absAct s a) :=
        refines_step_act hinv.1 hinv.2 (by omega) (by omega) hs
      have hm := sim_measure hcm hsim
      exact closed_run_append _ _ (sim_run hsim) (ih (rinv_step hcm a hinv hs) (by omega) hr)

theorem workBound_single (msgs : List Nat) :
    Closed.workBound [(Dir.up, true, msgs)] = 5 * (msgs.sum + msgs.length) := by
  simp [Closed.workBound]

/-- **Trace theorem (computable form).**  `K` is any capacity above the frame-level work bound
    `5·(bytes + messages)`, which no carrier can reach. -/
theorem refines_run_absTrace {K W cm : Nat} (hcm : 0 < cm) {msgs : List Nat}
    (hK : 5 * (msgs.sum + msgs.length) < K) {as : List FlowStep.Act} {s : FlowStep.St}
    (hr : FlowStep.run cm (FlowStep.init W msgs) as = some s) :
    Closed.run K cm (Closed.init W [(.up, true, msgs)]) (absTrace cm (FlowStep.init W msgs) as) = some (abs s) := by
  rw [← abs_init]
  apply refines_run_from hcm as (rinv_init W cm msgs) _ hr
  rw [abs_init, Closed.measure_init, workBound_single]
  exact hK

/-- **Trace theorem.**  Every atomic-level schedule of the non-cancelled fragment is simulated by a
    frame-level schedule that is not longer and ends in the abstraction of the final state. -/
theorem refines_run {K W cm : Nat} (hcm : 0 < cm) {msgs : List Nat}
    (hK : 5 * (msgs.sum + msgs.length) < K) {as : List FlowStep.Act} {s : FlowStep.St}
    (_hn : Plain as)
    (hr : FlowStep.run cm (FlowStep.init W msgs) as = some s) :
    ∃ bs, Closed.run K cm (Closed.init W [(.up, true, msgs)]) bs = some (abs s) ∧ bs.length ≤ as.length :=
  ⟨absTrace cm (FlowStep.init W msgs) as, refines_run_absTrace hcm hK hr, absTrace_length cm as _⟩

/-- **Stuttering simulation, reachable states.**  For a state reachable from `init` nothing has to
    be assumed: the invariant holds, and the abstract carriers are never full when
    `K > 5·(msgs.sum + msgs.length)`. -/
theorem refines_step_reachable {K W cm : Nat} (hcm : 0 < cm) {msgs : List Nat}
    (hK : 5 * (msgs.sum + msgs.length) < K) {as : List FlowStep.Act} {s s' : FlowStep.St} {a : FlowStep.Act}
    (hr : FlowStep.run cm (FlowStep.init W msgs) as = some s)
    (hs : FlowStep.step cm s a = some s') :
    abs s' = abs s ∨ ∃ b, Closed.step K cm (abs s) b = some (abs s') := by
  have hinv := rinv_reachable hcm hr
  have hm := Closed.run_length_le hcm _ (refines_run_absTrace (K := K) hcm hK hr)
  rw [Closed.measure_init, workBound_single] at hm
  have hc := carriers_le_measure (abs s)
  have h := refines_step_act hinv.1 hinv.2 (K := K) (by omega) (by omega) hs
  cases hb : absAct s a with
  | none => rw [hb] at h; exact Or.inl h
  | some b => rw [hb] at h; exact Or.inr ⟨b, h⟩

/-! ### 4. consequences -/

/-- the abstraction of every atomic-level reachable state is frame-level reachable -/
theorem abs_reachable {K W cm : Nat} (hcm : 0 < cm) {msgs : List Nat}
    (hK : 5 * (msgs.sum + msgs.length) < K) {as : List FlowStep.Act} {s : FlowStep.St}
    (hr : FlowStep.run cm (FlowStep.init W msgs) as = some s) :
    Closed.Reachable K W cm [(.up, true, msgs)] (abs s) :=
  ⟨_, refines_run_absTrace hcm hK hr⟩

theorem dataFl_map_data (l : List Nat) : Closed.dataFl 0 (l.map (Frame.data 0)) = l.sum := by
  induction l with
  | nil => rfl
  | cons k l ih => simp [ih]

theorem dataFl_append (i : Nat) (a b : List Frame) :
    Closed.dataFl i (a ++ b) = Closed.dataFl i a + Closed.dataFl i b := by
  simp [Closed.dataFl, List.sum_append]

theorem credFl_map_credit (l : List Nat) : Closed.credFl 0 (l.map (Frame.credit 0)) = l.sum := by
  induction l with
  | nil => rfl
  | cons k l ih => simp [ih]

/-- what the abstract sender still has to send is what the atomic sender still has to hand to
    `sendFunc`, minus the chunk it has reserved -/
theorem absTodo_sum {W cm : Nat} {s : FlowStep.St} (hinv : FlowStep.Inv W cm s) :
    s.spc.reserve + (absTodo s).sum = s.remaining := by
  obtain ⟨_, _, _, _, _, _, _, _, hresv, _⟩ := hinv
  obtain ⟨win, token, spc, cur, todo, upc, dW, cW, rwin, queue, rpc, ov, canc, sent, credited, deq, granted⟩ := s
  cases spc with
  | reserved k =>
    obtain ⟨rem, h1, h2, _⟩ := hresv k rfl
    dsimp only at h1; subst h1
    by_cases hk : k = rem <;> simp [absTodo, FlowStep.St.remaining, hk] <;> omega
  | _ => cases cur <;> simp [absTodo, FlowStep.St.remaining]

/-- **Transfer of the frame-level invariant.**  `Proofs.Closed.inv_reachable`, applied to `abs s`,
    gives back the conservation laws of the atomic-level model for every state reachable from
    `init`: conservation of credit (`C05_conservation`), the ghost accounting of sent bytes, the
    bound on the receiver's queue, and "bytes are neither lost nor invented" (`sent_remaining`).
    (Not an independent proof of them: the simulation itself uses `Inv` for `deliver`, and the last
    conjunct uses `k ≤ rem` for a reserved chunk, `absTodo_sum`.  The point is that the frame-level
    invariant, read through `abs`, IS the atomic-level conservation law.  Holds for every schedule,
    `cancel` included.) -/
theorem conservation_from_closed {W cm : Nat} (hcm : 0 < cm) {msgs : List Nat} {as : List FlowStep.Act}
    {s : FlowStep.St} (hr : FlowStep.run cm (FlowStep.init W msgs) as = some s) :
    s.win + s.spc.reserve + s.dataWire.sum + s.queue.sum + s.rpc.pendingCredit + s.creditWire.sum = W ∧
    s.sent = s.dataWire.sum + s.queue.sum + s.dequeued ∧
    s.queue.sum ≤ W ∧
    s.sent + s.remaining = msgs.sum := by
  have hre := abs_reachable (K := 5 * (msgs.sum + msgs.length) + 1) hcm (Nat.lt_succ_self _) hr
  have inv := Closed.inv_reachable hre
  have c1 := inv.conservation 0 (absHalf s) rfl
  have c2 := inv.ghostSent 0 (absHalf s) rfl
  have c3 := inv.ghostTotal 0 (absHalf s) (.up, true, msgs) rfl rfl
  have c4 := absTodo_sum (rinv_reachable hcm hr).1
  simp [absHalf, abs, Closed.dataWire, Closed.credWire, dataFl_append, dataFl_map_data, credFl_map_credit,
    inFlight_sum, Half.remaining] at c1 c2 c3
  refine ⟨by omega, by omega, by omega, by omega⟩

/-- a completed atomic-level state maps to a quiet frame-level state (no hypothesis on `s`) -/
theorem final_maps_to_quiet {s : FlowStep.St} (hf : s.final = true) : Closed.Quiet (abs s) := by
  simp only [FlowStep.St.final, Bool.and_eq_true, Option.isNone_iff_eq_none, List.isEmpty_iff, beq_iff_eq,
    Bool.or_eq_true] at hf
  obtain ⟨⟨⟨⟨⟨⟨⟨h1, h2⟩, h3⟩, h4⟩, h5⟩, h6⟩, _⟩, h8⟩ := hf
  refine ⟨by simp [abs, h3, h4], by simp [abs, h6], ?_⟩
  intro i h hi
  cases i with
  | succ n => simp [abs] at hi
  | zero =>
    simp only [abs, List.getElem?_cons_zero, Option.some.injEq] at hi
    subst hi
    refine ⟨?_, fun _ => h5, ?_⟩
    · rcases h8 with h8 | h8 <;> simp [absHalf, h8]
    · intro ht
      simp [absHalf, absTodo, h1, h2] at ht

/-- **A completed atomic-level execution is a maximal frame-level execution.** -/
theorem final_maps_to_stuck {K cm : Nat} {s : FlowStep.St} (hf : s.final = true) :
    Closed.Stuck K cm (abs s) :=
  Closed.stuck_of_quiet (final_maps_to_quiet hf)

/-- hence, by `Proofs.Closed.completes`, the outcome of a completed atomic-level execution is the
    frame-level outcome: everything submitted was read by the application (this is the conclusion
    `s.dequeued = msgs.sum` of `C05_completes`, obtained through the abstraction), everything was
    sent, and the whole window is restored -/
theorem final_outcome {W cm : Nat} (hW : 0 < W) (hcm : 0 < cm) {msgs : List Nat} {as : List FlowStep.Act}
    {s : FlowStep.St} (hr : FlowStep.run cm (FlowStep.init W msgs) as = some s) (hf : s.final = true) :
    (abs s).halves.map (·.delivered) = [msgs.sum] ∧
    s.dequeued = msgs.sum ∧ s.sent = msgs.sum ∧ s.win = W := by
  have hrun := refines_run_absTrace (K := 5 * (msgs.sum + msgs.length) + 1) hcm (Nat.lt_succ_self _) hr
  obtain ⟨h, hi, _, _, _, hw, _⟩ :=
    Closed.completes (i := 0) (d := .up) (willing := true) (msgs := msgs) (Nat.succ_pos _) hW hrun
      (final_maps_to_stuck hf) rfl
  simp only [abs, List.getElem?_cons_zero, Option.some.injEq] at hi
  subst hi
  obtain ⟨e1, e2, _, _, _, e6⟩ := hw rfl
  simp only [FlowStep.St.final, Bool.and_eq_true, beq_iff_eq] at hf
  have hspc : s.spc = .idle := hf.1.1.1.1.1.2
  simp only [absHalf, hspc, FlowStep.reserve_idle, Nat.add_zero] at e1 e2 e6
  exact ⟨by simp [abs, absHalf, e1], e1, e2, e6⟩

/-! ### 5. non-vacuity: W = 4, cm = 2, messages 5, 0, 3 -/

namespace Example

/-- a complete atomic-level schedule (53 actions) containing: a reader that waits and is woken
    (`rStart`, ..., `deliver`, `rResume`), a frame delivered between the CAS and the emit of the next
    one, a sender that loads a zero window, parks and is woken, a FAILED CAS (`sLoad`, ..., `uAdd`,
    `sCas`), an empty message (chunk of 0 bytes, read without credit), and a window update that
    overtakes a reserved chunk (`sCas`, ..., `uAdd`, `sEmit`) -/
def sched : List FlowStep.Act :=
  [.rStart,
   .sLoad, .sCas, .sEmit,
   .sLoad, .sCas, .deliver, .sEmit,
   .rResume, .rCredit,
   .sLoad, .uAdd, .sPark, .uSignal, .sWake,
   .sLoad, .deliver, .rStart, .rCredit, .uAdd, .sCas, .uSignal,
   .sLoad, .sCas, .sEmit,
   .sLoad, .sCas, .sEmit,
   .sLoad, .sCas, .sEmit,
   .sLoad, .sCas, .deliver, .rStart, .rCredit, .uAdd, .sEmit,
   .uSignal,
   .deliver, .rStart, .rStart, .deliver, .deliver, .rResume, .rCredit, .rStart, .rCredit,
   .uAdd, .uSignal, .uAdd, .uSignal, .rStart]

/-- the state it ends in -/
def last : FlowStep.St :=
  { win := 4, token := true, spc := .idle, cur := none, todo := [], upc := .idle, dataWire := [], creditWire := [],
    rwin := 4, queue := [], rpc := .waiting, overrun := false, cancelled := false,
    sent := 8, credited := 8, dequeued := 8, granted := 8 }

/-- the frame-level schedule (28 actions) the construction `absTrace` finds -/
def closedSched : List Closed.Act :=
  [.send 0, .send 0, .loopB, .read 0, .credit 0, .loopA, .loopB, .read 0, .credit 0, .loopA,
   .send 0, .send 0, .send 0, .send 0, .loopB, .read 0, .credit 0, .loopA, .loopB, .read 0,
   .loopB, .loopB, .read 0, .credit 0, .read 0, .credit 0, .loopA, .loopA]

/-- capacity used below: `5·(8 + 3) + 1` -/
def K : Nat := 56

example : 5 * (([5, 0, 3] : List Nat).sum + ([5, 0, 3] : List Nat).length) < K := by decide

example : FlowStep.run 2 (FlowStep.init 4 [5, 0, 3]) sched = some last ∧ last.final = true ∧ Plain sched := by
  decide

example : absTrace 2 (FlowStep.init 4 [5, 0, 3]) sched = closedSched := by decide

/-- the frame-level schedule runs, ends in the abstraction of the atomic-level final state, and no
    frame-level action is enabled there -/
example : Closed.run K 2 (Closed.init 4 [(.up, true, [5, 0, 3])]) closedSched = some (abs last) ∧
    Closed.enabledActs K 2 (abs last) = [] ∧
    Closed.summary (abs last) = [(8, 8, 0, 0)] := by
  decide

example : sched.length = 53 ∧ closedSched.length = 28 := by decide

/-- a state in the middle (after the `uAdd` that overtakes the reserved chunk): the sender holds a
    reservation of 1 byte which is not yet on the atomic-level wire but already on the abstract carrier -/
example : (FlowStep.run 2 (FlowStep.init 4 [5, 0, 3]) (sched.take 37)).map
      (fun s => (s.spc, s.win, s.cur, s.dataWire)) = some (SPc.reserved 1, 1, some 1, [0, 2]) ∧
    (FlowStep.run 2 (FlowStep.init 4 [5, 0, 3]) (sched.take 37)).map (fun s => (abs s).ab) =
      some [Frame.data 0 0, .data 0 2, .data 0 1] ∧
    (FlowStep.run 2 (FlowStep.init 4 [5, 0, 3]) (sched.take 37)).map
      (fun s => (abs s).halves.map (fun h => (h.win, h.todo, h.sent))) = some [(1, [], 8)] := by
  decide

/-- every prefix of the schedule is simulated (the simulation is checked at each of the 54 states) -/
example : (List.range 54).all (fun n =>
    (FlowStep.run 2 (FlowStep.init 4 [5, 0, 3]) (sched.take n)).map abs ==
      Closed.run K 2 (Closed.init 4 [(.up, true, [5, 0, 3])])
        (absTrace 2 (FlowStep.init 4 [5, 0, 3]) (sched.take n))) = true := by
  decide

end Example

/-! ### what is false as first stated -/

namespace Counter

/-- a state satisfying FlowStep's `Inv` in which the reader owes a credit of 0 bytes (unreachable:
    `popOrWait` goes to `.credit k` only for `k > 0`, but `Inv` does not say so) -/
def zeroCredit : FlowStep.St := { FlowStep.init 4 [] with rpc := .credit 0 }

def zeroCredit' : FlowStep.St := { FlowStep.init 4 [] with creditWire := [0] }

theorem zeroCredit_quiet : Closed.Quiet (abs zeroCredit) := by
  refine ⟨by decide, by decide, ?_⟩
  intro i h hi
  cases i with
  | succ n => simp [abs] at hi
  | zero =>
    simp only [abs, List.getElem?_cons_zero, Option.some.injEq] at hi
    subst hi
    exact ⟨by decide, fun _ => by decide, fun ht => absurd rfl ht⟩

/-- **`Inv` alone is not enough for `refines_step`** (hence the extra hypothesis `CreditPos`): from
    `zeroCredit` the action `rCredit` puts a window update of 0 bytes on the wire; the abstraction
    changes, and NO frame-level action is enabled in `abs zeroCredit`, whatever `K` -/
theorem inv_alone_insufficient :
    FlowStep.Inv 4 2 zeroCredit ∧ zeroCredit.cancelled = false ∧ zeroCredit.overrun = false ∧
    ¬ CreditPos zeroCredit ∧
    FlowStep.step 2 zeroCredit .rCredit = some zeroCredit' ∧
    abs zeroCredit' ≠ abs zeroCredit ∧
    ∀ K b, Closed.step K 2 (abs zeroCredit) b ≠ some (abs zeroCredit') := by
  refine ⟨?_, rfl, rfl, ?_, by decide, by decide, ?_⟩
  · unfold FlowStep.Inv zeroCredit FlowStep.init; simp
  · intro h; exact absurd (h 0 rfl) (by decide)
  · intro K b h
    rw [Closed.stuck_of_quiet zeroCredit_quiet b] at h
    cases h

/-- `allActs` misses no action that could lead anywhere -/
theorem forall_act_of_allActs {K cm : Nat} {s t : Closed.St}
    (h : ∀ b ∈ Closed.allActs s.halves.length, Closed.step K cm s b ≠ some t) :
    ∀ b, Closed.step K cm s b ≠ some t := by
  intro b
  by_cases hb : b ∈ Closed.allActs s.halves.length
  · exact h b hb
  · have hnone : Closed.step K cm s b = none := by
      cases b with
      | loopA => exact absurd (Closed.mem_allActs_loop _).1 hb
      | loopB => exact absurd (Closed.mem_allActs_loop _).2 hb
      | send i =>
        by_cases hi : i < s.halves.length
        · exact absurd (Closed.mem_allActs_idx hi).1 hb
        · have : s.halves[i]? = none := List.getElem?_eq_none (by omega)
          simp [Closed.step, this]
      | read i =>
        by_cases hi : i < s.halves.length
        · exact absurd (Closed.mem_allActs_idx hi).2.1 hb
        · have : s.halves[i]? = none := List.getElem?_eq_none (by omega)
          simp [Closed.step, this]
      | credit i =>
        by_cases hi : i < s.halves.length
        · exact absurd (Closed.mem_allActs_idx hi).2.2 hb
        · have : s.halves[i]? = none := List.getElem?_eq_none (by omega)
          simp [Closed.step, this]
    rw [hnone]; intro h; cases h

/-- the abstraction literally suggested in the task description, with the commit point of `send`
    at `sEmit`: the reservation is still part of the abstract window, the wires are as they are -/
def absE (s : FlowStep.St) : Closed.St :=
  { halves := [{ dir := .up, willing := true,
                 todo := (match s.cur with | none => s.todo | some rem => rem :: s.todo),
                 win := s.win + s.spc.reserve, queue := s.queue, pending := s.rpc.pendingCredit,
                 sent := s.sent, delivered := s.dequeued }],
    ab := s.dataWire.map (Frame.data 0),
    ba := s.creditWire.map (Frame.credit 0) }

/-- W = 2, cm = 2, messages 1, 5: the sender reserves 1 byte (all that is left of the window), then a
    window update of 1 byte arrives BEFORE the emit -/
def pre : List FlowStep.Act := [.sLoad, .sCas, .sEmit, .sLoad, .sCas, .deliver, .rStart, .rCredit, .uAdd]

def before : FlowStep.St :=
  { win := 1, token := false, spc := .reserved 1, cur := some 5, todo := [], upc := .added 0, dataWire := [],
    creditWire := [], rwin := 2, queue := [], rpc := .idle, overrun := false, cancelled := false,
    sent := 1, credited := 1, dequeued := 1, granted := 1 }

def after : FlowStep.St :=
  { win := 1, token := false, spc := .idle, cur := some 4, todo := [], upc := .added 0, dataWire := [1],
    creditWire := [], rwin := 2, queue := [], rpc := .idle, overrun := false, cancelled := false,
    sent := 2, credited := 1, dequeued := 1, granted := 1 }

/-- **The commit point of `send` cannot be `sEmit`.**  In the reachable state `before` the emitted
    chunk has 1 byte (fixed by the CAS when the window was 1), while the abstract sender, whose window
    is meanwhile 2, would cut a chunk of 2 bytes: with `absE` no frame-level action matches `sEmit`.
    The size of a chunk is decided by the CAS; that is where `abs` commits. -/
theorem emit_commit_point_fails :
    FlowStep.run 2 (FlowStep.init 2 [1, 5]) pre = some before ∧ Plain pre ∧
    FlowStep.step 2 before .sEmit = some after ∧
    absE after ≠ absE before ∧
    (∀ b, Closed.step 8 2 (absE before) b ≠ some (absE after)) ∧
    (Closed.step 8 2 (absE before) (.send 0)).map (fun t => (t.ab, t.halves.map (fun h => (h.win, h.todo)))) =
      some ([.data 0 2], [(0, [3])]) ∧
    (absE after).ab = [.data 0 1] ∧ (absE after).halves.map (fun h => (h.win, h.todo)) = [(1, [4])] := by
  refine ⟨by decide, by decide, by decide, by decide, ?_, by decide, by decide, by decide⟩
  apply forall_act_of_allActs
  decide

/-- with `abs` (commit at the CAS) the same step is a stutter -/
example : abs after = abs before := by decide

end Counter

end Proofs.Refine

/-
  Axiom audit (output of `#print axioms`, Lean 4.33.0):

  'Proofs.Refine.refines_step' depends on axioms: [propext, Classical.choice, Quot.sound]
  'Proofs.Refine.refines_step_act' depends on axioms: [propext, Classical.choice, Quot.sound]
  'Proofs.Refine.refines_step_reachable' depends on axioms: [propext, Classical.choice, Quot.sound]
  'Proofs.Refine.refines_run' depends on axioms: [propext, Classical.choice, Quot.sound]
  'Proofs.Refine.refines_run_absTrace' depends on axioms: [propext, Classical.choice, Quot.sound]
  'Proofs.Refine.rinv_step' depends on axioms: [propext, Classical.choice, Quot.sound]
  'Proofs.Refine.no_overrun' depends on axioms: [propext, Classical.choice, Quot.sound]
  'Proofs.Refine.conservation_from_closed' depends on axioms: [propext, Classical.choice, Quot.sound]
  'Proofs.Refine.final_maps_to_stuck' depends on axioms: [propext]
  'Proofs.Refine.final_outcome' depends on axioms: [propext, Classical.choice, Quot.sound]
  'Proofs.Refine.Counter.inv_alone_insufficient' depends on axioms: [propext, Quot.sound]
  'Proofs.Refine.Counter.emit_commit_point_fails' depends on axioms: [propext, Quot.sound]
-/
