import TunnelModel.RegAtomic
/-!
  Reverse-tunnel REGISTRATION under concurrency (`TunnelModel.RegAtomic`): for every number of
  tunnels, every key assignment and every schedule of the atomic actions of the goroutines
  `G t` (`openReverseTunnel`), `U t` (`unregister`) and the `close t` events,

  1. `inv_reachable`            the inductive invariant `Inv` (pool ids exist, one map entry per key,
                                no tunnel twice in a pool, a tunnel only in the pool of its key, …);
                                `byKey_stable`: a map entry, once made, never changes;
  2. `registry_exact_at_rest`   in every reachable resting state the global pool and the key pools are
                                exactly the set of open, fully registered tunnels;
  3. `nothing_left_behind`      when everything is over, every pool is empty;
  4. `one_pool_per_key`         all goroutines of tunnels with the same key hold the same pool;
  5. `progress`, `progress_tunnel`, `schedule_bounded`, `tunnel_bounded`
                                no goroutine is stuck by itself; ≤ 10 actions per tunnel;
  6. `faulty_double_checked_orphans_a_pool`, `faulty_single_unregister_leaves_entry` (+ `_not_exact`,
     `_two_pools`, `_not_empty`) the two seeded faults break 2, 4 and 3 — by `decide` on concrete
                                schedules; `guarded_same_schedule_exact`, `two_removes_same_schedule_empty`:
                                the correct model on the same schedules;
  7. non-vacuity `example`s     (three tunnels, two sharing a key, one dead on arrival, one closed
                                while parked).

  NOTHING REQUESTED TURNED OUT FALSE; no side condition was needed.  What was chosen / found:

  * Resting.  `resting strict s` has both readings.  `strict = true` is the definition of the brief
    (`G t` returned, or parked with the channel open; `U t` not started or finished).
    `strict = false` additionally lets `G t` sit in `start` ("tunnel not opened yet": the schedule
    decides which tunnels exist).  Theorem 2 is proved for the LENIENT reading (more states, hence
    the stronger theorem; `resting_of_strict`), `progress` for the complement of the STRICT
    reading (fewer resting states, hence again the stronger theorem; `progress'` is the other one).
  * Theorem 2 is stronger than asked: exactness about tunnel `t` needs only `G t` to be at rest
    (`registry_exact_tunnel`) — `U t` may be anywhere (it only ever removes, and it removes
    nothing that `G t` will not remove itself), and so may all other tunnels.
    The dangerous interleaving — `U t` runs `uRemGlobal` BEFORE `G t` has done `addGlobal`, finds
    nothing and returns; `G t` then registers a closed tunnel on both levels — is covered:
    `G t` is parked-but-closed, not at rest, and runs its two deferred removes
    (`progress_G`); the non-vacuity run contains exactly this tunnel (tunnel 2).
  * "At rest" cannot be dropped: `transient_inexact` is a reachable state of the CORRECT model in
    which a closed tunnel is in the pool of its key but not in the global pool (closed between
    (1) and (3); `G` has not yet run its deferred removes).  During that window
    `KeyAsChannel(key)` can still pick a tunnel that `AsChannel()` can not.
  * Theorem 3 needs only that all the `G t` have returned (`empty_of_all_done`).
  * The termination measure `remaining` works for all variants of the model (`gd`, `sg` arbitrary).
  * Modelling decisions: `remove` is the Go loop (drops the FIRST entry for the tunnel); that it
    drops every entry is a consequence of the no-duplicates invariant (`not_mem_removeFirst`,
    `not_mem_poolAt_updPool_erase`).  The map is an association list, first entry wins; the
    guarded `getPool` only ever adds an entry for a key that has none (`Inv.byKey_nodup`).
    The faulty single `unregister` reuses the pool pointer `G t` already holds.
-/
namespace Proofs.RegAtomic
open TunnelModel.RegAtomic

/-! ### Association lists, `removeFirst`, pools -/

theorem assoc_mem {a b : Nat} : ∀ {l : List (Nat × Nat)}, assoc a l = some b → (a, b) ∈ l
  | [], h => by simp [assoc] at h
  | (a', b') :: r, h => by
    simp only [assoc] at h
    split at h
    next e => cases h; subst e; exact List.mem_cons_self
    next => exact List.mem_cons_of_mem _ (assoc_mem h)

theorem assoc_none {a : Nat} : ∀ {l : List (Nat × Nat)}, assoc a l = none → ∀ e ∈ l, e.1 ≠ a
  | [], _, e, he => by cases he
  | (a', b') :: r, h, e, he => by
    simp only [assoc] at h
    split at h
    · cases h
    next ne =>
      rcases List.mem_cons.mp he with rfl | he
      · exact ne
      · exact assoc_none h e he

theorem mem_removeFirst {a : Nat} {e : Nat × Nat} : ∀ {l : List (Nat × Nat)}, e ∈ removeFirst a l → e ∈ l
  | [], h => by cases h
  | (a', b') :: r, h => by
    simp only [removeFirst] at h
    split at h
    · exact List.mem_cons_of_mem _ h
    · rcases List.mem_cons.mp h with rfl | h
      · exact List.mem_cons_self
      · exact List.mem_cons_of_mem _ (mem_removeFirst h)

theorem mem_removeFirst_of_ne {a : Nat} {e : Nat × Nat} (ne : e.1 ≠ a) :
    ∀ {l : List (Nat × Nat)}, e ∈ removeFirst a l ↔ e ∈ l
  | [] => Iff.rfl
  | (a', b') :: r => by
    simp only [removeFirst]
    split
    next h =>
      constructor
      · exact List.mem_cons_of_mem _
      · intro he
        rcases List.mem_cons.mp he with rfl | he
        · exact absurd h ne
        · exact he
    next h =>
      rw [List.mem_cons, List.mem_cons, mem_removeFirst_of_ne ne]

theorem pairwise_removeFirst {R : Nat × Nat → Nat × Nat → Prop} {a : Nat} :
    ∀ {l : List (Nat × Nat)}, l.Pairwise R → (removeFirst a l).Pairwise R
  | [], h => h
  | (a', b') :: r, h => by
    simp only [removeFirst]
    rw [List.pairwise_cons] at h
    split
    · exact h.2
    · rw [List.pairwise_cons]
      exact ⟨fun e he => h.1 e (mem_removeFirst he), pairwise_removeFirst h.2⟩

/-- in a list without duplicates the Go `remove` loop removes every entry -/
theorem not_mem_removeFirst {a b : Nat} :
    ∀ {l : List (Nat × Nat)}, l.Pairwise (fun x y => x.1 ≠ y.1) → (a, b) ∉ removeFirst a l
  | [], _, h => by cases h
  | (a', b') :: r, hp, h => by
    rw [List.pairwise_cons] at hp
    simp only [removeFirst] at h
    split at h
    next e => exact hp.1 _ h e
    next ne =>
      rcases List.mem_cons.mp h with h | h
      · cases h; exact ne rfl
      · exact not_mem_removeFirst hp.2 h

theorem poolAt_of_le {pools : List (List Nat)} {p : Nat} (h : pools.length ≤ p) : poolAt pools p = [] := by
  simp [poolAt, List.getElem?_eq_none h]

theorem length_updPool {pools : List (List Nat)} {p : Nat} {f : List Nat → List Nat} :
    (updPool pools p f).length = pools.length := by
  unfold updPool
  split
  · exact List.length_set
  · rfl

theorem poolAt_updPool_ne {pools : List (List Nat)} {p q : Nat} {f : List Nat → List Nat} (h : q ≠ p) :
    poolAt (updPool pools p f) q = poolAt pools q := by
  unfold updPool
  split
  · simp only [poolAt]
    rw [List.getElem?_set_ne (fun e => h e.symm)]
  · rfl

theorem poolAt_updPool_eq {pools : List (List Nat)} {p : Nat} {f : List Nat → List Nat} (h : p < pools.length) :
    poolAt (updPool pools p f) p = f (poolAt pools p) := by
  unfold updPool
  split
  next l hl =>
    simp only [poolAt]
    rw [List.getElem?_set_self h, hl]
    rfl
  next hn =>
    rw [List.getElem?_eq_getElem h] at hn
    cases hn

theorem poolAt_updPool_erase {pools : List (List Nat)} {p t : Nat} :
    poolAt (updPool pools p (·.erase t)) p = (poolAt pools p).erase t := by
  by_cases h : p < pools.length
  · exact poolAt_updPool_eq h
  · have hn : pools[p]? = none := List.getElem?_eq_none (Nat.le_of_not_lt h)
    simp [updPool, poolAt, hn]

theorem poolAt_append_nil {pools : List (List Nat)} {q : Nat} : poolAt (pools ++ [[]]) q = poolAt pools q := by
  simp only [poolAt]
  by_cases h : q < pools.length
  · rw [List.getElem?_append_left h]
  · have h' := Nat.le_of_not_lt h
    rw [List.getElem?_append_right h', List.getElem?_eq_none h']
    by_cases e : q - pools.length = 0
    · rw [e]; rfl
    · have : ([[]] : List (List Nat)).length ≤ q - pools.length := by
        simp only [List.length_cons, List.length_nil]; omega
      rw [List.getElem?_eq_none this]

/-- membership in any pool after an update that keeps `t'`'s membership in the updated list -/
theorem mem_poolAt_updPool {pools : List (List Nat)} {p q t' : Nat} {f : List Nat → List Nat}
    (hf : ∀ l, t' ∈ f l ↔ t' ∈ l) : t' ∈ poolAt (updPool pools p f) q ↔ t' ∈ poolAt pools q := by
  by_cases e : q = p
  · subst e
    by_cases h : q < pools.length
    · rw [poolAt_updPool_eq h]; exact hf _
    · have hn : pools[q]? = none := List.getElem?_eq_none (Nat.le_of_not_lt h)
      simp [updPool, hn]
  · rw [poolAt_updPool_ne e]

theorem mem_poolAt_updPool_erase {pools : List (List Nat)} {p q t t' : Nat}
    (h : t' ∈ poolAt (updPool pools p (·.erase t)) q) : t' ∈ poolAt pools q := by
  by_cases e : q = p
  · subst e
    rw [poolAt_updPool_erase] at h
    exact List.mem_of_mem_erase h
  · rwa [poolAt_updPool_ne e] at h

theorem nodup_poolAt_updPool_erase {pools : List (List Nat)} {p t : Nat}
    (h : ∀ q, (poolAt pools q).Nodup) (q : Nat) : (poolAt (updPool pools p (·.erase t)) q).Nodup := by
  by_cases e : q = p
  · subst e
    rw [poolAt_updPool_erase]
    exact (h q).erase t
  · rw [poolAt_updPool_ne e]; exact h q

/-- in a pool without duplicates the Go `remove` loop removes every entry -/
theorem not_mem_poolAt_updPool_erase {pools : List (List Nat)} {p t : Nat}
    (h : (poolAt pools p).Nodup) : t ∉ poolAt (updPool pools p (·.erase t)) p := by
  rw [poolAt_updPool_erase]
  exact h.not_mem_erase

theorem get_set {α : Type} {l : List α} {t t' : Nat} {x y : α} (h : (l.set t x)[t']? = some y) :
    (t' = t ∧ y = x) ∨ (t' ≠ t ∧ l[t']? = some y) := by
  rw [List.getElem?_set] at h
  by_cases e : t = t'
  · subst e
    simp only [if_true] at h
    split at h
    · left; exact ⟨rfl, by simpa using h.symm⟩
    · cases h
  · simp only [e, if_false] at h
    right; exact ⟨fun x => e x.symm, h⟩

theorem lt_of_get {α : Type} {l : List α} {t : Nat} {x : α} (h : l[t]? = some x) : t < l.length := by
  rcases List.getElem?_eq_some_iff.mp h with ⟨h, _⟩
  exact h

theorem map_key_set {l : List Tun} {t : Nat} {x x' : Tun} (h : l[t]? = some x) (hk : x'.key = x.key) :
    (l.set t x').map (·.key) = l.map (·.key) := by
  apply List.ext_getElem?
  intro i
  rw [List.getElem?_map, List.getElem?_map, List.getElem?_set]
  by_cases e : t = i
  · subst e
    simp only [if_true, lt_of_get h, h, Option.map_some, hk]
  · simp only [e, if_false]


/-! ### The invariant (`guarded = true`, `singleUnregister = false`) -/

/-- `G` is between (1) `s.reverse.add` and (6) `s.reverse.remove` -/
def registered : GPc → Bool
  | .addedGlobal | .gotPool _ | .addedKey _ | .removedKey => true
  | _ => false

/-- what the registry knows about tunnel `t` whose record is `x` -/
structure TunInv (s : St) (t : Nat) (x : Tun) : Prop where
  /-- the global pool stores the tunnel with ITS key -/
  glob_key : ∀ k, (t, k) ∈ s.global → k = x.key
  /-- in the global pool only between (1) and (6) -/
  glob_sound : ∀ k, (t, k) ∈ s.global → registered x.g = true
  /-- between (1) and (6) it IS in the global pool unless `unregister` has taken it out -/
  glob_complete : x.u = .idle → registered x.g = true → (t, x.key) ∈ s.global
  /-- in a key pool only while `G` is past (3) and before (5), and only in the pool `G` holds -/
  pool_sound : ∀ p, t ∈ poolAt s.pools p → x.g = .addedKey p
  /-- past (3), before (5): it IS in that pool unless `unregister` has started -/
  pool_complete : ∀ p, x.u = .idle → x.g = .addedKey p → t ∈ poolAt s.pools p
  /-- the pool `G` holds is THE pool registered under the tunnel's key -/
  holds : ∀ p, x.g = .gotPool p ∨ x.g = .addedKey p → assoc x.key s.byKey = some p
  /-- `unregister` runs only after the close -/
  u_closed : x.u ≠ .idle → x.closed = true
  /-- the key `unregister` remembers is the tunnel's key -/
  u_key : ∀ k, x.u = .gotKey k → k = x.key
  /-- the pool `unregister` looked up is the pool registered under the tunnel's key -/
  u_pool : ∀ p, x.u = .gotPool p → assoc x.key s.byKey = some p
  /-- the program counters of the faulty variants are not used -/
  no_faulty : x.g ≠ .missed ∧ ∀ p, x.g ≠ .removedGlobal p

/-- `TunInv` only depends on the tunnel's own entries and is monotone in the map -/
theorem TunInv.frame {s s' : St} {t : Nat} {x : Tun} (h : TunInv s t x)
    (hg : ∀ k, (t, k) ∈ s'.global ↔ (t, k) ∈ s.global)
    (hp : ∀ p, t ∈ poolAt s'.pools p ↔ t ∈ poolAt s.pools p)
    (hb : ∀ k p, assoc k s.byKey = some p → assoc k s'.byKey = some p) : TunInv s' t x :=
  ⟨fun k hk => h.glob_key k ((hg k).mp hk),
   fun k hk => h.glob_sound k ((hg k).mp hk),
   fun hu hr => (hg _).mpr (h.glob_complete hu hr),
   fun p hm => h.pool_sound p ((hp p).mp hm),
   fun p hu hx => (hp p).mpr (h.pool_complete p hu hx),
   fun p hx => hb _ _ (h.holds p hx),
   h.u_closed, h.u_key,
   fun p hx => hb _ _ (h.u_pool p hx),
   h.no_faulty⟩

structure Inv (keys : List Nat) (s : St) : Prop where
  /-- tunnel `t` exists and has key `keys[t]`, for ever -/
  keys_eq : s.tuns.map (·.key) = keys
  /-- no tunnel is twice in the global pool -/
  glob_nodup : s.global.Pairwise (fun a b => a.1 ≠ b.1)
  /-- no tunnel is twice in a key pool -/
  pool_nodup : ∀ p, (poolAt s.pools p).Nodup
  /-- at most one map entry per key -/
  byKey_nodup : s.byKey.Pairwise (fun a b => a.1 ≠ b.1)
  /-- every pool id in the map exists -/
  byKey_exists : ∀ k p, (k, p) ∈ s.byKey → p < s.pools.length
  /-- only tunnels are registered -/
  glob_dom : ∀ t k, (t, k) ∈ s.global → t < s.tuns.length
  pool_dom : ∀ p t, t ∈ poolAt s.pools p → t < s.tuns.length
  tun : ∀ t x, s.tuns[t]? = some x → TunInv s t x

theorem tun_update {s s' : St} {t : Nat} {x' : Tun}
    (I : ∀ t x, s.tuns[t]? = some x → TunInv s t x)
    (htuns : s'.tuns = s.tuns.set t x') (hself : TunInv s' t x')
    (hg : ∀ t' k, t' ≠ t → ((t', k) ∈ s'.global ↔ (t', k) ∈ s.global))
    (hp : ∀ t' p, t' ≠ t → (t' ∈ poolAt s'.pools p ↔ t' ∈ poolAt s.pools p))
    (hb : ∀ k p, assoc k s.byKey = some p → assoc k s'.byKey = some p) :
    ∀ t' y, s'.tuns[t']? = some y → TunInv s' t' y := by
  intro t' y h
  rw [htuns] at h
  rcases get_set h with ⟨rfl, rfl⟩ | ⟨ne, h'⟩
  · exact hself
  · exact (I t' y h').frame (fun k => hg t' k ne) (fun p => hp t' p ne) hb

theorem inv_init (keys : List Nat) : Inv keys (init keys) := by
  refine ⟨?_, List.Pairwise.nil, ?_, List.Pairwise.nil, ?_, ?_, ?_, ?_⟩
  · simp [init, List.map_map, Function.comp_def]
  · intro p; simp [init, poolAt]
  · intro k p h; cases h
  · intro t k h; cases h
  · intro p t h; simp [init, poolAt] at h
  · intro t x h
    simp only [init, List.getElem?_map] at h
    cases hk : keys[t]? with
    | none => rw [hk] at h; cases h
    | some k =>
      rw [hk] at h
      cases h
      refine ⟨?_, ?_, ?_, ?_, ?_, ?_, ?_, ?_, ?_, ?_⟩
      · intro k h; cases h
      · intro k h; cases h
      · intro _ h; cases h
      · intro p h; simp [init, poolAt] at h
      · intro p _ h; cases h
      · intro p h; rcases h with h | h <;> cases h
      · intro h; exact absurd rfl h
      · intro k h; cases h
      · intro p h; cases h
      · exact ⟨fun h => (by cases h), fun p h => (by cases h)⟩

theorem inv_addGlobal {keys : List Nat} {s s' : St} {t : Nat} (I : Inv keys s)
    (hs : step true false s (.addGlobal t) = some s') : Inv keys s' := by
  simp only [step] at hs
  split at hs
  next k c u ht =>
    cases hs
    have T := I.tun t _ ht
    have hnot : ∀ k', (t, k') ∉ s.global := fun k' h => by
      have := T.glob_sound k' h
      simp [registered] at this
    refine ⟨(map_key_set ht (by rfl)).trans I.keys_eq, ?_, I.pool_nodup, I.byKey_nodup, I.byKey_exists, ?_, ?_, ?_⟩
    · refine List.pairwise_append.mpr ⟨I.glob_nodup, List.pairwise_singleton _ _, ?_⟩
      intro a ha b hb e
      rw [List.mem_singleton.mp hb] at e
      obtain ⟨a1, a2⟩ := a
      simp only at e
      subst e
      exact hnot a2 ha
    · intro t' k' h
      simp only [List.length_set]
      rcases List.mem_append.mp h with h | h
      · exact I.glob_dom _ _ h
      · simp at h; rw [h.1]; exact lt_of_get ht
    · intro p t' h
      simp only [List.length_set]
      exact I.pool_dom p t' h
    · refine tun_update I.tun rfl ?_ ?_ (fun _ _ _ => Iff.rfl) (fun _ _ h => h)
      · refine ⟨?_, ?_, ?_, ?_, ?_, ?_, T.u_closed, T.u_key, T.u_pool, ?_⟩
        · intro k' h
          rcases List.mem_append.mp h with h | h
          · exact absurd h (hnot k')
          · simpa using h
        · intro _ _; rfl
        · intro _ _; exact List.mem_append_right _ List.mem_cons_self
        · intro p h; have := T.pool_sound p h; cases this
        · intro p _ h; cases h
        · intro p h; rcases h with h | h <;> cases h
        · exact ⟨fun h => (by cases h), fun p h => (by cases h)⟩
      · intro t' k' ne
        show (t', k') ∈ s.global ++ [(t, k)] ↔ _
        simp [ne]
  · cases hs


theorem inv_getPool {keys : List Nat} {s s' : St} {t : Nat} (I : Inv keys s)
    (hs : step true false s (.getPool t) = some s') : Inv keys s' := by
  simp only [step, if_true] at hs
  split at hs
  next k c u ht =>
    have T := I.tun t _ ht
    split at hs
    next p hp =>
      cases hs
      refine ⟨(map_key_set ht (by rfl)).trans I.keys_eq, I.glob_nodup, I.pool_nodup, I.byKey_nodup,
        I.byKey_exists, ?_, ?_, ?_⟩
      · intro t' k' h; simp only [List.length_set]; exact I.glob_dom _ _ h
      · intro q t' h; simp only [List.length_set]; exact I.pool_dom _ _ h
      · refine tun_update I.tun rfl ?_ (fun _ _ _ => Iff.rfl) (fun _ _ _ => Iff.rfl) (fun _ _ h => h)
        refine ⟨T.glob_key, fun _ _ => rfl, fun hu _ => T.glob_complete hu rfl, ?_, ?_, ?_,
          T.u_closed, T.u_key, T.u_pool, ?_⟩
        · intro q h; have := T.pool_sound q h; cases this
        · intro q _ h; cases h
        · intro q h
          rcases h with h | h
          · cases h; exact hp
          · cases h
        · exact ⟨fun h => (by cases h), fun p h => (by cases h)⟩
    next hp =>
      cases hs
      have hfresh : ∀ e ∈ s.byKey, e.1 ≠ k := assoc_none hp
      have hb : ∀ k' p', assoc k' s.byKey = some p' →
          assoc k' ((k, s.pools.length) :: s.byKey) = some p' := by
        intro k' p' h
        simp only [assoc]
        split
        next e => subst e; rw [hp] at h; cases h
        next => exact h
      refine ⟨(map_key_set ht (by rfl)).trans I.keys_eq, I.glob_nodup, ?_, ?_, ?_, ?_, ?_, ?_⟩
      · intro q; simp only [poolAt_append_nil]; exact I.pool_nodup q
      · exact List.pairwise_cons.mpr ⟨fun e he h => hfresh e he h.symm, I.byKey_nodup⟩
      · intro k' p' h
        simp only [List.length_append, List.length_cons, List.length_nil]
        rcases List.mem_cons.mp h with h | h
        · cases h; omega
        · have := I.byKey_exists _ _ h; omega
      · intro t' k' h; simp only [List.length_set]; exact I.glob_dom _ _ h
      · intro q t' h
        simp only [poolAt_append_nil] at h
        simp only [List.length_set]; exact I.pool_dom _ _ h
      · refine tun_update I.tun rfl ?_ (fun _ _ _ => Iff.rfl)
          (fun t' q _ => by simp only [poolAt_append_nil]) hb
        refine ⟨T.glob_key, fun _ _ => rfl, fun hu _ => T.glob_complete hu rfl, ?_, ?_, ?_,
          T.u_closed, T.u_key, ?_, ?_⟩
        · intro q h
          simp only [poolAt_append_nil] at h
          have := T.pool_sound q h; cases this
        · intro q _ h; cases h
        · intro q h
          rcases h with h | h
          · cases h; simp [assoc]
          · cases h
        · intro q h; exact hb _ _ (T.u_pool q h)
        · exact ⟨fun h => (by cases h), fun p h => (by cases h)⟩
  · cases hs

theorem inv_addKey {keys : List Nat} {s s' : St} {t : Nat} (I : Inv keys s)
    (hs : step true false s (.addKey t) = some s') : Inv keys s' := by
  simp only [step] at hs
  split at hs
  next k c p u ht =>
    cases hs
    have T := I.tun t _ ht
    have hp : assoc k s.byKey = some p := T.holds p (Or.inl rfl)
    have hlt : p < s.pools.length := I.byKey_exists _ _ (assoc_mem hp)
    have hnot : ∀ q, t ∉ poolAt s.pools q := fun q h => by have := T.pool_sound q h; cases this
    refine ⟨(map_key_set ht (by rfl)).trans I.keys_eq, I.glob_nodup, ?_, I.byKey_nodup, ?_, ?_, ?_, ?_⟩
    · intro q
      show (poolAt (updPool s.pools p (· ++ [t])) q).Nodup
      by_cases e : q = p
      · subst e
        rw [poolAt_updPool_eq hlt]
        refine List.nodup_append.mpr ⟨I.pool_nodup q, by simp, ?_⟩
        intro a ha b hb e
        rw [List.mem_singleton.mp hb] at e
        subst e
        exact hnot q ha
      · rw [poolAt_updPool_ne e]; exact I.pool_nodup q
    · intro k' p' h; simp only [length_updPool]; exact I.byKey_exists _ _ h
    · intro t' k' h; simp only [List.length_set]; exact I.glob_dom _ _ h
    · intro q t' h
      simp only [List.length_set]
      by_cases e : t' = t
      · subst e; exact lt_of_get ht
      · exact I.pool_dom q t' ((mem_poolAt_updPool (f := (· ++ [t])) (fun l => by simp [e])).mp h)
    · refine tun_update I.tun rfl ?_ (fun _ _ _ => Iff.rfl)
        (fun t' q ne => mem_poolAt_updPool (fun l => by simp [ne])) (fun _ _ h => h)
      refine ⟨T.glob_key, fun _ _ => rfl, fun hu _ => T.glob_complete hu rfl, ?_, ?_, ?_,
        T.u_closed, T.u_key, T.u_pool, ?_⟩
      · intro q h
        by_cases e : q = p
        · subst e; rfl
        · change t ∈ poolAt (updPool s.pools p (· ++ [t])) q at h
          rw [poolAt_updPool_ne e] at h
          exact absurd h (hnot q)
      · intro q _ h
        cases h
        show t ∈ poolAt (updPool s.pools p (· ++ [t])) p
        rw [poolAt_updPool_eq hlt]
        simp
      · intro q h
        rcases h with h | h
        · cases h
        · cases h; exact hp
      · exact ⟨fun h => (by cases h), fun p h => (by cases h)⟩
  · cases hs

theorem inv_remKey {keys : List Nat} {s s' : St} {t : Nat} (I : Inv keys s)
    (hs : step true false s (.remKey t) = some s') : Inv keys s' := by
  simp only [step, Bool.false_eq_true, if_false] at hs
  split at hs
  next k p u ht =>
    cases hs
    have T := I.tun t _ ht
    refine ⟨(map_key_set ht (by rfl)).trans I.keys_eq, I.glob_nodup,
      nodup_poolAt_updPool_erase I.pool_nodup, I.byKey_nodup, ?_, ?_, ?_, ?_⟩
    · intro k' p' h; simp only [length_updPool]; exact I.byKey_exists _ _ h
    · intro t' k' h; simp only [List.length_set]; exact I.glob_dom _ _ h
    · intro q t' h
      simp only [List.length_set]
      exact I.pool_dom q t' (mem_poolAt_updPool_erase h)
    · refine tun_update I.tun rfl ?_ (fun _ _ _ => Iff.rfl)
        (fun t' q ne => mem_poolAt_updPool (fun l => List.mem_erase_of_ne ne)) (fun _ _ h => h)
      refine ⟨T.glob_key, fun _ _ => rfl, fun hu _ => T.glob_complete hu rfl, ?_, ?_, ?_,
        T.u_closed, T.u_key, T.u_pool, ?_⟩
      · intro q h
        exfalso
        change t ∈ poolAt (updPool s.pools p (·.erase t)) q at h
        by_cases e : q = p
        · subst e; exact not_mem_poolAt_updPool_erase (I.pool_nodup q) h
        · rw [poolAt_updPool_ne e] at h
          have := T.pool_sound q h
          cases this
          exact e rfl
      · intro q _ h; cases h
      · intro q h; rcases h with h | h <;> cases h
      · exact ⟨fun h => (by cases h), fun p h => (by cases h)⟩
  · cases hs

theorem inv_remGlobal {keys : List Nat} {s s' : St} {t : Nat} (I : Inv keys s)
    (hs : step true false s (.remGlobal t) = some s') : Inv keys s' := by
  simp only [step, Bool.false_eq_true, if_false] at hs
  split at hs
  next k c u ht =>
    cases hs
    have T := I.tun t _ ht
    refine ⟨(map_key_set ht (by rfl)).trans I.keys_eq, pairwise_removeFirst I.glob_nodup,
      I.pool_nodup, I.byKey_nodup, I.byKey_exists, ?_, ?_, ?_⟩
    · intro t' k' h; simp only [List.length_set]; exact I.glob_dom _ _ (mem_removeFirst h)
    · intro q t' h; simp only [List.length_set]; exact I.pool_dom _ _ h
    · refine tun_update I.tun rfl ?_ (fun t' k' ne => mem_removeFirst_of_ne ne)
        (fun _ _ _ => Iff.rfl) (fun _ _ h => h)
      refine ⟨?_, ?_, ?_, ?_, ?_, ?_, T.u_closed, T.u_key, T.u_pool, ?_⟩
      · intro k' h; exact absurd h (not_mem_removeFirst I.glob_nodup)
      · intro k' h; exact absurd h (not_mem_removeFirst I.glob_nodup)
      · intro _ h; simp [registered] at h
      · intro q h; have := T.pool_sound q h; cases this
      · intro q _ h; cases h
      · intro q h; rcases h with h | h <;> cases h
      · exact ⟨fun h => (by cases h), fun p h => (by cases h)⟩
  · cases hs

theorem inv_close {keys : List Nat} {s s' : St} {t : Nat} (I : Inv keys s)
    (hs : step true false s (.close t) = some s') : Inv keys s' := by
  simp only [step] at hs
  split at hs
  next k g u ht =>
    cases hs
    have T := I.tun t _ ht
    refine ⟨(map_key_set ht (by rfl)).trans I.keys_eq, I.glob_nodup, I.pool_nodup, I.byKey_nodup,
      I.byKey_exists, ?_, ?_, ?_⟩
    · intro t' k' h; simp only [List.length_set]; exact I.glob_dom _ _ h
    · intro q t' h; simp only [List.length_set]; exact I.pool_dom _ _ h
    · exact tun_update I.tun rfl
        ⟨T.glob_key, T.glob_sound, T.glob_complete, T.pool_sound, T.pool_complete, T.holds,
          fun _ => rfl, T.u_key, T.u_pool, T.no_faulty⟩
        (fun _ _ _ => Iff.rfl) (fun _ _ _ => Iff.rfl) (fun _ _ h => h)
  · cases hs

theorem inv_uRemGlobal {keys : List Nat} {s s' : St} {t : Nat} (I : Inv keys s)
    (hs : step true false s (.uRemGlobal t) = some s') : Inv keys s' := by
  simp only [step] at hs
  split at hs
  next k g ht =>
    have T := I.tun t _ ht
    split at hs
    next k' hk' =>
      cases hs
      have hkk : k' = k := T.glob_key k' (assoc_mem hk')
      refine ⟨(map_key_set ht (by rfl)).trans I.keys_eq, pairwise_removeFirst I.glob_nodup,
        I.pool_nodup, I.byKey_nodup, I.byKey_exists, ?_, ?_, ?_⟩
      · intro t' k' h; simp only [List.length_set]; exact I.glob_dom _ _ (mem_removeFirst h)
      · intro q t' h; simp only [List.length_set]; exact I.pool_dom _ _ h
      · refine tun_update I.tun rfl ?_ (fun t' k' ne => mem_removeFirst_of_ne ne)
          (fun _ _ _ => Iff.rfl) (fun _ _ h => h)
        refine ⟨?_, ?_, ?_, T.pool_sound, ?_, T.holds, fun _ => rfl, ?_, ?_, T.no_faulty⟩
        · intro k'' h; exact absurd h (not_mem_removeFirst I.glob_nodup)
        · intro k'' h; exact absurd h (not_mem_removeFirst I.glob_nodup)
        · intro h; cases h
        · intro q h; cases h
        · intro k'' h; cases h; exact hkk
        · intro q h; cases h
    next =>
      cases hs
      refine ⟨(map_key_set ht (by rfl)).trans I.keys_eq, I.glob_nodup, I.pool_nodup, I.byKey_nodup,
        I.byKey_exists, ?_, ?_, ?_⟩
      · intro t' k' h; simp only [List.length_set]; exact I.glob_dom _ _ h
      · intro q t' h; simp only [List.length_set]; exact I.pool_dom _ _ h
      · refine tun_update I.tun rfl ?_ (fun _ _ _ => Iff.rfl) (fun _ _ _ => Iff.rfl) (fun _ _ h => h)
        refine ⟨T.glob_key, T.glob_sound, ?_, T.pool_sound, ?_, T.holds, fun _ => rfl, ?_, ?_, T.no_faulty⟩
        · intro h; cases h
        · intro q h; cases h
        · intro k'' h; cases h
        · intro q h; cases h
  · cases hs

theorem inv_uLookup {keys : List Nat} {s s' : St} {t : Nat} (I : Inv keys s)
    (hs : step true false s (.uLookup t) = some s') : Inv keys s' := by
  simp only [step] at hs
  split at hs
  next k c g k' ht =>
    have T := I.tun t _ ht
    have hkk : k' = k := T.u_key k' rfl
    have hc : c = true := T.u_closed (fun h => by cases h)
    split at hs
    next p hp =>
      cases hs
      refine ⟨(map_key_set ht (by rfl)).trans I.keys_eq, I.glob_nodup, I.pool_nodup, I.byKey_nodup,
        I.byKey_exists, ?_, ?_, ?_⟩
      · intro t' k' h; simp only [List.length_set]; exact I.glob_dom _ _ h
      · intro q t' h; simp only [List.length_set]; exact I.pool_dom _ _ h
      · refine tun_update I.tun rfl ?_ (fun _ _ _ => Iff.rfl) (fun _ _ _ => Iff.rfl) (fun _ _ h => h)
        refine ⟨T.glob_key, T.glob_sound, ?_, T.pool_sound, ?_, T.holds, fun _ => hc, ?_, ?_, T.no_faulty⟩
        · intro h; cases h
        · intro q h; cases h
        · intro k'' h; cases h
        · intro q h; cases h; rw [← hkk]; exact hp
    next =>
      cases hs
      refine ⟨(map_key_set ht (by rfl)).trans I.keys_eq, I.glob_nodup, I.pool_nodup, I.byKey_nodup,
        I.byKey_exists, ?_, ?_, ?_⟩
      · intro t' k' h; simp only [List.length_set]; exact I.glob_dom _ _ h
      · intro q t' h; simp only [List.length_set]; exact I.pool_dom _ _ h
      · refine tun_update I.tun rfl ?_ (fun _ _ _ => Iff.rfl) (fun _ _ _ => Iff.rfl) (fun _ _ h => h)
        refine ⟨T.glob_key, T.glob_sound, ?_, T.pool_sound, ?_, T.holds, fun _ => hc, ?_, ?_, T.no_faulty⟩
        · intro h; cases h
        · intro q h; cases h
        · intro k'' h; cases h
        · intro q h; cases h
  · cases hs

theorem inv_uRemKey {keys : List Nat} {s s' : St} {t : Nat} (I : Inv keys s)
    (hs : step true false s (.uRemKey t) = some s') : Inv keys s' := by
  simp only [step] at hs
  split at hs
  next k c g p ht =>
    cases hs
    have T := I.tun t _ ht
    have hc : c = true := T.u_closed (fun h => by cases h)
    refine ⟨(map_key_set ht (by rfl)).trans I.keys_eq, I.glob_nodup,
      nodup_poolAt_updPool_erase I.pool_nodup, I.byKey_nodup, ?_, ?_, ?_, ?_⟩
    · intro k' p' h; simp only [length_updPool]; exact I.byKey_exists _ _ h
    · intro t' k' h; simp only [List.length_set]; exact I.glob_dom _ _ h
    · intro q t' h
      simp only [List.length_set]
      exact I.pool_dom q t' (mem_poolAt_updPool_erase h)
    · refine tun_update I.tun rfl ?_ (fun _ _ _ => Iff.rfl)
        (fun t' q ne => mem_poolAt_updPool (fun l => List.mem_erase_of_ne ne)) (fun _ _ h => h)
      refine ⟨T.glob_key, T.glob_sound, ?_, ?_, ?_, T.holds, fun _ => hc, ?_, ?_, T.no_faulty⟩
      · intro h; cases h
      · intro q h; exact T.pool_sound q (mem_poolAt_updPool_erase h)
      · intro q h; cases h
      · intro k'' h; cases h
      · intro q h; cases h
  · cases hs

/-- the invariant is inductive -/
theorem inv_step {keys : List Nat} {s s' : St} {a : Act} (I : Inv keys s)
    (hs : step true false s a = some s') : Inv keys s' := by
  cases a with
  | addGlobal t => exact inv_addGlobal I hs
  | getPool t => exact inv_getPool I hs
  | peekPool t => simp [step] at hs
  | createPool t => simp [step] at hs
  | addKey t => exact inv_addKey I hs
  | remKey t => exact inv_remKey I hs
  | remGlobal t => exact inv_remGlobal I hs
  | sRemGlobal t => simp [step] at hs
  | sRemKey t => simp [step] at hs
  | close t => exact inv_close I hs
  | uRemGlobal t => exact inv_uRemGlobal I hs
  | uLookup t => exact inv_uLookup I hs
  | uRemKey t => exact inv_uRemKey I hs

theorem inv_run {keys : List Nat} : ∀ (as : List Act) {s s' : St}, Inv keys s → run true false s as = some s' → Inv keys s'
  | [], s, s', h, hr => by simp [run] at hr; subst hr; exact h
  | a :: as, s, s', h, hr => by
    simp only [run] at hr
    split at hr
    next s1 hs => exact inv_run as (inv_step h hs) hr
    · cases hr

/-- **1.** the invariant holds in every reachable state of the correct model -/
theorem inv_reachable (keys : List Nat) (as : List Act) {s : St}
    (hr : run true false (init keys) as = some s) : Inv keys s :=
  inv_run as (inv_init keys) hr


/-- a tunnel in a key pool is a tunnel, parked (or about to run its deferred remove) with a
    pointer to that pool, and the pool is THE pool registered under the tunnel's key -/
theorem in_pool_of_its_key {keys : List Nat} {s : St} (I : Inv keys s) {p t : Nat}
    (h : t ∈ poolAt s.pools p) :
    ∃ x, s.tuns[t]? = some x ∧ x.g = .addedKey p ∧ assoc x.key s.byKey = some p ∧ p < s.pools.length := by
  have hx := List.getElem?_eq_getElem (I.pool_dom p t h)
  have T := I.tun t _ hx
  have hg := T.pool_sound p h
  have hb := T.holds p (Or.inr hg)
  exact ⟨_, hx, hg, hb, I.byKey_exists _ _ (assoc_mem hb)⟩

/-- tunnel `t`'s key is `keys[t]`, for ever -/
theorem tun_key {keys : List Nat} {s : St} (I : Inv keys s) {t : Nat} {x : Tun}
    (ht : s.tuns[t]? = some x) : keys[t]? = some x.key := by
  rw [← I.keys_eq, List.getElem?_map, ht]; rfl

/-! ### The map entry of a key never changes -/

theorem byKey_stable_step {sg : Bool} {s s' : St} {a : Act} (hs : step true sg s a = some s')
    {k p : Nat} (h : assoc k s.byKey = some p) : assoc k s'.byKey = some p := by
  cases a with
  | getPool t =>
    simp only [step, if_true] at hs
    split at hs
    · split at hs
      · cases hs; exact h
      next hp =>
        cases hs
        show assoc k ((_, s.pools.length) :: s.byKey) = some p
        simp only [assoc]
        split
        next e => subst e; rw [hp] at h; cases h
        next => exact h
    · cases hs
  | _ =>
    simp only [step, if_true] at hs
    <;> (repeat' split at hs)
    <;> first | (cases hs; exact h) | cases hs

/-- an entry of `reverseByKey`, once made, is never changed (`guarded = true`) -/
theorem byKey_stable {sg : Bool} : ∀ (as : List Act) {s s' : St}, run true sg s as = some s' →
    ∀ {k p : Nat}, assoc k s.byKey = some p → assoc k s'.byKey = some p
  | [], s, s', hr, k, p, h => by simp [run] at hr; subst hr; exact h
  | a :: as, s, s', hr, k, p, h => by
    simp only [run] at hr
    split at hr
    next s1 hs => exact byKey_stable as hr (byKey_stable_step hs h)
    · cases hr

/-! ### 2. The registry is exact at every resting state -/

theorem mem_globalIds {s : St} {t : Nat} : t ∈ globalIds s ↔ ∃ k, (t, k) ∈ s.global := by
  simp only [globalIds, List.mem_map]
  constructor
  · rintro ⟨⟨a, b⟩, h, rfl⟩; exact ⟨b, h⟩
  · rintro ⟨k, h⟩; exact ⟨(t, k), h, rfl⟩

theorem mem_keyPool {s : St} {t k : Nat} :
    t ∈ keyPool s k ↔ ∃ p, assoc k s.byKey = some p ∧ t ∈ poolAt s.pools p := by
  unfold keyPool
  split
  next p hp =>
    constructor
    · intro h; exact ⟨p, hp, h⟩
    · rintro ⟨q, hq, h⟩; rw [hp] at hq; cases hq; exact h
  next hp =>
    constructor
    · intro h; cases h
    · rintro ⟨q, hq, _⟩; rw [hp] at hq; cases hq

/-- the two levels of the registry say exactly "open and fully registered" about tunnel `t` -/
structure ExactAt (s : St) (t : Nat) (x : Tun) : Prop where
  /-- in the global pool ↔ `G t` parked at `<-ch.Done()` and the channel open -/
  global_iff : t ∈ globalIds s ↔ x.isOpen = true
  /-- ... and then stored with its own key -/
  global_key : ∀ k, (t, k) ∈ s.global → k = x.key
  /-- in the pool registered under its key ↔ the same -/
  keyPool_iff : t ∈ keyPool s x.key ↔ x.isOpen = true
  /-- in no other pool -/
  no_other : ∀ p, t ∈ poolAt s.pools p → assoc x.key s.byKey = some p

/-- Exactness at `t` needs only `G t` to be at rest — neither `U t` nor the other tunnels. -/
theorem exactAt_of_gResting {keys : List Nat} {s : St} (I : Inv keys s) {t : Nat} {x : Tun}
    (ht : s.tuns[t]? = some x) (hr : x.gResting false = true) : ExactAt s t x := by
  have T := I.tun t x ht
  obtain ⟨k, c, g, u⟩ := x
  -- a tunnel whose `G` is not parked is nowhere
  have nowhere : registered g = false → (∀ p, g ≠ .addedKey p) →
      ExactAt s t ⟨k, c, g, u⟩ := by
    intro hreg hg
    have h1 : ∀ k', (t, k') ∉ s.global := fun k' h => by
      have := T.glob_sound k' h
      rw [hreg] at this; cases this
    have h2 : ∀ q, t ∉ poolAt s.pools q := fun q h => hg q (T.pool_sound q h)
    have h3 : Tun.isOpen ⟨k, c, g, u⟩ = false := by
      cases g <;> first | rfl | exact absurd rfl (hg _)
    refine ⟨?_, fun k' h => absurd h (h1 k'), ?_, fun q h => absurd h (h2 q)⟩
    · rw [h3]
      exact ⟨fun h => by obtain ⟨k', h⟩ := mem_globalIds.mp h; exact absurd h (h1 k'), fun h => by cases h⟩
    · rw [h3]
      exact ⟨fun h => by obtain ⟨q, _, h⟩ := mem_keyPool.mp h; exact absurd h (h2 q), fun h => by cases h⟩
  cases g with
  | start => exact nowhere rfl (fun p h => by cases h)
  | done => exact nowhere rfl (fun p h => by cases h)
  | addedGlobal => cases hr
  | missed => cases hr
  | gotPool p => cases hr
  | removedKey => cases hr
  | removedGlobal p => cases hr
  | addedKey p =>
    have hc : c = false := by
      cases c with
      | false => rfl
      | true => cases hr
    subst hc
    have hu : u = .idle := by
      cases u with
      | idle => rfl
      | _ => exact absurd (T.u_closed (fun h => by cases h)) (by simp)
    subst hu
    refine ⟨⟨fun _ => rfl, fun _ => mem_globalIds.mpr ⟨k, T.glob_complete rfl rfl⟩⟩, T.glob_key,
      ⟨fun _ => rfl, fun _ => mem_keyPool.mpr ⟨p, T.holds p (Or.inr rfl), T.pool_complete p rfl rfl⟩⟩, ?_⟩
    intro q h
    have := T.pool_sound q h
    cases this
    exact T.holds p (Or.inr rfl)

theorem tun_exists {keys : List Nat} {s : St} (I : Inv keys s) {t : Nat} (ht : t < keys.length) :
    ∃ x, s.tuns[t]? = some x ∧ x.key = keys[t] := by
  have h : (s.tuns.map (·.key))[t]? = some keys[t] := by
    rw [I.keys_eq]; exact List.getElem?_eq_getElem ht
  rw [List.getElem?_map] at h
  cases hx : s.tuns[t]? with
  | none => rw [hx] at h; cases h
  | some x =>
    rw [hx] at h
    exact ⟨x, rfl, by simpa using h⟩

theorem resting_get {strict : Bool} {s : St} (h : resting strict s = true) {t : Nat} {x : Tun}
    (ht : s.tuns[t]? = some x) : x.gResting strict = true ∧ x.uResting = true := by
  have := List.all_eq_true.mp h x (List.mem_of_getElem? ht)
  simpa [Tun.resting] using this

/-- **2.** In every reachable resting state of the correct model the registry — both levels —
    is exactly the set of open, fully registered tunnels: for every tunnel `t`

      `t` in the global pool  ↔  `t` in the pool registered under `keys[t]`
                              ↔  `G t` parked at `<-ch.Done()` ∧ channel `t` open,

    and `t` is in no other pool.  (`resting false`: tunnels whose `G` is still in `start` count
    as "not opened yet" and are allowed; this includes the states with `resting true`.) -/
theorem registry_exact_at_rest (keys : List Nat) (as : List Act) {s : St}
    (hr : run true false (init keys) as = some s) (hrest : resting false s = true)
    (t : Nat) (ht : t < keys.length) :
    ∃ x, s.tuns[t]? = some x ∧ x.key = keys[t] ∧ ExactAt s t x := by
  have I := inv_reachable keys as hr
  obtain ⟨x, hx, hk⟩ := tun_exists I ht
  exact ⟨x, hx, hk, exactAt_of_gResting I hx (resting_get hrest hx).1⟩

/-- the same, tunnel by tunnel, and without any assumption on the other goroutines: whenever
    `G t` is at rest (not started, parked with the channel open, or returned) the registry is
    exact about `t` — wherever `U t` and all the other tunnels are -/
theorem registry_exact_tunnel (keys : List Nat) (as : List Act) {s : St}
    (hr : run true false (init keys) as = some s) {t : Nat} {x : Tun}
    (hx : s.tuns[t]? = some x) (hg : x.gResting false = true) : ExactAt s t x :=
  exactAt_of_gResting (inv_reachable keys as hr) hx hg

/-- strict resting states are resting states -/
theorem resting_of_strict {s : St} (h : resting true s = true) : resting false s = true := by
  rw [resting, List.all_eq_true] at *
  intro x hx
  have := h x hx
  simp only [Tun.resting, Bool.and_eq_true] at this ⊢
  refine ⟨?_, this.2⟩
  have h1 := this.1
  unfold Tun.gResting at h1 ⊢
  split <;> simp_all

/-- nothing but tunnels is ever registered -/
theorem registry_only_tunnels (keys : List Nat) (as : List Act) {s : St}
    (hr : run true false (init keys) as = some s) {t : Nat} (ht : keys.length ≤ t) :
    t ∉ globalIds s ∧ ∀ p, t ∉ poolAt s.pools p := by
  have I := inv_reachable keys as hr
  have hl : s.tuns.length = keys.length := by rw [← I.keys_eq, List.length_map]
  constructor
  · intro h
    obtain ⟨k, h⟩ := mem_globalIds.mp h
    have := I.glob_dom t k h
    omega
  · intro p h
    have := I.pool_dom p t h
    omega

/-! ### 3. Nothing is left behind -/

theorem empty_of_all_done {keys : List Nat} {s : St} (I : Inv keys s)
    (h : ∀ x ∈ s.tuns, x.g = .done) : s.global = [] ∧ ∀ p, poolAt s.pools p = [] := by
  constructor
  · apply List.eq_nil_iff_forall_not_mem.mpr
    rintro ⟨t, k⟩ hm
    have hlt := I.glob_dom t k hm
    have hx := List.getElem?_eq_getElem hlt
    have := (I.tun t _ hx).glob_sound k hm
    rw [h _ (List.mem_of_getElem? hx)] at this
    cases this
  · intro p
    apply List.eq_nil_iff_forall_not_mem.mpr
    intro t hm
    have hlt := I.pool_dom p t hm
    have hx := List.getElem?_eq_getElem hlt
    have := (I.tun t _ hx).pool_sound p hm
    rw [h _ (List.mem_of_getElem? hx)] at this
    cases this

/-- **3.** When all channels are closed and all goroutines have returned, the global pool and
    every key pool are empty.  (It is enough that all the `G t` have returned.) -/
theorem nothing_left_behind (keys : List Nat) (as : List Act) {s : St}
    (hr : run true false (init keys) as = some s) (hover : allOver s = true) :
    s.global = [] ∧ (∀ l ∈ s.pools, l = []) ∧ ∀ k, keyPool s k = [] := by
  have I := inv_reachable keys as hr
  have hd : ∀ x ∈ s.tuns, x.g = .done := by
    intro x hx
    have := List.all_eq_true.mp hover x hx
    simp only [Tun.over, Bool.and_eq_true, beq_iff_eq] at this
    exact this.1.2
  obtain ⟨h1, h2⟩ := empty_of_all_done I hd
  refine ⟨h1, ?_, ?_⟩
  · intro l hl
    obtain ⟨p, hp⟩ := List.getElem?_of_mem hl
    have := h2 p
    simpa [poolAt, hp] using this
  · intro k
    unfold keyPool
    split
    · exact h2 _
    · rfl

/-! ### 4. One pool per key -/

/-- a goroutine of the tunnel holds a pointer to pool `p` -/
def HoldsPool (x : Tun) (p : Nat) : Prop := x.g = .gotPool p ∨ x.g = .addedKey p ∨ x.u = .gotPool p

theorem holdsPool_registered {keys : List Nat} {s : St} (I : Inv keys s) {t : Nat} {x : Tun}
    (ht : s.tuns[t]? = some x) {p : Nat} (h : HoldsPool x p) :
    assoc x.key s.byKey = some p ∧ p < s.pools.length := by
  have T := I.tun t x ht
  have : assoc x.key s.byKey = some p := by
    rcases h with h | h | h
    · exact T.holds p (Or.inl h)
    · exact T.holds p (Or.inr h)
    · exact T.u_pool p h
  exact ⟨this, I.byKey_exists _ _ (assoc_mem this)⟩

/-- **4.** Two tunnels with the same key that both hold a pool (`G` past `getPool`, or `U`
    past its lookup) hold the same pool: the one registered under the key, which exists. -/
theorem one_pool_per_key (keys : List Nat) (as : List Act) {s : St}
    (hr : run true false (init keys) as = some s) {t t' : Nat} {x x' : Tun}
    (ht : s.tuns[t]? = some x) (ht' : s.tuns[t']? = some x') (hk : x.key = x'.key)
    {p p' : Nat} (hp : HoldsPool x p) (hp' : HoldsPool x' p') :
    p = p' ∧ assoc x.key s.byKey = some p ∧ p < s.pools.length := by
  have I := inv_reachable keys as hr
  have a := holdsPool_registered I ht hp
  have b := holdsPool_registered I ht' hp'
  rw [← hk, a.1] at b
  exact ⟨Option.some.inj b.1, a⟩


/-! ### 5. Progress and termination -/

/-- `G t` is never stuck by itself: unless it is at rest (returned, or parked with the channel
    open) its next action is enabled -/
theorem progress_G {keys : List Nat} {s : St} (I : Inv keys s) {t : Nat} {x : Tun}
    (ht : s.tuns[t]? = some x) (h : x.gResting true = false) :
    ∃ a, a ∈ [Act.addGlobal t, .getPool t, .addKey t, .remKey t, .remGlobal t] ∧
      (step true false s a).isSome = true := by
  have T := I.tun t x ht
  obtain ⟨k, c, g, u⟩ := x
  cases g with
  | start => exact ⟨.addGlobal t, by simp, by simp [step, ht]⟩
  | addedGlobal =>
    refine ⟨.getPool t, by simp, ?_⟩
    simp only [step, ht, if_true]
    cases assoc k s.byKey <;> rfl
  | missed => exact absurd rfl T.no_faulty.1
  | gotPool p => exact ⟨.addKey t, by simp, by simp [step, ht]⟩
  | addedKey p =>
    have hc : c = true := by
      cases c with
      | true => rfl
      | false => cases h
    subst hc
    exact ⟨.remKey t, by simp, by simp [step, ht]⟩
  | removedKey => exact ⟨.remGlobal t, by simp, by simp [step, ht]⟩
  | removedGlobal p => exact absurd rfl (T.no_faulty.2 p)
  | done => cases h

/-- `U t` is never stuck: once the channel is closed its next action is enabled until it has finished -/
theorem progress_U {s : St} {t : Nat} {x : Tun}
    (ht : s.tuns[t]? = some x) (h : x.uResting = false) :
    ∃ a, a ∈ [Act.uRemGlobal t, .uLookup t, .uRemKey t] ∧ (step true false s a).isSome = true := by
  obtain ⟨k, c, g, u⟩ := x
  have hc : c = true := by
    cases c with
    | true => rfl
    | false => cases h
  subst hc
  cases u with
  | idle =>
    refine ⟨.uRemGlobal t, by simp, ?_⟩
    simp only [step, ht]
    cases assoc t s.global <;> rfl
  | gotKey k' =>
    refine ⟨.uLookup t, by simp, ?_⟩
    simp only [step, ht]
    cases assoc k' s.byKey <;> rfl
  | gotPool p => exact ⟨.uRemKey t, by simp, by simp [step, ht]⟩
  | finished => cases h

/-- **5a.** In every reachable state, a tunnel one of whose goroutines is not at rest (in the
    STRICT sense: `G` in `start` counts as able to move) has an enabled action of its own. -/
theorem progress_tunnel (keys : List Nat) (as : List Act) {s : St}
    (hr : run true false (init keys) as = some s) {t : Nat} {x : Tun}
    (ht : s.tuns[t]? = some x) (h : x.resting true = false) :
    ∃ a, a.tun = t ∧ (step true false s a).isSome = true := by
  have I := inv_reachable keys as hr
  simp only [Tun.resting, Bool.and_eq_false_iff] at h
  rcases h with h | h
  · obtain ⟨a, ha, he⟩ := progress_G I ht h
    refine ⟨a, ?_, he⟩
    simp only [List.mem_cons, List.not_mem_nil, or_false] at ha
    rcases ha with rfl | rfl | rfl | rfl | rfl <;> rfl
  · obtain ⟨a, ha, he⟩ := progress_U ht h
    refine ⟨a, ?_, he⟩
    simp only [List.mem_cons, List.not_mem_nil, or_false] at ha
    rcases ha with rfl | rfl | rfl <;> rfl

/-- **5b.** In every reachable non-resting state some action is enabled. -/
theorem progress (keys : List Nat) (as : List Act) {s : St}
    (hr : run true false (init keys) as = some s) (h : resting true s = false) :
    ∃ a, (step true false s a).isSome = true := by
  obtain ⟨x, hx, hn⟩ := List.all_eq_false.mp h
  obtain ⟨t, ht⟩ := List.getElem?_of_mem hx
  obtain ⟨a, _, he⟩ := progress_tunnel keys as hr ht (by simpa using hn)
  exact ⟨a, he⟩

/-- a state that is not resting in the lenient sense is not resting in the strict sense -/
theorem progress' (keys : List Nat) (as : List Act) {s : St}
    (hr : run true false (init keys) as = some s) (h : resting false s = false) :
    ∃ a, (step true false s a).isSome = true := by
  apply progress keys as hr
  cases h' : resting true s with
  | false => rfl
  | true => rw [resting_of_strict h'] at h; cases h

/-- every action is an action of ONE tunnel: it replaces that tunnel's record by one of
    strictly smaller rank and the same key — in ALL variants of the model -/
theorem step_tuns {gd sg : Bool} {s s' : St} {a : Act} (hs : step gd sg s a = some s') :
    ∃ x x', s.tuns[a.tun]? = some x ∧ s'.tuns = s.tuns.set a.tun x' ∧ x'.rank < x.rank ∧ x'.key = x.key := by
  cases a <;> simp only [step] at hs <;> (repeat' split at hs) <;>
    first
    | (cases hs; done)
    | (cases hs
       refine ⟨_, _, (by assumption), rfl, ?_, ?_⟩
       rotate_left
       · rfl
       simp only [Tun.rank, GPc.rank, UPc.rank, if_true, Bool.false_eq_true, if_false]
       omega)

theorem total_set_lt : ∀ {l : List Tun} {t : Nat} {x x' : Tun}, l[t]? = some x → x'.rank < x.rank →
    total (l.set t x') < total l
  | [], _, _, _, h, _ => by cases h
  | y :: r, 0, x, x', h, hlt => by
    simp only [List.getElem?_cons_zero, Option.some.injEq] at h
    subst h
    simp only [List.set_cons_zero, total]
    omega
  | y :: r, t + 1, x, x', h, hlt => by
    simp only [List.getElem?_cons_succ] at h
    have := total_set_lt h hlt
    simp only [List.set_cons_succ, total]
    omega

theorem remaining_step {gd sg : Bool} {s s' : St} {a : Act} (hs : step gd sg s a = some s') :
    remaining s' < remaining s := by
  obtain ⟨x, x', hx, ht, hlt, _⟩ := step_tuns hs
  unfold remaining
  rw [ht]
  exact total_set_lt hx hlt

theorem rankAt_step {gd sg : Bool} {s s' : St} {a : Act} (hs : step gd sg s a = some s') (t : Nat) :
    if a.tun = t then rankAt s' t < rankAt s t else rankAt s' t = rankAt s t := by
  obtain ⟨x, x', hx, ht, hlt, _⟩ := step_tuns hs
  unfold rankAt
  rw [ht]
  split
  next e =>
    subst e
    rw [List.getElem?_set_self (lt_of_get hx), hx]
    exact hlt
  next e =>
    rw [List.getElem?_set_ne e]

theorem run_remaining {gd sg : Bool} : ∀ (as : List Act) {s s' : St}, run gd sg s as = some s' →
    as.length + remaining s' ≤ remaining s
  | [], s, s', hr => by simp [run] at hr; subst hr; simp
  | a :: as, s, s', hr => by
    simp only [run] at hr
    split at hr
    next s1 hs =>
      have := run_remaining as hr
      have := remaining_step hs
      simp only [List.length_cons]
      omega
    · cases hr

theorem run_rankAt {gd sg : Bool} (t : Nat) : ∀ (as : List Act) {s s' : St}, run gd sg s as = some s' →
    (as.filter (fun a => a.tun == t)).length + rankAt s' t ≤ rankAt s t
  | [], s, s', hr => by simp [run] at hr; subst hr; simp
  | a :: as, s, s', hr => by
    simp only [run] at hr
    split at hr
    next s1 hs =>
      have h1 := run_rankAt t as hr
      have h2 := rankAt_step hs t
      by_cases e : a.tun = t
      · simp only [e, if_true] at h2
        simp only [List.filter_cons, e, beq_self_eq_true, if_true, List.length_cons]
        omega
      · simp only [e, if_false] at h2
        have : (a.tun == t) = false := by simpa using e
        simp only [List.filter_cons, this, Bool.false_eq_true, if_false]
        omega
    · cases hr

theorem total_init : ∀ (keys : List Nat),
    total (keys.map (fun k => (⟨k, false, .start, .idle⟩ : Tun))) = 10 * keys.length
  | [] => rfl
  | k :: r => by
    simp only [List.map_cons, total, total_init r, List.length_cons, Tun.rank, GPc.rank, UPc.rank,
      Bool.false_eq_true, if_false]
    omega

theorem rankAt_init (keys : List Nat) (t : Nat) : rankAt (init keys) t ≤ 10 := by
  simp only [rankAt, init, List.getElem?_map]
  cases keys[t]? with
  | none => simp
  | some k => simp [Tun.rank, GPc.rank, UPc.rank]

/-- **5c.** Termination: `remaining` (the number of actions the tunnels can still perform)
    decreases with every action, so a schedule has at most `10 * n` actions … -/
theorem schedule_bounded {gd sg : Bool} (keys : List Nat) (as : List Act) {s : St}
    (hr : run gd sg (init keys) as = some s) : as.length + remaining s ≤ 10 * keys.length := by
  have := run_remaining as hr
  rw [show remaining (init keys) = 10 * keys.length from total_init keys] at this
  exact this

/-- … and every tunnel contributes at most 10 of them (in all variants of the model; the
    correct model uses 9: `G` 5, `close`, `U` 3). -/
theorem tunnel_bounded {gd sg : Bool} (keys : List Nat) (as : List Act) {s : St}
    (hr : run gd sg (init keys) as = some s) (t : Nat) :
    (as.filter (fun a => a.tun == t)).length ≤ 10 := by
  have := run_rankAt t as hr
  have := rankAt_init keys t
  omega

/-- a run that has used up `remaining` has come to an end: every goroutine has returned -/
theorem remaining_zero_over {s : St} (h : remaining s = 0) : ∀ x ∈ s.tuns, x.rank = 0 := by
  unfold remaining at h
  generalize s.tuns = l at h
  induction l with
  | nil => intro x hx; cases hx
  | cons y r ih =>
    simp only [total] at h
    intro x hx
    rcases List.mem_cons.mp hx with rfl | hx
    · omega
    · exact ih (by omega) x hx


/-! ### 6. Counter-examples: the two faulty variants, and the correct model on the same schedules -/

/-- what the examples look at: strictly resting?, everything over?, who is open, global pool,
    the map, the pool heap -/
structure Obs where
  resting : Bool
  over : Bool
  isOpen : List Bool
  global : List (Nat × Nat)
  byKey : List (Nat × Nat)
  pools : List (List Nat)
  deriving DecidableEq, Repr

def obs (s : St) : Obs :=
  ⟨resting true s, allOver s, s.tuns.map Tun.isOpen, s.global, s.byKey, s.pools⟩

/-- the double-checked schedule: both tunnels (same key 7) peek before either creates -/
def doubleChecked : List Act :=
  [.addGlobal 0, .addGlobal 1, .peekPool 0, .peekPool 1, .createPool 0, .createPool 1, .addKey 0, .addKey 1]

/-- **`reverseChannelsForKey` must be ONE critical section.**  With the faulty double-checked
    lookup both tunnels create a pool; the second overwrites the map entry.  The run ends in a
    (strictly) resting state, both tunnels open and parked, both in the global pool — but the
    pool registered under their key 7 (pool 1) contains only tunnel 1; tunnel 0 sits in the
    orphaned pool 0, unreachable through `reverseByKey`, for as long as it lives. -/
theorem faulty_double_checked_orphans_a_pool :
    (run false false (init [7, 7]) doubleChecked).map (fun s => (obs s, keyPool s 7)) =
      some ((⟨true, false, [true, true], [(0, 7), (1, 7)], [(7, 1), (7, 0)], [[0], [1]]⟩ : Obs), [1]) := by
  decide

/-- … so theorem 2 fails for the faulty variant: a reachable resting state that is not exact -/
theorem faulty_double_checked_not_exact :
    ∃ s x, run false false (init [7, 7]) doubleChecked = some s ∧ resting true s = true ∧
      s.tuns[0]? = some x ∧ ¬ ExactAt s 0 x := by
  refine ⟨_, _, rfl, by decide, rfl, fun h => ?_⟩
  have := h.keyPool_iff.mpr (by decide)
  revert this
  decide

/-- … and so does `one_pool_per_key`: same key, different pools -/
theorem faulty_double_checked_two_pools :
    (run false false (init [7, 7]) doubleChecked).map (fun s => s.tuns.map (fun x => (x.key, x.g))) =
      some [(7, .addedKey 0), (7, .addedKey 1)] := by
  decide

/-- the correct model on the analogous schedule (`getPool` for `peekPool`; the guarded model
    refuses `peekPool`/`createPool`): one pool, both tunnels in it -/
theorem guarded_same_schedule_exact :
    (run true false (init [7, 7])
        [.addGlobal 0, .addGlobal 1, .getPool 0, .getPool 1, .addKey 0, .addKey 1]).map
        (fun s => (obs s, keyPool s 7)) =
      some ((⟨true, false, [true, true], [(0, 7), (1, 7)], [(7, 0)], [[0, 1]]⟩ : Obs), [0, 1]) := by
  decide

example : run true false (init [7, 7]) [.addGlobal 0, .peekPool 0] = none := by decide
example : run true false (init [7, 7]) doubleChecked = none := by decide

/-- the channel closes between (1) `s.reverse.add` and (3) `rc.add`; `unregister` runs to its
    end in between (here it even finds no pool yet) -/
def closedInBetween (finish : List Act) : List Act :=
  [.addGlobal 0, .close 0, .uRemGlobal 0, .uLookup 0, .getPool 0, .addKey 0] ++ finish

/-- **The two deferred removes cannot be replaced by one `unregister`.**  `U` removes the
    tunnel from the global pool and finds it in no key pool; `G` then adds it to the key pool;
    the single deferred `unregister` finds nothing in the global pool and returns.  Everything
    is over (channel closed, both goroutines returned) and the dead tunnel is still in the pool
    of its key — for ever, and `reverseChannels.pick` would hand it out. -/
theorem faulty_single_unregister_leaves_entry :
    (run true true (init [7]) (closedInBetween [.sRemGlobal 0])).map (fun s => (obs s, keyPool s 7)) =
      some ((⟨true, true, [false], [], [(7, 0)], [[0]]⟩ : Obs), [0]) := by
  decide

/-- the same when the pool already exists and `unregister` does look into it (too early) -/
theorem faulty_single_unregister_leaves_entry' :
    (run true true (init [7])
        [.addGlobal 0, .getPool 0, .close 0, .uRemGlobal 0, .uLookup 0, .uRemKey 0, .addKey 0,
         .sRemGlobal 0]).map (fun s => (obs s, keyPool s 7)) =
      some ((⟨true, true, [false], [], [(7, 0)], [[0]]⟩ : Obs), [0]) := by
  decide

/-- … so `nothing_left_behind` fails for that variant -/
theorem faulty_single_unregister_not_empty :
    ∃ s, run true true (init [7]) (closedInBetween [.sRemGlobal 0]) = some s ∧ allOver s = true ∧
      ¬ (∀ l ∈ s.pools, l = []) := by
  refine ⟨_, rfl, by decide, ?_⟩
  decide

/-- the correct model on the same schedule: the two deferred removes empty both pools -/
theorem two_removes_same_schedule_empty :
    (run true false (init [7]) (closedInBetween [.remKey 0, .remGlobal 0])).map (fun s => (obs s, keyPool s 7)) =
      some ((⟨true, true, [false], [], [(7, 0)], [[]]⟩ : Obs), []) := by
  decide

example : run true false (init [7]) (closedInBetween [.sRemGlobal 0]) = none := by decide

/-- **"At rest" cannot be dropped from theorem 2.**  In the correct model, after the schedule
    above and before `G` has run its deferred removes, the closed tunnel is in the pool of its
    key and not in the global pool: the two levels disagree.  `G` is not at rest there (parked
    but closed); its next two actions repair it (`two_removes_same_schedule_empty`). -/
theorem transient_inexact :
    (run true false (init [7]) (closedInBetween [])).map (fun s => (obs s, globalIds s, keyPool s 7)) =
      some ((⟨false, false, [false], [], [(7, 0)], [[0]]⟩ : Obs), [], [0]) := by
  decide

/-! ### 7. Non-vacuity -/

/-- three tunnels, 0 and 1 share key 7, tunnel 2 (key 9) is dead on arrival (closed and
    unregistered before `G 2` starts), tunnel 1 is closed while parked (its `unregister` and its
    deferred removes interleave), tunnel 0 stays open -/
def threeTunnels : List Act :=
  [.close 2, .addGlobal 0, .uRemGlobal 2, .addGlobal 1, .addGlobal 2, .getPool 1, .getPool 2, .getPool 0,
   .addKey 2, .addKey 1, .addKey 0, .remKey 2, .close 1, .uRemGlobal 1, .remGlobal 2, .uLookup 1, .remKey 1,
   .uRemKey 1, .remGlobal 1]

example :
    (run true false (init [7, 7, 9]) threeTunnels).map (fun s => (obs s, keyPool s 7, keyPool s 9)) =
      some ((⟨true, false, [true, false, false], [(0, 7)], [(9, 1), (7, 0)], [[0], []]⟩ : Obs), [0], []) := by
  decide

/-- the hypotheses of theorem 2 are satisfiable, and its conclusion says something there -/
example : ∃ s, run true false (init [7, 7, 9]) threeTunnels = some s ∧ resting true s = true ∧
    (0 ∈ globalIds s ∧ 0 ∈ keyPool s 7) ∧ (1 ∉ globalIds s ∧ 1 ∉ keyPool s 7) ∧
    (2 ∉ globalIds s ∧ 2 ∉ keyPool s 9) := by
  refine ⟨_, rfl, ?_, ?_, ?_, ?_⟩ <;> decide

/-- while all three are open: everybody registered, the two pools hold `[1, 0]` and `[2]` -/
example :
    (run true false (init [7, 7, 9])
        [.addGlobal 0, .addGlobal 1, .addGlobal 2, .getPool 1, .getPool 2, .getPool 0,
         .addKey 2, .addKey 1, .addKey 0]).map (fun s => (obs s, keyPool s 7, keyPool s 9)) =
      some ((⟨true, false, [true, true, true], [(0, 7), (1, 7), (2, 9)], [(9, 1), (7, 0)], [[1, 0], [2]]⟩ : Obs),
            [1, 0], [2]) := by
  decide

/-- a full life of three tunnels: 25 actions (9 + 9 + 7: the `unregister` of the dead-on-arrival
    tunnel returns at once), everything empty at the end, nothing remains to be done -/
example :
    (run true false (init [7, 7, 9])
        (threeTunnels ++ [.close 0, .remKey 0, .uRemGlobal 0, .remGlobal 0, .uLookup 0, .uRemKey 0])).map
        (fun s => (obs s, remaining s)) =
      some ((⟨true, true, [false, false, false], [], [(9, 1), (7, 0)], [[], []]⟩ : Obs), 0) := by
  decide

/-- nobody can leave the parked state while the channel is open; nothing happens twice -/
example : run true false (init [7]) [.addGlobal 0, .getPool 0, .addKey 0, .remKey 0] = none := by decide
example : run true false (init [7]) [.close 0, .close 0] = none := by decide
example : run true false (init [7]) [.uRemGlobal 0] = none := by decide

end Proofs.RegAtomic

/-
  `#print axioms` (Lean 4.33.0, `lake env lean` on a file importing this module):

  'Proofs.RegAtomic.inv_reachable' depends on axioms: [propext, Classical.choice, Quot.sound]
  'Proofs.RegAtomic.byKey_stable' depends on axioms: [propext]
  'Proofs.RegAtomic.registry_exact_at_rest' depends on axioms: [propext, Classical.choice, Quot.sound]
  'Proofs.RegAtomic.registry_exact_tunnel' depends on axioms: [propext, Classical.choice, Quot.sound]
  'Proofs.RegAtomic.registry_only_tunnels' depends on axioms: [propext, Classical.choice, Quot.sound]
  'Proofs.RegAtomic.nothing_left_behind' depends on axioms: [propext, Classical.choice, Quot.sound]
  'Proofs.RegAtomic.one_pool_per_key' depends on axioms: [propext, Classical.choice, Quot.sound]
  'Proofs.RegAtomic.progress_tunnel' depends on axioms: [propext, Classical.choice, Quot.sound]
  'Proofs.RegAtomic.progress' depends on axioms: [propext, Classical.choice, Quot.sound]
  'Proofs.RegAtomic.progress'' depends on axioms: [propext, Classical.choice, Quot.sound]
  'Proofs.RegAtomic.schedule_bounded' depends on axioms: [propext, Quot.sound]
  'Proofs.RegAtomic.tunnel_bounded' depends on axioms: [propext, Classical.choice, Quot.sound]
  'Proofs.RegAtomic.faulty_double_checked_orphans_a_pool' depends on axioms: [propext]
  'Proofs.RegAtomic.faulty_double_checked_not_exact' depends on axioms: [propext, Quot.sound]
  'Proofs.RegAtomic.faulty_single_unregister_leaves_entry' depends on axioms: [propext]
  'Proofs.RegAtomic.faulty_single_unregister_not_empty' depends on axioms: [propext]
  'Proofs.RegAtomic.guarded_same_schedule_exact' depends on axioms: [propext]
  'Proofs.RegAtomic.two_removes_same_schedule_empty' depends on axioms: [propext]
  'Proofs.RegAtomic.transient_inexact' depends on axioms: [propext]
-/
