import TunnelModel.Lifecycle
/-!
  C12 (reverse-tunnel registry: exactness and round robin) and C10 (reverse
  server state machine) for the models `TunnelModel.RoundRobin` (`Pool`,
  = `reverseChannels` of handler.go) and `TunnelModel.Lifecycle` (`Registry`,
  `RServer`).

  Nothing had to be weakened: there is no `_partial` theorem in this file.  The
  definitions behave as described (`setPool k p` replaces the FIRST entry for
  `k` or appends one, `poolOf` = `List.lookup` reads the FIRST entry for `k`, so
  `poolOf k (setPool k p l) = some p` and other keys are untouched;
  `removeFirst t` removes the first entry with tunnel id `t`, which equals
  `filter (·.1 ≠ t)` exactly when tunnel ids are unique).

  ## Part 1 — one pool
  * `pick_empty`, `picks_empty`: picking from an empty pool returns `none`;
  * `pick_chans`, `pick_latch`, `picks_chans`, `picks_latch`: picks change only the cursor;
  * `picks_full`: from ANY cursor, `n = chans.length > 0` picks return the rotation
    `drop q ++ take q` of the list, `q = nextPos p` the (wrapped) next position;
  * `round_robin_perm`: hence a permutation of the registered tunnels.

  ## Part 2 — the registry
  * `RInv r os`: `r` represents the open set `os` (global pool = `os`, a key's
    pool = `os.filter (·.2 = k)` or absent and then no tunnel has that key,
    latches closed iff non-empty, tunnel ids unique);
  * `RInv.init`, `RInv.open` (fresh id), `RInv.close` (any id), `RInv.pickAll`,
    `RInv.pickKey`: initialisation and preservation;
  * `RInv.all_eq`, `RInv.pickAll_sound`, `RInv.pickKey_sound`,
    `RInv.pickAll_none_iff`, `RInv.pickKey_none_iff`, `RInv.readyAll_iff`,
    `RInv.readyKey_iff`, `RInv.waitBlocksAll_iff`, `RInv.waitBlocksKey_iff`:
    what the API observes;
  * `C12_exact`: `RInv (runReg ops) (runSpec ops)` for every legal run (every
    `open` uses a tunnel id never opened before), with corollaries `C12_all`,
    `C12_pickAll_routed`, `C12_pickKey_routed`;
  * `round_robin_key`, `round_robin_all`: round robin through the registry.

  The legality hypothesis (tunnel ids are not reused while/after being open) is
  necessary: see `illegal_run_not_exact` at the end of Part 2 — opening the same
  id twice under two keys and closing it once leaves it registered.

  ## Part 3 — `RServer`
  * `serve_refused`, `serve_refused_result`, `serve_true_iff`;
  * `RState.rank`, `rank_step`, `C10_rank_mono`: the state only moves forward
    `active → closing → closed`; `C10_serve_refused_forever`, `C10_isClosing_sticky`;
  * `gracefulStop_after_stop`, `gracefulStop_of_not_active`, `stop_after_gracefulStop`,
    `isClosing_stop`, `isClosing_gracefulStop`.
-/
namespace Proofs.Registry
open TunnelModel.RoundRobin TunnelModel.Lifecycle

/-! ## Part 1: round robin on a single pool -/

/-- the position the next pick will use -/
def nextPos (p : Pool) : Nat := if p.idx + 1 ≥ p.chans.length then 0 else p.idx + 1

theorem nextPos_lt (p : Pool) (hn : 0 < p.chans.length) : nextPos p < p.chans.length := by
  unfold nextPos; split <;> omega

theorem pick_empty (p : Pool) (h : p.chans = []) : p.pick = (p, none) := by
  simp [Pool.pick, h]

theorem pick_nonempty (p : Pool) (hn : 0 < p.chans.length) :
    p.pick = ({ p with idx := nextPos p },
      some (p.chans[nextPos p]'(nextPos_lt p hn)).1) := by
  have hlt := nextPos_lt p hn
  have h0 : ¬ p.chans.length = 0 := by omega
  simp only [Pool.pick, h0, if_false]
  show ({ p with idx := nextPos p }, (p.chans[nextPos p]?).map (·.1)) = _
  rw [List.getElem?_eq_getElem hlt]; rfl

theorem pick_chans (p : Pool) : p.pick.1.chans = p.chans := by
  unfold Pool.pick; split <;> rfl

theorem pick_latch (p : Pool) : p.pick.1.latchClosed = p.latchClosed := by
  unfold Pool.pick; split <;> rfl

theorem picks_zero (p : Pool) : p.picks 0 = (p, []) := rfl

theorem picks_succ (p : Pool) (n : Nat) :
    p.picks (n + 1) = ((p.pick.1.picks n).1, p.pick.2 :: (p.pick.1.picks n).2) := rfl

theorem picks_chans (p : Pool) (k : Nat) : (p.picks k).1.chans = p.chans := by
  induction k generalizing p with
  | zero => rfl
  | succ k ih => rw [picks_succ]; simp only [ih, pick_chans]

theorem picks_latch (p : Pool) (k : Nat) : (p.picks k).1.latchClosed = p.latchClosed := by
  induction k generalizing p with
  | zero => rfl
  | succ k ih => rw [picks_succ]; simp only [ih, pick_latch]

theorem picks_length (p : Pool) (k : Nat) : (p.picks k).2.length = k := by
  induction k generalizing p with
  | zero => rfl
  | succ k ih => rw [picks_succ]; simp [ih]

theorem picks_add (p : Pool) (a b : Nat) :
    p.picks (a + b) = (((p.picks a).1.picks b).1, (p.picks a).2 ++ ((p.picks a).1.picks b).2) := by
  induction a generalizing p with
  | zero => simp [picks_zero]
  | succ a ih =>
    have : a + 1 + b = (a + b) + 1 := by omega
    rw [this, picks_succ, ih, picks_succ]; simp

theorem picks_empty (p : Pool) (h : p.chans = []) (k : Nat) :
    p.picks k = (p, List.replicate k none) := by
  induction k with
  | zero => rfl
  | succ k ih => rw [picks_succ, pick_empty p h]; simp [ih, List.replicate_succ]

theorem nextPos_wrap (p : Pool) (h : p.idx + 1 ≥ p.chans.length) : nextPos p = 0 := by
  unfold nextPos; split <;> omega

theorem nextPos_setIdx (p : Pool) (q : Nat) (h : q + 1 < p.chans.length) :
    nextPos { p with idx := q } = q + 1 := by
  simp only [nextPos]; split <;> omega

theorem nextPos_setIdx_wrap (p : Pool) (q : Nat) (h : q + 1 ≥ p.chans.length) :
    nextPos { p with idx := q } = 0 := by
  simp only [nextPos]; split <;> omega

theorem take_succ_drop {α : Type} (l : List α) (q k : Nat) (hq : q < l.length) :
    (l.drop q).take (k + 1) = l[q] :: (l.drop (q + 1)).take k := by
  rw [List.drop_eq_getElem_cons hq, List.take_succ_cons]

/-- `k` picks that do not run off the end return the next `k` list positions -/
theorem picks_nowrap (k : Nat) : ∀ (p : Pool), 0 < p.chans.length →
    nextPos p + k ≤ p.chans.length →
    (p.picks k).2 = ((p.chans.drop (nextPos p)).take k).map (fun e => some e.1)
    ∧ (0 < k → (p.picks k).1.idx = nextPos p + k - 1) := by
  induction k with
  | zero => intro p _ _; simp [picks_zero]
  | succ k ih =>
    intro p hn hk
    have hq := nextPos_lt p hn
    rw [picks_succ, pick_nonempty p hn, take_succ_drop _ _ _ hq, List.map_cons]
    by_cases hk0 : k = 0
    · subst hk0
      refine ⟨by simp [picks_zero], fun _ => ?_⟩
      show nextPos p = nextPos p + (0 + 1) - 1
      omega
    · have hnp : nextPos { p with idx := nextPos p } = nextPos p + 1 :=
        nextPos_setIdx p _ (by omega)
      have := ih { p with idx := nextPos p } hn
        (by show nextPos _ + k ≤ p.chans.length; rw [hnp]; omega)
      rw [hnp] at this
      obtain ⟨h1, h2⟩ := this
      constructor
      · show _ :: (({ p with idx := nextPos p } : Pool).picks k).2 = _
        rw [h1]
      · intro _
        show (({ p with idx := nextPos p } : Pool).picks k).1.idx = _
        rw [h2 (by omega)]; omega

theorem rotate_perm {α : Type} (l : List α) (q : Nat) : (l.drop q ++ l.take q).Perm l := by
  have h : (l.take q ++ l.drop q).Perm l := by rw [List.take_append_drop]
  exact List.perm_append_comm.trans h

/-- `n` picks starting anywhere return the rotation of the list that starts at
    the next position -/
theorem picks_full (p : Pool) (hn : 0 < p.chans.length) :
    (p.picks p.chans.length).2 =
      (p.chans.drop (nextPos p) ++ p.chans.take (nextPos p)).map (fun e => some e.1) := by
  have hq := nextPos_lt p hn
  have hadd := picks_add p (p.chans.length - nextPos p) (nextPos p)
  rw [show p.chans.length - nextPos p + nextPos p = p.chans.length by omega] at hadd
  rw [hadd]
  obtain ⟨h1, h2⟩ := picks_nowrap (p.chans.length - nextPos p) p hn (by omega)
  have hidx := h2 (by omega)
  have htake : (p.chans.drop (nextPos p)).take (p.chans.length - nextPos p)
      = p.chans.drop (nextPos p) := by
    apply List.take_of_length_le; simp
  rw [htake] at h1
  -- second phase
  have hc1 : (p.picks (p.chans.length - nextPos p)).1.chans = p.chans := picks_chans _ _
  have hn1 : 0 < (p.picks (p.chans.length - nextPos p)).1.chans.length := by rw [hc1]; exact hn
  have hnp1 : nextPos (p.picks (p.chans.length - nextPos p)).1 = 0 := by
    apply nextPos_wrap; rw [hc1, hidx]; omega
  obtain ⟨h3, _⟩ := picks_nowrap (nextPos p) _ hn1 (by rw [hnp1, hc1]; omega)
  show (p.picks (p.chans.length - nextPos p)).2 ++ _ = _
  rw [h1, h3, hnp1, hc1, List.drop_zero, List.map_append]

/-- **C12 (round robin).** `n` consecutive picks on a pool of `n > 0` members,
    from ANY cursor value, use every registered tunnel exactly once. -/
theorem round_robin_perm (p : Pool) (hn : 0 < p.chans.length) :
    ((p.picks p.chans.length).2).Perm (p.chans.map (fun e => some e.1)) := by
  rw [picks_full p hn]
  exact (rotate_perm p.chans (nextPos p)).map _

theorem pick_none_iff (p : Pool) : p.pick.2 = none ↔ p.chans = [] := by
  constructor
  · intro h
    cases hc : p.chans with
    | nil => rfl
    | cons a l =>
      have hn : 0 < p.chans.length := by rw [hc]; simp
      rw [pick_nonempty p hn] at h; cases h
  · intro h; rw [pick_empty p h]

theorem pick_some_mem (p : Pool) (t : Nat) (h : p.pick.2 = some t) :
    ∃ e ∈ p.chans, e.1 = t := by
  cases hc : p.chans with
  | nil => rw [pick_empty p hc] at h; cases h
  | cons a l =>
    have hn : 0 < p.chans.length := by rw [hc]; simp
    rw [pick_nonempty p hn] at h
    refine ⟨p.chans[nextPos p]'(nextPos_lt p hn), ?_, ?_⟩
    · rw [← hc]; exact List.getElem_mem _
    · exact Option.some.inj h

/-! ## Part 2: exactness of the two-level registry -/

/-- the open tunnels with key `k`, in opening order -/
abbrev keyed (os : OpenSet) (k : Nat) : OpenSet := os.filter (fun e => decide (e.2 = k))

/-- the specification of `close` -/
abbrev closed (os : OpenSet) (t : Nat) : OpenSet := os.filter (fun e => decide (e.1 ≠ t))

theorem mem_keyed {os : OpenSet} {k : Nat} {e : Nat × Nat} :
    e ∈ keyed os k ↔ e ∈ os ∧ e.2 = k := by
  simp [keyed]

theorem mem_closed {os : OpenSet} {t : Nat} {e : Nat × Nat} :
    e ∈ closed os t ↔ e ∈ os ∧ e.1 ≠ t := by
  simp [closed]

theorem keyed_eq_nil_iff {os : OpenSet} {k : Nat} : keyed os k = [] ↔ ∀ e ∈ os, e.2 ≠ k := by
  simp [keyed, List.filter_eq_nil_iff]

theorem keyed_append (os os' : OpenSet) (k : Nat) :
    keyed (os ++ os') k = keyed os k ++ keyed os' k := List.filter_append ..

theorem keyed_closed_comm (os : OpenSet) (t k : Nat) :
    closed (keyed os k) t = keyed (closed os t) k := by
  simp only [keyed, closed, List.filter_filter]
  apply List.filter_congr; intro e _; exact Bool.and_comm ..

theorem closed_eq_self {os : OpenSet} {t : Nat} (h : ∀ e ∈ os, e.1 ≠ t) : closed os t = os := by
  apply List.filter_eq_self.mpr; intro e he; simp [h e he]

theorem nodup_keyed {os : OpenSet} (h : (os.map (·.1)).Nodup) (k : Nat) :
    ((keyed os k).map (·.1)).Nodup :=
  h.sublist (List.Sublist.map _ List.filter_sublist)

theorem nodup_closed {os : OpenSet} (h : (os.map (·.1)).Nodup) (t : Nat) :
    ((closed os t).map (·.1)).Nodup :=
  h.sublist (List.Sublist.map _ List.filter_sublist)

theorem nodup_fst_unique {l : List (Nat × Nat)} (h : (l.map (·.1)).Nodup) {a b c : Nat}
    (hb : (a, b) ∈ l) (hc : (a, c) ∈ l) : b = c := by
  induction l with
  | nil => cases hb
  | cons x l ih =>
    rw [List.map_cons, List.nodup_cons] at h
    obtain ⟨hx, hl⟩ := h
    rcases List.mem_cons.mp hb with hb | hb <;> rcases List.mem_cons.mp hc with hc | hc
    · rw [← hb] at hc; exact (Prod.mk.inj hc).2.symm
    · exfalso; apply hx; rw [← hb]; exact List.mem_map.mpr ⟨_, hc, rfl⟩
    · exfalso; apply hx; rw [← hc]; exact List.mem_map.mpr ⟨_, hb, rfl⟩
    · exact ih hl hb hc

/-! ### `removeFirst` -/

theorem removeFirst_none_iff (t : Nat) (l : List (Nat × Nat)) :
    removeFirst t l = none ↔ ∀ e ∈ l, e.1 ≠ t := by
  induction l with
  | nil => simp [removeFirst]
  | cons a l ih =>
    obtain ⟨t', k⟩ := a
    by_cases h : t' = t
    · simp [removeFirst, h]
    · cases hr : removeFirst t l with
      | none =>
        have := ih.mp hr
        simp only [removeFirst, h, if_false, hr, true_iff]
        intro e he
        rcases List.mem_cons.mp he with he | he
        · rw [he]; exact h
        · exact this e he
      | some x =>
        have hne : ¬ ∀ e ∈ l, e.1 ≠ t := fun hall => by
          rw [ih.mpr hall] at hr; cases hr
        simp only [removeFirst, h, if_false, hr, reduceCtorEq, false_iff]
        intro hall; apply hne; intro e he; exact hall e (List.mem_cons_of_mem _ he)

theorem removeFirst_some (t : Nat) (l : List (Nat × Nat)) : ∀ (k : Nat) (rest : List (Nat × Nat)),
    removeFirst t l = some (k, rest) →
    (t, k) ∈ l ∧ ((l.map (·.1)).Nodup → rest = closed l t) := by
  induction l with
  | nil => intro k rest h; cases h
  | cons a l ih =>
    obtain ⟨t', k'⟩ := a
    intro k rest h
    by_cases ht : t' = t
    · subst ht
      simp only [removeFirst, if_true] at h
      obtain ⟨rfl, rfl⟩ := Prod.mk.inj (Option.some.inj h)
      refine ⟨List.mem_cons_self, fun hnd => ?_⟩
      rw [List.map_cons, List.nodup_cons] at hnd
      have hall : ∀ e ∈ l, e.1 ≠ t' := fun e he heq =>
        hnd.1 (List.mem_map.mpr ⟨e, he, heq⟩)
      show l = List.filter _ ((t', k') :: l)
      rw [List.filter_cons_of_neg (by simp)]
      exact (closed_eq_self hall).symm
    · simp only [removeFirst, ht, if_false] at h
      cases hr : removeFirst t l with
      | none => rw [hr] at h; cases h
      | some x =>
        obtain ⟨k'', rest'⟩ := x
        rw [hr] at h
        obtain ⟨rfl, rfl⟩ := Prod.mk.inj (Option.some.inj h)
        obtain ⟨hm, hrest⟩ := ih _ _ hr
        refine ⟨List.mem_cons_of_mem _ hm, fun hnd => ?_⟩
        rw [List.map_cons, List.nodup_cons] at hnd
        show (t', k') :: rest' = List.filter _ ((t', k') :: l)
        rw [List.filter_cons_of_pos (by simp [ht]), hrest hnd.2]

/-! ### a pool that represents a list exactly -/

/-- `p` holds exactly `l` (in order) and its latch is closed iff `l` is non-empty -/
def PoolOK (p : Pool) (l : List (Nat × Nat)) : Prop :=
  p.chans = l ∧ (p.latchClosed = true ↔ l ≠ [])

theorem PoolOK.empty : PoolOK Pool.empty [] := ⟨rfl, by simp [Pool.empty]⟩

theorem PoolOK.add {p : Pool} {l : List (Nat × Nat)} (h : PoolOK p l) (t k : Nat) :
    PoolOK (p.add t k) (l ++ [(t, k)]) := by
  obtain ⟨hc, hl⟩ := h
  refine ⟨by simp [Pool.add, hc], ?_⟩
  have hne : l ++ [(t, k)] ≠ [] := by simp
  simp only [hne, ne_eq, not_false_eq_true, iff_true]
  show (if (p.chans ++ [(t, k)]).length = 1 then true else p.latchClosed) = true
  split
  · rfl
  · rename_i hlen
    apply hl.mpr; intro hnil; apply hlen; simp [hc, hnil]

theorem remove_of_none {p : Pool} {t : Nat} (h : removeFirst t p.chans = none) :
    p.remove t = (p, none) := by
  simp only [Pool.remove, h]

theorem remove_of_some {p : Pool} {t k : Nat} {rest : List (Nat × Nat)}
    (h : removeFirst t p.chans = some (k, rest)) :
    p.remove t = ({ p with chans := rest,
                           latchClosed := if rest.length = 0 then false else p.latchClosed },
                  some k) := by
  simp only [Pool.remove, h]

theorem PoolOK.remove {p : Pool} {l : List (Nat × Nat)} (h : PoolOK p l)
    (hnd : (l.map (·.1)).Nodup) (t : Nat) : PoolOK (p.remove t).1 (closed l t) := by
  obtain ⟨hc, hl⟩ := h
  cases hr : removeFirst t p.chans with
  | none =>
    rw [remove_of_none hr]
    have := (removeFirst_none_iff t p.chans).mp hr
    rw [hc] at this
    rw [closed_eq_self this]; exact ⟨hc, hl⟩
  | some x =>
    obtain ⟨k, rest⟩ := x
    rw [remove_of_some hr]
    obtain ⟨hm, hrest⟩ := removeFirst_some t p.chans k rest hr
    rw [hc] at hm hrest
    have hrest := hrest hnd
    refine ⟨hrest, ?_⟩
    show (if rest.length = 0 then false else p.latchClosed) = true ↔ _
    rw [← hrest]
    have hlt : p.latchClosed = true := hl.mpr (List.ne_nil_of_mem hm)
    cases rest with
    | nil => simp
    | cons a rest => simp [hlt]

theorem PoolOK.pick {p : Pool} {l : List (Nat × Nat)} (h : PoolOK p l) : PoolOK p.pick.1 l := by
  unfold PoolOK; rw [pick_chans, pick_latch]; exact h

theorem PoolOK.picks {p : Pool} {l : List (Nat × Nat)} (h : PoolOK p l) (n : Nat) :
    PoolOK (p.picks n).1 l := by
  unfold PoolOK; rw [picks_chans, picks_latch]; exact h

/-! ### `setPool` / `poolOf` -/

theorem lookup_setPool_self (k : Nat) (p : Pool) (l : List (Nat × Pool)) :
    (setPool k p l).lookup k = some p := by
  induction l with
  | nil => simp [setPool]
  | cons a l ih =>
    obtain ⟨k', p'⟩ := a
    by_cases h : k' = k
    · simp [setPool, h]
    · have h' : (k == k') = false := by simp; exact fun e => h e.symm
      simp only [setPool, h, if_false, List.lookup, h', ih]

theorem lookup_setPool_ne {k k' : Nat} (hk : k' ≠ k) (p : Pool) (l : List (Nat × Pool)) :
    (setPool k p l).lookup k' = l.lookup k' := by
  induction l with
  | nil =>
    have h' : (k' == k) = false := by simp [hk]
    simp [setPool, List.lookup, h']
  | cons a l ih =>
    obtain ⟨k'', p''⟩ := a
    by_cases h : k'' = k
    · subst h
      have h' : (k' == k'') = false := by simp [hk]
      simp [setPool, List.lookup, h']
    · simp only [setPool, h, if_false, List.lookup, ih]

/-! ### the representation invariant -/

/-- `r` represents exactly the open set `os` (open tunnels with their keys, in
    opening order) -/
structure RInv (r : Registry) (os : OpenSet) : Prop where
  /-- the global pool is exactly `os`, latch closed iff non-empty -/
  global : PoolOK r.global os
  /-- a key without a pool has no open tunnel -/
  keyNone : ∀ k, r.poolOf k = none → ∀ e ∈ os, e.2 ≠ k
  /-- a key's pool is exactly the open tunnels with that key, latch closed iff non-empty -/
  keySome : ∀ k p, r.poolOf k = some p → PoolOK p (keyed os k)
  /-- tunnel ids are unique -/
  nodup : (os.map (·.1)).Nodup

theorem RInv.init : RInv {} [] where
  global := PoolOK.empty
  keyNone := fun _ _ e he => by cases he
  keySome := fun k p h => by simp [Registry.poolOf] at h
  nodup := List.nodup_nil

theorem poolOf_open (r : Registry) (t k k' : Nat) :
    (r.open t k).poolOf k' =
      (setPool k (((r.poolOf k).getD Pool.empty).add t k) r.byKey).lookup k' := rfl

theorem RInv.keyed_nil_of_none {r : Registry} {os : OpenSet} (h : RInv r os) {k : Nat}
    (hk : r.poolOf k = none) : keyed os k = [] :=
  keyed_eq_nil_iff.mpr (h.keyNone k hk)

/-- every key: its pool (or the empty pool if there is none) represents `keyed os k` -/
theorem RInv.getD_ok {r : Registry} {os : OpenSet} (h : RInv r os) (k : Nat) :
    PoolOK ((r.poolOf k).getD Pool.empty) (keyed os k) := by
  cases hk : r.poolOf k with
  | none => rw [h.keyed_nil_of_none hk]; exact PoolOK.empty
  | some p => exact h.keySome k p hk

/-- **preservation by `open`** (fresh tunnel id) -/
theorem RInv.open {r : Registry} {os : OpenSet} (h : RInv r os) (t k : Nat)
    (hfresh : t ∉ os.map (·.1)) : RInv (r.open t k) (os ++ [(t, k)]) where
  global := h.global.add t k
  keyNone := by
    intro k' hk' e he
    rw [poolOf_open] at hk'
    by_cases hkk : k' = k
    · subst hkk; rw [lookup_setPool_self] at hk'; cases hk'
    · rw [lookup_setPool_ne hkk] at hk'
      rcases List.mem_append.mp he with he | he
      · exact h.keyNone k' hk' e he
      · rw [List.mem_singleton.mp he]; exact fun e => hkk e.symm
  keySome := by
    intro k' p' hk'
    rw [poolOf_open] at hk'
    by_cases hkk : k' = k
    · subst hkk
      rw [lookup_setPool_self] at hk'
      obtain rfl := Option.some.inj hk'
      have : keyed (os ++ [(t, k')]) k' = keyed os k' ++ [(t, k')] := by
        rw [keyed_append]; simp [keyed]
      rw [this]
      exact (h.getD_ok k').add t k'
    · rw [lookup_setPool_ne hkk] at hk'
      have : keyed (os ++ [(t, k)]) k' = keyed os k' := by
        rw [keyed_append]
        have : keyed [(t, k)] k' = [] := by
          simp [keyed]; exact fun e => hkk e.symm
        rw [this, List.append_nil]
      rw [this]
      exact h.keySome k' p' hk'
  nodup := by
    rw [List.map_append, List.map_singleton]
    apply List.nodup_append.mpr
    refine ⟨h.nodup, by simp, ?_⟩
    intro a ha b hb
    rw [List.mem_singleton.mp hb]
    intro (hab : a = t); subst hab; exact hfresh ha

theorem close_of_none {r : Registry} {t : Nat} (h : removeFirst t r.global.chans = none) :
    r.close t = r := by
  simp only [Registry.close, remove_of_none h]

theorem close_of_some {r : Registry} {t k : Nat} {rest : List (Nat × Nat)}
    (h : removeFirst t r.global.chans = some (k, rest)) :
    r.close t = match r.poolOf k with
      | none => { r with global := (r.global.remove t).1 }
      | some p => { global := (r.global.remove t).1,
                    byKey := setPool k (p.remove t).1 r.byKey } := by
  simp only [Registry.close, remove_of_some h]
  cases r.poolOf k <;> rfl

/-- **preservation by `close`** (any tunnel id, open or not) -/
theorem RInv.close {r : Registry} {os : OpenSet} (h : RInv r os) (t : Nat) :
    RInv (r.close t) (closed os t) := by
  have hg := h.global
  cases hr : removeFirst t r.global.chans with
  | none =>
    rw [close_of_none hr]
    have := (removeFirst_none_iff t _).mp hr
    rw [hg.1] at this
    rw [closed_eq_self this]; exact h
  | some x =>
    obtain ⟨k, rest⟩ := x
    rw [close_of_some hr]
    obtain ⟨hm, _⟩ := removeFirst_some t _ k rest hr
    rw [hg.1] at hm
    have hg' : PoolOK (r.global.remove t).1 (closed os t) := hg.remove h.nodup t
    cases hk : r.poolOf k with
    | none => exact absurd rfl (h.keyNone k hk _ hm)
    | some p =>
      show RInv { global := (r.global.remove t).1,
                  byKey := setPool k (p.remove t).1 r.byKey } (closed os t)
      refine ⟨hg', ?_, ?_, nodup_closed h.nodup t⟩
      · intro k' hk' e he
        have hk'' : (setPool k (p.remove t).1 r.byKey).lookup k' = none := hk'
        by_cases hkk : k' = k
        · subst hkk; rw [lookup_setPool_self] at hk''; cases hk''
        · rw [lookup_setPool_ne hkk] at hk''
          exact h.keyNone k' hk'' e (mem_closed.mp he).1
      · intro k' p' hk'
        have hk'' : (setPool k (p.remove t).1 r.byKey).lookup k' = some p' := hk'
        by_cases hkk : k' = k
        · subst hkk
          rw [lookup_setPool_self] at hk''
          obtain rfl := Option.some.inj hk''
          rw [← keyed_closed_comm]
          exact (h.keySome k' p hk).remove (nodup_keyed h.nodup k') t
        · rw [lookup_setPool_ne hkk] at hk''
          have hp := h.keySome k' p' hk''
          have : keyed (closed os t) k' = keyed os k' := by
            rw [← keyed_closed_comm]
            apply closed_eq_self
            intro e he heq
            obtain ⟨he1, he2⟩ := mem_keyed.mp he
            have : (t, e.2) ∈ os := by rw [← heq]; exact he1
            exact hkk ((nodup_fst_unique h.nodup this hm) ▸ he2.symm)
          rw [this]; exact hp

theorem pickAll_eq (r : Registry) :
    r.pickAll = ({ r with global := r.global.pick.1 }, r.global.pick.2) := rfl

theorem pickKey_of_none {r : Registry} {k : Nat} (h : r.poolOf k = none) :
    r.pickKey k = (r, none) := by
  simp only [Registry.pickKey, h]

theorem pickKey_of_some {r : Registry} {k : Nat} {p : Pool} (h : r.poolOf k = some p) :
    r.pickKey k = ({ r with byKey := setPool k p.pick.1 r.byKey }, p.pick.2) := by
  simp only [Registry.pickKey, h]

/-- **preservation by `pickAll`** -/
theorem RInv.pickAll {r : Registry} {os : OpenSet} (h : RInv r os) : RInv r.pickAll.1 os := by
  rw [pickAll_eq]
  exact ⟨h.global.pick, h.keyNone, h.keySome, h.nodup⟩

/-- replacing a key's existing pool by one that represents the same list keeps `RInv` -/
theorem RInv.setPool {r : Registry} {os : OpenSet} (h : RInv r os) {k : Nat} {p p' : Pool}
    (hk : r.poolOf k = some p) (hp' : PoolOK p' (keyed os k)) :
    RInv { r with byKey := setPool k p' r.byKey } os := by
  refine ⟨h.global, ?_, ?_, h.nodup⟩
  · intro k' hk' e he
    have hk'' : (TunnelModel.Lifecycle.setPool k p' r.byKey).lookup k' = none := hk'
    by_cases hkk : k' = k
    · subst hkk; rw [lookup_setPool_self] at hk''; cases hk''
    · rw [lookup_setPool_ne hkk] at hk''
      exact h.keyNone k' hk'' e he
  · intro k' q hk'
    have hk'' : (TunnelModel.Lifecycle.setPool k p' r.byKey).lookup k' = some q := hk'
    by_cases hkk : k' = k
    · subst hkk
      rw [lookup_setPool_self] at hk''
      obtain rfl := Option.some.inj hk''
      exact hp'
    · rw [lookup_setPool_ne hkk] at hk''
      exact h.keySome k' q hk''

/-- **preservation by `pickKey`** -/
theorem RInv.pickKey {r : Registry} {os : OpenSet} (h : RInv r os) (k : Nat) :
    RInv (r.pickKey k).1 os := by
  cases hk : r.poolOf k with
  | none => rw [pickKey_of_none hk]; exact h
  | some p =>
    rw [pickKey_of_some hk]
    exact h.setPool hk (h.keySome k p hk).pick

/-! ### observable consequences of `RInv` -/

/-- `AllReverseTunnels` is exactly the open set, in opening order -/
theorem RInv.all_eq {r : Registry} {os : OpenSet} (h : RInv r os) : r.all = os.map (·.1) := by
  show r.global.chans.map (·.1) = _
  rw [h.global.1]

/-- `AsChannel` routes only to an open tunnel -/
theorem RInv.pickAll_sound {r : Registry} {os : OpenSet} (h : RInv r os) {t : Nat}
    (ht : r.pickAll.2 = some t) : t ∈ os.map (·.1) := by
  rw [pickAll_eq] at ht
  obtain ⟨e, he, het⟩ := pick_some_mem r.global t ht
  rw [h.global.1] at he
  exact List.mem_map.mpr ⟨e, he, het⟩

/-- `AsChannel` fails iff no tunnel is open -/
theorem RInv.pickAll_none_iff {r : Registry} {os : OpenSet} (h : RInv r os) :
    r.pickAll.2 = none ↔ os = [] := by
  rw [pickAll_eq]
  show r.global.pick.2 = none ↔ _
  rw [pick_none_iff, h.global.1]

/-- `KeyAsChannel k` routes only to an open tunnel whose key is `k` -/
theorem RInv.pickKey_sound {r : Registry} {os : OpenSet} (h : RInv r os) {k t : Nat}
    (ht : (r.pickKey k).2 = some t) : (t, k) ∈ os := by
  cases hk : r.poolOf k with
  | none => rw [pickKey_of_none hk] at ht; cases ht
  | some p =>
    rw [pickKey_of_some hk] at ht
    obtain ⟨e, he, het⟩ := pick_some_mem p t ht
    rw [(h.keySome k p hk).1] at he
    obtain ⟨he1, he2⟩ := mem_keyed.mp he
    have : e = (t, k) := Prod.ext het he2
    rw [← this]; exact he1

/-- `KeyAsChannel k` fails iff no tunnel with key `k` is open -/
theorem RInv.pickKey_none_iff {r : Registry} {os : OpenSet} (h : RInv r os) (k : Nat) :
    (r.pickKey k).2 = none ↔ os.filter (·.2 = k) = [] := by
  cases hk : r.poolOf k with
  | none =>
    rw [pickKey_of_none hk]
    exact ⟨fun _ => h.keyed_nil_of_none hk, fun _ => rfl⟩
  | some p =>
    rw [pickKey_of_some hk]
    show p.pick.2 = none ↔ _
    rw [pick_none_iff, (h.keySome k p hk).1]

theorem RInv.readyAll_iff {r : Registry} {os : OpenSet} (h : RInv r os) :
    r.readyAll = true ↔ os ≠ [] := by
  show decide (r.global.chans.length > 0) = true ↔ _
  rw [h.global.1, decide_eq_true_eq]
  exact List.length_pos_iff

theorem RInv.readyKey_iff {r : Registry} {os : OpenSet} (h : RInv r os) (k : Nat) :
    r.readyKey k = true ↔ os.filter (·.2 = k) ≠ [] := by
  unfold Registry.readyKey
  cases hk : r.poolOf k with
  | none =>
    have := h.keyed_nil_of_none hk
    simp only [keyed] at this
    simp [this]
  | some p =>
    show decide (p.chans.length > 0) = true ↔ _
    rw [(h.keySome k p hk).1, decide_eq_true_eq]
    exact List.length_pos_iff

theorem RInv.waitBlocksAll_iff {r : Registry} {os : OpenSet} (h : RInv r os) :
    r.waitBlocksAll = true ↔ os = [] := by
  unfold Registry.waitBlocksAll
  have := h.global.2
  cases hl : r.global.latchClosed with
  | true => rw [hl] at this; simp [this.mp rfl]
  | false =>
    rw [hl] at this
    have : os = [] := Classical.byContradiction fun hne => by
      have := this.mpr hne; cases this
    simp [this]

theorem RInv.waitBlocksKey_iff {r : Registry} {os : OpenSet} (h : RInv r os) (k : Nat) :
    r.waitBlocksKey k = true ↔ os.filter (·.2 = k) = [] := by
  unfold Registry.waitBlocksKey
  cases hk : r.poolOf k with
  | none =>
    have := h.keyed_nil_of_none hk
    simp only [keyed] at this
    simp [this]
  | some p =>
    have := (h.keySome k p hk).2
    show (!p.latchClosed) = true ↔ keyed os k = []
    cases hl : p.latchClosed with
    | true => rw [hl] at this; simp [this.mp rfl]
    | false =>
      rw [hl] at this
      have : keyed os k = [] := Classical.byContradiction fun hne => by
        have := this.mpr hne; cases this
      simp [this]

/-! ### run level -/

inductive ROp where
  | open (t k : Nat)
  | close (t : Nat)
  | pickAll
  | pickKey (k : Nat)
  deriving Repr

def stepReg (r : Registry) : ROp → Registry
  | .open t k => r.open t k
  | .close t => r.close t
  | .pickAll => r.pickAll.1
  | .pickKey k => (r.pickKey k).1

def stepSpec (os : OpenSet) : ROp → OpenSet
  | .open t k => os ++ [(t, k)]
  | .close t => os.filter (·.1 ≠ t)
  | .pickAll => os
  | .pickKey _ => os

/-- the tunnel ids opened by a run, in order -/
def openedIds : List ROp → List Nat
  | [] => []
  | .open t _ :: ops => t :: openedIds ops
  | .close _ :: ops => openedIds ops
  | .pickAll :: ops => openedIds ops
  | .pickKey _ :: ops => openedIds ops

/-- a run is legal when every `open t k` uses a `t` that was never opened before
    in the run (tunnel ids are never reused) -/
def legal (ops : List ROp) : Prop := (openedIds ops).Nodup

instance (ops : List ROp) : Decidable (legal ops) :=
  inferInstanceAs (Decidable (openedIds ops).Nodup)

def runReg (ops : List ROp) : Registry := ops.foldl stepReg {}
def runSpec (ops : List ROp) : OpenSet := ops.foldl stepSpec []

theorem RInv.step {r : Registry} {os : OpenSet} (h : RInv r os) (op : ROp)
    (hfresh : ∀ t k, op = .open t k → t ∉ os.map (·.1)) :
    RInv (stepReg r op) (stepSpec os op) := by
  cases op with
  | «open» t k => exact h.open t k (hfresh t k rfl)
  | close t => exact h.close t
  | pickAll => exact h.pickAll
  | pickKey k => exact h.pickKey k

theorem stepSpec_ids_subset (os : OpenSet) (op : ROp) (seen : List Nat)
    (hs : ∀ t ∈ os.map (·.1), t ∈ seen) :
    ∀ t ∈ (stepSpec os op).map (·.1), t ∈ seen ++ openedIds [op] := by
  intro t ht
  cases op with
  | «open» t' k =>
    simp only [stepSpec, List.map_append, List.map_singleton, List.mem_append,
      List.mem_singleton] at ht
    simp only [openedIds, List.mem_append, List.mem_singleton]
    rcases ht with ht | ht
    · exact Or.inl (hs t ht)
    · exact Or.inr ht
  | close t' =>
    obtain ⟨e, he, rfl⟩ := List.mem_map.mp ht
    simp only [openedIds, List.append_nil]
    exact hs _ (List.mem_map.mpr ⟨e, (mem_closed.mp he).1, rfl⟩)
  | pickAll => simp only [openedIds, List.append_nil]; exact hs t ht
  | pickKey k => simp only [openedIds, List.append_nil]; exact hs t ht

theorem openedIds_cons (op : ROp) (ops : List ROp) :
    openedIds (op :: ops) = openedIds [op] ++ openedIds ops := by
  cases op <;> simp [openedIds]

theorem run_inv (ops : List ROp) : ∀ (r : Registry) (os : OpenSet) (seen : List Nat),
    RInv r os → (∀ t ∈ os.map (·.1), t ∈ seen) → (seen ++ openedIds ops).Nodup →
    RInv (ops.foldl stepReg r) (ops.foldl stepSpec os) := by
  induction ops with
  | nil => intro r os seen h _ _; exact h
  | cons op ops ih =>
    intro r os seen h hs hnd
    rw [openedIds_cons, ← List.append_assoc] at hnd
    simp only [List.foldl_cons]
    apply ih (stepReg r op) (stepSpec os op) (seen ++ openedIds [op])
    · apply h.step
      intro t k hop ht
      subst hop
      have hnd' := (List.nodup_append.mp hnd).1
      simp only [openedIds] at hnd'
      exact (List.nodup_append.mp hnd').2.2 t (hs t ht) t (List.mem_singleton.mpr rfl) rfl
    · exact stepSpec_ids_subset os op seen hs
    · exact hnd

/-- **C12 (exactness).** After every legal run from the empty registry, the
    registry represents exactly the set of currently open tunnels. -/
theorem C12_exact (ops : List ROp) (hl : legal ops) : RInv (runReg ops) (runSpec ops) := by
  apply run_inv ops {} [] [] RInv.init
  · intro t ht; cases ht
  · rw [List.nil_append]; exact hl

/-- run-level corollaries: what the API observes after any legal run -/
theorem C12_all (ops : List ROp) (hl : legal ops) :
    (runReg ops).all = (runSpec ops).map (·.1) := (C12_exact ops hl).all_eq

theorem C12_pickAll_routed (ops : List ROp) (hl : legal ops) (t : Nat)
    (h : (runReg ops).pickAll.2 = some t) : t ∈ (runSpec ops).map (·.1) :=
  (C12_exact ops hl).pickAll_sound h

theorem C12_pickKey_routed (ops : List ROp) (hl : legal ops) (k t : Nat)
    (h : ((runReg ops).pickKey k).2 = some t) : (t, k) ∈ runSpec ops :=
  (C12_exact ops hl).pickKey_sound h

/-! ### round robin at the registry level -/

/-- `n` consecutive `KeyAsChannel k` calls -/
def picksKey (r : Registry) (k : Nat) : Nat → Registry × List (Option Nat)
  | 0 => (r, [])
  | n + 1 =>
    let (r', x) := r.pickKey k
    let (r'', xs) := picksKey r' k n
    (r'', x :: xs)

/-- `n` consecutive `AsChannel` calls -/
def picksAll (r : Registry) : Nat → Registry × List (Option Nat)
  | 0 => (r, [])
  | n + 1 =>
    let (r', x) := r.pickAll
    let (r'', xs) := picksAll r' n
    (r'', x :: xs)

theorem picksKey_succ (r : Registry) (k n : Nat) :
    picksKey r k (n + 1) =
      ((picksKey (r.pickKey k).1 k n).1, (r.pickKey k).2 :: (picksKey (r.pickKey k).1 k n).2) := rfl

theorem picksAll_succ (r : Registry) (n : Nat) :
    picksAll r (n + 1) =
      ((picksAll r.pickAll.1 n).1, r.pickAll.2 :: (picksAll r.pickAll.1 n).2) := rfl

/-- the results of `n` `pickKey k` are those of `n` picks on that key's pool -/
theorem picksKey_eq (k n : Nat) : ∀ (r : Registry) (p : Pool), r.poolOf k = some p →
    (picksKey r k n).2 = (p.picks n).2 ∧ (picksKey r k n).1.poolOf k = some (p.picks n).1 := by
  induction n with
  | zero => intro r p h; exact ⟨rfl, h⟩
  | succ n ih =>
    intro r p h
    rw [picksKey_succ, picks_succ, pickKey_of_some h]
    have hp : ({ r with byKey := setPool k p.pick.1 r.byKey } : Registry).poolOf k
        = some p.pick.1 := lookup_setPool_self ..
    obtain ⟨h1, h2⟩ := ih _ _ hp
    exact ⟨by simp only [h1], h2⟩

theorem picksAll_eq (n : Nat) : ∀ (r : Registry),
    (picksAll r n).2 = (r.global.picks n).2 ∧ (picksAll r n).1.global = (r.global.picks n).1
    ∧ (picksAll r n).1.byKey = r.byKey := by
  induction n with
  | zero => intro r; exact ⟨rfl, rfl, rfl⟩
  | succ n ih =>
    intro r
    rw [picksAll_succ, picks_succ, pickAll_eq]
    obtain ⟨h1, h2, h3⟩ := ih { r with global := r.global.pick.1 }
    exact ⟨by simp only [h1], h2, h3⟩

theorem RInv.picksKey {r : Registry} {os : OpenSet} (h : RInv r os) (k n : Nat) :
    RInv (picksKey r k n).1 os := by
  induction n generalizing r with
  | zero => exact h
  | succ n ih => rw [picksKey_succ]; exact ih (h.pickKey k)

theorem RInv.picksAll {r : Registry} {os : OpenSet} (h : RInv r os) (n : Nat) :
    RInv (picksAll r n).1 os := by
  induction n generalizing r with
  | zero => exact h
  | succ n ih => rw [picksAll_succ]; exact ih h.pickAll

/-- **C12 (round robin, per key).** With `n > 0` open tunnels of key `k`, `n`
    consecutive `KeyAsChannel k` calls use each of them exactly once (whatever
    the cursor is). -/
theorem round_robin_key {r : Registry} {os : OpenSet} (h : RInv r os) (k : Nat)
    (hn : 0 < (os.filter (·.2 = k)).length) :
    ((picksKey r k (os.filter (·.2 = k)).length).2).Perm
      ((os.filter (·.2 = k)).map (fun e => some e.1)) := by
  cases hk : r.poolOf k with
  | none =>
    have := h.keyed_nil_of_none hk
    simp only [keyed] at this
    rw [this] at hn; cases hn
  | some p =>
    have hc := (h.keySome k p hk).1
    simp only [keyed] at hc
    rw [(picksKey_eq k _ r p hk).1, ← hc]
    exact round_robin_perm p (by rw [hc]; exact hn)

/-- **C12 (round robin, global).** With `n > 0` open tunnels, `n` consecutive
    `AsChannel` calls use each of them exactly once. -/
theorem round_robin_all {r : Registry} {os : OpenSet} (h : RInv r os) (hn : 0 < os.length) :
    ((picksAll r os.length).2).Perm (os.map (fun e => some e.1)) := by
  have hc := h.global.1
  rw [(picksAll_eq _ r).1, ← hc]
  exact round_robin_perm r.global (by rw [hc]; exact hn)

/-- The legality hypothesis of `C12_exact` is necessary.  If a tunnel id is
    reused while still open (here id `1` under keys `0` and `1`), one `close`
    removes only the first registration from the global pool (`removeFirst`),
    so the id stays registered although the specification has removed it. -/
def illegalRun : List ROp := [.open 1 0, .open 1 1, .close 1]

theorem illegal_run_not_exact :
    ¬ legal illegalRun ∧ (runReg illegalRun).all = [1] ∧ runSpec illegalRun = []
      ∧ ((runReg illegalRun).pickKey 1).2 = some 1 := by
  decide

/-! ## Part 3: the reverse tunnel server state machine (C10) -/

def _root_.TunnelModel.Lifecycle.RState.rank : RState → Nat
  | .active => 0
  | .closing => 1
  | .closed => 2

theorem serve_refused (s : RServer) (t : Nat) (h : s.state ≠ .active) :
    s.serve t = (s, false) := by
  simp [RServer.serve, h]

theorem serve_refused_result (s : RServer) (t : Nat) (h : s.state ≠ .active) :
    (s.serve t).2 = false ∧ (s.serve t).1 = s := by
  rw [serve_refused s t h]; exact ⟨rfl, rfl⟩

theorem serve_accepted (s : RServer) (t : Nat) (h : s.state = .active) :
    s.serve t = ({ s with serving := s.serving ++ [t] }, true) := by
  simp [RServer.serve, h]

theorem serve_true_iff (s : RServer) (t : Nat) : (s.serve t).2 = true ↔ s.state = .active := by
  by_cases h : s.state = .active
  · rw [serve_accepted s t h]; simp [h]
  · rw [serve_refused s t h]; simp [h]

theorem serve_state (s : RServer) (t : Nat) : (s.serve t).1.state = s.state := by
  by_cases h : s.state = .active
  · rw [serve_accepted s t h]
  · rw [serve_refused s t h]

theorem served_state (s : RServer) (t : Nat) : (s.served t).state = s.state := rfl
theorem stop_state (s : RServer) : s.stop.state = .closed := rfl

theorem gracefulStop_state (s : RServer) :
    s.gracefulStop.state = if s.state = .active then .closing else s.state := by
  cases hs : s.state <;> simp [RServer.gracefulStop, hs]

theorem rank_serve (s : RServer) (t : Nat) : s.state.rank ≤ (s.serve t).1.state.rank := by
  rw [serve_state]; exact Nat.le_refl _

theorem rank_served (s : RServer) (t : Nat) : s.state.rank ≤ (s.served t).state.rank :=
  Nat.le_refl _

theorem rank_stop (s : RServer) : s.state.rank ≤ s.stop.state.rank := by
  rw [stop_state]; cases s.state <;> decide

theorem rank_gracefulStop (s : RServer) : s.state.rank ≤ s.gracefulStop.state.rank := by
  rw [gracefulStop_state]; cases s.state <;> decide

/-- the operations of the reverse server -/
inductive SOp where
  | serve (t : Nat)
  | served (t : Nat)
  | stop
  | gracefulStop
  deriving Repr

def stepSrv (s : RServer) : SOp → RServer
  | .serve t => (s.serve t).1
  | .served t => s.served t
  | .stop => s.stop
  | .gracefulStop => s.gracefulStop

theorem rank_step (s : RServer) (op : SOp) : s.state.rank ≤ (stepSrv s op).state.rank := by
  cases op with
  | serve t => exact rank_serve s t
  | served t => exact rank_served s t
  | stop => exact rank_stop s
  | gracefulStop => exact rank_gracefulStop s

/-- **C10.** The state only moves forward (`active → closing → closed`) along
    any sequence of operations. -/
theorem C10_rank_mono (ops : List SOp) (s : RServer) :
    s.state.rank ≤ (ops.foldl stepSrv s).state.rank := by
  induction ops generalizing s with
  | nil => exact Nat.le_refl _
  | cons op ops ih => exact Nat.le_trans (rank_step s op) (ih (stepSrv s op))

/-- once shutdown began, it stays begun: `Serve` is refused forever -/
theorem C10_serve_refused_forever (ops : List SOp) (s : RServer) (h : s.state ≠ .active)
    (t : Nat) : ((ops.foldl stepSrv s).serve t).2 = false
      ∧ ((ops.foldl stepSrv s).serve t).1 = ops.foldl stepSrv s := by
  apply serve_refused_result
  intro ha
  have := C10_rank_mono ops s
  rw [ha] at this
  cases hs : s.state with
  | active => exact h hs
  | closing => rw [hs] at this; exact absurd this (by decide)
  | closed => rw [hs] at this; exact absurd this (by decide)

theorem gracefulStop_after_stop (s : RServer) : s.stop.gracefulStop = s.stop := rfl

theorem gracefulStop_of_not_active (s : RServer) (h : s.state ≠ .active) :
    s.gracefulStop = s := by
  simp [RServer.gracefulStop, h]

theorem gracefulStop_idem (s : RServer) : s.gracefulStop.gracefulStop = s.gracefulStop := by
  apply gracefulStop_of_not_active
  rw [gracefulStop_state]; split
  · simp
  · assumption

theorem stop_after_gracefulStop (s : RServer) : s.gracefulStop.stop = s.stop := by
  cases hs : s.state <;> simp [RServer.gracefulStop, RServer.stop, hs]

theorem isClosing_stop (s : RServer) : s.stop.isClosing = true := rfl

theorem isClosing_gracefulStop (s : RServer) : s.gracefulStop.isClosing = true := by
  cases hs : s.state <;> simp [RServer.gracefulStop, RServer.isClosing, hs]

theorem isClosing_iff (s : RServer) : s.isClosing = true ↔ s.state ≠ .active := by
  simp [RServer.isClosing]

/-- `isClosing` is sticky -/
theorem C10_isClosing_sticky (ops : List SOp) (s : RServer) (h : s.isClosing = true) :
    (ops.foldl stepSrv s).isClosing = true := by
  rw [isClosing_iff] at h ⊢
  intro ha
  have := C10_rank_mono ops s
  rw [ha] at this
  cases hs : s.state with
  | active => exact h hs
  | closing => rw [hs] at this; exact absurd this (by decide)
  | closed => rw [hs] at this; exact absurd this (by decide)

section Axioms
#print axioms round_robin_perm
#print axioms picks_full
#print axioms RInv.init
#print axioms RInv.open
#print axioms RInv.close
#print axioms RInv.pickAll
#print axioms RInv.pickKey
#print axioms RInv.all_eq
#print axioms RInv.pickAll_sound
#print axioms RInv.pickKey_sound
#print axioms RInv.pickAll_none_iff
#print axioms RInv.pickKey_none_iff
#print axioms RInv.readyAll_iff
#print axioms RInv.readyKey_iff
#print axioms RInv.waitBlocksAll_iff
#print axioms RInv.waitBlocksKey_iff
#print axioms C12_exact
#print axioms round_robin_key
#print axioms round_robin_all
#print axioms illegal_run_not_exact
#print axioms serve_refused_result
#print axioms C10_rank_mono
#print axioms C10_serve_refused_forever
#print axioms C10_isClosing_sticky
#print axioms gracefulStop_after_stop
#print axioms isClosing_gracefulStop
end Axioms

end Proofs.Registry
