import TunnelModel.LFrame.Server
/-! Invariants of the server endpoint model that hold for every stimulus list. -/
namespace Proofs.Server
open TunnelModel.LFrame

variable {α : Type}

/-- ids of all stream objects, in creation order -/
def ids (s : Srv α) : List Int := s.streams.map (·.1)

/-- every id that was ever accepted is at most the high-water mark, and ids
    were accepted in strictly increasing order -/
def SInv (s : Srv α) : Prop := (∀ i ∈ ids s, i ≤ s.lastSeen) ∧ (ids s).Pairwise (· < ·)

theorem ids_setAny (s : Srv α) (sid : Sid) (st : SStream α) : ids (s.setAny sid st) = ids s := by
  simp only [ids, Srv.setAny, List.map_map]
  apply List.map_congr_left
  intro e _
  simp only [Function.comp]
  split
  · rename_i h; simp at h; exact h.symm
  · rfl

theorem serveReturns_go_ids (l : List (Sid × SStream α)) :
    ((Srv.serveReturns.go l).1).map (·.1) = l.map (·.1) := by
  induction l with
  | nil => simp [Srv.serveReturns.go]
  | cons e rest ih =>
    obtain ⟨sid, st⟩ := e
    simp only [Srv.serveReturns.go, List.map_cons]
    rw [ih]

theorem tick_go_ids (now : Nat) (l : List (Sid × SStream α)) :
    ((Srv.tick.go now l).1).map (·.1) = l.map (·.1) := by
  induction l with
  | nil => simp [Srv.tick.go]
  | cons e rest ih =>
    obtain ⟨sid, st⟩ := e
    simp only [Srv.tick.go, List.map_cons]
    rw [ih]

theorem serveReturns_ids (s : Srv α) (e : Option String) :
    ids (s.serveReturns e).1 = ids s ∧ (s.serveReturns e).1.lastSeen = s.lastSeen := by
  simp [Srv.serveReturns, ids, serveReturns_go_ids]

/-- what `createStream` does to the id list: nothing, or it appends the new id
    (which then is the new high-water mark) -/
theorem createStream_ids (cfg : SCfg) (s : Srv α) (sid : Sid) (m : List Nat) (md : MD) (rev : Int) (win : Nat) :
    (ids (s.createStream cfg sid m md rev win).1 = ids s ∧
      ((s.createStream cfg sid m md rev win).1.lastSeen = s.lastSeen ∨
       (s.lastSeen < sid ∧ (s.createStream cfg sid m md rev win).1.lastSeen = sid))) ∨
    (ids (s.createStream cfg sid m md rev win).1 = ids s ++ [sid] ∧ s.lastSeen < sid ∧
      (s.createStream cfg sid m md rev win).1.lastSeen = sid) := by
  unfold Srv.createStream
  by_cases h1 : s.table.contains sid = true
  · left; have := serveReturns_ids s (some "already_exists"); simp only [h1, if_true]; exact ⟨this.1, Or.inl this.2⟩
  · by_cases h2 : sid ≤ s.lastSeen
    · left; have := serveReturns_ids s (some "already_used")
      simp only [h1, h2, if_true, Bool.false_eq_true, if_false]; exact ⟨this.1, Or.inl this.2⟩
    · have hlt : s.lastSeen < sid := Int.lt_of_not_ge h2
      simp only [h1, h2, Bool.false_eq_true, if_false]
      split
      · left; exact ⟨rfl, Or.inr ⟨hlt, rfl⟩⟩
      · split
        · left; exact ⟨rfl, Or.inr ⟨hlt, rfl⟩⟩
        · split
          · left; exact ⟨rfl, Or.inr ⟨hlt, rfl⟩⟩
          · left; exact ⟨rfl, Or.inr ⟨hlt, rfl⟩⟩
          · right
            split <;> simp [ids, hlt]

theorem sinv_init : SInv ({} : Srv α) := by
  simp [SInv, ids]

theorem sinv_step (cfg : SCfg) (s : Srv α) (x : SStim α) (h : SInv s) : SInv (s.step cfg x).1 := by
  obtain ⟨h1, h2⟩ := h
  cases x with
  | frame sid f =>
    simp only [Srv.step, Srv.onFrame]
    split
    · exact ⟨h1, h2⟩
    · split
      · rename_i m md rev win
        rcases createStream_ids cfg s sid m md rev win with ⟨hi, hl⟩ | ⟨hi, hlt, hl⟩
        · refine ⟨?_, ?_⟩
          · intro i hi'; rw [hi] at hi'
            have hle : i ≤ s.lastSeen := h1 i hi'
            rcases hl with hl | ⟨hl1, hl2⟩
            · rw [hl]; exact hle
            · rw [hl2]; exact Int.le_trans hle (Int.le_of_lt hl1)
          · rw [hi]; exact h2
        · refine ⟨?_, ?_⟩
          · intro i hi'; rw [hi] at hi'
            rw [hl]
            rcases List.mem_append.mp hi' with hm | hm
            · exact Int.le_trans (h1 i hm) (Int.le_of_lt hlt)
            · simp at hm; rw [hm]; exact Int.le_refl _
          · rw [hi]
            apply List.pairwise_append.mpr
            refine ⟨h2, by simp, ?_⟩
            intro a ha b hb
            simp at hb; subst hb
            exact Int.lt_of_le_of_lt (h1 a ha) hlt
      · split
        · exact ⟨by rw [ids_setAny]; exact h1, by rw [ids_setAny]; exact h2⟩
        · split
          · exact ⟨h1, h2⟩
          · have := serveReturns_ids s (some "never_created")
            exact ⟨by rw [this.1, this.2]; exact h1, by rw [this.1]; exact h2⟩
  | call sid c =>
    simp only [Srv.step, Srv.onCall]
    split
    · exact ⟨h1, h2⟩
    · exact ⟨by rw [ids_setAny]; exact h1, by rw [ids_setAny]; exact h2⟩
  | tick d =>
    have : ids (s.tick d).1 = ids s ∧ (s.tick d).1.lastSeen = s.lastSeen := by
      simp [Srv.tick, ids, tick_go_ids]
    simp only [Srv.step]
    exact ⟨by rw [this.1, this.2]; exact h1, by rw [this.1]; exact h2⟩
  | closing b => exact ⟨h1, h2⟩
  | carrierEnds err =>
    simp only [Srv.step]
    split
    · exact ⟨h1, h2⟩
    · have := serveReturns_ids s err
      exact ⟨by rw [this.1, this.2]; exact h1, by rw [this.1]; exact h2⟩

theorem sinv_run (cfg : SCfg) : ∀ (xs : List (SStim α)) (s : Srv α), SInv s → SInv (Srv.run cfg s xs).1 := by
  intro xs
  induction xs with
  | nil => intro s h; exact h
  | cons x xs ih =>
    intro s h
    simp only [Srv.run]
    exact ih _ (sinv_step cfg s x h)

end Proofs.Server
