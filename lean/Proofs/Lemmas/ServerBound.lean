import TunnelModel.LFrame.Server
/-!
  Bounded buffering on the server endpoint (C09, receive side).

  For every stimulus list, every stream object of the endpoint that uses flow
  control (`fc = true`, protocol revision 1) satisfies
  `rcv.rwin + queuedBytes ≤ cfg.W` (`BInv`), hence never holds more than `W`
  bytes in its receive queue (`C09_bounded`), and never reaches the
  `unsupported` state (`fc_never_unsupported`).

  All statements are proved as requested; there is no `_partial` variant.

  Structure: `Pres s s'` (keeps `fc`; on a flow-controlled stream keeps
  `unsupported` and does not increase `rwin + queuedBytes`) is reflexive and
  transitive, and every stream-level operation of the model relates its
  argument to its result (`*_pres`).  `BInv W` and `UInv` are kept along `Pres`
  (`Pres.binv`, `Pres.uinv`); the per-operation statements `*_binv`, `*_fc`
  are corollaries.  `AllS P` lifts a per-stream predicate to the endpoint;
  `Liftable cfg P` is what `P` needs for `allS_step` / `allS_run`.

  `ccSend` / `ccRead` are the two `match` stages of `SStream.cancelCtx`, named
  here only to keep the proof terms small (`cancelCtx_fst` is by `rfl`).
-/
namespace Proofs.ServerBound
open TunnelModel TunnelModel.LFrame TunnelModel.Framing

variable {α : Type}

/-- bytes held in the receive queue of a stream -/
def queuedBytes {α} (s : SStream α) : Nat := (s.rcv.queue.map TunnelModel.Framing.DFrame.size).sum

/-- flow-controlled streams: window still open plus bytes queued never exceed `W` -/
def BInv {α} (W : Nat) (s : SStream α) : Prop := s.fc = true → s.rcv.rwin + queuedBytes s ≤ W

/-- flow-controlled streams never reach the "receive loop would block" state -/
def UInv {α} (s : SStream α) : Prop := s.fc = true → s.unsupported = false

/-- `Pres s s'`: `s'` is a successor of `s` that keeps `fc`, and on a
    flow-controlled stream keeps `unsupported` and does not increase
    `rwin + queuedBytes`.  Reflexive and transitive; every stream-level
    operation of the model relates its argument to its result. -/
def Pres {α} (s s' : SStream α) : Prop :=
  s'.fc = s.fc ∧ (s.fc = true → s'.unsupported = s.unsupported) ∧
  (s.fc = true → s'.rcv.rwin + queuedBytes s' ≤ s.rcv.rwin + queuedBytes s)

theorem Pres.refl (s : SStream α) : Pres s s := ⟨rfl, fun _ => rfl, fun _ => Nat.le_refl _⟩

theorem Pres.trans {a b c : SStream α} (h1 : Pres a b) (h2 : Pres b c) : Pres a c := by
  obtain ⟨f1, u1, m1⟩ := h1
  obtain ⟨f2, u2, m2⟩ := h2
  refine ⟨f2.trans f1, fun h => ?_, fun h => ?_⟩
  · rw [u2 (f1.trans h), u1 h]
  · exact Nat.le_trans (m2 (f1.trans h)) (m1 h)

/-- the part of the state the invariants look at is unchanged -/
theorem Pres.of_eq {s s' : SStream α} (hf : s'.fc = s.fc) (hu : s'.unsupported = s.unsupported)
    (hr : s'.rcv.rwin = s.rcv.rwin) (hq : s'.rcv.queue = s.rcv.queue) : Pres s s' := by
  refine ⟨hf, fun _ => hu, fun _ => ?_⟩
  simp [queuedBytes, hr, hq]

theorem Pres.binv {W : Nat} {s s' : SStream α} (h : Pres s s') (hb : BInv W s) : BInv W s' := by
  intro hfc
  have hfc' : s.fc = true := h.1 ▸ hfc
  exact Nat.le_trans (h.2.2 hfc') (hb hfc')

theorem Pres.uinv {s s' : SStream α} (h : Pres s s') (hb : UInv s) : UInv s' := by
  intro hfc
  have hfc' : s.fc = true := h.1 ▸ hfc
  rw [h.2.1 hfc']; exact hb hfc'

/-! ### stream-level operations -/

theorem halfClose_pres (s : SStream α) (e : SErr) : Pres s (s.halfClose e) := by
  unfold SStream.halfClose
  split
  · exact Pres.refl s
  · exact Pres.of_eq rfl rfl rfl rfl

theorem finishCore_pres (sid : Sid) (s : SStream α) (err : Option SErr) :
    Pres s (s.finishCore sid err).1 := by
  unfold SStream.finishCore
  have h1 : Pres s ({ s with inTable := false } : SStream α) := Pres.of_eq rfl rfl rfl rfl
  have h2 := halfClose_pres ({ s with inTable := false } : SStream α) (err.getD .eof)
  have h3 := h1.trans h2
  dsimp only
  split
  · exact h3
  · exact h3.trans (Pres.of_eq rfl rfl rfl rfl)

/-- second stage of `cancelCtx`: a blocked send returns -/
def ccSend (sid : Sid) (s1 : SStream α) (e : CtxErr) : SStream α × Out α :=
  match s1.psend with
  | some _ =>
    let s2 := { s1 with psend := none }
    if s1.finishAfterSend then
      ({ s2 with finishAfterSend := false, hstatus := .returned } : SStream α).finishCore sid (some (.ctx e))
    else (s2, { dones := [(sid, "send", .ctx e)] })
  | none => (s1, {})

/-- third stage of `cancelCtx`: a blocked read returns -/
def ccRead (sid : Sid) (s2 : SStream α) (e : CtxErr) : SStream α × Out α :=
  match s2.pread with
  | some _ =>
    let s3 := { s2 with pread := none, readErr := some (.ctx e) }
    if s2.hstatus == .decoding then
      let (s4, o4) := ({ s3 with hstatus := .returned } : SStream α).finishCore sid (some (.ctx e))
      (s4, ({ dones := [(sid, "decode", .ctx e)] } : Out α).add o4)
    else (s3, { dones := [(sid, "recv", .ctx e)] })
  | none => (s2, {})

theorem cancelCtx_fst (sid : Sid) (s : SStream α) (e : CtxErr) :
    (s.cancelCtx sid e).1 =
      if s.ctxDone.isSome then s
      else (ccRead sid (ccSend sid
        ({ s with ctxDone := some e, rcv := if s.fc then s.rcv.cancel else s.rcv.close } : SStream α) e).1 e).1 := by
  unfold SStream.cancelCtx
  split
  · rfl
  · rfl

theorem ccSend_pres (sid : Sid) (s : SStream α) (e : CtxErr) : Pres s (ccSend sid s e).1 := by
  unfold ccSend
  split
  · dsimp only
    split
    · exact Pres.trans (Pres.of_eq rfl rfl rfl rfl) (finishCore_pres _ _ _)
    · exact Pres.of_eq rfl rfl rfl rfl
  · exact Pres.refl s

theorem ccRead_pres (sid : Sid) (s : SStream α) (e : CtxErr) : Pres s (ccRead sid s e).1 := by
  unfold ccRead
  split
  · dsimp only
    split
    · exact Pres.trans (Pres.of_eq rfl rfl rfl rfl) (finishCore_pres _ _ _)
    · exact Pres.of_eq rfl rfl rfl rfl
  · exact Pres.refl s

theorem cancelCtx_pres (sid : Sid) (s : SStream α) (e : CtxErr) : Pres s (s.cancelCtx sid e).1 := by
  rw [cancelCtx_fst]
  split
  · exact Pres.refl s
  · have h1 : Pres s ({ s with ctxDone := some e, rcv := if s.fc then s.rcv.cancel else s.rcv.close } : SStream α) := by
      refine ⟨rfl, fun _ => rfl, fun h => ?_⟩
      simp [h, queuedBytes, RcvQ.cancel]
    exact (h1.trans (ccSend_pres _ _ _)).trans (ccRead_pres _ _ _)

theorem finish_pres (sid : Sid) (s : SStream α) (err : Option SErr) (b : Bool) :
    Pres s (s.finish sid err b).1 := by
  unfold SStream.finish
  exact (finishCore_pres _ _ _).trans (cancelCtx_pres _ _ _)

theorem pumpSend_pres (cfg : SCfg) (sid : Sid) (s : SStream α) (snd : Snd α) :
    Pres s (s.pumpSend cfg sid snd).1 := by
  unfold SStream.pumpSend
  split
  · dsimp only
    split
    · exact Pres.of_eq rfl rfl rfl rfl
    · split
      · exact Pres.of_eq rfl rfl rfl rfl
      · exact Pres.of_eq rfl rfl rfl rfl
  · exact Pres.of_eq rfl rfl rfl rfl

theorem afterSend_pres (sid : Sid) (s : SStream α) (o : Out α) : Pres s (s.afterSend sid o).1 := by
  unfold SStream.afterSend
  split
  · dsimp only
    exact Pres.trans (Pres.of_eq rfl rfl rfl rfl) (finish_pres _ _ _ _)
  · exact Pres.refl s

/-- `readLoop` moves bytes from the queue to the window: their sum is unchanged -/
theorem readLoop_sum' (q : List (DFrame α)) : ∀ (rwin : Nat) (st : RState α) (rwin' : Nat)
    (q' : List (DFrame α)) (cs : List Nat) (out : Option (PStep α)),
    readLoop rwin q st = (rwin', q', cs, out) →
    rwin' + (q'.map DFrame.size).sum = rwin + (q.map DFrame.size).sum := by
  induction q with
  | nil =>
    intro rwin st rwin' q' cs out h
    simp only [readLoop, Prod.mk.injEq] at h
    obtain ⟨h1, h2, _⟩ := h
    subst h1 h2; rfl
  | cons f q ih =>
    intro rwin st rwin' q' cs out h
    simp only [readLoop] at h
    split at h
    · rename_i st' _
      generalize hr : readLoop (rwin + f.size) q st' = r at h
      obtain ⟨w, q2, cs2, r2⟩ := r
      simp only [Prod.mk.injEq] at h
      obtain ⟨h1, h2, _⟩ := h
      subst h1 h2
      have := ih _ _ _ _ _ _ hr
      simp only [List.map_cons, List.sum_cons]
      omega
    · simp only [Prod.mk.injEq] at h
      obtain ⟨h1, h2, _⟩ := h
      subst h1 h2
      simp only [List.map_cons, List.sum_cons]; omega
    · simp only [Prod.mk.injEq] at h
      obtain ⟨h1, h2, _⟩ := h
      subst h1 h2
      simp only [List.map_cons, List.sum_cons]; omega

theorem readLoop_sum {q q' : List (DFrame α)} {rwin rwin' : Nat} {st : RState α} {cs : List Nat}
    {out : Option (PStep α)} (h : readLoop rwin q st = (rwin', q', cs, out)) :
    rwin' + (q'.map DFrame.size).sum = rwin + (q.map DFrame.size).sum :=
  readLoop_sum' q rwin st rwin' q' cs out h

theorem resumeRead_pres (sid : Sid) (mn : String) : ∀ (fuel : Nat) (s : SStream α),
    Pres s (SStream.resumeRead sid mn fuel s).1 := by
  intro fuel
  induction fuel with
  | zero => intro s; exact Pres.refl s
  | succ fuel ih =>
    intro s
    unfold SStream.resumeRead
    split
    · exact Pres.refl s
    · rename_i p hp
      generalize hr : readLoop s.rcv.rwin s.rcv.queue p.rst = r
      obtain ⟨rwin, q, credits, out⟩ := r
      have hsum := readLoop_sum hr
      dsimp -zeta only
      extract_lets cf rcv0 s1 opName failWith e
      have hs1 : Pres s s1 := by
        refine ⟨rfl, fun _ => rfl, fun h => ?_⟩
        simp only [s1, queuedBytes, h, if_true]
        omega
      have hfw : ∀ (s' : SStream α) (e : SErr) (b : Bool), Pres s' (failWith s' e b).1 := by
        intro s' e b
        simp only [failWith]
        split
        · exact Pres.of_eq rfl rfl rfl rfl
        · dsimp only
          exact (Pres.of_eq rfl rfl rfl rfl).trans (finish_pres _ _ _ _)
      clear_value s1 failWith
      refine hs1.trans ?_
      split
      · split
        · split
          · exact Pres.of_eq rfl rfl rfl rfl
          · exact hfw _ _ _
        · exact Pres.of_eq rfl rfl rfl rfl
      · split
        · exact hfw _ _ _
        · split
          · exact Pres.of_eq rfl rfl rfl rfl
          · dsimp only
            exact (Pres.of_eq rfl rfl rfl rfl).trans (ih _)
      · exact hfw _ _ _
      · exact Pres.refl s1

theorem afterDecode_pres (sid : Sid) (s : SStream α) (o : Out α) : Pres s (s.afterDecode sid o).1 := by
  unfold SStream.afterDecode
  split
  · split
    · exact Pres.of_eq rfl rfl rfl rfl
    · dsimp only
      exact (Pres.of_eq rfl rfl rfl rfl).trans (finish_pres _ _ _ _)
    · exact Pres.refl s
  · exact Pres.refl s

theorem readAndSettle_pres (sid : Sid) (s : SStream α) : Pres s (s.readAndSettle sid).1 := by
  unfold SStream.readAndSettle
  dsimp only
  refine Pres.trans ?_ (afterDecode_pres _ _ _)
  exact resumeRead_pres _ _ _ _

theorem startRecv_pres (sid : Sid) (s : SStream α) : Pres s (s.startRecv sid).1 := by
  unfold SStream.startRecv
  dsimp only
  split
  · exact afterDecode_pres _ _ _
  · split
    · exact (Pres.of_eq rfl rfl rfl rfl).trans (afterDecode_pres _ _ _)
    · exact (Pres.of_eq rfl rfl rfl rfl).trans (readAndSettle_pres _ _)

theorem accept_ok_pres (s : SStream α) (df : DFrame α) (r : RcvQ α) (h : s.rcv.accept df = (r, .ok)) :
    Pres s ({ s with rcv := r } : SStream α) := by
  refine ⟨rfl, fun _ => rfl, fun _ => ?_⟩
  unfold RcvQ.accept at h
  split at h
  · simp at h
  · split at h
    · simp at h
    · simp only [Prod.mk.injEq, and_true] at h
      subst h
      simp only [queuedBytes, List.map_append, List.sum_append, List.map_cons, List.map_nil, List.sum_cons,
        List.sum_nil]
      omega

/-- on a stream without flow control nothing is claimed beyond `fc` being kept -/
theorem Pres.of_not_fc {s s' : SStream α} (hfc : ¬ s.fc = true) (h : s'.fc = s.fc) : Pres s s' :=
  ⟨h, fun h' => absurd h' hfc, fun h' => absurd h' hfc⟩

theorem onFrame_pres (cfg : SCfg) (sid : Sid) (s : SStream α) (f : C2S α) :
    Pres s (s.onFrame cfg sid f).1 := by
  cases f with
  | newStream m md rev win => exact Pres.refl s
  | halfClose =>
    simp only [SStream.onFrame]
    split
    · exact Pres.refl s
    · exact (halfClose_pres _ _).trans (readAndSettle_pres _ _)
  | cancel => exact finish_pres _ _ _ _
  | unset => exact finish_pres _ _ _ _
  | windowUpdate n =>
    simp only [SStream.onFrame]
    split
    · exact Pres.refl s
    · split
      · exact Pres.of_eq rfl rfl rfl rfl
      · refine Pres.trans ?_ (afterSend_pres _ _ _)
        refine Pres.trans ?_ (pumpSend_pres _ _ _ _)
        exact Pres.of_eq rfl rfl rfl rfl
  | msg size d =>
    simp only [SStream.onFrame]
    split
    · split
      · exact Pres.refl s
      · exact finish_pres _ _ _ _
      · rename_i r hacc
        exact (accept_ok_pres s _ r hacc).trans (readAndSettle_pres _ _)
    · rename_i hfc
      split
      · exact Pres.refl s
      · split
        · exact Pres.of_not_fc hfc rfl
        · exact Pres.of_not_fc hfc (readAndSettle_pres _ _).1
  | more d =>
    simp only [SStream.onFrame]
    split
    · split
      · exact Pres.refl s
      · exact finish_pres _ _ _ _
      · rename_i r hacc
        exact (accept_ok_pres s _ r hacc).trans (readAndSettle_pres _ _)
    · rename_i hfc
      split
      · exact Pres.refl s
      · split
        · exact Pres.of_not_fc hfc rfl
        · exact Pres.of_not_fc hfc (readAndSettle_pres _ _).1

theorem onCall_pres (cfg : SCfg) (sid : Sid) (s : SStream α) (c : HCall α) :
    Pres s (s.onCall cfg sid c).1 := by
  cases c with
  | recv => exact startRecv_pres _ _
  | send m =>
    simp only [SStream.onCall]
    split
    · split
      · exact Pres.refl s
      · refine Pres.trans ?_ (pumpSend_pres _ _ _ _)
        exact Pres.of_eq rfl rfl rfl rfl
    · split
      · exact Pres.of_eq rfl rfl rfl rfl
      · refine Pres.trans ?_ (pumpSend_pres _ _ _ _)
        exact Pres.of_eq rfl rfl rfl rfl
  | setHeader md =>
    simp only [SStream.onCall]
    split
    · exact Pres.refl s
    · exact Pres.of_eq rfl rfl rfl rfl
  | sendHeader md =>
    simp only [SStream.onCall]
    split
    · exact Pres.refl s
    · exact Pres.of_eq rfl rfl rfl rfl
  | setTrailer md =>
    simp only [SStream.onCall]
    split
    · exact Pres.refl s
    · exact Pres.of_eq rfl rfl rfl rfl
  | ret st =>
    simp only [SStream.onCall]
    refine Pres.trans ?_ (finish_pres _ _ _ _)
    exact Pres.of_eq rfl rfl rfl rfl
  | reply m =>
    simp only [SStream.onCall]
    refine Pres.trans ?_ (afterSend_pres _ _ _)
    refine Pres.trans ?_ (pumpSend_pres _ _ _ _)
    split
    · exact Pres.of_eq rfl rfl rfl rfl
    · exact Pres.of_eq rfl rfl rfl rfl

/-! ### lifting to the endpoint -/

/-- a per-stream predicate holds for every stream object of the endpoint -/
def AllS {α} (P : SStream α → Prop) (s : Srv α) : Prop := ∀ e ∈ s.streams, P e.2

/-- what a per-stream predicate needs to be an endpoint invariant: it is kept
    along `Pres` and holds for a stream object as `createStream` builds it -/
structure Liftable {α} (cfg : SCfg) (P : SStream α → Prop) : Prop where
  pres : ∀ {s s' : SStream α}, Pres s s' → P s → P s'
  fresh : ∀ st : SStream α, st.rcv = RcvQ.init cfg.W → st.unsupported = false → P st

theorem allS_init (P : SStream α → Prop) : AllS P ({} : Srv α) := by
  intro e he; cases he

theorem allS_setAny {P : SStream α → Prop} (s : Srv α) (sid : Sid) (st : SStream α)
    (h : AllS P s) (hst : P st) : AllS P (s.setAny sid st) := by
  intro e he
  simp only [Srv.setAny, List.mem_map] at he
  obtain ⟨e0, he0, rfl⟩ := he
  split
  · exact hst
  · exact h e0 he0

theorem getAny_mem (s : Srv α) (sid : Sid) (st : SStream α) (h : s.getAny sid = some st) :
    ∃ e ∈ s.streams, e.2 = st := by
  simp only [Srv.getAny, Option.map_eq_some_iff] at h
  obtain ⟨e, he, rfl⟩ := h
  exact ⟨e, List.mem_of_find?_eq_some he, rfl⟩

theorem getStream_mem (s : Srv α) (sid : Sid) (st : SStream α) (h : s.getStream sid = some st) :
    ∃ e ∈ s.streams, e.2 = st := by
  simp only [Srv.getStream, Option.map_eq_some_iff] at h
  obtain ⟨e, he, rfl⟩ := h
  exact ⟨e, List.mem_of_find?_eq_some he, rfl⟩

theorem serveReturns_go_all {P : SStream α → Prop} (hP : ∀ {s s' : SStream α}, Pres s s' → P s → P s')
    (l : List (Sid × SStream α)) (h : ∀ e ∈ l, P e.2) :
    ∀ e ∈ (Srv.serveReturns.go l).1, P e.2 := by
  induction l with
  | nil => intro e he; simp [Srv.serveReturns.go] at he
  | cons x rest ih =>
    obtain ⟨sid, st⟩ := x
    intro e he
    simp only [Srv.serveReturns.go] at he
    rcases List.mem_cons.mp he with h1 | h1
    · subst h1
      exact hP (cancelCtx_pres sid st .canceled) (h (sid, st) List.mem_cons_self)
    · exact ih (fun e he => h e (List.mem_cons_of_mem _ he)) e h1

theorem tick_go_all {P : SStream α → Prop} (hP : ∀ {s s' : SStream α}, Pres s s' → P s → P s')
    (now : Nat) (l : List (Sid × SStream α)) (h : ∀ e ∈ l, P e.2) :
    ∀ e ∈ (Srv.tick.go now l).1, P e.2 := by
  induction l with
  | nil => intro e he; simp [Srv.tick.go] at he
  | cons x rest ih =>
    obtain ⟨sid, st⟩ := x
    intro e he
    simp only [Srv.tick.go] at he
    rcases List.mem_cons.mp he with h1 | h1
    · subst h1
      have hst := h (sid, st) List.mem_cons_self
      dsimp only
      split
      · split
        · exact hP (cancelCtx_pres sid st .deadline) hst
        · exact hst
      · exact hst
    · exact ih (fun e he => h e (List.mem_cons_of_mem _ he)) e h1

theorem allS_serveReturns {P : SStream α → Prop} (hP : ∀ {s s' : SStream α}, Pres s s' → P s → P s')
    (s : Srv α) (err : Option String) (h : AllS P s) : AllS P (s.serveReturns err).1 := by
  intro e he
  simp only [Srv.serveReturns] at he
  exact serveReturns_go_all hP _ h e he

theorem allS_tick {P : SStream α → Prop} (hP : ∀ {s s' : SStream α}, Pres s s' → P s → P s')
    (s : Srv α) (d : Nat) (h : AllS P s) : AllS P (s.tick d).1 := by
  intro e he
  simp only [Srv.tick] at he
  exact tick_go_all hP _ _ h e he

theorem append_all {P : SStream α → Prop} {l : List (Sid × SStream α)} {sid : Sid} {st : SStream α}
    (h : ∀ e ∈ l, P e.2) (hst : P st) : ∀ e ∈ l ++ [(sid, st)], P e.2 := by
  intro e he
  rcases List.mem_append.mp he with he | he
  · exact h e he
  · rw [List.mem_singleton.mp he]; exact hst

theorem allS_createStream {cfg : SCfg} {P : SStream α → Prop} (hP : Liftable cfg P)
    (s : Srv α) (sid : Sid) (m : List Nat) (md : MD) (rev : Int) (win : Nat) (h : AllS P s) :
    AllS P (s.createStream cfg sid m md rev win).1 := by
  unfold Srv.createStream
  split
  · exact allS_serveReturns hP.pres _ _ h
  · split
    · exact allS_serveReturns hP.pres _ _ h
    · dsimp only
      split
      · exact h
      · split
        · exact h
        · split
          · exact h
          · exact h
          · split
            · exact append_all h (hP.pres (startRecv_pres _ _) (hP.fresh _ rfl rfl))
            · exact append_all h (hP.fresh _ rfl rfl)

theorem allS_step {cfg : SCfg} {P : SStream α → Prop} (hP : Liftable cfg P)
    (s : Srv α) (x : SStim α) (h : AllS P s) : AllS P (s.step cfg x).1 := by
  cases x with
  | frame sid f =>
    simp only [Srv.step, Srv.onFrame]
    split
    · exact h
    · split
      · exact allS_createStream hP _ _ _ _ _ _ h
      · split
        · rename_i st hst
          obtain ⟨e, he, rfl⟩ := getStream_mem _ _ _ hst
          exact allS_setAny _ _ _ h (hP.pres (onFrame_pres _ _ _ _) (h e he))
        · split
          · exact h
          · exact allS_serveReturns hP.pres _ _ h
  | call sid c =>
    simp only [Srv.step, Srv.onCall]
    split
    · exact h
    · rename_i st hst
      obtain ⟨e, he, rfl⟩ := getAny_mem _ _ _ hst
      exact allS_setAny _ _ _ h (hP.pres (onCall_pres _ _ _ _) (h e he))
  | tick d => exact allS_tick hP.pres _ _ h
  | closing b => exact h
  | carrierEnds err =>
    simp only [Srv.step]
    split
    · exact h
    · exact allS_serveReturns hP.pres _ _ h

theorem allS_run {cfg : SCfg} {P : SStream α → Prop} (hP : Liftable cfg P) :
    ∀ (xs : List (SStim α)) (s : Srv α), AllS P s → AllS P (Srv.run cfg s xs).1 := by
  intro xs
  induction xs with
  | nil => intro s h; exact h
  | cons x xs ih =>
    intro s h
    simp only [Srv.run]
    exact ih _ (allS_step hP s x h)

/-! ### the per-operation statements, spelled out -/

section PerOp
variable {W : Nat}

theorem cancelCtx_fc (sid : Sid) (s : SStream α) (e : CtxErr) : (s.cancelCtx sid e).1.fc = s.fc :=
  (cancelCtx_pres sid s e).1
theorem halfClose_fc (s : SStream α) (e : SErr) : (s.halfClose e).fc = s.fc := (halfClose_pres s e).1
theorem finishCore_fc (sid : Sid) (s : SStream α) (err : Option SErr) : (s.finishCore sid err).1.fc = s.fc :=
  (finishCore_pres sid s err).1
theorem finish_fc (sid : Sid) (s : SStream α) (err : Option SErr) (b : Bool) :
    (s.finish sid err b).1.fc = s.fc := (finish_pres sid s err b).1
theorem pumpSend_fc (cfg : SCfg) (sid : Sid) (s : SStream α) (snd : Snd α) :
    (s.pumpSend cfg sid snd).1.fc = s.fc := (pumpSend_pres cfg sid s snd).1
theorem afterSend_fc (sid : Sid) (s : SStream α) (o : Out α) : (s.afterSend sid o).1.fc = s.fc :=
  (afterSend_pres sid s o).1
theorem resumeRead_fc (sid : Sid) (mn : String) (fuel : Nat) (s : SStream α) :
    (SStream.resumeRead sid mn fuel s).1.fc = s.fc := (resumeRead_pres sid mn fuel s).1
theorem afterDecode_fc (sid : Sid) (s : SStream α) (o : Out α) : (s.afterDecode sid o).1.fc = s.fc :=
  (afterDecode_pres sid s o).1
theorem readAndSettle_fc (sid : Sid) (s : SStream α) : (s.readAndSettle sid).1.fc = s.fc :=
  (readAndSettle_pres sid s).1
theorem startRecv_fc (sid : Sid) (s : SStream α) : (s.startRecv sid).1.fc = s.fc := (startRecv_pres sid s).1
theorem onFrame_fc (cfg : SCfg) (sid : Sid) (s : SStream α) (f : C2S α) : (s.onFrame cfg sid f).1.fc = s.fc :=
  (onFrame_pres cfg sid s f).1
theorem onCall_fc (cfg : SCfg) (sid : Sid) (s : SStream α) (c : HCall α) : (s.onCall cfg sid c).1.fc = s.fc :=
  (onCall_pres cfg sid s c).1

theorem cancelCtx_binv (sid : Sid) (s : SStream α) (e : CtxErr) (h : BInv W s) :
    BInv W (s.cancelCtx sid e).1 := (cancelCtx_pres sid s e).binv h
theorem halfClose_binv (s : SStream α) (e : SErr) (h : BInv W s) : BInv W (s.halfClose e) :=
  (halfClose_pres s e).binv h
theorem finishCore_binv (sid : Sid) (s : SStream α) (err : Option SErr) (h : BInv W s) :
    BInv W (s.finishCore sid err).1 := (finishCore_pres sid s err).binv h
theorem finish_binv (sid : Sid) (s : SStream α) (err : Option SErr) (b : Bool) (h : BInv W s) :
    BInv W (s.finish sid err b).1 := (finish_pres sid s err b).binv h
theorem pumpSend_binv (cfg : SCfg) (sid : Sid) (s : SStream α) (snd : Snd α) (h : BInv W s) :
    BInv W (s.pumpSend cfg sid snd).1 := (pumpSend_pres cfg sid s snd).binv h
theorem afterSend_binv (sid : Sid) (s : SStream α) (o : Out α) (h : BInv W s) :
    BInv W (s.afterSend sid o).1 := (afterSend_pres sid s o).binv h
theorem resumeRead_binv (sid : Sid) (mn : String) (fuel : Nat) (s : SStream α) (h : BInv W s) :
    BInv W (SStream.resumeRead sid mn fuel s).1 := (resumeRead_pres sid mn fuel s).binv h
theorem afterDecode_binv (sid : Sid) (s : SStream α) (o : Out α) (h : BInv W s) :
    BInv W (s.afterDecode sid o).1 := (afterDecode_pres sid s o).binv h
theorem readAndSettle_binv (sid : Sid) (s : SStream α) (h : BInv W s) :
    BInv W (s.readAndSettle sid).1 := (readAndSettle_pres sid s).binv h
theorem startRecv_binv (sid : Sid) (s : SStream α) (h : BInv W s) :
    BInv W (s.startRecv sid).1 := (startRecv_pres sid s).binv h
theorem onFrame_binv (cfg : SCfg) (sid : Sid) (s : SStream α) (f : C2S α) (h : BInv W s) :
    BInv W (s.onFrame cfg sid f).1 := (onFrame_pres cfg sid s f).binv h
theorem onCall_binv (cfg : SCfg) (sid : Sid) (s : SStream α) (c : HCall α) (h : BInv W s) :
    BInv W (s.onCall cfg sid c).1 := (onCall_pres cfg sid s c).binv h

/-- on a flow-controlled stream every operation leaves `unsupported` alone -/
theorem onFrame_unsupported (cfg : SCfg) (sid : Sid) (s : SStream α) (f : C2S α) (hfc : s.fc = true) :
    (s.onFrame cfg sid f).1.unsupported = s.unsupported := (onFrame_pres cfg sid s f).2.1 hfc
theorem onCall_unsupported (cfg : SCfg) (sid : Sid) (s : SStream α) (c : HCall α) (hfc : s.fc = true) :
    (s.onCall cfg sid c).1.unsupported = s.unsupported := (onCall_pres cfg sid s c).2.1 hfc

end PerOp

/-! ### endpoint invariants -/

def SrvBInv {α} (W : Nat) (s : Srv α) : Prop := ∀ e ∈ s.streams, BInv W e.2

def SrvUInv {α} (s : Srv α) : Prop := ∀ e ∈ s.streams, UInv e.2

theorem binv_fresh (W : Nat) (st : SStream α) (h : st.rcv = RcvQ.init W) : BInv W st := by
  intro _
  simp [queuedBytes, h, RcvQ.init]

theorem binv_liftable (cfg : SCfg) : Liftable cfg (BInv (α := α) cfg.W) :=
  ⟨fun hp h => hp.binv h, fun st h _ => binv_fresh cfg.W st h⟩

theorem uinv_liftable (cfg : SCfg) : Liftable cfg (UInv (α := α)) :=
  ⟨fun hp h => hp.uinv h, fun _ _ h _ => h⟩

theorem srvBInv_init (cfg : SCfg) : SrvBInv cfg.W ({} : Srv α) := allS_init _

/-- a newly created stream satisfies the invariant, before and after the
    decode callback's `RecvMsg` that `createStream` starts on unary methods -/
theorem binv_created (cfg : SCfg) (sid : Sid) (st : SStream α) (h : st.rcv = RcvQ.init cfg.W) :
    BInv cfg.W st ∧ BInv cfg.W (st.startRecv sid).1 :=
  ⟨binv_fresh cfg.W st h, startRecv_binv sid st (binv_fresh cfg.W st h)⟩

theorem srvBInv_createStream (cfg : SCfg) (s : Srv α) (sid : Sid) (m : List Nat) (md : MD) (rev : Int)
    (win : Nat) (h : SrvBInv cfg.W s) : SrvBInv cfg.W (s.createStream cfg sid m md rev win).1 :=
  allS_createStream (binv_liftable cfg) s sid m md rev win h

theorem srvBInv_step (cfg : SCfg) (s : Srv α) (x : SStim α) (h : SrvBInv cfg.W s) :
    SrvBInv cfg.W (s.step cfg x).1 :=
  allS_step (binv_liftable cfg) s x h

theorem srvBInv_run (cfg : SCfg) (xs : List (SStim α)) :
    SrvBInv cfg.W (Srv.run cfg ({} : Srv α) xs).1 :=
  allS_run (binv_liftable cfg) xs {} (allS_init _)

theorem srvUInv_step (cfg : SCfg) (s : Srv α) (x : SStim α) (h : SrvUInv s) : SrvUInv (s.step cfg x).1 :=
  allS_step (uinv_liftable cfg) s x h

theorem srvUInv_run (cfg : SCfg) (xs : List (SStim α)) : SrvUInv (Srv.run cfg ({} : Srv α) xs).1 :=
  allS_run (uinv_liftable cfg) xs {} (allS_init _)

/-- **C09, bounded buffering.** Whatever the peer and the handlers do, a
    flow-controlled stream never holds more than `W` bytes in its receive queue. -/
theorem C09_bounded (cfg : SCfg) (xs : List (SStim α)) :
    ∀ e ∈ (Srv.run cfg ({} : Srv α) xs).1.streams, e.2.fc = true → queuedBytes e.2 ≤ cfg.W := by
  intro e he hfc
  have := srvBInv_run cfg xs e he hfc
  omega

/-- flow-controlled streams never enter the "receive loop would block" state -/
theorem fc_never_unsupported (cfg : SCfg) (xs : List (SStim α)) :
    ∀ e ∈ (Srv.run cfg ({} : Srv α) xs).1.streams, e.2.fc = true → e.2.unsupported = false :=
  fun e he hfc => srvUInv_run cfg xs e he hfc

-- non-vacuity: a flow-controlled stream exists and holds queued bytes after a run
example :
    let r := (Srv.run (α := Nat) { services := [([1], { methods := [], streams := [([2], true, true)] })] } {}
      [.frame 0 (.newStream [47, 1, 47, 2] [] 1 10), .frame 0 (.msg 5 [1, 2])]).1
    r.streams.map (fun e => (e.2.fc, queuedBytes e.2)) = [(true, 2)] := by decide

-- the hypothesis `fc = true` is needed: a revision-zero stream does reach `unsupported`
example :
    let r := (Srv.run (α := Nat) { services := [([1], { methods := [], streams := [([2], true, true)] })] } {}
      [.frame 0 (.newStream [47, 1, 47, 2] [] 0 10), .frame 0 (.msg 5 [1, 2]), .frame 0 (.more [3])]).1
    r.streams.map (fun e => (e.2.fc, e.2.unsupported)) = [(false, true)] := by decide

#print axioms srvBInv_step
#print axioms srvBInv_run
#print axioms C09_bounded
#print axioms fc_never_unsupported

end Proofs.ServerBound
