import TunnelModel.LFrame.Server
/-!
  Locality of the server endpoint model (C03): what a step on one stream emits
  is tagged with that stream's id only, handler calls and ticks never end the
  tunnel, and a tick only emits for streams the endpoint knows.

  Part 1 (stream level): `*_onlySid` lemmas for every `SStream` operation.
  Part 2 (endpoint level): `frame_local`, `call_local`, `newStream_local`
    (via `createStream_local`), `call_state_local`.
  Part 3: `call_never_ends_tunnel`, `tick_never_ends_tunnel`.
  Part 4: `tick_emits_known` (via `tick_go_emits_known`).

  All statements are proved exactly as specified; there is no `_partial`
  variant in this file.
-/
namespace Proofs.ServerLocal
open TunnelModel TunnelModel.LFrame TunnelModel.Framing

variable {α : Type}

/-- every frame and every completion of the output is tagged with `sid` -/
def Out.onlySid {α} (sid : Sid) (o : Out α) : Prop :=
  (∀ f ∈ o.frames, f.1 = sid) ∧ (∀ d ∈ o.dones, d.1 = sid)

theorem onlySid_empty (sid : Sid) : Out.onlySid sid ({} : Out α) := by
  constructor <;> intro x hx <;> cases hx

theorem onlySid_mk {sid : Sid} {fr : List (Sid × S2C α)} {dn : List (Sid × String × Res α)} {ev : List String}
    (hf : ∀ f ∈ fr, f.1 = sid) (hd : ∀ d ∈ dn, d.1 = sid) :
    Out.onlySid sid ({ frames := fr, dones := dn, events := ev } : Out α) := ⟨hf, hd⟩

theorem onlySid_add {sid : Sid} {a b : Out α} (ha : Out.onlySid sid a) (hb : Out.onlySid sid b) :
    Out.onlySid sid (a.add b) := by
  refine ⟨fun f hf => ?_, fun d hd => ?_⟩
  · rcases List.mem_append.mp hf with h | h
    · exact ha.1 f h
    · exact hb.1 f h
  · rcases List.mem_append.mp hd with h | h
    · exact ha.2 d h
    · exact hb.2 d h

theorem onlySid_events (sid : Sid) (ev : List String) : Out.onlySid sid ({ events := ev } : Out α) := by
  constructor <;> intro x hx <;> cases hx

theorem onlySid_done (sid : Sid) (op : String) (r : Res α) :
    Out.onlySid sid ({ dones := [(sid, op, r)] } : Out α) := by
  constructor
  · intro x hx; cases hx
  · intro x hx; simp at hx; rw [hx]

theorem snd_eq {A B : Type} {p : A × B} {a : A} {b : B} (h : p = (a, b)) : b = p.2 := by rw [h]

theorem finishCore_onlySid (sid : Sid) (s : SStream α) (err : Option SErr) :
    Out.onlySid sid (s.finishCore sid err).2 := by
  unfold SStream.finishCore
  simp only []
  split
  · exact onlySid_empty sid
  · apply onlySid_mk
    · intro f hf
      split at hf <;> simp at hf
      · rw [hf]
      · rcases hf with h | h <;> rw [h]
    · intro d hd; cases hd

theorem cancelCtx_onlySid (sid : Sid) (s : SStream α) (e : CtxErr) :
    Out.onlySid sid (s.cancelCtx sid e).2 := by
  unfold SStream.cancelCtx
  split
  · exact onlySid_empty sid
  · extract_lets rcv s1
    split
    rename_i s2 o1 h1
    split
    rename_i s3 o2 h2
    have ho1 : Out.onlySid sid o1 := by
      rw [snd_eq h1]
      split
      · split
        · exact finishCore_onlySid ..
        · exact onlySid_done ..
      · exact onlySid_empty sid
    have ho2 : Out.onlySid sid o2 := by
      rw [snd_eq h2]
      split
      · extract_lets s3'
        split
        · split
          rename_i s4 o4 h4
          refine onlySid_add (onlySid_done ..) ?_
          rw [snd_eq h4]
          exact finishCore_onlySid ..
        · exact onlySid_done ..
      · exact onlySid_empty sid
    exact onlySid_add (onlySid_add (onlySid_events ..) ho1) ho2

theorem finish_onlySid (sid : Sid) (s : SStream α) (err : Option SErr) (byLoop : Bool) :
    Out.onlySid sid (s.finish sid err byLoop).2 := by
  unfold SStream.finish
  extract_lets racing err'
  split; rename_i s1 o1 h1
  split; rename_i s2 o2 h2
  refine onlySid_add ?_ ?_
  · rw [snd_eq h2]; exact cancelCtx_onlySid ..
  · rw [snd_eq h1]; exact finishCore_onlySid ..

theorem mem_map_tag {A : Type} {sid : Sid} {g : A → S2C α} {l : List A} :
    ∀ f ∈ l.map (fun x => (sid, g x)), f.1 = sid := by
  intro f hf
  obtain ⟨x, _, hx⟩ := List.mem_map.mp hf
  rw [← hx]

theorem mem_single {A : Type} {sid : Sid} {a : A} : ∀ d ∈ [(sid, a)], d.1 = sid := by
  intro d hd; simp at hd; rw [hd]

theorem mem_nil {A : Type} {sid : Sid} : ∀ d ∈ ([] : List (Sid × A)), d.1 = sid := by
  intro d hd; cases hd

theorem pumpSend_onlySid (cfg : SCfg) (sid : Sid) (s : SStream α) (snd : Snd α) :
    Out.onlySid sid (s.pumpSend cfg sid snd).2 := by
  unfold SStream.pumpSend
  split
  · split
    rename_i fs w rest h
    extract_lets frames
    split
    · exact onlySid_mk mem_map_tag mem_single
    · split
      · exact onlySid_mk mem_map_tag mem_single
      · exact onlySid_mk mem_map_tag mem_nil
  · exact onlySid_mk mem_map_tag mem_single

theorem afterSend_onlySid (sid : Sid) (s : SStream α) (o : Out α) (ho : Out.onlySid sid o) :
    Out.onlySid sid (s.afterSend sid o).2 := by
  unfold SStream.afterSend
  split
  · extract_lets err s1
    split; rename_i s2 o2 h2
    refine onlySid_add (onlySid_mk ho.1 ?_) ?_
    · intro d hd
      exact ho.2 d (List.mem_filter.mp hd).1
    · rw [snd_eq h2]; exact finish_onlySid ..
  · exact ho

theorem creditFrames_tag (sid : Sid) (s : SStream α) (credits : List Nat) :
    ∀ f ∈ s.creditFrames sid credits, f.1 = sid := by
  unfold SStream.creditFrames
  split
  · exact mem_map_tag
  · exact mem_nil

theorem resumeRead_onlySid (sid : Sid) (mn : String) (fuel : Nat) (s : SStream α) :
    Out.onlySid sid (s.resumeRead sid mn fuel).2 := by
  induction fuel generalizing s with
  | zero => exact onlySid_empty sid
  | succ fuel ih =>
    unfold SStream.resumeRead
    split
    · exact onlySid_empty sid
    · split
      rename_i rwin q credits out h
      extract_lets cf rcv0 s1 opName failWith e
      have hcf : ∀ f ∈ cf, f.1 = sid := creditFrames_tag sid s credits
      have hfw : ∀ (x : SStream α) (e : SErr) (b : Bool), Out.onlySid sid (failWith x e b).2 := by
        intro x e b
        simp only [failWith]
        split
        · exact onlySid_mk hcf mem_single
        · exact onlySid_add (onlySid_mk hcf mem_single) (finish_onlySid ..)
      split
      · split
        · split
          · exact onlySid_mk hcf mem_single
          · exact hfw ..
        · exact onlySid_mk hcf mem_nil
      · split
        · exact hfw ..
        · split
          · exact onlySid_mk hcf mem_single
          · extract_lets s2
            split; rename_i s3 o3 h3
            refine onlySid_add (onlySid_mk hcf mem_nil) ?_
            rw [snd_eq h3]; exact ih s2
      · exact hfw ..
      · exact onlySid_mk hcf mem_nil

theorem afterDecode_onlySid (sid : Sid) (s : SStream α) (o : Out α) (ho : Out.onlySid sid o) :
    Out.onlySid sid (s.afterDecode sid o).2 := by
  unfold SStream.afterDecode
  split
  · split
    · exact ho
    · extract_lets err
      split; rename_i s2 o2 h2
      refine onlySid_add ho ?_
      rw [snd_eq h2]; exact finish_onlySid ..
    · exact ho
  · exact ho

theorem readAndSettle_onlySid (sid : Sid) (s : SStream α) :
    Out.onlySid sid (s.readAndSettle sid).2 := by
  unfold SStream.readAndSettle
  split; rename_i s1 o1 h1
  apply afterDecode_onlySid
  rw [snd_eq h1]; exact resumeRead_onlySid ..

theorem startRecv_onlySid (sid : Sid) (s : SStream α) :
    Out.onlySid sid (s.startRecv sid).2 := by
  unfold SStream.startRecv
  extract_lets opName
  split
  · exact afterDecode_onlySid _ _ _ (onlySid_done ..)
  · split
    · exact afterDecode_onlySid _ _ _ (onlySid_done ..)
    · exact readAndSettle_onlySid ..

theorem SStream_onFrame_onlySid (cfg : SCfg) (sid : Sid) (s : SStream α) (f : C2S α) :
    Out.onlySid sid (s.onFrame cfg sid f).2 := by
  unfold SStream.onFrame
  split
  · split
    · exact onlySid_empty sid
    · exact readAndSettle_onlySid ..
  · exact finish_onlySid ..
  · split
    · exact onlySid_empty sid
    · extract_lets s1
      split
      · exact onlySid_empty sid
      · split; rename_i s2 o2 h2
        apply afterSend_onlySid
        rw [snd_eq h2]; exact pumpSend_onlySid ..
  · exact finish_onlySid ..
  · exact onlySid_empty sid
  · extract_lets df
    split
    · split
      · exact onlySid_empty sid
      · exact finish_onlySid ..
      · exact readAndSettle_onlySid ..
    · split
      · exact onlySid_empty sid
      · split
        · exact onlySid_empty sid
        · exact readAndSettle_onlySid ..

theorem SStream_onCall_onlySid (cfg : SCfg) (sid : Sid) (s : SStream α) (c : HCall α) :
    Out.onlySid sid (s.onCall cfg sid c).2 := by
  unfold SStream.onCall
  split
  · exact startRecv_onlySid ..
  · split; rename_i s1 hdr h1
    have hhdr : ∀ f ∈ hdr, f.1 = sid := by
      rw [snd_eq h1]
      split
      · exact mem_nil
      · exact mem_single
    split
    · exact onlySid_mk hhdr mem_single
    · split; rename_i s2 o2 h2
      refine onlySid_add (onlySid_mk hhdr mem_nil) ?_
      rw [snd_eq h2]; exact pumpSend_onlySid ..
  · split
    · exact onlySid_done ..
    · exact onlySid_done ..
  · split
    · exact onlySid_done ..
    · exact onlySid_mk mem_single mem_single
  · split
    · exact onlySid_done ..
    · exact onlySid_done ..
  · extract_lets err
    split; rename_i s1 o1 h1
    refine onlySid_add ?_ (onlySid_events ..)
    rw [snd_eq h1]; exact finish_onlySid ..
  · split; rename_i s1 hdr h1
    have hhdr : ∀ f ∈ hdr, f.1 = sid := by
      rw [snd_eq h1]
      split
      · exact mem_nil
      · exact mem_single
    split; rename_i s2 o2 h2
    split; rename_i s3 o3 h3
    show Out.onlySid sid o3
    rw [snd_eq h3]
    apply afterSend_onlySid
    refine onlySid_add (onlySid_mk hhdr mem_nil) ?_
    rw [snd_eq h2]; exact pumpSend_onlySid ..

/-! ### endpoint level -/

theorem frame_local (cfg : SCfg) (s : Srv α) (sid : Sid) (f : C2S α) (st : SStream α)
    (hret : s.returned = none) (hnew : ∀ m md rev win, f ≠ .newStream m md rev win)
    (hst : s.getStream sid = some st) :
    Out.onlySid sid (s.onFrame cfg sid f).2 := by
  cases f with
  | newStream m md rev win => exact absurd rfl (hnew m md rev win)
  | msg size d =>
    simp only [Srv.onFrame, hret, hst, Option.isSome_none, Bool.false_eq_true, if_false]
    exact SStream_onFrame_onlySid ..
  | more d =>
    simp only [Srv.onFrame, hret, hst, Option.isSome_none, Bool.false_eq_true, if_false]
    exact SStream_onFrame_onlySid ..
  | halfClose =>
    simp only [Srv.onFrame, hret, hst, Option.isSome_none, Bool.false_eq_true, if_false]
    exact SStream_onFrame_onlySid ..
  | cancel =>
    simp only [Srv.onFrame, hret, hst, Option.isSome_none, Bool.false_eq_true, if_false]
    exact SStream_onFrame_onlySid ..
  | windowUpdate n =>
    simp only [Srv.onFrame, hret, hst, Option.isSome_none, Bool.false_eq_true, if_false]
    exact SStream_onFrame_onlySid ..
  | unset =>
    simp only [Srv.onFrame, hret, hst, Option.isSome_none, Bool.false_eq_true, if_false]
    exact SStream_onFrame_onlySid ..

theorem call_local (cfg : SCfg) (s : Srv α) (sid : Sid) (c : HCall α) :
    Out.onlySid sid (s.onCall cfg sid c).2 := by
  unfold Srv.onCall
  split
  · exact onlySid_events ..
  · split; rename_i st' o h
    show Out.onlySid sid o
    rw [snd_eq h]; exact SStream_onCall_onlySid ..

theorem serveReturns_returned (s : Srv α) (err : Option String) :
    (s.serveReturns err).1.returned = some err := by
  simp [Srv.serveReturns]

theorem rejectFrame_onlySid (sid : Sid) (code : Nat) (msg : String) :
    Out.onlySid sid (rejectFrame sid code msg : Out α) := by
  unfold rejectFrame
  exact onlySid_mk mem_single mem_nil

theorem createStream_local (cfg : SCfg) (s : Srv α) (sid : Sid) (m : List Nat) (md : MD) (rev : Int) (win : Nat)
    (hok : (s.createStream cfg sid m md rev win).1.returned = none) :
    Out.onlySid sid (s.createStream cfg sid m md rev win).2 := by
  unfold Srv.createStream at hok ⊢
  split at hok
  · rw [serveReturns_returned] at hok; cases hok
  · rename_i h1
    rw [if_neg h1]
    split at hok
    · rw [serveReturns_returned] at hok; cases hok
    · rename_i h2
      rw [if_neg h2]
      clear hok
      extract_lets s'
      split
      · exact rejectFrame_onlySid ..
      · split
        · exact rejectFrame_onlySid ..
        · split
          · exact rejectFrame_onlySid ..
          · exact rejectFrame_onlySid ..
          · split; rename_i unary cs ss hf
            extract_lets st ev
            split
            · split; rename_i st' o h
              show Out.onlySid sid o
              rw [snd_eq h]; exact startRecv_onlySid ..
            · exact onlySid_events ..

theorem newStream_local (cfg : SCfg) (s : Srv α) (sid : Sid) (m : List Nat) (md : MD) (rev : Int) (win : Nat)
    (hret : s.returned = none)
    (hok : (s.onFrame cfg sid (.newStream m md rev win)).1.returned = none) :
    Out.onlySid sid (s.onFrame cfg sid (.newStream m md rev win)).2 := by
  simp only [Srv.onFrame, hret, Option.isSome_none, Bool.false_eq_true, if_false] at hok ⊢
  exact createStream_local cfg s sid m md rev win hok

theorem setAny_keeps_others (s : Srv α) (sid : Sid) (st' : SStream α) :
    ∀ e ∈ s.streams, e.1 ≠ sid → e ∈ (s.setAny sid st').streams := by
  intro e he hne
  apply List.mem_map.mpr
  refine ⟨e, he, ?_⟩
  have : (e.1 == sid) = false := by simpa using hne
  simp [this]

theorem call_state_local (cfg : SCfg) (s : Srv α) (sid : Sid) (c : HCall α) :
    (s.onCall cfg sid c).1.returned = s.returned ∧ (s.onCall cfg sid c).1.lastSeen = s.lastSeen ∧
    (s.onCall cfg sid c).1.closing = s.closing ∧
    ∀ e ∈ s.streams, e.1 ≠ sid → e ∈ (s.onCall cfg sid c).1.streams := by
  unfold Srv.onCall
  split
  · exact ⟨rfl, rfl, rfl, fun e he _ => he⟩
  · split; rename_i st' o h
    exact ⟨rfl, rfl, rfl, setAny_keeps_others s sid st'⟩

theorem call_never_ends_tunnel (cfg : SCfg) (s : Srv α) (sid : Sid) (c : HCall α) :
    (s.onCall cfg sid c).1.returned = s.returned := (call_state_local cfg s sid c).1

theorem tick_never_ends_tunnel (s : Srv α) (d : Nat) : (s.tick d).1.returned = s.returned := by
  simp [Srv.tick]

theorem tick_go_emits_known (now : Nat) (l : List (Sid × SStream α)) :
    (∀ f ∈ (Srv.tick.go now l).2.frames, f.1 ∈ l.map (·.1)) ∧
    (∀ x ∈ (Srv.tick.go now l).2.dones, x.1 ∈ l.map (·.1)) := by
  induction l with
  | nil =>
    simp only [Srv.tick.go]
    exact ⟨fun f hf => (by cases hf), fun x hx => (by cases hx)⟩
  | cons e rest ih =>
    obtain ⟨sid, st⟩ := e
    have hloc : Out.onlySid sid
        (match st.deadline with
          | some dl => if dl ≤ now then st.cancelCtx sid .deadline else (st, {})
          | none => (st, ({} : Out α))).2 := by
      split
      · split
        · exact cancelCtx_onlySid ..
        · exact onlySid_empty sid
      · exact onlySid_empty sid
    simp only [Srv.tick.go, Out.add, List.map_cons, List.mem_cons, List.mem_append]
    refine ⟨fun f hf => ?_, fun x hx => ?_⟩
    · rcases hf with h | h
      · exact Or.inl (hloc.1 f h)
      · exact Or.inr (ih.1 f h)
    · rcases hx with h | h
      · exact Or.inl (hloc.2 x h)
      · exact Or.inr (ih.2 x h)

theorem tick_emits_known (s : Srv α) (d : Nat) :
    (∀ f ∈ (s.tick d).2.frames, f.1 ∈ s.streams.map (·.1)) ∧
    (∀ x ∈ (s.tick d).2.dones, x.1 ∈ s.streams.map (·.1)) := by
  simp only [Srv.tick]
  exact tick_go_emits_known (s.now + d) s.streams

-- non-vacuity: a refused new_stream (empty method) on a fresh endpoint keeps the tunnel up and emits for its own id only
example :
    (({} : Srv Nat).onFrame {} 0 (.newStream [] [] 1 65536)).1.returned = none ∧
    ((({} : Srv Nat).onFrame {} 0 (.newStream [] [] 1 65536)).2.frames.map (·.1)) = [0] := by decide

end Proofs.ServerLocal

#print axioms Proofs.ServerLocal.SStream_onFrame_onlySid
#print axioms Proofs.ServerLocal.SStream_onCall_onlySid
#print axioms Proofs.ServerLocal.frame_local
#print axioms Proofs.ServerLocal.call_local
#print axioms Proofs.ServerLocal.newStream_local
#print axioms Proofs.ServerLocal.call_state_local
#print axioms Proofs.ServerLocal.call_never_ends_tunnel
#print axioms Proofs.ServerLocal.tick_never_ends_tunnel
#print axioms Proofs.ServerLocal.tick_emits_known
