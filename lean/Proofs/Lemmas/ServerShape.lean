import TunnelModel.LFrame.Server
/-!
  C16 (server side) — the call shape of a method with a NON-streaming request
  is enforced by the server half of a stream (`SStream`, `cs = false`).

  Main results (all for an arbitrary initial stream state with `cs = false`,
  no freshness assumption is needed, and for arbitrary lists of stream-level
  operations `SOp`: any frame from any peer, any handler call, any context end):

  * `C16_server_at_most_one`: the total number of request messages delivered
    to the handler (completions `(sid, "recv"/"decode", Res.msg _)`) is ≤ 1;
  * `C16_server_delivered_then_done`: once one has been delivered the read side
    is `Done` (sticky `readErr` set, no pending read);
  * `C16_server_reads_fail_after_delivery`: after the delivery, whatever happens
    next, nothing more is delivered and a `RecvMsg` returns the sticky error;
  * `runOps_done` / `recv_when_done`: the same from any `Done` state (any `cs`);
  * `C16_second_request_fails`: the look-ahead read that finds a complete second
    message completes the call with `InvalidArgument`, delivers nothing, sets
    the sticky error and finishes the stream (close frame `InvalidArgument`).

  Nothing had to be weakened: there is no `_partial` theorem in this file.

  The operations of `SOp` are exactly what the endpoint (`Srv.step`) applies to
  a stream object: `SStream.onFrame` (`Srv.onFrame`), `SStream.onCall`
  (`Srv.onCall`; `Srv.createStream` runs `startRecv = onCall .recv` for unary
  methods), `SStream.cancelCtx` (`Srv.tick`, `Srv.serveReturns`).

  Proof structure: every building block of the model other than `resumeRead`
  is `Quiet` (it keeps `cs`, and if no read is pending it keeps `pread = none`
  and `readErr`) and delivers nothing; `resumeRead` on a `cs = false` stream
  delivers at most one message and then leaves a `Done` state
  (`resumeRead_spec`); with no pending read it is a no-op (`resumeRead_none`).
  `StepSpec` packages the resulting two-phase contract of a step.
-/
namespace Proofs.ServerShape
open TunnelModel.LFrame TunnelModel.Framing

variable {α : Type}

/-- a handler-call result that hands a request message to the handler -/
def isMsg : Res α → Bool
  | .msg _ => true
  | _ => false

/-- number of request messages delivered to the handler by one step's output -/
def delivered (o : Out α) : Nat := (o.dones.filter (fun d => isMsg d.2.2)).length

/-- `delivered` spelled out without the helper `isMsg` -/
theorem delivered_def (o : Out α) :
    delivered o = (o.dones.filter (fun d => match d.2.2 with | .msg _ => true | _ => false)).length := rfl

theorem delivered_add (a b : Out α) : delivered (a.add b) = delivered a + delivered b := by
  simp [delivered, Out.add, List.filter_append]

theorem delivered_of_dones_nil (o : Out α) (h : o.dones = []) : delivered o = 0 := by
  simp [delivered, h]

@[simp] theorem delivered_empty : delivered ({} : Out α) = 0 := rfl

@[simp] theorem delivered_mk_nil (fr : List (Sid × S2C α)) (ev : List String) :
    delivered ({ frames := fr, dones := [], events := ev } : Out α) = 0 := rfl

theorem delivered_single (fr : List (Sid × S2C α)) (ev : List String) (sid : Sid) (n : String) (r : Res α) :
    delivered ({ frames := fr, dones := [(sid, n, r)], events := ev } : Out α) = if isMsg r then 1 else 0 := by
  cases h : isMsg r <;> simp [delivered, h]

@[simp] theorem isMsg_toRes (e : SErr) : isMsg (e.toRes : Res α) = false := by
  cases e <;> rfl

@[simp] theorem isMsg_ctx (e : CtxErr) : isMsg (Res.ctx e : Res α) = false := rfl
@[simp] theorem isMsg_ok : isMsg (Res.ok : Res α) = false := rfl
@[simp] theorem isMsg_status (c : Nat) : isMsg (Res.status c : Res α) = false := rfl
@[simp] theorem isMsg_other (t : String) : isMsg (Res.other t : Res α) = false := rfl
@[simp] theorem isMsg_msg (m : List α) : isMsg (Res.msg m : Res α) = true := rfl

/-- "the request message has been handed over (or the read side has failed)":
    the sticky read error is set and no read is pending -/
def Done (s : SStream α) : Prop := s.readErr.isSome = true ∧ s.pread = none

/-- a building block that never touches the read side unless a read is pending -/
structure Quiet (s s' : SStream α) : Prop where
  cs : s'.cs = s.cs
  keep : s.pread = none → s'.pread = none ∧ s'.readErr = s.readErr

theorem Quiet.refl (s : SStream α) : Quiet s s := ⟨rfl, fun h => ⟨h, rfl⟩⟩

theorem Quiet.trans {a b c : SStream α} (h1 : Quiet a b) (h2 : Quiet b c) : Quiet a c :=
  ⟨h2.cs.trans h1.cs, fun h => by
    have := h1.keep h
    have h3 := h2.keep this.1
    exact ⟨h3.1, h3.2.trans this.2⟩⟩

theorem Quiet.done {s s' : SStream α} (h : Quiet s s') (hd : Done s) : Done s' := by
  obtain ⟨h1, h2⟩ := hd
  have := h.keep h2
  exact ⟨by rw [this.2]; exact h1, this.1⟩

/-! ### `finishCore`, `cancelCtx`, `finish` -/

theorem finishCore_fields (sid : Sid) (s : SStream α) (err : Option SErr) :
    (s.finishCore sid err).1.cs = s.cs ∧ (s.finishCore sid err).1.pread = s.pread ∧
    (s.finishCore sid err).1.readErr = s.readErr ∧ (s.finishCore sid err).2.dones = [] := by
  simp only [SStream.finishCore, SStream.halfClose]
  split <;> split <;> simp

theorem finishCore_hstatus (sid : Sid) (s : SStream α) (err : Option SErr) :
    (s.finishCore sid err).1.hstatus = s.hstatus := by
  simp only [SStream.finishCore, SStream.halfClose]
  split <;> split <;> simp

theorem finishCore_quiet (sid : Sid) (s : SStream α) (err : Option SErr) :
    Quiet s (s.finishCore sid err).1 := by
  have h := finishCore_fields sid s err
  exact ⟨h.1, fun hp => ⟨by rw [h.2.1]; exact hp, h.2.2.1⟩⟩

theorem finishCore_delivered (sid : Sid) (s : SStream α) (err : Option SErr) :
    delivered (s.finishCore sid err).2 = 0 :=
  delivered_of_dones_nil _ (finishCore_fields sid s err).2.2.2

theorem cancelCtx_raw (sid : Sid) (s : SStream α) (e : CtxErr) :
    (s.cancelCtx sid e).1.cs = s.cs ∧
    (s.pread = none → (s.cancelCtx sid e).1.pread = none ∧ (s.cancelCtx sid e).1.readErr = s.readErr) ∧
    delivered (s.cancelCtx sid e).2 = 0 := by
  unfold SStream.cancelCtx
  by_cases h : s.ctxDone.isSome = true
  · rw [if_pos h]
    exact ⟨rfl, fun hp => ⟨hp, rfl⟩, rfl⟩
  · rw [if_neg h]
    cases hps : s.psend with
    | none =>
      cases hpr : s.pread with
      | none => simp [delivered_add]
      | some p =>
        by_cases hd : (s.hstatus == HStatus.decoding) = true
        · simp [hd, finishCore_fields, delivered_add, finishCore_delivered, delivered_single]
        · simp [hd, delivered_add, delivered_single]
    | some snd =>
      by_cases hf : s.finishAfterSend = true
      · cases hpr : s.pread with
        | none => simp [hf, finishCore_fields, delivered_add, finishCore_delivered]
        | some p =>
          have hh : ∀ x : SStream α, x.hstatus = .returned →
              ((x.finishCore sid (some (.ctx e))).1.hstatus == HStatus.decoding) = false := by
            intro x hx; rw [finishCore_hstatus, hx]; rfl
          simp [hf, hh, finishCore_fields, delivered_add, finishCore_delivered, delivered_single]
      · cases hpr : s.pread with
        | none => simp [hf, delivered_add, delivered_single]
        | some p =>
          by_cases hd : (s.hstatus == HStatus.decoding) = true
          · simp [hf, hd, finishCore_fields, delivered_add, finishCore_delivered, delivered_single]
          · simp [hf, hd, delivered_add, delivered_single]

theorem cancelCtx_quiet (sid : Sid) (s : SStream α) (e : CtxErr) : Quiet s (s.cancelCtx sid e).1 :=
  ⟨(cancelCtx_raw sid s e).1, (cancelCtx_raw sid s e).2.1⟩

theorem cancelCtx_delivered (sid : Sid) (s : SStream α) (e : CtxErr) : delivered (s.cancelCtx sid e).2 = 0 :=
  (cancelCtx_raw sid s e).2.2

theorem finish_quiet (sid : Sid) (s : SStream α) (err : Option SErr) (b : Bool) :
    Quiet s (s.finish sid err b).1 := by
  simp only [SStream.finish]
  exact (finishCore_quiet sid s _).trans (cancelCtx_quiet sid _ _)

theorem finish_delivered (sid : Sid) (s : SStream α) (err : Option SErr) (b : Bool) :
    delivered (s.finish sid err b).2 = 0 := by
  simp only [SStream.finish, delivered_add, cancelCtx_delivered, finishCore_delivered]

/-! ### the send side -/

theorem pumpSend_raw (cfg : SCfg) (sid : Sid) (s : SStream α) (snd : Snd α) :
    (s.pumpSend cfg sid snd).1.cs = s.cs ∧ (s.pumpSend cfg sid snd).1.pread = s.pread ∧
    (s.pumpSend cfg sid snd).1.readErr = s.readErr ∧ delivered (s.pumpSend cfg sid snd).2 = 0 := by
  unfold SStream.pumpSend
  repeat' split
  all_goals simp [delivered_single]

theorem pumpSend_quiet (cfg : SCfg) (sid : Sid) (s : SStream α) (snd : Snd α) :
    Quiet s (s.pumpSend cfg sid snd).1 := by
  have h := pumpSend_raw cfg sid s snd
  exact ⟨h.1, fun hp => ⟨by rw [h.2.1]; exact hp, h.2.2.1⟩⟩

theorem delivered_filter_le (o : Out α) (p : Sid × String × Res α → Bool) :
    delivered ({ o with dones := o.dones.filter p } : Out α) ≤ delivered o := by
  exact (List.Sublist.filter _ List.filter_sublist).length_le

theorem afterSend_quiet (sid : Sid) (s : SStream α) (o : Out α) : Quiet s (s.afterSend sid o).1 := by
  unfold SStream.afterSend
  split
  · dsimp only
    exact Quiet.trans (b := { s with finishAfterSend := false, hstatus := .returned })
      ⟨rfl, fun hp => ⟨hp, rfl⟩⟩ (finish_quiet sid _ _ _)
  · exact Quiet.refl s

theorem afterSend_delivered (sid : Sid) (s : SStream α) (o : Out α) (ho : delivered o = 0) :
    delivered (s.afterSend sid o).2 = 0 := by
  unfold SStream.afterSend
  split
  · simp only [delivered_add, finish_delivered, Nat.add_zero]
    have := delivered_filter_le o (fun d => d.2.1 != "send")
    omega
  · exact ho

/-! ### the read side -/

theorem finish_cs (sid : Sid) (s : SStream α) (err : Option SErr) (b : Bool) :
    (s.finish sid err b).1.cs = s.cs := (finish_quiet sid s err b).cs

theorem afterDecode_quiet (sid : Sid) (s : SStream α) (o : Out α) : Quiet s (s.afterDecode sid o).1 := by
  unfold SStream.afterDecode
  split
  · split
    · exact ⟨rfl, fun hp => ⟨hp, rfl⟩⟩
    · dsimp only
      exact Quiet.trans (b := { s with hstatus := .returned }) ⟨rfl, fun hp => ⟨hp, rfl⟩⟩ (finish_quiet sid _ _ _)
    · exact Quiet.refl s
  · exact Quiet.refl s

theorem afterDecode_delivered (sid : Sid) (s : SStream α) (o : Out α) :
    delivered (s.afterDecode sid o).2 = delivered o := by
  unfold SStream.afterDecode
  split
  · split
    · rfl
    · simp only [delivered_add, finish_delivered, Nat.add_zero]
    · rfl
  · rfl

theorem resumeRead_none (sid : Sid) (mn : String) (fuel : Nat) (s : SStream α) (h : s.pread = none) :
    s.resumeRead sid mn fuel = (s, {}) := by
  cases fuel <;> simp [SStream.resumeRead, h]

theorem resumeRead_spec (sid : Sid) (mn : String) : ∀ (fuel : Nat) (s : SStream α), s.cs = false →
    (s.resumeRead sid mn fuel).1.cs = false ∧ delivered (s.resumeRead sid mn fuel).2 ≤ 1 ∧
    (delivered (s.resumeRead sid mn fuel).2 = 1 → Done (s.resumeRead sid mn fuel).1) := by
  intro fuel
  induction fuel with
  | zero => intro s h; simp [SStream.resumeRead, h]
  | succ n ih =>
    intro s h
    rw [SStream.resumeRead]
    split
    · simp [h]
    · rename_i p hp
      split
      rename_i rwin q credits out hrl
      dsimp only
      split
      · -- the queue ran dry
        split
        · split
          · simp [h, delivered_single, Done]
          · simp [h, delivered_single]
        · simp [h]
      · -- a complete message
        split
        · simp [h, delivered_single, delivered_add, finish_delivered, finish_cs]
        · simp only [h, Bool.false_eq_true, if_false]
          simp only [delivered_add, delivered_mk_nil, Nat.zero_add]
          exact ih _ rfl
      · simp [h, delivered_single, delivered_add, finish_delivered, finish_cs]
      · simp [h]

/-! ### what every stream-level step satisfies -/

/-- the two-phase contract of a step from `s` with result `r`:
    * on a stream with a non-streaming request the step delivers at most one
      message, and if it delivers one the read side is `Done` afterwards;
    * from a `Done` state the step delivers nothing and stays `Done`. -/
structure StepSpec (s : SStream α) (r : SStream α × Out α) : Prop where
  cs : s.cs = false → r.1.cs = false
  le_one : s.cs = false → delivered r.2 ≤ 1
  then_done : s.cs = false → delivered r.2 = 1 → Done r.1
  done_stays : Done s → delivered r.2 = 0 ∧ Done r.1

theorem StepSpec.of_quiet {s : SStream α} {r : SStream α × Out α} (hq : Quiet s r.1) (ho : delivered r.2 = 0) :
    StepSpec s r :=
  ⟨fun h => by rw [hq.cs]; exact h, fun _ => by omega, fun _ h1 => by omega, fun hd => ⟨ho, hq.done hd⟩⟩

theorem StepSpec.id (s : SStream α) : StepSpec s (s, {}) := StepSpec.of_quiet (Quiet.refl s) rfl

theorem readAndSettle_spec (sid : Sid) (s : SStream α) : StepSpec s (s.readAndSettle sid) := by
  unfold SStream.readAndSettle
  dsimp only
  have hq := afterDecode_quiet sid (s.resumeRead sid "" 3).1 (s.resumeRead sid "" 3).2
  have hd := afterDecode_delivered sid (s.resumeRead sid "" 3).1 (s.resumeRead sid "" 3).2
  refine ⟨fun h => ?_, fun h => ?_, fun h h1 => ?_, fun hdone => ?_⟩
  · rw [hq.cs]; exact (resumeRead_spec sid "" 3 s h).1
  · rw [hd]; exact (resumeRead_spec sid "" 3 s h).2.1
  · rw [hd] at h1; exact hq.done ((resumeRead_spec sid "" 3 s h).2.2 h1)
  · rw [resumeRead_none sid "" 3 s hdone.2] at hq hd ⊢
    exact ⟨hd, hq.done hdone⟩

theorem startRecv_spec (sid : Sid) (s : SStream α) : StepSpec s (s.startRecv sid) := by
  unfold SStream.startRecv
  dsimp only
  split
  · rename_i e he
    exact StepSpec.of_quiet (afterDecode_quiet sid s _)
      (by rw [afterDecode_delivered]; simp [delivered_single])
  · rename_i he
    have hnd : ¬ Done s := by intro hd; have := hd.1; rw [he] at this; exact absurd this (by simp)
    split
    · rename_i c hc
      have hq := afterDecode_quiet sid ({ s with readErr := some (.ctx c) } : SStream α)
        { dones := [(sid, if (s.hstatus == HStatus.decoding) = true then "decode" else "recv", .ctx c)] }
      have hd : delivered (({ s with readErr := some (.ctx c) } : SStream α).afterDecode sid
          { dones := [(sid, if (s.hstatus == HStatus.decoding) = true then "decode" else "recv", .ctx c)] }).2 = 0 := by
        rw [afterDecode_delivered]; simp [delivered_single]
      refine ⟨fun h => ?_, fun h => ?_, fun h h1 => ?_, fun hdone => absurd hdone hnd⟩
      · rw [hq.cs]; exact h
      · rw [hd]; omega
      · rw [hd] at h1; omega
    · have hs := readAndSettle_spec sid ({ s with pread := some { lookahead := none, rst := none } } : SStream α)
      exact ⟨fun h => hs.cs h, fun h => hs.le_one h, fun h h1 => hs.then_done h h1, fun hdone => absurd hdone hnd⟩

/-- the contract only looks at `cs`, `pread`, `readErr` of the pre-state -/
theorem StepSpec.pre {s s0 : SStream α} {r : SStream α × Out α} (h : StepSpec s0 r)
    (hcs : s0.cs = s.cs) (hp : s0.pread = s.pread) (he : s0.readErr = s.readErr) : StepSpec s r := by
  have hdone : Done s → Done s0 := fun hd => ⟨by rw [he]; exact hd.1, by rw [hp]; exact hd.2⟩
  exact ⟨fun hc => h.cs (hcs.trans hc), fun hc => h.le_one (hcs.trans hc),
    fun hc h1 => h.then_done (hcs.trans hc) h1, fun hd => h.done_stays (hdone hd)⟩

theorem dataFrame_spec (sid : Sid) (s : SStream α) (df : DFrame α) :
    StepSpec s
      (if s.fc then
        match s.rcv.accept df with
        | (_, .dropped) => (s, {})
        | (_, .windowExceeded) => s.finish sid (some errFlowControl) true
        | (r, .ok) => ({ s with rcv := r } : SStream α).readAndSettle sid
      else
        if s.rcv.closed then (s, {})
        else if !s.rcv.queue.isEmpty then ({ s with unsupported := true }, {})
        else ({ s with rcv := { s.rcv with queue := [df] } } : SStream α).readAndSettle sid) := by
  split
  · split
    · exact StepSpec.id s
    · exact StepSpec.of_quiet (finish_quiet sid s _ _) (finish_delivered sid s _ _)
    · exact (readAndSettle_spec sid _).pre rfl rfl rfl
  · split
    · exact StepSpec.id s
    · split
      · exact StepSpec.of_quiet ⟨rfl, fun hp => ⟨hp, rfl⟩⟩ rfl
      · exact (readAndSettle_spec sid _).pre rfl rfl rfl

theorem onFrame_spec (cfg : SCfg) (sid : Sid) (s : SStream α) (f : C2S α) :
    StepSpec s (s.onFrame cfg sid f) := by
  cases f with
  | newStream m md rev win => exact StepSpec.id s
  | msg size d => exact dataFrame_spec sid s (.env size d)
  | more d => exact dataFrame_spec sid s (.more d)
  | halfClose =>
    simp only [SStream.onFrame]
    split
    · exact StepSpec.id s
    · rename_i hh
      have : s.halfClose .eof = { s with halfClosed := some .eof, rcv := s.rcv.close } := by
        simp [SStream.halfClose, hh]
      rw [this]
      exact (readAndSettle_spec sid _).pre rfl rfl rfl
  | cancel => exact StepSpec.of_quiet (finish_quiet sid s _ _) (finish_delivered sid s _ _)
  | windowUpdate n =>
    simp only [SStream.onFrame]
    split
    · exact StepSpec.id s
    · split
      · exact StepSpec.of_quiet ⟨rfl, fun hp => ⟨hp, rfl⟩⟩ rfl
      · rename_i snd hsnd
        refine StepSpec.of_quiet ?_ ?_
        · exact Quiet.trans (b := { s with win := wrap32 (s.win + n) }) ⟨rfl, fun hp => ⟨hp, rfl⟩⟩
            ((pumpSend_quiet cfg sid _ snd).trans (afterSend_quiet sid _ _))
        · exact afterSend_delivered sid _ _ (pumpSend_raw cfg sid _ snd).2.2.2
  | unset => exact StepSpec.of_quiet (finish_quiet sid s _ _) (finish_delivered sid s _ _)

theorem quiet_of_fields {s s' : SStream α} (hcs : s'.cs = s.cs) (hp : s'.pread = s.pread)
    (he : s'.readErr = s.readErr) : Quiet s s' :=
  ⟨hcs, fun h => ⟨by rw [hp]; exact h, he⟩⟩

theorem onCall_spec (cfg : SCfg) (sid : Sid) (s : SStream α) (c : HCall α) :
    StepSpec s (s.onCall cfg sid c) := by
  cases c with
  | recv => exact startRecv_spec sid s
  | send m =>
    simp only [SStream.onCall]
    by_cases hh : s.sentHeaders = true
    · rw [if_pos hh]
      dsimp only
      split
      · exact StepSpec.of_quiet (Quiet.refl s) (by simp [delivered_single])
      · refine StepSpec.of_quiet ?_ ?_
        · exact Quiet.trans (b := { s with numSent := s.numSent + 1 }) (quiet_of_fields rfl rfl rfl)
            (pumpSend_quiet cfg sid _ _)
        · simp only [delivered_add, delivered_mk_nil, Nat.zero_add]
          exact (pumpSend_raw cfg sid _ _).2.2.2
    · rw [if_neg hh]
      dsimp only
      split
      · exact StepSpec.of_quiet (quiet_of_fields rfl rfl rfl) (by simp [delivered_single])
      · refine StepSpec.of_quiet ?_ ?_
        · exact Quiet.trans (b := { s with sentHeaders := true, headers := [], numSent := s.numSent + 1 })
            (quiet_of_fields rfl rfl rfl) (pumpSend_quiet cfg sid _ _)
        · simp only [delivered_add, delivered_mk_nil, Nat.zero_add]
          exact (pumpSend_raw cfg sid _ _).2.2.2
  | setHeader md =>
    simp only [SStream.onCall]
    split
    · exact StepSpec.of_quiet (Quiet.refl s) (by simp [delivered_single])
    · exact StepSpec.of_quiet (quiet_of_fields rfl rfl rfl) (by simp [delivered_single])
  | sendHeader md =>
    simp only [SStream.onCall]
    split
    · exact StepSpec.of_quiet (Quiet.refl s) (by simp [delivered_single])
    · exact StepSpec.of_quiet (quiet_of_fields rfl rfl rfl) (by simp [delivered_single])
  | setTrailer md =>
    simp only [SStream.onCall]
    split
    · exact StepSpec.of_quiet (Quiet.refl s) (by simp [delivered_single])
    · exact StepSpec.of_quiet (quiet_of_fields rfl rfl rfl) (by simp [delivered_single])
  | ret st =>
    simp only [SStream.onCall]
    refine StepSpec.of_quiet ?_ ?_
    · dsimp only
      exact Quiet.trans (b := { s with hstatus := .returned }) (quiet_of_fields rfl rfl rfl)
        (finish_quiet sid _ _ _)
    · simp only [delivered_add, finish_delivered, delivered_mk_nil]
  | reply m =>
    simp only [SStream.onCall]
    by_cases hh : s.sentHeaders = true
    · rw [if_pos hh]
      dsimp only
      refine StepSpec.of_quiet ?_ ?_
      · exact Quiet.trans (b := { s with numSent := s.numSent + 1, finishAfterSend := true })
          (quiet_of_fields rfl rfl rfl) ((pumpSend_quiet cfg sid _ _).trans (afterSend_quiet sid _ _))
      · apply afterSend_delivered
        simp only [delivered_add, delivered_mk_nil, Nat.zero_add]
        exact (pumpSend_raw cfg sid _ _).2.2.2
    · rw [if_neg hh]
      dsimp only
      refine StepSpec.of_quiet ?_ ?_
      · exact Quiet.trans
          (b := { s with sentHeaders := true, headers := [], numSent := s.numSent + 1, finishAfterSend := true })
          (quiet_of_fields rfl rfl rfl) ((pumpSend_quiet cfg sid _ _).trans (afterSend_quiet sid _ _))
      · apply afterSend_delivered
        simp only [delivered_add, delivered_mk_nil, Nat.zero_add]
        exact (pumpSend_raw cfg sid _ _).2.2.2

theorem cancelCtx_spec (sid : Sid) (s : SStream α) (e : CtxErr) : StepSpec s (s.cancelCtx sid e) :=
  StepSpec.of_quiet (cancelCtx_quiet sid s e) (cancelCtx_delivered sid s e)

/-! ### runs of stream-level operations -/

/-- everything that can happen to one stream object: a frame of any kind from
    any peer, a call by the handler, the end of the stream context (cancel,
    deadline, `serve` returning) -/
inductive SOp (α : Type) where
  | frame (f : C2S α)
  | call (c : HCall α)
  | ctx (e : CtxErr)

def stepOp (cfg : SCfg) (sid : Sid) (s : SStream α) : SOp α → SStream α × Out α
  | .frame f => s.onFrame cfg sid f
  | .call c => s.onCall cfg sid c
  | .ctx e => s.cancelCtx sid e

/-- run a list of operations; the second component is the total number of
    request messages delivered to the handler -/
def runOps (cfg : SCfg) (sid : Sid) : SStream α → List (SOp α) → SStream α × Nat
  | s, [] => (s, 0)
  | s, op :: ops =>
    let r := stepOp cfg sid s op
    let r2 := runOps cfg sid r.1 ops
    (r2.1, delivered r.2 + r2.2)

theorem stepOp_spec (cfg : SCfg) (sid : Sid) (s : SStream α) (op : SOp α) :
    StepSpec s (stepOp cfg sid s op) := by
  cases op with
  | frame f => exact onFrame_spec cfg sid s f
  | call c => exact onCall_spec cfg sid s c
  | ctx e => exact cancelCtx_spec sid s e

theorem runOps_append (cfg : SCfg) (sid : Sid) (ops1 ops2 : List (SOp α)) : ∀ (s : SStream α),
    runOps cfg sid s (ops1 ++ ops2) =
      ((runOps cfg sid (runOps cfg sid s ops1).1 ops2).1,
       (runOps cfg sid s ops1).2 + (runOps cfg sid (runOps cfg sid s ops1).1 ops2).2) := by
  induction ops1 with
  | nil => intro s; simp [runOps]
  | cons op ops ih =>
    intro s
    simp only [List.cons_append, runOps, ih, Nat.add_assoc]

/-- once `Done`, always `Done`, and nothing is delivered any more (any `cs`) -/
theorem runOps_done (cfg : SCfg) (sid : Sid) (ops : List (SOp α)) : ∀ (s : SStream α), Done s →
    (runOps cfg sid s ops).2 = 0 ∧ Done (runOps cfg sid s ops).1 := by
  induction ops with
  | nil => intro s h; exact ⟨rfl, h⟩
  | cons op ops ih =>
    intro s h
    have h1 := (stepOp_spec cfg sid s op).done_stays h
    have h2 := ih _ h1.2
    simp only [runOps]
    exact ⟨by omega, h2.2⟩

theorem runOps_cs (cfg : SCfg) (sid : Sid) (ops : List (SOp α)) : ∀ (s : SStream α), s.cs = false →
    (runOps cfg sid s ops).1.cs = false := by
  induction ops with
  | nil => intro s h; exact h
  | cons op ops ih =>
    intro s h
    simp only [runOps]
    exact ih _ ((stepOp_spec cfg sid s op).cs h)

/-- at most one request, see `C16_server_at_most_one` -/
theorem at_most_one_aux (cfg : SCfg) (sid : Sid) (ops : List (SOp α)) : ∀ (s0 : SStream α),
    s0.cs = false → (runOps cfg sid s0 ops).2 ≤ 1 := by
  induction ops with
  | nil => intro s h; simp [runOps]
  | cons op ops ih =>
    intro s h
    have hs := stepOp_spec cfg sid s op
    simp only [runOps]
    have hle := hs.le_one h
    by_cases h1 : delivered (stepOp cfg sid s op).2 = 1
    · have := (runOps_done cfg sid ops _ (hs.then_done h h1)).1
      omega
    · have := ih _ (hs.cs h)
      omega

/-- **C16 (server), at most one request.**  On a stream whose method has a
    non-streaming request, whatever the peers send, whatever the handler calls
    and whenever its context ends, at most one request message is ever
    delivered to the handler.  (No assumption on the initial state other than
    `cs = false`: in particular it covers the stream object built by
    `Srv.createStream`, whose first operation for a unary method is
    `.call .recv`, i.e. `startRecv`.) -/
theorem C16_server_at_most_one (cfg : SCfg) (sid : Sid) (s0 : SStream α) (h0 : s0.cs = false)
    (ops : List (SOp α)) : (runOps cfg sid s0 ops).2 ≤ 1 :=
  at_most_one_aux cfg sid ops s0 h0

theorem delivered_then_done_aux (cfg : SCfg) (sid : Sid) (ops : List (SOp α)) : ∀ (s0 : SStream α),
    s0.cs = false → (runOps cfg sid s0 ops).2 = 1 → Done (runOps cfg sid s0 ops).1 := by
  induction ops with
  | nil => intro s h h1; simp [runOps] at h1
  | cons op ops ih =>
    intro s h h1
    have hs := stepOp_spec cfg sid s op
    simp only [runOps] at h1 ⊢
    have hle := hs.le_one h
    by_cases h2 : delivered (stepOp cfg sid s op).2 = 1
    · exact (runOps_done cfg sid ops _ (hs.then_done h h2)).2
    · exact ih _ (hs.cs h) (by omega)

/-- **C16 (server), delivery ends the request stream.**  Once the message has
    been delivered the read side is `Done`: the sticky read error is set and no
    read is pending. -/
theorem C16_server_delivered_then_done (cfg : SCfg) (sid : Sid) (s0 : SStream α) (h0 : s0.cs = false)
    (ops : List (SOp α)) (h1 : (runOps cfg sid s0 ops).2 = 1) : Done (runOps cfg sid s0 ops).1 :=
  delivered_then_done_aux cfg sid ops s0 h0 h1

theorem delivered_eq_zero_iff (o : Out α) : delivered o = 0 ↔ ∀ d ∈ o.dones, isMsg d.2.2 = false := by
  simp [delivered, List.filter_eq_nil_iff]

theorem afterDecode_dones (sid : Sid) (s : SStream α) (o : Out α) :
    ∃ rest, (s.afterDecode sid o).2.dones = o.dones ++ rest := by
  unfold SStream.afterDecode
  split
  · split
    · exact ⟨[], by simp⟩
    · exact ⟨_, rfl⟩
    · exact ⟨[], by simp⟩
  · exact ⟨[], by simp⟩

/-- from a `Done` state a `RecvMsg` returns the sticky error (first completion
    of the step; the rest, if any, is the unary handler's return), no completion
    of the step carries a message, and the state stays `Done` -/
theorem recv_when_done (cfg : SCfg) (sid : Sid) (s : SStream α) (hd : Done s) :
    ∃ e rest, s.readErr = some e ∧
      (s.onCall cfg sid .recv).2.dones =
        (sid, (if s.hstatus == .decoding then "decode" else "recv"), e.toRes) :: rest ∧
      (∀ d ∈ (s.onCall cfg sid .recv).2.dones, isMsg d.2.2 = false) ∧
      Done (s.onCall cfg sid .recv).1 := by
  have hspec := (onCall_spec cfg sid s .recv).done_stays hd
  obtain ⟨e, he⟩ := Option.isSome_iff_exists.mp hd.1
  have hdn : ∃ rest, (s.onCall cfg sid .recv).2.dones =
      (sid, (if s.hstatus == .decoding then "decode" else "recv"), e.toRes) :: rest := by
    simp only [SStream.onCall, SStream.startRecv, he]
    obtain ⟨rest, hr⟩ := afterDecode_dones sid s
      { dones := [(sid, (if s.hstatus == .decoding then "decode" else "recv"), e.toRes)] }
    exact ⟨rest, by rw [hr]; rfl⟩
  obtain ⟨rest, hr⟩ := hdn
  exact ⟨e, rest, he, hr, (delivered_eq_zero_iff _).mp hspec.1, hspec.2⟩

/-- **C16 (server), reads after the request fail.**  Once the (single) request
    message has been delivered in a run `ops1`, then after any further
    operations `ops2`: nothing more is delivered, and a `RecvMsg` issued then
    returns the sticky read error, not a message. -/
theorem C16_server_reads_fail_after_delivery (cfg : SCfg) (sid : Sid) (s0 : SStream α) (h0 : s0.cs = false)
    (ops1 ops2 : List (SOp α)) (h1 : (runOps cfg sid s0 ops1).2 = 1) :
    let s := (runOps cfg sid (runOps cfg sid s0 ops1).1 ops2).1
    (runOps cfg sid (runOps cfg sid s0 ops1).1 ops2).2 = 0 ∧
    ∃ e rest, s.readErr = some e ∧
      (s.onCall cfg sid .recv).2.dones =
        (sid, (if s.hstatus == .decoding then "decode" else "recv"), e.toRes) :: rest ∧
      (∀ d ∈ (s.onCall cfg sid .recv).2.dones, isMsg d.2.2 = false) := by
  have hd := C16_server_delivered_then_done cfg sid s0 h0 ops1 h1
  have h2 := runOps_done cfg sid ops2 _ hd
  obtain ⟨e, rest, he, hr, hn, _⟩ := recv_when_done cfg sid _ h2.2
  exact ⟨h2.1, e, rest, he, hr, hn⟩

/-! ### a second request fails the RPC -/

theorem finishCore_closed (sid : Sid) (s : SStream α) (err : Option SErr) :
    (s.finishCore sid err).1.closed = true ∧ (s.finishCore sid err).1.inTable = false := by
  simp only [SStream.finishCore, SStream.halfClose]
  split <;> split <;> simp_all

/-- what `finishCore` puts on the wire for a stream that is not closed yet -/
theorem finishCore_close_frame (sid : Sid) (s : SStream α) (err : Option SErr) (hc : s.closed = false) :
    (sid, S2C.close (SErr.wireStatus err) s.trailers) ∈ (s.finishCore sid err).2.frames := by
  simp only [SStream.finishCore, SStream.halfClose]
  split <;> simp [hc]

theorem cancelCtx_closed (sid : Sid) (s : SStream α) (e : CtxErr)
    (hc : s.closed = true) (ht : s.inTable = false) :
    (s.cancelCtx sid e).1.closed = true ∧ (s.cancelCtx sid e).1.inTable = false := by
  unfold SStream.cancelCtx
  by_cases h : s.ctxDone.isSome = true
  · rw [if_pos h]
    exact ⟨hc, ht⟩
  · rw [if_neg h]
    cases hps : s.psend with
    | none =>
      cases hpr : s.pread with
      | none => simp [hc, ht]
      | some p =>
        by_cases hd : (s.hstatus == HStatus.decoding) = true
        · simp [hd, finishCore_closed]
        · simp [hd, hc, ht]
    | some snd =>
      by_cases hf : s.finishAfterSend = true
      · cases hpr : s.pread with
        | none => simp [hf, finishCore_fields, finishCore_closed]
        | some p =>
          have hh : ∀ x : SStream α, x.hstatus = .returned →
              ((x.finishCore sid (some (.ctx e))).1.hstatus == HStatus.decoding) = false := by
            intro x hx; rw [finishCore_hstatus, hx]; rfl
          simp [hf, hh, finishCore_fields, finishCore_closed]
      · cases hpr : s.pread with
        | none => simp [hf, hc, ht]
        | some p =>
          by_cases hd : (s.hstatus == HStatus.decoding) = true
          · simp [hf, hd, finishCore_closed]
          · simp [hf, hd, hc, ht]

theorem finish_closed (sid : Sid) (s : SStream α) (err : Option SErr) (b : Bool) :
    (s.finish sid err b).1.closed = true ∧ (s.finish sid err b).1.inTable = false := by
  simp only [SStream.finish]
  exact cancelCtx_closed sid _ _ (finishCore_closed sid s _).1 (finishCore_closed sid s _).2

/-- `finishStream(err)` called by the handler side (`byLoop = false`) on a
    stream that is not closed yet puts the close frame with the status of `err`
    on the wire -/
theorem finish_close_frame (sid : Sid) (s : SStream α) (err : Option SErr) (hc : s.closed = false) :
    (sid, S2C.close (SErr.wireStatus err) s.trailers) ∈ (s.finish sid err false).2.frames := by
  simp only [SStream.finish, Out.add, Bool.false_and, List.mem_append]
  right
  exact finishCore_close_frame sid s err hc

/-- **C16 (server), a second request fails the RPC.**  If the eager look-ahead
    read of a non-client-stream method (first message `m` complete) finds a
    complete second message in the queue, the pending call is completed with
    `InvalidArgument`, nothing is delivered, the sticky read error is set and
    the stream is finished (closed and out of the table; if it was not closed
    before, the close frame carries `InvalidArgument`). -/
theorem C16_second_request_fails (sid : Sid) (fuel : Nat) (s : SStream α) (p : PRead α) (m m2 : List α)
    (w : Nat) (q : List (DFrame α)) (cs' : List Nat)
    (hp : s.pread = some p) (hl : p.lookahead = some m)
    (hr : readLoop s.rcv.rwin s.rcv.queue p.rst = (w, q, cs', some (.msg m2))) :
    let r := s.resumeRead sid "" (fuel + 1)
    let e : SErr := .status (mkStatus codeInvalidArgument "Already received request for non-client-stream method")
    (∃ rest, r.2.dones =
      (sid, (if s.hstatus == .decoding then "decode" else "recv"), .status codeInvalidArgument) :: rest) ∧
    delivered r.2 = 0 ∧
    r.1.readErr = some e ∧ r.1.pread = none ∧ r.1.closed = true ∧ r.1.inTable = false ∧
    (s.closed = false → (sid, S2C.close (mkStatus codeInvalidArgument
        "Already received request for non-client-stream method") s.trailers) ∈ r.2.frames) := by
  intro r e
  have hr' : r = (let s2 : SStream α := { s with
        rcv := { s.rcv with rwin := if s.fc then w else s.rcv.rwin, queue := q }, pread := none, readErr := some e }
      let o : Out α := { frames := s.creditFrames sid cs',
                         dones := [(sid, (if s.hstatus == .decoding then "decode" else "recv"), e.toRes)] }
      ((s2.finish sid (some e)).1, o.add (s2.finish sid (some e)).2)) := by
    show s.resumeRead sid "" (fuel + 1) = _
    rw [SStream.resumeRead]
    simp only [hp, hr, hl]
    rfl
  rw [hr']
  dsimp only
  have hq := finish_quiet sid ({ s with
        rcv := { s.rcv with rwin := if s.fc then w else s.rcv.rwin, queue := q }, pread := none, readErr := some e } : SStream α)
        (some e) false
  have hk := hq.keep rfl
  refine ⟨⟨_, rfl⟩, ?_, hk.2, hk.1, (finish_closed sid _ _ _).1, (finish_closed sid _ _ _).2, fun hc => ?_⟩
  · simp only [delivered_add, finish_delivered, Nat.add_zero]
    exact delivered_single _ _ _ _ _
  · simp only [Out.add, List.mem_append]
    right
    exact finish_close_frame sid _ (some e) hc

/-! ### non-vacuity -/

-- the bound is attained: one request then half-close delivers exactly one message,
-- and a late second request / further reads deliver nothing
example :
    let s : SStream Nat := { cs := false, ss := true, unary := false, fc := true, rcv := RcvQ.init 10, win := 10,
                             hstatus := .running }
    (runOps {} 1 s [.call .recv, .frame (.msg 1 [7]), .frame .halfClose]).2 = 1 ∧
    (runOps {} 1 s [.call .recv, .frame (.msg 1 [7]), .frame .halfClose, .call .recv, .frame (.msg 1 [8]),
                    .call .recv, .ctx .canceled]).2 = 1 := by
  decide

-- two requests before the half-close: nothing is delivered, the stream is finished
example :
    let s : SStream Nat := { cs := false, ss := true, unary := false, fc := true, rcv := RcvQ.init 10, win := 10,
                             hstatus := .running }
    let r := runOps {} 1 s [.call .recv, .frame (.msg 1 [7]), .frame (.msg 1 [8]), .frame .halfClose, .call .recv]
    r.2 = 0 ∧ r.1.closed = true := by
  decide

end Proofs.ServerShape

#print axioms Proofs.ServerShape.C16_server_at_most_one
#print axioms Proofs.ServerShape.C16_server_delivered_then_done
#print axioms Proofs.ServerShape.C16_server_reads_fail_after_delivery
#print axioms Proofs.ServerShape.runOps_done
#print axioms Proofs.ServerShape.recv_when_done
#print axioms Proofs.ServerShape.C16_second_request_fails
