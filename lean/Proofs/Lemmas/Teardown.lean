import Proofs.Lemmas.Server
import Proofs.Lemmas.ServerBound
import Proofs.Lemmas.ServerShape
import Proofs.Lemmas.ServerLocal
import Proofs.Lemmas.ClientInv
import Proofs.Lemmas.ClientShape
import Proofs.Props.C09
import Proofs.Props.C07
/-!
  # Teardown: C14 (tables), C04 (tunnel termination), C02 (status / trailers, single step)

  Everything below is proved (no `sorry`, no axioms beyond `propext`,
  `Classical.choice`, `Quot.sound`).  Deviations from the statements as they
  were requested, each with a checked counterexample in the `Examples` section
  at the end of the file:

  * **`client_close_empties_table`.**  Requested: `(c.close err b).1.table = []`
    from `AllWF c` and the invariant of 1b (`CT`: `done = none → inTable = true`).
    That is FALSE when the channel is already finished: `Cli.close` is then a
    no-op, and an (unreachable) state `{ finished := some none, streams :=
    [(1, fresh)] }` satisfies `AllWF` and `CT` but keeps `table = [1]` (first
    `example`).  What is needed instead of `CT` is the endpoint invariant
    `FinOut c := finished.isSome → every stream has inTable = false`, which
    holds in every reachable state (`reachable_finOut`).  Proved:
      - `client_close_empties_table` : from `AllWF c` and `FinOut c` (any `finished`);
      - `client_close_empties_table_partial` : from `AllWF c`, `CT c` (unused) and
        `c.finished = none` — the requested statement plus "not finished yet";
      - `client_close_empties_table_run` : for every reachable state, unconditionally,
        and `finished.isSome → table = []` there.

  * **2a, "every completed recv/send is non-OK".**  With `AllWF` and `CT` alone
    this is FALSE: an (unreachable) well-formed stream with a blocked read and a
    complete message still in its queue delivers that message (`Res.msg`) when
    `close` wakes the read (second `example`).  In the real code and in every
    reachable model state a blocked read has drained the queue; this is the
    per-stream invariant `QInv` (`pread.isSome → rcv.queue = []`), proved for
    every stream of every reachable state (`cliQInv_run`) and taken as a
    hypothesis by `C04_client_close` (discharged in `C04_client_close_run`).
    With it the completions of `close` are characterised EXACTLY
    (`ctxCancelled_dones`): a blocked send returns `Res.ctx .canceled`; a
    blocked read returns `Res.status codeCanceled`; a blocked `Header()`
    returns the headers if they came, else the marker
    `.other "RACE:ctx-or-nil-headers"` (not an RPC result, hence the non-OK
    claim is about "recv"/"send" only, as requested).  Truthfully about the
    look-ahead read: when the eager second read of a non-server-stream method
    is blocked holding a complete first message and `close` arrives, the read
    completes with status `Canceled` and the held message is DROPPED (third
    `example`: `recv` ↦ `status 1`, nothing delivered).

  * **`server_finished_stays_out`** is stated for a stream object under every
    list of stream-level operations (`ServerShape.SOp`: any frame, any handler
    call, any context end), for any stream state, without any invariant; plus
    the one-step form `server_finished_stays_out_step`.  (The endpoint only
    ever applies these operations to its stream objects.)

  * **Server table after `serve` returns.**  `serveReturns` cancels every
    context; it does not empty the table: a stream leaves the table when
    `finishStream` runs for it, i.e. when its handler returns (`TInv`,
    `C14_server_table_exact`; last `example`).  What C04 gives on the server is
    "nothing stays blocked": `C04_server_nothing_blocked_after_return` and, for
    all later states too, `C04_server_returned_never_blocks`.

  Infrastructure.  `ServerBound.Liftable` / `ClientInv.Liftable` are tied to
  the relations `Pres` of those files (about `fc`, `unsupported`, window
  accounting), which say nothing about the fields used here, so the lifting is
  redone for an arbitrary per-stream predicate kept by the operations the
  endpoint applies: `SLift` / `allS_run` (server), `CLift` / `call_run`
  (client); `ServerBound.AllS`, `ClientInv.AllS` and their generic lemmas are
  reused.  Per-stream relations: `TRel` (server: `closed`/`inTable` untouched or
  stream finished; an ended context stays), `NB` (server: nothing pending once
  the context ended), `CRel` (client: `done`/`inTable` untouched or RPC done and
  out of the table), `QInv`.

  Main theorems
    1a  `srvTInv_run`, `tinv_fresh`, `C14_server_table_exact`, `server_finished_stays_out`
    1b  `cliCT_run`, `C14_client_inTable`, `C14_client_table_exact`,
        `client_close_empties_table`(`_partial`, `_run`)
    2a  `ctxCancelled_dones`, `C04_client_close`, `C04_client_close_run`,
        `C04_client_finished_never_blocks`
    2b  `newStream_after_close`, `close_idempotent`, `step_keeps_finished`,
        `step_preserves_finished`, `run_keeps_finished`
    2c  `C04_server_serveReturns`, `srvNB_run`, `C04_server_nothing_blocked_after_return`,
        `C04_server_returned_never_blocks`, `returned_ignores_frames`,
        `step_keeps_returned`, `step_preserves_returned`
    3a  `status_roundtrip`, `plain_error_roundtrip`, `raw_error_roundtrip`
    3b  `ret_frames`, `ret_frames_of_closed`, `setTrailer_accumulates`, `setTrailers_fold`,
        `ret_after_setTrailers`, `setHeader_accumulates`, `setHeader_refused`,
        `sendHeader_emits`, `sendHeader_refused`
    3c  `first_headers_recorded`, `later_headers_ignored`, `header_call_returns`,
        `header_after_frames`, `trailer_call`, `trailers_after_close_frame`,
        `C02_status_trailers_exact`, `C02_headers_exact`
-/
namespace Proofs.Teardown
open TunnelModel TunnelModel.LFrame TunnelModel.Framing

variable {α : Type}

/-! ## Part 1a / 2c: server streams -/

/-- a stream is in the table iff `finishStream` has not run for it -/
def TInv (s : SStream α) : Prop := s.inTable = !s.closed

/-- nothing is blocked once the stream context has ended -/
def NB (s : SStream α) : Prop := s.ctxDone.isSome = true → s.pread = none ∧ s.psend = none

/-- `TRel s s'`: the operation left `closed` and `inTable` alone or it finished
    the stream; and a context that has ended stays as it is -/
structure TRel (s s' : SStream α) : Prop where
  tab : (s'.closed = s.closed ∧ s'.inTable = s.inTable) ∨ (s'.closed = true ∧ s'.inTable = false)
  ctx : s.ctxDone.isSome = true → s'.ctxDone = s.ctxDone

theorem TRel.refl (s : SStream α) : TRel s s := ⟨Or.inl ⟨rfl, rfl⟩, fun _ => rfl⟩

theorem TRel.trans {a b c : SStream α} (h1 : TRel a b) (h2 : TRel b c) : TRel a c := by
  refine ⟨?_, fun h => ?_⟩
  · rcases h2.tab with ⟨h2c, h2t⟩ | h2'
    · rcases h1.tab with ⟨h1c, h1t⟩ | ⟨h1c, h1t⟩
      · exact Or.inl ⟨h2c.trans h1c, h2t.trans h1t⟩
      · exact Or.inr ⟨h2c.trans h1c, h2t.trans h1t⟩
    · exact Or.inr h2'
  · have hb := h1.ctx h
    rw [h2.ctx (by rw [hb]; exact h), hb]

theorem TRel.trans' {a b c : SStream α} (h2 : TRel b c) (h1 : TRel a b) : TRel a c := h1.trans h2

theorem TRel.of_eq {s s' : SStream α} (hc : s'.closed = s.closed) (ht : s'.inTable = s.inTable)
    (hx : s'.ctxDone = s.ctxDone) : TRel s s' :=
  ⟨Or.inl ⟨hc, ht⟩, fun _ => hx⟩

theorem TRel.tinv {s s' : SStream α} (h : TRel s s') (hi : TInv s) : TInv s' := by
  unfold TInv at *
  rcases h.tab with ⟨hc, ht⟩ | ⟨hc, ht⟩
  · rw [hc, ht]; exact hi
  · rw [hc, ht]; rfl

theorem TRel.closed {s s' : SStream α} (h : TRel s s') (hc : s.closed = true) : s'.closed = true := by
  rcases h.tab with ⟨h1, _⟩ | ⟨h1, _⟩
  · rw [h1]; exact hc
  · exact h1

theorem TRel.out {s s' : SStream α} (h : TRel s s') (ht : s.inTable = false) : s'.inTable = false := by
  rcases h.tab with ⟨_, h1⟩ | ⟨_, h1⟩
  · rw [h1]; exact ht
  · exact h1

theorem TRel.ctxDone {s s' : SStream α} (h : TRel s s') (hc : s.ctxDone.isSome = true) :
    s'.ctxDone.isSome = true := by
  rw [h.ctx hc]; exact hc

/-! ### `TRel` for every stream-level operation -/

theorem halfClose_tab (s : SStream α) (e : SErr) : TRel s (s.halfClose e) := by
  unfold SStream.halfClose
  split
  · exact TRel.refl s
  · exact TRel.of_eq rfl rfl rfl

theorem finishCore_tab (sid : Sid) (s : SStream α) (err : Option SErr) :
    TRel s (s.finishCore sid err).1 :=
  ⟨Or.inr (Proofs.ServerShape.finishCore_closed sid s err), fun _ => (Proofs.C09.finishCore_fields sid s err).1⟩

theorem ccSend_tab (sid : Sid) (s : SStream α) (e : CtxErr) : TRel s (Proofs.ServerBound.ccSend sid s e).1 := by
  unfold Proofs.ServerBound.ccSend
  split
  · dsimp only
    split
    · exact TRel.trans' (finishCore_tab _ _ _) (TRel.of_eq rfl rfl rfl)
    · exact TRel.of_eq rfl rfl rfl
  · exact TRel.refl s

theorem ccRead_tab (sid : Sid) (s : SStream α) (e : CtxErr) : TRel s (Proofs.ServerBound.ccRead sid s e).1 := by
  unfold Proofs.ServerBound.ccRead
  split
  · dsimp only
    split
    · exact TRel.trans' (finishCore_tab _ _ _) (TRel.of_eq rfl rfl rfl)
    · exact TRel.of_eq rfl rfl rfl
  · exact TRel.refl s

theorem cancelCtx_tab (sid : Sid) (s : SStream α) (e : CtxErr) : TRel s (s.cancelCtx sid e).1 := by
  rw [Proofs.ServerBound.cancelCtx_fst]
  split
  · exact TRel.refl s
  · rename_i hn
    have h1 : TRel s ({ s with ctxDone := some e, rcv := if s.fc then s.rcv.cancel else s.rcv.close } : SStream α) :=
      ⟨Or.inl ⟨rfl, rfl⟩, fun h => absurd h hn⟩
    exact (h1.trans (ccSend_tab _ _ _)).trans (ccRead_tab _ _ _)

theorem finish_tab (sid : Sid) (s : SStream α) (err : Option SErr) (b : Bool) :
    TRel s (s.finish sid err b).1 := by
  unfold SStream.finish
  exact (finishCore_tab _ _ _).trans (cancelCtx_tab _ _ _)

theorem pumpSend_tab (cfg : SCfg) (sid : Sid) (s : SStream α) (snd : Snd α) :
    TRel s (s.pumpSend cfg sid snd).1 := by
  unfold SStream.pumpSend
  split
  · dsimp only
    split
    · exact TRel.of_eq rfl rfl rfl
    · split
      · exact TRel.of_eq rfl rfl rfl
      · exact TRel.of_eq rfl rfl rfl
  · exact TRel.of_eq rfl rfl rfl

theorem afterSend_tab (sid : Sid) (s : SStream α) (o : Out α) : TRel s (s.afterSend sid o).1 := by
  unfold SStream.afterSend
  split
  · dsimp only
    exact TRel.trans' (finish_tab _ _ _ _) (TRel.of_eq rfl rfl rfl)
  · exact TRel.refl s

theorem resumeRead_tab (sid : Sid) (mn : String) : ∀ (fuel : Nat) (s : SStream α),
    TRel s (SStream.resumeRead sid mn fuel s).1 := by
  intro fuel
  induction fuel with
  | zero => intro s; exact TRel.refl s
  | succ fuel ih =>
    intro s
    unfold SStream.resumeRead
    split
    · exact TRel.refl s
    · rename_i p hp
      generalize hr : readLoop s.rcv.rwin s.rcv.queue p.rst = r
      obtain ⟨rwin, q, credits, out⟩ := r
      dsimp -zeta only
      extract_lets cf rcv0 s1 opName failWith e
      have hs1 : TRel s s1 := TRel.of_eq rfl rfl rfl
      have hfw : ∀ (s' : SStream α) (e : SErr) (b : Bool), TRel s' (failWith s' e b).1 := by
        intro s' e b
        simp only [failWith]
        split
        · exact TRel.of_eq rfl rfl rfl
        · dsimp only
          exact TRel.trans' (finish_tab _ _ _ _) (TRel.of_eq rfl rfl rfl)
      clear_value s1 failWith
      refine hs1.trans ?_
      split
      · split
        · split
          · exact TRel.of_eq rfl rfl rfl
          · exact hfw _ _ _
        · exact TRel.of_eq rfl rfl rfl
      · split
        · exact hfw _ _ _
        · split
          · exact TRel.of_eq rfl rfl rfl
          · dsimp only
            exact TRel.trans' (ih _) (TRel.of_eq rfl rfl rfl)
      · exact hfw _ _ _
      · exact TRel.refl s1

theorem afterDecode_tab (sid : Sid) (s : SStream α) (o : Out α) : TRel s (s.afterDecode sid o).1 := by
  unfold SStream.afterDecode
  split
  · split
    · exact TRel.of_eq rfl rfl rfl
    · dsimp only
      exact TRel.trans' (finish_tab _ _ _ _) (TRel.of_eq rfl rfl rfl)
    · exact TRel.refl s
  · exact TRel.refl s

theorem readAndSettle_tab (sid : Sid) (s : SStream α) : TRel s (s.readAndSettle sid).1 := by
  unfold SStream.readAndSettle
  dsimp only
  refine TRel.trans ?_ (afterDecode_tab _ _ _)
  exact resumeRead_tab _ _ _ _

theorem startRecv_tab (sid : Sid) (s : SStream α) : TRel s (s.startRecv sid).1 := by
  unfold SStream.startRecv
  dsimp only
  split
  · exact afterDecode_tab _ _ _
  · split
    · exact TRel.trans' (afterDecode_tab _ _ _) (TRel.of_eq rfl rfl rfl)
    · exact TRel.trans' (readAndSettle_tab _ _) (TRel.of_eq rfl rfl rfl)

theorem onFrame_tab (cfg : SCfg) (sid : Sid) (s : SStream α) (f : C2S α) :
    TRel s (s.onFrame cfg sid f).1 := by
  cases f with
  | newStream m md rev win => exact TRel.refl s
  | halfClose =>
    simp only [SStream.onFrame]
    split
    · exact TRel.refl s
    · exact (halfClose_tab _ _).trans (readAndSettle_tab _ _)
  | cancel => exact finish_tab _ _ _ _
  | unset => exact finish_tab _ _ _ _
  | windowUpdate n =>
    simp only [SStream.onFrame]
    split
    · exact TRel.refl s
    · split
      · exact TRel.of_eq rfl rfl rfl
      · refine TRel.trans ?_ (afterSend_tab _ _ _)
        refine TRel.trans ?_ (pumpSend_tab _ _ _ _)
        exact TRel.of_eq rfl rfl rfl
  | msg size d =>
    simp only [SStream.onFrame]
    split
    · split
      · exact TRel.refl s
      · exact finish_tab _ _ _ _
      · exact TRel.trans' (readAndSettle_tab _ _) (TRel.of_eq rfl rfl rfl)
    · split
      · exact TRel.refl s
      · split
        · exact TRel.of_eq rfl rfl rfl
        · exact TRel.trans' (readAndSettle_tab _ _) (TRel.of_eq rfl rfl rfl)
  | more d =>
    simp only [SStream.onFrame]
    split
    · split
      · exact TRel.refl s
      · exact finish_tab _ _ _ _
      · exact TRel.trans' (readAndSettle_tab _ _) (TRel.of_eq rfl rfl rfl)
    · split
      · exact TRel.refl s
      · split
        · exact TRel.of_eq rfl rfl rfl
        · exact TRel.trans' (readAndSettle_tab _ _) (TRel.of_eq rfl rfl rfl)

theorem onCall_tab (cfg : SCfg) (sid : Sid) (s : SStream α) (c : HCall α) :
    TRel s (s.onCall cfg sid c).1 := by
  cases c with
  | recv => exact startRecv_tab _ _
  | send m =>
    simp only [SStream.onCall]
    split
    · split
      · exact TRel.refl s
      · refine TRel.trans ?_ (pumpSend_tab _ _ _ _)
        exact TRel.of_eq rfl rfl rfl
    · split
      · exact TRel.of_eq rfl rfl rfl
      · refine TRel.trans ?_ (pumpSend_tab _ _ _ _)
        exact TRel.of_eq rfl rfl rfl
  | setHeader md =>
    simp only [SStream.onCall]
    split
    · exact TRel.refl s
    · exact TRel.of_eq rfl rfl rfl
  | sendHeader md =>
    simp only [SStream.onCall]
    split
    · exact TRel.refl s
    · exact TRel.of_eq rfl rfl rfl
  | setTrailer md =>
    simp only [SStream.onCall]
    split
    · exact TRel.refl s
    · exact TRel.of_eq rfl rfl rfl
  | ret st =>
    simp only [SStream.onCall]
    refine TRel.trans ?_ (finish_tab _ _ _ _)
    exact TRel.of_eq rfl rfl rfl
  | reply m =>
    simp only [SStream.onCall]
    refine TRel.trans ?_ (afterSend_tab _ _ _)
    refine TRel.trans ?_ (pumpSend_tab _ _ _ _)
    split
    · exact TRel.of_eq rfl rfl rfl
    · exact TRel.of_eq rfl rfl rfl

/-! ### `NB` for every stream-level operation -/

theorem NB.of_open {s : SStream α} (h : s.ctxDone = none) : NB s := by
  intro hc; rw [h] at hc; cases hc

/-- the context is unchanged and the pending calls are unchanged or cleared -/
theorem NB.mono {s s' : SStream α} (hx : s'.ctxDone = s.ctxDone)
    (hr : s'.pread = none ∨ s'.pread = s.pread) (hs : s'.psend = none ∨ s'.psend = s.psend)
    (h : NB s) : NB s' := by
  intro hc
  have := h (hx ▸ hc)
  refine ⟨?_, ?_⟩
  · rcases hr with hr | hr
    · exact hr
    · rw [hr]; exact this.1
  · rcases hs with hs | hs
    · exact hs
    · rw [hs]; exact this.2

theorem NB.congr {s s' : SStream α} (hx : s'.ctxDone = s.ctxDone) (hr : s'.pread = s.pread)
    (hs : s'.psend = s.psend) (h : NB s) : NB s' := NB.mono hx (Or.inr hr) (Or.inr hs) h

theorem NB.open_of_pread {s : SStream α} {p : PRead α} (h : NB s) (hp : s.pread = some p) : s.ctxDone = none := by
  cases hc : s.ctxDone with
  | none => rfl
  | some c =>
    have := (h (by simp [hc])).1
    rw [hp] at this; cases this

theorem halfClose_nb (s : SStream α) (e : SErr) (h : NB s) : NB (s.halfClose e) := by
  unfold SStream.halfClose
  split
  · exact h
  · exact NB.congr rfl rfl rfl h

theorem finishCore_nb (sid : Sid) (s : SStream α) (err : Option SErr) (h : NB s) :
    NB (s.finishCore sid err).1 :=
  have hf := Proofs.C09.finishCore_fields sid s err
  NB.congr hf.1 hf.2.1 hf.2.2.1 h

theorem cancelCtx_nb (sid : Sid) (s : SStream α) (e : CtxErr) (h : NB s) : NB (s.cancelCtx sid e).1 := by
  cases hc : s.ctxDone with
  | some c =>
    have : s.cancelCtx sid e = (s, {}) := by
      unfold SStream.cancelCtx
      rw [if_pos (by simp [hc])]
    rw [this]; exact h
  | none =>
    intro _
    exact (Proofs.C09.cancelCtx_released sid s e).2 hc

theorem finish_nb (sid : Sid) (s : SStream α) (err : Option SErr) (b : Bool) (h : NB s) :
    NB (s.finish sid err b).1 := by
  unfold SStream.finish
  exact cancelCtx_nb _ _ _ (finishCore_nb _ _ _ h)

/-- `pumpSend` only touches the send window and the pending send, and never
    leaves a send pending once the context has ended -/
theorem pumpSend_shape (cfg : SCfg) (sid : Sid) (s : SStream α) (snd : Snd α) :
    ∃ w ps, (s.pumpSend cfg sid snd).1 = { s with win := w, psend := ps } ∧
      (s.ctxDone.isSome = true → ps = none) := by
  unfold SStream.pumpSend
  split
  · dsimp only
    split
    · exact ⟨_, _, rfl, fun _ => rfl⟩
    · split
      · exact ⟨_, _, rfl, fun _ => rfl⟩
      · rename_i hc
        exact ⟨_, _, rfl, fun h => by simp [hc] at h⟩
  · exact ⟨s.win, none, rfl, fun _ => rfl⟩

theorem pumpSend_nb (cfg : SCfg) (sid : Sid) (s : SStream α) (snd : Snd α)
    (h : s.ctxDone.isSome = true → s.pread = none) : NB (s.pumpSend cfg sid snd).1 := by
  obtain ⟨w, ps, hs, hps⟩ := pumpSend_shape cfg sid s snd
  rw [hs]
  intro hc
  exact ⟨h hc, hps hc⟩

theorem afterSend_nb (sid : Sid) (s : SStream α) (o : Out α) (h : NB s) : NB (s.afterSend sid o).1 := by
  unfold SStream.afterSend
  split
  · dsimp only
    exact finish_nb _ _ _ _ (NB.congr rfl rfl rfl h)
  · exact h

theorem resumeRead_nb (sid : Sid) (mn : String) : ∀ (fuel : Nat) (s : SStream α), NB s →
    NB (SStream.resumeRead sid mn fuel s).1 := by
  intro fuel
  induction fuel with
  | zero => intro s h; exact h
  | succ fuel ih =>
    intro s h
    unfold SStream.resumeRead
    split
    · exact h
    · rename_i p hp
      have hctx : s.ctxDone = none := h.open_of_pread hp
      generalize hr : readLoop s.rcv.rwin s.rcv.queue p.rst = r
      obtain ⟨rwin, q, credits, out⟩ := r
      dsimp -zeta only
      extract_lets cf rcv0 s1 opName failWith e
      have hs1 : s1.ctxDone = none := hctx
      have hfw : ∀ (s' : SStream α) (e : SErr) (b : Bool), NB s' → NB (failWith s' e b).1 := by
        intro s' e b hs'
        simp only [failWith]
        split
        · exact NB.mono (s := s') rfl (Or.inl rfl) (Or.inr rfl) hs'
        · dsimp only
          exact finish_nb _ _ _ _ (NB.mono (s := s') rfl (Or.inl rfl) (Or.inr rfl) hs')
      clear_value s1 failWith
      split
      · split
        · split
          · exact NB.of_open hs1
          · exact hfw _ _ _ (NB.of_open hs1)
        · exact NB.of_open hs1
      · split
        · exact hfw _ _ _ (NB.of_open hs1)
        · split
          · exact NB.of_open hs1
          · dsimp only
            exact ih _ (NB.of_open hs1)
      · exact hfw _ _ _ (NB.of_open hs1)
      · exact NB.of_open hs1

theorem afterDecode_nb (sid : Sid) (s : SStream α) (o : Out α) (h : NB s) : NB (s.afterDecode sid o).1 := by
  unfold SStream.afterDecode
  split
  · split
    · exact NB.congr rfl rfl rfl h
    · dsimp only
      exact finish_nb _ _ _ _ (NB.congr rfl rfl rfl h)
    · exact h
  · exact h

theorem readAndSettle_nb (sid : Sid) (s : SStream α) (h : NB s) : NB (s.readAndSettle sid).1 := by
  unfold SStream.readAndSettle
  dsimp only
  exact afterDecode_nb _ _ _ (resumeRead_nb _ _ _ _ h)

theorem startRecv_nb (sid : Sid) (s : SStream α) (h : NB s) : NB (s.startRecv sid).1 := by
  unfold SStream.startRecv
  dsimp only
  split
  · exact afterDecode_nb _ _ _ h
  · split
    · exact afterDecode_nb _ _ _ (NB.congr rfl rfl rfl h)
    · rename_i hc
      exact readAndSettle_nb _ _ (NB.of_open hc)

theorem NB.send_open {s : SStream α} {x : Snd α} (h : NB s) (hp : s.psend = some x) : s.ctxDone = none := by
  cases hc : s.ctxDone with
  | none => rfl
  | some c =>
    have := (h (by simp [hc])).2
    rw [hp] at this; cases this

theorem onFrame_nb (cfg : SCfg) (sid : Sid) (s : SStream α) (f : C2S α) (h : NB s) :
    NB (s.onFrame cfg sid f).1 := by
  cases f with
  | newStream m md rev win => exact h
  | halfClose =>
    simp only [SStream.onFrame]
    split
    · exact h
    · exact readAndSettle_nb _ _ (halfClose_nb _ _ h)
  | cancel => exact finish_nb _ _ _ _ h
  | unset => exact finish_nb _ _ _ _ h
  | windowUpdate n =>
    simp only [SStream.onFrame]
    split
    · exact h
    · split
      · exact NB.congr rfl rfl rfl h
      · exact afterSend_nb _ _ _ (pumpSend_nb _ _ _ _ (fun hc => (h hc).1))
  | msg size d =>
    simp only [SStream.onFrame]
    split
    · split
      · exact h
      · exact finish_nb _ _ _ _ h
      · exact readAndSettle_nb _ _ (NB.congr rfl rfl rfl h)
    · split
      · exact h
      · split
        · exact NB.congr rfl rfl rfl h
        · exact readAndSettle_nb _ _ (NB.congr rfl rfl rfl h)
  | more d =>
    simp only [SStream.onFrame]
    split
    · split
      · exact h
      · exact finish_nb _ _ _ _ h
      · exact readAndSettle_nb _ _ (NB.congr rfl rfl rfl h)
    · split
      · exact h
      · split
        · exact NB.congr rfl rfl rfl h
        · exact readAndSettle_nb _ _ (NB.congr rfl rfl rfl h)

theorem onCall_nb (cfg : SCfg) (sid : Sid) (s : SStream α) (c : HCall α) (h : NB s) :
    NB (s.onCall cfg sid c).1 := by
  cases c with
  | recv => exact startRecv_nb _ _ h
  | send m =>
    simp only [SStream.onCall]
    split
    · split
      · exact h
      · exact pumpSend_nb _ _ _ _ (fun hc => (h hc).1)
    · split
      · exact NB.congr rfl rfl rfl h
      · exact pumpSend_nb _ _ _ _ (fun hc => (h hc).1)
  | setHeader md =>
    simp only [SStream.onCall]
    split
    · exact h
    · exact NB.congr rfl rfl rfl h
  | sendHeader md =>
    simp only [SStream.onCall]
    split
    · exact h
    · exact NB.congr rfl rfl rfl h
  | setTrailer md =>
    simp only [SStream.onCall]
    split
    · exact h
    · exact NB.congr rfl rfl rfl h
  | ret st =>
    simp only [SStream.onCall]
    exact finish_nb _ _ _ _ (NB.congr rfl rfl rfl h)
  | reply m =>
    simp only [SStream.onCall]
    refine afterSend_nb _ _ _ (pumpSend_nb _ _ _ _ ?_)
    split
    · exact fun hc => (h hc).1
    · exact fun hc => (h hc).1

/-! ### lifting per-stream invariants to the server endpoint

  `Proofs.ServerBound.Liftable` is tied to the relation `ServerBound.Pres`
  (which says nothing about `closed`, `inTable`, `ctxDone`, `pread`, `psend`),
  so the lifting is redone here for any predicate kept by the three kinds of
  stream-level operation the endpoint applies (`onFrame`, `onCall`,
  `cancelCtx`) and true of a stream object as `createStream` builds it.
  `ServerBound.AllS`, `allS_setAny`, `getAny_mem`, `getStream_mem`,
  `append_all` are reused. -/

open Proofs.ServerBound (AllS allS_init allS_setAny getAny_mem getStream_mem append_all)

structure SLift (cfg : SCfg) (P : SStream α → Prop) : Prop where
  frame : ∀ (sid : Sid) (s : SStream α) (f : C2S α), P s → P (s.onFrame cfg sid f).1
  call : ∀ (sid : Sid) (s : SStream α) (c : HCall α), P s → P (s.onCall cfg sid c).1
  ctx : ∀ (sid : Sid) (s : SStream α) (e : CtxErr), P s → P (s.cancelCtx sid e).1
  fresh : ∀ (cs ss unary fc : Bool) (W win : Nat) (dl : Option Nat) (h : HStatus),
    P ({ cs := cs, ss := ss, unary := unary, fc := fc, rcv := RcvQ.init W, win := win, deadline := dl,
         hstatus := h } : SStream α)

theorem serveReturns_go_all {P : SStream α → Prop}
    (hP : ∀ (sid : Sid) (s : SStream α) (e : CtxErr), P s → P (s.cancelCtx sid e).1)
    (l : List (Sid × SStream α)) (h : ∀ e ∈ l, P e.2) :
    ∀ e ∈ (Srv.serveReturns.go l).1, P e.2 := by
  induction l with
  | nil => intro e he; simp [Srv.serveReturns.go] at he
  | cons x rest ih =>
    obtain ⟨sid, st⟩ := x
    intro e he
    simp only [Srv.serveReturns.go] at he
    rcases List.mem_cons.mp he with h1 | h1
    · subst h1
      exact hP sid st .canceled (h (sid, st) List.mem_cons_self)
    · exact ih (fun e he => h e (List.mem_cons_of_mem _ he)) e h1

theorem tick_go_all {P : SStream α → Prop}
    (hP : ∀ (sid : Sid) (s : SStream α) (e : CtxErr), P s → P (s.cancelCtx sid e).1)
    (now : Nat) (l : List (Sid × SStream α)) (h : ∀ e ∈ l, P e.2) :
    ∀ e ∈ (Srv.tick.go now l).1, P e.2 := by
  induction l with
  | nil => intro e he; simp [Srv.tick.go] at he
  | cons x rest ih =>
    obtain ⟨sid, st⟩ := x
    intro e he
    simp only [Srv.tick.go] at he
    rcases List.mem_cons.mp he with h1 | h1
    · subst h1
      have hst := h (sid, st) List.mem_cons_self
      dsimp only
      split
      · split
        · exact hP sid st .deadline hst
        · exact hst
      · exact hst
    · exact ih (fun e he => h e (List.mem_cons_of_mem _ he)) e h1

theorem allS_serveReturns {P : SStream α → Prop}
    (hP : ∀ (sid : Sid) (s : SStream α) (e : CtxErr), P s → P (s.cancelCtx sid e).1)
    (s : Srv α) (err : Option String) (h : AllS P s) : AllS P (s.serveReturns err).1 := by
  intro e he
  simp only [Srv.serveReturns] at he
  exact serveReturns_go_all hP _ h e he

theorem allS_tick {P : SStream α → Prop}
    (hP : ∀ (sid : Sid) (s : SStream α) (e : CtxErr), P s → P (s.cancelCtx sid e).1)
    (s : Srv α) (d : Nat) (h : AllS P s) : AllS P (s.tick d).1 := by
  intro e he
  simp only [Srv.tick] at he
  exact tick_go_all hP _ _ h e he

theorem allS_createStream {cfg : SCfg} {P : SStream α → Prop} (hP : SLift cfg P)
    (s : Srv α) (sid : Sid) (m : List Nat) (md : MD) (rev : Int) (win : Nat) (h : AllS P s) :
    AllS P (s.createStream cfg sid m md rev win).1 := by
  unfold Srv.createStream
  split
  · exact allS_serveReturns hP.ctx _ _ h
  · split
    · exact allS_serveReturns hP.ctx _ _ h
    · dsimp only
      split
      · exact h
      · split
        · exact h
        · split
          · exact h
          · exact h
          · split
            · exact append_all h (hP.call sid _ .recv (hP.fresh _ _ _ _ _ _ _ _))
            · exact append_all h (hP.fresh _ _ _ _ _ _ _ _)

theorem allS_step {cfg : SCfg} {P : SStream α → Prop} (hP : SLift cfg P)
    (s : Srv α) (x : SStim α) (h : AllS P s) : AllS P (s.step cfg x).1 := by
  cases x with
  | frame sid f =>
    simp only [Srv.step, Srv.onFrame]
    split
    · exact h
    · split
      · exact allS_createStream hP _ _ _ _ _ _ h
      · split
        · rename_i st hst
          obtain ⟨e, he, rfl⟩ := getStream_mem _ _ _ hst
          exact allS_setAny _ _ _ h (hP.frame _ _ _ (h e he))
        · split
          · exact h
          · exact allS_serveReturns hP.ctx _ _ h
  | call sid c =>
    simp only [Srv.step, Srv.onCall]
    split
    · exact h
    · rename_i st hst
      obtain ⟨e, he, rfl⟩ := getAny_mem _ _ _ hst
      exact allS_setAny _ _ _ h (hP.call _ _ _ (h e he))
  | tick d => exact allS_tick hP.ctx _ _ h
  | closing b => exact h
  | carrierEnds err =>
    simp only [Srv.step]
    split
    · exact h
    · exact allS_serveReturns hP.ctx _ _ h

theorem allS_run {cfg : SCfg} {P : SStream α → Prop} (hP : SLift cfg P) :
    ∀ (xs : List (SStim α)) (s : Srv α), AllS P s → AllS P (Srv.run cfg s xs).1 := by
  intro xs
  induction xs with
  | nil => intro s h; exact h
  | cons x xs ih =>
    intro s h
    simp only [Srv.run]
    exact ih _ (allS_step hP s x h)

theorem tinv_lift (cfg : SCfg) : SLift cfg (TInv (α := α)) :=
  ⟨fun sid s f h => (onFrame_tab cfg sid s f).tinv h, fun sid s c h => (onCall_tab cfg sid s c).tinv h,
   fun sid s e h => (cancelCtx_tab sid s e).tinv h, fun _ _ _ _ _ _ _ _ => rfl⟩

theorem nb_lift (cfg : SCfg) : SLift cfg (NB (α := α)) :=
  ⟨fun sid s f h => onFrame_nb cfg sid s f h, fun sid s c h => onCall_nb cfg sid s c h,
   fun sid s e h => cancelCtx_nb sid s e h, fun _ _ _ _ _ _ _ _ => NB.of_open rfl⟩


/-! ### `TInv`, spelled out per operation -/

theorem finishCore_tinv (sid : Sid) (s : SStream α) (err : Option SErr) : TInv (s.finishCore sid err).1 := by
  have h := Proofs.ServerShape.finishCore_closed sid s err
  unfold TInv
  rw [h.1, h.2]; rfl

theorem cancelCtx_tinv (sid : Sid) (s : SStream α) (e : CtxErr) (h : TInv s) : TInv (s.cancelCtx sid e).1 :=
  (cancelCtx_tab sid s e).tinv h
theorem finish_tinv (sid : Sid) (s : SStream α) (err : Option SErr) (b : Bool) : TInv (s.finish sid err b).1 := by
  have h := Proofs.ServerShape.finish_closed sid s err b
  unfold TInv
  rw [h.1, h.2]; rfl
theorem onFrame_tinv (cfg : SCfg) (sid : Sid) (s : SStream α) (f : C2S α) (h : TInv s) :
    TInv (s.onFrame cfg sid f).1 := (onFrame_tab cfg sid s f).tinv h
theorem onCall_tinv (cfg : SCfg) (sid : Sid) (s : SStream α) (c : HCall α) (h : TInv s) :
    TInv (s.onCall cfg sid c).1 := (onCall_tab cfg sid s c).tinv h
theorem step_tinv (cfg : SCfg) (s : Srv α) (x : SStim α) (h : AllS TInv s) : AllS TInv (s.step cfg x).1 :=
  allS_step (tinv_lift cfg) s x h
theorem step_nb (cfg : SCfg) (s : Srv α) (x : SStim α) (h : AllS NB s) : AllS NB (s.step cfg x).1 :=
  allS_step (nb_lift cfg) s x h

/-- a freshly created stream (before and after the decode callback's `RecvMsg`
    that `createStream` starts on unary methods) satisfies `TInv` -/
theorem tinv_fresh (cs ss unary fc : Bool) (W win : Nat) (dl : Option Nat) (h : HStatus) (sid : Sid) :
    let st : SStream α := { cs := cs, ss := ss, unary := unary, fc := fc, rcv := RcvQ.init W, win := win,
                            deadline := dl, hstatus := h }
    TInv st ∧ TInv (st.startRecv sid).1 :=
  ⟨rfl, (startRecv_tab sid _).tinv rfl⟩

/-- **`TInv` holds for every stream object of every reachable server state** -/
theorem srvTInv_run (cfg : SCfg) (xs : List (SStim α)) : AllS TInv (Srv.run cfg ({} : Srv α) xs).1 :=
  allS_run (tinv_lift cfg) xs {} (allS_init _)

/-- **`NB` holds for every stream object of every reachable server state**: a
    read or a send is pending only while the stream context is live -/
theorem srvNB_run (cfg : SCfg) (xs : List (SStim α)) : AllS NB (Srv.run cfg ({} : Srv α) xs).1 :=
  allS_run (nb_lift cfg) xs {} (allS_init _)

theorem table_exact_of_tinv (s : Srv α) (h : AllS TInv s) (sid : Sid) :
    sid ∈ s.table ↔ ∃ st, (sid, st) ∈ s.streams ∧ st.closed = false := by
  simp only [Srv.table, List.mem_map, List.mem_filter]
  constructor
  · rintro ⟨e, ⟨he, ht⟩, rfl⟩
    refine ⟨e.2, he, ?_⟩
    have := h e he
    unfold TInv at this
    rw [ht] at this
    cases hc : e.2.closed with
    | false => rfl
    | true => rw [hc] at this; cases this
  · rintro ⟨st, he, hc⟩
    refine ⟨(sid, st), ⟨he, ?_⟩, rfl⟩
    have := h (sid, st) he
    unfold TInv at this
    dsimp only at this ⊢
    rw [this, hc]; rfl

/-- **C14, server.** In every reachable state the table contains exactly the
    RPCs in flight: an id is in the table iff it has a stream object for which
    `finishStream` has not run. -/
theorem C14_server_table_exact (cfg : SCfg) (xs : List (SStim α)) :
    let s := (Srv.run cfg ({} : Srv α) xs).1
    ∀ sid, sid ∈ s.table ↔ ∃ st, (sid, st) ∈ s.streams ∧ st.closed = false :=
  fun sid => table_exact_of_tinv _ (srvTInv_run cfg xs) sid

/-- every stream-level operation leaves `closed`/`inTable` alone or finishes the stream -/
theorem stepOp_tab (cfg : SCfg) (sid : Sid) (s : SStream α) (op : Proofs.ServerShape.SOp α) :
    TRel s (Proofs.ServerShape.stepOp cfg sid s op).1 := by
  cases op with
  | frame f => exact onFrame_tab cfg sid s f
  | call c => exact onCall_tab cfg sid s c
  | ctx e => exact cancelCtx_tab sid s e

theorem runOps_tab (cfg : SCfg) (sid : Sid) (ops : List (Proofs.ServerShape.SOp α)) : ∀ (s : SStream α),
    TRel s (Proofs.ServerShape.runOps cfg sid s ops).1 := by
  induction ops with
  | nil => intro s; exact TRel.refl s
  | cons op ops ih =>
    intro s
    simp only [Proofs.ServerShape.runOps]
    exact (stepOp_tab cfg sid s op).trans (ih _)

/-- **C14, server: a finished RPC stays out of the table.** Once `finishStream`
    has run (`closed = true`), whatever happens to the stream object afterwards
    — frames of any kind, handler calls, context ends, in any order — `closed`
    stays true and `inTable` stays false.  (Any stream state; no invariant needed.) -/
theorem server_finished_stays_out (cfg : SCfg) (sid : Sid) (s : SStream α)
    (ops : List (Proofs.ServerShape.SOp α)) :
    (s.closed = true → (Proofs.ServerShape.runOps cfg sid s ops).1.closed = true) ∧
    (s.inTable = false → (Proofs.ServerShape.runOps cfg sid s ops).1.inTable = false) :=
  ⟨(runOps_tab cfg sid ops s).closed, (runOps_tab cfg sid ops s).out⟩

/-- the same, one operation at a time -/
theorem server_finished_stays_out_step (cfg : SCfg) (sid : Sid) (s : SStream α)
    (hc : s.closed = true) (ht : s.inTable = false) :
    (∀ f, (s.onFrame cfg sid f).1.closed = true ∧ (s.onFrame cfg sid f).1.inTable = false) ∧
    (∀ c, (s.onCall cfg sid c).1.closed = true ∧ (s.onCall cfg sid c).1.inTable = false) ∧
    (∀ e, (s.cancelCtx sid e).1.closed = true ∧ (s.cancelCtx sid e).1.inTable = false) :=
  ⟨fun f => ⟨(onFrame_tab cfg sid s f).closed hc, (onFrame_tab cfg sid s f).out ht⟩,
   fun c => ⟨(onCall_tab cfg sid s c).closed hc, (onCall_tab cfg sid s c).out ht⟩,
   fun e => ⟨(cancelCtx_tab sid s e).closed hc, (cancelCtx_tab sid s e).out ht⟩⟩

/-- and `finishStream` (in any of its forms) always leaves the stream closed and out of the table -/
theorem server_finish_leaves_table (sid : Sid) (s : SStream α) (err : Option SErr) (b : Bool) :
    (s.finish sid err b).1.closed = true ∧ (s.finish sid err b).1.inTable = false :=
  Proofs.ServerShape.finish_closed sid s err b

/-! ## Part 2c: C04, server side — `serve` returns -/

/-- `serveReturns` cancels the context of every stream object, in place -/
theorem serveReturns_go_streams (l : List (Sid × SStream α)) :
    (Srv.serveReturns.go l).1 = l.map (fun e => (e.1, (e.2.cancelCtx e.1 .canceled).1)) := by
  induction l with
  | nil => rfl
  | cons x rest ih =>
    obtain ⟨sid, st⟩ := x
    simp only [Srv.serveReturns.go, List.map_cons, ih]

theorem serveReturns_streams (s : Srv α) (err : Option String) :
    (s.serveReturns err).1.streams = s.streams.map (fun e => (e.1, (e.2.cancelCtx e.1 .canceled).1)) := by
  simp only [Srv.serveReturns]
  exact serveReturns_go_streams s.streams

theorem cancelCtx_of_done (sid : Sid) (s : SStream α) (e : CtxErr) (h : s.ctxDone.isSome = true) :
    s.cancelCtx sid e = (s, {}) := by
  unfold SStream.cancelCtx
  rw [if_pos h]

/-- **C04, server, any state.** After `serve` returned (for any reason):
    `returned = some err`; every stream context has ended; every stream object
    is the old one with its context cancelled; those whose context had not
    ended before have no pending read and no pending send; those whose context
    had already ended are untouched. -/
theorem C04_server_serveReturns (s : Srv α) (err : Option String) :
    (s.serveReturns err).1.returned = some err ∧
    (∀ e ∈ (s.serveReturns err).1.streams, e.2.ctxDone.isSome = true) ∧
    (∀ e ∈ s.streams, e.2.ctxDone = none →
      (e.1, (e.2.cancelCtx e.1 .canceled).1) ∈ (s.serveReturns err).1.streams ∧
      (e.2.cancelCtx e.1 .canceled).1.pread = none ∧ (e.2.cancelCtx e.1 .canceled).1.psend = none) ∧
    (∀ e ∈ s.streams, e.2.ctxDone.isSome = true → e ∈ (s.serveReturns err).1.streams) := by
  refine ⟨Proofs.ServerLocal.serveReturns_returned s err, Proofs.C09.C09_released s err, ?_, ?_⟩
  · intro e he hc
    refine ⟨?_, (Proofs.C09.cancelCtx_released e.1 e.2 .canceled).2 hc⟩
    rw [serveReturns_streams]
    exact List.mem_map.mpr ⟨e, he, rfl⟩
  · intro e he hc
    rw [serveReturns_streams]
    refine List.mem_map.mpr ⟨e, he, ?_⟩
    rw [cancelCtx_of_done e.1 e.2 _ hc]

/-- the context of the stream has ended -/
def CtxEnded (s : SStream α) : Prop := s.ctxDone.isSome = true

/-- nothing is blocked after `serve` returned, for every endpoint state whose streams satisfy `NB` -/
theorem nothing_blocked_after_return (s : Srv α) (err : Option String) (h : AllS NB s) :
    ∀ e ∈ (s.serveReturns err).1.streams, e.2.ctxDone.isSome = true ∧ e.2.pread = none ∧ e.2.psend = none := by
  intro e he
  have hc := Proofs.C09.C09_released s err e he
  have hnb := allS_serveReturns (P := NB) (fun sid s e h => cancelCtx_nb sid s e h) s err h e he
  exact ⟨hc, hnb hc⟩

/-- **C04, server: nothing hangs.** In every reachable state, when `serve`
    returns (protocol error, carrier error or EOF) every stream context has
    ended and no handler call — read or send — stays blocked, on any stream
    (including those whose context had ended earlier). -/
theorem C04_server_nothing_blocked_after_return (cfg : SCfg) (xs : List (SStim α)) (err : Option String) :
    let s := (Srv.run cfg ({} : Srv α) xs).1
    (s.serveReturns err).1.returned = some err ∧
    ∀ e ∈ (s.serveReturns err).1.streams, e.2.ctxDone.isSome = true ∧ e.2.pread = none ∧ e.2.psend = none :=
  ⟨Proofs.ServerLocal.serveReturns_returned _ err, nothing_blocked_after_return _ err (srvNB_run cfg xs)⟩

/-- a returned server ignores every frame -/
theorem returned_ignores_frames (cfg : SCfg) (s : Srv α) (sid : Sid) (f : C2S α)
    (h : s.returned.isSome = true) : s.onFrame cfg sid f = (s, {}) := by
  unfold Srv.onFrame
  rw [if_pos h]

/-- ... and a second end of the carrier -/
theorem returned_ignores_carrier (cfg : SCfg) (s : Srv α) (err : Option String)
    (h : s.returned.isSome = true) : s.step cfg (.carrierEnds err) = (s, {}) := by
  simp only [Srv.step]
  rw [if_pos h]

/-- `serve` returns once: the recorded reason never changes, whatever happens next -/
theorem step_keeps_returned (cfg : SCfg) (s : Srv α) (x : SStim α) (h : s.returned.isSome = true) :
    (s.step cfg x).1.returned = s.returned := by
  cases x with
  | frame sid f => simp only [Srv.step]; rw [returned_ignores_frames cfg s sid f h]
  | call sid c => exact Proofs.ServerLocal.call_never_ends_tunnel cfg s sid c
  | tick d => exact Proofs.ServerLocal.tick_never_ends_tunnel s d
  | closing b => rfl
  | carrierEnds err => rw [returned_ignores_carrier cfg s err h]

theorem step_preserves_returned (cfg : SCfg) (s : Srv α) (x : SStim α) (h : s.returned.isSome = true) :
    (s.step cfg x).1.returned.isSome = true := by
  rw [step_keeps_returned cfg s x h]; exact h

theorem run_keeps_returned (cfg : SCfg) (xs : List (SStim α)) : ∀ (s : Srv α), s.returned.isSome = true →
    (Srv.run cfg s xs).1.returned = s.returned := by
  induction xs with
  | nil => intro s _; rfl
  | cons x xs ih =>
    intro s h
    simp only [Srv.run]
    rw [ih _ (step_preserves_returned cfg s x h), step_keeps_returned cfg s x h]

/-- once `serve` has returned, every stream context has ended (endpoint invariant) -/
def RetDone (s : Srv α) : Prop := s.returned.isSome = true → AllS CtxEnded s

theorem createStream_retdone (cfg : SCfg) (s : Srv α) (sid : Sid) (m : List Nat) (md : MD) (rev : Int) (win : Nat) :
    (s.createStream cfg sid m md rev win).1.returned = s.returned ∨
    AllS CtxEnded (s.createStream cfg sid m md rev win).1 := by
  unfold Srv.createStream
  split
  · exact Or.inr (Proofs.C09.C09_released _ _)
  · split
    · exact Or.inr (Proofs.C09.C09_released _ _)
    · dsimp only
      split
      · exact Or.inl rfl
      · split
        · exact Or.inl rfl
        · split
          · exact Or.inl rfl
          · exact Or.inl rfl
          · split
            · exact Or.inl rfl
            · exact Or.inl rfl

theorem retDone_step (cfg : SCfg) (s : Srv α) (x : SStim α) (h : RetDone s) : RetDone (s.step cfg x).1 := by
  have hctx : ∀ (sid : Sid) (st : SStream α) (e : CtxErr), CtxEnded st → CtxEnded (st.cancelCtx sid e).1 :=
    fun sid st e hc => (cancelCtx_tab sid st e).ctxDone hc
  cases x with
  | frame sid f =>
    simp only [Srv.step, Srv.onFrame]
    split
    · exact h
    · rename_i hn
      split
      · rename_i m md rev win
        rcases createStream_retdone cfg s sid m md rev win with hr | hr
        · intro hret; rw [hr] at hret; exact absurd hret hn
        · exact fun _ => hr
      · split
        · intro hret; exact absurd hret hn
        · split
          · exact h
          · exact fun _ => Proofs.C09.C09_released _ _
  | call sid c =>
    intro hret
    simp only [Srv.step] at hret ⊢
    rw [Proofs.ServerLocal.call_never_ends_tunnel] at hret
    have hs := h hret
    unfold Srv.onCall
    split
    · exact hs
    · rename_i st hst
      obtain ⟨e, he, rfl⟩ := getAny_mem _ _ _ hst
      exact allS_setAny _ _ _ hs ((onCall_tab cfg sid e.2 c).ctxDone (hs e he))
  | tick d =>
    intro hret
    simp only [Srv.step] at hret ⊢
    rw [Proofs.ServerLocal.tick_never_ends_tunnel] at hret
    exact allS_tick hctx s d (h hret)
  | closing b => exact h
  | carrierEnds err =>
    simp only [Srv.step]
    split
    · exact h
    · exact fun _ => Proofs.C09.C09_released _ _

theorem retDone_run (cfg : SCfg) : ∀ (xs : List (SStim α)) (s : Srv α), RetDone s → RetDone (Srv.run cfg s xs).1 := by
  intro xs
  induction xs with
  | nil => intro s h; exact h
  | cons x xs ih =>
    intro s h
    simp only [Srv.run]
    exact ih _ (retDone_step cfg s x h)

/-- **C04, server: nothing hangs, ever after.** In every reachable state in
    which `serve` has returned — also after any number of later handler calls,
    ticks and (ignored) frames — every stream context has ended and no handler
    read or send is pending: a handler call made after the return completes at
    once. -/
theorem C04_server_returned_never_blocks (cfg : SCfg) (xs : List (SStim α)) :
    let s := (Srv.run cfg ({} : Srv α) xs).1
    s.returned.isSome = true →
    ∀ e ∈ s.streams, e.2.ctxDone.isSome = true ∧ e.2.pread = none ∧ e.2.psend = none := by
  intro s hret e he
  have hc : e.2.ctxDone.isSome = true :=
    retDone_run cfg xs {} (fun h => by cases h) hret e he
  exact ⟨hc, srvNB_run cfg xs e he hc⟩

/-! ## Part 1b: client streams -/

section Client
open Proofs.ClientShape

/-- an RPC without terminal result is in the table (the converse is part of `WF`) -/
def CT (s : CStream α) : Prop := s.done = none → s.inTable = true

/-- a blocked read has consumed everything that was queued -/
def QInv (s : CStream α) : Prop := s.pread.isSome = true → s.rcv.queue = []

/-- `CRel s s'`: the operation left `done` and `inTable` alone, or the RPC has
    its terminal result and is out of the table -/
def CRel (s s' : CStream α) : Prop :=
  (s'.done = s.done ∧ s'.inTable = s.inTable) ∨ (s'.done.isSome = true ∧ s'.inTable = false)

theorem CRel.refl (s : CStream α) : CRel s s := Or.inl ⟨rfl, rfl⟩

theorem CRel.trans {a b c : CStream α} (h1 : CRel a b) (h2 : CRel b c) : CRel a c := by
  rcases h2 with ⟨h2c, h2t⟩ | h2'
  · rcases h1 with ⟨h1c, h1t⟩ | ⟨h1c, h1t⟩
    · exact Or.inl ⟨h2c.trans h1c, h2t.trans h1t⟩
    · exact Or.inr ⟨by rw [h2c]; exact h1c, h2t.trans h1t⟩
  · exact Or.inr h2'

theorem CRel.of_eq {s s' : CStream α} (hd : s'.done = s.done) (ht : s'.inTable = s.inTable) : CRel s s' :=
  Or.inl ⟨hd, ht⟩

theorem CRel.ct {s s' : CStream α} (h : CRel s s') (hi : CT s) : CT s' := by
  intro hd
  rcases h with ⟨h1, h2⟩ | ⟨h1, _⟩
  · rw [h2]; exact hi (h1 ▸ hd)
  · rw [hd] at h1; cases h1

theorem CRel.out {s s' : CStream α} (h : CRel s s') (ht : s.inTable = false) : s'.inTable = false := by
  rcases h with ⟨_, h1⟩ | ⟨_, h1⟩
  · rw [h1]; exact ht
  · exact h1

theorem ctxEnds_crel (sid : Sid) (s : CStream α) (e : CtxErr) (b : Bool) : CRel s (s.ctxEnds sid e b).1 := by
  cases h : s.ctxDone with
  | some c => rw [ctxEnds_done sid s e b (by simp [h])]; exact CRel.refl s
  | none => rw [ctxEnds_eq sid s e b h]; exact CRel.of_eq rfl rfl

theorem resumeRead_crel (sid : Sid) (fuel : Nat) (s : CStream α) : CRel s (s.resumeRead sid fuel).1 := by
  obtain ⟨w, q, p', r', h⟩ := resumeRead_shape sid fuel s
  rw [h]; exact CRel.of_eq rfl rfl

theorem finish_crel (sid : Sid) (s : CStream α) (err : Option SErr) (tr : MD) :
    CRel s (s.finish sid err tr).1 := by
  cases hd : s.done with
  | some c => rw [finish_done sid s err tr (by simp [hd])]; exact CRel.refl s
  | none =>
    obtain ⟨w, q, r', c, ps, hs, -⟩ := finish_shape sid s err tr hd
    rw [hs]; exact Or.inr ⟨rfl, rfl⟩

theorem cancelStream_crel (sid : Sid) (s : CStream α) (err : SErr) : CRel s (s.cancelStream sid err).1 := by
  cases hd : s.done with
  | some c => rw [cancelStream_done sid s err (by simp [hd])]; exact CRel.refl s
  | none =>
    obtain ⟨w, q, r', c, ps, hs, -⟩ := cancelStream_shape sid s err hd
    rw [hs]; exact Or.inr ⟨rfl, rfl⟩

theorem afterRead_crel (sid : Sid) (fuel : Nat) (s : CStream α) :
    CRel s (CStream.afterRead sid (s.resumeRead sid fuel)).1 := by
  rw [afterRead_eq]
  split
  · exact resumeRead_crel sid fuel s
  · exact (resumeRead_crel sid fuel s).trans (cancelStream_crel sid _ _)

theorem ctxCancelled_crel (sid : Sid) (s : CStream α) (e : CtxErr) : CRel s (s.ctxCancelled sid e).1 := by
  cases hc : s.ctxDone with
  | some c => rw [ctxCancelled_done sid s e (by simp [hc])]; exact CRel.refl s
  | none =>
    rw [ctxCancelled_eq sid s e hc]
    exact (ctxEnds_crel sid s e _).trans (cancelStream_crel sid _ _)

theorem pumpSend_crel (cfg : CCfg) (sid : Sid) (s : CStream α) (snd : Snd α) :
    CRel s (s.pumpSend cfg sid snd).1 := by
  obtain ⟨w, ps, h, -⟩ := Proofs.ClientShape.pumpSend_shape cfg sid s snd
  rw [h]; exact CRel.of_eq rfl rfl

theorem dataFrame_crel (sid : Sid) (s : CStream α) (df : DFrame α) : CRel s (dataFrame sid s df).1 := by
  unfold dataFrame
  split
  · split
    · exact CRel.refl s
    · exact finish_crel sid s _ _
    · exact CRel.trans (b := { s with rcv := _ }) (CRel.of_eq rfl rfl) (afterRead_crel sid 3 _)
  · split
    · exact CRel.refl s
    · split
      · exact CRel.of_eq rfl rfl
      · exact CRel.trans (b := { s with rcv := _ }) (CRel.of_eq rfl rfl) (afterRead_crel sid 3 _)

theorem onFrame_crel (cfg : CCfg) (sid : Sid) (s : CStream α) (f : S2C α) :
    CRel s (s.onFrame cfg sid f).1 := by
  cases f with
  | settings w rv => rw [onFrame_settings]; exact finish_crel sid s _ _
  | headers md =>
    simp only [CStream.onFrame]
    split
    · exact CRel.refl s
    · split
      · exact CRel.of_eq rfl rfl
      · exact CRel.of_eq rfl rfl
  | msg size d => rw [onFrame_msg]; exact dataFrame_crel sid s _
  | more d => rw [onFrame_more]; exact dataFrame_crel sid s _
  | close st tr => rw [onFrame_close]; exact finish_crel sid s _ _
  | windowUpdate n =>
    simp only [CStream.onFrame]
    split
    · exact CRel.refl s
    · split
      · exact CRel.of_eq rfl rfl
      · exact CRel.trans (b := { s with win := _ }) (CRel.of_eq rfl rfl) (pumpSend_crel cfg sid _ _)
  | unset => rw [onFrame_unset]; exact finish_crel sid s _ _

theorem onCall_crel (cfg : CCfg) (sid : Sid) (s : CStream α) (c : CCall α) :
    CRel s (s.onCall cfg sid c).1 := by
  cases c with
  | send m =>
    simp only [CStream.onCall]
    split
    · exact CRel.refl s
    · exact CRel.trans (b := { s with numSent := _ }) (CRel.of_eq rfl rfl) (pumpSend_crel cfg sid _ _)
  | closeSend =>
    simp only [CStream.onCall]
    split
    · exact CRel.refl s
    · split
      · exact CRel.refl s
      · exact CRel.of_eq rfl rfl
  | recv =>
    simp only [CStream.onCall]
    split
    · exact CRel.refl s
    · exact CRel.trans (b := { s with pread := _ }) (CRel.of_eq rfl rfl) (afterRead_crel sid 3 _)
  | header =>
    simp only [CStream.onCall]
    split
    · exact CRel.refl s
    · split
      · exact CRel.refl s
      · exact CRel.of_eq rfl rfl
  | trailer => exact CRel.refl s
  | cancel => exact ctxCancelled_crel sid s _

/-! ### `QInv`: a pending read has drained the queue -/

theorem readLoop_cont_nil (q : List (DFrame α)) : ∀ (rwin : Nat) (st st' : RState α),
    (readLoop rwin q st).2.2.2 = some (.cont st') → (readLoop rwin q st).2.1 = [] := by
  induction q with
  | nil => intro rwin st st' _; rfl
  | cons f q ih =>
    intro rwin st st'
    simp only [readLoop]
    split
    · exact ih _ _ _
    · intro h; cases h
    · intro h; cases h

theorem QInv.of_none {s : CStream α} (h : s.pread = none) : QInv s := by
  intro hp; rw [h] at hp; cases hp

theorem QInv.congr {s s' : CStream α} (hp : s'.pread = s.pread) (hq : s'.rcv.queue = s.rcv.queue)
    (h : QInv s) : QInv s' := by
  intro h'; rw [hq]; exact h (hp ▸ h')

/-- the look-ahead pass of a read leaves the read completed or the queue empty -/
theorem resumeRead_la_qinv (sid : Sid) (fuel : Nat) (s : CStream α) (p : PRead α) (m : List α)
    (hp : s.pread = some p) (hl : p.lookahead = some m) :
    QInv (s.resumeRead sid (fuel + 1)).1 := by
  rw [CStream.resumeRead]
  split
  · rename_i hn; rw [hp] at hn; cases hn
  · rename_i p' hp'
    have : p' = p := by rw [hp] at hp'; exact (Option.some.inj hp').symm
    subst this
    split
    rename_i rwin q credits out hrl
    obtain ⟨r, hr⟩ := readLoop_some s.rcv.queue s.rcv.rwin p'.rst
    have hnil := readLoop_cont_nil s.rcv.queue s.rcv.rwin p'.rst
    rw [hrl] at hr hnil
    dsimp only at hr hnil ⊢
    subst hr
    cases r with
    | cont st' =>
      have hq : q = [] := hnil st' rfl
      subst hq
      dsimp only
      split
      · split
        · exact QInv.of_none rfl
        · exact QInv.of_none rfl
      · exact fun _ => rfl
    | msg m2 =>
      dsimp only
      split
      · exact QInv.of_none rfl
      · rename_i hn; rw [hl] at hn; cases hn
    | err e => exact QInv.of_none rfl

/-- after a read ran (two passes suffice) it is completed or the queue is empty — from any state -/
theorem resumeRead_qinv (sid : Sid) (fuel : Nat) (s : CStream α) :
    QInv (s.resumeRead sid (fuel + 2)).1 := by
  rw [CStream.resumeRead]
  split
  · rename_i hn; exact QInv.of_none hn
  · rename_i p hp
    split
    rename_i rwin q credits out hrl
    obtain ⟨r, hr⟩ := readLoop_some s.rcv.queue s.rcv.rwin p.rst
    have hnil := readLoop_cont_nil s.rcv.queue s.rcv.rwin p.rst
    rw [hrl] at hr hnil
    dsimp only at hr hnil ⊢
    subst hr
    cases r with
    | cont st' =>
      have hq : q = [] := hnil st' rfl
      subst hq
      dsimp only
      split
      · split
        · exact QInv.of_none rfl
        · exact QInv.of_none rfl
      · exact fun _ => rfl
    | msg m2 =>
      dsimp only
      split
      · exact QInv.of_none rfl
      · split
        · exact QInv.of_none rfl
        · exact resumeRead_la_qinv sid fuel _ _ m2 rfl rfl
    | err e => exact QInv.of_none rfl

theorem ctxEnds_qinv (sid : Sid) (s : CStream α) (e : CtxErr) (b : Bool) (h : QInv s) :
    QInv (s.ctxEnds sid e b).1 := by
  cases hc : s.ctxDone with
  | some c => rw [ctxEnds_done sid s e b (by simp [hc])]; exact h
  | none => rw [ctxEnds_eq sid s e b hc]; exact QInv.congr rfl rfl h

theorem finish_qinv (sid : Sid) (s : CStream α) (err : Option SErr) (tr : MD) (h : QInv s) :
    QInv (s.finish sid err tr).1 := by
  cases hd : s.done with
  | some c => rw [finish_done sid s err tr (by simp [hd])]; exact h
  | none =>
    obtain ⟨w, q, r', c, ps, hs, -⟩ := finish_shape sid s err tr hd
    rw [hs]; exact QInv.of_none rfl

theorem cancelStream_qinv (sid : Sid) (s : CStream α) (err : SErr) (h : QInv s) :
    QInv (s.cancelStream sid err).1 := by
  cases hd : s.done with
  | some c => rw [cancelStream_done sid s err (by simp [hd])]; exact h
  | none =>
    obtain ⟨w, q, r', c, ps, hs, -⟩ := cancelStream_shape sid s err hd
    rw [hs]; exact QInv.of_none rfl

theorem afterRead_qinv (sid : Sid) (fuel : Nat) (s : CStream α) :
    QInv (CStream.afterRead sid (s.resumeRead sid (fuel + 2))).1 := by
  rw [afterRead_eq]
  split
  · exact resumeRead_qinv sid fuel s
  · exact cancelStream_qinv sid _ _ (resumeRead_qinv sid fuel s)

theorem ctxCancelled_qinv (sid : Sid) (s : CStream α) (e : CtxErr) (h : QInv s) :
    QInv (s.ctxCancelled sid e).1 := by
  cases hc : s.ctxDone with
  | some c => rw [ctxCancelled_done sid s e (by simp [hc])]; exact h
  | none =>
    rw [ctxCancelled_eq sid s e hc]
    exact cancelStream_qinv sid _ _ (ctxEnds_qinv sid s e _ h)

theorem pumpSend_qinv (cfg : CCfg) (sid : Sid) (s : CStream α) (snd : Snd α) (h : QInv s) :
    QInv (s.pumpSend cfg sid snd).1 := by
  obtain ⟨w, ps, hs, -⟩ := Proofs.ClientShape.pumpSend_shape cfg sid s snd
  rw [hs]; exact QInv.congr rfl rfl h

/-- a data frame is only queued behind a pending read if that read then runs -/
theorem dataFrame_qinv (sid : Sid) (s : CStream α) (df : DFrame α) (h : QInv s) :
    QInv (dataFrame sid s df).1 := by
  unfold dataFrame
  split
  · split
    · exact h
    · exact finish_qinv sid s _ _ h
    · exact afterRead_qinv sid 1 _
  · split
    · exact h
    · split
      · exact QInv.congr (s := s) rfl rfl h
      · exact afterRead_qinv sid 1 _

theorem onFrame_qinv (cfg : CCfg) (sid : Sid) (s : CStream α) (f : S2C α) (h : QInv s) :
    QInv (s.onFrame cfg sid f).1 := by
  cases f with
  | settings w rv => rw [onFrame_settings]; exact finish_qinv sid s _ _ h
  | headers md =>
    simp only [CStream.onFrame]
    split
    · exact h
    · split
      · exact QInv.congr (s := s) rfl rfl h
      · exact QInv.congr (s := s) rfl rfl h
  | msg size d => rw [onFrame_msg]; exact dataFrame_qinv sid s _ h
  | more d => rw [onFrame_more]; exact dataFrame_qinv sid s _ h
  | close st tr => rw [onFrame_close]; exact finish_qinv sid s _ _ h
  | windowUpdate n =>
    simp only [CStream.onFrame]
    split
    · exact h
    · split
      · exact QInv.congr (s := s) rfl rfl h
      · exact pumpSend_qinv cfg sid _ _ (QInv.congr (s := s) rfl rfl h)
  | unset => rw [onFrame_unset]; exact finish_qinv sid s _ _ h

theorem onCall_qinv (cfg : CCfg) (sid : Sid) (s : CStream α) (c : CCall α) (h : QInv s) :
    QInv (s.onCall cfg sid c).1 := by
  cases c with
  | send m =>
    simp only [CStream.onCall]
    split
    · exact h
    · exact pumpSend_qinv cfg sid _ _ (QInv.congr (s := s) rfl rfl h)
  | closeSend =>
    simp only [CStream.onCall]
    split
    · exact h
    · split
      · exact h
      · exact QInv.congr (s := s) rfl rfl h
  | recv =>
    simp only [CStream.onCall]
    split
    · exact h
    · exact afterRead_qinv sid 1 _
  | header =>
    simp only [CStream.onCall]
    split
    · exact h
    · split
      · exact h
      · exact QInv.congr (s := s) rfl rfl h
  | trailer => exact h
  | cancel => exact ctxCancelled_qinv sid s _ h

/-! ### lifting per-stream invariants to the client endpoint

  As on the server, `Proofs.ClientInv.Liftable` is tied to `ClientInv.Pres`;
  the lifting is redone for any predicate kept by `onFrame`, `onCall`,
  `ctxCancelled` and by dropping the pending send (what `Cli.onCall` does on a
  torn-down carrier), and true of a stream object as `newStream` builds it.
  `ClientInv.AllS` and its generic lemmas are reused. -/

open Proofs.ClientInv (getAny_mem getStream_mem)

/-- `ClientInv.AllS`, under a name that does not clash with the server's -/
abbrev CAll (P : CStream α → Prop) (c : Cli α) : Prop := Proofs.ClientInv.AllS P c

structure CLift (cfg : CCfg) (P : CStream α → Prop) : Prop where
  frame : ∀ (sid : Sid) (s : CStream α) (f : S2C α), P s → P (s.onFrame cfg sid f).1
  call : ∀ (sid : Sid) (s : CStream α) (c : CCall α), P s → P (s.onCall cfg sid c).1
  ctx : ∀ (sid : Sid) (s : CStream α) (e : CtxErr), P s → P (s.ctxCancelled sid e).1
  clearSend : ∀ (s : CStream α), P s → P { s with psend := none }
  fresh : ∀ (cs ss fc : Bool) (W win : Nat) (dl : Option Nat),
    P ({ cs := cs, ss := ss, fc := fc, rcv := RcvQ.init W, win := win, deadline := dl } : CStream α)

theorem close_go_all {P : CStream α → Prop}
    (hP : ∀ (sid : Sid) (s : CStream α) (e : CtxErr), P s → P (s.ctxCancelled sid e).1)
    (l : List (Sid × CStream α)) (h : ∀ e ∈ l, P e.2) :
    ∀ e ∈ (Cli.close.go l).1, P e.2 := by
  induction l with
  | nil => intro e he; simp [Cli.close.go] at he
  | cons x rest ih =>
    obtain ⟨sid, st⟩ := x
    intro e he
    simp only [Cli.close.go] at he
    rcases List.mem_cons.mp he with h1 | h1
    · subst h1
      have hst := h (sid, st) List.mem_cons_self
      dsimp only
      split
      · exact hP sid st .canceled hst
      · exact hst
    · exact ih (fun e he => h e (List.mem_cons_of_mem _ he)) e h1

theorem ctick_go_all {P : CStream α → Prop}
    (hP : ∀ (sid : Sid) (s : CStream α) (e : CtxErr), P s → P (s.ctxCancelled sid e).1)
    (now : Nat) (l : List (Sid × CStream α)) (h : ∀ e ∈ l, P e.2) :
    ∀ e ∈ (Cli.tick.go now l).1, P e.2 := by
  induction l with
  | nil => intro e he; simp [Cli.tick.go] at he
  | cons x rest ih =>
    obtain ⟨sid, st⟩ := x
    intro e he
    simp only [Cli.tick.go] at he
    rcases List.mem_cons.mp he with h1 | h1
    · subst h1
      have hst := h (sid, st) List.mem_cons_self
      dsimp only
      split
      · split
        · exact hP sid st .deadline hst
        · exact hst
      · exact hst
    · exact ih (fun e he => h e (List.mem_cons_of_mem _ he)) e h1

theorem call_close {P : CStream α → Prop}
    (hP : ∀ (sid : Sid) (s : CStream α) (e : CtxErr), P s → P (s.ctxCancelled sid e).1)
    (c : Cli α) (err : Option String) (b : Bool) (h : CAll P c) : CAll P (c.close err b).1 := by
  unfold Cli.close
  split
  · exact h
  · intro e he
    exact close_go_all hP _ h e he

theorem call_tick {P : CStream α → Prop}
    (hP : ∀ (sid : Sid) (s : CStream α) (e : CtxErr), P s → P (s.ctxCancelled sid e).1)
    (c : Cli α) (d : Nat) (h : CAll P c) : CAll P (c.tick d).1 := by
  intro e he
  simp only [Cli.tick] at he
  exact ctick_go_all hP _ _ h e he

theorem call_newStream {cfg : CCfg} {P : CStream α → Prop} (hP : CLift cfg P)
    (c : Cli α) (cs ss : Bool) (m : List Nat) (md : MD) (t : Option Nat) (cn : Bool) (h : CAll P c) :
    CAll P (c.newStream cfg cs ss m md t cn).1 := by
  unfold Cli.newStream
  split
  · exact h
  · split
    · exact h
    · rename_i sid hsid
      dsimp only
      split
      · exact Proofs.ClientInv.allS_setAny _ _ _ (Proofs.ClientInv.append_all h (hP.fresh _ _ _ _ _ _))
          (hP.ctx _ _ _ (hP.fresh _ _ _ _ _ _))
      · exact Proofs.ClientInv.append_all h (hP.fresh _ _ _ _ _ _)

theorem call_onSettingsPhase {cfg : CCfg} {P : CStream α → Prop} (hP : CLift cfg P)
    (c : Cli α) (sid : Sid) (f : S2C α) (h : CAll P c) : CAll P (c.onSettingsPhase cfg sid f).1 := by
  unfold Cli.onSettingsPhase
  split
  · exact call_close hP.ctx _ _ _ h
  · split
    · split
      · exact call_close hP.ctx _ _ _ h
      · exact h
    · exact call_close hP.ctx _ _ _ h

theorem call_onFrame {cfg : CCfg} {P : CStream α → Prop} (hP : CLift cfg P)
    (c : Cli α) (sid : Sid) (f : S2C α) (h : CAll P c) : CAll P (c.onFrame cfg sid f).1 := by
  unfold Cli.onFrame
  split
  · exact h
  · split
    · exact call_onSettingsPhase hP _ _ _ h
    · split
      · rename_i st hst
        obtain ⟨e, he, rfl⟩ := getStream_mem _ _ _ hst
        exact Proofs.ClientInv.allS_setAny _ _ _ h (hP.frame _ _ _ (h e he))
      · split
        · exact h
        · exact call_close hP.ctx _ _ _ h

theorem call_carrierEnds {P : CStream α → Prop}
    (hP : ∀ (sid : Sid) (s : CStream α) (e : CtxErr), P s → P (s.ctxCancelled sid e).1)
    (c : Cli α) (err : Option String) (h : CAll P c) : CAll P (c.carrierEnds err).1 := by
  unfold Cli.carrierEnds
  split
  · exact call_close hP _ _ _ h
  · exact call_close hP _ _ _ h

theorem call_onCall {cfg : CCfg} {P : CStream α → Prop} (hP : CLift cfg P)
    (c : Cli α) (sid : Sid) (call : CCall α) (h : CAll P c) : CAll P (c.onCall cfg sid call).1 := by
  unfold Cli.onCall
  split
  · exact h
  · rename_i st hst
    obtain ⟨e, he, rfl⟩ := getAny_mem _ _ _ hst
    have hst' : P (e.2.onCall cfg sid call).1 := hP.call _ _ _ (h e he)
    dsimp only
    split
    · split
      · exact Proofs.ClientInv.allS_setAny _ _ _ h (hP.clearSend _ hst')
      · exact Proofs.ClientInv.allS_setAny _ _ _ h hst'
    · exact Proofs.ClientInv.allS_setAny _ _ _ h hst'

theorem call_step {cfg : CCfg} {P : CStream α → Prop} (hP : CLift cfg P)
    (c : Cli α) (x : CStim α) (h : CAll P c) : CAll P (c.step cfg x).1 := by
  cases x with
  | frame sid f => exact call_onFrame hP _ _ _ h
  | new cs ss m md t cn => exact call_newStream hP c cs ss m md t cn h
  | call sid call => exact call_onCall hP _ _ _ h
  | tick d => exact call_tick hP.ctx _ _ h
  | carrierEnds err => exact call_carrierEnds hP.ctx _ _ h
  | close => exact call_close hP.ctx _ _ _ h

theorem call_run {cfg : CCfg} {P : CStream α → Prop} (hP : CLift cfg P) :
    ∀ (xs : List (CStim α)) (c : Cli α), CAll P c → CAll P (Cli.run cfg c xs).1 := by
  intro xs
  induction xs with
  | nil => intro c h; exact h
  | cons x xs ih =>
    intro c h
    simp only [Cli.run]
    exact ih _ (call_step hP c x h)

theorem ct_lift (cfg : CCfg) : CLift cfg (CT (α := α)) :=
  ⟨fun sid s f h => (onFrame_crel cfg sid s f).ct h, fun sid s c h => (onCall_crel cfg sid s c).ct h,
   fun sid s e h => (ctxCancelled_crel sid s e).ct h, fun _ h => h, fun _ _ _ _ _ _ _ => rfl⟩

theorem qinv_lift (cfg : CCfg) : CLift cfg (QInv (α := α)) :=
  ⟨fun sid s f h => onFrame_qinv cfg sid s f h, fun sid s c h => onCall_qinv cfg sid s c h,
   fun sid s e h => ctxCancelled_qinv sid s e h, fun _ h => h, fun _ _ _ _ _ _ => QInv.of_none rfl⟩


/-! ### `CT`, spelled out per operation -/

theorem finish_ct (sid : Sid) (s : CStream α) (err : Option SErr) (tr : MD) (h : CT s) :
    CT (s.finish sid err tr).1 := (finish_crel sid s err tr).ct h
theorem cancelStream_ct (sid : Sid) (s : CStream α) (err : SErr) (h : CT s) :
    CT (s.cancelStream sid err).1 := (cancelStream_crel sid s err).ct h
theorem ctxCancelled_ct (sid : Sid) (s : CStream α) (e : CtxErr) (h : CT s) :
    CT (s.ctxCancelled sid e).1 := (ctxCancelled_crel sid s e).ct h
theorem onFrame_ct (cfg : CCfg) (sid : Sid) (s : CStream α) (f : S2C α) (h : CT s) :
    CT (s.onFrame cfg sid f).1 := (onFrame_crel cfg sid s f).ct h
theorem onCall_ct (cfg : CCfg) (sid : Sid) (s : CStream α) (c : CCall α) (h : CT s) :
    CT (s.onCall cfg sid c).1 := (onCall_crel cfg sid s c).ct h
theorem newStream_ct (cfg : CCfg) (c : Cli α) (cs ss : Bool) (m : List Nat) (md : MD) (t : Option Nat) (cn : Bool)
    (h : CAll CT c) : CAll CT (c.newStream cfg cs ss m md t cn).1 :=
  call_newStream (ct_lift cfg) c cs ss m md t cn h
theorem step_ct (cfg : CCfg) (c : Cli α) (x : CStim α) (h : CAll CT c) : CAll CT (c.step cfg x).1 :=
  call_step (ct_lift cfg) c x h
theorem step_qinv (cfg : CCfg) (c : Cli α) (x : CStim α) (h : CAll QInv c) : CAll QInv (c.step cfg x).1 :=
  call_step (qinv_lift cfg) c x h

/-- **`done = none → inTable = true` for every stream of every reachable client state** -/
theorem cliCT_run (cfg : CCfg) (xs : List (CStim α)) : CAll CT (Cli.run cfg (Cli.start cfg : Cli α) xs).1 :=
  call_run (ct_lift cfg) xs _ (Proofs.ClientInv.allS_start cfg _)

/-- **a blocked read has drained the queue, in every reachable client state** -/
theorem cliQInv_run (cfg : CCfg) (xs : List (CStim α)) : CAll QInv (Cli.run cfg (Cli.start cfg : Cli α) xs).1 :=
  call_run (qinv_lift cfg) xs _ (Proofs.ClientInv.allS_start cfg _)

/-- on a well-formed stream satisfying `CT`: in the table iff no terminal result yet -/
theorem inTable_eq_done_isNone {s : CStream α} (hwf : WF s) (hct : CT s) : s.inTable = s.done.isNone := by
  cases hd : s.done with
  | none => exact hct hd
  | some d => exact (hwf.2 (by simp [hd])).2.2.2.2.2.2

theorem table_exact_of_inv (c : Cli α) (hwf : AllWF c) (hct : CAll CT c) (sid : Sid) :
    sid ∈ c.table ↔ ∃ st, (sid, st) ∈ c.streams ∧ st.done = none := by
  simp only [Cli.table, List.mem_map, List.mem_filter]
  constructor
  · rintro ⟨e, ⟨he, ht⟩, rfl⟩
    refine ⟨e.2, he, ?_⟩
    have := inTable_eq_done_isNone (hwf e he) (hct e he)
    rw [ht] at this
    cases hd : e.2.done with
    | none => rfl
    | some d => rw [hd] at this; cases this
  · rintro ⟨st, he, hd⟩
    exact ⟨(sid, st), ⟨he, hct (sid, st) he hd⟩, rfl⟩

/-- **C14, client: `inTable = done.isNone`** for every stream of every reachable state -/
theorem C14_client_inTable (cfg : CCfg) (xs : List (CStim α)) :
    ∀ e ∈ (Cli.run cfg (Cli.start cfg : Cli α) xs).1.streams, e.2.inTable = e.2.done.isNone :=
  fun e he => inTable_eq_done_isNone (Proofs.C07.reachable_WF cfg xs e he) (cliCT_run cfg xs e he)

/-- **C14, client.** In every reachable state the table contains exactly the
    RPCs in flight: an id is in the table iff it has a stream object without
    terminal result. -/
theorem C14_client_table_exact (cfg : CCfg) (xs : List (CStim α)) :
    let c := (Cli.run cfg (Cli.start cfg : Cli α) xs).1
    ∀ sid, sid ∈ c.table ↔ ∃ st, (sid, st) ∈ c.streams ∧ st.done = none :=
  fun sid => table_exact_of_inv _ (Proofs.C07.reachable_WF cfg xs) (cliCT_run cfg xs) sid

/-! ## Part 2a: C04, client side — `close` -/

/-- the gRPC code of a context error, as the client's `finishStream` maps it -/
def ctxCode : CtxErr → Nat
  | .canceled => codeCanceled
  | .deadline => codeDeadlineExceeded

theorem mapFinishErr_ctx_code (e : CtxErr) : ∃ msg, mapFinishErr (some (.ctx e)) = .status (mkStatus (ctxCode e) msg) := by
  cases e
  · exact ⟨_, rfl⟩
  · exact ⟨_, rfl⟩

/-- a blocked read woken on a closed receiver of an RPC that failed with a
    status: it has drained the queue (`QInv`), so it returns that status — also
    when it is the look-ahead read holding a complete first message, which is
    dropped -/
theorem resumeRead_woken_dones (sid : Sid) (fuel : Nat) (s : CStream α) (st : Status) (hf : fuel ≠ 0)
    (hq : QInv s) (hc : s.rcv.closed = true) (hd : s.done = some (.status st)) :
    (s.resumeRead sid fuel).2.1.dones =
      match s.pread with
      | some _ => [(sid, "recv", Res.status st.code)]
      | none => [] := by
  obtain ⟨fuel, rfl⟩ : ∃ n, fuel = n + 1 := ⟨fuel - 1, by omega⟩
  cases hp : s.pread with
  | none => rw [resumeRead_none sid _ s hp]
  | some p =>
    have hq' := hq (by simp [hp])
    rw [CStream.resumeRead]
    simp only [hp, hq', readLoop, hc, hd, Bool.true_or, if_true, Option.getD_some]
    cases p.lookahead <;> rfl

theorem resumeRead_ctxDone (sid : Sid) (fuel : Nat) (s : CStream α) :
    (s.resumeRead sid fuel).1.ctxDone = s.ctxDone := by
  obtain ⟨w, q, p', r', h⟩ := resumeRead_shape sid fuel s
  rw [h]

/-- the calls completed by a `finishStream` that wins, on a stream whose context has already ended -/
theorem finish_dones (sid : Sid) (s : CStream α) (err : Option SErr) (tr : MD) (hd : s.done = none)
    (hc : s.ctxDone.isSome = true) :
    (s.finish sid err tr).2.1.dones =
      (if s.pheader then [(sid, "header", Res.md s.headers)] else []) ++
      ((finPre s err tr).resumeRead sid 3).2.1.dones := by
  rw [finish_eq sid s err tr hd]
  have : ((finPre s err tr).resumeRead sid 3).1.ctxDone.isSome = true := by
    rw [resumeRead_ctxDone]; exact hc
  rw [ctxEnds_done _ _ _ _ this]
  simp only [COut.add, List.append_nil]

theorem cancelStream_dones (sid : Sid) (s : CStream α) (err : SErr) (hd : s.done = none) :
    (s.cancelStream sid err).2.dones = (s.finish sid (some err) []).2.1.dones := by
  rw [cancelStream_eq sid s err hd]
  simp only [COut.add, List.append_nil]

/-- **what the end of the stream context completes**, exactly, on a live RPC
    (`done = none`, `ctxDone = none`) whose blocked read — if any — has drained
    the queue: a blocked send returns the context error; a blocked `Header()`
    returns the headers if they came, else the race marker (context error or
    nil headers); a blocked read returns the status `Canceled` /
    `DeadlineExceeded` — never a message, not even the first message a
    look-ahead read is holding. -/
theorem ctxCancelled_dones (sid : Sid) (s : CStream α) (e : CtxErr) (hc : s.ctxDone = none)
    (hd : s.done = none) (hq : QInv s) :
    (s.ctxCancelled sid e).2.dones =
      (match s.psend with
        | some _ => [(sid, "send", Res.ctx e)]
        | none => []) ++
      (if s.pheader then
        [(sid, "header", if s.gotHeaders then Res.md s.headers else .other "RACE:ctx-or-nil-headers")]
       else []) ++
      (match s.pread with
        | some _ => [(sid, "recv", Res.status (ctxCode e))]
        | none => []) := by
  rw [ctxCancelled_eq sid s e hc, ctxEnds_eq sid s e _ hc]
  simp only [COut.add]
  rw [cancelStream_dones sid ({ s with ctxDone := some e, psend := none, pheader := false } : CStream α) (.ctx e) hd,
    finish_dones sid ({ s with ctxDone := some e, psend := none, pheader := false } : CStream α) _ _ hd rfl]
  obtain ⟨msg, hm⟩ := mapFinishErr_ctx_code e
  rw [resumeRead_woken_dones sid 3
    (finPre ({ s with ctxDone := some e, psend := none, pheader := false } : CStream α) (some (.ctx e)) [])
    (mkStatus (ctxCode e) msg) (by decide) (QInv.congr (s := s) rfl rfl hq) rfl
    (by simp only [finPre, hm])]
  simp only [hd, Option.isNone_none, if_true, Bool.false_eq_true, if_false, List.nil_append, finPre, mkStatus]
  rfl

/-- a result that is neither "OK" nor a delivered message -/
def NonOK (r : Res α) : Prop :=
  match r with
  | .ok => False
  | .msg _ => False
  | _ => True

/-- classification of what the end of the context completes on a stream that is still in the table -/
theorem ctxCancelled_dones_class (sid : Sid) (s : CStream α) (e : CtxErr) (hwf : WF s)
    (ht : s.inTable = true) (hq : QInv s) :
    ∀ d ∈ (s.ctxCancelled sid e).2.dones,
      d = (sid, "send", Res.ctx e) ∨ d = (sid, "recv", Res.status (ctxCode e)) ∨
      (d.1 = sid ∧ d.2.1 = "header" ∧ (d.2.2 = .md s.headers ∨ d.2.2 = .other "RACE:ctx-or-nil-headers")) := by
  have hd : s.done = none := by
    cases hd : s.done with
    | none => rfl
    | some x =>
      have := (hwf.2 (by simp [hd])).2.2.2.2.2.2
      rw [ht] at this; cases this
  have hc := hwf.open_ctx hd
  rw [ctxCancelled_dones sid s e hc hd hq]
  intro d hd'
  rcases List.mem_append.mp hd' with h | h
  · rcases List.mem_append.mp h with h | h
    · cases hps : s.psend with
      | none => rw [hps] at h; cases h
      | some x =>
        rw [hps] at h
        exact Or.inl (List.mem_singleton.mp h)
    · cases hph : s.pheader with
      | false => rw [hph] at h; cases h
      | true =>
        rw [hph] at h
        have := List.mem_singleton.mp h
        subst this
        refine Or.inr (Or.inr ⟨rfl, rfl, ?_⟩)
        cases s.gotHeaders
        · exact Or.inr rfl
        · exact Or.inl rfl
  · cases hpr : s.pread with
    | none => rw [hpr] at h; cases h
    | some x =>
      rw [hpr] at h
      exact Or.inr (Or.inl (List.mem_singleton.mp h))

/-- nothing is blocked, the RPC has its result, the stream is out of the table -/
def Settled (s : CStream α) : Prop :=
  s.done.isSome = true ∧ s.ctxDone.isSome = true ∧ s.pread = none ∧ s.psend = none ∧ s.pheader = false ∧
  s.inTable = false

theorem isNone_eq_none {A : Type} {o : Option A} (h : o.isNone = true) : o = none := by
  cases o with
  | none => rfl
  | some x => cases h

theorem settled_of_done {s : CStream α} (hwf : WF s) (hd : s.done.isSome = true) : Settled s := by
  have h := hwf.2 hd
  exact ⟨hd, by rw [hwf.1]; exact hd, isNone_eq_none h.2.1, isNone_eq_none h.2.2.1, h.2.2.2.1, h.2.2.2.2.2.2⟩

/-- what `close` does to one stream object leaves it settled -/
theorem close_stream_settled (sid : Sid) (s : CStream α) (hwf : WF s) (hct : CT s) :
    Settled (if s.inTable then (s.ctxCancelled sid .canceled).1 else s) := by
  cases ht : s.inTable with
  | true =>
    simp only [if_true]
    exact settled_of_done (ctxCancelled_WF sid s _ hwf) (cancel_settled_WF sid s _ hwf).2.2.2.1
  | false =>
    simp only [Bool.false_eq_true, if_false]
    refine settled_of_done hwf ?_
    cases hd : s.done with
    | some x => rfl
    | none => have := hct hd; rw [ht] at this; cases this

/-- without `CT`: at least out of the table -/
theorem close_stream_out (sid : Sid) (s : CStream α) (hwf : WF s) :
    (if s.inTable then (s.ctxCancelled sid .canceled).1 else s).inTable = false := by
  cases ht : s.inTable with
  | true =>
    simp only [if_true]
    exact (settled_of_done (ctxCancelled_WF sid s _ hwf) (cancel_settled_WF sid s _ hwf).2.2.2.1).2.2.2.2.2
  | false =>
    simp only [Bool.false_eq_true, if_false]
    exact ht

/-- `close` cancels the context of every stream object that is in the table, in place -/
theorem close_go_streams (l : List (Sid × CStream α)) :
    (Cli.close.go l).1 =
      l.map (fun e => (e.1, if e.2.inTable then (e.2.ctxCancelled e.1 .canceled).1 else e.2)) := by
  induction l with
  | nil => rfl
  | cons x rest ih =>
    obtain ⟨sid, st⟩ := x
    simp only [Cli.close.go, List.map_cons, ih]
    cases st.inTable <;> rfl

theorem close_go_dones (l : List (Sid × CStream α)) :
    ∀ d ∈ (Cli.close.go l).2.dones,
      ∃ e ∈ l, e.2.inTable = true ∧ d ∈ (e.2.ctxCancelled e.1 .canceled).2.dones := by
  induction l with
  | nil => intro d hd; cases hd
  | cons x rest ih =>
    obtain ⟨sid, st⟩ := x
    intro d hd
    simp only [Cli.close.go, COut.add] at hd
    rcases List.mem_append.mp hd with h | h
    · cases ht : st.inTable with
      | true =>
        rw [ht] at h
        exact ⟨(sid, st), List.mem_cons_self, ht, h⟩
      | false =>
        rw [ht] at h
        cases h
    · obtain ⟨e, he, h1, h2⟩ := ih d h
      exact ⟨e, List.mem_cons_of_mem _ he, h1, h2⟩

theorem close_eq (c : Cli α) (err : Option String) (b : Bool) (h : c.finished = none) :
    (c.close err b).1 = { c with streams := (Cli.close.go c.streams).1, finished := some err } ∧
    (c.close err b).2.dones = (Cli.close.go c.streams).2.dones := by
  unfold Cli.close
  rw [h]
  cases b <;> simp [COut.add]

/-- **C04, client.** `Cli.close` — which is what `Close()`, a carrier error or
    EOF, a protocol error and a settings failure all run — on a reachable state
    (`AllWF`, `CT`, `QInv` all hold there: `run_AllWF`, `cliCT_run`,
    `cliQInv_run`) that is not finished yet:
    * records the reason;
    * leaves EVERY stream settled: terminal result set, context ended, no read,
      send or `Header()` blocked, out of the table; hence the table is empty;
    * every call it completes is, exactly: a blocked send (context error), a
      blocked read (status `Canceled`), or a blocked `Header()` (the headers, or
      the race marker);
    * in particular no "recv"/"send" completes with OK or with a message. -/
theorem C04_client_close (c : Cli α) (err : Option String) (b : Bool)
    (hwf : AllWF c) (hct : CAll CT c) (hq : CAll QInv c) (hfin : c.finished = none) :
    (c.close err b).1.finished = some err ∧
    (∀ e ∈ (c.close err b).1.streams,
      e.2.done.isSome = true ∧ e.2.ctxDone.isSome = true ∧ e.2.pread = none ∧ e.2.psend = none ∧
      e.2.pheader = false ∧ e.2.inTable = false) ∧
    (c.close err b).1.table = [] ∧
    (∀ d ∈ (c.close err b).2.dones,
      d.2 = ("send", Res.ctx .canceled) ∨ d.2 = ("recv", Res.status codeCanceled) ∨ d.2.1 = "header") ∧
    (∀ d ∈ (c.close err b).2.dones, d.2.1 = "recv" ∨ d.2.1 = "send" → NonOK d.2.2) := by
  obtain ⟨h1, h2⟩ := close_eq c err b hfin
  have hset : ∀ e ∈ (c.close err b).1.streams, Settled e.2 := by
    rw [h1]
    intro e he
    simp only [close_go_streams, List.mem_map] at he
    obtain ⟨x, hx, rfl⟩ := he
    exact close_stream_settled x.1 x.2 (hwf x hx) (hct x hx)
  have hcls : ∀ d ∈ (c.close err b).2.dones,
      d.2 = ("send", Res.ctx .canceled) ∨ d.2 = ("recv", Res.status codeCanceled) ∨ d.2.1 = "header" := by
    rw [h2]
    intro d hd
    obtain ⟨e, he, ht, hd'⟩ := close_go_dones c.streams d hd
    rcases ctxCancelled_dones_class e.1 e.2 .canceled (hwf e he) ht (hq e he) d hd' with h | h | h
    · rw [h]; exact Or.inl rfl
    · rw [h]; exact Or.inr (Or.inl rfl)
    · exact Or.inr (Or.inr h.2.1)
  refine ⟨by rw [h1], hset, ?_, hcls, ?_⟩
  · simp only [Cli.table, List.map_eq_nil_iff, List.filter_eq_nil_iff]
    intro e he
    rw [(hset e he).2.2.2.2.2]
    decide
  · intro d hd hop
    rcases hcls d hd with h | h | h
    · rw [h]; exact True.intro
    · rw [h]; exact True.intro
    · rw [h] at hop
      rcases hop with hop | hop <;> exact absurd hop (by decide)

/-! ### after `close` the table is empty, and stays empty -/

/-- on a finished channel no stream is in the table (endpoint invariant) -/
def FinOut (c : Cli α) : Prop := c.finished.isSome = true → ∀ e ∈ c.streams, e.2.inTable = false

theorem table_nil_of_out (c : Cli α) (h : ∀ e ∈ c.streams, e.2.inTable = false) : c.table = [] := by
  simp only [Cli.table, List.map_eq_nil_iff, List.filter_eq_nil_iff]
  intro e he
  rw [h e he]
  decide

theorem close_all_out (c : Cli α) (err : Option String) (b : Bool) (hwf : AllWF c) (hfin : c.finished = none) :
    ∀ e ∈ (c.close err b).1.streams, e.2.inTable = false := by
  rw [(close_eq c err b hfin).1]
  intro e he
  simp only [close_go_streams, List.mem_map] at he
  obtain ⟨x, hx, rfl⟩ := he
  exact close_stream_out x.1 x.2 (hwf x hx)

/-- `close` is idempotent -/
theorem close_idempotent (c : Cli α) (err : Option String) (b : Bool) (h : c.finished.isSome = true) :
    c.close err b = (c, {}) := by
  unfold Cli.close
  rw [if_pos h]

theorem close_finOut (c : Cli α) (err : Option String) (b : Bool) (hwf : AllWF c) (h : FinOut c) :
    FinOut (c.close err b).1 := by
  cases hf : c.finished with
  | some x => rw [close_idempotent c err b (by simp [hf])]; exact h
  | none => exact fun _ => close_all_out c err b hwf hf

/-- **after `Cli.close` (any error class) the table is empty**, for every
    well-formed state that satisfies `FinOut` (every reachable state does:
    `finOut_run`).  See the head of the file for why `AllWF` and `CT` alone do
    not suffice when the channel is already finished. -/
theorem client_close_empties_table (c : Cli α) (err : Option String) (b : Bool)
    (hwf : AllWF c) (hfo : FinOut c) : (c.close err b).1.table = [] := by
  cases hf : c.finished with
  | some x =>
    rw [close_idempotent c err b (by simp [hf])]
    exact table_nil_of_out c (hfo (by simp [hf]))
  | none => exact table_nil_of_out _ (close_all_out c err b hwf hf)

/-- the variant with exactly the requested hypotheses plus "not finished yet" -/
theorem client_close_empties_table_partial (c : Cli α) (err : Option String) (b : Bool)
    (hwf : AllWF c) (_hct : CAll CT c) (hfin : c.finished = none) : (c.close err b).1.table = [] :=
  table_nil_of_out _ (close_all_out c err b hwf hfin)

/-- RPCs started on a finished channel fail immediately, and nothing changes -/
theorem newStream_after_close (cfg : CCfg) (c : Cli α) (cs ss : Bool) (m : List Nat) (md : MD)
    (t : Option Nat) (cn : Bool) (h : c.finished.isSome = true) :
    c.newStream cfg cs ss m md t cn = (c, { dones := [(0, "new", .other "channel is closed")] }, none) := by
  unfold Cli.newStream
  rw [if_pos h]

theorem close_finished (c : Cli α) (err : Option String) (b : Bool) :
    (c.close err b).1.finished.isSome = true := by
  cases hf : c.finished with
  | some x => rw [close_idempotent c err b (by simp [hf])]; simp [hf]
  | none => rw [(close_eq c err b hf).1]; rfl

theorem newStream_finished (cfg : CCfg) (c : Cli α) (cs ss : Bool) (m : List Nat) (md : MD)
    (t : Option Nat) (cn : Bool) : (c.newStream cfg cs ss m md t cn).1.finished = c.finished := by
  unfold Cli.newStream
  split
  · rfl
  · split
    · rfl
    · dsimp only
      split <;> rfl

theorem tick_finished (c : Cli α) (d : Nat) : (c.tick d).1.finished = c.finished := by
  simp [Cli.tick]

/-- a frame on a finished channel is ignored -/
theorem finished_ignores_frames (cfg : CCfg) (c : Cli α) (sid : Sid) (f : S2C α)
    (h : c.finished.isSome = true) : c.onFrame cfg sid f = (c, {}) := by
  unfold Cli.onFrame
  rw [if_pos h]

theorem carrierEnds_finished (c : Cli α) (err : Option String) (h : c.finished.isSome = true) :
    c.carrierEnds err = (c, {}) := by
  unfold Cli.carrierEnds
  split <;> exact close_idempotent c _ _ h

/-- **a finished channel stays finished, with the same recorded reason** -/
theorem step_keeps_finished (cfg : CCfg) (c : Cli α) (x : CStim α) (h : c.finished.isSome = true) :
    (c.step cfg x).1.finished = c.finished := by
  cases x with
  | frame sid f => simp only [Cli.step]; rw [finished_ignores_frames cfg c sid f h]
  | new cs ss m md t cn => exact newStream_finished cfg c cs ss m md t cn
  | call sid call => exact (Proofs.ClientInv.client_call_local cfg c sid call).2.1
  | tick d => exact tick_finished c d
  | carrierEnds err => simp only [Cli.step]; rw [carrierEnds_finished c err h]
  | close => simp only [Cli.step]; rw [close_idempotent c _ _ h]

theorem step_preserves_finished (cfg : CCfg) (c : Cli α) (x : CStim α) (h : c.finished.isSome = true) :
    (c.step cfg x).1.finished.isSome = true := by
  rw [step_keeps_finished cfg c x h]; exact h

theorem run_keeps_finished (cfg : CCfg) (xs : List (CStim α)) : ∀ (c : Cli α), c.finished.isSome = true →
    (Cli.run cfg c xs).1.finished = c.finished := by
  induction xs with
  | nil => intro c _; rfl
  | cons x xs ih =>
    intro c h
    simp only [Cli.run]
    rw [ih _ (step_preserves_finished cfg c x h), step_keeps_finished cfg c x h]

theorem finOut_step (cfg : CCfg) (c : Cli α) (x : CStim α) (hwf : AllWF c) (h : FinOut c) :
    FinOut (c.step cfg x).1 := by
  have hctx : ∀ (sid : Sid) (st : CStream α) (e : CtxErr), st.inTable = false →
      (st.ctxCancelled sid e).1.inTable = false := fun sid st e ht => (ctxCancelled_crel sid st e).out ht
  cases x with
  | frame sid f =>
    simp only [Cli.step, Cli.onFrame]
    split
    · exact h
    · rename_i hn
      split
      · unfold Cli.onSettingsPhase
        split
        · exact close_finOut c _ _ hwf h
        · split
          · split
            · exact close_finOut c _ _ hwf h
            · exact fun hf => absurd hf hn
          · exact close_finOut c _ _ hwf h
      · split
        · exact fun hf => absurd hf hn
        · split
          · exact h
          · exact close_finOut c _ _ hwf h
  | new cs ss m md t cn =>
    intro hf
    simp only [Cli.step] at hf ⊢
    rw [newStream_finished] at hf
    rw [newStream_after_close cfg c cs ss m md t cn hf]
    exact h hf
  | call sid call =>
    intro hf
    simp only [Cli.step] at hf ⊢
    rw [(Proofs.ClientInv.client_call_local cfg c sid call).2.1] at hf
    have hs := h hf
    unfold Cli.onCall
    split
    · exact hs
    · rename_i st hst
      obtain ⟨e, he, rfl⟩ := getAny_mem _ _ _ hst
      have hst' : (e.2.onCall cfg sid call).1.inTable = false := (onCall_crel cfg sid e.2 call).out (hs e he)
      dsimp only
      split
      · split
        · exact Proofs.ClientInv.allS_setAny (P := fun s => s.inTable = false) _ _ _ hs hst'
        · exact Proofs.ClientInv.allS_setAny (P := fun s => s.inTable = false) _ _ _ hs hst'
      · exact Proofs.ClientInv.allS_setAny (P := fun s => s.inTable = false) _ _ _ hs hst'
  | tick d =>
    intro hf
    simp only [Cli.step] at hf ⊢
    rw [tick_finished] at hf
    exact call_tick (P := fun s => s.inTable = false) hctx c d (h hf)
  | carrierEnds err =>
    simp only [Cli.step, Cli.carrierEnds]
    split <;> exact close_finOut c _ _ hwf h
  | close => exact close_finOut c _ _ hwf h

theorem finOut_run (cfg : CCfg) : ∀ (xs : List (CStim α)) (c : Cli α), AllWF c → FinOut c →
    FinOut (Cli.run cfg c xs).1 := by
  intro xs
  induction xs with
  | nil => intro c _ h; exact h
  | cons x xs ih =>
    intro c hwf h
    simp only [Cli.run]
    exact ih _ (step_AllWF cfg c x hwf) (finOut_step cfg c x hwf h)

theorem reachable_finOut (cfg : CCfg) (xs : List (CStim α)) : FinOut (Cli.run cfg (Cli.start cfg : Cli α) xs).1 :=
  finOut_run cfg xs _ (start_AllWF cfg) (fun h => by simp [Cli.start] at h)

/-- **C14/C04, client: in every reachable state, after `Cli.close` (any error
    class, whether or not the channel was already finished) the table is
    empty; and a finished channel has an empty table.** -/
theorem client_close_empties_table_run (cfg : CCfg) (xs : List (CStim α)) (err : Option String) (b : Bool) :
    let c := (Cli.run cfg (Cli.start cfg : Cli α) xs).1
    (c.close err b).1.table = [] ∧ (c.finished.isSome = true → c.table = []) :=
  ⟨client_close_empties_table _ err b (Proofs.C07.reachable_WF cfg xs) (reachable_finOut cfg xs),
   fun h => table_nil_of_out _ (reachable_finOut cfg xs h)⟩

/-- **C04, client, on reachable states**: `C04_client_close` with its hypotheses discharged -/
theorem C04_client_close_run (cfg : CCfg) (xs : List (CStim α)) (err : Option String) (b : Bool) :
    let c := (Cli.run cfg (Cli.start cfg : Cli α) xs).1
    c.finished = none →
    (c.close err b).1.finished = some err ∧
    (∀ e ∈ (c.close err b).1.streams,
      e.2.done.isSome = true ∧ e.2.ctxDone.isSome = true ∧ e.2.pread = none ∧ e.2.psend = none ∧
      e.2.pheader = false ∧ e.2.inTable = false) ∧
    (c.close err b).1.table = [] ∧
    (∀ d ∈ (c.close err b).2.dones,
      d.2 = ("send", Res.ctx .canceled) ∨ d.2 = ("recv", Res.status codeCanceled) ∨ d.2.1 = "header") ∧
    (∀ d ∈ (c.close err b).2.dones, d.2.1 = "recv" ∨ d.2.1 = "send" → NonOK d.2.2) :=
  fun hfin => C04_client_close _ err b (Proofs.C07.reachable_WF cfg xs) (cliCT_run cfg xs) (cliQInv_run cfg xs) hfin

/-- **C04, client: nothing hangs, ever after.** In every reachable state of a
    finished channel — also after any number of later calls, ticks and
    (ignored) frames — every stream is settled: terminal result set, context
    ended, no read, send or `Header()` pending, out of the table. -/
theorem C04_client_finished_never_blocks (cfg : CCfg) (xs : List (CStim α)) :
    let c := (Cli.run cfg (Cli.start cfg : Cli α) xs).1
    c.finished.isSome = true →
    ∀ e ∈ c.streams,
      e.2.done.isSome = true ∧ e.2.ctxDone.isSome = true ∧ e.2.pread = none ∧ e.2.psend = none ∧
      e.2.pheader = false ∧ e.2.inTable = false := by
  intro c hf e he
  have ht := reachable_finOut cfg xs hf e he
  have hd : e.2.done.isSome = true := by
    cases hd : e.2.done with
    | some x => rfl
    | none => have := cliCT_run cfg xs e he hd; rw [ht] at this; cases this
  exact settled_of_done (Proofs.C07.reachable_WF cfg xs e he) hd

end Client

/-! ## Part 3: C02 — status and trailers across the wire, one step at a time -/

/-- **the status a handler returns is the status the caller's terminal result
    carries** (OK ↦ end-of-stream): server `finishStream` ↦ wire ↦ client
    `finishStream` -/
theorem status_roundtrip (st : Status) :
    mapFinishErr (statusErr (SErr.wireStatus (if st.code = 0 then none else some (.status st)))) =
      (if st.code = 0 then .eof else .status st) := by
  by_cases h : st.code = 0
  · simp only [h, if_true]; rfl
  · simp only [h, if_false, SErr.wireStatus, statusErr]; rfl

/-- a handler error that is not a status reaches the caller as `Unknown` with its text -/
theorem plain_error_roundtrip (t : String) :
    mapFinishErr (statusErr (SErr.wireStatus (some (.plain t)))) = .status (mkStatus codeUnknown t) := rfl

/-- ... and so do a raw EOF and raw context errors returned by a handler -/
theorem raw_error_roundtrip :
    mapFinishErr (statusErr (SErr.wireStatus (some .eof))) = .status (mkStatus codeUnknown "EOF") ∧
    mapFinishErr (statusErr (SErr.wireStatus (some (.ctx .canceled)))) =
      .status (mkStatus codeUnknown "context canceled") ∧
    mapFinishErr (statusErr (SErr.wireStatus (some (.ctx .deadline)))) =
      .status (mkStatus codeUnknown "context deadline exceeded") := ⟨rfl, rfl, rfl⟩

/-! ### 3b: server emission -/

open Proofs.ServerBound (ccSend ccRead) in
theorem cancelCtx_frames (sid : Sid) (s : SStream α) (e : CtxErr) :
    (s.cancelCtx sid e).2.frames =
      if s.ctxDone.isSome then []
      else (ccSend sid ({ s with ctxDone := some e, rcv := if s.fc then s.rcv.cancel else s.rcv.close } : SStream α) e).2.frames ++
           (ccRead sid (ccSend sid
              ({ s with ctxDone := some e, rcv := if s.fc then s.rcv.cancel else s.rcv.close } : SStream α) e).1 e).2.frames := by
  unfold SStream.cancelCtx
  split
  · rfl
  · rfl

theorem ccSend_closed (sid : Sid) (s : SStream α) (e : CtxErr) (hc : s.closed = true) :
    (Proofs.ServerBound.ccSend sid s e).2.frames = [] ∧ (Proofs.ServerBound.ccSend sid s e).1.closed = true := by
  unfold Proofs.ServerBound.ccSend
  split
  · dsimp only
    split
    · exact ⟨Proofs.C09.C09_finish_once sid _ _ hc, (Proofs.ServerShape.finishCore_closed sid _ _).1⟩
    · exact ⟨rfl, hc⟩
  · exact ⟨rfl, hc⟩

theorem ccRead_closed (sid : Sid) (s : SStream α) (e : CtxErr) (hc : s.closed = true) :
    (Proofs.ServerBound.ccRead sid s e).2.frames = [] := by
  unfold Proofs.ServerBound.ccRead
  split
  · dsimp only
    split
    · simp only [Out.add, List.nil_append]
      exact Proofs.C09.C09_finish_once sid _ _ hc
    · rfl
  · rfl

/-- cancelling the context of a stream that is already closed puts nothing on the wire -/
theorem cancelCtx_frames_of_closed (sid : Sid) (s : SStream α) (e : CtxErr) (hc : s.closed = true) :
    (s.cancelCtx sid e).2.frames = [] := by
  rw [cancelCtx_frames]
  split
  · rfl
  · have h1 := ccSend_closed sid
      ({ s with ctxDone := some e, rcv := if s.fc then s.rcv.cancel else s.rcv.close } : SStream α) e hc
    rw [h1.1, ccRead_closed sid _ e h1.2]
    rfl

/-- what `finishStream(err)` called by the handler side puts on the wire for a
    stream that is not closed yet: exactly (the headers frame with the
    accumulated headers, if none went out) and the close frame with the status
    of `err` and the accumulated trailers -/
theorem finish_frames (sid : Sid) (s : SStream α) (err : Option SErr) (hcl : s.closed = false) :
    (s.finish sid err false).2.frames =
      (if s.sentHeaders then [] else [(sid, .headers s.headers)]) ++
      [(sid, .close (SErr.wireStatus err) s.trailers)] := by
  simp only [SStream.finish, Bool.false_and, Out.add]
  rw [cancelCtx_frames_of_closed _ _ _ (Proofs.ServerShape.finishCore_closed sid s err).1, List.nil_append]
  exact (Proofs.C09.C09_finish_emits_close sid s err hcl).2.2

/-- a second `finishStream` (any caller) puts nothing on the wire -/
theorem finish_frames_of_closed (sid : Sid) (s : SStream α) (err : Option SErr) (b : Bool) (hcl : s.closed = true) :
    (s.finish sid err b).2.frames = [] := by
  simp only [SStream.finish, Out.add]
  rw [cancelCtx_frames_of_closed _ _ _ (Proofs.ServerShape.finishCore_closed sid s _).1, List.nil_append]
  exact Proofs.C09.C09_finish_once sid s _ hcl

/-- **C02, server: what a returning handler puts on the wire.**  `.ret st` on a
    stream that is not closed yet emits exactly: the headers frame carrying the
    accumulated headers if none was sent before, then ONE close frame carrying
    the handler's status (OK for code 0) and the accumulated trailers.  Nothing
    else. -/
theorem ret_frames (cfg : SCfg) (sid : Sid) (s : SStream α) (st : Status) (hcl : s.closed = false) :
    (s.onCall cfg sid (.ret st)).2.frames =
      (if s.sentHeaders then [] else [(sid, .headers s.headers)]) ++
      [(sid, .close (SErr.wireStatus (if st.code = 0 then none else some (.status st))) s.trailers)] := by
  simp only [SStream.onCall, Out.add, List.append_nil]
  exact finish_frames sid ({ s with hstatus := .returned } : SStream α) _ hcl

/-- ... and if the stream was already closed (the receive loop finished it
    first), the handler's return puts nothing on the wire: one close frame per RPC -/
theorem ret_frames_of_closed (cfg : SCfg) (sid : Sid) (s : SStream α) (st : Status) (hcl : s.closed = true) :
    (s.onCall cfg sid (.ret st)).2.frames = [] := by
  simp only [SStream.onCall, Out.add, List.append_nil]
  exact finish_frames_of_closed sid ({ s with hstatus := .returned } : SStream α) _ _ hcl

theorem setTrailer_accumulates (cfg : SCfg) (sid : Sid) (s : SStream α) (md : MD) (h : s.closed = false) :
    s.onCall cfg sid (.setTrailer md) =
      ({ s with trailers := MD.join s.trailers md }, { dones := [(sid, "settlr", .ok)] }) := by
  simp [SStream.onCall, h]

/-- after the close frame went out, `SetTrailer` is accepted and ignored -/
theorem setTrailer_after_close (cfg : SCfg) (sid : Sid) (s : SStream α) (md : MD) (h : s.closed = true) :
    s.onCall cfg sid (.setTrailer md) = (s, { dones := [(sid, "settlr", .ok)] }) := by
  simp [SStream.onCall, h]

theorem setHeader_accumulates (cfg : SCfg) (sid : Sid) (s : SStream α) (md : MD) (h : s.sentHeaders = false) :
    s.onCall cfg sid (.setHeader md) =
      ({ s with headers := MD.join s.headers md }, { dones := [(sid, "sethdr", .ok)] }) := by
  simp [SStream.onCall, h]

/-- `SetHeader` after the headers went out is refused with an error and changes nothing -/
theorem setHeader_refused (cfg : SCfg) (sid : Sid) (s : SStream α) (md : MD) (h : s.sentHeaders = true) :
    s.onCall cfg sid (.setHeader md) = (s, { dones := [(sid, "sethdr", .other "already sent headers")] }) := by
  simp [SStream.onCall, h]

/-- `SendHeader` emits the accumulated headers joined with its argument, once -/
theorem sendHeader_emits (cfg : SCfg) (sid : Sid) (s : SStream α) (md : MD) (h : s.sentHeaders = false) :
    s.onCall cfg sid (.sendHeader md) =
      ({ s with headers := [], sentHeaders := true },
       { frames := [(sid, .headers (MD.join s.headers md))], dones := [(sid, "sendhdr", .ok)] }) := by
  simp [SStream.onCall, h]

/-- `SendHeader` after the headers went out is refused with an error and changes nothing -/
theorem sendHeader_refused (cfg : SCfg) (sid : Sid) (s : SStream α) (md : MD) (h : s.sentHeaders = true) :
    s.onCall cfg sid (.sendHeader md) = (s, { dones := [(sid, "sendhdr", .other "already sent headers")] }) := by
  simp [SStream.onCall, h]

/-- the trailers are the `MD.join` of everything passed to `SetTrailer` so far, in order -/
theorem setTrailers_fold (cfg : SCfg) (sid : Sid) (mds : List MD) : ∀ (s : SStream α), s.closed = false →
    let s' := mds.foldl (fun x md => (x.onCall cfg sid (.setTrailer md)).1) s
    s'.trailers = mds.foldl MD.join s.trailers ∧ s'.closed = false ∧ s'.sentHeaders = s.sentHeaders ∧
    s'.headers = s.headers := by
  induction mds with
  | nil => intro s h; exact ⟨rfl, h, rfl, rfl⟩
  | cons md mds ih =>
    intro s h
    simp only [List.foldl_cons]
    rw [setTrailer_accumulates cfg sid s md h]
    exact ih _ h

/-- **C02, server: trailers set before the return are exactly those on the close frame** -/
theorem ret_after_setTrailers (cfg : SCfg) (sid : Sid) (s : SStream α) (mds : List MD) (st : Status)
    (hcl : s.closed = false) :
    let s' := mds.foldl (fun x md => (x.onCall cfg sid (.setTrailer md)).1) s
    (s'.onCall cfg sid (.ret st)).2.frames =
      (if s.sentHeaders then [] else [(sid, .headers s.headers)]) ++
      [(sid, .close (SErr.wireStatus (if st.code = 0 then none else some (.status st)))
              (mds.foldl MD.join s.trailers))] := by
  intro s'
  obtain ⟨h1, h2, h3, h4⟩ := setTrailers_fold cfg sid mds s hcl
  rw [ret_frames cfg sid s' st h2, h1, h3, h4]

/-! ### 3c: client reception -/

/-- **the first headers frame is what `Header()` returns**: it is recorded, and
    a `Header()` call blocked at that moment completes with it -/
theorem first_headers_recorded (cfg : CCfg) (sid : Sid) (s : CStream α) (md : MD) (h : s.gotHeaders = false) :
    (s.onFrame cfg sid (.headers md)).1.headers = md ∧ (s.onFrame cfg sid (.headers md)).1.gotHeaders = true ∧
    (s.onFrame cfg sid (.headers md)).1.pheader = false ∧
    (s.onFrame cfg sid (.headers md)).2.dones = (if s.pheader then [(sid, "header", .md md)] else []) ∧
    (s.onFrame cfg sid (.headers md)).2.frames = [] := by
  cases hp : s.pheader <;> simp [CStream.onFrame, h, hp]

/-- later headers frames are ignored -/
theorem later_headers_ignored (cfg : CCfg) (sid : Sid) (s : CStream α) (md : MD) (h : s.gotHeaders = true) :
    s.onFrame cfg sid (.headers md) = (s, {}) := by
  simp [CStream.onFrame, h]

/-- `Header()` once the headers are published returns them at once -/
theorem header_call_returns (cfg : CCfg) (sid : Sid) (s : CStream α) (h : s.gotHeaders = true) :
    s.onCall cfg sid .header = (s, { dones := [(sid, "header", .md s.headers)] }) := by
  simp [CStream.onCall, h]

/-- the first headers frame decides what every later `Header()` returns,
    whatever headers frames follow -/
theorem header_after_frames (cfg : CCfg) (sid : Sid) (s : CStream α) (md md' : MD) (h : s.gotHeaders = false) :
    let s1 := (s.onFrame cfg sid (.headers md)).1
    s1.onFrame cfg sid (.headers md') = (s1, {}) ∧
    s1.onCall cfg sid .header = (s1, { dones := [(sid, "header", .md md)] }) := by
  intro s1
  have h1 := first_headers_recorded cfg sid s md h
  refine ⟨later_headers_ignored cfg sid s1 md' h1.2.1, ?_⟩
  rw [header_call_returns cfg sid s1 h1.2.1, h1.1]

/-- `Trailer()` returns the recorded trailers iff the done signal is raised (else nil) -/
theorem trailer_call (cfg : CCfg) (sid : Sid) (s : CStream α) :
    s.onCall cfg sid .trailer =
      (s, { dones := [(sid, "trailer", .md (if s.doneSignal then s.trailers else []))] }) := rfl

theorem trailer_call_done (cfg : CCfg) (sid : Sid) (s : CStream α) (h : s.doneSignal = true) :
    s.onCall cfg sid .trailer = (s, { dones := [(sid, "trailer", .md s.trailers)] }) := by
  rw [trailer_call, h]; rfl

theorem trailer_call_early (cfg : CCfg) (sid : Sid) (s : CStream α) (h : s.doneSignal = false) :
    s.onCall cfg sid .trailer = (s, { dones := [(sid, "trailer", .md [])] }) := by
  rw [trailer_call, h]; rfl

/-- **C02, client: after the close frame** (on an RPC without terminal result)
    the terminal result is the frame's status (OK ↦ end-of-stream) and
    `Trailer()` returns exactly the frame's trailers -/
theorem trailers_after_close_frame (cfg : CCfg) (sid : Sid) (s : CStream α) (st : Status) (tr : MD)
    (hd : s.done = none) :
    let r := s.onFrame cfg sid (.close st tr)
    r.1.done = some (if st.code = 0 then .eof else .status st) ∧ r.1.trailers = tr ∧ r.1.doneSignal = true ∧
    r.1.onCall cfg sid .trailer = (r.1, { dones := [(sid, "trailer", .md tr)] }) := by
  intro r
  have h := Proofs.ClientShape.close_frame_outcome cfg sid s st tr hd
  rw [Proofs.ClientShape.mapFinishErr_statusErr] at h
  refine ⟨h.1, h.2.1, h.2.2.1, ?_⟩
  rw [trailer_call_done cfg sid r.1 h.2.2.1, h.2.1]

/-- **C02, one step end to end.** A handler returns status `st` on a stream
    `s` that is not closed; the close frame this puts on the wire (the last
    frame emitted, preceded only by the headers frame if none went out) is
    delivered to a caller-side stream `c` without terminal result.  Then the
    caller's terminal result is exactly `st` (end-of-stream for OK) and its
    trailers are exactly the handler's accumulated trailers. -/
theorem C02_status_trailers_exact (scfg : SCfg) (ccfg : CCfg) (sid : Sid) (s : SStream α) (c : CStream α)
    (st : Status) (hcl : s.closed = false) (hd : c.done = none) :
    let w := SErr.wireStatus (if st.code = 0 then none else some (.status st))
    (s.onCall scfg sid (.ret st)).2.frames =
      (if s.sentHeaders then [] else [(sid, .headers s.headers)]) ++ [(sid, .close w s.trailers)] ∧
    (let r := c.onFrame ccfg sid (.close w s.trailers)
     r.1.done = some (if st.code = 0 then .eof else .status st) ∧ r.1.trailers = s.trailers ∧
     r.1.doneSignal = true ∧
     r.1.onCall ccfg sid .trailer = (r.1, { dones := [(sid, "trailer", .md s.trailers)] })) := by
  intro w
  refine ⟨ret_frames scfg sid s st hcl, ?_⟩
  intro r
  have h := Proofs.ClientShape.close_frame_outcome ccfg sid c w s.trailers hd
  rw [status_roundtrip] at h
  refine ⟨h.1, h.2.1, h.2.2.1, ?_⟩
  rw [trailer_call_done ccfg sid r.1 h.2.2.1, h.2.1]

/-- ... and likewise for the headers: what `SendHeader` (or the first send, or
    the return) emits is what the caller's `Header()` returns -/
theorem C02_headers_exact (scfg : SCfg) (ccfg : CCfg) (sid : Sid) (s : SStream α) (c : CStream α) (md : MD)
    (hs : s.sentHeaders = false) (hg : c.gotHeaders = false) :
    (s.onCall scfg sid (.sendHeader md)).2.frames = [(sid, .headers (MD.join s.headers md))] ∧
    (let c1 := (c.onFrame ccfg sid (.headers (MD.join s.headers md))).1
     c1.onCall ccfg sid .header = (c1, { dones := [(sid, "header", .md (MD.join s.headers md))] })) := by
  refine ⟨by rw [sendHeader_emits scfg sid s md hs], ?_⟩
  exact (header_after_frames ccfg sid c _ [] hg).2

/-! ## non-vacuity and counterexamples (payload type `Nat`) -/

section Examples
open Proofs.ClientShape

/-- a decidable view of a completed call (`Res` has no decidable equality) -/
structure DoneView where
  sid : Int
  op : String
  kind : String
  code : Nat := 0
  msg : List Nat := []
  deriving DecidableEq

def doneView (d : Sid × String × Res Nat) : DoneView :=
  match d.2.2 with
  | .ok => { sid := d.1, op := d.2.1, kind := "ok" }
  | .msg m => { sid := d.1, op := d.2.1, kind := "msg", msg := m }
  | .md _ => { sid := d.1, op := d.2.1, kind := "md" }
  | .eof => { sid := d.1, op := d.2.1, kind := "eof" }
  | .status c => { sid := d.1, op := d.2.1, kind := "status", code := c }
  | .ctx .canceled => { sid := d.1, op := d.2.1, kind := "ctx-canceled" }
  | .ctx .deadline => { sid := d.1, op := d.2.1, kind := "ctx-deadline" }
  | .other _ => { sid := d.1, op := d.2.1, kind := "other" }

/-- a decidable view of an emitted server frame -/
structure FrameView where
  sid : Int
  kind : String
  code : Nat := 0
  md : MD := []
  deriving DecidableEq

def frameView (f : Sid × S2C Nat) : FrameView :=
  match f.2 with
  | .headers md => { sid := f.1, kind := "headers", md := md }
  | .close st tr => { sid := f.1, kind := "close", code := st.code, md := tr }
  | _ => { sid := f.1, kind := "?" }

-- `client_close_empties_table` with only `AllWF` and `CT` is false when the channel is
-- already finished: an (unreachable) finished channel holding a live stream.  `close`
-- is a no-op there and the table keeps the stream.  (`FinOut` excludes it.)
example :
    let st : CStream Nat := { cs := true, ss := true, fc := true, rcv := RcvQ.init 10, win := 10 }
    let c : Cli Nat := { finished := some none, streams := [(1, st)] }
    WF st ∧ st.done = none ∧ st.inTable = true ∧ (c.close none false).1.table = [1] := by decide

-- the "no message / no OK" part of `C04_client_close` is false without `QInv`: an
-- (unreachable) well-formed stream whose blocked read has NOT drained the queue.  The
-- read woken by `close` finds the complete message and delivers it.
example :
    let st : CStream Nat :=
      { cs := true, ss := true, fc := true, win := 10,
        rcv := { rwin := 9, queue := [DFrame.env 1 [7]], closed := false, cancelled := false },
        pread := some { lookahead := none, rst := none } }
    WF st ∧ st.inTable = true ∧
    (st.ctxCancelled 1 .canceled).2.dones.map doneView = [{ sid := 1, op := "recv", kind := "msg", msg := [7] }] := by
  decide

-- the truthful statement about the look-ahead read: on a non-server-stream method the
-- first response is complete and held by the eager second read; `Close()` completes that
-- read with status Canceled (1) — the held message is dropped.  The table is empty,
-- the stream settled, and a new RPC fails at once.
example :
    let r := Cli.run (α := Nat) {} (Cli.start {})
      [.frame (-1) (.settings 100 [1]), .new true false [1] [] none false, .call 1 .recv,
       .frame 1 (.msg 1 [7]), .close, .new true true [1] [] none false]
    r.2.map (fun o => o.dones.map doneView) =
      [[], [{ sid := 1, op := "new", kind := "ok" }], [], [],
       [{ sid := 1, op := "recv", kind := "status", code := 1 }],
       [{ sid := 0, op := "new", kind := "other" }]] ∧
    r.1.table = [] ∧ r.1.finished = some none ∧
    r.1.streams.map (fun e => (e.1, e.2.done.isSome, e.2.pread.isSome, e.2.inTable)) = [(1, true, false, false)] := by
  decide

-- C14, client, non-vacuity: two RPCs, one finished by its close frame — the table holds the other
example :
    let c := (Cli.run (α := Nat) {} (Cli.start {})
      [.frame (-1) (.settings 100 [1]), .new true true [1] [] none false, .new true true [1] [] none false,
       .frame 1 (.close (mkStatus 0 "") [("k", ["v"])])]).1
    c.table = [2] ∧ c.streams.map (fun e => (e.1, e.2.done.isNone, e.2.trailers)) =
      [(1, false, [("k", ["v"])]), (2, true, [])] := by decide

-- C14/C04, server, non-vacuity: two RPCs; the handler of 2 returns NotFound (one headers
-- frame, one close frame with the trailers set before, stream leaves the table); then the
-- carrier ends: the blocked read of 0 returns the context error; 0 stays in the table
-- until its handler returns (that is what `TInv` says: in the table iff `finishStream`
-- has not run).
example :
    let cfg : SCfg := { services := [([1], { methods := [], streams := [([2], true, true)] })] }
    let r := Srv.run (α := Nat) cfg {}
      [.frame 0 (.newStream [47, 1, 47, 2] [] 1 10), .frame 2 (.newStream [47, 1, 47, 2] [] 1 10),
       .call 0 .recv, .call 2 (.setTrailer [("k", ["v"])]), .call 2 (.ret (mkStatus 5 "nf")), .carrierEnds none]
    r.2.map (fun o => o.frames.map frameView) =
      [[], [], [], [],
       [{ sid := 2, kind := "headers" }, { sid := 2, kind := "close", code := 5, md := [("k", ["v"])] }], []] ∧
    r.2.map (fun o => o.dones.map doneView) =
      [[], [], [], [{ sid := 2, op := "settlr", kind := "ok" }], [],
       [{ sid := 0, op := "recv", kind := "ctx-canceled" }]] ∧
    r.1.table = [0] ∧ r.1.returned = some none ∧
    (r.1.onCall cfg 0 (.ret (mkStatus 0 ""))).1.table = [] := by
  decide

end Examples

end Proofs.Teardown

#print axioms Proofs.Teardown.srvTInv_run
#print axioms Proofs.Teardown.C14_server_table_exact
#print axioms Proofs.Teardown.server_finished_stays_out
#print axioms Proofs.Teardown.cliCT_run
#print axioms Proofs.Teardown.cliQInv_run
#print axioms Proofs.Teardown.C14_client_inTable
#print axioms Proofs.Teardown.C14_client_table_exact
#print axioms Proofs.Teardown.client_close_empties_table
#print axioms Proofs.Teardown.client_close_empties_table_partial
#print axioms Proofs.Teardown.client_close_empties_table_run
#print axioms Proofs.Teardown.ctxCancelled_dones
#print axioms Proofs.Teardown.C04_client_close
#print axioms Proofs.Teardown.C04_client_close_run
#print axioms Proofs.Teardown.C04_client_finished_never_blocks
#print axioms Proofs.Teardown.newStream_after_close
#print axioms Proofs.Teardown.close_idempotent
#print axioms Proofs.Teardown.step_keeps_finished
#print axioms Proofs.Teardown.C04_server_serveReturns
#print axioms Proofs.Teardown.srvNB_run
#print axioms Proofs.Teardown.C04_server_nothing_blocked_after_return
#print axioms Proofs.Teardown.C04_server_returned_never_blocks
#print axioms Proofs.Teardown.returned_ignores_frames
#print axioms Proofs.Teardown.step_keeps_returned
#print axioms Proofs.Teardown.status_roundtrip
#print axioms Proofs.Teardown.plain_error_roundtrip
#print axioms Proofs.Teardown.ret_frames
#print axioms Proofs.Teardown.ret_after_setTrailers
#print axioms Proofs.Teardown.setHeader_refused
#print axioms Proofs.Teardown.sendHeader_refused
#print axioms Proofs.Teardown.first_headers_recorded
#print axioms Proofs.Teardown.later_headers_ignored
#print axioms Proofs.Teardown.trailers_after_close_frame
#print axioms Proofs.Teardown.C02_status_trailers_exact
#print axioms Proofs.Teardown.C02_headers_exact
