import TunnelModel.Waiters
import TunnelModel.RoundRobin
/-!
  `waitForReady` vs. `add` / `remove` on `reverseChannels` (handler.go), for the
  model `TunnelModel.Waiters` that tracks the identity ("generation") of the
  `avail` channel and the generation every waiter captured.

  All statements are for EVERY op list (`run ops`, unbounded), with NO legality
  hypothesis: tunnel ids may be re-added, removes may be redundant (not found,
  repeated, on an empty list), waiter ids may repeat.

  Nothing had to be weakened: there is no `_partial` theorem in this file.

  * `Inv`, `Inv.init`, `Inv.add`, `Inv.remove`, `Inv.wait`, `inv_run`: the inductive
    invariant.  Besides the two clauses asked for it needs two bounds to be
    inductive: no generation above the current one is closed (`make` is fresh),
    and no waiter holds a generation above the current one.
  * 1 `latch_inv`: `gen ∈ closedGens ↔ chans ≠ []` and `∀ g < gen, g ∈ closedGens`.
      `add_closes_open_channel`: the `close(c.avail)` in `add` always hits an open
      channel (no "close of closed channel" panic).
  * 2 `parked_on_current`: a parked waiter holds the CURRENT generation and the
      registry is empty.
  * 3 `no_lost_wakeup`: `ready → no waiter parked`; `after_add_none_parked`;
      `parked_iff_not_ready_of_waiting` (converse for a waiter on the current
      generation); `wait_returns_iff` / `wait_parks_iff`.
  * 4 `buggy_loses_wakeup`, `buggy_no_lost_wakeup_false`: with `removeBuggy` the
      run `[wait 7, remove 1, add 1]` ends ready with waiter 7 parked; the same
      run with the real `remove` does not (`buggy_run_ok_with_real_remove`).
      `buggy_latch_still_ok`: the fault is INVISIBLE to the Boolean abstraction
      (`gen ∈ closedGens ↔ chans ≠ []` still holds on that run) — it is only the
      channel identity that goes wrong, which is why `RoundRobin.Pool` cannot see it.
  * 5 refinement to `TunnelModel.RoundRobin.Pool`: `abs_step` (under `Inv`),
      `abs_run`: `abs (run ops) = ops.foldl poolStep Pool.empty`; `abs_all`.
-/
namespace Proofs.Waiters
open TunnelModel.Waiters

/-! ## the loop of `remove` -/

theorem removeFirst_some_ne_nil {t : Nat} {l rest : List Nat}
    (h : removeFirst t l = some rest) : l ≠ [] := by
  cases l with
  | nil => simp [removeFirst] at h
  | cons a l => simp

theorem removeFirst_none_iff (t : Nat) (l : List Nat) : removeFirst t l = none ↔ t ∉ l := by
  induction l with
  | nil => simp [removeFirst]
  | cons a l ih =>
    unfold removeFirst
    by_cases h : a = t
    · simp [h]
    · have h' : ¬ t = a := fun e => h e.symm
      cases hr : removeFirst t l <;> simp_all

/-- a redundant remove is a no-op -/
theorem remove_not_mem (s : State) (t : Nat) (h : t ∉ s.chans) : s.remove t = s := by
  have := (removeFirst_none_iff t s.chans).2 h
  simp [State.remove, this]

theorem remove_nil (s : State) (t : Nat) (h : s.chans = []) : s.remove t = s :=
  remove_not_mem s t (by simp [h])

/-! ## the invariant -/

structure Inv (s : State) : Prop where
  /-- the channel in `c.avail` is closed iff there is a tunnel -/
  cur : s.gen ∈ s.closedGens ↔ s.chans ≠ []
  /-- every replaced channel had been closed -/
  old : ∀ g, g < s.gen → g ∈ s.closedGens
  /-- only channels that have existed can be closed -/
  bound : ∀ g ∈ s.closedGens, g ≤ s.gen
  /-- only channels that have existed can be captured -/
  wbound : ∀ p ∈ s.waiters, p.2 ≤ s.gen

theorem Inv.init : Inv State.init :=
  ⟨by simp [State.init], by simp [State.init], by simp [State.init], by simp [State.init]⟩

theorem Inv.add {s : State} (h : Inv s) (t : Nat) : Inv (s.add t) := by
  obtain ⟨cur, old, bound, wbound⟩ := h
  by_cases hc : s.chans = []
  · refine ⟨?_, ?_, ?_, ?_⟩ <;> simp [State.add, hc]
    · intro g hg; exact Or.inr (old g hg)
    · exact bound
    · exact fun a b hp => wbound (a, b) hp
  · refine ⟨?_, ?_, ?_, ?_⟩ <;> simp [State.add, hc]
    · exact cur.2 hc
    · exact old
    · exact bound
    · exact fun a b hp => wbound (a, b) hp

theorem Inv.remove {s : State} (h : Inv s) (t : Nat) : Inv (s.remove t) := by
  obtain ⟨cur, old, bound, wbound⟩ := h
  unfold State.remove
  split
  · exact ⟨cur, old, bound, wbound⟩
  · rename_i rest hr
    have hne := removeFirst_some_ne_nil hr
    have hcl := cur.2 hne
    by_cases he : rest = []
    · subst he
      refine ⟨?_, ?_, ?_, ?_⟩ <;> simp
      · intro hm; have := bound _ hm; omega
      · intro g hg
        by_cases hg' : g = s.gen
        · exact hg' ▸ hcl
        · exact old g (by omega)
      · intro g hg; have := bound g hg; omega
      · intro a b hp; have := wbound (a, b) hp; simp at this; omega
    · have hlen : ¬ rest.length = 0 := by
        cases rest with
        | nil => exact absurd rfl he
        | cons a l => simp
      refine ⟨?_, ?_, ?_, ?_⟩ <;> simp [hlen]
      · exact ⟨fun _ => he, fun _ => hcl⟩
      · exact old
      · exact bound
      · exact fun a b hp => wbound (a, b) hp

theorem Inv.wait {s : State} (h : Inv s) (w : Nat) : Inv (s.wait w) := by
  obtain ⟨cur, old, bound, wbound⟩ := h
  refine ⟨cur, old, bound, ?_⟩
  intro p hp
  simp [State.wait] at hp
  rcases hp with hp | hp
  · exact wbound p hp
  · subst hp; simp [State.wait]

theorem Inv.step {s : State} (h : Inv s) (op : Op) : Inv (step s op) := by
  cases op with
  | add t => exact h.add t
  | remove t => exact h.remove t
  | wait w => exact h.wait w

theorem inv_runFrom {s : State} (h : Inv s) (ops : List Op) : Inv (runFrom s ops) := by
  induction ops generalizing s with
  | nil => exact h
  | cons op ops ih => exact ih (h.step op)

theorem inv_run (ops : List Op) : Inv (run ops) := inv_runFrom Inv.init ops

theorem runFrom_append (s : State) (ops₁ ops₂ : List Op) :
    runFrom s (ops₁ ++ ops₂) = runFrom (runFrom s ops₁) ops₂ := by
  simp [runFrom, List.foldl_append]

theorem run_snoc (ops : List Op) (op : Op) : run (ops ++ [op]) = step (run ops) op := by
  simp [run, runFrom, List.foldl_append]

/-! ## 1. the latch invariant -/

/-- in every reachable state the current `avail` is closed iff the list is
    non-empty, and every older `avail` is closed -/
theorem latch_inv (ops : List Op) :
    ((run ops).gen ∈ (run ops).closedGens ↔ (run ops).chans ≠ []) ∧
    (∀ g, g < (run ops).gen → g ∈ (run ops).closedGens) :=
  ⟨(inv_run ops).cur, (inv_run ops).old⟩

/-- the `close(c.avail)` of `add` (executed iff the list was empty) always closes
    an OPEN channel: Go's "close of closed channel" panic is unreachable -/
theorem add_closes_open_channel (ops : List Op) (h : (run ops).chans = []) :
    (run ops).gen ∉ (run ops).closedGens := by
  intro hm; exact (inv_run ops).cur.1 hm h

/-! ## 2. parked waiters sit on the current channel -/

theorem Inv.parked_on_current {s : State} (h : Inv s) {p : Nat × Nat}
    (hp : p ∈ s.waiters) (hb : s.blocked p.2) : p.2 = s.gen ∧ s.chans = [] := by
  have hle := h.wbound p hp
  have heq : p.2 = s.gen := by
    by_cases hlt : p.2 < s.gen
    · exact absurd (h.old _ hlt) hb
    · omega
  refine ⟨heq, ?_⟩
  by_cases hc : s.chans = []
  · exact hc
  · exact absurd (heq ▸ h.cur.2 hc) hb

/-- every parked waiter captured the CURRENT generation, and if any waiter is
    parked the registry is empty -/
theorem parked_on_current (ops : List Op) (w g : Nat)
    (hw : (w, g) ∈ (run ops).waiters) (hb : g ∉ (run ops).closedGens) :
    g = (run ops).gen ∧ (run ops).chans = [] :=
  (inv_run ops).parked_on_current hw hb

theorem parked_registry_empty (ops : List Op) (w : Nat) (h : (run ops).parked w) :
    (run ops).chans = [] := by
  obtain ⟨p, hp, _, hb⟩ := h
  exact ((inv_run ops).parked_on_current hp hb).2

/-! ## 3. no lost wake-up -/

theorem Inv.no_lost_wakeup {s : State} (h : Inv s) (hr : s.ready) : s.noneParked :=
  fun _ hp hb => hr (h.parked_on_current hp hb).2

/-- `WaitForReady` reflects whether the set is non-empty: while a tunnel is
    registered, no goroutine is parked in `waitForReady` -/
theorem no_lost_wakeup (ops : List Op) (hr : (run ops).ready) : ∀ w, ¬ (run ops).parked w := by
  intro w ⟨p, hp, _, hb⟩
  exact (inv_run ops).no_lost_wakeup hr p hp hb

theorem no_lost_wakeup' (ops : List Op) (hr : (run ops).ready) : (run ops).noneParked :=
  (inv_run ops).no_lost_wakeup hr

theorem add_ready (s : State) (t : Nat) : (s.add t).ready := by
  simp [State.ready, State.add]

/-- equivalently: after ANY `add` (whatever came before) no waiter is parked -/
theorem after_add_none_parked (ops : List Op) (t : Nat) :
    ∀ w, ¬ (run (ops ++ [Op.add t])).parked w :=
  no_lost_wakeup _ (by rw [run_snoc]; exact add_ready _ t)

/-- the converse, for a waiter that holds the current channel: it is parked iff
    the registry is empty -/
theorem parked_iff_not_ready_of_waiting (ops : List Op) (w : Nat)
    (hw : (w, (run ops).gen) ∈ (run ops).waiters) :
    (run ops).parked w ↔ ¬ (run ops).ready := by
  constructor
  · intro hp hr; exact no_lost_wakeup ops hr w hp
  · intro hr
    refine ⟨_, hw, rfl, ?_⟩
    intro hm; exact hr ((inv_run ops).cur.1 hm)

/-- a goroutine entering `waitForReady` returns at once iff the registry is
    non-empty -/
theorem wait_returns_iff (ops : List Op) : (run ops).waitPasses ↔ (run ops).ready := by
  have h := (inv_run ops).cur
  simp only [State.waitPasses, State.blocked, State.ready, Decidable.not_not]
  exact h

/-- the same through the state after the `wait` step: the new waiter `w` is parked
    iff the registry is empty (also when the id `w` was used before) -/
theorem wait_parks_iff (ops : List Op) (w : Nat) :
    (run (ops ++ [Op.wait w])).parked w ↔ ¬ (run ops).ready := by
  have hw : (w, (run (ops ++ [Op.wait w])).gen) ∈ (run (ops ++ [Op.wait w])).waiters := by
    rw [run_snoc]; simp [step, State.wait]
  rw [parked_iff_not_ready_of_waiting _ w hw, run_snoc]
  simp [step, State.wait, State.ready]

/-! ## 4. the seeded fault loses a wake-up -/

/-- waiter 7 parks on the empty registry (generation 0); a redundant
    `remove 1` replaces `avail` (generation 1); `add 1` closes generation 1.
    The registry is ready and waiter 7 still sleeps on generation 0, which
    nobody will ever close. -/
def lostRun : List Op := [.wait 7, .remove 1, .add 1]

theorem buggy_loses_wakeup : (runBuggy lostRun).ready ∧ (runBuggy lostRun).parked 7 := by decide

/-- the final state, spelled out -/
theorem buggy_final_state :
    runBuggy lostRun = { chans := [1], gen := 1, closedGens := [1], waiters := [(7, 0)] } := by
  decide

/-- `no_lost_wakeup` is FALSE for the faulty variant -/
theorem buggy_no_lost_wakeup_false :
    ¬ ∀ ops, (runBuggy ops).ready → ∀ w, ¬ (runBuggy ops).parked w :=
  fun h => h lostRun buggy_loses_wakeup.1 7 buggy_loses_wakeup.2

/-- generation 0 is never closed afterwards: the waiter is lost for good -/
theorem buggy_never_closes_old (s : State) (g : Nat) (hg : g < s.gen) (hb : s.blocked g)
    (ops : List Op) : (runBuggyFrom s ops).blocked g ∧ g < (runBuggyFrom s ops).gen := by
  induction ops generalizing s with
  | nil => exact ⟨hb, hg⟩
  | cons op ops ih =>
    refine ih (stepBuggy s op) ?_ ?_
    · cases op <;> simp [stepBuggy, State.add, State.removeBuggy, State.wait]
      · exact hg
      · split <;> omega
      · exact hg
    · cases op <;> simp [stepBuggy, State.add, State.removeBuggy, State.wait, State.blocked] at hb ⊢
      · split
        · simp; exact ⟨by omega, hb⟩
        · exact hb
      · exact hb
      · exact hb

theorem buggy_lost_forever (ops : List Op) : (runBuggy (lostRun ++ ops)).parked 7 := by
  have h := buggy_never_closes_old (runBuggy lostRun) 0 (by decide) (by decide) ops
  have hw : ∀ (s : State) (ops : List Op), (7, 0) ∈ s.waiters →
      (7, 0) ∈ (runBuggyFrom s ops).waiters := by
    intro s ops
    induction ops generalizing s with
    | nil => exact id
    | cons op ops ih =>
      intro hm
      refine ih (stepBuggy s op) ?_
      cases op <;> simp [stepBuggy, State.add, State.removeBuggy, State.wait, hm]
  have : runBuggy (lostRun ++ ops) = runBuggyFrom (runBuggy lostRun) ops := by
    simp [runBuggy, runBuggyFrom, List.foldl_append]
  rw [this]
  exact ⟨(7, 0), hw _ ops (by decide), rfl, h.1⟩

/-- the same run with the real `remove` is fine -/
theorem buggy_run_ok_with_real_remove : (run lostRun).ready ∧ ¬ (run lostRun).parked 7 := by decide

/-- the fault is invisible to the Boolean latch: "current channel closed iff
    non-empty" still holds at the end of the faulty run -/
theorem buggy_latch_still_ok :
    ((runBuggy lostRun).gen ∈ (runBuggy lostRun).closedGens ↔ (runBuggy lostRun).chans ≠ []) := by
  decide

/-! ## 5. refinement to `TunnelModel.RoundRobin.Pool` -/

open TunnelModel.RoundRobin in
/-- forget channel identity and waiters; keys (not modelled here) are 0 -/
def abs (s : State) : Pool :=
  { chans := s.chans.map (fun t => (t, 0)), idx := 0, latchClosed := decide (s.gen ∈ s.closedGens) }

open TunnelModel.RoundRobin in
def poolStep (p : Pool) : Op → Pool
  | .add t => p.add t 0
  | .remove t => (p.remove t).1
  | .wait _ => p

open TunnelModel.RoundRobin in
theorem removeFirst_abs (t : Nat) (l : List Nat) :
    TunnelModel.RoundRobin.removeFirst t (l.map (fun t => (t, 0))) =
      (TunnelModel.Waiters.removeFirst t l).map (fun r => (0, r.map (fun t => (t, 0)))) := by
  induction l with
  | nil => simp [TunnelModel.RoundRobin.removeFirst, TunnelModel.Waiters.removeFirst]
  | cons a l ih =>
    simp only [List.map_cons, TunnelModel.RoundRobin.removeFirst, TunnelModel.Waiters.removeFirst]
    by_cases h : a = t
    · simp [h]
    · simp only [h, if_false, ih]
      cases TunnelModel.Waiters.removeFirst t l <;> simp

open TunnelModel.RoundRobin in
/-- one step of this model is one step of `Pool` on the abstraction (needs the
    invariant: a fresh channel is open) -/
theorem abs_step {s : State} (h : Inv s) (op : Op) : abs (step s op) = poolStep (abs s) op := by
  cases op with
  | add t =>
    simp only [step, poolStep, abs, State.add, Pool.add, List.map_append, List.map_cons,
      List.map_nil, List.length_append, List.length_map, List.length_cons, List.length_nil]
    by_cases hc : s.chans = []
    · simp [hc]
    · simp [hc]
  | remove t =>
    cases hr : TunnelModel.Waiters.removeFirst t s.chans with
    | none => simp [step, poolStep, abs, State.remove, Pool.remove, removeFirst_abs, hr]
    | some rest =>
      have hcl := h.cur.2 (removeFirst_some_ne_nil hr)
      by_cases he : rest = []
      · have : s.gen + 1 ∉ s.closedGens := fun hm => by have := h.bound _ hm; omega
        simp [step, poolStep, abs, State.remove, Pool.remove, removeFirst_abs, hr, he, this]
      · simp [step, poolStep, abs, State.remove, Pool.remove, removeFirst_abs, hr, he]
  | wait w => rfl

open TunnelModel.RoundRobin in
theorem abs_runFrom {s : State} (h : Inv s) (ops : List Op) :
    abs (runFrom s ops) = ops.foldl poolStep (abs s) := by
  induction ops generalizing s with
  | nil => rfl
  | cons op ops ih =>
    simp only [runFrom, List.foldl_cons] at ih ⊢
    rw [ih (h.step op), abs_step h]

open TunnelModel.RoundRobin in
/-- along any run the two models agree on the list and on the latch -/
theorem abs_run (ops : List Op) : abs (run ops) = ops.foldl poolStep Pool.empty :=
  abs_runFrom Inv.init ops

open TunnelModel.RoundRobin in
theorem abs_all (ops : List Op) :
    (ops.foldl poolStep Pool.empty).chans.map (·.1) = (run ops).chans ∧
    (ops.foldl poolStep Pool.empty).latchClosed = decide ((run ops).gen ∈ (run ops).closedGens) := by
  rw [← abs_run]; simp [abs, Function.comp_def]

/-! ## axioms and non-vacuity -/

#print axioms latch_inv
#print axioms parked_on_current
#print axioms no_lost_wakeup
#print axioms after_add_none_parked
#print axioms wait_returns_iff
#print axioms wait_parks_iff
#print axioms buggy_loses_wakeup
#print axioms buggy_no_lost_wakeup_false
#print axioms buggy_lost_forever
#print axioms abs_run

/-- a waiter released by an add: waiters 1 and 2 park on generation 0 (after two
    redundant removes on the empty list), `add 5` releases both -/
example :
    (run [.remove 9, .wait 1, .remove 9, .remove 9, .wait 2]).parked 1 ∧
    (run [.remove 9, .wait 1, .remove 9, .remove 9, .wait 2]).parked 2 ∧
    (run [.remove 9, .wait 1, .remove 9, .remove 9, .wait 2, .add 5]).ready ∧
    (run [.remove 9, .wait 1, .remove 9, .remove 9, .wait 2, .add 5]).noneParked := by decide

/-- redundant removes in between, several generations: fill, drain (with double
    and foreign removes), a waiter parks on generation 1, more redundant removes,
    a second waiter, then an add releases both; later a third waiter parks on
    generation 2 while the first two stay released -/
example :
    let ops₁ : List Op := [.add 1, .add 2, .wait 10, .remove 1, .remove 1, .remove 3, .remove 2,
                           .remove 2, .wait 11, .remove 1, .remove 2, .wait 12]
    let ops₂ := ops₁ ++ [.add 4]
    let ops₃ := ops₂ ++ [.remove 4, .remove 4, .wait 13]
    (run ops₁).gen = 1 ∧ ¬ (run ops₁).parked 10 ∧ (run ops₁).parked 11 ∧ (run ops₁).parked 12 ∧
    (run ops₂).ready ∧ (run ops₂).noneParked ∧
    (run ops₃).gen = 2 ∧ (run ops₃).parked 13 ∧ ¬ (run ops₃).parked 11 ∧ ¬ (run ops₃).parked 12 ∧
    (run ops₃).waiters = [(10, 0), (11, 1), (12, 1), (13, 2)] := by decide

end Proofs.Waiters
