import Proofs.Lemmas.Framing
import Proofs.Lemmas.Delivery
import Proofs.Lemmas.Emission
import Proofs.Facts
/-!
  C01 — messages arrive exactly once, in order, intact, on the right RPC.

  Part 1 (this section): the framing laws — whatever windows the sender
  observes, the frames it emits for a message reassemble to exactly that
  message; payload type arbitrary (byte-for-byte identity).
  Part 2 (`C01_*_prefix`, below once imported): per-stream emission and
  delivery theorems and their composition over a FIFO carrier.
-/
namespace Proofs.C01
open TunnelModel.Framing Proofs.Framing

variable {α : Type}

/-- **Flow-controlled sender.** From the start of a message `m`, for every
    window value and every amount of fuel: if the burst completes the send, the
    frames reassemble to exactly `[m]`; otherwise they deliver nothing yet and
    leave sender and reader linked (so that the next burst, under any later
    window, continues the same message). -/
theorem C01_pump_reassembles (cm : Nat) (hcm : 0 < cm) (m : List α) (fuel win : Nat) :
    match pumpFuel cm fuel win (Snd.start m) with
    | (fs, _, none) => parse none fs = ([m], .ok none)
    | (fs, _, some s') => ∃ st', parse none fs = ([], .ok st') ∧ Linked m s' st' :=
  pumpFuel_parse cm hcm m fuel win (Snd.start m) none (linked_start m)

/-- the same from any point of a message in progress -/
theorem C01_pump_continues (cm : Nat) (hcm : 0 < cm) (m : List α) (fuel win : Nat) (s : Snd α) (st : RState α)
    (hl : Linked m s st) :
    match pumpFuel cm fuel win s with
    | (fs, _, none) => parse st fs = ([m], .ok none)
    | (fs, _, some s') => ∃ st', parse st fs = ([], .ok st') ∧ Linked m s' st' :=
  pumpFuel_parse cm hcm m fuel win s st hl

/-- **Revision-zero sender.** All frames of one message reassemble to it. -/
theorem C01_sendAll_reassembles (cm : Nat) (hcm : 0 < cm) (m : List α) :
    parse none (sendAll cm m) = ([m], .ok none) :=
  sendAllFuel_parse cm hcm m (m.length + 1) (Snd.start m) none (linked_start m) (by simp [Snd.start])

/-- with the chunk size of the code -/
theorem C01_sendAll_reassembles_code (m : List α) :
    parse none (sendAll TunnelModel.Generated.chunkMax m) = ([m], .ok none) :=
  C01_sendAll_reassembles _ Proofs.Facts.chunkMax_pos m

/-- reassembly is compositional: reading `fs ++ gs` is reading `fs` and then
    `gs` from where that left off (no frame is looked at twice or skipped) -/
theorem C01_parse_append (st : RState α) (fs gs : List (DFrame α)) :
    parse st (fs ++ gs) =
      match parse st fs with
      | (ms, .ok st') => let (ms', r) := parse st' gs; (ms ++ ms', r)
      | (ms, .error e) => (ms, .error e) :=
  parse_append st fs gs

/-- **Any sequence of messages.** The frames of `ms`, one message after the
    other, reassemble to exactly `ms`: same number, same order, same
    boundaries, same bytes (an empty message included). -/
theorem C01_sendAll_many (cm : Nat) (hcm : 0 < cm) (ms : List (List α)) :
    parse none (ms.flatMap (sendAll cm)) = (ms, .ok none) := by
  induction ms with
  | nil => simp [parse]
  | cons m ms ih =>
    rw [List.flatMap_cons, parse_append, C01_sendAll_reassembles cm hcm m]
    simp [ih]

/-- no frame of the revision-zero sender carries more than `cm` payload bytes -/
theorem C01_sendAllFuel_chunk_le (cm : Nat) (fuel : Nat) (s : Snd α) :
    ∀ f ∈ sendAllFuel cm fuel s, f.size ≤ cm := by
  induction fuel generalizing s with
  | zero => simp [sendAllFuel]
  | succ n ih =>
    intro f hf
    have hsz : (emitChunk (min cm s.rem.length) s).1.size ≤ cm := by
      unfold emitChunk
      split <;> split <;> simp [DFrame.size, List.length_take] <;> omega
    unfold sendAllFuel at hf
    split at hf
    next f0 heq =>
      have : f0 = (emitChunk (min cm s.rem.length) s).1 := by rw [heq]
      simp at hf; subst hf; rw [this]; exact hsz
    next f0 s' heq =>
      have : f0 = (emitChunk (min cm s.rem.length) s).1 := by rw [heq]
      rcases List.mem_cons.mp hf with h | h
      · subst h; rw [this]; exact hsz
      · exact ih s' f h

/-- bytes the reader holds for the message in progress -/
def stLen : RState α → Nat
  | none => 0
  | some (_, b) => b.length

/-- **The reader fabricates no bytes**, whatever it is fed (well-formed or not,
    any frame kinds in any order): the messages it hands out never add up to
    more bytes than the frames carried (plus what it already held). -/
theorem C01_reader_no_fabricated_bytes (fs : List (DFrame α)) : ∀ (st : RState α),
    (((parse st fs).1.map List.length).sum) ≤ stLen st + (fs.map DFrame.size).sum := by
  induction fs with
  | nil => intro st; simp [parse]
  | cons f fs ih =>
    intro st
    unfold parse
    cases st with
    | none =>
      cases f with
      | env size d =>
        by_cases h1 : d.length > size
        · simp [parseStep, h1]
        · by_cases h2 : d.length = size
          · have := ih none; simp [parseStep, h2, stLen, DFrame.size] at this ⊢; omega
          · have := ih (some (size, d)); simp [parseStep, h1, h2, stLen, DFrame.size] at this ⊢; omega
      | more d => simp [parseStep]
      | other => simp [parseStep]
    | some p =>
      obtain ⟨n, b⟩ := p
      cases f with
      | env size d => simp [parseStep]
      | more d =>
        by_cases h1 : n < b.length + d.length
        · simp [parseStep, h1]
        · by_cases h2 : b.length + d.length = n
          · have := ih none; simp [parseStep, h2, stLen, DFrame.size] at this ⊢; omega
          · have := ih (some (n, b ++ d)); simp [parseStep, h1, h2, stLen, DFrame.size] at this ⊢; omega
      | other => simp [parseStep]

/-- from a fresh stream: delivered bytes ≤ bytes received in data frames -/
theorem C01_reader_delivers_at_most_received (fs : List (DFrame α)) :
    (((parse none fs).1.map List.length).sum) ≤ (fs.map DFrame.size).sum := by
  simpa [stLen] using C01_reader_no_fabricated_bytes fs none

/-- **A framing error is final**: once the reader has failed on a prefix,
    nothing that follows is delivered (no resynchronisation on later frames) -/
theorem C01_reader_error_final (st : RState α) (fs gs : List (DFrame α)) (e : PErr)
    (h : (parse st fs).2 = .error e) : parse st (fs ++ gs) = parse st fs := by
  rw [parse_append]
  rcases hp : parse st fs with ⟨ms, r⟩
  rw [hp] at h
  simp only at h
  subst h
  rfl

/-- **Every delivered message has exactly the length its envelope declared**
    — for ANY frame list, malformed ones included: the reader never hands out
    a short or over-long message (or the length pending from the message in
    progress when reading started). -/
theorem C01_reader_msg_matches_envelope (fs : List (DFrame α)) : ∀ (st : RState α) (m : List α),
    m ∈ (parse st fs).1 →
    (∃ size d, DFrame.env size d ∈ fs ∧ m.length = size) ∨ (∃ n b, st = some (n, b) ∧ m.length = n) := by
  induction fs with
  | nil => intro st m h; simp [parse] at h
  | cons f fs ih =>
    intro st m h
    unfold parse at h
    cases st with
    | none =>
      cases f with
      | env size d =>
        by_cases h1 : d.length > size
        · simp [parseStep, h1] at h
        · by_cases h2 : d.length = size
          · simp only [parseStep, h2, if_true] at h
            simp at h
            rcases h with h | h
            · left; exact ⟨size, d, by simp, by rw [h]; exact h2⟩
            · rcases ih none m h with ⟨s, d', hm, hl⟩ | ⟨n, b, hst, _⟩
              · left; exact ⟨s, d', by simp [hm], hl⟩
              · cases hst
          · simp only [parseStep, h1, h2, if_false] at h
            rcases ih (some (size, d)) m h with ⟨s, d', hm, hl⟩ | ⟨n, b, hst, hl⟩
            · left; exact ⟨s, d', by simp [hm], hl⟩
            · left; cases hst; exact ⟨size, d, by simp, hl⟩
      | more d => simp [parseStep] at h
      | other => simp [parseStep] at h
    | some p =>
      obtain ⟨n, b⟩ := p
      cases f with
      | env size d => simp [parseStep] at h
      | more d =>
        by_cases h1 : (b ++ d).length > n
        · simp only [parseStep, h1, if_true] at h; simp at h
        · by_cases h2 : (b ++ d).length = n
          · simp only [parseStep, h2, if_true] at h
            simp at h
            rcases h with h | h
            · right; exact ⟨n, b, rfl, by rw [h]; exact h2⟩
            · rcases ih none m h with ⟨s, d', hm, hl⟩ | ⟨n', b', hst, _⟩
              · left; exact ⟨s, d', by simp [hm], hl⟩
              · cases hst
          · simp only [parseStep, h1, h2, if_false] at h
            rcases ih (some (n, b ++ d)) m h with ⟨s, d', hm, hl⟩ | ⟨n', b', hst, hl⟩
            · left; exact ⟨s, d', by simp [hm], hl⟩
            · right; cases hst; exact ⟨n, b, rfl, hl⟩
      | other => simp [parseStep] at h

/-- from a fresh stream: each delivered message is announced by an envelope
    frame of exactly its length -/
theorem C01_reader_msg_has_envelope (fs : List (DFrame α)) (m : List α) (h : m ∈ (parse none fs).1) :
    ∃ size d, DFrame.env size d ∈ fs ∧ m.length = size := by
  rcases C01_reader_msg_matches_envelope fs none m h with h | ⟨n, b, hst, _⟩
  · exact h
  · cases hst

-- non-vacuity: a 5-byte message under windows 2 then 3 (chunkMax 2)
example : (pump 2 2 (Snd.start [1,2,3,4,5])).1 = [.env 5 [1,2]] := by decide
example : (parse none [DFrame.env 5 [1,2], .more [3,4], .more [5]]).1 = [[1,2,3,4,5]] := by decide
-- an error is reachable: continuation without an envelope
example : (parse (α := Nat) none [.more [1], .env 1 [2]]) = ([], .error .noEnvelope) := rfl
-- three messages, the middle one empty, chunkMax 2: five frames, three messages back
example : [[1,2,3],[],[4]].flatMap (sendAll 2) =
    [DFrame.env 3 [1,2], .more [3], .env 0 [], .env 1 [4]] := by decide

end Proofs.C01

/-! ## Part 2 — end to end over a FIFO carrier

  Each endpoint's stream object is an open system: what it delivers to its
  application is a function of the events it sees (frames fed to it, its
  application's calls, context ends), and what it puts on the wire is a function
  of ITS events.  A FIFO, reliable-until-it-ends carrier means exactly this:
  the frames fed to the receiving stream are a PREFIX (in order, nothing
  inserted) of the frames the sending stream emitted.  Under that one
  hypothesis — and the grpc-go stream contract for the applications (one sender
  and one receiver goroutine per RPC side, no send after a failed send) — the
  messages delivered are a prefix of the messages submitted, byte for byte, for
  EVERY pair of event histories, i.e. for every interleaving, every message
  size, every window schedule, every cancellation / deadline / tear-down point,
  and whatever else the peers or other RPCs do.
-/

namespace Proofs.C01
open TunnelModel.LFrame TunnelModel.Framing Proofs.Delivery Proofs.Emission

variable {α : Type}

/-- all frames fed to a server stream, in order -/
def fedFramesS (evs : List (SEv α)) : List (C2S α) :=
  evs.filterMap (fun e => match e with | .frame f => some f | _ => none)

/-- all frames a client stream emitted, in order -/
def emittedFramesC (outs : List (COut α)) : List (C2S α) := outs.flatMap (fun o => o.frames.map (·.2))

def fedFramesC (evs : List (CEv α)) : List (S2C α) :=
  evs.filterMap (fun e => match e with | .frame f => some f | _ => none)

def emittedFramesS (outs : List (Out α)) : List (S2C α) := outs.flatMap (fun o => o.frames.map (·.2))

theorem fedData_eq_S (evs : List (SEv α)) : SEv.fedData evs = (fedFramesS evs).filterMap dataOfC2S := by
  induction evs with
  | nil => rfl
  | cons e es ih =>
    cases e with
    | frame f =>
      simp only [SEv.fedData, fedFramesS, List.filterMap_cons] at ih ⊢
      cases hd : dataOfC2S f <;> simp [hd, ih]
    | call c => simpa [SEv.fedData, fedFramesS] using ih
    | ctx c => simpa [SEv.fedData, fedFramesS] using ih

theorem fedData_eq_C (evs : List (CEv α)) : CEv.fedData evs = (fedFramesC evs).filterMap dataOfS2C := by
  induction evs with
  | nil => rfl
  | cons e es ih =>
    cases e with
    | frame f =>
      simp only [CEv.fedData, fedFramesC, List.filterMap_cons] at ih ⊢
      cases hd : dataOfS2C f <;> simp [hd, ih]
    | call c => simpa [CEv.fedData, fedFramesC] using ih
    | ctx c => simpa [CEv.fedData, fedFramesC] using ih

theorem emittedData_eq_C (outs : List (COut α)) :
    COut.emittedData outs = (emittedFramesC outs).filterMap dataOfC2S := by
  induction outs with
  | nil => rfl
  | cons o os ih =>
    simp only [COut.emittedData, emittedFramesC, List.flatMap_cons, List.filterMap_append] at ih ⊢
    rw [ih]; simp [List.filterMap_map, Function.comp_def]

theorem emittedData_eq_S (outs : List (Out α)) :
    Out.emittedData outs = (emittedFramesS outs).filterMap dataOfS2C := by
  induction outs with
  | nil => rfl
  | cons o os ih =>
    simp only [Out.emittedData, emittedFramesS, List.flatMap_cons, List.filterMap_append] at ih ⊢
    rw [ih]; simp [List.filterMap_map, Function.comp_def]

theorem prefix_filterMap {β γ} (f : β → Option γ) {l₁ l₂ : List β} (h : l₁ <+: l₂) :
    l₁.filterMap f <+: l₂.filterMap f := by
  obtain ⟨t, rfl⟩ := h
  rw [List.filterMap_append]
  exact List.prefix_append _ _

/-- **C01, request direction (caller → handler).** -/
theorem C01_request_prefix (ccfg : CCfg) (scfg : SCfg) (hcm : 0 < ccfg.chunkMax) (sid : Sid)
    (c0 : CStream α) (s0 : SStream α)
    (hc0 : c0.psend = none) (hs0 : Fresh s0) (hfc : s0.fc = true)
    (cevs : List (CEv α)) (sevs : List (SEv α))
    (hsend : CStream.legalSends ccfg sid c0 false cevs = true)      -- one sender, no send after a failed send
    (hrecv : legalRecvsS scfg sid s0 sevs = true)                   -- one receiver
    (hfifo : fedFramesS sevs <+: emittedFramesC (CStream.runEv ccfg sid c0 cevs).2) :   -- FIFO carrier
    Out.deliveredMsgs (SStream.runEv scfg sid s0 sevs).2 <+: CEv.submitted cevs := by
  have hdel := server_delivers_parsed_prefix scfg sid s0 hs0 hfc sevs hrecv
  obtain ⟨ms, st, hparse, hms⟩ := client_emits_chunkings ccfg hcm sid c0 hc0 cevs hsend
  have hdata : SEv.fedData sevs <+: COut.emittedData (CStream.runEv ccfg sid c0 cevs).2 := by
    rw [fedData_eq_S, emittedData_eq_C]; exact prefix_filterMap _ hfifo
  obtain ⟨rest, hrest⟩ := hdata
  have hmono := parse_msgs_prefix (none : RState α) (SEv.fedData sevs) rest
  rw [hrest, hparse] at hmono
  exact List.IsPrefix.trans hdel (List.IsPrefix.trans hmono hms)

/-- **C01, response direction (handler → caller).**  `hreply`: a unary handler
    replies once and returns (no send after its reply). -/
theorem C01_response_prefix (ccfg : CCfg) (scfg : SCfg) (hcm : 0 < scfg.chunkMax) (sid : Sid)
    (c0 : CStream α) (s0 : SStream α)
    (hs0 : s0.psend = none) (hs0f : s0.finishAfterSend = false) (hc0 : CFresh c0) (hfc : c0.fc = true)
    (cevs : List (CEv α)) (sevs : List (SEv α))
    (hsend : SStream.legalSends scfg sid s0 false sevs = true) (hreply : sReplyIsLast sevs = true)
    (hrecv : legalRecvsC ccfg sid c0 cevs = true)
    (hfifo : fedFramesC cevs <+: emittedFramesS (SStream.runEv scfg sid s0 sevs).2) :
    COut.deliveredMsgs (CStream.runEv ccfg sid c0 cevs).2 <+: SEv.submitted sevs := by
  have hdel := client_delivers_parsed_prefix ccfg sid c0 hc0 hfc cevs hrecv
  obtain ⟨ms, st, hparse, hms⟩ := server_emits_chunkings_partial scfg hcm sid s0 hs0 hs0f sevs hsend hreply
  have hdata : CEv.fedData cevs <+: Out.emittedData (SStream.runEv scfg sid s0 sevs).2 := by
    rw [fedData_eq_C, emittedData_eq_S]; exact prefix_filterMap _ hfifo
  obtain ⟨rest, hrest⟩ := hdata
  have hmono := parse_msgs_prefix (none : RState α) (CEv.fedData cevs) rest
  rw [hrest, hparse] at hmono
  exact List.IsPrefix.trans hdel (List.IsPrefix.trans hmono hms)

/-- **No fabrication, duplication or reordering**: every message the handler
    obtains is one of the submitted messages, and it obtains no more than were
    submitted (corollary of the prefix theorem). -/
theorem C01_request_no_fabrication (ccfg : CCfg) (scfg : SCfg) (hcm : 0 < ccfg.chunkMax) (sid : Sid)
    (c0 : CStream α) (s0 : SStream α) (hc0 : c0.psend = none) (hs0 : Fresh s0) (hfc : s0.fc = true)
    (cevs : List (CEv α)) (sevs : List (SEv α))
    (hsend : CStream.legalSends ccfg sid c0 false cevs = true) (hrecv : legalRecvsS scfg sid s0 sevs = true)
    (hfifo : fedFramesS sevs <+: emittedFramesC (CStream.runEv ccfg sid c0 cevs).2) :
    (∀ m ∈ Out.deliveredMsgs (SStream.runEv scfg sid s0 sevs).2, m ∈ CEv.submitted cevs) ∧
    (Out.deliveredMsgs (SStream.runEv scfg sid s0 sevs).2).length ≤ (CEv.submitted cevs).length := by
  have h := C01_request_prefix ccfg scfg hcm sid c0 s0 hc0 hs0 hfc cevs sevs hsend hrecv hfifo
  exact ⟨fun m hm => h.subset hm, h.length_le⟩

end Proofs.C01
