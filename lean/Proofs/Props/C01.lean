import Proofs.Lemmas.Framing
import Proofs.Facts
/-!
  C01 — messages arrive exactly once, in order, intact, on the right RPC.

  Part 1 (this section): the framing laws — whatever windows the sender
  observes, the frames it emits for a message reassemble to exactly that
  message; payload type arbitrary (byte-for-byte identity).
  Part 2 (`C01_*_prefix`, below once imported): per-stream emission and
  delivery theorems and their composition over a FIFO carrier.
-/
namespace Proofs.C01
open TunnelModel.Framing Proofs.Framing

variable {α : Type}

/-- **Flow-controlled sender.** From the start of a message `m`, for every
    window value and every amount of fuel: if the burst completes the send, the
    frames reassemble to exactly `[m]`; otherwise they deliver nothing yet and
    leave sender and reader linked (so that the next burst, under any later
    window, continues the same message). -/
theorem C01_pump_reassembles (cm : Nat) (hcm : 0 < cm) (m : List α) (fuel win : Nat) :
    match pumpFuel cm fuel win (Snd.start m) with
    | (fs, _, none) => parse none fs = ([m], .ok none)
    | (fs, _, some s') => ∃ st', parse none fs = ([], .ok st') ∧ Linked m s' st' :=
  pumpFuel_parse cm hcm m fuel win (Snd.start m) none (linked_start m)

/-- the same from any point of a message in progress -/
theorem C01_pump_continues (cm : Nat) (hcm : 0 < cm) (m : List α) (fuel win : Nat) (s : Snd α) (st : RState α)
    (hl : Linked m s st) :
    match pumpFuel cm fuel win s with
    | (fs, _, none) => parse st fs = ([m], .ok none)
    | (fs, _, some s') => ∃ st', parse st fs = ([], .ok st') ∧ Linked m s' st' :=
  pumpFuel_parse cm hcm m fuel win s st hl

/-- **Revision-zero sender.** All frames of one message reassemble to it. -/
theorem C01_sendAll_reassembles (cm : Nat) (hcm : 0 < cm) (m : List α) :
    parse none (sendAll cm m) = ([m], .ok none) :=
  sendAllFuel_parse cm hcm m (m.length + 1) (Snd.start m) none (linked_start m) (by simp [Snd.start])

/-- with the chunk size of the code -/
theorem C01_sendAll_reassembles_code (m : List α) :
    parse none (sendAll TunnelModel.Generated.chunkMax m) = ([m], .ok none) :=
  C01_sendAll_reassembles _ Proofs.Facts.chunkMax_pos m

/-- reassembly is compositional: reading `fs ++ gs` is reading `fs` and then
    `gs` from where that left off (no frame is looked at twice or skipped) -/
theorem C01_parse_append (st : RState α) (fs gs : List (DFrame α)) :
    parse st (fs ++ gs) =
      match parse st fs with
      | (ms, .ok st') => let (ms', r) := parse st' gs; (ms ++ ms', r)
      | (ms, .error e) => (ms, .error e) :=
  parse_append st fs gs

-- non-vacuity: a 5-byte message under windows 2 then 3 (chunkMax 2)
example : (pump 2 2 (Snd.start [1,2,3,4,5])).1 = [.env 5 [1,2]] := by decide
example : (parse none [DFrame.env 5 [1,2], .more [3,4], .more [5]]).1 = [[1,2,3,4,5]] := by decide

end Proofs.C01
