import Proofs.Lemmas.Complete
/-!
  C01, completeness half: "... and is COMPLETE whenever the receiver is told the
  stream ended OK".  (`Proofs/Props/C01.lean` holds the prefix / no-fabrication
  half; this file is separate only because the lemmas below build on it.)

  The two endpoint models are composed through a FIFO carrier that has
  delivered everything (`fed frames = emitted frames`).  "Told OK" is the
  receiver's own observation — a `RecvMsg` that returned end-of-stream — and
  the theorems DERIVE from it that the peer ended the stream normally; nothing
  about the peer's return is assumed.  Hypotheses are the gRPC caller / handler
  contract (one send at a time and none after a failed one, one receive at a
  time, no call after the handler returned, no `SendMsg` after `CloseSend`) and
  "no send failed"; each is shown necessary by a `decide`-checked
  counter-example in `Proofs/Lemmas/Complete.lean`.
-/
namespace Proofs.C01
open TunnelModel.LFrame TunnelModel.Framing Proofs.Delivery Proofs.Emission Proofs.Complete

variable {α : Type}

/-- **C01, responses are complete when the caller is told OK.**  If some
    `RecvMsg` of the caller returned end-of-stream, the caller has received
    exactly the messages the handler submitted: all of them, in order, once. -/
theorem C01_response_complete (ccfg : CCfg) (scfg : SCfg) (hcm : 0 < scfg.chunkMax) (sid : Sid)
    (c0 : CStream α) (s0 : SStream α) (hs0 : SFreshR s0) (hc0 : CFresh c0)
    (cevs : List (CEv α)) (sevs : List (SEv α))
    (hsend : SStream.legalSends scfg sid s0 false sevs = true)
    (hnc : sNoCallAfterRet sevs = true)
    (hnf : Emission.sAnyFailed (SStream.runEv scfg sid s0 sevs).2 = false)
    (hrecv : legalRecvsC ccfg sid c0 cevs = true)
    (hfu : c0.fc = true ∨ (CStream.runEv ccfg sid c0 cevs).1.unsupported = false)
    (hfifo : fedFramesC cevs = emittedFramesS (SStream.runEv scfg sid s0 sevs).2)
    (heof : sawRecvEof (CStream.runEv ccfg sid c0 cevs).2 = true) :
    COut.deliveredMsgs (CStream.runEv ccfg sid c0 cevs).2 = SEv.submitted sevs :=
  Proofs.Complete.C01_response_complete ccfg scfg hcm sid c0 s0 hs0 hc0 cevs sevs hsend hnc hnf hrecv hfu hfifo heof

/-- **C01, requests are complete when the handler is told end-of-requests.** -/
theorem C01_request_complete (ccfg : CCfg) (scfg : SCfg) (hcm : 0 < ccfg.chunkMax) (sid : Sid)
    (c0 : CStream α) (s0 : SStream α)
    (hc0 : c0.psend = none) (hc0h : c0.halfClosed = false) (hs0 : Fresh s0)
    (cevs : List (CEv α)) (sevs : List (SEv α))
    (hsend : CStream.legalSends ccfg sid c0 false cevs = true)
    (hcs : Conformance.legalCloseSend ccfg sid c0 false cevs = true)
    (hnf : Emission.cAnyFailed (CStream.runEv ccfg sid c0 cevs).2 = false)
    (hrecv : legalRecvsS scfg sid s0 sevs = true)
    (hfu : s0.fc = true ∨ (SStream.runEv scfg sid s0 sevs).1.unsupported = false)
    (hfifo : fedFramesS sevs = emittedFramesC (CStream.runEv ccfg sid c0 cevs).2)
    (heof : sawRecvEofS (SStream.runEv scfg sid s0 sevs).2 = true) :
    Out.deliveredMsgs (SStream.runEv scfg sid s0 sevs).2 = CEv.submitted cevs :=
  Proofs.Complete.C01_request_complete ccfg scfg hcm sid c0 s0 hc0 hc0h hs0 cevs sevs hsend hcs hnf hrecv hfu hfifo heof

/-- **The caller IS told OK** when the handler ended the stream OK and the
    caller did not end the RPC itself (`_partial`: two more hypotheses tie the
    independently modelled ends together — the sender respects the caller's
    window, and both ends agree on whether the response is streamed; each is
    shown necessary in `Complete.lean`). -/
theorem C01_response_ok_partial (ccfg : CCfg) (scfg : SCfg) (hcm : 0 < scfg.chunkMax) (sid : Sid)
    (c0 : CStream α) (s0 : SStream α)
    (hs0 : s0.psend = none) (hs0f : s0.finishAfterSend = false) (hc0 : CFresh c0)
    (cevs : List (CEv α)) (sevs : List (SEv α))
    (hsend : SStream.legalSends scfg sid s0 false sevs = true) (hreply : Emission.sReplyIsLast sevs = true)
    (hok : ∃ f ∈ emittedFramesS (SStream.runEv scfg sid s0 sevs).2, isCloseOK f = true)
    (hrecv : legalRecvsC ccfg sid c0 cevs = true)
    (hfu : c0.fc = true ∨ (CStream.runEv ccfg sid c0 cevs).1.unsupported = false)
    (hfifo : fedFramesC cevs = emittedFramesS (SStream.runEv scfg sid s0 sevs).2)
    (hnocancel : cNoCancel cevs = true) (hwin : noWinExceed ccfg sid c0 cevs = true)
    (hss : c0.ss = false → (SEv.submitted sevs).length ≤ 1) :
    (CStream.runEv ccfg sid c0 cevs).1.done = some .eof :=
  Proofs.Complete.C01_response_ok_partial ccfg scfg hcm sid c0 s0 hs0 hs0f hc0 cevs sevs hsend hreply hok hrecv hfu hfifo
    hnocancel hwin hss

end Proofs.C01
