import Proofs.Lemmas.Teardown
import TunnelModel.Metadata
import Proofs.Lemmas.Publish
/-!
  C02 — status and metadata are exactly what the application produced or gRPC specifies.

  * the status a handler returns is the status the caller's terminal result
    carries (OK ↦ end of stream; a non-status error ↦ Unknown with its text) ... `C02_status_roundtrip`
  * what the handler's return puts on the wire: the headers if they had not gone
    out, then ONE close frame with that status and the accumulated trailers ...... `C02_return_frames`
  * trailers set before the return are exactly those on the close frame ......... `C02_trailers_accumulate`
  * and exactly those `Trailer()` returns; the terminal result and the trailers
    are published together .................................................... `C02_status_trailers_exact`
  * headers: what `SendHeader` emits is what `Header()` returns; setting or
    sending headers after they went out is refused and changes nothing .......... `C02_headers_exact`, `C02_headers_after_sent_refused`
  * the first headers frame wins, later ones are ignored ........................ `C02_first_headers_win`
  * metadata crosses the wire unchanged whenever it can be encoded, and cannot
    be encoded iff some key or value is not valid UTF-8 (open finding D8:
    then the frame's `Send` fails and the tunnel ends) .......................... `C02_metadata_exact`, `C02_metadata_unencodable_iff`

  The codes gRPC specifies for library-generated outcomes (Canceled,
  DeadlineExceeded, Unimplemented, ResourceExhausted, Unavailable, Internal,
  InvalidArgument) are fixed by the endpoint models and compared with the real
  endpoints' results by every world family; the theorems naming them are in
  C03 / C07 / C09 / C10 / C16.
-/
namespace Proofs.C02
open TunnelModel.LFrame TunnelModel Proofs.Teardown Proofs.ClientShape

variable {α : Type}

/-- **Status round trip.** -/
theorem C02_status_roundtrip (st : Status) (t : String) :
    mapFinishErr (statusErr (SErr.wireStatus (if st.code = 0 then none else some (.status st)))) =
      (if st.code = 0 then .eof else .status st) ∧
    mapFinishErr (statusErr (SErr.wireStatus (some (.plain t)))) = .status (mkStatus codeUnknown t) :=
  ⟨status_roundtrip st, plain_error_roundtrip t⟩

/-- **What a handler's return puts on the wire.** -/
theorem C02_return_frames (cfg : SCfg) (sid : Sid) (s : SStream α) (st : Status) :
    (s.closed = false →
      (s.onCall cfg sid (.ret st)).2.frames =
        (if s.sentHeaders then [] else [(sid, .headers s.headers)]) ++
        [(sid, .close (SErr.wireStatus (if st.code = 0 then none else some (.status st))) s.trailers)]) ∧
    (s.closed = true → (s.onCall cfg sid (.ret st)).2.frames = []) :=
  ⟨ret_frames cfg sid s st, ret_frames_of_closed cfg sid s st⟩

/-- **Trailers accumulate** (`SetTrailer` joins) and are exactly those of the close frame. -/
theorem C02_trailers_accumulate (cfg : SCfg) (sid : Sid) (s : SStream α) (mds : List MD) (st : Status)
    (hcl : s.closed = false) :
    let s' := mds.foldl (fun x md => (x.onCall cfg sid (.setTrailer md)).1) s
    (s'.onCall cfg sid (.ret st)).2.frames =
      (if s.sentHeaders then [] else [(sid, .headers s.headers)]) ++
      [(sid, .close (SErr.wireStatus (if st.code = 0 then none else some (.status st)))
              (mds.foldl MD.join s.trailers))] :=
  ret_after_setTrailers cfg sid s mds st hcl

/-- **Status and trailers, end to end.**  The close frame the server emits for
    a handler returning `st`, fed to the caller's stream, sets the terminal
    result to exactly `st` (OK ↦ end of stream), records exactly the handler's
    trailers, publishes both together (`doneSignal`), and `Trailer()` returns them. -/
theorem C02_status_trailers_exact (scfg : SCfg) (ccfg : CCfg) (sid : Sid) (s : SStream α) (c : CStream α)
    (st : Status) (hcl : s.closed = false) (hd : c.done = none) :
    let w := SErr.wireStatus (if st.code = 0 then none else some (.status st))
    (s.onCall scfg sid (.ret st)).2.frames =
      (if s.sentHeaders then [] else [(sid, .headers s.headers)]) ++ [(sid, .close w s.trailers)] ∧
    (let r := c.onFrame ccfg sid (.close w s.trailers)
     r.1.done = some (if st.code = 0 then .eof else .status st) ∧ r.1.trailers = s.trailers ∧
     r.1.doneSignal = true ∧
     r.1.onCall ccfg sid .trailer = (r.1, { dones := [(sid, "trailer", .md s.trailers)] })) :=
  Proofs.Teardown.C02_status_trailers_exact scfg ccfg sid s c st hcl hd

/-- **Headers, end to end.** -/
theorem C02_headers_exact (scfg : SCfg) (ccfg : CCfg) (sid : Sid) (s : SStream α) (c : CStream α) (md : MD)
    (hs : s.sentHeaders = false) (hg : c.gotHeaders = false) :
    (s.onCall scfg sid (.sendHeader md)).2.frames = [(sid, .headers (MD.join s.headers md))] ∧
    (let c1 := (c.onFrame ccfg sid (.headers (MD.join s.headers md))).1
     c1.onCall ccfg sid .header = (c1, { dones := [(sid, "header", .md (MD.join s.headers md))] })) :=
  Proofs.Teardown.C02_headers_exact scfg ccfg sid s c md hs hg

/-! ### metadata on the wire -/

open TunnelModel.Metadata in
/-- **Metadata that can be encoded arrives unchanged** (keys, values, order, multiplicity). -/
theorem C02_metadata_exact (md : BMD) (h : marshalable md = true) : transfer md = some md := by
  simp [transfer, h, toProto, fromProto]

open TunnelModel.Metadata in
/-- **Metadata cannot be encoded iff some key or value is not valid UTF-8**
    (the protocol types them as proto3 `string`; gRPC allows arbitrary bytes in
    `-bin` values — open finding D8). -/
theorem C02_metadata_unencodable_iff (md : BMD) :
    transfer md = none ↔ ∃ kv ∈ md, validUTF8 kv.1 = false ∨ ∃ v ∈ kv.2, validUTF8 v = false := by
  unfold transfer
  by_cases h : marshalable md = true
  · simp only [h, if_true, reduceCtorEq, false_iff]
    rintro ⟨kv, hkv, hbad⟩
    unfold marshalable at h
    have := List.all_eq_true.mp h kv hkv
    simp only [Bool.and_eq_true, List.all_eq_true] at this
    rcases hbad with hb | ⟨v, hv, hb⟩
    · rw [this.1] at hb; cases hb
    · rw [this.2 v hv] at hb; cases hb
  · simp only [h]
    refine ⟨fun _ => ?_, fun _ => rfl⟩
    unfold marshalable at h
    rw [List.all_eq_true] at h
    apply Classical.byContradiction
    intro hne
    apply h
    intro kv hkv
    simp only [Bool.and_eq_true, List.all_eq_true]
    refine ⟨?_, fun v hv => ?_⟩
    · cases hk : validUTF8 kv.1 with
      | true => rfl
      | false => exact absurd ⟨kv, hkv, Or.inl hk⟩ hne
    · cases hk : validUTF8 v with
      | true => rfl
      | false => exact absurd ⟨kv, hkv, Or.inr ⟨v, hv, hk⟩⟩ hne

/-! ### result publication on a client stream, under every interleaving
     (L-atomic model `TunnelModel/Publish.lean`: any number of racing `finishStream` calls, a reader in
     `RecvMsg`, an observer calling `Trailer()`; one action per atomic operation / critical section) -/

open TunnelModel.Publish Proofs.Publish in
/-- **Whoever has seen the end of the RPC sees its trailers**: in every reachable
    state in which the reader has obtained the terminal result, `Trailer()` and
    every `grpc.Trailer` target hold exactly the trailers of THE finisher that
    won the race — now, and whenever the reader reads them in any continuation:
    never nil because "not done yet", never another finisher's. -/
theorem C02_reader_sees_trailers {err : Nat → TunnelModel.Publish.Err} {tr : Nat → TunnelModel.Publish.MD} (n k p : Nat) (as : List Act) {s : St}
    (hr : run true err tr (init n k p) as = some s) {r : Option TunnelModel.Publish.Err} (hg : s.rpc = .got r) :
    ∃ w, Winner s w ∧ (∀ w', Winner s w' → w' = w) ∧
      (s.rTrailer = none →
        ∃ s', step true err tr s .readTrailer = some s' ∧ s'.rTrailer = some (some (tr w))) ∧
      (∀ t, t < k → s.rTarget = none →
        ∃ s', step true err tr s (.readTarget t) = some s' ∧ s'.rTarget = some (tr w)) ∧
      ∀ (as' : List Act) (s' : St), run true err tr s as' = some s' →
        Winner s' w ∧ (∀ w', Winner s' w' → w' = w) ∧ s'.rpc = .got r ∧
        (∀ v, s'.rTrailer = some v → v = some (tr w)) ∧ (∀ v, s'.rTarget = some v → v = tr w) :=
  reader_sees_trailers n k p as hr hg

open TunnelModel.Publish Proofs.Publish in
/-- **The RPC completes exactly once**: the terminal result the reader gets, the
    stored trailers and every target all belong to the same, unique winner. -/
theorem C02_terminal_result_and_trailers_of_one_completion {err : Nat → TunnelModel.Publish.Err} {tr : Nat → TunnelModel.Publish.MD}
    (n k p : Nat) (as : List Act) {s : St}
    (hr : run true err tr (init n k p) as = some s) {r : Option TunnelModel.Publish.Err} (hg : s.rpc = .got r) :
    ∃ w, Winner s w ∧ (∀ w', Winner s w' → w' = w) ∧ r = some (err w) ∧ s.done = some (err w) ∧
      s.trailers = tr w ∧ s.trailerCall = some (tr w) ∧
      ∀ (t : Nat) (v : TunnelModel.Publish.MD), s.targets[t]? = some v → v = tr w :=
  terminal_result_is_the_winners n k p as hr hg

open TunnelModel.Publish Proofs.Publish in
/-- `Trailer()` is nil until `doneSignal` is closed and the winner's trailers ever after -/
theorem C02_trailer_nil_before_end {err : Nat → TunnelModel.Publish.Err} {tr : Nat → TunnelModel.Publish.MD} (n k p : Nat) (as : List Act) {s : St}
    (hr : run true err tr (init n k p) as = some s) :
    (s.doneSig = false → s.trailerCall = none ∧ ∀ v ∈ s.peeks, v = none) ∧
    (s.doneSig = true → ∃ w, Winner s w ∧ (∀ w', Winner s w' → w' = w) ∧ s.trailerCall = some (tr w) ∧
      ∀ (as' : List Act) (s' : St), run true err tr s as' = some s' →
        Winner s' w ∧ s'.trailerCall = some (tr w)) :=
  trailer_nil_before_end n k p as hr

open TunnelModel.Publish Proofs.Publish in
/-- **Why the receiver is closed last** (defect D4, fixed in 48575b5): with the
    old order — reader released before the trailers are stored — the reader gets
    `io.EOF` and then reads nil trailers although the RPC ended with `[("k","v")]`. -/
theorem C02_old_order_reader_misses_trailers :
    (run false exErr exTr (init 1 1 0) d4).map appView = some ⟨.got (some 0), some none, some none⟩ :=
  faulty_old_order_reader_misses_trailers

end Proofs.C02
