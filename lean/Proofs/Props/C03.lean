import Proofs.Lemmas.ServerLocal
import Proofs.Props.C15
import Proofs.Lemmas.ServerBound
import Proofs.Props.C09
import Proofs.Lemmas.ClientInv
import Proofs.Lemmas.Closed
/-!
  C03 — RPCs sharing a tunnel are independent; no head-of-line blocking
  (server endpoint).  Locality: a stimulus addressed to RPC `sid` changes only
  that RPC's stream object and emits only frames / completions tagged `sid`;
  handler calls and ticks can never end the tunnel; with flow control the
  receive loop never blocks on a consumer.
-/
namespace Proofs.C03
open TunnelModel.LFrame Proofs.ServerLocal

variable {α : Type}

/-- **Emission locality (frames).** A frame for a live stream makes the server
    emit frames and complete calls only for that stream. -/
theorem C03_frame_emits_only_own (cfg : SCfg) (s : Srv α) (sid : Sid) (f : C2S α) (st : SStream α)
    (hret : s.returned = none) (hnew : ∀ m md rev win, f ≠ .newStream m md rev win)
    (hst : s.getStream sid = some st) : Out.onlySid sid (s.onFrame cfg sid f).2 :=
  frame_local cfg s sid f st hret hnew hst

/-- **State locality (frames).** … and leaves every other stream object, the
    id high-water mark, the shutdown flag and the tunnel itself untouched. -/
theorem C03_frame_touches_only_own (cfg : SCfg) (s : Srv α) (sid : Sid) (f : C2S α) (st : SStream α)
    (hret : s.returned = none) (hnew : ∀ m md rev win, f ≠ .newStream m md rev win)
    (hst : s.getStream sid = some st) :
    (s.onFrame cfg sid f).1.returned = none ∧ (s.onFrame cfg sid f).1.lastSeen = s.lastSeen ∧
    (s.onFrame cfg sid f).1.closing = s.closing ∧
    (∀ e ∈ s.streams, e.1 ≠ sid → e ∈ (s.onFrame cfg sid f).1.streams) :=
  Proofs.C09.C09_stream_frame_local cfg s sid f st hret hnew hst

/-- **Handler calls are local and can never end the tunnel**: whatever a
    handler does (errors, second sends, late calls after the RPC finished). -/
theorem C03_call_local (cfg : SCfg) (s : Srv α) (sid : Sid) (c : HCall α) :
    Out.onlySid sid (s.onCall cfg sid c).2 ∧
    (s.onCall cfg sid c).1.returned = s.returned ∧ (s.onCall cfg sid c).1.lastSeen = s.lastSeen ∧
    (s.onCall cfg sid c).1.closing = s.closing ∧
    ∀ e ∈ s.streams, e.1 ≠ sid → e ∈ (s.onCall cfg sid c).1.streams :=
  ⟨call_local cfg s sid c, call_state_local cfg s sid c⟩

/-- **A refused or accepted `new_stream` only speaks for its own id** (the
    rejection reply — unknown or malformed method, shutdown, unsupported
    revision — is a close frame for that id; nothing else is disturbed). -/
theorem C03_new_stream_local (cfg : SCfg) (s : Srv α) (sid : Sid) (m : List Nat) (md : MD) (rev : Int) (win : Nat)
    (hret : s.returned = none) (hok : (s.onFrame cfg sid (.newStream m md rev win)).1.returned = none) :
    Out.onlySid sid (s.onFrame cfg sid (.newStream m md rev win)).2 :=
  newStream_local cfg s sid m md rev win hret hok

/-- **Deadline expiry never ends the tunnel** and only speaks for streams of
    this endpoint. -/
theorem C03_tick_local (s : Srv α) (d : Nat) :
    (s.tick d).1.returned = s.returned ∧
    (∀ f ∈ (s.tick d).2.frames, f.1 ∈ s.streams.map (·.1)) ∧
    (∀ x ∈ (s.tick d).2.dones, x.1 ∈ s.streams.map (·.1)) :=
  ⟨tick_never_ends_tunnel s d, tick_emits_known s d⟩

/-- **No head-of-line blocking with flow control (server receive loop).** For
    every stimulus history, processing a frame for a flow-controlled stream
    never leaves the loop waiting for that stream's consumer. -/
theorem C03_no_hol_server (cfg : SCfg) (xs : List (SStim α)) :
    ∀ e ∈ (Srv.run cfg ({} : Srv α) xs).1.streams, e.2.fc = true → e.2.unsupported = false :=
  Proofs.ServerBound.fc_never_unsupported cfg xs

/-! ### client endpoint -/

/-- **Client: a frame for a live RPC touches and speaks for that RPC only**, and
    never ends the channel. -/
theorem C03_client_frame_local (cfg : CCfg) (c : Cli α) (sid : Sid) (f : S2C α) (st : CStream α)
    (hfin : c.finished = none) (hph : c.phase = .running) (hst : c.getStream sid = some st) :
    Proofs.ClientInv.COut.onlySid sid (c.onFrame cfg sid f).2 ∧ (c.onFrame cfg sid f).1.finished = none ∧
    (c.onFrame cfg sid f).1.lastStreamID = c.lastStreamID ∧
    ∀ e ∈ c.streams, e.1 ≠ sid → e ∈ (c.onFrame cfg sid f).1.streams :=
  Proofs.ClientInv.client_frame_local cfg c sid f st hfin hph hst

/-- **Client: an RPC's own calls — cancellation included — never end the
    channel or touch another RPC.** -/
theorem C03_client_call_local (cfg : CCfg) (c : Cli α) (sid : Sid) (call : CCall α) :
    Proofs.ClientInv.COut.onlySid sid (c.onCall cfg sid call).2 ∧ (c.onCall cfg sid call).1.finished = c.finished ∧
    (c.onCall cfg sid call).1.lastStreamID = c.lastStreamID ∧
    ∀ e ∈ c.streams, e.1 ≠ sid → e ∈ (c.onCall cfg sid call).1.streams :=
  Proofs.ClientInv.client_call_local cfg c sid call

/-- **No head-of-line blocking with flow control (client receive loop).** -/
theorem C03_no_hol_client (cfg : CCfg) (xs : List (CStim α)) :
    ∀ e ∈ (Cli.run cfg (Cli.start cfg) xs).1.streams, e.2.fc = true → e.2.unsupported = false :=
  Proofs.ClientInv.client_fc_never_unsupported cfg xs

/-- **Code-level premise of "the receive loop never waits on one RPC"**
    (regenerated from the sources on every run): no potentially blocking call
    (carrier `Send`, window-update / send callback, user callback) is made
    while holding a mutex the receive loop acquires when it dispatches a frame. -/
theorem C03_no_blocking_call_under_loop_lock :
    (Proofs.C15.blockingAllowed.filter Proofs.C15.loopLocks.contains) = [] ∧
    (TunnelModel.Generated.accessTable.filter (fun a => a.how == "call" &&
        (match Proofs.C15.protOf a with | some (.callUnder _) => true | _ => false) &&
        a.held.any Proofs.C15.loopLocks.contains)) = [] :=
  Proofs.C15.C15_blocking_calls_hold_no_loop_lock

/-- **Bounded transport buffering cannot stall a receive loop** (code-level
    premise, regenerated from the sources on every run): no function that can
    run on a receive-loop goroutine performs a carrier `Send` or invokes a
    callback that does — close, cancel and rejection frames are sent from
    goroutines of their own, window updates by the reading application — so the
    loops always return to `Recv` and keep draining the carrier however full
    the opposite direction is. -/
theorem C03_receive_loops_never_send :
    Proofs.C15.loopSendViolations TunnelModel.Generated.accessTable = [] ∧
    Proofs.C15.loopRootIds.length = Proofs.C15.loopRoots.length :=
  Proofs.C15.C15_receive_loops_never_send

/-! ### bounded carriers: the closed model of a whole tunnel (`TunnelModel/Closed.lean`) -/

open TunnelModel.Closed Proofs.Closed in
/-- **A stalled RPC does not hold up the others, even over carriers of one
    frame.**  Any number of half-streams in both directions share two carriers
    of capacity `K ≥ 1`; any subset of the applications never reads.  In every
    maximal execution — whatever the schedule — every half-stream whose
    application reads has delivered every byte submitted on it and has its full
    window back. -/
theorem C03_stalled_streams_do_not_block_others {K W cm : Nat} (hK : 0 < K) (hW : 0 < W) {cfg : Cfg}
    {as : List Act} {s : St} (hr : run K cm (init W cfg) as = some s) (hmax : Stuck K cm s)
    {i : Nat} {d : Dir} {msgs : List Nat} (hc : cfg[i]? = some (d, true, msgs)) :
    ∃ h, s.halves[i]? = some h ∧ h.delivered = msgs.sum ∧ h.queue = [] ∧ h.win = W := by
  obtain ⟨h, hi, _, _, _, hw, _⟩ := completes hK hW hr hmax hc
  obtain ⟨e1, _, _, _, e5, e6⟩ := hw rfl
  exact ⟨h, hi, e1, e5, e6⟩

open TunnelModel.Closed Proofs.Closed in
/-- ... and while it still has something to do, the system can move. -/
theorem C03_no_deadlock_bounded {K W cm : Nat} (hK : 0 < K) (hW : 0 < W) {cfg : Cfg} {s : St}
    (hr : Reachable K W cm cfg s) {i : Nat} {h : Half} (hi : s.halves[i]? = some h)
    (hw : h.willing = true) (hu : Unfinished s i h) : ∃ a, (step K cm s a).isSome = true :=
  no_deadlock hK hW hr hi hw hu

end Proofs.C03
