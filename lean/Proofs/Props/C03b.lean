import Proofs.Lemmas.ProjectionS
import Proofs.Lemmas.ProjectionC
/-!
  C03, projection (lifting) theorems: **every RPC on a tunnel evolves exactly
  as if it were alone.**  The state of an RPC's stream object in any reachable
  endpoint state — with any number of other RPCs interleaved, conforming or
  hostile — is the result of running, on the fresh stream object its creation
  installed, the stream-level events the run addressed to THAT RPC (its frames
  while it is in the table, its handler / caller calls, and the end of its
  context where a tick or the end of the tunnel cancels it); and the frames and
  call completions the endpoint emits for it are exactly those of that
  stream-level run.  Nothing another RPC does appears in it.

  This is what makes the stream-level theorems of the other properties (C01
  integrity and completeness, C07, C13 wire conformance, C16 call shapes — all
  stated for `SStream.runEv` / `CStream.runEv` over ALL event lists) theorems
  about tunnels: `C03_lifted_*` below are two worked instances.
-/
namespace Proofs.C03
open TunnelModel.LFrame TunnelModel

variable {α : Type}

/-- **Server projection.** -/
theorem C03_projection_server (cfg : SCfg) (xs : List (SStim α)) (sid : Sid) (st : SStream α)
    (h : (sid, st) ∈ (Srv.run cfg ({} : Srv α) xs).1.streams) :
    ∃ pre m md rev win post st0,
      xs = pre ++ .frame sid (.newStream m md rev win) :: post ∧
      sid ∉ Proofs.Server.ids (Srv.run cfg ({} : Srv α) pre).1 ∧
      (sid, st0) ∈ (Srv.run cfg ({} : Srv α) (pre ++ [.frame sid (.newStream m md rev win)])).1.streams ∧
      (let s1 := (Srv.run cfg ({} : Srv α) (pre ++ [.frame sid (.newStream m md rev win)])).1
       let r := SStream.runEv cfg sid st0 (Proofs.ProjectionS.evsOf cfg sid s1 post)
       st = r.1 ∧
       Proofs.ProjectionS.framesFor sid (Srv.run cfg s1 post).2 = Proofs.ProjectionS.outFrames r.2 ∧
       Proofs.ProjectionS.donesFor sid (Srv.run cfg s1 post).2 = Proofs.ProjectionS.outDones r.2) := by
  obtain ⟨pre, m, md, rev, win, post, st0, e, p1, p2, p3, p4, p5, _⟩ := Proofs.ProjectionS.projection cfg xs sid st h
  exact ⟨pre, m, md, rev, win, post, st0, e, p1, p2, p3, p4, p5⟩

/-- the extracted event list contains exactly the handler calls the run
    addressed to the RPC, in order, exactly the frames addressed to it while it
    was alive, and at most one context end -/
theorem C03_projection_server_events (cfg : SCfg) (sid : Sid) (xs : List (SStim α)) (s : Srv α) :
    (Proofs.ProjectionS.evsOf cfg sid s xs).filterMap Proofs.ProjectionS.callOf =
      xs.filterMap (Proofs.ProjectionS.callTo sid) ∧
    (Proofs.ProjectionS.evsOf cfg sid s xs).filterMap Proofs.ProjectionS.frameOf =
      Proofs.ProjectionS.liveFrames cfg sid s xs :=
  ⟨Proofs.ProjectionS.proj_calls cfg sid xs s, Proofs.ProjectionS.proj_frames cfg sid xs s⟩

/-- **Client projection.** -/
theorem C03_projection_client (cfg : CCfg) (xs : List (CStim α)) (sid : Sid) (st : CStream α)
    (h : (sid, st) ∈ (Cli.run cfg (Cli.start cfg) xs).1.streams) :
    ∃ pre x post st0, xs = pre ++ x :: post ∧
      Proofs.ProjectionC.Creates cfg (Cli.run cfg (Cli.start cfg) pre).1 x sid st0 ∧
      st = (CStream.runEv cfg sid st0
              (Proofs.ProjectionC.evsOf cfg sid ((Cli.run cfg (Cli.start cfg) pre).1.step cfg x).1 post)).1 :=
  Proofs.ProjectionC.proj_state cfg xs sid st h

/-- … with exactly the stream-level outputs while the channel is up (once the
    channel has finished the endpoint emits no frame at all:
    `Proofs.ProjectionC.finished_no_frames`) -/
theorem C03_projection_client_outputs (cfg : CCfg) (pre : List (CStim α)) (x : CStim α) (post : List (CStim α))
    (sid : Sid) (st0 : CStream α) (hc : Proofs.ProjectionC.Creates cfg (Cli.run cfg (Cli.start cfg) pre).1 x sid st0)
    (hlive : (Cli.run cfg (Cli.start cfg) (pre ++ x :: post)).1.finished = none) :
    let c1 := ((Cli.run cfg (Cli.start cfg) pre).1.step cfg x).1
    let outs := (Cli.run cfg (Cli.start cfg) (pre ++ x :: post)).2.drop (pre.length + 1)
    let souts := (CStream.runEv cfg sid st0 (Proofs.ProjectionC.evsOf cfg sid c1 post)).2
    Proofs.ProjectionC.framesFor sid outs = Proofs.ProjectionC.framesFor sid souts ∧
    Proofs.ProjectionC.donesFor sid outs = Proofs.ProjectionC.donesFor sid souts :=
  Proofs.ProjectionC.proj_outputs_live cfg pre x post sid st0 hc hlive

/-- the extracted events are exactly the caller's calls on the RPC and the frames the endpoint routed to it -/
theorem C03_projection_client_events (cfg : CCfg) (sid : Sid) (xs : List (CStim α)) (c : Cli α) :
    (Proofs.ProjectionC.evsOf cfg sid c xs).filterMap Proofs.ProjectionC.callOf = Proofs.ProjectionC.callsTo sid xs ∧
    (Proofs.ProjectionC.evsOf cfg sid c xs).filterMap Proofs.ProjectionC.frameOf = Proofs.ProjectionC.routedTo cfg sid c xs :=
  Proofs.ProjectionC.proj_calls_frames cfg sid xs c

/-! ### the lifting at work -/

open Proofs.Conformance in
/-- stream-level wire conformance (C13) holds for every RPC of every tunnel
    run, whatever the other RPCs do: at most one close frame, and every
    response data frame is preceded by the headers frame -/
theorem C03_lifted_server_conformance (cfg : SCfg) (xs : List (SStim α)) (sid : Sid) (st : SStream α)
    (h : (sid, st) ∈ (Srv.run cfg ({} : Srv α) xs).1.streams) :
    ∃ pre m md rev win post, xs = pre ++ .frame sid (.newStream m md rev win) :: post ∧
      sid ∉ Proofs.Server.ids (Srv.run cfg ({} : Srv α) pre).1 ∧
      (let fs := (Proofs.ProjectionS.framesFor sid ((Srv.run cfg ({} : Srv α) xs).2.drop pre.length)).map (·.2)
       (fs.filter S.isClose).length ≤ 1 ∧
       ∀ a f b, fs = a ++ f :: b → S.isData f = true → ∃ hd ∈ a, S.isHeaders hd = true) :=
  Proofs.ProjectionS.endpoint_conformance cfg xs sid st h

open Proofs.Conformance in
/-- … and on the client: at most one half-close and at most one cancel frame per RPC, in every channel run -/
theorem C03_lifted_client_conformance (cfg : CCfg) (xs : List (CStim α)) (sid : Sid) :
    (((Proofs.ProjectionC.framesFor sid (Cli.run cfg (Cli.start cfg) xs).2).map (·.2)).filter C.isHalfClose).length ≤ 1 ∧
    (((Proofs.ProjectionC.framesFor sid (Cli.run cfg (Cli.start cfg) xs).2).map (·.2)).filter C.isCancel).length ≤ 1 :=
  ⟨Proofs.ProjectionC.C1_endpoint_at_most_one_halfClose cfg xs sid,
   Proofs.ProjectionC.C1_endpoint_at_most_one_cancel cfg xs sid⟩

end Proofs.C03
