import Proofs.Lemmas.Teardown
/-!
  C04 — when a tunnel ends, every RPC on it ends and nothing hangs.

  * client: closing the channel (explicit `Close`, carrier error, carrier EOF,
    cancellation of the channel context) from ANY reachable state gives every
    RPC a terminal result, ends its context, releases every blocked `RecvMsg`,
    `SendMsg` and `Header()`, empties the table — and none of the released
    calls reports success or delivers a message ....... `C04_client_close`
  * it stays that way whatever comes later ............. `C04_client_finished_never_blocks`
  * new RPCs on an ended channel fail at once .......... `C04_client_new_rpc_fails`
  * server: when `serve` returns (protocol error, carrier error, EOF) every
    stream context has ended and no handler call stays blocked, in every
    reachable state and ever after .................... `C04_server_nothing_blocked`, `C04_server_returned_never_blocks`
  * an ended endpoint ignores whatever still arrives ... `C04_ended_ignores_frames`

  Outside the model (runtime): that the goroutines so released are actually
  scheduled and exit — witnessed per run by the harness' goroutine census and
  the lifecycle world (`TestW2Lifecycle`), where the open finding D10 (revision
  zero: `Stop` hangs behind a handler that does not read) lives.
-/
namespace Proofs.C04
open TunnelModel.LFrame TunnelModel Proofs.Teardown

variable {α : Type}

/-- **Client: closing the channel ends every RPC and releases every blocked
    call, none with success.** -/
theorem C04_client_close (cfg : CCfg) (xs : List (CStim α)) (err : Option String) (b : Bool) :
    let c := (Cli.run cfg (Cli.start cfg : Cli α) xs).1
    c.finished = none →
    (c.close err b).1.finished = some err ∧
    (∀ e ∈ (c.close err b).1.streams,
      e.2.done.isSome = true ∧ e.2.ctxDone.isSome = true ∧ e.2.pread = none ∧ e.2.psend = none ∧
      e.2.pheader = false ∧ e.2.inTable = false) ∧
    (c.close err b).1.table = [] ∧
    (∀ d ∈ (c.close err b).2.dones,
      d.2 = ("send", Res.ctx .canceled) ∨ d.2 = ("recv", Res.status codeCanceled) ∨ d.2.1 = "header") ∧
    (∀ d ∈ (c.close err b).2.dones, d.2.1 = "recv" ∨ d.2.1 = "send" → NonOK d.2.2) :=
  C04_client_close_run cfg xs err b

/-- **… and nothing ever blocks on it again**: in every reachable state of an
    ended channel every stream is settled. -/
theorem C04_client_finished_never_blocks (cfg : CCfg) (xs : List (CStim α)) :
    let c := (Cli.run cfg (Cli.start cfg : Cli α) xs).1
    c.finished.isSome = true →
    ∀ e ∈ c.streams,
      e.2.done.isSome = true ∧ e.2.ctxDone.isSome = true ∧ e.2.pread = none ∧ e.2.psend = none ∧
      e.2.pheader = false ∧ e.2.inTable = false :=
  Proofs.Teardown.C04_client_finished_never_blocks cfg xs

/-- the end of a channel is permanent: no stimulus un-finishes it -/
theorem C04_client_end_is_permanent (cfg : CCfg) (xs : List (CStim α)) (c : Cli α)
    (h : c.finished.isSome = true) : (Cli.run cfg c xs).1.finished = c.finished :=
  run_keeps_finished cfg xs c h

/-- **Server: when `serve` returns nothing stays blocked.** -/
theorem C04_server_nothing_blocked (cfg : SCfg) (xs : List (SStim α)) (err : Option String) :
    let s := (Srv.run cfg ({} : Srv α) xs).1
    (s.serveReturns err).1.returned = some err ∧
    ∀ e ∈ (s.serveReturns err).1.streams, e.2.ctxDone.isSome = true ∧ e.2.pread = none ∧ e.2.psend = none :=
  C04_server_nothing_blocked_after_return cfg xs err

/-- **… in every later state too** (handlers may go on calling into their streams). -/
theorem C04_server_returned_never_blocks (cfg : SCfg) (xs : List (SStim α)) :
    let s := (Srv.run cfg ({} : Srv α) xs).1
    s.returned.isSome = true →
    ∀ e ∈ s.streams, e.2.ctxDone.isSome = true ∧ e.2.pread = none ∧ e.2.psend = none :=
  Proofs.Teardown.C04_server_returned_never_blocks cfg xs

/-- the return of `serve` is permanent -/
theorem C04_server_end_is_permanent (cfg : SCfg) (xs : List (SStim α)) (s : Srv α)
    (h : s.returned.isSome = true) : (Srv.run cfg s xs).1.returned = s.returned :=
  run_keeps_returned cfg xs s h

/-- **New RPCs on an ended channel fail at once** (nothing is sent, nothing is created). -/
theorem C04_client_new_rpc_fails (cfg : CCfg) (c : Cli α) (cs ss : Bool) (m : List Nat) (md : MD)
    (t : Option Nat) (cn : Bool) (h : c.finished.isSome = true) :
    c.newStream cfg cs ss m md t cn = (c, { dones := [(0, "new", .other "channel is closed")] }, none) :=
  newStream_after_close cfg c cs ss m md t cn h

/-- **An ended endpoint ignores whatever still arrives.** -/
theorem C04_ended_ignores_frames (ccfg : CCfg) (scfg : SCfg) (c : Cli α) (s : Srv α) (sid : Sid)
    (f : S2C α) (g : C2S α) :
    (c.finished.isSome = true → c.onFrame ccfg sid f = (c, {})) ∧
    (s.returned.isSome = true → s.onFrame scfg sid g = (s, {})) :=
  ⟨finished_ignores_frames ccfg c sid f, returned_ignores_frames scfg s sid g⟩

end Proofs.C04
