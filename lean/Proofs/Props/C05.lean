import Proofs.Lemmas.FlowStep
import Proofs.Props.C15
import Proofs.Facts
/-!
  C05 — flow control never strands a sender (no lost wake-up, leak or
  deadlock).  Property theorems only; all are over *every* schedule of atomic
  actions (`List Act`, arbitrary length), every window `W > 0`, every
  `chunkMax > 0` and every workload of message sizes.
-/
namespace Proofs.C05
open TunnelModel.FlowStep Proofs.FlowStep

/-- `s` is reachable from the initial state by some schedule -/
def Reachable (W cm : Nat) (msgs : List Nat) (s : St) : Prop :=
  ∃ as, run cm (init W msgs) as = some s

theorem reachable_inv {W cm : Nat} (hcm : 0 < cm) {msgs : List Nat} {s : St}
    (h : Reachable W cm msgs s) : Inv W cm s := by
  obtain ⟨as, hr⟩ := h
  exact inv_run hcm as (inv_init W cm msgs) hr

/-- **Conservation of credit.** Window + reserved + data in flight + queued +
    credit owed + credit in flight is always exactly the agreed window. -/
theorem C05_conservation {W cm : Nat} (hcm : 0 < cm) {msgs : List Nat} {s : St}
    (h : Reachable W cm msgs s) :
    s.win + s.spc.reserve + s.dataWire.sum + s.queue.sum + s.rpc.pendingCredit + s.creditWire.sum = W :=
  (reachable_inv hcm h).1

/-- **No lost wake-up (sender).** A sender that is parked (or has just loaded a
    zero window) while the window is positive always has a wake-up token
    waiting or a signal about to be offered. -/
theorem C05_no_lost_wakeup {W cm : Nat} (hcm : 0 < cm) {msgs : List Nat} {s : St}
    (h : Reachable W cm msgs s) (hp : s.spc = .parked ∨ s.spc = .loaded 0) (hw : 0 < s.win) :
    s.token = true ∨ s.upc = .added 0 :=
  (reachable_inv hcm h).2.2.2.1 hp hw

/-- **No lost wake-up (reader).** A reader is in `cond.Wait` only while the
    queue is empty. -/
theorem C05_reader_no_lost_wakeup {W cm : Nat} (hcm : 0 < cm) {msgs : List Nat} {s : St}
    (h : Reachable W cm msgs s) (hw : s.rpc = .waiting) : s.queue = [] :=
  (reachable_inv hcm h).2.2.2.2.1 hw

/-- nothing can move except the application starting a read (or a cancel):
    the quiescent states a scheduler-independent observer sees -/
def Settled (cm : Nat) (s : St) : Prop :=
  ∀ a, a ≠ Act.rStart → a ≠ Act.cancel → enabled cm s a = false

/-- **Blocked only behind a full unread window.** In a settled state a parked
    sender means the receiving application has left exactly `W` bytes unread. -/
theorem C05_blocked_only_if_full {W cm : Nat} (hcm : 0 < cm) {msgs : List Nat} {s : St}
    (h : Reachable W cm msgs s) (hq : Settled cm s) (hp : s.spc = .parked) : s.queue.sum = W := by
  have hinv := reachable_inv hcm h
  obtain ⟨hcons, _, _, hwake, _⟩ := hinv
  have ht : s.token = false := by
    have := hq .sWake (by decide) (by decide)
    simp only [enabled, step, hp] at this
    cases htk : s.token <;> simp_all
  have hu : s.upc = .idle := by
    have := hq .uSignal (by decide) (by decide)
    cases hu : s.upc <;> simp_all [enabled, step]
  have hwin : s.win = 0 := by
    by_cases hpos : 0 < s.win
    · rcases hwake (Or.inl hp) hpos with h1 | h1
      · rw [ht] at h1; cases h1
      · rw [hu] at h1; cases h1
    · omega
  have hd : s.dataWire = [] := by
    have := hq .deliver (by decide) (by decide)
    cases hd : s.dataWire with
    | nil => rfl
    | cons k r => simp only [enabled, step, hd] at this; split at this <;> simp at this
  have hc : s.creditWire = [] := by
    have := hq .uAdd (by decide) (by decide)
    cases hc : s.creditWire <;> simp_all [enabled, step]
  have hr : s.rpc.pendingCredit = 0 := by
    have := hq .rCredit (by decide) (by decide)
    cases hr : s.rpc <;> simp_all [enabled, step]
  rw [hp, hwin, hd, hc, hr] at hcons
  simpa using hcons

/-- **Whole window restored.** In a settled state in which the application has
    read everything, the sender's window is the full `W` again. -/
theorem C05_restored {W cm : Nat} (hcm : 0 < cm) {msgs : List Nat} {s : St}
    (h : Reachable W cm msgs s) (hq : Settled cm s) (he : s.queue = []) : s.win = W := by
  have hinv := reachable_inv hcm h
  obtain ⟨hcons, _, _, _, _, _, _, _, hresv, _⟩ := hinv
  have hres : s.spc.reserve = 0 := by
    cases hs : s.spc with
    | reserved k =>
      obtain ⟨rem, hr, _⟩ := hresv k hs
      have := hq .sEmit (by decide) (by decide)
      simp [enabled, step, hs, hr] at this
    | _ => rfl
  have hd : s.dataWire = [] := by
    have := hq .deliver (by decide) (by decide)
    cases hd : s.dataWire with
    | nil => rfl
    | cons k r => simp only [enabled, step, hd] at this; split at this <;> simp at this
  have hu : s.upc = .idle := by
    have := hq .uSignal (by decide) (by decide)
    cases hu : s.upc <;> simp_all [enabled, step]
  have hc : s.creditWire = [] := by
    have := hq .uAdd (by decide) (by decide)
    cases hc : s.creditWire <;> simp_all [enabled, step]
  have hr : s.rpc.pendingCredit = 0 := by
    have := hq .rCredit (by decide) (by decide)
    cases hr : s.rpc <;> simp_all [enabled, step]
  rw [hres, hd, hc, hr, he] at hcons
  simpa using hcons

/-- **No deadlock.** Unless the stream was cancelled, every reachable state in
    which something is still unsent, undelivered, unread or uncredited has an
    enabled action (the application is assumed willing to read). -/
theorem C05_no_stuck {W cm : Nat} (hW : 0 < W) (hcm : 0 < cm) {msgs : List Nat} {s : St}
    (h : Reachable W cm msgs s) (hc : s.cancelled = false) (hf : s.final = false) :
    ∃ a, a ≠ Act.cancel ∧ enabled cm s a = true :=
  no_stuck hW (reachable_inv hcm h) hc hf

/-- **Every execution is finite**: a schedule from the initial state has at
    most `14·(total bytes + number of messages) + 5` actions, whatever the
    interleaving and the reader's pacing. -/
theorem C05_terminates {W cm : Nat} (hcm : 0 < cm) (msgs : List Nat) (as : List Act) {s : St}
    (hr : run cm (init W msgs) as = some s) : as.length ≤ 14 * (msgs.sum + msgs.length) + 5 := by
  have := run_length_le hcm as (inv_init W cm msgs) hr
  have hm : Proofs.FlowStep.measure (init W msgs) = 14 * (msgs.sum + msgs.length) + 5 := by
    simp [Proofs.FlowStep.measure, init, St.remaining, msgsLeft]
  omega

theorem cancelled_run {cm : Nat} : ∀ (as : List Act) {s s' : St}, run cm s as = some s' →
    Act.cancel ∉ as → s'.cancelled = s.cancelled := by
  intro as
  induction as with
  | nil => intro s s' hr _; simp [run] at hr; subst hr; rfl
  | cons a as ih =>
    intro s s' hr hn
    simp only [run] at hr
    cases hs : step cm s a with
    | none => simp [hs] at hr
    | some s1 =>
      rw [hs] at hr
      have h1 : a ≠ .cancel := fun e => hn (by simp [e])
      have h2 : Act.cancel ∉ as := fun e => hn (by simp [e])
      rw [ih hr h2, cancelled_step hs h1]

theorem sent_remaining_run {W cm : Nat} (hcm : 0 < cm) (T : Nat) : ∀ (as : List Act) {s s' : St},
    Inv W cm s → s.sent + s.remaining = T → run cm s as = some s' → s'.sent + s'.remaining = T := by
  intro as
  induction as with
  | nil => intro s s' _ ht hr; simp [run] at hr; subst hr; exact ht
  | cons a as ih =>
    intro s s' h ht hr
    simp only [run] at hr
    cases hs : step cm s a with
    | none => simp [hs] at hr
    | some s1 =>
      rw [hs] at hr
      exact ih (inv_step hcm a h hs) (sent_remaining T a h ht hs) hr

/-- **Streams of any volume complete.** A schedule without `cancel` that
    cannot be extended (no action other than `cancel` is enabled) ends in the
    final state, and the application has received exactly the bytes that were
    submitted.  With `C05_no_stuck` and `C05_terminates`: every maximal
    execution is finite and ends like this. -/
theorem C05_completes {W cm : Nat} (hW : 0 < W) (hcm : 0 < cm) (msgs : List Nat) (as : List Act) {s : St}
    (hr : run cm (init W msgs) as = some s) (hn : Act.cancel ∉ as)
    (hmax : ∀ a, a ≠ Act.cancel → enabled cm s a = false) :
    s.final = true ∧ s.dequeued = msgs.sum := by
  have hinv := inv_run hcm as (inv_init W cm msgs) hr
  have hc : s.cancelled = false := by rw [cancelled_run as hr hn]; rfl
  have hf : s.final = true := by
    cases hf : s.final with
    | true => rfl
    | false =>
      obtain ⟨a, ha, he⟩ := no_stuck hW hinv hc hf
      rw [hmax a ha] at he; cases he
  refine ⟨hf, ?_⟩
  have ht := sent_remaining_run hcm msgs.sum as (inv_init W cm msgs)
    (by simp [init, St.remaining]) hr
  obtain ⟨_, _, _, _, _, _, _, _, _, _, _, hflow, _⟩ := hinv
  simp only [St.final, Bool.and_eq_true, Option.isNone_iff_eq_none, List.isEmpty_iff] at hf
  obtain ⟨⟨⟨⟨⟨⟨⟨h1, h2⟩, _⟩, h4⟩, h5⟩, _⟩, _⟩, _⟩ := hf
  simp [St.remaining, h1, h2] at ht
  rw [h4, h5] at hflow
  simp at hflow
  omega

/-- instantiated with the constants regenerated from the code -/
theorem C05_completes_code (msgs : List Nat) (as : List Act) {s : St}
    (hr : run TunnelModel.Generated.chunkMax (init TunnelModel.Generated.initialWindowSize msgs) as = some s)
    (hn : Act.cancel ∉ as)
    (hmax : ∀ a, a ≠ Act.cancel → enabled TunnelModel.Generated.chunkMax s a = false) :
    s.final = true ∧ s.dequeued = msgs.sum :=
  C05_completes (by decide) Proofs.Facts.chunkMax_pos msgs as hr hn hmax

-- non-vacuity: a concrete schedule in which the sender parks behind a full
-- window (W = 4, chunkMax = 2, one 6-byte message, reader reads nothing)
example :
    let as := [Act.sLoad, .sCas, .sEmit, .sLoad, .sCas, .sEmit, .sLoad, .sPark, .deliver, .deliver]
    (run 2 (init 4 [6]) as).map (fun s => (s.spc, s.queue, s.win)) = some (SPc.parked, [2, 2], 0) := by
  decide

/-- **Code-level premise of the atomic-action model** (regenerated from the
    sources on every run): no carrier `Send`, window-update callback, send
    callback or user callback is invoked while holding a mutex that a receive
    loop needs — in particular the receiver's window update goes out with the
    receiver's mutex released, so `deliver` (`accept`) is always enabled, as
    the model assumes, even when the carrier is full. -/
theorem C05_no_blocking_call_under_loop_lock :
    (Proofs.C15.blockingAllowed.filter Proofs.C15.loopLocks.contains) = [] ∧
    (TunnelModel.Generated.accessTable.filter (fun a => a.how == "call" &&
        (match Proofs.C15.protOf a with | some (.callUnder _) => true | _ => false) &&
        a.held.any Proofs.C15.loopLocks.contains)) = [] :=
  Proofs.C15.C15_blocking_calls_hold_no_loop_lock

/-- **One model action = one atomic operation of the code** (regenerated from
    the sources on every run).  `updateWindow` touches the window with exactly
    one atomic `Add` — whose result also gives the previous value, action
    `uAdd` — and `send` with a `Load` (action `sLoad`) followed by a
    `CompareAndSwap` (action `sCas`).  A "read, then add" in `updateWindow`
    would make `uAdd` two steps with the sender's CAS in between: a lost
    wake-up the model cannot exhibit. -/
theorem C05_actions_are_single_atomic_ops :
    Proofs.C15.atomicOps TunnelModel.Generated.accessTable "defaultSender.updateWindow" "defaultSender" "currentWindow" = ["Add"] ∧
    Proofs.C15.atomicOps TunnelModel.Generated.accessTable "defaultSender.send" "defaultSender" "currentWindow" = ["Load", "CompareAndSwap"] := by
  decide +kernel

/-- **Bounded transport buffering cannot stall a receive loop** (code-level
    premise, regenerated from the sources on every run): no function that can
    run on a receive-loop goroutine performs a carrier `Send` or invokes a
    callback that does — close, cancel and rejection frames are sent from
    goroutines of their own, window updates by the reading application — so the
    loops always return to `Recv` and keep draining the carrier however full
    the opposite direction is. -/
theorem C05_receive_loops_never_send :
    Proofs.C15.loopSendViolations TunnelModel.Generated.accessTable = [] ∧
    Proofs.C15.loopRootIds.length = Proofs.C15.loopRoots.length :=
  Proofs.C15.C15_receive_loops_never_send

end Proofs.C05
