import Proofs.Lemmas.Closed
import Proofs.Lemmas.Refine
import Proofs.Facts
/-!
  C05, second part — "no combination of stalled streams and bounded transport
  buffering can deadlock a tunnel; streams of unbounded total volume complete
  under any reader pacing".

  Property theorems over the CLOSED frame-granularity model of a whole tunnel
  (`TunnelModel/Closed.lean`): any number of half-streams in both directions
  share two FIFO carriers of capacity `K ≥ 1` frames (a carrier `Send` blocks
  while its direction is full); any subset of the receiving applications is
  stalled forever; any message sizes; every schedule (`List Act`, any length).
  `Props/C05.lean` has the atomic-action model of ONE half-stream (no lost
  wake-up inside `send` / `updateWindow` / `dequeue`) and the code-level
  premises of this model: the receive loops never send and never wait for an
  application (`C05_receive_loops_never_send`,
  `C05_no_blocking_call_under_loop_lock`).
-/
namespace Proofs.C05b
open TunnelModel.Closed Proofs.Closed

/-- **Bounded carriers, bounded receivers, conserved credit**: in every
    reachable state neither carrier holds more than `K` frames, and for every
    half-stream window + data in flight + unread + credit owed + credit in
    flight is exactly `W`; so no receiver ever holds more than one window. -/
theorem C05_closed_invariant {K W cm : Nat} {cfg : Cfg} {s : St} (h : Reachable K W cm cfg s) :
    (s.ab.length ≤ K ∧ s.ba.length ≤ K) ∧
    (∀ (i : Nat) (h : Half), s.halves[i]? = some h →
      h.win + dataFl i (dataWire h.dir s) + h.queue.sum + h.pending + credFl i (credWire h.dir s) = W) ∧
    (∀ (i : Nat) (h : Half), s.halves[i]? = some h → h.queue.sum ≤ W) :=
  ⟨(inv_reachable h).carriers, (inv_reachable h).conservation, fun _ _ hi => receiver_bounded h hi⟩

/-- **A receive loop is never blocked**: in every state it can take the next
    frame off its carrier, however full the opposite direction is and whatever
    the applications do. -/
theorem C05_loop_never_blocked (K cm : Nat) (s : St) :
    (s.ab ≠ [] → (step K cm s .loopB).isSome = true) ∧ (s.ba ≠ [] → (step K cm s .loopA).isSome = true) :=
  loop_never_blocked K cm s

/-- **The only states in which nothing can move**: both carriers empty, no
    window update owed, every reading application has an empty queue, every
    sender with something left has an exhausted window. -/
theorem C05_stuck_iff {K cm : Nat} (hK : 0 < K) (s : St) : Stuck K cm s ↔ Quiet s := stuck_iff hK s

/-- **No deadlock**: while a half-stream whose application reads has anything
    left to do — bytes or an empty message to send, a frame in flight, a chunk
    unread, credit owed — some action of the system is enabled, whatever the
    other half-streams do, however many of them are stalled, however small the
    carriers are. -/
theorem C05_no_deadlock {K W cm : Nat} (hK : 0 < K) (hW : 0 < W) {cfg : Cfg} {s : St}
    (hr : Reachable K W cm cfg s) {i : Nat} {h : Half} (hi : s.halves[i]? = some h)
    (hw : h.willing = true) (hu : Unfinished s i h) : ∃ a, (step K cm s a).isSome = true :=
  no_deadlock hK hW hr hi hw hu

/-- **Every execution is finite** (at most five actions per byte and per message). -/
theorem C05_closed_terminates {K W cm : Nat} (hcm : 0 < cm) (cfg : Cfg) (as : List Act) {s : St}
    (hr : run K cm (init W cfg) as = some s) : as.length ≤ workBound cfg :=
  terminates hcm cfg as hr

/-- **Completion, stream by stream.**  Every maximal schedule leaves every
    half-stream in the same, explicitly known situation: one whose application
    reads has delivered every byte and has its whole window back, WHATEVER the
    others do; one whose application is stalled has its sender parked behind
    exactly `min total W` unread bytes — blocked only behind a full window. -/
theorem C05_closed_completes {K W cm : Nat} (hK : 0 < K) (hW : 0 < W) {cfg : Cfg} {as : List Act} {s : St}
    (hr : run K cm (init W cfg) as = some s) (hmax : Stuck K cm s)
    {i : Nat} {d : Dir} {willing : Bool} {msgs : List Nat} (hc : cfg[i]? = some (d, willing, msgs)) :
    ∃ h, s.halves[i]? = some h ∧ h.dir = d ∧ h.willing = willing ∧ h.pending = 0 ∧
      (willing = true →
        h.delivered = msgs.sum ∧ h.sent = msgs.sum ∧ h.remaining = 0 ∧ h.todo = [] ∧ h.queue = [] ∧
        h.win = W) ∧
      (willing = false →
        h.delivered = 0 ∧ h.sent = h.queue.sum ∧ h.sent ≤ W ∧ h.sent = min msgs.sum W ∧
        h.win + h.queue.sum = W ∧ (0 < h.remaining → h.queue.sum = W) ∧
        (h.todo ≠ [] → h.queue.sum = W ∧ h.win = 0)) :=
  completes hK hW hr hmax hc

/-- **The outcome does not depend on the schedule** and is known in closed
    form; the executable scheduler `runToEnd` (what the model driver runs for
    the bounded-carrier world) computes it. -/
theorem C05_outcome {K W cm : Nat} (hK : 0 < K) (hW : 0 < W) (hcm : 0 < cm) {cfg : Cfg} {as : List Act} {s : St}
    (hr : run K cm (init W cfg) as = some s) (hmax : Stuck K cm s) :
    summary s = expected W cfg ∧ summary s = summary (runToEnd K cm (workBound cfg) (init W cfg)) :=
  ⟨outcome_closed_form hK hW hr hmax, runToEnd_is_the_answer hK hW hcm hr hmax⟩

theorem C05_outcome_schedule_independent {K W cm : Nat} (hK : 0 < K) (hW : 0 < W) {cfg : Cfg}
    {as₁ as₂ : List Act} {s₁ s₂ : St}
    (hr₁ : run K cm (init W cfg) as₁ = some s₁) (hmax₁ : Stuck K cm s₁)
    (hr₂ : run K cm (init W cfg) as₂ = some s₂) (hmax₂ : Stuck K cm s₂) :
    summary s₁ = summary s₂ :=
  outcome_schedule_independent hK hW hr₁ hmax₁ hr₂ hmax₂

/-- with the constants regenerated from the code (64 KiB window, 16 KiB chunks), carriers of ONE frame -/
theorem C05_outcome_code {cfg : Cfg} {as : List Act} {s : St}
    (hr : run 1 TunnelModel.Generated.chunkMax (init TunnelModel.Generated.initialWindowSize cfg) as = some s)
    (hmax : Stuck 1 TunnelModel.Generated.chunkMax s) :
    summary s = expected TunnelModel.Generated.initialWindowSize cfg :=
  outcome_closed_form (by decide) (by decide) hr hmax

/-- **Why "receive loops never send" matters**: in the variant in which a
    receive loop must itself put the window update on the opposite carrier,
    two reading applications deadlock with carriers of one frame. -/
theorem C05_loop_that_sends_deadlocks :
    Faulty.run 1 2 (init 4 FaultyExample.cfg) FaultyExample.sched = some FaultyExample.dead ∧
    (∀ a, Faulty.step 1 2 FaultyExample.dead a = none) ∧
    FaultyExample.dead.halves.map (fun h => (h.willing, h.delivered)) = [(true, 0), (true, 0)] :=
  ⟨FaultyExample.reachable, FaultyExample.deadlock, FaultyExample.unfinished.1⟩

/-! ### the two models are linked: the atomic-action model refines the closed model -/

open TunnelModel in
/-- **Stuttering simulation.**  Every execution of the atomic-action model of
    one half-stream (`FlowStep`: loads, compare-and-swaps, parks, wake-ups,
    signals ...) maps, action by action, onto an execution of the closed
    frame-level model with one reading half-stream: each atomic action is
    either invisible at frame level or IS one frame-level action (`send`
    commits at the successful CAS, `loopB` at `deliver`, `read` at the pop,
    `credit` at `rCredit`, `loopA` at `uAdd`).  So the frame-level actions are
    a sound abstraction of what the code does atom by atom, for every window,
    chunk size, workload and schedule (carriers large enough never to fill). -/
theorem C05_atomic_refines_closed {K W cm : Nat} (hcm : 0 < cm) {msgs : List Nat}
    (hK : 5 * (msgs.sum + msgs.length) < K) {as : List FlowStep.Act} {s : FlowStep.St}
    (hr : FlowStep.run cm (FlowStep.init W msgs) as = some s) :
    Closed.run K cm (Closed.init W [(.up, true, msgs)]) (Proofs.Refine.absTrace cm (FlowStep.init W msgs) as)
      = some (Proofs.Refine.abs s) ∧
    (Proofs.Refine.absTrace cm (FlowStep.init W msgs) as).length ≤ as.length := by
  refine ⟨Proofs.Refine.refines_run_absTrace hcm hK hr, ?_⟩
  exact Proofs.Refine.absTrace_length cm as _

open TunnelModel in
/-- one atomic step from a reachable state: a stutter or exactly one frame-level action -/
theorem C05_atomic_step_refines {K W cm : Nat} (hcm : 0 < cm) {msgs : List Nat}
    (hK : 5 * (msgs.sum + msgs.length) < K) {as : List FlowStep.Act} {s s' : FlowStep.St} {a : FlowStep.Act}
    (hr : FlowStep.run cm (FlowStep.init W msgs) as = some s) (hs : FlowStep.step cm s a = some s') :
    Proofs.Refine.abs s' = Proofs.Refine.abs s ∨ ∃ b, Closed.step K cm (Proofs.Refine.abs s) b = some (Proofs.Refine.abs s') :=
  Proofs.Refine.refines_step_reachable hcm hK hr hs

open TunnelModel in
/-- a completed atomic-level execution is a maximal frame-level execution, and the two models agree on its outcome -/
theorem C05_final_agrees {W cm : Nat} (hW : 0 < W) (hcm : 0 < cm) {msgs : List Nat} {as : List FlowStep.Act} {s : FlowStep.St}
    (hr : FlowStep.run cm (FlowStep.init W msgs) as = some s) (hf : s.final = true) :
    (∀ K, Closed.Stuck K cm (Proofs.Refine.abs s)) ∧
    (Proofs.Refine.abs s).halves.map (·.delivered) = [msgs.sum] ∧ s.dequeued = msgs.sum ∧ s.sent = msgs.sum ∧ s.win = W :=
  ⟨fun _ => Proofs.Refine.final_maps_to_stuck hf, Proofs.Refine.final_outcome hW hcm hr hf⟩

-- non-vacuity: K = 1, W = 4, cm = 2; a stalled half-stream with 10 bytes, a reading one with
-- messages 5, 0, 3 and a reading one in the other direction with 6 bytes
example : summary (runToEnd 1 2 (workBound Example.cfg) (init 4 Example.cfg)) = [(4, 0, 4, 6), (8, 8, 0, 0), (6, 6, 0, 0)] := by
  decide

end Proofs.C05b
