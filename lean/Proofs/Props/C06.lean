import Proofs.Props.C05
/-!
  C06 — flow-control windows are respected by senders and enforced by
  receivers.  Sender-side statements are over every schedule of the L-atomic
  model; receiver-side statements are over every sequence of operations on the
  receiver alone, i.e. against an arbitrary (hostile) sender.
-/
namespace Proofs.C06
open TunnelModel.FlowStep Proofs.FlowStep Proofs.C05

/-- **Sender respects the window.** At every point of every execution the
    bytes handed to the carrier never exceed the advertised window plus the
    credit that has been delivered to the sender. -/
theorem C06_sender {W cm : Nat} (hcm : 0 < cm) {msgs : List Nat} {s : St}
    (h : Reachable W cm msgs s) : s.sent ≤ W + s.credited := by
  obtain ⟨_, _, _, _, _, _, _, _, _, _, hs, _⟩ := reachable_inv hcm h
  omega

/-- **Chunk bound.** Every data frame on the wire or in the queue carries at
    most `chunkMax` bytes. -/
theorem C06_chunk {W cm : Nat} (hcm : 0 < cm) {msgs : List Nat} {s : St}
    (h : Reachable W cm msgs s) : ∀ k ∈ s.dataWire ++ s.queue, k ≤ cm := by
  obtain ⟨_, _, _, _, _, _, hw, hq, _⟩ := reachable_inv hcm h
  intro k hk
  rcases List.mem_append.mp hk with hk | hk
  · exact hw k hk
  · exact hq k hk

/-- with the constants of the code: at most 16384 bytes per frame -/
theorem C06_chunk_code {msgs : List Nat} {s : St}
    (h : Reachable TunnelModel.Generated.initialWindowSize TunnelModel.Generated.chunkMax msgs s) :
    ∀ k ∈ s.dataWire ++ s.queue, k ≤ 16384 := by
  have := C06_chunk Proofs.Facts.chunkMax_pos h
  rw [Proofs.Facts.chunkMax_eq] at this
  exact this

/-- **Credit never exceeds consumption.** The credit a receiver has put on the
    wire is at most what its application actually dequeued; credit applied at
    the sender is at most credit granted. -/
theorem C06_credit {W cm : Nat} (hcm : 0 < cm) {msgs : List Nat} {s : St}
    (h : Reachable W cm msgs s) : s.granted ≤ s.dequeued ∧ s.credited ≤ s.granted := by
  obtain ⟨_, _, _, _, _, _, _, _, _, _, _, _, h1, h2, _⟩ := reachable_inv hcm h
  omega

/-- **A conforming sender never trips the receiver's check**, under any
    interleaving. -/
theorem C06_no_overrun {W cm : Nat} (hcm : 0 < cm) {msgs : List Nat} {s : St}
    (h : Reachable W cm msgs s) : s.overrun = false :=
  (reachable_inv hcm h).2.2.1

/-! ### receiver against an arbitrary sender -/

def RInv (W : Nat) (r : Rcv) : Prop := r.rwin + r.queue.sum ≤ W

theorem rinv_step {W : Nat} (r : Rcv) (a : RAct) (h : RInv W r) : RInv W (r.step a) := by
  unfold RInv at *
  cases a with
  | accept k =>
    simp only [Rcv.step, Rcv.accept]
    split
    · exact h
    · split
      · exact h
      · simp; omega
  | close => exact h
  | cancel => simp [Rcv.step, Rcv.cancel]; omega
  | dequeue =>
    simp only [Rcv.step, Rcv.dequeue]
    split
    · exact h
    · split
      · rename_i k q hq; rw [hq] at h; simp at h ⊢; omega
      · split <;> exact h

/-- **Receiver never buffers more than its window**, for every sequence of
    frames any peer can send interleaved in any way with reads, closes and
    cancels. -/
theorem C06_receiver_bounded (W : Nat) (acts : List RAct) :
    ((acts.foldl Rcv.step (Rcv.init W)).queue.sum) ≤ W := by
  have : ∀ (acts : List RAct) (r : Rcv), RInv W r → RInv W (acts.foldl Rcv.step r) := by
    intro acts
    induction acts with
    | nil => intro r h; exact h
    | cons a as ih => intro r h; exact ih _ (rinv_step r a h)
  have h := this acts (Rcv.init W) (by simp [RInv, Rcv.init])
  unfold RInv at h; omega

/-- **Overrun is refused.** A frame larger than the remaining window is never
    queued: `accept` answers `windowExceeded` (the stream is then failed with
    ResourceExhausted) and the receiver's state is unchanged. -/
theorem C06_overrun_refused (r : Rcv) (k : Nat) (hc : r.closed = false) (hk : k > r.rwin) :
    r.accept k = (r, .windowExceeded) := by
  simp [Rcv.accept, hc, hk]

/-- a frame that fits is queued and charged exactly its size -/
theorem C06_accept_ok (r : Rcv) (k : Nat) (hc : r.closed = false) (hk : k ≤ r.rwin) :
    r.accept k = ({ r with rwin := r.rwin - k, queue := r.queue ++ [k] }, .ok) := by
  have : ¬ k > r.rwin := by omega
  simp [Rcv.accept, hc, this]

-- non-vacuity: window 4, frames 3 then 2: the second is refused
example : ((Rcv.init 4).accept 3).1.accept 2 = (((Rcv.init 4).accept 3).1, .windowExceeded) := by decide

end Proofs.C06
