import Proofs.Lemmas.ClientShape
import Proofs.Lemmas.ClientInv
import Proofs.Props.C09
/-!
  C07 — cancelling or timing out one RPC ends exactly that RPC on both ends.
  Caller side: theorems about every reachable client state (the
  well-formedness invariant `WF` holds for every stream of every reachable
  `Cli` state: `run_AllWF`).  Handler side: the cancel frame.
-/
namespace Proofs.C07
open TunnelModel.LFrame Proofs.ClientShape

variable {α : Type}

/-- every stream of every reachable client state is well-formed -/
theorem reachable_WF (cfg : CCfg) (xs : List (CStim α)) :
    AllWF (Cli.run cfg (Cli.start cfg) xs).1 :=
  run_AllWF cfg xs _ (start_AllWF cfg)

/-- **Cancellation / deadline ends the RPC at the caller in the same step,
    without waiting for the peer**: after the stream's context ends no caller
    call stays blocked (read, send, Header) and the terminal result is set. -/
theorem C07_local_release (sid : Sid) (s : CStream α) (e : CtxErr) (hwf : WF s) :
    (s.ctxCancelled sid e).1.pread = none ∧ (s.ctxCancelled sid e).1.psend = none ∧
    (s.ctxCancelled sid e).1.pheader = false ∧ (s.ctxCancelled sid e).1.done.isSome = true ∧
    (s.ctxCancelled sid e).1.ctxDone.isSome = true :=
  cancel_settled_WF sid s e hwf

/-- **The result is Canceled resp. DeadlineExceeded** when nothing had ended the
    RPC before; exactly one cancel frame tells the server; the stream leaves
    the table. -/
theorem C07_local_result (sid : Sid) (s : CStream α) (e : CtxErr) (hc : s.ctxDone = none) (hd : s.done = none) :
    (s.ctxCancelled sid e).1.done = some (.status (match e with
        | .canceled => mkStatus codeCanceled "context canceled"
        | .deadline => mkStatus codeDeadlineExceeded "context deadline exceeded")) ∧
    (s.ctxCancelled sid e).2.frames = [(sid, .cancel)] ∧ (s.ctxCancelled sid e).1.inTable = false := by
  have h := cancel_sets_result sid s e hc hd
  rw [mapFinishErr_ctx] at h
  exact ⟨h.1, h.2.1, h.2.2.2.1⟩

/-- **Exactly one of the two legal outcomes (1): completion first.** If the
    server's close frame arrives while the RPC is live, the outcome is the
    server's status with its trailers, the receive queue is NOT flushed
    (everything already received stays readable), and no cancel frame is
    sent. -/
theorem C07_close_wins (cfg : CCfg) (sid : Sid) (s : CStream α) (st : Status) (tr : MD) (hd : s.done = none) :
    let r := s.onFrame cfg sid (.close st tr)
    r.1.done = some (if st.code = 0 then .eof else .status st) ∧ r.1.trailers = tr ∧ r.1.doneSignal = true ∧
    r.1.inTable = false ∧ (∃ pre, s.rcv.queue = pre ++ r.1.rcv.queue) ∧
    (s.pread = none → r.1.rcv.queue = s.rcv.queue) ∧ r.2.frames = [] := by
  have h := close_frame_outcome cfg sid s st tr hd
  rw [mapFinishErr_statusErr] at h
  exact ⟨h.1, h.2.1, h.2.2.1, h.2.2.2.1, h.2.2.2.2.2.2.2.1, h.2.2.2.2.2.2.2.2.1, h.2.2.2.2.2.2.2.2.2⟩

/-- **Exactly one of the two legal outcomes (2): the outcome never changes.**
    Whatever happens after a terminal result was set — frames of any kind,
    calls, context ends, in any order — the result stays what it was; a later
    cancellation sends no cancel frame. -/
theorem C07_outcome_never_changes (cfg : CCfg) (sid : Sid) (s0 : CStream α) (e : SErr) (h : s0.done = some e)
    (ops : List (COp α)) : (runOps cfg sid s0 ops).1.done = some e :=
  done_written_once_run cfg sid ops s0 e h

theorem C07_late_cancel_silent (sid : Sid) (s : CStream α) (e : CtxErr) (d : SErr) (hd : s.done = some d) :
    (s.ctxCancelled sid e).1.done = some d ∧ (s.ctxCancelled sid e).2.frames = [] :=
  cancel_keeps_result sid s e d hd

/-- **Frames that arrive for a finished RPC have no effect** (stream object
    level: no output at all; any frame but a window update leaves the state
    untouched — a window update only adds to a window nobody uses any more). -/
theorem C07_finished_stream_quiet (cfg : CCfg) (sid : Sid) (s : CStream α) (hwf : WF s)
    (hd : s.done.isSome = true) :
    (∀ f, (s.onFrame cfg sid f).2 = {}) ∧
    (∀ f, (∀ n, f ≠ S2C.windowUpdate n) → s.onFrame cfg sid f = (s, {})) ∧
    (∀ e, s.ctxCancelled sid e = (s, {})) :=
  finished_stream_quiet_WF cfg sid s hwf hd

/-- … and at the endpoint they are discarded before reaching any stream. -/
theorem C07_late_frames_discarded_client (cfg : CCfg) (c : Cli α) (sid : Sid) (f : S2C α)
    (hfin : c.finished = none) (hph : c.phase = .running) (hnt : c.getStream sid = none)
    (hc : c.streamCreated = true) (hle : sid ≤ c.lastStreamID) : c.onFrame cfg sid f = (c, {}) :=
  Proofs.ClientInv.client_late_frame_ignored cfg c sid f hfin hph hnt hc hle

/-! ### handler side -/

/-- **The cancel frame releases the handler**: its context is cancelled, no
    handler call stays blocked, the stream leaves the table, and the only
    frames emitted are (headers and) one close frame. -/
theorem finish_releases (sid : Sid) (s : SStream α) (hc : s.ctxDone = none) (err' : Option SErr) :
    let x := ((s.finishCore sid err').1.cancelCtx sid .canceled).1
    x.ctxDone.isSome = true ∧ x.pread = none ∧ x.psend = none ∧ x.inTable = false := by
  have hfc := Proofs.C09.finishCore_fields sid s err'
  have hrel := Proofs.C09.cancelCtx_released sid (s.finishCore sid err').1 CtxErr.canceled
  have h2 := hrel.2 (by rw [hfc.1]; exact hc)
  refine ⟨hrel.1, h2.1, h2.2, ?_⟩
  -- `inTable` is cleared by `finishCore` and never set again by `cancelCtx`
  have hcore : ∀ (x : SStream α) e, (x.finishCore sid e).1.inTable = false := by
    intro x e
    simp only [SStream.finishCore, SStream.halfClose]
    split <;> split <;> simp
  have hin : ∀ (x : SStream α) (e : CtxErr), x.inTable = false → (x.cancelCtx sid e).1.inTable = false := by
    intro x e hx
    unfold SStream.cancelCtx
    split
    · exact hx
    · cases hps : x.psend <;> cases hpr : x.pread <;> simp only []
      all_goals (repeat' split)
      all_goals (first | exact hx | exact hcore _ _ | (simp; first | exact hx | exact hcore _ _))
  exact hin _ _ (hcore s err')

theorem C07_cancel_frame_releases_handler (cfg : SCfg) (sid : Sid) (s : SStream α) (hc : s.ctxDone = none) :
    let r := s.onFrame cfg sid .cancel
    r.1.ctxDone.isSome = true ∧ r.1.pread = none ∧ r.1.psend = none ∧ r.1.inTable = false := by
  simp only [SStream.onFrame, SStream.finish]
  exact finish_releases sid s hc _

end Proofs.C07
